(* LockProofs.v — C33: what the GETC / OUT routines deliver under lock contention.
   A lock pattern is a schedule [sc : nat -> env]: during the t-th instruction another thread
   holds the keyboard lock iff [e_kb_locked (sc t)], the display lock iff [e_ds_locked (sc t)]
   (one lock state per instruction, no preemption inside an instruction: the model's granularity).
   The polling loops are handled by induction on the number of polls that find the lock held
   (OsProofs.getc_poll / putc_poll); every eventually-free pattern has such a number
   ([first_free]).  The data access that follows the successful poll happens 2 (KBDR read) resp.
   4 (DDR write) instructions later; the pattern may hold the lock again then — the known class. *)
From Coq Require Import ZArith List Bool Lia FMapPositive.
From Gen Require Import Constants OsImage.
From Model Require Import Tree Bits Word Instr Sim Load.
From Proofs Require Import Ranges SimStep OsProofs OsContracts.
Import ListNotations.
Open Scope Z_scope.

(* every pattern that is free at some poll instant has a first such instant *)
Lemma first_free (locked : nat -> bool) : forall n, locked n = false ->
  exists d, (d <= n)%nat /\ (forall i, (i < d)%nat -> locked i = true) /\ locked d = false.
Proof.
  induction n as [n IH] using lt_wf_ind. intros Hn.
  destruct (forallb locked (seq 0 n)) eqn:E.
  - exists n. split; [lia|]. split; [|exact Hn]. intros i Hi. rewrite forallb_forall in E. apply E. apply in_seq. lia.
  - assert (exists k, (k < n)%nat /\ locked k = false) as (k & Hk & Hf).
    { clear IH Hn. induction n as [|n IHn]; [discriminate|].
      rewrite seq_S, forallb_app in E. cbn in E. destruct (forallb locked (seq 0 n)) eqn:E2.
      - cbn in E. rewrite andb_true_r in E. exists n. split; [lia|exact E].
      - destruct (IHn eq_refl) as (k & Hk & Hf). exists k. split; [lia|exact Hf]. }
    destruct (IH k Hk Hf) as (d & Hd & Hl & Hfd). exists d. split; [lia|]. split; assumption.
Qed.

(* ------------------------------------------------------------------ one GETC call *)
(* the d first polls (instructions t+1, t+3, ...) find the keyboard locked, poll d finds it free;
   [lockr] is the lock state at the KBDR read that follows (instruction t+2d+3) *)
Definition getc_pattern (sc : sched) (t d : nat) (lockr : bool) : Prop :=
  (forall i, (i < d)%nat -> kb_locked_at sc (t + 1 + 2 * i) = true) /\
  kb_locked_at sc (t + 1 + 2 * d) = false /\ kb_locked_at sc (t + 2 * d + 3) = lockr.
Definition out_pattern (sc : sched) (t d : nat) (lockw : bool) : Prop :=
  (forall i, (i < d)%nat -> ds_locked_at sc (t + 3 + 2 * i) = true) /\
  ds_locked_at sc (t + 3 + 2 * d) = false /\ ds_locked_at sc (t + 2 * d + 7) = lockw.

Lemma getc_pattern_exists sc t n : kb_locked_at sc (t + 1 + 2 * n) = false ->
  exists d, (d <= n)%nat /\ getc_pattern sc t d (kb_locked_at sc (t + 2 * d + 3)).
Proof.
  intros H. destruct (first_free (fun i => kb_locked_at sc (t + 1 + 2 * i)) n H) as (d & Hd & Hl & Hf).
  exists d. split; [exact Hd|]. repeat split; assumption.
Qed.
Lemma out_pattern_exists sc t n : ds_locked_at sc (t + 3 + 2 * n) = false ->
  exists d, (d <= n)%nat /\ out_pattern sc t d (ds_locked_at sc (t + 2 * d + 7)).
Proof.
  intros H. destruct (first_free (fun i => ds_locked_at sc (t + 3 + 2 * i)) n H) as (d & Hd & Hl & Hf).
  exists d. split; [exact Hd|]. repeat split; assumption.
Qed.

(* GETC under any pattern: outside the class (lockr = false) the head of the queue is returned
   and consumed; inside (lockr = true) the stale mirror word of KBDR is returned, nothing consumed *)
Theorem getc_under_locks s sp ch q buf sc t d lockr :
  user_ready s sp (ch :: q) buf -> OS_END + 2 <= sp <= USER_START ->
  mget (s_mem s) (s_pc s) = new_init 61472 ->
  getc_pattern sc t d lockr ->
  exists s', run sc t (2 * d + 5) s = (s', OOk) /\ s_pc s' = wrap16 (s_pc s + 1) /\
             (exists r1 r2 r3 r4 r5 r6 r7 x0, s_regs s = [x0; r1; r2; r3; r4; r5; r6; r7] /\
                s_regs s' = [if lockr then mget (s_mem s) KBDR else new_init ch; r1; r2; r3; r4; r5; r6; r7]) /\
             s_devs s' = kdevs (if lockr then ch :: q else q) buf /\
             mget (s_mem s') KBDR = (if lockr then mget (s_mem s) KBDR else new_init ch) /\
             same_user_view s s'.
Proof.
  intros Hur Hsp Hw (Hl & Hf & Hlr). use_mk s Hur. destruct (ready_access K s sp (ch :: q) buf Hur) as [Hpc Hacc].
  destruct (getc_call K sc t d lockr m r0 r1 r2 r3 r4 r5 r6 r7 (s_pc s) (s_psr s) (new_init sp) (s_frame_no s) (s_frames s) (s_instrs s)
              (s_prefetch s) (s_obs s) (s_mcr s) ch q buf sp) as (m' & ins' & obs' & Hrun & Hmeo & Hk).
  { rewrite (ur_user _ _ _ _ Hur). reflexivity. } { exact Hsp. } { subst m. exact (ur_os _ _ _ _ Hur). }
  { exact Hpc. } { exact Hacc. } { subst m. exact Hw. } { exact (ur_fno _ _ _ _ Hur). }
  { exact Hl. } { exact Hf. } { exact Hlr. }
  rewrite <- Hs in Hrun.
  eexists. split; [exact Hrun|]. rewrite Hrs.
  split; [reflexivity|]. split; [exists r1, r2, r3, r4, r5, r6, r7, r0; split; [reflexivity | subst m; reflexivity]|].
  split; [reflexivity|]. split; [subst m; exact Hk|].
  finish_view Hs Hur Hmeo (sp - 2) sp m.
Qed.

(* OUT under any pattern: outside the class the byte is appended once; inside it is dropped *)
Theorem out_under_locks s sp q buf sc t d lockw :
  user_ready s sp q buf -> OS_END + 3 <= sp <= USER_START ->
  mget (s_mem s) (s_pc s) = new_init 61473 ->
  out_pattern sc t d lockw ->
  exists s', run sc t (2 * d + 9) s = (s', OOk) /\ s_pc s' = wrap16 (s_pc s + 1) /\ s_regs s' = s_regs s /\
             s_devs s' = kdevs q (if lockw then buf else buf ++ [w_data (rget (s_regs s) 0) mod 256]) /\
             same_user_view s s'.
Proof.
  intros Hur Hsp Hw (Hl & Hf & Hlw). use_mk s Hur. destruct (ready_access K s sp q buf Hur) as [Hpc Hacc].
  destruct (putc_call K sc t d lockw m r0 r1 r2 r3 r4 r5 r6 r7 (s_pc s) (s_psr s) (new_init sp) (s_frame_no s) (s_frames s) (s_instrs s)
              (s_prefetch s) (s_obs s) (s_mcr s) q buf sp) as (m' & ins' & obs' & Hrun & Hmeo & _).
  { rewrite (ur_user _ _ _ _ Hur). reflexivity. } { exact Hsp. } { subst m. exact (ur_os _ _ _ _ Hur). }
  { exact Hpc. } { exact Hacc. } { subst m. exact Hw. } { exact (ur_fno _ _ _ _ Hur). }
  { exact Hl. } { exact Hf. } { exact Hlw. }
  rewrite <- Hs in Hrun.
  eexists. split; [exact Hrun|]. rewrite Hrs. regs.
  split; [reflexivity|]. split; [reflexivity|]. split; [reflexivity|].
  finish_view Hs Hur Hmeo (sp - 3) sp m.
Qed.

(* ------------------------------------------------------------------ a user-mode PSR stays a user-mode PSR *)
Definition psr16 (p : Z) : Prop := 0 <= p < 65536.
Lemma psr_set_cc_sweep :
  forallb (fun p => forallb (fun k => let x := Z.lor (Z.land p 65528) k in
                                      (0 <=? x) && (x <? 65536) && Bool.eqb (Z.shiftr x 15 =? 0) (Z.shiftr p 15 =? 0)) [1; 2; 4])
          (zrange 0 (Z.to_nat (65536 - 0))) = true.
Proof. vm_compute. reflexivity. Qed.
Lemma psr_set_cc_user p c : psr16 p -> psr16 (psr_set_cc p c) /\ psr_privileged (psr_set_cc p c) = psr_privileged p.
Proof.
  intros Hp. pose proof (forall_range' _ 0 65536 psr_set_cc_sweep p Hp) as H. cbv beta in H.
  unfold psr_set_cc, psr_privileged, psr16. fold (cc_norm c).
  rewrite forallb_forall in H.
  assert (Hin : In (cc_norm c) [1; 2; 4]) by (destruct (cc_norm_cases c) as [-> | [-> | ->]]; cbn; auto).
  specialize (H _ Hin). cbv zeta in H. apply andb_prop in H. destruct H as [H H3]. apply andb_prop in H. destruct H as [H1 H2].
  apply Z.leb_le in H1. apply Z.ltb_lt in H2. apply Bool.eqb_prop in H3. split; [lia | exact H3].
Qed.

(* ------------------------------------------------------------------ the echo loop
     x3001 GETC ; x3002 OUT ; x3003 ADD R1,R1,#-1 ; x3004 BRp x3001 ; x3005 ...          *)
Definition echo_prog (m : mem) : Prop :=
  mget m 12289 = new_init 61472 /\ mget m 12290 = new_init 61473 /\ mget m 12291 = new_init 4735 /\ mget m 12292 = new_init 1020.

(* one iteration under a pattern: (polls before GETC's free poll, lock at KBDR read, polls before OUT's free poll, lock at DDR write) *)
Notation call := (nat * bool * nat * bool)%type.
Definition iter_len (c : call) : nat := let '(dg, _, dw, _) := c in ((2 * dg + 5) + (2 * dw + 9) + 2)%nat.
Fixpoint total_len (cs : list call) : nat := match cs with [] => O | c :: r => (iter_len c + total_len r)%nat end.
Fixpoint matches (sc : sched) (t : nat) (cs : list call) : Prop :=
  match cs with
  | [] => True
  | (dg, lr, dw, lw) :: r =>
      getc_pattern sc t dg lr /\ out_pattern sc (t + (2 * dg + 5)) dw lw /\ matches sc (t + iter_len (dg, lr, dw, lw)) r
  end.
(* what is delivered: (last word read from KBDR, remaining queue, display) *)
Fixpoint echo_spec (cs : list call) (stale : word) (q buf : list Z) : word * list Z * list Z :=
  match cs with
  | [] => (stale, q, buf)
  | (_, lr, _, lw) :: r =>
      match q with
      | [] => (stale, q, buf)
      | ch :: q0 =>
          let v := if lr then stale else new_init ch in
          echo_spec r v (if lr then q else q0) (if lw then buf else buf ++ [w_data v mod 256])
      end
  end.

Lemma echo_loop K sc : forall cs t m a0 r2 r3 r4 r5 r6 r7 psr sp fno frs ins pf obs mcr q buf,
  (1 <= length cs)%nat -> Z.of_nat (length cs) <= 32767 -> (length cs <= length q)%nat ->
  os_mem m -> echo_prog m -> psr16 psr -> psr_privileged psr = false -> OS_END + 3 <= sp <= USER_START -> 0 <= fno ->
  matches sc t cs ->
  exists m' ins' obs' psr',
    run sc t (total_len cs)
      (mk K m [a0; new_init (Z.of_nat (length cs)); r2; r3; r4; r5; r6; r7] 12289 psr (new_init sp) fno frs ins pf obs mcr q buf) =
    (mk K m' [if (length cs =? 0)%nat then a0 else fst (fst (echo_spec cs (mget m KBDR) q buf)); new_init 0; r2; r3; r4; r5; r6; r7] 12293 psr' (new_init sp) fno frs ins' false obs' mcr
        (snd (fst (echo_spec cs (mget m KBDR) q buf))) (snd (echo_spec cs (mget m KBDR) q buf)), OOk)
    /\ mem_eq_outside (sp - 3) sp m m' /\ psr16 psr' /\ psr_privileged psr' = false.
Proof.
  induction cs as [|[[[dg lr] dw] lw] cs IH]; intros t m a0 r2 r3 r4 r5 r6 r7 psr sp fno frs ins pf obs mcr q buf Hn1 Hn2 Hq Hos Hprog Hp16 Husr Hsp Hfno Hmat.
  - cbn in Hn1. lia.
  - destruct q as [|ch q0]; [cbn in Hq; lia|].
    cbn [matches] in Hmat. destruct Hmat as (Hg & Hw & Hmat).
    destruct Hprog as (Hp1 & Hp2 & Hp3 & Hp4).
    cbn [total_len iter_len]. rewrite run_add. rewrite run_add. rewrite run_add.
    assert (HaccU : forall p a, psr_privileged p = false -> 12288 <= a < 65024 -> may_access K p a = true).
    { intros p a _ Ha. unfold may_access, in_user, USER_START, IO_START, sim.USER_START, sim.IO_START.
      replace (12288 <=? a) with true by (symmetry; apply Z.leb_le; lia). replace (a <? 65024) with true by (symmetry; apply Z.ltb_lt; lia).
      cbn. rewrite !orb_true_r. reflexivity. }
    (* GETC *)
    destruct Hg as (Hg1 & Hg2 & Hg3).
    destruct (getc_call K sc t dg lr m a0 (new_init (Z.of_nat (length ((dg, lr, dw, lw) :: cs)))) r2 r3 r4 r5 r6 r7 12289 psr (new_init sp) fno frs ins pf obs mcr ch q0 buf sp)
      as (m1 & ins1 & obs1 & Hrun1 & Hmeo1 & Hk1).
    { rewrite Husr. reflexivity. } { rng. } { exact Hos. } { rng. } { apply HaccU; [exact Husr | lia]. } { exact Hp1. } { exact Hfno. }
    { exact Hg1. } { exact Hg2. } { exact Hg3. }
    rewrite Hrun1. clear Hrun1. cbv iota.
    assert (Hos1 : os_mem m1) by (apply (meo_os (sp - 2) sp m); [rng | exact Hos | exact Hmeo1]).
    set (v := if lr then mget m KBDR else new_init ch).
    (* OUT *)
    destruct Hw as (Hw1 & Hw2 & Hw3).
    destruct (putc_call K sc (t + (2 * dg + 5))%nat dw lw m1 v (new_init (Z.of_nat (length ((dg, lr, dw, lw) :: cs)))) r2 r3 r4 r5 r6 r7
                (wrap16 (12289 + 1)) psr (new_init sp) fno frs ins1 false obs1 mcr (if lr then ch :: q0 else q0) buf sp)
      as (m2 & ins2 & obs2 & Hrun2 & Hmeo2 & Hk2).
    { rewrite Husr. reflexivity. } { exact Hsp. } { exact Hos1. } { cev. rng. } { cev. apply HaccU; [exact Husr | lia]. }
    { cev. rewrite Hmeo1; [exact Hp2 | rng | rng]. } { exact Hfno. }
    { exact Hw1. } { exact Hw2. } { exact Hw3. }
    rewrite Hrun2. clear Hrun2. cbv iota.
    assert (Hmeo2' : mem_eq_outside (sp - 3) sp m m2).
    { apply (meo_trans _ _ m m1 m2); [apply (meo_weaken (sp - 2) sp); [lia | lia | exact Hmeo1] | exact Hmeo2]. }
    assert (Hos2 : os_mem m2) by (apply (meo_os (sp - 3) sp m); [rng | exact Hos | exact Hmeo2']).
    assert (Hprog2 : echo_prog m2).
    { unfold echo_prog. rewrite !Hmeo2' by rng. repeat split; assumption. }
    destruct Hprog2 as (Hq1 & Hq2 & Hq3 & Hq4).
    cev.
    (* x3003 ADD R1,R1,#-1 ; x3004 BRp *)
    rewrite run_S. erewrite step_ADD; [ | rng | apply HaccU; [exact Husr | lia] | exact Hq3 | dec ].
    norm. cbn [operand_of]. ceval (to_u16 (-1)).
    cbn [length]. rewrite Nat2Z.inj_succ. rewrite w_add_init by lia.
    assert (Hw16 : wrap16 (Z.succ (Z.of_nat (length cs)) + 65535) = Z.of_nat (length cs)) by (unfold wrap16; cbn [length] in Hn2; lia).
    cbn [w_data new_init]. rewrite !Hw16.
    destruct (psr_set_cc_user psr (cc_of (Z.of_nat (length cs))) Hp16) as [Hp16' Husr']. rewrite Husr in Husr'.
    rewrite run_S. erewrite step_BR; [ | rng | apply HaccU; [exact Husr' | lia] | exact Hq4 | dec ].
    norm. rewrite cc_norm_cc_of. cbn [run].
    assert (Hstale : mget m2 KBDR = v) by (rewrite Hk2, Hk1; reflexivity).
    destruct cs as [|c2 cs'].
    + (* last iteration: fall through to x3005 *)
      cbn [length total_len echo_spec fst snd Nat.eqb]. cev. cbn [run].
      exists m2, (next_ins (next_ins ins2)), [(12292, OBS_READ)], (psr_set_cc psr 2).
      split; [destruct lr, lw; reflexivity|]. split; [exact Hmeo2'|]. exact (conj Hp16' Husr').
    + assert (Hk : 1 <= Z.of_nat (length (c2 :: cs')) <= 32766) by (cbn [length] in *; lia).
      assert (Hcc : cc_of (Z.of_nat (length (c2 :: cs'))) = 1).
      { unfold cc_of, to_i16. rewrite wrap16_small by lia.
        replace (Z.of_nat (length (c2 :: cs')) <? 32768) with true by (symmetry; apply Z.ltb_lt; lia).
        replace (Z.of_nat (length (c2 :: cs')) <? 0) with false by (symmetry; apply Z.ltb_ge; lia).
        replace (Z.of_nat (length (c2 :: cs')) =? 0) with false by (symmetry; apply Z.eqb_neq; lia). reflexivity. }
      rewrite Hcc. cev.
      destruct (IH (t + (2 * dg + 5 + (2 * dw + 9) + 2))%nat m2 v r2 r3 r4 r5 r6 r7 (psr_set_cc psr 1) sp fno frs
                   (next_ins (next_ins ins2)) false [(12292, OBS_READ)] mcr (if lr then ch :: q0 else q0)
                   (if lw then buf else buf ++ [w_data v mod 256]))
        as (m3 & ins3 & obs3 & psr3 & Hrun3 & Hmeo3 & Hpp3 & Hu3).
      { cbn [length]. lia. } { lia. } { destruct lr; cbn [length] in *; lia. }
      { exact Hos2. } { unfold echo_prog. repeat split; assumption. }
      { rewrite Hcc in Hp16'. exact Hp16'. } { rewrite Hcc in Husr'. exact Husr'. } { exact Hsp. } { exact Hfno. }
      { exact Hmat. }
      rewrite Hrun3. exists m3, ins3, obs3, psr3.
      split.
      * rewrite Hstale. cbn [echo_spec length Nat.eqb]. fold v. destruct lr, lw; reflexivity.
      * split; [apply (meo_trans _ _ m m2 m3); assumption | exact (conj Hpp3 Hu3)].
Qed.

(* ------------------------------------------------------------------ consequences *)
Definition bits_free (cs : list call) : Prop := Forall (fun c => snd (fst (fst c)) = false /\ snd c = false) cs.

(* outside the class every queued byte is received once, in order, and shown once, in order *)
Lemma echo_spec_outside cs : forall stale q buf, bits_free cs -> length cs = length q ->
  snd (fst (echo_spec cs stale q buf)) = [] /\ snd (echo_spec cs stale q buf) = buf ++ map (fun c => c mod 256) q.
Proof.
  induction cs as [|[[[dg lr] dw] lw] cs IH]; intros stale q buf Hb Hl.
  - destruct q; [|discriminate]. cbn. rewrite app_nil_r. auto.
  - destruct q as [|ch q]; [discriminate|]. inversion Hb as [|x y [Hx1 Hx2] Hy]; subst. cbn in Hx1, Hx2. subst lr lw.
    cbn [echo_spec]. cbn [length] in Hl. destruct (IH (new_init ch) q (buf ++ [w_data (new_init ch) mod 256]) Hy ltac:(lia)) as [H1 H2].
    split; [exact H1|]. rewrite H2. cbn [map w_data new_init]. rewrite <- app_assoc. reflexivity.
Qed.

(* every pattern that is free from some instant on determines the polls and lock bits of n iterations *)
Definition eventually_free (sc : sched) : Prop := exists T, forall t, (T <= t)%nat -> kb_locked_at sc t = false /\ ds_locked_at sc t = false.
Lemma matches_exists sc : eventually_free sc -> forall n t, exists cs, length cs = n /\ matches sc t cs.
Proof.
  intros [T HT]. induction n as [|n IH]; intros t.
  - exists []. split; [reflexivity | exact Logic.I].
  - destruct (getc_pattern_exists sc t T) as (dg & _ & Hg). { apply HT. lia. }
    destruct (out_pattern_exists sc (t + (2 * dg + 5)) T) as (dw & _ & Hw). { apply HT. lia. }
    set (c := (dg, kb_locked_at sc (t + 2 * dg + 3), dw, ds_locked_at sc (t + (2 * dg + 5) + 2 * dw + 7))).
    destruct (IH (t + iter_len c)%nat) as (cs & Hlen & Hm).
    exists (c :: cs). split; [cbn [length]; lia|]. subst c. cbn [matches]. repeat split; try apply Hg; try apply Hw. exact Hm.
Qed.

(* the echo loop on a user-level state *)
Theorem echo_under_locks s sp q buf sc t cs :
  user_ready s sp q buf -> OS_END + 3 <= sp <= USER_START -> psr16 (s_psr s) ->
  s_pc s = 12289 -> echo_prog (s_mem s) ->
  rget (s_regs s) 1 = new_init (Z.of_nat (length cs)) ->
  (1 <= length cs)%nat -> Z.of_nat (length cs) <= 32767 -> (length cs <= length q)%nat ->
  matches sc t cs ->
  exists s', run sc t (total_len cs) s = (s', OOk) /\ s_pc s' = 12293 /\
             s_devs s' = kdevs (snd (fst (echo_spec cs (mget (s_mem s) KBDR) q buf))) (snd (echo_spec cs (mget (s_mem s) KBDR) q buf)) /\
             rget (s_regs s') 0 = fst (fst (echo_spec cs (mget (s_mem s) KBDR) q buf)) /\
             (forall a, in_user a = true -> mget (s_mem s') a = mget (s_mem s) a) /\ os_mem (s_mem s').
Proof.
  intros Hur Hsp Hp16 Hpc Hprog Hr1 Hn1 Hn2 Hq Hmat. use_mk s Hur.
  rewrite Hrs, rget1 in Hr1. subst r1.
  destruct (echo_loop K sc cs t m r0 r2 r3 r4 r5 r6 r7 (s_psr s) sp (s_frame_no s) (s_frames s) (s_instrs s) (s_prefetch s) (s_obs s) (s_mcr s) q buf
              Hn1 Hn2 Hq) as (m' & ins' & obs' & psr' & Hrun & Hmeo & _ & _).
  { subst m. exact (ur_os _ _ _ _ Hur). } { subst m. exact Hprog. } { exact Hp16. } { exact (ur_user _ _ _ _ Hur). }
  { exact Hsp. } { exact (ur_fno _ _ _ _ Hur). } { exact Hmat. }
  rewrite <- Hpc in Hrun at 1. rewrite <- Hs in Hrun.
  eexists. split; [exact Hrun|]. cbn [mk s_pc s_devs s_regs s_mem]. regs. subst m.
  replace (length cs =? 0)%nat with false by (symmetry; apply Nat.eqb_neq; lia).
  split; [reflexivity|]. split; [reflexivity|]. split; [reflexivity|]. split.
  - apply (meo_user (sp - 3) sp); [lia | exact Hmeo].
  - apply (meo_os (sp - 3) sp (s_mem s)); [unfold OS_END in *; lia | exact (ur_os _ _ _ _ Hur) | exact Hmeo].
Qed.

Theorem echo_exactly_once s sp q buf sc t cs :
  user_ready s sp q buf -> OS_END + 3 <= sp <= USER_START -> psr16 (s_psr s) ->
  s_pc s = 12289 -> echo_prog (s_mem s) ->
  rget (s_regs s) 1 = new_init (Z.of_nat (length q)) ->
  (1 <= length q)%nat -> Z.of_nat (length q) <= 32767 -> length cs = length q ->
  matches sc t cs -> bits_free cs ->
  exists s', run sc t (total_len cs) s = (s', OOk) /\ s_pc s' = 12293 /\
             s_devs s' = kdevs [] (buf ++ map (fun c => c mod 256) q) /\
             (forall a, in_user a = true -> mget (s_mem s') a = mget (s_mem s) a) /\ os_mem (s_mem s').
Proof.
  intros Hur Hsp Hp16 Hpc Hprog Hr1 Hn1 Hn2 Hlen Hmat Hbits.
  destruct (echo_under_locks s sp q buf sc t cs Hur Hsp Hp16 Hpc Hprog) as (s' & Hrun & Hpc' & Hdev & _ & Hum & Hos');
    try (rewrite Hlen; assumption); try lia; try assumption.
  destruct (echo_spec_outside cs (mget (s_mem s) KBDR) q buf Hbits Hlen) as [E1 E2].
  rewrite E1, E2 in Hdev. exists s'. repeat split; assumption.
Qed.

(* ------------------------------------------------------------------ the witnesses *)
(* the harness program `getc_out` for one byte: x3000 LD R1,CNT ; GETC ; OUT ; ADD R1,R1,#-1 ; BRp x3001 ; HALT ; CNT .fill 1 *)
Definition wit_state : sim :=
  user_machine (mkFlags false false false false) 0 (repeat (new_init 0) 8) 12288 32770
    [(12288, new_init 8709); (12289, new_init 61472); (12290, new_init 61473); (12291, new_init 4735);
     (12292, new_init 1020); (12293, new_init 61477); (12294, new_init 1)] [65] [].
Definition free_env : env := mkEnv false false [].
(* keyboard lock held during instruction 4 only: the KBDR read that follows the ready KBSR poll of instruction 2 *)
Definition wit_kb : sched := fun t => if Nat.eqb t 4 then mkEnv true false [] else free_env.
(* display lock held during instruction 13 only: the DDR write that follows the ready DSR poll of instruction 9 *)
Definition wit_ds : sched := fun t => if Nat.eqb t 13 then mkEnv false true [] else free_env.

Lemma wit_kb_eventually_free : eventually_free wit_kb.
Proof. exists 5%nat. intros t Ht. unfold kb_locked_at, ds_locked_at, wit_kb. replace (Nat.eqb t 4) with false by (symmetry; apply Nat.eqb_neq; lia). split; reflexivity. Qed.
Lemma wit_ds_eventually_free : eventually_free wit_ds.
Proof. exists 14%nat. intros t Ht. unfold kb_locked_at, ds_locked_at, wit_ds. replace (Nat.eqb t 13) with false by (symmetry; apply Nat.eqb_neq; lia). split; reflexivity. Qed.

(* free pattern: the byte is received and shown once *)
Lemma wit_free_run :
  let r := run (fun _ => free_env) 0 17 wit_state in
  snd r = OOk /\ s_pc (fst r) = 12293 /\ s_devs (fst r) = kdevs [] [65].
Proof. vm_compute. repeat split; reflexivity. Qed.
(* keyboard witness: the program receives the stale word 0, byte 65 stays queued, a spurious 0 is shown *)
Lemma wit_kb_run :
  let r := run wit_kb 0 17 wit_state in
  snd r = OOk /\ s_pc (fst r) = 12293 /\ s_devs (fst r) = kdevs [65] [0] /\ rget (s_regs (fst r)) 0 = new_init 0.
Proof. vm_compute. repeat split; reflexivity. Qed.
(* display witness: byte 65 is received but never shown *)
Lemma wit_ds_run :
  let r := run wit_ds 0 17 wit_state in
  snd r = OOk /\ s_pc (fst r) = 12293 /\ s_devs (fst r) = kdevs [] [] /\ rget (s_regs (fst r)) 0 = new_init 65.
Proof. vm_compute. repeat split; reflexivity. Qed.
