(* ObjBinProofs.v — proofs about model/ObjBin.v:
     C17          deser_bin (ser_bin o) = ROk o for every object with obj_inv, for every order of
                  the label / relocation lists (obj_inv is invariant under permutation)
     C19 (bin)    deser_bin never returns RPanic, on any list of integers. *)
From Coq Require Import ZArith List Bool Lia Permutation.
From Model Require Import Tree Text Obj ObjBin.
From Spec Require Import ObjEquiv.
From Proofs Require Import ObjBytesProofs.
Import ListNotations.
Open Scope Z_scope.
Ltac Zify.zify_post_hook ::= Z.div_mod_to_equations.

(* ------------------------------------------------------------------------------------------ *)
(* one chunk: reading what the writer wrote updates the reader state as expected *)
Definition upd_block (b : Z * list (option Z)) (st : bstate) : bstate :=
  mkB (bt_insert (fst b) (snd b) (b_blocks st)) (b_labels st) (b_rel st) (b_dbg st).
Definition upd_label (p : str * symdata) (st : bstate) : bstate :=
  mkB (b_blocks st) (hm_insert str_eqb (fst p) (snd p) (b_labels st)) (b_rel st) (b_dbg st).
Definition upd_lines (p : Z * list Z) (st : bstate) : bstate :=
  mkB (b_blocks st) (b_labels st) (b_rel st)
      (Some (bt_insert (fst p) (snd p) (fst (dbg_or_default (b_dbg st))), snd (dbg_or_default (b_dbg st)))).
Definition upd_src (s : str) (st : bstate) : bstate :=
  mkB (b_blocks st) (b_labels st) (b_rel st)
      (Some (fst (dbg_or_default (b_dbg st)), snd (dbg_or_default (b_dbg st)) ++ s)).
Definition upd_rel (p : Z * str) (st : bstate) : bstate :=
  mkB (b_blocks st) (b_labels st) (hm_insert Z.eqb (fst p) (snd p) (b_rel st)) (b_dbg st).

Lemma forallb_Forall {A} (f : A -> bool) (P : A -> Prop) l :
  (forall x, f x = true -> P x) -> forallb f l = true -> Forall P l.
Proof.
  intros H. induction l as [|x l IH]; intro E; constructor; cbn [forallb] in E; apply andb_true_iff in E; destruct E.
  - auto. - auto.
Qed.

Lemma step_block b rest st f : block_inv b = true ->
  chunk_loop (S f) (ser_block b ++ rest) st = chunk_loop f rest (upd_block b st).
Proof.
  unfold block_inv, in_u16. intro H. btrue. destruct b as [a ws]. cbn [fst snd] in *.
  unfold ser_block. cbn [fst snd]. rewrite <- app_comm_cons. cbn [chunk_loop].
  unfold parse_chunk. cbn [Z.eqb].
  rewrite <- !app_assoc.
  rewrite take_u16 by lia. cbn [rd_bind].
  pose proof (len_nonneg ws).
  rewrite Z.mod_small by lia.
  rewrite take_u16 by lia. cbn [rd_bind].
  rewrite take_slice_app by (unfold len; rewrite length_ser_words; lia). cbn [of_opt rd_bind].
  rewrite chunks3_ser.
  2:{ eapply forallb_Forall; [|eassumption]. intros [v|] Hv; cbn; [btrue; lia|exact Logic.I]. }
  cbn [rd_bind]. reflexivity.
Qed.

Lemma step_label p rest st f : label_inv p = true ->
  chunk_loop (S f) (ser_label p ++ rest) st = chunk_loop f rest (upd_label p st).
Proof.
  unfold label_inv, in_u16. intro H. btrue. destruct p as [n [a s e]]. cbn [fst snd sd_addr sd_src_start sd_external] in *.
  unfold ser_label. cbn [fst snd sd_addr sd_src_start sd_external]. rewrite <- app_comm_cons. cbn [chunk_loop].
  unfold parse_chunk. cbn [Z.eqb].
  rewrite <- !app_assoc.
  rewrite take_u16 by lia. cbn [rd_bind].
  cbn [app]. rewrite take_byte. cbn [rd_bind].
  rewrite take_u64 by lia. cbn [rd_bind].
  pose proof (len_nonneg (utf8_bytes n)). rewrite len_utf8_bytes in *.
  rewrite take_u64 by (unfold USIZE_MAX, ISIZE_MAX in *; lia). cbn [rd_bind].
  rewrite take_slice_app by apply len_utf8_bytes. cbn [of_opt rd_bind].
  rewrite utf8_roundtrip by assumption. cbn [of_opt rd_bind].
  unfold upd_label. cbn [fst snd]. destruct e; reflexivity.
Qed.

Lemma step_lines p rest st f : run_inv p = true ->
  chunk_loop (S f) (ser_lines p ++ rest) st = chunk_loop f rest (upd_lines p st).
Proof.
  unfold run_inv. intro H. btrue. destruct p as [l d]. cbn [fst snd] in *.
  unfold ser_lines. cbn [fst snd]. rewrite <- app_comm_cons. cbn [chunk_loop].
  unfold parse_chunk. cbn [Z.eqb].
  destruct (dbg_or_default (b_dbg st)) as [lm src] eqn:Ed.
  rewrite <- !app_assoc.
  pose proof (len_nonneg d).
  rewrite take_u64 by (unfold USIZE_MAX, ISIZE_MAX in *; lia). cbn [rd_bind].
  rewrite Z.mod_small by lia.
  rewrite take_u16 by lia. cbn [rd_bind].
  rewrite take_slice_app by (unfold len; rewrite length_ser_u16s; lia). cbn [of_opt rd_bind].
  rewrite chunks2_ser.
  2:{ eapply forallb_Forall; [|eassumption]. intros v Hv. unfold in_u16 in Hv. btrue. lia. }
  cbn [rd_bind]. rewrite H0. unfold upd_lines. rewrite Ed. reflexivity.
Qed.

Lemma step_src s rest st f : valid_str s = true -> byte_len s <= ISIZE_MAX ->
  chunk_loop (S f) (ser_src s ++ rest) st = chunk_loop f rest (upd_src s st).
Proof.
  intros Hv Hl. unfold ser_src. rewrite <- app_comm_cons. cbn [chunk_loop].
  unfold parse_chunk. cbn [Z.eqb].
  destruct (dbg_or_default (b_dbg st)) as [lm src] eqn:Ed.
  rewrite <- !app_assoc.
  pose proof (len_nonneg (utf8_bytes s)). rewrite len_utf8_bytes in *.
  rewrite take_u64 by (unfold USIZE_MAX, ISIZE_MAX in *; lia). cbn [rd_bind].
  rewrite take_slice_app by apply len_utf8_bytes. cbn [of_opt rd_bind].
  rewrite utf8_roundtrip by assumption. cbn [of_opt rd_bind].
  unfold upd_src. rewrite Ed. reflexivity.
Qed.

Definition rel_inv (p : Z * str) : bool := in_u16 (fst p) && valid_str (snd p) && (byte_len (snd p) <=? ISIZE_MAX).
Lemma step_rel p rest st f : rel_inv p = true ->
  chunk_loop (S f) (ser_rel p ++ rest) st = chunk_loop f rest (upd_rel p st).
Proof.
  unfold rel_inv, in_u16. intro H. btrue. destruct p as [a n]. cbn [fst snd] in *.
  unfold ser_rel. cbn [fst snd]. rewrite <- app_comm_cons. cbn [chunk_loop].
  unfold parse_chunk. cbn [Z.eqb].
  rewrite <- !app_assoc.
  rewrite take_u16 by lia. cbn [rd_bind].
  pose proof (len_nonneg (utf8_bytes n)). rewrite len_utf8_bytes in *.
  rewrite take_u64 by (unfold USIZE_MAX, ISIZE_MAX in *; lia). cbn [rd_bind].
  rewrite take_slice_app by apply len_utf8_bytes. cbn [of_opt rd_bind].
  rewrite utf8_roundtrip by assumption. cbn [of_opt rd_bind].
  reflexivity.
Qed.

(* a list of chunks of one kind *)
Lemma loop_list {X} (ser : X -> list Z) (upd : X -> bstate -> bstate) (ok : X -> bool) :
  (forall x rest st f, ok x = true -> chunk_loop (S f) (ser x ++ rest) st = chunk_loop f rest (upd x st)) ->
  (forall x, ser x <> []) ->
  forall xs rest st fuel, forallb ok xs = true -> (List.length (flat_map ser xs ++ rest) <= fuel)%nat ->
  exists fuel', (List.length rest <= fuel')%nat /\
    chunk_loop fuel (flat_map ser xs ++ rest) st = chunk_loop fuel' rest (fold_left (fun s x => upd x s) xs st).
Proof.
  intros Hstep Hne. induction xs as [|x xs IH]; intros rest st fuel Hok Hlen.
  - exists fuel. split; [exact Hlen|reflexivity].
  - cbn [forallb] in Hok. apply andb_true_iff in Hok. destruct Hok as [Hx Hxs].
    cbn [flat_map fold_left]. rewrite <- app_assoc.
    cbn [flat_map] in Hlen. rewrite <- app_assoc in Hlen. rewrite app_length in Hlen.
    destruct fuel as [|f].
    { specialize (Hne x). destruct (ser x); [contradiction|cbn in Hlen; lia]. }
    rewrite Hstep by exact Hx.
    apply IH; [exact Hxs|].
    specialize (Hne x). destruct (ser x); [contradiction|cbn [List.length] in Hlen; lia].
Qed.

(* ------------------------------------------------------------------------------------------ *)
(* maps built by successive inserts *)
Lemma bt_insert_last {V} k (v : V) m : Forall (fun p => fst p < k) m -> bt_insert k v m = m ++ [(k, v)].
Proof.
  induction 1 as [|[k' v'] m Hk _ IH]; [reflexivity|]. cbn [fst] in Hk. cbn [bt_insert app].
  replace (k <? k') with false by (symmetry; apply Z.ltb_ge; lia).
  replace (k =? k') with false by (symmetry; apply Z.eqb_neq; lia).
  rewrite IH. reflexivity.
Qed.
Lemma ss_cons a l : strictly_sorted (a :: l) = true -> Forall (fun x => a < x) l /\ strictly_sorted l = true.
Proof.
  revert a. induction l as [|b l IH]; intros a H; [split; [constructor|reflexivity]|].
  cbn [strictly_sorted] in H. apply andb_true_iff in H. destruct H as [Hab Hl]. apply Z.ltb_lt in Hab.
  split; [|exact Hl]. constructor; [exact Hab|]. destruct (IH b Hl) as [Hf _].
  eapply Forall_impl; [|exact Hf]. cbn. intros; lia.
Qed.
Lemma ss_app_lt a x r : strictly_sorted (a ++ x :: r) = true -> Forall (fun y => y < x) a.
Proof.
  induction a as [|y a IH]; intro H; [constructor|].
  cbn [app] in H. destruct (ss_cons _ _ H) as [Hf Hs]. constructor.
  - rewrite Forall_forall in Hf. apply Hf. apply in_or_app. right. left. reflexivity.
  - apply IH. exact Hs.
Qed.
Lemma fold_bt_sorted {V} (l : list (Z * V)) : forall acc, strictly_sorted (map fst (acc ++ l)) = true ->
  fold_left (fun m b => bt_insert (fst b) (snd b) m) l acc = acc ++ l.
Proof.
  induction l as [|[k v] l IH]; intros acc H; [rewrite app_nil_r; reflexivity|].
  cbn [fold_left fst snd]. rewrite bt_insert_last.
  - rewrite IH; rewrite <- app_assoc; [reflexivity|exact H].
  - rewrite map_app in H. cbn [map fst] in H. apply ss_app_lt in H.
    rewrite Forall_forall in *. intros p Hp. apply H. apply in_map. exact Hp.
Qed.

Lemma hm_insert_fresh {K V} (eqb : K -> K -> bool) (Heq : forall a b, eqb a b = true <-> a = b) k (v : V) m :
  ~ In k (map fst m) -> hm_insert eqb k v m = m ++ [(k, v)].
Proof.
  induction m as [|[k' v'] m IH]; intro H; [reflexivity|]. cbn [hm_insert app].
  destruct (eqb k k') eqn:E.
  - apply Heq in E. exfalso. apply H. left. cbn. congruence.
  - rewrite IH; [reflexivity|]. intro Hin. apply H. right. exact Hin.
Qed.
Lemma fold_hm_nodup {K V} (eqb : K -> K -> bool) (Heq : forall a b, eqb a b = true <-> a = b) (l : list (K * V)) :
  forall acc, NoDup (map fst (acc ++ l)) ->
  fold_left (fun m p => hm_insert eqb (fst p) (snd p) m) l acc = acc ++ l.
Proof.
  induction l as [|[k v] l IH]; intros acc H; [rewrite app_nil_r; reflexivity|].
  cbn [fold_left fst snd]. rewrite hm_insert_fresh by
    (try exact Heq; rewrite map_app in H; cbn [map fst] in H; apply NoDup_remove_2 in H; intro Hin; apply H; apply in_or_app; left; exact Hin).
  rewrite IH; rewrite <- app_assoc; [reflexivity|exact H].
Qed.
Lemma nodup_by_NoDup {K} (eqb : K -> K -> bool) (Heq : forall a b, eqb a b = true <-> a = b) l :
  nodup_by eqb l = true <-> NoDup l.
Proof.
  induction l as [|k l IH]; cbn [nodup_by]; [split; [constructor|reflexivity]|].
  rewrite andb_true_iff, negb_true_iff, IH. split.
  - intros [H1 H2]. constructor; [|exact H2]. intro Hin.
    assert (existsb (eqb k) l = true) by (apply existsb_exists; exists k; split; [exact Hin|apply Heq; reflexivity]). congruence.
  - intro H. inversion H as [|? ? Hn Hd]; subst. split; [|exact Hd].
    destruct (existsb (eqb k) l) eqn:E; [|reflexivity]. apply existsb_exists in E. destruct E as [x [Hx E]].
    apply Heq in E. subst. contradiction.
Qed.
Lemma Zeqb_iff a b : (a =? b) = true <-> a = b.
Proof. apply Z.eqb_eq. Qed.

(* the reader state after a list of chunks of one kind *)
Lemma fold_upd_block bs : forall st,
  fold_left (fun s x => upd_block x s) bs st
  = mkB (fold_left (fun m b => bt_insert (fst b) (snd b) m) bs (b_blocks st)) (b_labels st) (b_rel st) (b_dbg st).
Proof. induction bs as [|b bs IH]; intro st; [destruct st; reflexivity|]. cbn [fold_left]. rewrite IH. reflexivity. Qed.
Lemma fold_upd_label ls : forall st,
  fold_left (fun s x => upd_label x s) ls st
  = mkB (b_blocks st) (fold_left (fun m p => hm_insert str_eqb (fst p) (snd p) m) ls (b_labels st)) (b_rel st) (b_dbg st).
Proof. induction ls as [|b bs IH]; intro st; [destruct st; reflexivity|]. cbn [fold_left]. rewrite IH. reflexivity. Qed.
Lemma fold_upd_rel ls : forall st,
  fold_left (fun s x => upd_rel x s) ls st
  = mkB (b_blocks st) (b_labels st) (fold_left (fun m p => hm_insert Z.eqb (fst p) (snd p) m) ls (b_rel st)) (b_dbg st).
Proof. induction ls as [|b bs IH]; intro st; [destruct st; reflexivity|]. cbn [fold_left]. rewrite IH. reflexivity. Qed.
Lemma fold_upd_lines ls : forall st,
  let st' := fold_left (fun s x => upd_lines x s) ls st in
  b_blocks st' = b_blocks st /\ b_labels st' = b_labels st /\ b_rel st' = b_rel st /\
  dbg_or_default (b_dbg st')
  = (fold_left (fun m b => bt_insert (fst b) (snd b) m) ls (fst (dbg_or_default (b_dbg st))), snd (dbg_or_default (b_dbg st))).
Proof.
  induction ls as [|b bs IH]; intro st; cbn [fold_left].
  - repeat split. destruct (dbg_or_default (b_dbg st)); reflexivity.
  - destruct (IH (upd_lines b st)) as (H1 & H2 & H3 & H4). repeat split; try assumption.
Qed.

(* ------------------------------------------------------------------------------------------ *)
(* the tail of the reader on a valid object *)
Lemma strictly_weakly l : strictly_sorted l = true -> weakly_sorted l = true.
Proof.
  induction l as [|a [|b l] IH]; intro H; try reflexivity.
  cbn [strictly_sorted] in H. apply andb_true_iff in H. destruct H as [H1 H2]. apply Z.ltb_lt in H1.
  cbn [weakly_sorted]. apply andb_true_iff. split; [apply Z.leb_le; lia|apply IH; exact H2].
Qed.
Lemma forallb_cons_iff {A} (f : A -> bool) x l : forallb f (x :: l) = true <-> f x = true /\ forallb f l = true.
Proof. cbn [forallb]. apply andb_true_iff. Qed.
Lemma no_overlap_ok ls : forallb run_inv ls = true -> runs_disjoint ls = true -> no_overlap ls = ROk true.
Proof.
  induction ls as [|[l d] ls IH]; [reflexivity|]. destruct ls as [|[l' d'] r]; [reflexivity|].
  intros Hi Hd. apply forallb_cons_iff in Hi. destruct Hi as [Hr Hi].
  change (runs_disjoint ((l, d) :: (l', d') :: r)) with ((l + len d <=? l') && runs_disjoint ((l', d') :: r)) in Hd.
  apply andb_true_iff in Hd. destruct Hd as [Hle Hd].
  change (no_overlap ((l, d) :: (l', d') :: r))
    with (if USIZE_MAX <? l + len d then RPanic else if l + len d <=? l' then no_overlap ((l', d') :: r) else ROk false).
  rewrite Hle. unfold run_inv in Hr. cbn [fst snd] in Hr.
  apply andb_true_iff in Hr. destruct Hr as [Hr _]. apply andb_true_iff in Hr. destruct Hr as [Hr _].
  apply andb_true_iff in Hr. destruct Hr as [_ Hr]. apply Z.leb_le in Hr.
  replace (USIZE_MAX <? l + len d) with false by (symmetry; apply Z.ltb_ge; unfold USIZE_MAX, ISIZE_MAX in *; lia).
  apply IH; assumption.
Qed.
Lemma lsm_from_blocks_ok ls :
  forallb run_inv ls = true -> runs_disjoint ls = true -> lsm_from_blocks ls = ROk ls.
Proof.
  intros Hi Hd. unfold lsm_from_blocks.
  replace (forallb (fun b => fst b + len (snd b) <=? ISIZE_MAX) ls) with true.
  2:{ symmetry. apply forallb_forall. intros p Hp. rewrite forallb_forall in Hi. specialize (Hi p Hp).
      unfold run_inv in Hi. btrue. apply Z.leb_le. lia. }
  cbn [negb]. rewrite no_overlap_ok by assumption. cbn [rd_bind].
  replace (forallb (fun b => weakly_sorted (snd b)) ls) with true; [reflexivity|].
  symmetry. apply forallb_forall. intros p Hp. rewrite forallb_forall in Hi. specialize (Hi p Hp).
  unfold run_inv in Hi. btrue. apply strictly_weakly. assumption.
Qed.

(* ------------------------------------------------------------------------------------------ *)
(* C17 *)
Lemma chunk_loop_nil fuel st : chunk_loop fuel [] st = ROk st.
Proof. destruct fuel; reflexivity. Qed.

Lemma ser_nonempty_block x : ser_block x <> []. Proof. discriminate. Qed.
Lemma ser_nonempty_label x : ser_label x <> []. Proof. discriminate. Qed.
Lemma ser_nonempty_lines x : ser_lines x <> []. Proof. discriminate. Qed.
Lemma ser_nonempty_rel x : ser_rel x <> []. Proof. discriminate. Qed.

Lemma loop_sym blocks fuel (s : symtab) :
  symtab_inv blocks s = true ->
  (List.length (ser_sym (Some s)) <= fuel)%nat ->
  chunk_loop fuel (ser_sym (Some s)) (mkB blocks [] [] None)
  = ROk (mkB blocks (st_labels s) (st_rel s)
             (match st_debug s with Some d => Some (ds_lines d, ds_src d) | None => None end)).
Proof.
  unfold symtab_inv. intros H Hlen. btrue.
  destruct s as [labels rel dbg]. cbn [st_labels st_rel st_debug] in *.
  cbn [ser_sym st_labels st_rel st_debug] in *.
  (* labels *)
  destruct (loop_list ser_label upd_label label_inv step_label ser_nonempty_label labels
              (ser_debug dbg ++ flat_map ser_rel rel) (mkB blocks [] [] None) fuel) as (f1 & Hf1 & E1); [assumption|assumption|].
  rewrite E1. clear E1. rewrite fold_upd_label. cbn [b_blocks b_labels b_rel b_dbg].
  rewrite (fold_hm_nodup str_eqb str_eqb_eq labels []) by (apply (nodup_by_NoDup str_eqb str_eqb_eq); assumption).
  cbn [app].
  assert (Hrel : forall f st0, b_rel st0 = [] -> (List.length (flat_map ser_rel rel) <= f)%nat ->
            chunk_loop f (flat_map ser_rel rel) st0 = ROk (mkB (b_blocks st0) (b_labels st0) rel (b_dbg st0))).
  { intros f st0 Hr0 Hf.
    destruct (loop_list ser_rel upd_rel rel_inv step_rel ser_nonempty_rel rel [] st0 f) as (f2 & _ & E2);
      [assumption|rewrite app_nil_r; exact Hf|].
    rewrite app_nil_r in E2. rewrite E2, chunk_loop_nil, fold_upd_rel, Hr0.
    rewrite (fold_hm_nodup Z.eqb Zeqb_iff rel []) by (apply (nodup_by_NoDup Z.eqb Zeqb_iff); assumption).
    reflexivity. }
  destruct dbg as [[lines src]|]; cbn [ser_debug ds_lines ds_src] in *.
  - unfold debug_inv in *. cbn [ds_lines ds_src] in *. btrue.
    rewrite <- app_assoc in *.
    destruct (loop_list ser_lines upd_lines run_inv step_lines ser_nonempty_lines lines
                (ser_src src ++ flat_map ser_rel rel) (mkB blocks labels [] None) f1) as (f2 & Hf2 & E2); [assumption|assumption|].
    rewrite E2. clear E2.
    destruct (fold_upd_lines lines (mkB blocks labels [] None)) as (B1 & B2 & B3 & B4).
    cbn [b_blocks b_labels b_rel b_dbg dbg_or_default fst snd] in *.
    rewrite (fold_bt_sorted lines []) in B4 by assumption. cbn [app] in B4.
    destruct f2 as [|f2]; [cbn in Hf2; lia|].
    rewrite step_src by (try assumption; lia).
    rewrite Hrel.
    + unfold upd_src. cbn [b_blocks b_labels b_rel b_dbg]. rewrite B1, B2, B4. reflexivity.
    + unfold upd_src. cbn [b_rel]. exact B3.
    + unfold ser_src in Hf2. cbn [app List.length] in Hf2. rewrite !app_length in Hf2. lia.
  - cbn [app] in *. rewrite Hrel; [reflexivity|reflexivity|exact Hf1].
Qed.

Lemma strip_prefix_app p r : strip_prefix p (p ++ r) = Some r.
Proof. induction p as [|x p IH]; [reflexivity|]. cbn [app strip_prefix]. rewrite Z.eqb_refl. exact IH. Qed.

Theorem deser_ser_bin o : obj_inv o = true -> deser_bin (ser_bin o) = ROk o.
Proof.
  unfold obj_inv. intro H. btrue. destruct o as [blocks sym]. cbn [o_blocks o_sym] in *.
  unfold ser_bin, deser_bin. cbn [o_blocks o_sym].
  rewrite !strip_prefix_app.
  destruct (loop_list ser_block upd_block block_inv step_block ser_nonempty_block blocks (ser_sym sym) b_init
              (List.length (flat_map ser_block blocks ++ ser_sym sym))) as (f1 & Hf1 & E1); [assumption|lia|].
  rewrite E1. clear E1. rewrite fold_upd_block. unfold b_init. cbn [b_blocks b_labels b_rel b_dbg].
  rewrite (fold_bt_sorted blocks []) by assumption. cbn [app].
  destruct sym as [s|].
  - rewrite (loop_sym blocks f1 s) by assumption. cbn [rd_bind b_dbg b_blocks b_labels b_rel].
    unfold symtab_inv in *. btrue. destruct s as [labels rel dbg]. cbn [st_labels st_rel st_debug] in *.
    destruct dbg as [[lines src]|]; cbn [ds_lines ds_src].
    + unfold debug_inv in *. cbn [ds_lines ds_src] in *. btrue.
      rewrite lsm_from_blocks_ok by assumption. cbn [rd_bind].
      unfold finish_obj. rewrite H4. cbn [negb is_some_dbg]. rewrite orb_true_r. reflexivity.
    + cbn [rd_bind]. unfold finish_obj. rewrite H4. cbn [negb is_some_dbg] in *. rewrite orb_false_r in *.
      destruct labels; [discriminate|reflexivity].
  - cbn [ser_sym]. rewrite chunk_loop_nil. cbn [rd_bind b_dbg b_blocks b_labels b_rel].
    unfold finish_obj. reflexivity.
Qed.

(* ------------------------------------------------------------------------------------------ *)
(* C19, binary reader: no input makes it panic (nor run out of fuel) *)
Lemma take_slice_inv n bs l r : take_slice n bs = Some (l, r) -> len l = n /\ (List.length r <= List.length bs)%nat.
Proof.
  unfold take_slice. destruct ((n <? 0) || (len bs <? n)) eqn:E; [discriminate|].
  apply orb_false_iff in E. destruct E as [E1 E2]. apply Z.ltb_ge in E1. apply Z.ltb_ge in E2.
  intro H. inversion H; subst. unfold len in *. split.
  - rewrite firstn_length. lia.
  - rewrite skipn_length. lia.
Qed.
Lemma take_int_np n bs : take_int n bs <> RPanic.
Proof.
  unfold take_int. destruct (take_slice n bs) as [[l r]|] eqn:E; [|discriminate].
  apply take_slice_inv in E. destruct E as [E _]. rewrite E, Z.eqb_refl. discriminate.
Qed.
Lemma take_int_inv n bs v r : take_int n bs = ROk (v, r) -> (List.length r <= List.length bs)%nat.
Proof.
  unfold take_int. destruct (take_slice n bs) as [[l r']|] eqn:E; [|discriminate].
  apply take_slice_inv in E. destruct E as [_ E]. destruct (len l =? n); [|discriminate].
  intro H. inversion H; subst. exact E.
Qed.
Lemma chunks3_np_aux n : forall l, (List.length l <= n)%nat -> (exists k, len l = 3 * k) -> chunks3 l <> RPanic.
Proof.
  induction n as [|n IH]; intros l Hl [k Hk].
  - destruct l; [discriminate|cbn in Hl; lia].
  - destruct l as [|a [|b [|c r]]]; try discriminate; unfold len in Hk; cbn [List.length] in *; try lia.
    cbn [chunks3]. assert (Hr : chunks3 r <> RPanic).
    { apply IH; [lia|]. exists (k - 1). unfold len. lia. }
    destruct (chunks3 r); [discriminate|discriminate|contradiction].
Qed.
Lemma chunks3_np l k : len l = 3 * k -> chunks3 l <> RPanic.
Proof. intro H. apply (chunks3_np_aux (List.length l)); [lia|exists k; exact H]. Qed.
Lemma chunks2_np_aux n : forall l, (List.length l <= n)%nat -> (exists k, len l = 2 * k) -> chunks2 l <> RPanic.
Proof.
  induction n as [|n IH]; intros l Hl [k Hk].
  - destruct l; [discriminate|cbn in Hl; lia].
  - destruct l as [|a [|b r]]; try discriminate; unfold len in Hk; cbn [List.length] in *; try lia.
    cbn [chunks2]. assert (Hr : chunks2 r <> RPanic).
    { apply IH; [lia|]. exists (k - 1). unfold len. lia. }
    destruct (chunks2 r); [discriminate|discriminate|contradiction].
Qed.
Lemma chunks2_np l k : len l = 2 * k -> chunks2 l <> RPanic.
Proof. intro H. apply (chunks2_np_aux (List.length l)); [lia|exists k; exact H]. Qed.

Definition good (body : list Z) (r : rd (list Z * bstate)) : Prop :=
  match r with
  | ROk (rest, _) => (List.length rest <= List.length body)%nat
  | RNone => True
  | RPanic => False
  end.

Ltac take_step H :=
  match goal with
  | |- good _ (rd_bind (take_int ?n ?bs) _) =>
      let E := fresh "E" in let v := fresh "v" in let r := fresh "r" in
      destruct (take_int n bs) as [[v r]| |] eqn:E;
      [apply take_int_inv in E; cbn [rd_bind] | exact Logic.I | exfalso; exact (take_int_np _ _ E)]
  | |- good _ (rd_bind (of_opt (take_slice ?n ?bs)) _) =>
      let E := fresh "E" in let v := fresh "l" in let r := fresh "r" in
      destruct (take_slice n bs) as [[v r]|] eqn:E;
      [apply take_slice_inv in E; destruct E as [H E]; cbn [of_opt rd_bind] | exact Logic.I]
  | |- good _ (rd_bind (of_opt (utf8_decode ?raw)) _) =>
      destruct (utf8_decode raw); [cbn [of_opt rd_bind] | exact Logic.I]
  end.

Lemma parse_chunk_good id body st : good body (parse_chunk id body st).
Proof.
  unfold parse_chunk.
  destruct (id =? 0).
  { take_step H. take_step H. take_step H.
    pose proof (chunks3_np l v0 H) as Hc. destruct (chunks3 l); [|exact Logic.I|contradiction].
    cbn [rd_bind good]. lia. }
  destruct (id =? 1).
  { take_step H. take_step H. take_step H. take_step H. take_step H. take_step H. cbn [good]. lia. }
  destruct (id =? 2).
  { destruct (dbg_or_default (b_dbg st)) as [lm src].
    take_step H. take_step H. take_step H.
    pose proof (chunks2_np l v0 H) as Hc. destruct (chunks2 l); [|exact Logic.I|contradiction].
    cbn [rd_bind]. destruct (strictly_sorted a); [cbn [good]; lia|exact Logic.I]. }
  destruct (id =? 3).
  { destruct (dbg_or_default (b_dbg st)) as [lm src].
    take_step H. take_step H. take_step H. cbn [good]. lia. }
  destruct (id =? 4).
  { take_step H. take_step H. take_step H. take_step H. cbn [good]. lia. }
  exact Logic.I.
Qed.

Lemma chunk_loop_np fuel : forall bs st, (List.length bs <= fuel)%nat -> chunk_loop fuel bs st <> RPanic.
Proof.
  induction fuel as [|f IH]; intros bs st Hl.
  - destruct bs; [discriminate|cbn in Hl; lia].
  - destruct bs as [|id body]; [discriminate|]. cbn [chunk_loop].
    pose proof (parse_chunk_good id body st) as G.
    destruct (parse_chunk id body st) as [[rest st']| |]; cbn [rd_bind good] in *; [|discriminate|contradiction].
    apply IH. cbn [List.length] in Hl. lia.
Qed.

Lemma no_overlap_np bl : forallb (fun b => fst b + len (snd b) <=? ISIZE_MAX) bl = true -> no_overlap bl <> RPanic.
Proof.
  induction bl as [|[l d] bl IH]; [discriminate|]. destruct bl as [|[l' d'] r]; [discriminate|].
  intro H. apply forallb_cons_iff in H. destruct H as [Hb H]. cbn [fst snd] in Hb. apply Z.leb_le in Hb.
  change (no_overlap ((l, d) :: (l', d') :: r))
    with (if USIZE_MAX <? l + len d then RPanic else if l + len d <=? l' then no_overlap ((l', d') :: r) else ROk false).
  replace (USIZE_MAX <? l + len d) with false by (symmetry; apply Z.ltb_ge; unfold USIZE_MAX, ISIZE_MAX in *; lia).
  destruct (l + len d <=? l'); [apply IH; exact H|discriminate].
Qed.
Lemma lsm_from_blocks_np bl : lsm_from_blocks bl <> RPanic.
Proof.
  unfold lsm_from_blocks. destruct (forallb (fun b => fst b + len (snd b) <=? ISIZE_MAX) bl) eqn:E; [|discriminate].
  cbn [negb]. pose proof (no_overlap_np bl E) as H.
  destruct (no_overlap bl) as [[|]| |]; cbn [rd_bind]; try discriminate; [|contradiction].
  destruct (forallb (fun b => weakly_sorted (snd b)) bl); discriminate.
Qed.
Lemma finish_obj_np b l r d : finish_obj b l r d <> RPanic.
Proof. unfold finish_obj. destruct (negb (check_relocations b r)); discriminate. Qed.

Theorem deser_bin_total bs : deser_bin bs <> RPanic.
Proof.
  unfold deser_bin.
  destruct (strip_prefix BFMT_MAGIC bs) as [bs1|]; [|discriminate].
  destruct (strip_prefix BFMT_VER bs1) as [bs2|]; [|discriminate].
  pose proof (chunk_loop_np (List.length bs2) bs2 b_init (le_n _)) as H.
  destruct (chunk_loop (List.length bs2) bs2 b_init) as [st| |]; cbn [rd_bind]; [|discriminate|contradiction].
  destruct (b_dbg st) as [[lm src]|]; cbn [rd_bind].
  - pose proof (lsm_from_blocks_np lm) as Hl.
    destruct (lsm_from_blocks lm); cbn [rd_bind]; [apply finish_obj_np|discriminate|contradiction].
  - apply finish_obj_np.
Qed.

(* ------------------------------------------------------------------------------------------ *)
(* obj_inv does not depend on the order of the label / relocation lists *)
Lemma forallb_perm {A} (f : A -> bool) l l' : Permutation l l' -> forallb f l = true -> forallb f l' = true.
Proof.
  intros P H. apply forallb_forall. intros x Hx. rewrite forallb_forall in H. apply H.
  eapply Permutation_in; [apply Permutation_sym; exact P|exact Hx].
Qed.
Lemma nodup_by_perm {K} (eqb : K -> K -> bool) (Heq : forall a b, eqb a b = true <-> a = b) l l' :
  Permutation l l' -> nodup_by eqb l = true -> nodup_by eqb l' = true.
Proof.
  intros P H. apply (nodup_by_NoDup eqb Heq). apply (nodup_by_NoDup eqb Heq) in H.
  eapply Permutation_NoDup; eassumption.
Qed.

Lemma obj_equiv_refl o : obj_equiv o o.
Proof. split; [reflexivity|]. destruct (o_sym o); [|exact Logic.I]. repeat split; apply Permutation_refl. Qed.
Lemma obj_equiv_sym a b : obj_equiv a b -> obj_equiv b a.
Proof.
  intros [H1 H2]. split; [congruence|]. destruct (o_sym a), (o_sym b); try contradiction; [|exact Logic.I].
  destruct H2 as (P1 & P2 & E). repeat split; [apply Permutation_sym; exact P1|apply Permutation_sym; exact P2|congruence].
Qed.

Lemma obj_inv_equiv o o' : obj_equiv o o' -> obj_inv o = true -> obj_inv o' = true.
Proof.
  intros [Hb Hs]. unfold obj_inv. rewrite <- Hb. intro H. btrue.
  repeat (apply andb_true_iff; split); try assumption.
  destruct (o_sym o) as [s|], (o_sym o') as [s'|]; try contradiction; [|reflexivity].
  destruct Hs as (P1 & P2 & E). unfold symtab_inv in *. rewrite <- E. btrue.
  repeat (apply andb_true_iff; split).
  - eapply forallb_perm; eassumption.
  - eapply (nodup_by_perm str_eqb str_eqb_eq); [apply Permutation_map; exact P1|assumption].
  - eapply forallb_perm; eassumption.
  - eapply (nodup_by_perm Z.eqb Zeqb_iff); [apply Permutation_map; exact P2|assumption].
  - unfold check_relocations in *. eapply forallb_perm; eassumption.
  - assumption.
  - destruct (st_labels s) eqn:El.
    + apply Permutation_nil in P1. rewrite P1. assumption.
    + destruct (st_labels s'); [|reflexivity]. apply Permutation_sym, Permutation_nil in P1. discriminate.
Qed.

(* C17: whatever order the writer iterates the two hash maps in, the reader returns an object
   equal to the original up to that order *)
Theorem bin_roundtrip o : obj_inv o = true ->
  forall o_w, obj_equiv o o_w -> exists o', deser_bin (ser_bin o_w) = ROk o' /\ obj_equiv o o'.
Proof.
  intros H o_w E. exists o_w. split; [|exact E].
  apply deser_ser_bin. eapply obj_inv_equiv; eassumption.
Qed.
