(* ObjBytesProofs.v — byte-level lemmas about model/ObjBin.v: little-endian encode/decode,
   take/append, the chunk decoders, UTF-8 encode/decode round trip. *)
From Coq Require Import ZArith List Bool Lia Permutation.
From Model Require Import Tree Text Obj ObjBin.
Import ListNotations.
Open Scope Z_scope.
Ltac Zify.zify_post_hook ::= Z.div_mod_to_equations.

(* ------------------------------------------------------------------------------------------ *)
(* booleans *)
Ltac btrue :=
  repeat match goal with
  | H : _ && _ = true |- _ => apply andb_true_iff in H; destruct H
  | H : negb _ = true |- _ => apply negb_true_iff in H
  | H : (_ <=? _) = true |- _ => apply Z.leb_le in H
  | H : (_ <? _) = true |- _ => apply Z.ltb_lt in H
  | H : (_ =? _) = true |- _ => apply Z.eqb_eq in H
  | H : (_ <=? _) = false |- _ => apply Z.leb_gt in H
  | H : (_ <? _) = false |- _ => apply Z.ltb_ge in H
  | H : (_ =? _) = false |- _ => apply Z.eqb_neq in H
  end.

Lemma len_app {A} (a b : list A) : len (a ++ b) = len a + len b.
Proof. unfold len. rewrite app_length. lia. Qed.
Lemma len_nonneg {A} (a : list A) : 0 <= len a.
Proof. unfold len. lia. Qed.
Lemma len_cons {A} (x : A) l : len (x :: l) = 1 + len l.
Proof. unfold len. cbn [List.length]. lia. Qed.

Lemma str_eqb_refl s : str_eqb s s = true.
Proof. induction s as [|c s IH]; cbn; [reflexivity|]. rewrite Z.eqb_refl. exact IH. Qed.
Lemma str_eqb_eq a : forall b, str_eqb a b = true <-> a = b.
Proof.
  induction a as [|x a IH]; intros [|y b]; cbn; split; intro H; try reflexivity; try discriminate.
  - apply andb_true_iff in H. destruct H as [H1 H2]. apply Z.eqb_eq in H1. apply IH in H2. congruence.
  - inversion H; subst. rewrite Z.eqb_refl. apply IH. reflexivity.
Qed.
Lemma str_eqb_neq a b : str_eqb a b = false <-> a <> b.
Proof.
  split; intro H.
  - intro E. apply str_eqb_eq in E. congruence.
  - destruct (str_eqb a b) eqn:E; [|reflexivity]. apply str_eqb_eq in E. contradiction.
Qed.

(* ------------------------------------------------------------------------------------------ *)
(* little-endian integers *)
Lemma from_le_u16 z : 0 <= z < 65536 -> from_le (u16_le z) = z.
Proof. intro H. unfold u16_le. cbn [from_le]. lia. Qed.
Lemma from_le_u64 z : 0 <= z <= USIZE_MAX -> from_le (u64_le z) = z.
Proof. unfold USIZE_MAX. intro H. unfold u64_le. cbn [from_le]. lia. Qed.
Lemma from_le_byte z : from_le [z] = z.
Proof. cbn [from_le]. lia. Qed.
Lemma length_u16_le z : List.length (u16_le z) = 2%nat.
Proof. reflexivity. Qed.
Lemma length_u64_le z : List.length (u64_le z) = 8%nat.
Proof. reflexivity. Qed.

(* take / append *)
Lemma take_slice_app a r n : len a = n -> take_slice n (a ++ r) = Some (a, r).
Proof.
  intro H. unfold take_slice. rewrite len_app.
  pose proof (len_nonneg a). pose proof (len_nonneg r).
  replace (n <? 0) with false by (symmetry; apply Z.ltb_ge; lia).
  replace (len a + len r <? n) with false by (symmetry; apply Z.ltb_ge; lia).
  cbn [orb]. subst n. unfold len. rewrite Nat2Z.id.
  rewrite firstn_app, Nat.sub_diag, firstn_all, firstn_O, app_nil_r.
  rewrite skipn_app, Nat.sub_diag, skipn_all, skipn_O. reflexivity.
Qed.
Lemma take_int_app a r n : len a = n -> take_int n (a ++ r) = ROk (from_le a, r).
Proof. intro H. unfold take_int. rewrite (take_slice_app a r n H). rewrite H, Z.eqb_refl. reflexivity. Qed.
Lemma take_u16 z r : 0 <= z < 65536 -> take_int 2 (u16_le z ++ r) = ROk (z, r).
Proof. intro H. rewrite take_int_app by reflexivity. rewrite from_le_u16 by exact H. reflexivity. Qed.
Lemma take_u64 z r : 0 <= z <= USIZE_MAX -> take_int 8 (u64_le z ++ r) = ROk (z, r).
Proof. intro H. rewrite take_int_app by reflexivity. rewrite from_le_u64 by exact H. reflexivity. Qed.
Lemma take_byte z r : take_int 1 (z :: r) = ROk (z, r).
Proof. change (z :: r) with ([z] ++ r). rewrite take_int_app by reflexivity. rewrite from_le_byte. reflexivity. Qed.

(* the two chunk decoders invert the writers *)
Definition word_ok (w : option Z) : Prop := match w with Some v => 0 <= v < 65536 | None => True end.
Lemma chunks3_ser ws : Forall word_ok ws -> chunks3 (flat_map ser_word ws) = ROk ws.
Proof.
  induction 1 as [|w ws Hw _ IH]; [reflexivity|].
  cbn [flat_map]. destruct w as [v|]; cbn [ser_word u16_le app chunks3]; rewrite IH; cbn [rd_bind].
  - rewrite Z.eqb_refl. cbn in Hw. f_equal. f_equal. f_equal. lia.
  - reflexivity.
Qed.
Lemma chunks2_ser ws : Forall (fun v => 0 <= v < 65536) ws -> chunks2 (flat_map u16_le ws) = ROk ws.
Proof.
  induction 1 as [|w ws Hw _ IH]; [reflexivity|].
  cbn [flat_map u16_le app chunks2]. rewrite IH. cbn [rd_bind]. f_equal. f_equal. lia.
Qed.
Lemma length_ser_words ws : List.length (flat_map ser_word ws) = (3 * List.length ws)%nat.
Proof. induction ws as [|w ws IH]; [reflexivity|]. cbn [flat_map]. rewrite app_length, IH. destruct w; cbn; lia. Qed.
Lemma length_ser_u16s ws : List.length (flat_map u16_le ws) = (2 * List.length ws)%nat.
Proof. induction ws as [|w ws IH]; [reflexivity|]. cbn [flat_map]. rewrite app_length, IH. cbn. lia. Qed.

(* ------------------------------------------------------------------------------------------ *)
(* UTF-8 *)
Lemma utf8_decode_encode c rest : is_scalar c = true ->
  utf8_decode (utf8_encode c ++ rest) = option_map (cons c) (utf8_decode rest).
Proof.
  unfold is_scalar. intro H. btrue.
  unfold utf8_encode.
  destruct (c <? 128) eqn:E1; btrue.
  { cbn [app utf8_decode].
    replace ((0 <=? c) && (c <? 128)) with true by (symmetry; apply andb_true_iff; split; [apply Z.leb_le|apply Z.ltb_lt]; lia).
    reflexivity. }
  destruct (c <? 2048) eqn:E2; btrue.
  { cbn [app utf8_decode].
    replace ((0 <=? 192 + c / 64) && (192 + c / 64 <? 128)) with false by (symmetry; apply andb_false_iff; right; apply Z.ltb_ge; lia).
    replace ((192 <=? 192 + c / 64) && (192 + c / 64 <? 224)) with true by (symmetry; apply andb_true_iff; split; [apply Z.leb_le|apply Z.ltb_lt]; lia).
    replace ((192 + c / 64 - 192) * 64 + (128 + c mod 64 - 128)) with c by lia.
    unfold is_cont.
    replace ((128 <=? 128 + c mod 64) && (128 + c mod 64 <=? 191) && (128 <=? c)) with true
      by (symmetry; repeat (apply andb_true_iff; split); apply Z.leb_le; lia).
    reflexivity. }
  destruct (c <? 65536) eqn:E3; btrue.
  { cbn [app utf8_decode].
    replace ((0 <=? 224 + c / 4096) && (224 + c / 4096 <? 128)) with false by (symmetry; apply andb_false_iff; right; apply Z.ltb_ge; lia).
    replace ((192 <=? 224 + c / 4096) && (224 + c / 4096 <? 224)) with false by (symmetry; apply andb_false_iff; right; apply Z.ltb_ge; lia).
    replace ((224 <=? 224 + c / 4096) && (224 + c / 4096 <? 240)) with true by (symmetry; apply andb_true_iff; split; [apply Z.leb_le|apply Z.ltb_lt]; lia).
    replace ((224 + c / 4096 - 224) * 4096 + (128 + (c / 64) mod 64 - 128) * 64 + (128 + c mod 64 - 128)) with c by lia.
    unfold is_cont, is_scalar.
    replace ((128 <=? 128 + (c / 64) mod 64) && (128 + (c / 64) mod 64 <=? 191)) with true
      by (symmetry; apply andb_true_iff; split; apply Z.leb_le; lia).
    replace ((128 <=? 128 + c mod 64) && (128 + c mod 64 <=? 191)) with true
      by (symmetry; apply andb_true_iff; split; apply Z.leb_le; lia).
    replace (2048 <=? c) with true by (symmetry; apply Z.leb_le; lia).
    replace (0 <=? c) with true by (symmetry; apply Z.leb_le; lia).
    replace (c <? 1114112) with true by (symmetry; apply Z.ltb_lt; lia).
    rewrite H0. reflexivity. }
  { cbn [app utf8_decode].
    replace ((0 <=? 240 + c / 262144) && (240 + c / 262144 <? 128)) with false by (symmetry; apply andb_false_iff; right; apply Z.ltb_ge; lia).
    replace ((192 <=? 240 + c / 262144) && (240 + c / 262144 <? 224)) with false by (symmetry; apply andb_false_iff; right; apply Z.ltb_ge; lia).
    replace ((224 <=? 240 + c / 262144) && (240 + c / 262144 <? 240)) with false by (symmetry; apply andb_false_iff; right; apply Z.ltb_ge; lia).
    replace ((240 <=? 240 + c / 262144) && (240 + c / 262144 <? 248)) with true by (symmetry; apply andb_true_iff; split; [apply Z.leb_le|apply Z.ltb_lt]; lia).
    replace ((240 + c / 262144 - 240) * 262144 + (128 + (c / 4096) mod 64 - 128) * 4096 + (128 + (c / 64) mod 64 - 128) * 64 + (128 + c mod 64 - 128)) with c by lia.
    unfold is_cont, is_scalar.
    replace ((128 <=? 128 + (c / 4096) mod 64) && (128 + (c / 4096) mod 64 <=? 191)) with true
      by (symmetry; apply andb_true_iff; split; apply Z.leb_le; lia).
    replace ((128 <=? 128 + (c / 64) mod 64) && (128 + (c / 64) mod 64 <=? 191)) with true
      by (symmetry; apply andb_true_iff; split; apply Z.leb_le; lia).
    replace ((128 <=? 128 + c mod 64) && (128 + c mod 64 <=? 191)) with true
      by (symmetry; apply andb_true_iff; split; apply Z.leb_le; lia).
    replace (65536 <=? c) with true by (symmetry; apply Z.leb_le; lia).
    replace (0 <=? c) with true by (symmetry; apply Z.leb_le; lia).
    replace (c <? 1114112) with true by (symmetry; apply Z.ltb_lt; lia).
    rewrite H0. reflexivity. }
Qed.

Lemma utf8_roundtrip s : valid_str s = true -> utf8_decode (utf8_bytes s) = Some s.
Proof.
  unfold valid_str, utf8_bytes. induction s as [|c s IH]; intro H; [reflexivity|].
  cbn [forallb] in H. apply andb_true_iff in H. destruct H as [Hc Hs].
  cbn [flat_map]. rewrite utf8_decode_encode by exact Hc. rewrite IH by exact Hs. reflexivity.
Qed.

Lemma len_utf8_encode c : len (utf8_encode c) = utf8_len c.
Proof. unfold utf8_encode, utf8_len. repeat match goal with |- context [if ?b then _ else _] => destruct b end; reflexivity. Qed.
Lemma len_utf8_bytes s : len (utf8_bytes s) = byte_len s.
Proof.
  unfold utf8_bytes. induction s as [|c s IH]; [reflexivity|].
  cbn [flat_map byte_len]. rewrite len_app, len_utf8_encode, IH. reflexivity.
Qed.

