(* ObjPipelineProofs.v — C19, after the read: an object that satisfies [pipe_ok] (what both
   readers guarantee, and what obj_inv implies for assembled / linked objects) cannot make
   link or load panic (model/ObjPipeline.v). *)
From Coq Require Import ZArith List Bool Lia.
From Model Require Import Tree Text Obj SourceInfo ObjBin ObjPipeline.
From Proofs Require Import ObjBytesProofs ObjBinProofs.
Import ListNotations.
Open Scope Z_scope.
Ltac Zify.zify_post_hook ::= Z.div_mod_to_equations.

Definition block_ok (b : Z * list (option Z)) : bool :=
  (0 <=? fst b) && (fst b <=? 65535) && (len (snd b) <=? 65535).
Definition blocks_ok (bl : list (Z * list (option Z))) : bool :=
  strictly_sorted (map fst bl) && forallb block_ok bl.
Definition debug_ok (d : debug_symbols) : bool :=
  forallb (fun p => fst p + len (snd p) <=? ISIZE_MAX) (ds_lines d) && (byte_len (ds_src d) <=? ISIZE_MAX).
Definition pipe_ok (o : objfile) : bool :=
  blocks_ok (o_blocks o) &&
  match o_sym o with
  | Some st => check_relocations (o_blocks o) (st_rel st)
               && match st_debug st with Some d => debug_ok d | None => true end
  | None => true
  end.

Lemma obj_inv_pipe_ok o : obj_inv o = true -> pipe_ok o = true.
Proof.
  unfold obj_inv. intro H. apply andb_true_iff in H. destruct H as [H Hsym].
  apply andb_true_iff in H. destruct H as [Hbl Hss].
  unfold pipe_ok, blocks_ok. rewrite Hss. cbn [andb].
  assert (E : forallb block_ok (o_blocks o) = true).
  { apply forallb_forall. intros b Hb. rewrite forallb_forall in Hbl. specialize (Hbl b Hb).
    unfold block_inv, in_u16 in Hbl. unfold block_ok. btrue.
    repeat (apply andb_true_iff; split); apply Z.leb_le; lia. }
  rewrite E. cbn [andb].
  destruct (o_sym o) as [st|]; [|reflexivity]. unfold symtab_inv in Hsym. btrue.
  apply andb_true_iff; split; [assumption|].
  destruct (st_debug st) as [d|]; [|reflexivity]. unfold debug_inv in *. unfold debug_ok. btrue.
  apply andb_true_iff; split; [|apply Z.leb_le; lia].
  apply forallb_forall. intros p Hp.
  match goal with Hr : forallb run_inv _ = true |- _ => rewrite forallb_forall in Hr; specialize (Hr p Hp); unfold run_inv in Hr end.
  btrue. apply Z.leb_le. lia.
Qed.

(* ------------------------------------------------------------------------------------------ *)
(* sorted association lists *)
Lemma ss_cons_inv a l : strictly_sorted (a :: l) = true -> strictly_sorted l = true.
Proof. intro H. apply (ss_cons a l H). Qed.
Lemma ss_cons_intro a l : Forall (fun x => a < x) l -> strictly_sorted l = true -> strictly_sorted (a :: l) = true.
Proof.
  destruct l as [|b l]; intros H1 H2; [reflexivity|].
  cbn [strictly_sorted]. apply andb_true_iff. split; [|exact H2]. apply Z.ltb_lt. inversion H1; assumption.
Qed.

Lemma bt_insert_keys {V} k (v : V) m x : In x (map fst (bt_insert k v m)) -> x = k \/ In x (map fst m).
Proof.
  induction m as [|[k' v'] m IH]; cbn [bt_insert map fst In]; intro H.
  - simpl in H. destruct H as [H|H]; [left; congruence|destruct H].
  - destruct (k <? k'); [|destruct (k =? k') eqn:E].
    + cbn [map fst In] in H. destruct H as [H|H]; [left; congruence|right; exact H].
    + cbn [map fst In] in H. apply Z.eqb_eq in E. destruct H as [H|H]; [left; congruence|right; right; exact H].
    + cbn [map fst In] in H. destruct H as [H|H]; [right; left; exact H|].
      destruct (IH H) as [H'|H']; [left; exact H'|right; right; exact H'].
Qed.
Lemma bt_insert_sorted {V} k (v : V) m :
  strictly_sorted (map fst m) = true -> strictly_sorted (map fst (bt_insert k v m)) = true.
Proof.
  induction m as [|[k' v'] m IH]; intro H; [reflexivity|].
  cbn [bt_insert]. destruct (k <? k') eqn:E1; [|destruct (k =? k') eqn:E2].
  - cbn [map fst] in *. apply ss_cons_intro; [|exact H]. apply Z.ltb_lt in E1.
    constructor; [exact E1|]. destruct (ss_cons _ _ H) as [Hf _]. eapply Forall_impl; [|exact Hf]. cbn. intros; lia.
  - apply Z.eqb_eq in E2. subst. exact H.
  - cbn [map fst] in *. destruct (ss_cons _ _ H) as [Hf Hs]. apply ss_cons_intro; [|apply IH; exact Hs].
    apply Z.ltb_ge in E1. apply Z.eqb_neq in E2. rewrite Forall_forall in *. intros x Hx.
    apply bt_insert_keys in Hx. destruct Hx as [->|Hx]; [lia|apply Hf; exact Hx].
Qed.
Lemma bt_mem_false {V} k (m : list (Z * V)) : bt_mem k m = false -> ~ In k (map fst m).
Proof.
  induction m as [|[k' v'] m IH]; [intros _ []|]. cbn [bt_mem map fst In]. intros H [E|Hin].
  - subst. rewrite Z.eqb_refl in H. discriminate.
  - apply orb_false_iff in H. destruct H as [_ H]. exact (IH H Hin).
Qed.
Lemma bt_insert_in_old {V} k (v : V) m p : ~ In k (map fst m) -> In p m -> In p (bt_insert k v m).
Proof.
  induction m as [|[k' v'] m IH]; intros Hn Hp; [destruct Hp|].
  cbn [bt_insert]. destruct (k <? k'); [right; exact Hp|]. destruct (k =? k') eqn:E.
  - apply Z.eqb_eq in E. exfalso. apply Hn. left. cbn. congruence.
  - destruct Hp as [Hp|Hp]; [left; exact Hp|right]. apply IH; [|exact Hp]. intro H. apply Hn. right. exact H.
Qed.
Lemma bt_insert_in_new {V} k (v : V) m : In (k, v) (bt_insert k v m).
Proof.
  induction m as [|[k' v'] m IH]; [left; reflexivity|].
  cbn [bt_insert]. destruct (k <? k'); [left; reflexivity|]. destruct (k =? k'); [left; reflexivity|right; exact IH].
Qed.
Lemma bt_insert_forall {V} (P : Z * V -> Prop) k (v : V) m : P (k, v) -> Forall P m -> Forall P (bt_insert k v m).
Proof.
  intros Hk. induction 1 as [|[k' v'] m Hp Hm IH]; [repeat constructor; exact Hk|].
  cbn [bt_insert]. destruct (k <? k'); [repeat constructor; assumption|].
  destruct (k =? k'); constructor; assumption.
Qed.

Lemma merge_blocks_spec {V} (P : Z * V -> Prop) (b : list (Z * V)) : forall a m,
  merge_blocks a b = Some m ->
  strictly_sorted (map fst a) = true -> Forall P a -> Forall P b ->
  strictly_sorted (map fst m) = true /\ Forall P m /\ (forall p, In p a -> In p m) /\ (forall p, In p b -> In p m).
Proof.
  induction b as [|[k v] b IH]; intros a m H Hs Ha Hb.
  - cbn in H. inversion H; subst. repeat split; try assumption; [intros p Hp; exact Hp|intros p []].
  - cbn [merge_blocks] in H. destruct (bt_mem k a) eqn:E; [discriminate|].
    apply bt_mem_false in E. inversion Hb as [|? ? Hk Hb']; subst.
    destruct (IH _ _ H (bt_insert_sorted k v a Hs) (bt_insert_forall P k v a Hk Ha) Hb') as (S1 & S2 & S3 & S4).
    repeat split; try assumption.
    + intros p Hp. apply S3. apply bt_insert_in_old; assumption.
    + intros p [Hp|Hp]; [subst; apply S3; apply bt_insert_in_new|apply S4; exact Hp].
Qed.

(* ------------------------------------------------------------------------------------------ *)
(* the adjacent-pair check implies that a covered address is found in its own block *)
Fixpoint adj_disjoint {V} (m : list (Z * list V)) : Prop :=
  match m with
  | (a_st, a_bl) :: (((b_st, _) :: _) as r) => a_st + len a_bl <= b_st /\ adj_disjoint r
  | _ => True
  end.
Lemma adjacent_overlap_false {V} (m : list (Z * list V)) :
  strictly_sorted (map fst m) = true -> adjacent_overlap m = Some false -> adj_disjoint m.
Proof.
  induction m as [|[s1 b1] m IH]; [intros; exact Logic.I|]. destruct m as [|[s2 b2] r]; [intros; exact Logic.I|].
  intros Hs H.
  change (adjacent_overlap ((s1, b1) :: (s2, b2) :: r))
    with (if (USIZE_MAX <? s1 + len b1) || (USIZE_MAX <? s2 + len b2) then None
          else if (s1 <? s2 + len b2) && (s2 <? s1 + len b1) then Some true
          else adjacent_overlap ((s2, b2) :: r)) in H.
  destruct ((USIZE_MAX <? s1 + len b1) || (USIZE_MAX <? s2 + len b2)); [discriminate|].
  destruct ((s1 <? s2 + len b2) && (s2 <? s1 + len b1)) eqn:E; [discriminate|].
  change (adj_disjoint ((s1, b1) :: (s2, b2) :: r)) with (s1 + len b1 <= s2 /\ adj_disjoint ((s2, b2) :: r)).
  cbn [map fst] in Hs. pose proof (ss_cons_inv _ _ Hs) as Hs'.
  change (strictly_sorted (s1 :: s2 :: map fst r)) with ((s1 <? s2) && strictly_sorted (s2 :: map fst r)) in Hs.
  apply andb_true_iff in Hs. destruct Hs as [Hlt _]. apply Z.ltb_lt in Hlt.
  split; [|apply IH; assumption].
  pose proof (len_nonneg b2). apply andb_false_iff in E. destruct E as [E|E]; apply Z.ltb_ge in E; lia.
Qed.
Lemma adjacent_overlap_np {V} (m : list (Z * list V)) :
  Forall (fun b => fst b + len (snd b) <= USIZE_MAX) m -> adjacent_overlap m <> None.
Proof.
  induction m as [|[s1 b1] m IH]; [discriminate|]. destruct m as [|[s2 b2] r]; [discriminate|].
  intro H. inversion H as [|? ? H1 H']; subst. inversion H' as [|? ? H2 _]; subst. cbn [fst snd] in *.
  change (adjacent_overlap ((s1, b1) :: (s2, b2) :: r))
    with (if (USIZE_MAX <? s1 + len b1) || (USIZE_MAX <? s2 + len b2) then None
          else if (s1 <? s2 + len b2) && (s2 <? s1 + len b1) then Some true
          else adjacent_overlap ((s2, b2) :: r)).
  replace (USIZE_MAX <? s1 + len b1) with false by (symmetry; apply Z.ltb_ge; lia).
  replace (USIZE_MAX <? s2 + len b2) with false by (symmetry; apply Z.ltb_ge; lia).
  cbn [orb]. destruct ((s1 <? s2 + len b2) && (s2 <? s1 + len b1)); [discriminate|apply IH; exact H'].
Qed.

Lemma block_le_some {V} addr (m : list (Z * V)) s v : block_le addr m = Some (s, v) -> In (s, v) m /\ s <= addr.
Proof.
  induction m as [|[k w] m IH]; [discriminate|]. cbn [block_le].
  destruct (k <=? addr) eqn:E; [|discriminate]. apply Z.leb_le in E.
  destruct (block_le addr m) as [[s' v']|] eqn:E2.
  - intro H. inversion H; subst. destruct (IH eq_refl) as [H1 H2]. split; [right; exact H1|exact H2].
  - intro H. inversion H; subst. split; [left; reflexivity|exact E].
Qed.
Lemma block_le_found {V} addr (m : list (Z * list V)) s v :
  strictly_sorted (map fst m) = true -> adj_disjoint m ->
  In (s, v) m -> s <= addr < s + len v -> block_le addr m = Some (s, v).
Proof.
  induction m as [|[k w] m IH]; intros Hs Hd Hin Ha; [destruct Hin|].
  cbn [map fst] in Hs. destruct (ss_cons _ _ Hs) as [Hf Hs'].
  assert (Hd' : adj_disjoint m) by (destruct m as [|[k2 w2] r]; [exact Logic.I|apply Hd]).
  cbn [block_le]. destruct Hin as [Hin|Hin].
  - inversion Hin; subst. replace (s <=? addr) with true by (symmetry; apply Z.leb_le; lia).
    destruct m as [|[k2 w2] r]; [reflexivity|]. destruct Hd as [Hd _].
    cbn [block_le]. replace (k2 <=? addr) with false by (symmetry; apply Z.leb_gt; lia). reflexivity.
  - assert (k < s) by (rewrite Forall_forall in Hf; apply Hf; apply (in_map fst) in Hin; exact Hin).
    replace (k <=? addr) with true by (symmetry; apply Z.leb_le; lia).
    rewrite (IH Hs' Hd' Hin Ha). reflexivity.
Qed.

Lemma reloc_ok_merged (m : list (Z * list (option Z))) src addr :
  strictly_sorted (map fst m) = true -> adj_disjoint m -> (forall p, In p src -> In p m) ->
  reloc_ok src addr = true -> reloc_ok m addr = true.
Proof.
  intros Hs Hd Hsub H. unfold reloc_ok in *.
  destruct (block_le addr src) as [[s v]|] eqn:E; [|discriminate].
  apply block_le_some in E. destruct E as [Hin Hle]. apply Z.ltb_lt in H.
  rewrite (block_le_found addr m s v Hs Hd (Hsub _ Hin)) by lia. apply Z.ltb_lt. exact H.
Qed.

Lemma hm_insert_keys {K V} (eqb : K -> K -> bool) k (v : V) m p :
  In p (hm_insert eqb k v m) -> p = (k, v) \/ In p m.
Proof.
  induction m as [|[k' v'] m IH]; cbn [hm_insert In]; intro H.
  - simpl in H. destruct H as [H|H]; [left; congruence|destruct H].
  - destruct (eqb k k').
    + destruct H as [H|H]; [left; congruence|right; right; exact H].
    + destruct H as [H|H]; [right; left; exact H|]. destruct (IH H) as [H'|H']; [left; exact H'|right; right; exact H'].
Qed.
Lemma merged_rel_keys (b : list (Z * str)) : forall a p, In p (merged_rel a b) -> In p a \/ In p b.
Proof.
  unfold merged_rel. induction b as [|[k v] b IH]; intros a p H; [left; exact H|].
  cbn [fold_left fst snd] in H. destruct (IH _ _ H) as [H'|H'].
  - apply hm_insert_keys in H'. destruct H' as [->|H']; [right; left; reflexivity|left; exact H'].
  - right. right. exact H'.
Qed.

(* ------------------------------------------------------------------------------------------ *)
(* count_lines is bounded by the length of the text *)
Lemma nl_from_length s : forall off, (List.length (nl_from s off) <= S (List.length s))%nat.
Proof.
  induction s as [|c s IH]; intro off; cbn [nl_from]; [cbn; lia|].
  destruct (c =? 10).
  - specialize (IH (off + 1)). cbn [List.length]. lia.
  - specialize (IH (off + utf8_len c)). cbn [List.length]. lia.
Qed.
Lemma length_le_byte_len s : Z.of_nat (List.length s) <= byte_len s.
Proof.
  induction s as [|c s IH]; [cbn; lia|]. cbn [List.length byte_len].
  assert (1 <= utf8_len c) by (unfold utf8_len; repeat match goal with |- context [if ?b then _ else _] => destruct b end; lia).
  lia.
Qed.
Lemma count_lines_bound s : count_lines s <= byte_len s + 1.
Proof.
  unfold count_lines, nl_indices. pose proof (nl_from_length s 0). pose proof (length_le_byte_len s). lia.
Qed.

(* ------------------------------------------------------------------------------------------ *)
(* link *)
Theorem link_total a b : pipe_ok a = true -> pipe_ok b = true -> link_outcome a b = Completes.
Proof.
  unfold pipe_ok, blocks_ok. intros Ha Hb.
  apply andb_true_iff in Ha. destruct Ha as [Ha Hsa]. apply andb_true_iff in Ha. destruct Ha as [Hssa Hfa].
  apply andb_true_iff in Hb. destruct Hb as [Hb Hsb]. apply andb_true_iff in Hb. destruct Hb as [Hssb Hfb].
  unfold link_outcome.
  destruct (merge_blocks (o_blocks a) (o_blocks b)) as [m|] eqn:Em; [|reflexivity].
  destruct (merge_blocks_spec (fun p => block_ok p = true) (o_blocks b) (o_blocks a) m Em Hssa) as (Sm & Fm & Ina & Inb);
    [apply Forall_forall; apply forallb_forall; exact Hfa|apply Forall_forall; apply forallb_forall; exact Hfb|].
  assert (Hnp : adjacent_overlap m <> None).
  { apply adjacent_overlap_np. eapply Forall_impl; [|exact Fm]. intros p Hp. unfold block_ok in Hp. btrue.
    unfold USIZE_MAX. lia. }
  destruct (adjacent_overlap m) as [[|]|] eqn:Eo; [reflexivity| |contradiction].
  pose proof (adjacent_overlap_false m Sm Eo) as Hd.
  destruct (o_sym a) as [sa|]; [|reflexivity]. destruct (o_sym b) as [sb|]; [|reflexivity].
  apply andb_true_iff in Hsa. destruct Hsa as [Hra Hda]. apply andb_true_iff in Hsb. destruct Hsb as [Hrb Hdb].
  assert (Edbg : match st_debug sa, st_debug sb with Some ad, Some bd => debug_link_panics ad bd | _, _ => false end = false).
  { destruct (st_debug sa) as [ad|]; [|reflexivity]. destruct (st_debug sb) as [bd|]; [|reflexivity].
    unfold debug_link_panics. destruct (existsb _ (ds_lines bd)) eqn:E; [|reflexivity].
    apply existsb_exists in E. destruct E as [p [Hp E]]. apply Z.ltb_lt in E.
    unfold debug_ok in *. btrue.
    match goal with Hl : forallb _ (ds_lines bd) = true |- _ => rewrite forallb_forall in Hl; specialize (Hl p Hp) end.
    btrue. pose proof (count_lines_bound (ds_src ad)). pose proof (len_nonneg (snd p)).
    unfold USIZE_MAX, ISIZE_MAX in *. lia. }
  rewrite Edbg.
  destruct (label_conflict (st_labels sa) (st_labels sb)); [reflexivity|].
  match goal with |- (if ?c then _ else _) = _ => replace c with true; [reflexivity|] end.
  symmetry. apply forallb_forall. intros p Hp. apply orb_true_iff. right.
  apply merged_rel_keys in Hp. unfold check_relocations in *. destruct Hp as [Hp|Hp].
  - rewrite forallb_forall in Hra. specialize (Hra p Hp). exact (reloc_ok_merged m (o_blocks a) (fst p) Sm Hd Ina Hra).
  - rewrite forallb_forall in Hrb. specialize (Hrb p Hp). exact (reloc_ok_merged m (o_blocks b) (fst p) Sm Hd Inb Hrb).
Qed.

(* ------------------------------------------------------------------------------------------ *)
(* load *)
Lemma runs_bound {A} (l : list (option A)) : Forall (fun r => 1 <= snd r <= len l) (runs l).
Proof.
  induction l as [|x l IH]; [constructor|]. cbn [runs]. rewrite len_cons.
  assert (IH' : Forall (fun r : bool * Z => 1 <= snd r <= 1 + len l) (runs l))
    by (apply Forall_forall; intros r Hr; rewrite Forall_forall in IH; specialize (IH r Hr); cbv beta in IH; lia).
  pose proof (len_nonneg l).
  destruct (runs l) as [|[k n] rest].
  { apply Forall_cons; [cbn [snd]; lia|apply Forall_nil]. }
  inversion IH as [|? ? Hn Hrest]; subst. inversion IH' as [|? ? _ Hrest']; subst. cbn [snd] in Hn.
  destruct (Bool.eqb k (is_some x)).
  - apply Forall_cons; [cbn [snd]; lia|exact Hrest'].
  - apply Forall_cons; [cbn [snd]; lia|]. apply Forall_cons; [cbn [snd]; lia|exact Hrest'].
Qed.
Lemma chunk_ok start init k : 0 <= start < 65536 -> 1 <= k <= 65535 -> chunk_panics start init k = false.
Proof.
  intros Hs Hk. unfold chunk_panics. destruct init; [|reflexivity]. cbn [negb].
  rewrite (Z.mod_small k) by lia.
  destruct (start <=? (start + k) mod 65536) eqn:E.
  - apply Z.leb_le in E. apply negb_false_iff. apply Z.eqb_eq. lia.
  - apply Z.leb_gt in E.
    replace (k <? (65536 - start) mod 65536) with false by (symmetry; apply Z.ltb_ge; lia).
    replace (65536 - start =? (65536 - start) mod 65536) with true by (symmetry; apply Z.eqb_eq; lia).
    replace ((start + k) mod 65536 =? k - (65536 - start) mod 65536) with true by (symmetry; apply Z.eqb_eq; lia).
    reflexivity.
Qed.
Lemma copy_block_ok rs : forall start, 0 <= start < 65536 -> Forall (fun r : bool * Z => 1 <= snd r <= 65535) rs ->
  copy_block_panics start rs = false.
Proof.
  induction rs as [|[init k] rs IH]; intros start Hs Hf; [reflexivity|].
  inversion Hf as [|? ? Hk Hf']; subst. cbn [snd] in Hk. cbn [copy_block_panics].
  rewrite chunk_ok by assumption. cbn [orb]. apply IH; [|exact Hf'].
  apply Z.mod_pos_bound. lia.
Qed.
Theorem load_total o : pipe_ok o = true -> load_outcome o = Completes.
Proof.
  unfold pipe_ok, blocks_ok. intro H. apply andb_true_iff in H. destruct H as [H _].
  apply andb_true_iff in H. destruct H as [_ Hf].
  unfold load_outcome. destruct (has_external o); [reflexivity|].
  destruct (existsb _ (o_blocks o)) eqn:E; [|reflexivity]. exfalso.
  apply existsb_exists in E. destruct E as [b [Hb E]]. rewrite forallb_forall in Hf. specialize (Hf b Hb).
  unfold block_ok in Hf. btrue. rewrite copy_block_ok in E; [discriminate|lia|].
  apply Forall_forall. intros r Hr. pose proof (runs_bound (snd b)) as Hrb. rewrite Forall_forall in Hrb.
  specialize (Hrb r Hr). cbv beta in Hrb. lia.
Qed.

(* ------------------------------------------------------------------------------------------ *)
(* what the binary reader guarantees about the object it returns *)
Definition is_byte (b : Z) : Prop := 0 <= b < 256.
Lemma take_slice_bytes n bs l r : Forall is_byte bs -> take_slice n bs = Some (l, r) -> Forall is_byte l /\ Forall is_byte r.
Proof.
  unfold take_slice. destruct ((n <? 0) || (len bs <? n)); [discriminate|]. intros Hb H. inversion H; subst.
  rewrite <- (firstn_skipn (Z.to_nat n) bs) in Hb. apply Forall_app in Hb. exact Hb.
Qed.
Lemma take_int2_bytes bs v r : Forall is_byte bs -> take_int 2 bs = ROk (v, r) -> Forall is_byte r /\ 0 <= v < 65536.
Proof.
  unfold take_int. intros Hb. destruct (take_slice 2 bs) as [[l r']|] eqn:E; [|discriminate].
  destruct (take_slice_bytes _ _ _ _ Hb E) as [Hl Hr]. apply take_slice_inv in E. destruct E as [E _].
  destruct (len l =? 2); [|discriminate]. intro H. inversion H; subst. split; [exact Hr|].
  destruct l as [|x [|y [|z l]]]; unfold len in E; cbn [List.length] in E; try lia.
  inversion Hl as [|? ? Hx Hl']; subst. inversion Hl' as [|? ? Hy _]; subst. unfold is_byte in *. cbn [from_le]. lia.
Qed.
Lemma take_int_bytes n bs v r : Forall is_byte bs -> take_int n bs = ROk (v, r) -> Forall is_byte r.
Proof.
  unfold take_int. intros Hb. destruct (take_slice n bs) as [[l r']|] eqn:E; [|discriminate].
  destruct (take_slice_bytes _ _ _ _ Hb E) as [_ Hr]. destruct (len l =? n); [|discriminate].
  intro H. inversion H; subst. exact Hr.
Qed.
Lemma chunks3_len l : forall ws, chunks3 l = ROk ws -> len l = 3 * len ws.
Proof.
  assert (H : forall n l ws, (List.length l <= n)%nat -> chunks3 l = ROk ws -> len l = 3 * len ws).
  { induction n as [|n IH]; intros l0 ws Hl H.
    - destruct l0; [cbn in H; inversion H; reflexivity|cbn in Hl; lia].
    - destruct l0 as [|a [|b [|c r]]]; try discriminate; [cbn in H; inversion H; reflexivity|].
      cbn [chunks3] in H. destruct (chunks3 r) as [ws'| |] eqn:E; try discriminate.
      cbn [rd_bind] in H. inversion H; subst. cbn [List.length] in Hl.
      specialize (IH r ws' ltac:(lia) E). rewrite !len_cons. lia. }
  intros ws. apply (H (List.length l)). lia.
Qed.

Lemma blocks_ok_insert k v m : block_ok (k, v) = true -> blocks_ok m = true -> blocks_ok (bt_insert k v m) = true.
Proof.
  unfold blocks_ok. intros Hk H. apply andb_true_iff in H. destruct H as [H1 H2].
  apply andb_true_iff. split; [apply bt_insert_sorted; exact H1|].
  apply forallb_forall. apply Forall_forall. apply bt_insert_forall; [exact Hk|].
  apply Forall_forall. apply forallb_forall. exact H2.
Qed.

Ltac inv_take Hb :=
  match goal with
  | H : rd_bind (take_int 2 ?bs) _ = ROk _ |- _ =>
      let E := fresh "E" in let v := fresh "v" in let r := fresh "r" in
      destruct (take_int 2 bs) as [[v r]| |] eqn:E; [|discriminate H|discriminate H];
      let Hb' := fresh "Hb" in let Hv := fresh "Hv" in
      destruct (take_int2_bytes _ _ _ Hb E) as [Hb' Hv]; cbn [rd_bind] in H
  | H : rd_bind (take_int ?n ?bs) _ = ROk _ |- _ =>
      let E := fresh "E" in let v := fresh "v" in let r := fresh "r" in
      destruct (take_int n bs) as [[v r]| |] eqn:E; [|discriminate H|discriminate H];
      let Hb' := fresh "Hb" in
      pose proof (take_int_bytes _ _ _ _ Hb E) as Hb'; cbn [rd_bind] in H
  | H : rd_bind (of_opt (take_slice ?n ?bs)) _ = ROk _ |- _ =>
      let E := fresh "E" in let l := fresh "l" in let r := fresh "r" in
      destruct (take_slice n bs) as [[l r]|] eqn:E; [|discriminate H];
      let Hb' := fresh "Hb" in let Hl := fresh "Hl" in
      destruct (take_slice_bytes _ _ _ _ Hb E) as [Hl Hb']; cbn [of_opt rd_bind] in H
  | H : rd_bind (of_opt (utf8_decode ?raw)) _ = ROk _ |- _ =>
      destruct (utf8_decode raw); [|discriminate H]; cbn [of_opt rd_bind] in H
  end.

Lemma parse_chunk_inv id body st rest st' :
  parse_chunk id body st = ROk (rest, st') -> Forall is_byte body -> blocks_ok (b_blocks st) = true ->
  Forall is_byte rest /\ blocks_ok (b_blocks st') = true.
Proof.
  unfold parse_chunk. intros H Hb Hinv.
  destruct (id =? 0).
  { inv_take Hb. inv_take Hb0. inv_take Hb1.
    destruct (chunks3 l) as [data| |] eqn:Ec; try discriminate. cbn [rd_bind] in H. inversion H; subst.
    split; [assumption|]. cbn [b_blocks]. apply blocks_ok_insert; [|exact Hinv].
    apply chunks3_len in Ec. apply take_slice_inv in E1. destruct E1 as [E1 _].
    unfold block_ok. cbn [fst snd]. repeat (apply andb_true_iff; split); apply Z.leb_le; lia. }
  destruct (id =? 1).
  { inv_take Hb. inv_take Hb0. inv_take Hb1. inv_take Hb2. inv_take Hb3. inv_take Hb4.
    inversion H; subst. split; assumption. }
  destruct (id =? 2).
  { destruct (dbg_or_default (b_dbg st)) as [lm src].
    inv_take Hb. inv_take Hb0. inv_take Hb1.
    destruct (chunks2 l) as [data| |]; try discriminate. cbn [rd_bind] in H.
    destruct (strictly_sorted data); [|discriminate]. inversion H; subst. split; assumption. }
  destruct (id =? 3).
  { destruct (dbg_or_default (b_dbg st)) as [lm src].
    inv_take Hb. inv_take Hb0. inv_take Hb1. inversion H; subst. split; assumption. }
  destruct (id =? 4).
  { inv_take Hb. inv_take Hb0. inv_take Hb1. inv_take Hb2. inversion H; subst. split; assumption. }
  discriminate.
Qed.
Lemma chunk_loop_inv fuel : forall bs st st',
  chunk_loop fuel bs st = ROk st' -> Forall is_byte bs -> blocks_ok (b_blocks st) = true -> blocks_ok (b_blocks st') = true.
Proof.
  induction fuel as [|f IH]; intros bs st st' H Hb Hinv.
  - destruct bs; [inversion H; subst; exact Hinv|discriminate].
  - destruct bs as [|id body]; [inversion H; subst; exact Hinv|]. cbn [chunk_loop] in H.
    destruct (parse_chunk id body st) as [[rest st1]| |] eqn:E; try discriminate. cbn [rd_bind] in H.
    inversion Hb as [|? ? _ Hb']; subst.
    destruct (parse_chunk_inv _ _ _ _ _ E Hb' Hinv) as [Hr Hi]. exact (IH _ _ _ H Hr Hi).
Qed.

Lemma strip_prefix_bytes p : forall bs r, strip_prefix p bs = Some r -> Forall is_byte bs -> Forall is_byte r.
Proof.
  induction p as [|x p IH]; intros bs r H Hb; [inversion H; subst; exact Hb|].
  destruct bs as [|y bs]; [discriminate|]. cbn [strip_prefix] in H. destruct (x =? y); [|discriminate].
  inversion Hb; subst. eapply IH; eassumption.
Qed.

Lemma lsm_from_blocks_ok_inv bl bl' : lsm_from_blocks bl = ROk bl' ->
  bl' = bl /\ forallb (fun b => fst b + len (snd b) <=? ISIZE_MAX) bl = true.
Proof.
  unfold lsm_from_blocks. destruct (forallb (fun b => fst b + len (snd b) <=? ISIZE_MAX) bl); [|discriminate].
  cbn [negb]. destruct (no_overlap bl) as [[|]| |]; cbn [rd_bind]; try discriminate.
  destruct (forallb (fun b => weakly_sorted (snd b)) bl); [|discriminate]. intro H. inversion H. split; reflexivity.
Qed.

(* the source text of an object is a Rust String: at most isize::MAX bytes *)
Definition src_fits (o : objfile) : Prop :=
  match o_sym o with
  | Some st => match st_debug st with Some d => byte_len (ds_src d) <= ISIZE_MAX | None => True end
  | None => True
  end.

Lemma finish_obj_pipe_ok blocks labels rel dbg o :
  finish_obj blocks labels rel dbg = ROk o -> blocks_ok blocks = true ->
  (forall d, dbg = Some d -> forallb (fun p => fst p + len (snd p) <=? ISIZE_MAX) (ds_lines d) = true) ->
  src_fits o -> pipe_ok o = true.
Proof.
  unfold finish_obj. destruct (check_relocations blocks rel) eqn:Er; [|discriminate]. cbn [negb].
  intros H Hb Hd Hs. inversion H; subst. clear H. unfold pipe_ok, src_fits in *. cbn [o_blocks o_sym] in *. rewrite Hb. cbn [andb].
  destruct (negb match labels with [] => true | _ :: _ => false end || is_some_dbg dbg); [|reflexivity].
  cbn [st_rel st_debug] in *. rewrite Er. cbn [andb]. destruct dbg as [d|]; [|reflexivity].
  unfold debug_ok. rewrite (Hd d eq_refl). cbn [andb]. apply Z.leb_le. exact Hs.
Qed.

Theorem deser_bin_pipe_ok bs o : Forall is_byte bs -> deser_bin bs = ROk o -> src_fits o -> pipe_ok o = true.
Proof.
  unfold deser_bin. intros Hb H Hs.
  destruct (strip_prefix BFMT_MAGIC bs) as [bs1|] eqn:E1; [|discriminate].
  destruct (strip_prefix BFMT_VER bs1) as [bs2|] eqn:E2; [|discriminate].
  pose proof (strip_prefix_bytes _ _ _ E2 (strip_prefix_bytes _ _ _ E1 Hb)) as Hb2.
  destruct (chunk_loop (List.length bs2) bs2 b_init) as [st| |] eqn:El; try discriminate. cbn [rd_bind] in H.
  pose proof (chunk_loop_inv _ _ _ _ El Hb2 eq_refl) as Hinv.
  destruct (b_dbg st) as [[lm src]|].
  - destruct (lsm_from_blocks lm) as [lm'| |] eqn:Em; try discriminate. cbn [rd_bind] in H.
    apply lsm_from_blocks_ok_inv in Em. destruct Em as [-> Em].
    eapply finish_obj_pipe_ok; try eassumption. intros d Hd. inversion Hd; subst. exact Em.
  - cbn [rd_bind] in H. eapply finish_obj_pipe_ok; try eassumption. intros d Hd. discriminate.
Qed.
