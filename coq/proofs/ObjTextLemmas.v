(* ObjTextLemmas.v — the building blocks of the text round trip (model/ObjText.v):
     numbers    parse_uint r max (fmt_radix r u n) = Some n  (any n, radix 10 and 16), hex4 (sweep)
     escaping   unescape (escape s) = Some s for every list of scalar values (induction on s)
     rows       split_div / splitn on fields that do not contain " |"
     lines      lines (trim (lines joined with "\n")) gives the lines back *)
From Coq Require Import ZArith List Bool Lia String.
From Model Require Import Tree Text Obj SourceInfo ObjBin ObjText.
From Proofs Require Import Ranges ObjBytesProofs ObjBinProofs.
Import ListNotations.
Open Scope Z_scope.
Ltac Zify.zify_post_hook ::= Z.div_mod_to_equations.

(* ------------------------------------------------------------------------------------------ *)
(* digits *)
Definition is_digit_char (upper : bool) (c : Z) : bool :=
  ((48 <=? c) && (c <=? 57)) || (if upper then (65 <=? c) && (c <=? 70) else (97 <=? c) && (c <=? 102)).

Lemma digit_char_val radix upper d : 0 <= d < radix -> radix <= 16 -> digit_val radix (digit_char upper d) = Some d.
Proof.
  intros Hd Hr. unfold digit_char, digit_val.
  destruct (d <? 10) eqn:E; btrue.
  - replace ((48 <=? 48 + d) && (48 + d <=? 57)) with true by (symmetry; apply andb_true_iff; split; apply Z.leb_le; lia).
    replace (48 + d - 48) with d by lia. replace (d <? radix) with true by (symmetry; apply Z.ltb_lt; lia). reflexivity.
  - destruct upper.
    + replace ((48 <=? 55 + d) && (55 + d <=? 57)) with false by (symmetry; apply andb_false_iff; right; apply Z.leb_gt; lia).
      replace ((97 <=? 55 + d) && (55 + d <=? 122)) with false by (symmetry; apply andb_false_iff; left; apply Z.leb_gt; lia).
      replace ((65 <=? 55 + d) && (55 + d <=? 90)) with true by (symmetry; apply andb_true_iff; split; apply Z.leb_le; lia).
      replace (55 + d - 55) with d by lia. replace (d <? radix) with true by (symmetry; apply Z.ltb_lt; lia). reflexivity.
    + replace ((48 <=? 87 + d) && (87 + d <=? 57)) with false by (symmetry; apply andb_false_iff; right; apply Z.leb_gt; lia).
      replace ((97 <=? 87 + d) && (87 + d <=? 122)) with true by (symmetry; apply andb_true_iff; split; apply Z.leb_le; lia).
      replace (87 + d - 87) with d by lia. replace (d <? radix) with true by (symmetry; apply Z.ltb_lt; lia). reflexivity.
Qed.
Lemma digit_char_is radix upper d : 0 <= d < radix -> radix <= 16 -> is_digit_char upper (digit_char upper d) = true.
Proof.
  intros Hd Hr. unfold digit_char, is_digit_char. destruct (d <? 10) eqn:E; btrue.
  - apply orb_true_iff. left. apply andb_true_iff; split; apply Z.leb_le; lia.
  - apply orb_true_iff. right. destruct upper; apply andb_true_iff; split; apply Z.leb_le; lia.
Qed.

(* the digits of n in front of acc; value and shape *)
Lemma digits_of_spec radix upper : 2 <= radix <= 16 -> forall fuel n acc v,
  0 <= n < 2 ^ Z.of_nat fuel -> (1 <= fuel)%nat ->
  exists ds, digits_of fuel radix upper n acc = ds ++ acc /\ ds <> [] /\ forallb (is_digit_char upper) ds = true /\
             forall rest, digits_val radix (ds ++ rest) v = digits_val radix rest (v * radix ^ len ds + n).
Proof.
  intros Hr. induction fuel as [|f IH]; intros n acc v Hn Hf; [lia|].
  cbn [digits_of].
  assert (Hm : 0 <= n mod radix < radix) by (apply Z.mod_pos_bound; lia).
  destruct (n <? radix) eqn:E; btrue.
  - exists [digit_char upper (n mod radix)]. split; [reflexivity|]. split; [discriminate|].
    split; [cbn [forallb]; rewrite (digit_char_is radix) by lia; reflexivity|].
    intros rest. cbn [app digits_val]. rewrite digit_char_val by lia.
    f_equal. rewrite Z.mod_small by lia. unfold len. cbn [List.length]. change (Z.of_nat 1) with 1. rewrite Z.pow_1_r. reflexivity.
  - assert (Hq : 1 <= n / radix) by (apply Z.div_le_lower_bound; lia).
    assert (Hq2 : n / radix < 2 ^ Z.of_nat f).
    { apply Z.div_lt_upper_bound; [lia|]. rewrite Nat2Z.inj_succ in Hn.
      rewrite Z.pow_succ_r in Hn by apply Nat2Z.is_nonneg.
      assert (0 < 2 ^ Z.of_nat f) by (apply Z.pow_pos_nonneg; [lia|apply Nat2Z.is_nonneg]).
      generalize dependent (2 ^ Z.of_nat f). intros P HP1 HP2. nia. }
    assert (Hf1 : (1 <= f)%nat).
    { destruct f; [cbn in Hq2; lia|lia]. }
    destruct (IH (n / radix) (digit_char upper (n mod radix) :: acc) v ltac:(lia) Hf1) as (ds & E1 & E2 & E3 & E4).
    exists (ds ++ [digit_char upper (n mod radix)]). split; [rewrite E1, <- app_assoc; reflexivity|].
    split; [destruct ds; discriminate|].
    split; [rewrite forallb_app, E3; cbn [forallb]; rewrite (digit_char_is radix) by lia; reflexivity|].
    intros rest. rewrite <- app_assoc. cbn [app]. rewrite E4. cbn [digits_val]. rewrite digit_char_val by lia.
    f_equal. rewrite len_app. change (len [digit_char upper (n mod radix)]) with 1.
    rewrite Z.pow_add_r by (pose proof (len_nonneg ds); lia). rewrite Z.pow_1_r.
    rewrite (Z.div_mod n radix) at 3 by lia. ring.
Qed.

Lemma fmt_radix_spec radix upper n : 2 <= radix <= 16 -> 0 <= n ->
  fmt_radix radix upper n <> [] /\ forallb (is_digit_char upper) (fmt_radix radix upper n) = true /\
  digits_val radix (fmt_radix radix upper n) 0 = Some n.
Proof.
  intros Hr Hn. unfold fmt_radix.
  assert (Hb : 0 <= n < 2 ^ Z.of_nat (S (Z.to_nat (Z.log2 n)))).
  { rewrite Nat2Z.inj_succ, Z2Nat.id by apply Z.log2_nonneg.
    destruct (Z.eq_dec n 0) as [->|Hne]; [cbn; lia|]. pose proof (Z.log2_spec n ltac:(lia)). lia. }
  destruct (digits_of_spec radix upper Hr _ n [] 0 Hb ltac:(lia)) as (ds & E1 & E2 & E3 & E4).
  rewrite E1, app_nil_r. repeat split; try assumption.
  specialize (E4 []). rewrite app_nil_r in E4. rewrite E4. cbn [digits_val]. f_equal; try lia.
Qed.

Lemma digit_not_plus upper c : is_digit_char upper c = true -> (c =? 43) = false.
Proof.
  unfold is_digit_char. intro H. apply Z.eqb_neq. intro E. subst.
  destruct upper; cbn in H; discriminate.
Qed.
Lemma digit_char_digit_val radix upper c : is_digit_char upper c = true -> 16 <= radix -> exists d, digit_val radix c = Some d.
Proof.
  unfold is_digit_char, digit_val. intros H Hr.
  destruct ((48 <=? c) && (c <=? 57)) eqn:E1.
  - btrue. exists (c - 48). replace (c - 48 <? radix) with true by (symmetry; apply Z.ltb_lt; lia). reflexivity.
  - cbn [orb] in H. destruct upper; btrue.
    + replace ((97 <=? c) && (c <=? 122)) with false by (symmetry; apply andb_false_iff; left; apply Z.leb_gt; lia).
      replace ((65 <=? c) && (c <=? 90)) with true by (symmetry; apply andb_true_iff; split; apply Z.leb_le; lia).
      exists (c - 55). replace (c - 55 <? radix) with true by (symmetry; apply Z.ltb_lt; lia). reflexivity.
    + replace ((97 <=? c) && (c <=? 122)) with true by (symmetry; apply andb_true_iff; split; apply Z.leb_le; lia).
      exists (c - 87). replace (c - 87 <? radix) with true by (symmetry; apply Z.ltb_lt; lia). reflexivity.
Qed.

(* C18: every unsigned number printed in base 10 or 16 parses back *)
Theorem parse_fmt_radix radix upper max n : 2 <= radix <= 16 -> 0 <= n <= max ->
  parse_uint radix max (fmt_radix radix upper n) = Some n.
Proof.
  intros Hr Hn. destruct (fmt_radix_spec radix upper n Hr ltac:(lia)) as (H1 & H2 & H3).
  unfold parse_uint. destruct (fmt_radix radix upper n) as [|c [|c2 r]] eqn:E; [contradiction| |].
  - cbn [digits_val] in H3. destruct (digit_val radix c) as [d|]; [|discriminate].
    assert (d = n) by (inversion H3; lia). subst d.
    replace (n <=? max) with true by (symmetry; apply Z.leb_le; lia). reflexivity.
  - cbn [forallb] in H2. apply andb_true_iff in H2. destruct H2 as [Hc _].
    rewrite (digit_not_plus upper c Hc). rewrite H3.
    replace (n <=? max) with true by (symmetry; apply Z.leb_le; lia). reflexivity.
Qed.
Theorem parse_fmt_dec max n : 0 <= n <= max -> parse_uint 10 max (fmt_dec n) = Some n.
Proof. intro H. apply parse_fmt_radix; [lia|exact H]. Qed.

(* hex4: complete sweep over the 16-bit words *)
Definition hex4_good (v : Z) : bool :=
  (match hex2u16 (hex4 v) with Some w => w =? v | None => false end)
  && (len (hex4 v) =? 4)
  && forallb (is_digit_char true) (hex4 v)
  && negb (str_eqb (hex4 v) TFMT_UNINIT).
Lemma hex4_sweep : forall v, 0 <= v < 65536 -> hex4_good v = true.
Proof. apply (forall_range' hex4_good 0 65536). vm_compute. reflexivity. Qed.
Lemma hex4_props v : 0 <= v < 65536 ->
  hex2u16 (hex4 v) = Some v /\ len (hex4 v) = 4 /\ forallb (is_digit_char true) (hex4 v) = true
  /\ str_eqb (hex4 v) TFMT_UNINIT = false.
Proof.
  intro H. pose proof (hex4_sweep v H) as G. unfold hex4_good in G.
  apply andb_true_iff in G. destruct G as [G G4]. apply andb_true_iff in G. destruct G as [G G3].
  apply andb_true_iff in G. destruct G as [G1 G2].
  repeat split.
  - destruct (hex2u16 (hex4 v)) as [w|]; [|discriminate]. apply Z.eqb_eq in G1. congruence.
  - apply Z.eqb_eq. exact G2.
  - exact G3.
  - apply negb_true_iff. exact G4.
Qed.
Theorem hex2u16_hex4 v : 0 <= v < 65536 -> hex2u16 (hex4 v) = Some v.
Proof. intro H. apply (hex4_props v H). Qed.
Theorem maybe_hex2u16_tword w : word_ok w -> maybe_hex2u16 (tword w) = Some w.
Proof.
  destruct w as [v|]; cbn [word_ok tword]; intro H; [|reflexivity].
  destruct (hex4_props v H) as (H1 & _ & _ & H4). unfold maybe_hex2u16. rewrite H4, H1. reflexivity.
Qed.
Lemma hex4_digits v : 0 <= v < 65536 -> forallb (is_digit_char true) (hex4 v) = true.
Proof. intro H. apply (hex4_props v H). Qed.

(* ------------------------------------------------------------------------------------------ *)
(* escape / unescape *)
Lemma option_map_app_nil {A} (x : option (list A)) : option_map (app []) x = x.
Proof. destruct x; reflexivity. Qed.
Lemma option_map_app_one {A} (a : A) (x : option (list A)) : option_map (app [a]) x = option_map (cons a) x.
Proof. destruct x; reflexivity. Qed.

Lemma urun_brace ds : forall acc rest, forallb (fun c => negb (c =? 125)) ds = true ->
  urun (UBrace acc) (ds ++ 125 :: rest)
  = match finish_unicode (rev ds ++ acc) with
    | Some ch => option_map (cons ch) (urun UN rest)
    | None => None
    end.
Proof.
  induction ds as [|c ds IH]; intros acc rest H.
  - cbn [app rev urun ustep]. rewrite Z.eqb_refl. destruct (finish_unicode acc); cbn [option_map]; [|reflexivity].
    apply option_map_app_one.
  - cbn [forallb] in H. apply andb_true_iff in H. destruct H as [Hc Hds]. apply negb_true_iff in Hc.
    cbn [app urun ustep]. rewrite Hc. rewrite option_map_app_nil. rewrite IH by exact Hds.
    cbn [rev]. rewrite <- app_assoc. reflexivity.
Qed.

Lemma hexdigit_not_brace c : is_digit_char false c = true -> negb (c =? 125) = true.
Proof.
  unfold is_digit_char. intro H. apply negb_true_iff. apply Z.eqb_neq. intro E. subst. cbn in H. discriminate.
Qed.

Lemma urun_u_prefix r : urun UN (92 :: 117 :: 123 :: r) = urun (UBrace []) r.
Proof. cbn. rewrite !option_map_app_nil. reflexivity. Qed.

Lemma unescape_esc_char c rest : is_scalar c = true ->
  urun UN (esc_char c ++ rest) = option_map (cons c) (urun UN rest).
Proof.
  intro Hs. unfold esc_char.
  destruct (c =? 9) eqn:E9; [apply Z.eqb_eq in E9; subst; cbn; destruct (urun UN rest); reflexivity|].
  destruct (c =? 13) eqn:E13; [apply Z.eqb_eq in E13; subst; cbn; destruct (urun UN rest); reflexivity|].
  destruct (c =? 10) eqn:E10; [apply Z.eqb_eq in E10; subst; cbn; destruct (urun UN rest); reflexivity|].
  destruct ((c =? 39) || (c =? 34) || (c =? 92)) eqn:Eq.
  { apply orb_true_iff in Eq. destruct Eq as [Eq|Eq]; [apply orb_true_iff in Eq; destruct Eq as [Eq|Eq]|];
      apply Z.eqb_eq in Eq; subst; cbn; destruct (urun UN rest); reflexivity. }
  apply orb_false_iff in Eq. destruct Eq as [Eq E92]. 
  destruct ((32 <=? c) && (c <=? 126)) eqn:Ep.
  { cbn [app urun ustep]. unfold ustep_normal. rewrite E92. apply option_map_app_one. }
  (* \u{hex} *)
  rewrite <- !app_assoc. cbn [app]. rewrite urun_u_prefix.
  assert (Hc : 0 <= c <= U32_MAX) by (unfold is_scalar in Hs; unfold U32_MAX; btrue; lia).
  destruct (fmt_radix_spec 16 false c ltac:(lia) ltac:(lia)) as (H1 & H2 & _).
  rewrite urun_brace.
  2:{ apply forallb_forall. intros x Hx. rewrite forallb_forall in H2. apply hexdigit_not_brace. apply H2. exact Hx. }
  unfold finish_unicode. rewrite app_nil_r, rev_involutive.
  rewrite parse_fmt_radix by lia. rewrite Hs. reflexivity.
Qed.

(* C18: unescaping an escaped text gives the text back, for every list of scalar values *)
Theorem unescape_escape s : valid_str s = true -> unescape (escape s) = Some s.
Proof.
  unfold unescape, escape, valid_str. induction s as [|c s IH]; intro H; [reflexivity|].
  cbn [forallb] in H. apply andb_true_iff in H. destruct H as [Hc Hs].
  cbn [flat_map]. rewrite unescape_esc_char by exact Hc. rewrite IH by exact Hs. reflexivity.
Qed.

(* escaped text is printable ASCII *)
Definition printable (c : Z) : bool := (32 <=? c) && (c <=? 126).
Lemma digit_printable u c : is_digit_char u c = true -> printable c = true.
Proof.
  unfold is_digit_char, printable. intro H. apply orb_true_iff in H.
  destruct H as [H|H]; [|destruct u]; btrue; apply andb_true_iff; split; apply Z.leb_le; lia.
Qed.
Lemma esc_char_printable c : 0 <= c -> forallb printable (esc_char c) = true.
Proof.
  intro Hc. unfold esc_char.
  destruct (c =? 9); [reflexivity|]. destruct (c =? 13); [reflexivity|]. destruct (c =? 10); [reflexivity|].
  destruct ((c =? 39) || (c =? 34) || (c =? 92)) eqn:Eq.
  { apply orb_true_iff in Eq. destruct Eq as [Eq|Eq]; [apply orb_true_iff in Eq; destruct Eq as [Eq|Eq]|];
      apply Z.eqb_eq in Eq; subst; reflexivity. }
  destruct ((32 <=? c) && (c <=? 126)) eqn:Ep; [cbn [forallb]; unfold printable; rewrite Ep; reflexivity|].
  cbn [app forallb]. change (printable 92 && (printable 117 && (printable 123 && forallb printable (fmt_radix 16 false c ++ [125])))) 
    with (forallb printable (fmt_radix 16 false c ++ [125])).
  rewrite forallb_app. cbn [forallb]. change (printable 125 && true) with true. rewrite andb_true_r.
  destruct (fmt_radix_spec 16 false c ltac:(lia) Hc) as (_ & H2 & _).
  apply forallb_forall. intros x Hx. rewrite forallb_forall in H2. eapply digit_printable. apply H2. exact Hx.
Qed.
Lemma escape_printable s : valid_str s = true -> forallb printable (escape s) = true.
Proof.
  unfold valid_str, escape. induction s as [|c s IH]; intro H; [reflexivity|].
  cbn [forallb] in H. apply andb_true_iff in H. destruct H as [Hc Hs]. cbn [flat_map]. rewrite forallb_app.
  rewrite esc_char_printable by (unfold is_scalar in Hc; btrue; lia). rewrite IH by exact Hs. reflexivity.
Qed.

(* ------------------------------------------------------------------------------------------ *)
(* rows: splitting at " | " *)
Fixpoint no_sp_bar (a : str) : bool :=
  match a with
  | c :: ((d :: _) as r) => negb ((c =? 32) && (d =? 124)) && no_sp_bar r
  | _ => true
  end.

Lemma split_div_field a : forall b, no_sp_bar a = true -> split_div (a ++ TABLE_DIV ++ b) = Some (a, b).
Proof.
  induction a as [|c a IH]; intros b H.
  - cbn. reflexivity.
  - assert (Hn : strip_prefix TABLE_DIV ((c :: a) ++ TABLE_DIV ++ b) = None).
    { unfold TABLE_DIV. cbn [app strip_prefix]. destruct (32 =? c) eqn:E1; [|reflexivity]. apply Z.eqb_eq in E1. subst c.
      destruct a as [|d a'].
      - cbn [app]. reflexivity.
      - cbn [app]. cbn [no_sp_bar] in H. apply andb_true_iff in H. destruct H as [H _].
        apply negb_true_iff in H. rewrite Z.eqb_refl in H. cbn [andb] in H.
        cbn [strip_prefix]. rewrite (Z.eqb_sym 124 d), H. reflexivity. }
    assert (Hr : no_sp_bar a = true).
    { destruct a as [|d a']; [reflexivity|]. cbn [no_sp_bar] in H. apply andb_true_iff in H. apply H. }
    change (split_div ((c :: a) ++ TABLE_DIV ++ b))
      with (match strip_prefix TABLE_DIV ((c :: a) ++ TABLE_DIV ++ b) with
            | Some rest => Some ([], rest)
            | None => match split_div (a ++ TABLE_DIV ++ b) with Some (x, y) => Some (c :: x, y) | None => None end
            end).
    rewrite Hn, IH by exact Hr. reflexivity.
Qed.

(* C18 row_split: fields that do not contain " |" survive splitn *)
Theorem row_split3 f1 f2 f3 : no_sp_bar f1 = true -> no_sp_bar f2 = true ->
  splitn 3 (f1 ++ TABLE_DIV ++ f2 ++ TABLE_DIV ++ f3) = [f1; f2; f3].
Proof.
  intros H1 H2. cbn [splitn]. rewrite split_div_field by exact H1. rewrite split_div_field by exact H2. reflexivity.
Qed.
Theorem row_split2 f1 f2 : no_sp_bar f1 = true -> splitn 2 (f1 ++ TABLE_DIV ++ f2) = [f1; f2].
Proof. intros H1. cbn [splitn]. rewrite split_div_field by exact H1. reflexivity. Qed.

Lemma no_bar_no_sp_bar a : forallb (fun c => negb (c =? 124)) a = true -> no_sp_bar a = true.
Proof.
  induction a as [|c [|d a] IH]; intro H; try reflexivity.
  cbn [forallb] in H. apply andb_true_iff in H. destruct H as [_ H]. cbn [no_sp_bar]. apply andb_true_iff. split.
  - cbn [forallb] in H. apply andb_true_iff in H. destruct H as [Hd _]. apply negb_true_iff in Hd. rewrite Hd, andb_false_r. reflexivity.
  - apply IH. exact H.
Qed.
Lemma no_sp_pad_no_sp_bar l k : forallb (fun c => negb (c =? 32)) l = true -> no_sp_bar (l ++ repeat 32 k) = true.
Proof.
  induction l as [|c l IH]; intro H.
  - cbn [app]. apply no_bar_no_sp_bar. apply forallb_forall. intros x Hx. apply repeat_spec in Hx. subst. reflexivity.
  - cbn [forallb] in H. apply andb_true_iff in H. destruct H as [Hc Hl]. apply negb_true_iff in Hc.
    specialize (IH Hl). cbn [app]. destruct (l ++ repeat 32 k) as [|d r] eqn:E; [reflexivity|].
    cbn [no_sp_bar]. rewrite Hc. cbn [andb negb]. exact IH.
Qed.
Lemma digits_no_bar u s : forallb (is_digit_char u) s = true -> forallb (fun c => negb (c =? 124)) s = true.
Proof.
  intro H. apply forallb_forall. intros x Hx. rewrite forallb_forall in H. specialize (H x Hx).
  apply negb_true_iff. apply Z.eqb_neq. intro E. subst. unfold is_digit_char in H. destruct u; cbn in H; discriminate.
Qed.

(* ------------------------------------------------------------------------------------------ *)
(* trim *)
Definition no_ws (s : str) : bool := forallb (fun c => negb (is_ws c)) s.

Lemma trim_start_no_ws s : no_ws s = true -> trim_start s = s.
Proof.
  destruct s as [|c s]; [reflexivity|]. unfold no_ws. cbn [forallb]. intro H. apply andb_true_iff in H. destruct H as [H _].
  apply negb_true_iff in H. cbn [trim_start]. rewrite H. reflexivity.
Qed.
Lemma trim_start_spaces k s : trim_start (repeat 32 k ++ s) = trim_start s.
Proof. induction k as [|k IH]; [reflexivity|]. cbn [repeat app trim_start]. change (is_ws 32) with true. cbn. exact IH. Qed.
Lemma no_ws_rev s : no_ws s = true -> no_ws (rev s) = true.
Proof.
  unfold no_ws. intro H. apply forallb_forall. intros x Hx. rewrite forallb_forall in H. apply H. apply in_rev. exact Hx.
Qed.
Lemma trim_end_no_ws s : no_ws s = true -> trim_end s = s.
Proof. intro H. unfold trim_end. rewrite trim_start_no_ws by (apply no_ws_rev; exact H). apply rev_involutive. Qed.
Lemma rev_repeat {A} (x : A) k : rev (repeat x k) = repeat x k.
Proof.
  induction k as [|k IH]; [reflexivity|]. cbn [repeat rev]. rewrite IH. clear IH.
  induction k as [|k IH]; [reflexivity|]. cbn [repeat app]. rewrite IH. reflexivity.
Qed.
Lemma trim_end_spaces s k : trim_end (s ++ repeat 32 k) = trim_end s.
Proof. unfold trim_end. rewrite rev_app_distr, rev_repeat, trim_start_spaces. reflexivity. Qed.

Lemma trim_start_no_ws_head c s : negb (is_ws c) = true -> trim_start ((c :: s)) = c :: s.
Proof. intro H. apply negb_true_iff in H. cbn [trim_start]. rewrite H. reflexivity. Qed.
Theorem trim_pad_left s k : no_ws s = true -> trim (repeat 32 k ++ s) = s.
Proof. intro H. unfold trim. rewrite trim_start_spaces, trim_start_no_ws by exact H. apply trim_end_no_ws. exact H. Qed.
Theorem trim_pad_right s k : no_ws s = true -> trim (s ++ repeat 32 k) = s.
Proof.
  intro H. unfold trim. destruct s as [|c s].
  - cbn [app]. rewrite <- (app_nil_r (repeat 32 k)), trim_start_spaces. reflexivity.
  - cbn [app]. rewrite trim_start_no_ws_head; [change (c :: s ++ repeat 32 k) with ((c :: s) ++ repeat 32 k); rewrite trim_end_spaces; apply trim_end_no_ws; exact H|].
    unfold no_ws in H. cbn [forallb] in H. apply andb_true_iff in H. destruct H as [H _]. exact H.
Qed.

(* ------------------------------------------------------------------------------------------ *)
(* lines *)
Definition nl_free (l : str) : bool := forallb (fun c => negb (c =? 10) && negb (c =? 13)) l.

Lemma split_nl_nonempty s : split_nl s <> [].
Proof. destruct s as [|c s]; cbn [split_nl]; [discriminate|]. destruct (c =? 10); [discriminate|]. destruct (split_nl s); discriminate. Qed.
Lemma split_nl_app a : forall r, nl_free a = true -> split_nl (a ++ 10 :: r) = a :: split_nl r.
Proof.
  induction a as [|c a IH]; intros r H; [reflexivity|].
  unfold nl_free in H. cbn [forallb] in H. apply andb_true_iff in H. destruct H as [Hc Ha].
  apply andb_true_iff in Hc. destruct Hc as [Hc _]. apply negb_true_iff in Hc.
  cbn [app split_nl]. rewrite Hc. rewrite IH by exact Ha. reflexivity.
Qed.
Lemma split_nl_free a : nl_free a = true -> split_nl a = [a].
Proof.
  induction a as [|c a IH]; intro H; [reflexivity|].
  unfold nl_free in H. cbn [forallb] in H. apply andb_true_iff in H. destruct H as [Hc Ha].
  apply andb_true_iff in Hc. destruct Hc as [Hc _]. apply negb_true_iff in Hc.
  cbn [split_nl]. rewrite Hc. rewrite IH by exact Ha. reflexivity.
Qed.
Lemma strip_cr_free l : nl_free l = true -> strip_cr l = l.
Proof.
  intro H. unfold strip_cr. destruct (rev l) as [|c r] eqn:E; [reflexivity|].
  assert (Hin : In c l) by (apply in_rev; rewrite E; left; reflexivity).
  unfold nl_free in H. rewrite forallb_forall in H. specialize (H c Hin). apply andb_true_iff in H. destruct H as [_ H].
  apply negb_true_iff in H. apply Z.eqb_neq in H.
  destruct c as [|p|p]; try reflexivity. 
  destruct (Z.eq_dec (Z.pos p) 13) as [E13|E13]; [contradiction|].
  (* c is not 13: the match falls through *)
  destruct p as [p|p|]; try reflexivity; destruct p as [p|p|]; try reflexivity; destruct p as [p|p|]; try reflexivity;
    destruct p as [p|p|]; try reflexivity. contradiction E13. reflexivity.
Qed.

Theorem lines_join Ls : forall Llast, Forall (fun l => nl_free l = true) Ls -> nl_free Llast = true -> Llast <> [] ->
  lines (flat_map ln Ls ++ Llast) = Ls ++ [Llast].
Proof.
  unfold lines. induction Ls as [|l Ls IH]; intros Llast HL Hl Hne.
  - cbn [flat_map app]. rewrite split_nl_free by exact Hl. destruct Llast; [contradiction|reflexivity].
  - inversion HL as [|? ? Hl0 HL']; subst. cbn [flat_map]. unfold ln at 1. rewrite <- !app_assoc. cbn [app].
    rewrite split_nl_app by exact Hl0.
    pose proof (split_nl_nonempty (flat_map ln Ls ++ Llast)) as Hn.
    specialize (IH Llast HL' Hl Hne).
    destruct (split_nl (flat_map ln Ls ++ Llast)) as [|x xs]; [contradiction|].
    change (lines_of (l :: x :: xs)) with (strip_cr l :: lines_of (x :: xs)).
    rewrite IH, strip_cr_free by exact Hl0. reflexivity.
Qed.

Lemma trim_start_ws_app w s : forallb is_ws w = true -> trim_start (w ++ s) = trim_start s.
Proof.
  induction w as [|c w IH]; intro H; [reflexivity|]. cbn [forallb] in H. apply andb_true_iff in H. destruct H as [Hc Hw].
  cbn [app trim_start]. rewrite Hc. apply IH. exact Hw.
Qed.
Lemma forallb_rev {A} (f : A -> bool) l : forallb f l = true -> forallb f (rev l) = true.
Proof. intro H. apply forallb_forall. intros x Hx. rewrite forallb_forall in H. apply H. apply in_rev. exact Hx. Qed.

(* trimming a text whose first character and last-but-white-space character are not white space *)
Theorem trim_text h x c w : is_ws h = false -> is_ws c = false -> forallb is_ws w = true ->
  trim ((h :: x) ++ [c] ++ w) = (h :: x) ++ [c] /\ trim ([c] ++ w) = [c].
Proof.
  intros Hh Hc Hw. split.
  - unfold trim. cbn [app trim_start]. rewrite Hh. unfold trim_end.
    replace (h :: x ++ c :: w) with ((h :: x ++ [c]) ++ w) by (cbn [app]; rewrite <- app_assoc; reflexivity).
    rewrite rev_app_distr. rewrite trim_start_ws_app by (apply forallb_rev; exact Hw).
    change (h :: x ++ [c]) with ((h :: x) ++ [c]). rewrite rev_app_distr. cbn [rev app trim_start]. rewrite Hc.
    change (c :: rev x ++ [h]) with (rev [c] ++ rev (h :: x)). rewrite <- rev_app_distr, rev_involutive. reflexivity.
  - unfold trim. cbn [app trim_start]. rewrite Hc. unfold trim_end.
    change (c :: w) with ([c] ++ w). rewrite rev_app_distr. rewrite trim_start_ws_app by (apply forallb_rev; exact Hw).
    cbn [rev app trim_start]. rewrite Hc. reflexivity.
Qed.
