(* ObjTextProofs.v — C18: the text reader applied to what the text writer produced gives the
   object back (up to the order of the two hash maps), for every object with text_inv.
   Structure: (1) the lines survive trim / lines / the comment-and-blank filter, (2) the lines are
   grouped into the four sections, (3) each section parses back to what was written. *)
From Coq Require Import ZArith List Bool Lia String Permutation.
From Model Require Import Tree Text Obj SourceInfo ObjBin ObjText.
From Spec Require Import ObjEquiv.
From Proofs Require Import Ranges ObjBytesProofs ObjBinProofs ObjTextLemmas SrcLinesProofs LineMapProofs ObjPipelineProofs.
Import ListNotations.
Open Scope Z_scope.
Ltac Zify.zify_post_hook ::= Z.div_mod_to_equations.

(* ------------------------------------------------------------------------------------------ *)
(* classes of lines *)
(* a "solid" line: not empty, no white space, all characters printable, first character none of
   '#', '.', '=' -- kept by the filter, never opens a group, never taken for a divider *)
Definition first_ok (l : str) : bool :=
  match l with [] => false | c :: _ => negb (is_ws c) && negb ((c =? 35) || (c =? 46) || (c =? 61)) end.

Lemma trim_start_has_nonws c w : is_ws c = false -> In c w -> trim_start w <> [].
Proof.
  intro H. induction w as [|y w IH]; intros Hin; [destruct Hin|]. cbn [trim_start].
  destruct (is_ws y) eqn:Ey; [|discriminate]. destruct Hin as [->|Hin]; [congruence|]. apply IH. exact Hin.
Qed.
Lemma trim_nonempty_first c l : is_ws c = false -> trim (c :: l) <> [].
Proof.
  intro H. unfold trim. cbn [trim_start]. rewrite H. unfold trim_end. intro E.
  apply (f_equal (@rev Z)) in E. rewrite rev_involutive in E. cbn [rev] in E.
  revert E. apply (trim_start_has_nonws c); [exact H|]. apply in_or_app. right. left. reflexivity.
Qed.
Lemma trim_start_head w c t : trim_start w = c :: t -> is_ws c = false.
Proof.
  induction w as [|y w IH]; [discriminate|]. cbn [trim_start]. destruct (is_ws y) eqn:Ey; [exact IH|].
  intro E. inversion E; subst. exact Ey.
Qed.
Lemma keep_line_intro l c : In c l -> is_ws c = false -> starts_with 35 l = false -> keep_line l = true.
Proof.
  intros Hin Hc Hs. unfold keep_line. rewrite Hs. cbn [negb andb].
  destruct (trim l) as [|x r] eqn:E; [|reflexivity]. exfalso. unfold trim in E.
  pose proof (trim_start_has_nonws c l Hc Hin) as Hne.
  destruct (trim_start l) as [|c' t] eqn:E2; [contradiction|].
  apply trim_start_head in E2. exact (trim_nonempty_first c' t E2 ltac:(unfold trim; cbn [trim_start]; rewrite E2; exact E)).
Qed.

(* lines made of digits / hex digits / "????" / labels *)
Definition body_ok (l : str) : Prop :=
  keep_line l = true /\ starts_with 46 l = false /\ starts_with 61 l = false.

Lemma digit_not_ws u c : is_digit_char u c = true -> is_ws c = false.
Proof.
  unfold is_digit_char, is_ws. intro H. apply orb_true_iff in H.
  destruct H as [H|H]; [|destruct u]; btrue;
    repeat match goal with |- _ || _ = false => apply orb_false_iff; split end;
    try (apply andb_false_iff; (left; apply Z.leb_gt; lia) || (right; apply Z.leb_gt; lia));
    try (apply Z.eqb_neq; lia).
Qed.
Lemma digits_body_ok u l : l <> [] -> forallb (is_digit_char u) l = true -> body_ok l.
Proof.
  intros Hne H. destruct l as [|c l]; [contradiction|]. cbn [forallb] in H. apply andb_true_iff in H. destruct H as [Hc _].
  assert (Hc' : c <> 35 /\ c <> 46 /\ c <> 61).
  { unfold is_digit_char in Hc. apply orb_true_iff in Hc. destruct Hc as [Hc|Hc]; [|destruct u]; btrue; lia. }
  repeat split.
  - apply (keep_line_intro _ c); [left; reflexivity|eapply digit_not_ws; exact Hc|]. cbn. apply Z.eqb_neq. lia.
  - cbn. apply Z.eqb_neq. lia.
  - cbn. apply Z.eqb_neq. lia.
Qed.
Lemma hex4_body_ok v : 0 <= v < 65536 -> body_ok (hex4 v).
Proof.
  intro H. destruct (hex4_props v H) as (_ & H2 & H3 & _). apply (digits_body_ok true); [|exact H3].
  intro E. rewrite E in H2. discriminate.
Qed.
Lemma fmt_dec_body_ok n : 0 <= n -> body_ok (fmt_dec n).
Proof. intro H. destruct (fmt_radix_spec 10 false n ltac:(lia) H) as (H1 & H2 & _). apply (digits_body_ok false); assumption. Qed.
Lemma tword_body_ok w : word_ok w -> body_ok (tword w).
Proof. destruct w as [v|]; cbn [word_ok tword]; intro H; [apply hex4_body_ok; exact H|]. repeat split. Qed.

(* ------------------------------------------------------------------------------------------ *)
(* the .TEXT section *)
Lemma take_words_ser ws rest : Forall word_ok ws ->
  take_words (List.length ws) (map tword ws ++ rest) = Some (ws, rest).
Proof.
  induction 1 as [|w ws Hw _ IH]; [reflexivity|].
  cbn [List.length take_words map app]. rewrite maybe_hex2u16_tword by exact Hw. rewrite IH. reflexivity.
Qed.

Lemma bt_mem_fresh {V} k (m : list (Z * V)) : Forall (fun p => fst p < k) m -> bt_mem k m = false.
Proof.
  induction 1 as [|[k' v'] m Hk _ IH]; [reflexivity|]. cbn [fst] in Hk. cbn [bt_mem]. rewrite IH.
  replace (k =? k') with false by (symmetry; apply Z.eqb_neq; lia). reflexivity.
Qed.

Lemma text_group_ser blocks : forall acc fuel rest,
  forallb block_inv blocks = true -> strictly_sorted (map fst (acc ++ blocks)) = true ->
  (List.length (flat_map tblock_lines blocks ++ rest) <= fuel)%nat ->
  exists fuel', (List.length rest <= fuel')%nat /\
    text_group fuel (flat_map tblock_lines blocks ++ rest) acc = text_group fuel' rest (acc ++ blocks).
Proof.
  induction blocks as [|[a ws] blocks IH]; intros acc fuel rest Hi Hs Hl.
  - exists fuel. rewrite app_nil_r. split; [exact Hl|reflexivity].
  - apply forallb_cons_iff in Hi. destruct Hi as [Hb Hi]. unfold block_inv, in_u16 in Hb. cbn [fst snd] in Hb. btrue.
    cbn [flat_map] in *. unfold tblock_lines at 1. cbn [fst snd]. rewrite <- app_assoc. cbn [app].
    assert (Hlb : List.length (tblock_lines (a, ws)) = S (S (List.length ws))) by (cbn [tblock_lines List.length fst snd]; rewrite map_length; reflexivity).
    destruct fuel as [|f]; [rewrite ?app_length in Hl; lia|].
    cbn [text_group]. rewrite hex2u16_hex4 by lia.
    pose proof (len_nonneg ws).
    rewrite parse_fmt_dec by (unfold U16_MAX; lia).
    unfold len. rewrite Nat2Z.id. rewrite take_words_ser.
    2:{ eapply forallb_Forall; [|eassumption]. intros [v|] Hv; cbn; [unfold in_u16 in Hv; btrue; lia|exact Logic.I]. }
    assert (Hlt : Forall (fun p : Z * list (option Z) => fst p < a) acc).
    { rewrite map_app in Hs. cbn [map fst] in Hs. apply ss_app_lt in Hs. rewrite Forall_forall in *.
      intros p Hp. apply Hs. apply in_map. exact Hp. }
    rewrite bt_mem_fresh by exact Hlt. rewrite bt_insert_last by exact Hlt.
    destruct (IH (acc ++ [(a, ws)]) f rest Hi) as (f' & Hf' & E).
    + rewrite <- app_assoc. exact Hs.
    + rewrite ?app_length in *. lia.
    + exists f'. split; [exact Hf'|]. rewrite E. rewrite <- app_assoc. reflexivity.
Qed.

(* ------------------------------------------------------------------------------------------ *)
(* grouping *)
Definition flush (cur : option (str * list str)) (acc : list (str * list str)) : list (str * list str) :=
  match cur with Some (h, b) => acc ++ [(h, b)] | None => acc end.
Lemma group_lines_body body : forall rest h b0 acc,
  Forall (fun l => starts_with 46 l = false) body ->
  group_lines (body ++ rest) (Some (h, b0)) acc = group_lines rest (Some (h, b0 ++ body)) acc.
Proof.
  induction body as [|l body IH]; intros rest h b0 acc H; [rewrite app_nil_r; reflexivity|].
  inversion H as [|? ? Hl H']; subst. cbn [app group_lines]. rewrite Hl. rewrite IH by exact H'.
  rewrite <- app_assoc. reflexivity.
Qed.
Lemma group_lines_header h rest cur acc : starts_with 46 h = true ->
  group_lines (h :: rest) cur acc = group_lines rest (Some (h, [])) (flush cur acc).
Proof. intro H. cbn [group_lines]. rewrite H. destruct cur as [[h0 b0]|]; reflexivity. Qed.
Lemma group_lines_end cur acc : group_lines [] cur acc = Some (flush cur acc).
Proof. destruct cur as [[h0 b0]|]; reflexivity. Qed.

(* ------------------------------------------------------------------------------------------ *)
(* tables *)
Lemma map_rows_map {T X} (f : list str -> Z -> option T) (g : X -> T) (mk : X -> list str) xs : forall i,
  (forall x j, In x xs -> f (mk x) j = Some (g x)) -> map_rows f (map mk xs) i = Some (map g xs).
Proof.
  induction xs as [|x xs IH]; intros i H; [reflexivity|]. cbn [map map_rows].
  rewrite H by (left; reflexivity). rewrite IH by (intros y j Hy; apply H; right; exact Hy). reflexivity.
Qed.

Lemma digits_no_ws u s : forallb (is_digit_char u) s = true -> no_ws s = true.
Proof.
  intro H. unfold no_ws. apply forallb_forall. intros x Hx. rewrite forallb_forall in H.
  apply negb_true_iff. eapply digit_not_ws. apply H. exact Hx.
Qed.
Lemma label_ok_no_ws l : label_text_ok l = true -> no_ws l = true.
Proof.
  unfold label_text_ok. intro H. apply andb_true_iff in H. destruct H as [H _]. apply negb_true_iff in H.
  unfold no_ws. apply forallb_forall. intros x Hx. apply negb_true_iff.
  destruct (is_ws x) eqn:E; [|reflexivity]. exfalso.
  assert (existsb is_ws l = true) by (apply existsb_exists; exists x; split; assumption). congruence.
Qed.
Lemma no_ws_no_sp l : no_ws l = true -> forallb (fun c => negb (c =? 32)) l = true.
Proof.
  unfold no_ws. intro H. apply forallb_forall. intros x Hx. rewrite forallb_forall in H. specialize (H x Hx).
  apply negb_true_iff in H. apply negb_true_iff. apply Z.eqb_neq. intro E. subst. discriminate.
Qed.
Lemma hex4_no_sp_bar v : 0 <= v < 65536 -> no_sp_bar (hex4 v) = true.
Proof. intro H. apply no_bar_no_sp_bar. eapply digits_no_bar. apply hex4_digits. exact H. Qed.
Lemma hex4_trim v : 0 <= v < 65536 -> trim (hex4 v) = hex4 v.
Proof.
  intro H. rewrite <- (app_nil_l (hex4 v)) at 1. change (@nil Z) with (repeat 32 0).
  apply trim_pad_left. eapply digits_no_ws. apply hex4_digits. exact H.
Qed.
Lemma no_ws_trim s : no_ws s = true -> trim s = s.
Proof. intro H. rewrite <- (app_nil_l s) at 1. change (@nil Z) with (repeat 32 0). apply trim_pad_left. exact H. Qed.

(* .SYMBOL *)
Definition sym_entry_ok (p : str * symdata) : Prop :=
  0 <= sd_addr (snd p) < 65536 /\ label_text_ok (fst p) = true.
Lemma sym_row_parse p j : sym_entry_ok p ->
  sym_rowp (map trim (parse_row 3 (sym_row p))) j = Some (sd_addr (snd p), sd_external (snd p), fst p).
Proof.
  intros [Ha Hl]. unfold sym_row, parse_row.
  rewrite row_split3; [|apply hex4_no_sp_bar; exact Ha|destruct (sd_external (snd p)); reflexivity].
  cbn [List.length Nat.sub repeat app map]. rewrite hex4_trim by exact Ha.
  rewrite (no_ws_trim (fst p)) by (apply label_ok_no_ws; exact Hl).
  unfold sym_rowp. rewrite hex2u16_hex4 by exact Ha.
  destruct (sd_external (snd p)); reflexivity.
Qed.
Lemma sym_table_parse entries : Forall sym_entry_ok entries ->
  parse_table (s2z "ADDR | EXT | LABEL" :: map sym_row entries) [s2z "ADDR"; s2z "EXT"; LABEL] sym_rowp true
  = Some (map (fun p => (sd_addr (snd p), sd_external (snd p), fst p)) entries).
Proof.
  intro H. unfold parse_table.
  change (parse_header (s2z "ADDR | EXT | LABEL") [s2z "ADDR"; s2z "EXT"; LABEL]) with true. cbn iota.
  rewrite map_map. apply map_rows_map. intros x j Hx. cbn [List.length]. apply sym_row_parse.
  rewrite Forall_forall in H. apply H. exact Hx.
Qed.

(* .LINKER_INFO *)
Definition rel_entry_ok (p : Z * str) : Prop := 0 <= fst p < 65536 /\ label_text_ok (snd p) = true.
Lemma rel_row_parse p j : rel_entry_ok p -> rel_rowp (map trim (parse_row 2 (rel_row p))) j = Some p.
Proof.
  intros [Ha Hl]. unfold rel_row, parse_row. rewrite row_split2 by (apply hex4_no_sp_bar; exact Ha).
  cbn [List.length Nat.sub repeat app map]. rewrite hex4_trim by exact Ha.
  rewrite (no_ws_trim (snd p)) by (apply label_ok_no_ws; exact Hl).
  unfold rel_rowp. rewrite hex2u16_hex4 by exact Ha. destruct p; reflexivity.
Qed.
Lemma rel_table_parse entries : Forall rel_entry_ok entries ->
  parse_table (s2z "ADDR | LABEL" :: map rel_row entries) [s2z "ADDR"; LABEL] rel_rowp true = Some entries.
Proof.
  intro H. unfold parse_table.
  change (parse_header (s2z "ADDR | LABEL") [s2z "ADDR"; LABEL]) with true. cbn iota.
  rewrite map_map. rewrite <- (map_id entries) at 2. apply map_rows_map. intros x j Hx. cbn [List.length]. apply rel_row_parse.
  rewrite Forall_forall in H. apply H. exact Hx.
Qed.

(* .DEBUG label table *)
Lemma pad_right_form c w s : exists k, pad_right c w s = s ++ repeat c k.
Proof. unfold pad_right. eexists. reflexivity. Qed.
Lemma pad_left_form c w s : exists k, pad_left c w s = repeat c k ++ s.
Proof. unfold pad_left. eexists. reflexivity. Qed.

Definition idx_entry_ok (p : str * symdata) : Prop :=
  0 <= sd_src_start (snd p) <= USIZE_MAX /\ label_text_ok (fst p) = true.
Lemma idx_row_parse lc ic p j : idx_entry_ok p ->
  idx_rowp (map trim (parse_row 2 (idx_row lc ic p))) j = Some (fst p, sd_src_start (snd p)).
Proof.
  intros [Hs Hl]. unfold idx_row, parse_row.
  destruct (pad_right_form 32 lc (fst p)) as [k1 E1]. destruct (pad_left_form 32 ic (fmt_dec (sd_src_start (snd p)))) as [k2 E2].
  rewrite E1, E2. pose proof (label_ok_no_ws _ Hl) as Hnw.
  rewrite row_split2 by (apply no_sp_pad_no_sp_bar; apply no_ws_no_sp; exact Hnw).
  cbn [List.length Nat.sub repeat app map].
  rewrite trim_pad_right by exact Hnw.
  destruct (fmt_radix_spec 10 false (sd_src_start (snd p)) ltac:(lia) ltac:(lia)) as (_ & Hd & _).
  rewrite trim_pad_left by (eapply digits_no_ws; exact Hd).
  unfold idx_rowp. rewrite parse_fmt_dec by lia. reflexivity.
Qed.
Lemma idx_header_parse lc ic :
  parse_header (pad_right 32 lc LABEL ++ TABLE_DIV ++ pad_right 32 ic INDEX) [LABEL; INDEX] = true.
Proof.
  unfold parse_header. cbn [List.length].
  destruct (pad_right_form 32 lc LABEL) as [k1 E1]. destruct (pad_right_form 32 ic INDEX) as [k2 E2]. rewrite E1, E2.
  rewrite row_split2 by (apply no_sp_pad_no_sp_bar; reflexivity).
  cbn [map]. rewrite !trim_pad_right by reflexivity. reflexivity.
Qed.
Lemma idx_table_parse lc ic entries : Forall idx_entry_ok entries ->
  parse_table ((pad_right 32 lc LABEL ++ TABLE_DIV ++ pad_right 32 ic INDEX) :: map (idx_row lc ic) entries)
              [LABEL; INDEX] idx_rowp true
  = Some (map (fun p => (fst p, sd_src_start (snd p))) entries).
Proof.
  intro H. unfold parse_table. rewrite idx_header_parse.
  rewrite map_map. apply map_rows_map. intros x j Hx. cbn [List.length]. apply idx_row_parse.
  rewrite Forall_forall in H. apply H. exact Hx.
Qed.

(* .DEBUG line table *)
Lemma tword_no_sp_bar w : word_ok w -> no_sp_bar (tword w) = true.
Proof. destruct w as [v|]; cbn [word_ok tword]; intro H; [apply hex4_no_sp_bar; exact H|reflexivity]. Qed.
Lemma tword_trim w : word_ok w -> trim (tword w) = tword w.
Proof. destruct w as [v|]; cbn [word_ok tword]; intro H; [apply hex4_trim; exact H|reflexivity]. Qed.
Lemma line_row_parse src lc k m : 0 <= k <= USIZE_MAX -> word_ok m ->
  line_rowp (parse_row 3 (line_row src lc (k, m))) k = Some (m, escape (src_line src k)).
Proof.
  intros Hk Hm. unfold line_row, parse_row. cbn [fst snd].
  destruct (pad_left_form 32 lc (fmt_dec k)) as [k1 E1]. rewrite E1.
  destruct (fmt_radix_spec 10 false k ltac:(lia) ltac:(lia)) as (_ & Hd & _).
  rewrite row_split3.
  2:{ apply no_bar_no_sp_bar. rewrite forallb_app. apply andb_true_iff. split.
      - apply forallb_forall. intros x Hx. apply repeat_spec in Hx. subst. reflexivity.
      - eapply digits_no_bar. exact Hd. }
  2:{ apply tword_no_sp_bar. exact Hm. }
  cbn [List.length Nat.sub repeat app]. unfold line_rowp.
  rewrite trim_pad_left by (eapply digits_no_ws; exact Hd).
  change (fmt_radix 10 false k) with (fmt_dec k). rewrite parse_fmt_dec by lia. rewrite Z.eqb_refl.
  rewrite tword_trim by exact Hm. rewrite maybe_hex2u16_tword by exact Hm. reflexivity.
Qed.
Lemma line_header_parse lc :
  parse_header (pad_right 32 lc LINE ++ TABLE_DIV ++ s2z "ADDR" ++ TABLE_DIV ++ s2z "SOURCE") [LINE; s2z "ADDR"; s2z "SOURCE"] = true.
Proof.
  unfold parse_header. cbn [List.length].
  destruct (pad_right_form 32 lc LINE) as [k1 E1]. rewrite E1.
  rewrite row_split3; [|apply no_sp_pad_no_sp_bar; reflexivity|reflexivity].
  cbn [map]. rewrite trim_pad_right by reflexivity. reflexivity.
Qed.
(* rows numbered from i *)
Lemma line_rows_parse src lc ms : forall i, 0 <= i -> i + len ms <= USIZE_MAX + 1 -> Forall word_ok ms ->
  map_rows line_rowp (map (fun l => map (fun x => x) (parse_row 3 l)) (map (line_row src lc) (combine (seqz i (List.length ms)) ms))) i
  = Some (combine ms (map (fun k => escape (src_line src k)) (seqz i (List.length ms)))).
Proof.
  induction ms as [|m ms IH]; intros i Hi Hb Hw; [reflexivity|].
  inversion Hw as [|? ? Hm Hw']; subst. rewrite len_cons in Hb. pose proof (len_nonneg ms).
  cbn [List.length seqz combine map map_rows]. rewrite map_id.
  rewrite line_row_parse by (try exact Hm; lia).
  rewrite IH by (try exact Hw'; lia). reflexivity.
Qed.

(* ------------------------------------------------------------------------------------------ *)
(* the label map built from the two tables *)
Lemma hm_update_fresh k f m : ~ In k (map fst m) -> hm_update k f m = m ++ [(k, f (mkSym 0 0 false))].
Proof.
  induction m as [|[k' v'] m IH]; intro H; [reflexivity|]. cbn [hm_update app].
  destruct (str_eqb k k') eqn:E.
  - apply str_eqb_eq in E. exfalso. apply H. left. cbn. congruence.
  - rewrite IH; [reflexivity|]. intro Hin. apply H. right. exact Hin.
Qed.
Lemma hm_update_present k f m : NoDup (map fst m) -> In k (map fst m) ->
  hm_update k f m = map (fun q => if str_eqb k (fst q) then (fst q, f (snd q)) else q) m.
Proof.
  induction m as [|[k' v'] m IH]; intros Hnd Hin; [destruct Hin|]. cbn [hm_update map fst snd].
  cbn [map fst] in Hnd. inversion Hnd as [|? ? Hn Hnd']; subst.
  destruct (str_eqb k k') eqn:E.
  - apply str_eqb_eq in E. subst k'. f_equal. symmetry. rewrite <- (map_id m) at 2. apply map_ext_in. intros q Hq.
    destruct (str_eqb k (fst q)) eqn:E2; [|reflexivity]. apply str_eqb_eq in E2. exfalso. apply Hn. rewrite E2. apply in_map. exact Hq.
  - f_equal. apply IH; [exact Hnd'|]. destruct Hin as [Hin|Hin]; [|exact Hin]. cbn in Hin. subst. rewrite str_eqb_refl in E. discriminate.
Qed.

Definition strip_src (p : str * symdata) : str * symdata := (fst p, mkSym (sd_addr (snd p)) 0 (sd_external (snd p))).

Lemma fold_sym_update entries : forall acc, NoDup (map fst (acc ++ entries)) ->
  fold_left (fun m '(addr, ext, l) => hm_update l (fun d => mkSym addr (sd_src_start d) ext) m)
            (map (fun p : str * symdata => (sd_addr (snd p), sd_external (snd p), fst p)) entries) acc
  = acc ++ map strip_src entries.
Proof.
  induction entries as [|p entries IH]; intros acc H; [rewrite app_nil_r; reflexivity|].
  cbn [map fold_left]. rewrite hm_update_fresh.
  - rewrite IH.
    + rewrite <- app_assoc. reflexivity.
    + rewrite <- app_assoc. rewrite map_app in *. cbn [map fst app] in *. exact H.
  - rewrite map_app in H. cbn [map] in H. apply NoDup_remove_2 in H. intro Hin. apply H. apply in_or_app. left. exact Hin.
Qed.

Lemma fold_idx_update (S : list (str * symdata)) : NoDup (map fst S) ->
  forall E (h : str * symdata -> str * symdata),
  (forall q, In q S -> fst (h q) = fst q /\ mkSym (sd_addr (snd (h q))) (sd_src_start (snd q)) (sd_external (snd (h q))) = snd q) ->
  (forall p, In p E -> In p S) ->
  fold_left (fun m p => hm_update (fst p) (fun d => mkSym (sd_addr d) (snd p) (sd_external d)) m)
            (map (fun p : str * symdata => (fst p, sd_src_start (snd p))) E) (map h S)
  = map (fun q => if existsb (fun p => str_eqb (fst p) (fst q)) E then q else h q) S.
Proof.
  intros Hnd. induction E as [|p E IH]; intros h Hh Hsub; [reflexivity|].
  cbn [map fold_left fst snd].
  rewrite hm_update_present.
  2:{ rewrite map_map. erewrite map_ext_in; [exact Hnd|]. intros q Hq. apply Hh. exact Hq. }
  2:{ rewrite map_map. assert (Hp : In p S) by (apply Hsub; left; reflexivity).
      apply in_map_iff. exists p. split; [apply Hh; exact Hp|exact Hp]. }
  rewrite map_map.
  rewrite (map_ext_in _ (fun q => if str_eqb (fst p) (fst q) then q else h q)).
  2:{ intros q Hq. destruct (Hh q Hq) as [H1 H2]. rewrite H1. destruct (str_eqb (fst p) (fst q)) eqn:E1; [|reflexivity].
      apply str_eqb_eq in E1. assert (Hp : In p S) by (apply Hsub; left; reflexivity).
      assert (p = q).
      { clear -Hnd Hp Hq E1. induction S as [|x S IH]; [destruct Hp|]. cbn [map] in Hnd. inversion Hnd as [|? ? Hn Hnd']; subst.
        destruct Hp as [->|Hp], Hq as [->|Hq]; [reflexivity| | |apply IH; assumption].
        - exfalso. apply Hn. rewrite E1. apply in_map. exact Hq.
        - exfalso. apply Hn. rewrite <- E1. apply in_map. exact Hp. }
      subst q. cbn [fst snd]. rewrite H2. destruct p; reflexivity. }
  rewrite IH.
  - apply map_ext_in. intros q Hq. cbn [existsb]. destruct (str_eqb (fst p) (fst q)); cbn [orb]; [|reflexivity].
    destruct (existsb _ E); reflexivity.
  - intros q Hq. destruct (str_eqb (fst p) (fst q)).
    + split; [reflexivity|]. destruct q as [n [a s e]]; reflexivity.
    + apply Hh. exact Hq.
  - intros q Hq. apply Hsub. right. exact Hq.
Qed.

(* insertion sort is a permutation *)
Lemma insert_by_perm {A} (lt : A -> A -> bool) x l : Permutation (insert_by lt x l) (x :: l).
Proof.
  induction l as [|y l IH]; [apply Permutation_refl|]. cbn [insert_by]. destruct (lt x y); [apply Permutation_refl|].
  eapply Permutation_trans; [apply perm_skip; exact IH|apply perm_swap].
Qed.
Lemma sort_by_perm {A} (lt : A -> A -> bool) l : Permutation (sort_by lt l) l.
Proof.
  unfold sort_by. induction l as [|x l IH]; [apply Permutation_refl|]. cbn [fold_right].
  eapply Permutation_trans; [apply insert_by_perm|apply perm_skip; exact IH].
Qed.

Lemma label_table_roundtrip labels : NoDup (map fst labels) ->
  fold_left (fun m p => hm_update (fst p) (fun d => mkSym (sd_addr d) (snd p) (sd_external d)) m)
            (map (fun p : str * symdata => (fst p, sd_src_start (snd p))) (sort_by idx_lt labels))
            (map strip_src (sort_by sym_lt labels))
  = sort_by sym_lt labels.
Proof.
  intro Hnd.
  assert (HndS : NoDup (map fst (sort_by sym_lt labels))).
  { eapply Permutation_NoDup; [|exact Hnd]. apply Permutation_map. apply Permutation_sym. apply sort_by_perm. }
  rewrite (fold_idx_update (sort_by sym_lt labels) HndS (sort_by idx_lt labels) strip_src).
  - rewrite <- (map_id (sort_by sym_lt labels)) at 2. apply map_ext_in. intros q Hq.
    destruct (existsb _ (sort_by idx_lt labels)) eqn:E; [reflexivity|]. exfalso.
    assert (Hin : In q (sort_by idx_lt labels)).
    { eapply Permutation_in; [apply Permutation_sym; apply sort_by_perm|].
      eapply Permutation_in; [apply sort_by_perm|exact Hq]. }
    assert (existsb (fun p => str_eqb (fst p) (fst q)) (sort_by idx_lt labels) = true)
      by (apply existsb_exists; exists q; split; [exact Hin|apply str_eqb_refl]).
    congruence.
  - intros q Hq. split; [reflexivity|]. destruct q as [n [a s e]]; reflexivity.
  - intros p Hp. eapply Permutation_in; [apply Permutation_sym; apply sort_by_perm|].
    eapply Permutation_in; [apply sort_by_perm|exact Hp].
Qed.

(* ------------------------------------------------------------------------------------------ *)
(* which lines are kept by the filter and stay inside their group *)
Definition kept (l : str) : Prop := keep_line l = true /\ starts_with 46 l = false.
Definition not_div (l : str) : Prop := starts_with 61 l = false.

Lemma kept_first c r : is_ws c = false -> c <> 35 -> c <> 46 -> kept (c :: r).
Proof.
  intros Hw H1 H2. split.
  - apply (keep_line_intro _ c); [left; reflexivity|exact Hw|]. cbn. apply Z.eqb_neq. exact H1.
  - cbn. apply Z.eqb_neq. exact H2.
Qed.
Lemma digit_first_facts u c : is_digit_char u c = true -> is_ws c = false /\ c <> 35 /\ c <> 46 /\ c <> 61.
Proof.
  intro H. split; [eapply digit_not_ws; exact H|].
  unfold is_digit_char in H. apply orb_true_iff in H. destruct H as [H|H]; [|destruct u]; btrue; lia.
Qed.
Lemma kept_digits_prefix u d ds r : is_digit_char u d = true -> kept ((d :: ds) ++ r) /\ not_div ((d :: ds) ++ r).
Proof.
  intro H. destruct (digit_first_facts u d H) as (H1 & H2 & H3 & H4). cbn [app]. split.
  - apply kept_first; assumption.
  - unfold not_div. cbn. apply Z.eqb_neq. exact H4.
Qed.
Lemma hex4_cons v : 0 <= v < 65536 -> exists d ds, hex4 v = d :: ds /\ is_digit_char true d = true.
Proof.
  intro H. destruct (hex4_props v H) as (_ & H2 & H3 & _). destruct (hex4 v) as [|d ds]; [discriminate|].
  exists d, ds. split; [reflexivity|]. cbn [forallb] in H3. apply andb_true_iff in H3. apply H3.
Qed.
Lemma fmt_dec_cons n : 0 <= n -> exists d ds, fmt_dec n = d :: ds /\ is_digit_char false d = true.
Proof.
  intro H. destruct (fmt_radix_spec 10 false n ltac:(lia) H) as (H1 & H2 & _). unfold fmt_dec.
  destruct (fmt_radix 10 false n) as [|d ds]; [contradiction|]. exists d, ds. split; [reflexivity|].
  cbn [forallb] in H2. apply andb_true_iff in H2. apply H2.
Qed.
Lemma kept_spaces_digit u k d ds r : is_digit_char u d = true -> kept (repeat 32 k ++ (d :: ds) ++ r).
Proof.
  intro H. destruct (digit_first_facts u d H) as (H1 & H2 & H3 & H4). split.
  - apply (keep_line_intro _ d); [apply in_or_app; right; left; reflexivity|exact H1|].
    destruct k; cbn; [apply Z.eqb_neq; exact H2|reflexivity].
  - destruct k; cbn; [apply Z.eqb_neq; exact H3|reflexivity].
Qed.
Lemma label_first l : label_text_ok l = true ->
  exists c t, l = c :: t /\ is_ws c = false /\ c <> 35 /\ c <> 46 /\ c <> 61.
Proof.
  unfold label_text_ok. intro H. apply andb_true_iff in H. destruct H as [H1 H2]. destruct l as [|c t]; [discriminate|].
  exists c, t. split; [reflexivity|]. apply negb_true_iff in H1. cbn [existsb] in H1. apply orb_false_iff in H1. destruct H1 as [H1 _].
  apply negb_true_iff in H2. apply orb_false_iff in H2. destruct H2 as [H2 H4]. apply orb_false_iff in H2. destruct H2 as [H2 H3].
  btrue. repeat split; assumption.
Qed.

Lemma body_ok_kept l : body_ok l -> kept l.
Proof. intros (H1 & H2 & _). split; assumption. Qed.
Lemma tblock_lines_kept b : block_inv b = true -> Forall kept (tblock_lines b).
Proof.
  unfold block_inv, in_u16. intro H. apply andb_true_iff in H. destruct H as [H Hws].
  apply andb_true_iff in H. destruct H as [Ha Hlen]. btrue.
  unfold tblock_lines. pose proof (len_nonneg (snd b)).
  constructor; [apply body_ok_kept; apply (hex4_body_ok (fst b)); lia|].
  constructor; [apply body_ok_kept; apply (fmt_dec_body_ok (len (snd b))); lia|].
  apply Forall_forall. intros l Hl. apply in_map_iff in Hl. destruct Hl as [w [<- Hw]].
  rewrite forallb_forall in Hws. specialize (Hws w Hw).
  assert (Hwok : word_ok w) by (destruct w as [v|]; cbn; [unfold in_u16 in Hws; btrue; lia|exact Logic.I]).
  apply body_ok_kept. apply tword_body_ok. exact Hwok.
Qed.
Lemma sym_row_kept p : sym_entry_ok p -> kept (sym_row p).
Proof.
  intros [Ha _]. unfold sym_row. destruct (hex4_cons _ Ha) as (d & ds & E & Hd). rewrite E.
  apply (kept_digits_prefix true d ds _ Hd).
Qed.
Lemma rel_row_kept p : rel_entry_ok p -> kept (rel_row p).
Proof.
  intros [Ha _]. unfold rel_row. destruct (hex4_cons _ Ha) as (d & ds & E & Hd). rewrite E.
  apply (kept_digits_prefix true d ds _ Hd).
Qed.
Lemma idx_row_kept lc ic p : idx_entry_ok p -> kept (idx_row lc ic p) /\ not_div (idx_row lc ic p).
Proof.
  intros [_ Hl]. unfold idx_row. destruct (pad_right_form 32 lc (fst p)) as [k E]. rewrite E.
  destruct (label_first _ Hl) as (c & t & E2 & H1 & H2 & H3 & H4). rewrite E2. cbn [app]. split.
  - apply kept_first; assumption.
  - unfold not_div. cbn. apply Z.eqb_neq. exact H4.
Qed.
Lemma idx_header_kept lc ic : kept (pad_right 32 lc LABEL ++ TABLE_DIV ++ pad_right 32 ic INDEX)
                              /\ not_div (pad_right 32 lc LABEL ++ TABLE_DIV ++ pad_right 32 ic INDEX).
Proof.
  destruct (pad_right_form 32 lc LABEL) as [k E]. rewrite E. change LABEL with (76 :: [65; 66; 69; 76]). cbn [app]. split.
  - apply kept_first; [reflexivity|lia|lia].
  - reflexivity.
Qed.
Lemma line_header_kept lc : kept (pad_right 32 lc LINE ++ TABLE_DIV ++ s2z "ADDR" ++ TABLE_DIV ++ s2z "SOURCE").
Proof.
  destruct (pad_right_form 32 lc LINE) as [k E]. rewrite E. change LINE with (76 :: [73; 78; 69]). cbn [app].
  apply kept_first; [reflexivity|lia|lia].
Qed.
Lemma line_row_kept src lc k m : 0 <= k -> kept (line_row src lc (k, m)).
Proof.
  intro Hk. unfold line_row. cbn [fst snd]. destruct (pad_left_form 32 lc (fmt_dec k)) as [j E]. rewrite E.
  destruct (fmt_dec_cons k Hk) as (d & ds & E2 & Hd). rewrite E2. rewrite <- app_assoc.
  apply (kept_spaces_digit false j d ds _ Hd).
Qed.

Lemma filter_kept ls : Forall kept ls -> filter keep_line ls = ls.
Proof.
  induction 1 as [|l ls [Hk _] _ IH]; [reflexivity|]. cbn [filter]. rewrite Hk, IH. reflexivity.
Qed.
Lemma kept_not_dot ls : Forall kept ls -> Forall (fun l => starts_with 46 l = false) ls.
Proof. intro H. eapply Forall_impl; [|exact H]. intros l [_ Hd]. exact Hd. Qed.

(* ------------------------------------------------------------------------------------------ *)
(* the four groups *)
Lemma text_group_nil fuel blocks : text_group fuel [] blocks = ROk blocks.
Proof. destruct fuel; reflexivity. Qed.

Lemma grp_text blocks ls rs dbg : forallb block_inv blocks = true -> strictly_sorted (map fst blocks) = true ->
  group (s2z ".TEXT") (flat_map tblock_lines blocks) (mkT [] ls rs dbg) = ROk (mkT blocks ls rs dbg).
Proof.
  intros Hi Hs. unfold group. change (str_eqb (s2z ".TEXT") (s2z ".TEXT")) with true. cbn iota. cbn [t_blocks t_labels t_rel t_dbg].
  destruct (text_group_ser blocks [] (List.length (flat_map tblock_lines blocks)) [] Hi Hs) as (f' & _ & E).
  { rewrite app_nil_r. lia. }
  rewrite app_nil_r in E. rewrite E, text_group_nil. reflexivity.
Qed.

Lemma Forall_perm {A} (P : A -> Prop) l l' : Permutation l l' -> Forall P l -> Forall P l'.
Proof. intros Hp H. apply Forall_forall. intros x Hx. rewrite Forall_forall in H. apply H. eapply Permutation_in; [apply Permutation_sym; exact Hp|exact Hx]. Qed.
Lemma sort_by_nil_iff {A} (lt : A -> A -> bool) l : sort_by lt l = [] <-> l = [].
Proof.
  split; intro H; [|subst; reflexivity]. pose proof (sort_by_perm lt l) as P. rewrite H in P.
  apply Permutation_nil in P. exact P.
Qed.

Definition sym_table_lines (labels : list (str * symdata)) : list str :=
  match labels with [] => [] | _ => s2z "ADDR | EXT | LABEL" :: map sym_row (sort_by sym_lt labels) end.
Definition rel_table_lines (rel : list (Z * str)) : list str :=
  match rel with [] => [] | _ => s2z "ADDR | LABEL" :: map rel_row (sort_by rel_lt rel) end.

Lemma grp_symbol labels b r d : Forall sym_entry_ok labels -> NoDup (map fst labels) ->
  group (s2z ".SYMBOL") (sym_table_lines labels) (mkT b [] r d)
  = ROk (mkT b (map strip_src (sort_by sym_lt labels)) r d).
Proof.
  intros Hok Hnd. unfold group. change (str_eqb (s2z ".SYMBOL") (s2z ".TEXT")) with false.
  change (str_eqb (s2z ".SYMBOL") (s2z ".SYMBOL")) with true. cbn iota. cbn [t_blocks t_labels t_rel t_dbg].
  unfold sym_table_lines. destruct labels as [|p0 labels0] eqn:El; [reflexivity|]. rewrite <- El in *.
  rewrite sym_table_parse by (eapply Forall_perm; [apply Permutation_sym; apply sort_by_perm|exact Hok]).
  rewrite (fold_sym_update (sort_by sym_lt labels) []).
  - reflexivity.
  - cbn [app]. eapply Permutation_NoDup; [|exact Hnd]. apply Permutation_map. apply Permutation_sym. apply sort_by_perm.
Qed.

Lemma grp_linker rel b l d : Forall rel_entry_ok rel -> NoDup (map fst rel) ->
  group (s2z ".LINKER_INFO") (rel_table_lines rel) (mkT b l [] d) = ROk (mkT b l (sort_by rel_lt rel) d).
Proof.
  intros Hok Hnd. unfold group. change (str_eqb (s2z ".LINKER_INFO") (s2z ".TEXT")) with false.
  change (str_eqb (s2z ".LINKER_INFO") (s2z ".SYMBOL")) with false.
  change (str_eqb (s2z ".LINKER_INFO") (s2z ".LINKER_INFO")) with true. cbn iota. cbn [t_blocks t_labels t_rel t_dbg].
  unfold rel_table_lines. destruct rel as [|p0 rel0] eqn:El; [reflexivity|]. rewrite <- El in *.
  rewrite rel_table_parse by (eapply Forall_perm; [apply Permutation_sym; apply sort_by_perm|exact Hok]).
  rewrite (fold_hm_nodup Z.eqb Zeqb_iff (sort_by rel_lt rel) []).
  - reflexivity.
  - cbn [app]. eapply Permutation_NoDup; [|exact Hnd]. apply Permutation_map. apply Permutation_sym. apply sort_by_perm.
Qed.

(* .DEBUG *)
Lemma break_div_app ls : forall d rest, Forall not_div ls -> starts_with 61 d = true ->
  break_div (ls ++ d :: rest) = Some (ls, d :: rest).
Proof.
  induction ls as [|l ls IH]; intros d rest H Hd.
  - cbn [app break_div]. rewrite Hd. reflexivity.
  - inversion H as [|? ? Hl H']; subst. cbn [app break_div]. unfold not_div in Hl. rewrite Hl. rewrite IH by assumption. reflexivity.
Qed.
Lemma last_app_one {A} (l : list A) x d : last (l ++ [x]) d = x.
Proof. apply last_last. Qed.

Lemma map_fst_combine {A B} (l : list A) : forall (l' : list B), List.length l = List.length l' -> map fst (combine l l') = l.
Proof. induction l as [|x l IH]; intros [|y l'] H; try discriminate; [reflexivity|]. cbn [combine map fst]. rewrite IH by (cbn in H; lia). reflexivity. Qed.
Lemma flat_map_snd_combine {A B} (l : list A) : forall (l' : list (list B)), List.length l = List.length l' ->
  flat_map snd (combine l l') = List.concat l'.
Proof. induction l as [|x l IH]; intros [|y l'] H; try discriminate; [reflexivity|]. cbn [combine flat_map snd List.concat]. rewrite IH by (cbn in H; lia). reflexivity. Qed.
Lemma concat_map_flat_map {A B} (f : A -> list B) l : List.concat (map f l) = flat_map f l.
Proof. induction l as [|x l IH]; [reflexivity|]. cbn [map List.concat flat_map]. rewrite IH. reflexivity. Qed.
Lemma escape_app a b : escape (a ++ b) = escape a ++ escape b.
Proof. unfold escape. apply flat_map_app. Qed.
Lemma escape_flat_map {A} (g : A -> str) l : flat_map (fun x => escape (g x)) l = escape (flat_map g l).
Proof. induction l as [|x l IH]; [reflexivity|]. cbn [flat_map]. rewrite escape_app, IH. reflexivity. Qed.
Lemma seqz_length i n : List.length (seqz i n) = n.
Proof. revert i. induction n as [|n IH]; intro i; [reflexivity|]. cbn [seqz List.length]. rewrite IH. reflexivity. Qed.

(* what text_inv gives about the debug symbols *)
Lemma runs_in_of_inv runs n : forallb run_inv runs = true -> runs_separated runs = true ->
  forallb (fun p : Z * list Z => negb (match snd p with [] => true | _ => false end) && (fst p + len (snd p) <? n)) runs = true ->
  forall cur, (match runs with [] => cur <= n | (l, _) :: _ => cur <= l end) -> runs_in cur runs n.
Proof.
  induction runs as [|[l a] r IH]; intros Hi Hs Hb cur Hc; [exact Hc|].
  apply forallb_cons_iff in Hi. destruct Hi as [_ Hi]. apply forallb_cons_iff in Hb. destruct Hb as [Hb0 Hb].
  cbn [fst snd] in Hb0. apply andb_true_iff in Hb0. destruct Hb0 as [Hne Hlt]. apply Z.ltb_lt in Hlt.
  cbn [runs_in]. split; [exact Hc|]. split; [destruct a; [discriminate|discriminate]|].
  destruct r as [|[l' a'] r'].
  - cbn [runs_in]. lia.
  - change (runs_separated ((l, a) :: (l', a') :: r')) with ((l + len a <? l') && runs_separated ((l', a') :: r')) in Hs.
    apply andb_true_iff in Hs. destruct Hs as [Hs0 Hs]. apply Z.ltb_lt in Hs0.
    apply IH; [exact Hi|exact Hs|exact Hb|lia].
Qed.
Lemma separated_disjoint runs : runs_separated runs = true -> runs_disjoint runs = true.
Proof.
  induction runs as [|[l a] r IH]; [reflexivity|]. destruct r as [|[l' a'] r']; [reflexivity|]. intro H.
  change (runs_separated ((l, a) :: (l', a') :: r')) with ((l + len a <? l') && runs_separated ((l', a') :: r')) in H.
  apply andb_true_iff in H. destruct H as [H0 H]. apply Z.ltb_lt in H0.
  change (runs_disjoint ((l, a) :: (l', a') :: r')) with ((l + len a <=? l') && runs_disjoint ((l', a') :: r')).
  apply andb_true_iff. split; [apply Z.leb_le; lia|apply IH; exact H].
Qed.
Lemma vec_word_ok runs : forall cur n, forallb run_inv runs = true -> Forall word_ok (vec cur runs n).
Proof.
  induction runs as [|[l a] r IH]; intros cur n H; cbn [vec].
  - apply Forall_forall. intros x Hx. apply repeat_spec in Hx. subst. exact Logic.I.
  - apply forallb_cons_iff in H. destruct H as [Hr H]. apply Forall_app. split.
    + apply Forall_forall. intros x Hx. apply repeat_spec in Hx. subst. exact Logic.I.
    + apply Forall_app. split; [|apply IH; exact H].
      apply Forall_forall. intros x Hx. apply in_map_iff in Hx. destruct Hx as [v [<- Hv]].
      unfold run_inv in Hr. cbn [fst snd] in Hr. apply andb_true_iff in Hr. destruct Hr as [Hr _].
      apply andb_true_iff in Hr. destruct Hr as [_ Hr]. rewrite forallb_forall in Hr. specialize (Hr v Hv).
      unfold in_u16 in Hr. btrue. cbn. lia.
Qed.

Definition debug_lines (dbg : option debug_symbols) : list str :=
  match dbg with Some d => line_table_lines d ++ [DIVIDER] | None => [] end.

Lemma line_table_eq d : debug_inv d = true -> debug_text_inv d = true ->
  line_table d = tbl 0 (vec 0 (ds_lines d) (count_lines (ds_src d)))
  /\ runs_in 0 (ds_lines d) (count_lines (ds_src d))
  /\ List.length (vec 0 (ds_lines d) (count_lines (ds_src d))) = List.length (nl_indices (ds_src d)).
Proof.
  unfold debug_inv, debug_text_inv. intros Hi Ht.
  apply andb_true_iff in Hi. destruct Hi as [Hi Hlen]. apply andb_true_iff in Hi. destruct Hi as [Hi Hval].
  apply andb_true_iff in Hi. destruct Hi as [Hi Hdis]. apply andb_true_iff in Hi. destruct Hi as [Hruns Hsort].
  apply andb_true_iff in Ht. destruct Ht as [Hsep Hbnd]. apply Z.leb_le in Hlen.
  set (n := count_lines (ds_src d)).
  assert (Hn1 : 1 <= n).
  { unfold n, count_lines, nl_indices. destruct (ds_src d) as [|c s]; cbn [nl_from]; [cbn; lia|].
    destruct (c =? 10); [cbn [List.length]; lia|]. destruct (nl_from_head s (0 + utf8_len c)) as (x & l & E & _). rewrite E. cbn [List.length]. lia. }
  assert (Hrin : runs_in 0 (ds_lines d) n).
  { apply runs_in_of_inv; try assumption. destruct (ds_lines d) as [|[l a] r] eqn:E; [lia|].
    apply forallb_cons_iff in Hruns. destruct Hruns as [Hr _]. unfold run_inv in Hr. cbn [fst snd] in Hr. btrue. lia. }
  assert (Hnb : n <= 18446744073709551616).
  { pose proof (count_lines_bound (ds_src d)). unfold n, ISIZE_MAX in *. lia. }
  split; [|split; [exact Hrin|]].
  - unfold line_table. rewrite tbl_base.
    pose proof (line_table_vec (ds_lines d) 0 [] n Hrin ltac:(lia) Hnb ltac:(constructor)) as E. cbn [app] in E.
    replace (Z.to_nat (n - 0)) with (List.length (nl_indices (ds_src d))) in E by (unfold n, count_lines; lia).
    exact E.
  - pose proof (length_vec (ds_lines d) 0 n Hrin) as E. unfold len, n, count_lines in E. unfold n, count_lines. lia.
Qed.

Lemma line_src_of (LT : list str) dv :
  match LT ++ [dv] with [] => [] | _ :: _ => removelast (LT ++ [dv]) end = LT.
Proof. destruct (LT ++ [dv]) eqn:E; [destruct LT; discriminate|]. rewrite <- E. apply removelast_last. Qed.

Lemma grp_debug labels dbg b r :
  Forall idx_entry_ok labels -> NoDup (map fst labels) ->
  (forall d, dbg = Some d -> debug_inv d = true /\ debug_text_inv d = true) ->
  group (s2z ".DEBUG") (label_table_lines labels ++ [DIVIDER] ++ debug_lines dbg)
        (mkT b (map strip_src (sort_by sym_lt labels)) r None)
  = ROk (mkT b (sort_by sym_lt labels) r
             (match dbg with
              | Some d => Some (vec 0 (ds_lines d) (count_lines (ds_src d)), ds_src d)
              | None => None
              end)).
Proof.
  intros Hok Hnd Hdbg. unfold group.
  change (str_eqb (s2z ".DEBUG") (s2z ".TEXT")) with false. change (str_eqb (s2z ".DEBUG") (s2z ".SYMBOL")) with false.
  change (str_eqb (s2z ".DEBUG") (s2z ".LINKER_INFO")) with false. change (str_eqb (s2z ".DEBUG") (s2z ".DEBUG")) with true. cbn iota.
  set (LB := label_table_lines labels).
  assert (HLB : Forall not_div LB).
  { unfold LB, label_table_lines. destruct labels as [|p0 l0] eqn:El; [constructor|]. rewrite <- El in *.
    constructor; [apply idx_header_kept|]. apply Forall_forall. intros l Hl. apply in_map_iff in Hl. destruct Hl as [p [<- Hp]].
    apply idx_row_kept. rewrite Forall_forall in Hok. apply Hok.
    eapply Permutation_in; [apply sort_by_perm|exact Hp]. }
  unfold debug_group.
  destruct (LB ++ [DIVIDER] ++ debug_lines dbg) as [|r0 rs] eqn:Erest; [destruct LB; discriminate|]. rewrite <- Erest.
  cbn [app] in *. rewrite (break_div_app LB DIVIDER (debug_lines dbg) HLB eq_refl).
  assert (Hlast : starts_with 61 (last (LB ++ DIVIDER :: debug_lines dbg) []) = true).
  { destruct dbg as [d|]; cbn [debug_lines].
    - replace (LB ++ DIVIDER :: line_table_lines d ++ [DIVIDER]) with ((LB ++ DIVIDER :: line_table_lines d) ++ [DIVIDER])
        by (rewrite <- app_assoc; reflexivity).
      rewrite last_app_one. reflexivity.
    - change (LB ++ [DIVIDER]) with (LB ++ [DIVIDER]). rewrite last_app_one. reflexivity. }
  rewrite Hlast. cbn [negb].
  (* the label table *)
  assert (Hlbl : exists ltab, parse_table LB [LABEL; INDEX] idx_rowp true = Some ltab /\
            fold_left (fun m p => hm_update (fst p) (fun d => mkSym (sd_addr d) (snd p) (sd_external d)) m) ltab
                      (map strip_src (sort_by sym_lt labels)) = sort_by sym_lt labels).
  { unfold LB, label_table_lines. destruct labels as [|p0 l0] eqn:El.
    - exists []. split; reflexivity.
    - rewrite <- El in *. eexists. split.
      + apply idx_table_parse. eapply Forall_perm; [apply Permutation_sym; apply sort_by_perm|exact Hok].
      + apply label_table_roundtrip. exact Hnd. }
  destruct Hlbl as (ltab & E1 & E2). rewrite E1. cbn [t_labels t_blocks t_rel t_dbg]. rewrite E2.
  destruct dbg as [d|]; cbn [debug_lines].
  - destruct (Hdbg d eq_refl) as [Hdi Hdt]. destruct (line_table_eq d Hdi Hdt) as (Et & Hrin & Elen).
    unfold line_table_lines. rewrite Et.
    set (ms := vec 0 (ds_lines d) (count_lines (ds_src d))) in *.
    assert (Hms : ms <> []) by (intro E; rewrite E in Elen; cbn in Elen; unfold nl_indices in Elen; destruct (nl_from_head (ds_src d) 0) as (x & l & E' & _); rewrite E' in Elen; discriminate).
    destruct (tbl 0 ms) as [|t0 ts] eqn:Etbl; [destruct ms; [contradiction|discriminate]|]. rewrite <- Etbl.
    rewrite line_src_of.
    set (lc := Z.max (len LINE) (count_digits (fst (last (tbl 0 ms) (0, None))))).
    unfold parse_table. rewrite line_header_parse. cbn [List.length].
    unfold tbl. rewrite line_rows_parse.
    2:{ lia. }
    2:{ pose proof (length_vec (ds_lines d) 0 (count_lines (ds_src d)) Hrin) as E. fold ms in E. rewrite E.
        pose proof (count_lines_bound (ds_src d)). unfold debug_inv in Hdi. btrue. unfold USIZE_MAX, ISIZE_MAX in *. lia. }
    2:{ apply vec_word_ok. unfold debug_inv in Hdi. btrue. assumption. }
    destruct (combine ms _) as [|row rows] eqn:Ec.
    { exfalso. destruct ms; [contradiction|]. cbn [List.length seqz map combine] in Ec. discriminate. }
    cbv beta iota. rewrite <- Ec. cbn [app].
    pose proof (flat_map_snd_combine ms (map (fun k : Z => escape (src_line (ds_src d) k)) (seqz 0 (Datatypes.length ms)))
                  ltac:(rewrite map_length, seqz_length; reflexivity)) as X.
    unfold str in *. rewrite X. clear X.
    pose proof (map_fst_combine ms (map (fun k : Z => escape (src_line (ds_src d) k)) (seqz 0 (Datatypes.length ms)))
                  ltac:(rewrite map_length, seqz_length; reflexivity)) as X.
    unfold str in *. rewrite X. clear X.
    rewrite concat_map_flat_map, escape_flat_map. rewrite Elen. rewrite src_lines_concat.
    rewrite unescape_escape by (unfold debug_inv in Hdi; btrue; assumption).
    reflexivity.
  - reflexivity.
Qed.

(* ------------------------------------------------------------------------------------------ *)
(* assembling the sections *)
Record sym_facts (blocks : list (Z * list (option Z))) (st : symtab) : Prop := {
  sf_sym : Forall sym_entry_ok (st_labels st);
  sf_idx : Forall idx_entry_ok (st_labels st);
  sf_nd : NoDup (map fst (st_labels st));
  sf_rel : Forall rel_entry_ok (st_rel st);
  sf_ndr : NoDup (map fst (st_rel st));
  sf_chk : check_relocations blocks (st_rel st) = true;
  sf_dbg : forall d, st_debug st = Some d -> debug_inv d = true /\ debug_text_inv d = true;
  sf_ne : st_labels st <> [] \/ st_debug st <> None
}.

Lemma text_inv_facts o : text_inv o = true ->
  forallb block_inv (o_blocks o) = true /\ strictly_sorted (map fst (o_blocks o)) = true /\
  forall st, o_sym o = Some st -> sym_facts (o_blocks o) st.
Proof.
  unfold text_inv, obj_inv. intro H. apply andb_true_iff in H. destruct H as [H Ht].
  apply andb_true_iff in H. destruct H as [H Hsym]. apply andb_true_iff in H. destruct H as [Hbl Hss].
  split; [exact Hbl|]. split; [exact Hss|]. intros st Est. rewrite Est in *.
  unfold symtab_inv in Hsym.
  apply andb_true_iff in Hsym. destruct Hsym as [Hsym Hne]. apply andb_true_iff in Hsym. destruct Hsym as [Hsym Hdbg].
  apply andb_true_iff in Hsym. destruct Hsym as [Hsym Hchk]. apply andb_true_iff in Hsym. destruct Hsym as [Hsym Hndr].
  apply andb_true_iff in Hsym. destruct Hsym as [Hsym Hrel]. apply andb_true_iff in Hsym. destruct Hsym as [Hlab Hnd].
  apply andb_true_iff in Ht. destruct Ht as [Ht Htd]. apply andb_true_iff in Ht. destruct Ht as [Htl Htr].
  constructor.
  - apply Forall_forall. intros p Hp. rewrite forallb_forall in Hlab, Htl. specialize (Hlab p Hp). specialize (Htl p Hp).
    unfold label_inv, in_u16 in Hlab. btrue. split; [lia|assumption].
  - apply Forall_forall. intros p Hp. rewrite forallb_forall in Hlab, Htl. specialize (Hlab p Hp). specialize (Htl p Hp).
    unfold label_inv, in_u16 in Hlab. btrue. split; [lia|assumption].
  - apply (nodup_by_NoDup str_eqb str_eqb_eq). exact Hnd.
  - apply Forall_forall. intros p Hp. rewrite forallb_forall in Hrel, Htr. specialize (Hrel p Hp). specialize (Htr p Hp).
    unfold in_u16 in Hrel. btrue. split; [lia|assumption].
  - apply (nodup_by_NoDup Z.eqb Zeqb_iff). exact Hndr.
  - exact Hchk.
  - intros d Ed. rewrite Ed in *. split; assumption.
  - destruct (st_labels st); [right|left; discriminate]. cbn [negb orb] in Hne. destruct (st_debug st); [discriminate|discriminate].
Qed.

Lemma line_table_lines_kept d : debug_inv d = true -> debug_text_inv d = true -> Forall kept (line_table_lines d).
Proof.
  intros Hi Ht. destruct (line_table_eq d Hi Ht) as (Et & Hrin & Elen). unfold line_table_lines.
  destruct (line_table d) as [|t0 ts] eqn:E; [constructor|].
  constructor; [apply line_header_kept|]. apply Forall_forall. intros l Hl. apply in_map_iff in Hl. destruct Hl as [[k m] [<- Hp]].
  apply line_row_kept. rewrite Et in Hp. unfold tbl in Hp. apply in_combine_l in Hp. apply seqz_in in Hp. lia.
Qed.

Lemma divider_kept : kept DIVIDER.
Proof. split; reflexivity. Qed.

Definition sections (st : symtab) : list str :=
  s2z ".SYMBOL" :: sym_table_lines (st_labels st) ++ s2z ".LINKER_INFO" :: rel_table_lines (st_rel st)
  ++ s2z ".DEBUG" :: (label_table_lines (st_labels st) ++ [DIVIDER] ++ debug_lines (st_debug st)).

Lemma sym_table_lines_kept labels : Forall sym_entry_ok labels -> Forall kept (sym_table_lines labels).
Proof.
  intro H. unfold sym_table_lines. destruct labels as [|p0 l0] eqn:E; [constructor|]. rewrite <- E in *.
  constructor; [split; reflexivity|]. apply Forall_forall. intros l Hl. apply in_map_iff in Hl. destruct Hl as [p [<- Hp]].
  apply sym_row_kept. rewrite Forall_forall in H. apply H. eapply Permutation_in; [apply sort_by_perm|exact Hp].
Qed.
Lemma rel_table_lines_kept rel : Forall rel_entry_ok rel -> Forall kept (rel_table_lines rel).
Proof.
  intro H. unfold rel_table_lines. destruct rel as [|p0 l0] eqn:E; [constructor|]. rewrite <- E in *.
  constructor; [split; reflexivity|]. apply Forall_forall. intros l Hl. apply in_map_iff in Hl. destruct Hl as [p [<- Hp]].
  apply rel_row_kept. rewrite Forall_forall in H. apply H. eapply Permutation_in; [apply sort_by_perm|exact Hp].
Qed.
Lemma label_table_lines_kept labels : Forall idx_entry_ok labels -> Forall kept (label_table_lines labels).
Proof.
  intro H. unfold label_table_lines. destruct labels as [|p0 l0] eqn:E; [constructor|]. rewrite <- E in *.
  constructor; [apply idx_header_kept|]. apply Forall_forall. intros l Hl. apply in_map_iff in Hl. destruct Hl as [p [<- Hp]].
  apply idx_row_kept. rewrite Forall_forall in H. apply H. eapply Permutation_in; [apply sort_by_perm|exact Hp].
Qed.
Lemma debug_part_kept st blocks : sym_facts blocks st ->
  Forall kept (label_table_lines (st_labels st) ++ [DIVIDER] ++ debug_lines (st_debug st)).
Proof.
  intro F. apply Forall_app. split; [apply label_table_lines_kept; apply (sf_idx _ _ F)|].
  apply Forall_app. split; [repeat constructor; apply divider_kept|].
  destruct (st_debug st) as [d|] eqn:Ed; cbn [debug_lines]; [|constructor].
  destruct (sf_dbg _ _ F d Ed) as [Hi Ht]. apply Forall_app. split; [apply line_table_lines_kept; assumption|].
  repeat constructor; apply divider_kept.
Qed.

Lemma filter_sym_lines st blocks : sym_facts blocks st -> filter keep_line (sym_lines st) = sections st.
Proof.
  intro F. unfold sym_lines, sections.
  change (match st_labels st with [] => [] | _ :: _ => s2z "ADDR | EXT | LABEL" :: map sym_row (sort_by sym_lt (st_labels st)) end)
    with (sym_table_lines (st_labels st)).
  change (match st_rel st with [] => [] | _ :: _ => s2z "ADDR | LABEL" :: map rel_row (sort_by rel_lt (st_rel st)) end)
    with (rel_table_lines (st_rel st)).
  change (match st_debug st with Some d => line_table_lines d ++ [DIVIDER] | None => [] end) with (debug_lines (st_debug st)).
  rewrite !filter_app.
  rewrite (filter_kept (sym_table_lines _)) by (apply sym_table_lines_kept; apply (sf_sym _ _ F)).
  rewrite (filter_kept (rel_table_lines _)) by (apply rel_table_lines_kept; apply (sf_rel _ _ F)).
  rewrite (filter_kept (label_table_lines _)) by (apply label_table_lines_kept; apply (sf_idx _ _ F)).
  pose proof (debug_part_kept st blocks F) as Hd. apply Forall_app in Hd. destruct Hd as [_ Hd]. apply Forall_app in Hd. destruct Hd as [_ Hd].
  rewrite (filter_kept (debug_lines _)) by exact Hd.
  reflexivity.
Qed.

Lemma flat_tblock_kept blocks : forallb block_inv blocks = true -> Forall kept (flat_map tblock_lines blocks).
Proof.
  induction blocks as [|b bl IH]; intro H; [constructor|]. apply forallb_cons_iff in H. destruct H as [Hb H].
  cbn [flat_map]. apply Forall_app. split; [apply tblock_lines_kept; exact Hb|apply IH; exact H].
Qed.

Lemma filter_text_lines o : text_inv o = true ->
  filter keep_line (text_lines o)
  = TFMT_MAGIC :: s2z ".TEXT" :: flat_map tblock_lines (o_blocks o)
    ++ match o_sym o with Some st => sections st | None => [] end.
Proof.
  intro H. destruct (text_inv_facts o H) as (Hbl & Hss & Hsym). unfold text_lines.
  rewrite !filter_app. rewrite (filter_kept (flat_map _ _)) by (apply flat_tblock_kept; exact Hbl).
  change (filter keep_line [TFMT_MAGIC; []; s2z ".TEXT"]) with [TFMT_MAGIC; s2z ".TEXT"].
  change (filter keep_line [[]]) with (@nil str). cbn [app]. f_equal. f_equal. f_equal.
  destruct (o_sym o) as [st|]; [|reflexivity]. apply (filter_sym_lines st (o_blocks o)). apply Hsym. reflexivity.
Qed.

Lemma check_relocations_perm blocks rel rel' : Permutation rel rel' -> check_relocations blocks rel = true -> check_relocations blocks rel' = true.
Proof. unfold check_relocations. apply forallb_perm. Qed.

Lemma group_lines_body_end body h b0 acc : Forall (fun l => starts_with 46 l = false) body ->
  group_lines body (Some (h, b0)) acc = Some (acc ++ [(h, b0 ++ body)]).
Proof.
  intro H. rewrite <- (app_nil_r body) at 1. rewrite group_lines_body by exact H. apply group_lines_end.
Qed.

(* C18 at the level of lines *)
Theorem deser_lines_text o : text_inv o = true ->
  exists o', deser_lines (filter keep_line (text_lines o)) = ROk o' /\ obj_equiv o o'.
Proof.
  intro H. rewrite (filter_text_lines o H). destruct (text_inv_facts o H) as (Hbl & Hss & Hsym).
  destruct o as [blocks sym]. cbn [o_blocks o_sym] in *.
  unfold deser_lines. change (str_eqb TFMT_MAGIC TFMT_MAGIC) with true. cbn [negb].
  pose proof (kept_not_dot _ (flat_tblock_kept blocks Hbl)) as Hnd.
  rewrite group_lines_header by reflexivity. cbn [flush].
  destruct sym as [st|].
  - pose proof (Hsym st eq_refl) as F. unfold sections.
    rewrite group_lines_body by exact Hnd. cbn [app].
    rewrite group_lines_header by reflexivity. cbn [flush app].
    rewrite group_lines_body by (apply kept_not_dot; apply sym_table_lines_kept; apply (sf_sym _ _ F)). cbn [app].
    rewrite group_lines_header by reflexivity. cbn [flush app].
    rewrite group_lines_body by (apply kept_not_dot; apply rel_table_lines_kept; apply (sf_rel _ _ F)). cbn [app].
    rewrite group_lines_header by reflexivity. cbn [flush app].
    rewrite group_lines_body_end by (apply kept_not_dot; apply (debug_part_kept st blocks F)). cbn [app].
    change (DIVIDER :: debug_lines (st_debug st)) with ([DIVIDER] ++ debug_lines (st_debug st)).
    cbn [run_groups]. rewrite grp_text by assumption. cbn [rd_bind].
    rewrite grp_symbol by (apply (sf_sym _ _ F) || apply (sf_nd _ _ F)). cbn [rd_bind].
    rewrite grp_linker by (apply (sf_rel _ _ F) || apply (sf_ndr _ _ F)). cbn [rd_bind].
    rewrite grp_debug by (apply (sf_idx _ _ F) || apply (sf_nd _ _ F) || apply (sf_dbg _ _ F)). cbn [rd_bind t_dbg t_blocks t_labels t_rel].
    assert (Hchk : check_relocations blocks (sort_by rel_lt (st_rel st)) = true)
      by (eapply check_relocations_perm; [apply Permutation_sym; apply sort_by_perm|apply (sf_chk _ _ F)]).
    destruct (st_debug st) as [d|] eqn:Ed.
    + destruct (sf_dbg _ _ F d Ed) as [Hdi Hdt]. destruct (line_table_eq d Hdi Hdt) as (_ & Hrin & _).
      unfold lsm_new. rewrite (lsm_runs_vec (ds_lines d) 0 _ [] Hrin ltac:(lia) ltac:(constructor)). cbn [app rd_bind].
      unfold debug_inv, debug_text_inv in *.
      assert (Hfb : lsm_from_blocks (ds_lines d) = ROk (ds_lines d)).
      { apply lsm_from_blocks_ok; [|apply separated_disjoint]; btrue; assumption. }
      rewrite Hfb. cbn [rd_bind]. unfold finish_obj. rewrite Hchk. cbn [negb is_some_dbg]. rewrite orb_true_r.
      eexists. split; [reflexivity|]. split; [reflexivity|]. cbn [o_sym]. repeat split; cbn [st_labels st_rel st_debug].
      * apply Permutation_sym. apply sort_by_perm.
      * apply Permutation_sym. apply sort_by_perm.
      * rewrite Ed. destruct d; reflexivity.
    + cbn [rd_bind]. unfold finish_obj. rewrite Hchk. cbn [negb is_some_dbg]. rewrite orb_false_r.
      destruct (sort_by sym_lt (st_labels st)) as [|p0 l0] eqn:Es.
      { exfalso. apply sort_by_nil_iff in Es. destruct (sf_ne _ _ F) as [Hn|Hn]; [contradiction|]. rewrite Ed in Hn. contradiction. }
      cbn [negb]. rewrite <- Es. eexists. split; [reflexivity|]. split; [reflexivity|]. cbn [o_sym]. repeat split; cbn [st_labels st_rel st_debug].
      * apply Permutation_sym. apply sort_by_perm.
      * apply Permutation_sym. apply sort_by_perm.
      * rewrite Ed. reflexivity.
  - rewrite app_nil_r. rewrite group_lines_body_end by exact Hnd. cbn [app].
    cbn [run_groups]. rewrite grp_text by assumption. cbn [rd_bind t_dbg t_blocks t_labels t_rel].
    unfold finish_obj. cbn. eexists. split; [reflexivity|]. split; [reflexivity|exact Logic.I].
Qed.

(* ------------------------------------------------------------------------------------------ *)
(* from the text back to the lines *)
Lemma nl_free_app a b : nl_free (a ++ b) = nl_free a && nl_free b.
Proof. unfold nl_free. apply forallb_app. Qed.
Lemma nl_free_printable s : forallb printable s = true -> nl_free s = true.
Proof.
  intro H. unfold nl_free. apply forallb_forall. intros x Hx. rewrite forallb_forall in H. specialize (H x Hx).
  unfold printable in H. btrue. apply andb_true_iff. split; apply negb_true_iff; apply Z.eqb_neq; lia.
Qed.
Lemma nl_free_no_ws s : no_ws s = true -> nl_free s = true.
Proof.
  unfold no_ws. intro H. unfold nl_free. apply forallb_forall. intros x Hx. rewrite forallb_forall in H. specialize (H x Hx).
  apply negb_true_iff in H. apply andb_true_iff. split; apply negb_true_iff; apply Z.eqb_neq; intro E; subst; discriminate.
Qed.
Lemma nl_free_digits u s : forallb (is_digit_char u) s = true -> nl_free s = true.
Proof. intro H. apply nl_free_no_ws. eapply digits_no_ws. exact H. Qed.
Lemma nl_free_spaces k : nl_free (repeat 32 k) = true.
Proof. unfold nl_free. apply forallb_forall. intros x Hx. apply repeat_spec in Hx. subst. reflexivity. Qed.
Lemma nl_free_hex4 v : 0 <= v < 65536 -> nl_free (hex4 v) = true.
Proof. intro H. eapply nl_free_digits. apply hex4_digits. exact H. Qed.
Lemma nl_free_dec n : 0 <= n -> nl_free (fmt_dec n) = true.
Proof. intro H. destruct (fmt_radix_spec 10 false n ltac:(lia) H) as (_ & H2 & _). eapply nl_free_digits. exact H2. Qed.
Lemma nl_free_tword w : word_ok w -> nl_free (tword w) = true.
Proof. destruct w as [v|]; cbn [word_ok tword]; intro H; [apply nl_free_hex4; exact H|reflexivity]. Qed.
Lemma nl_free_pad_left w s : nl_free s = true -> nl_free (pad_left 32 w s) = true.
Proof. intro H. unfold pad_left. rewrite nl_free_app, nl_free_spaces, H. reflexivity. Qed.
Lemma nl_free_pad_right w s : nl_free s = true -> nl_free (pad_right 32 w s) = true.
Proof. intro H. unfold pad_right. rewrite nl_free_app, nl_free_spaces, H. reflexivity. Qed.
Lemma nl_free_label l : label_text_ok l = true -> nl_free l = true.
Proof. intro H. apply nl_free_no_ws. apply label_ok_no_ws. exact H. Qed.

Lemma tblock_lines_nlfree b : block_inv b = true -> Forall (fun l => nl_free l = true) (tblock_lines b).
Proof.
  unfold block_inv, in_u16. intro H. apply andb_true_iff in H. destruct H as [H Hws].
  apply andb_true_iff in H. destruct H as [Ha Hlen]. btrue. unfold tblock_lines. pose proof (len_nonneg (snd b)).
  constructor; [apply nl_free_hex4; lia|]. constructor; [apply nl_free_dec; lia|].
  apply Forall_forall. intros l Hl. apply in_map_iff in Hl. destruct Hl as [w [<- Hw]].
  rewrite forallb_forall in Hws. specialize (Hws w Hw). apply nl_free_tword.
  destruct w as [v|]; cbn; [unfold in_u16 in Hws; btrue; lia|exact Logic.I].
Qed.
Lemma sym_lines_nlfree st blocks : sym_facts blocks st -> Forall (fun l => nl_free l = true) (sym_lines st).
Proof.
  intro F. unfold sym_lines.
  repeat (apply Forall_app; split); try (repeat constructor; reflexivity).
  - destruct (st_labels st) as [|p0 l0] eqn:E; [constructor|]. rewrite <- E. constructor; [reflexivity|].
    apply Forall_forall. intros l Hl. apply in_map_iff in Hl. destruct Hl as [p [<- Hp]].
    assert (Hok : sym_entry_ok p) by (pose proof (sf_sym _ _ F) as G; rewrite Forall_forall in G; apply G; eapply Permutation_in; [apply sort_by_perm|exact Hp]).
    destruct Hok as [Ha Hl]. unfold sym_row. rewrite !nl_free_app. rewrite nl_free_hex4 by exact Ha. rewrite (nl_free_label _ Hl).
    destruct (sd_external (snd p)); reflexivity.
  - destruct (st_rel st) as [|p0 l0] eqn:E; [constructor|]. rewrite <- E. constructor; [reflexivity|].
    apply Forall_forall. intros l Hl. apply in_map_iff in Hl. destruct Hl as [p [<- Hp]].
    assert (Hok : rel_entry_ok p) by (pose proof (sf_rel _ _ F) as G; rewrite Forall_forall in G; apply G; eapply Permutation_in; [apply sort_by_perm|exact Hp]).
    destruct Hok as [Ha Hl]. unfold rel_row. rewrite !nl_free_app. rewrite nl_free_hex4 by exact Ha. rewrite (nl_free_label _ Hl). reflexivity.
  - unfold label_table_lines. destruct (st_labels st) as [|p0 l0] eqn:E; [constructor|]. rewrite <- E. constructor.
    + rewrite !nl_free_app. rewrite !nl_free_pad_right by reflexivity. reflexivity.
    + apply Forall_forall. intros l Hl. apply in_map_iff in Hl. destruct Hl as [p [<- Hp]].
      assert (Hok : idx_entry_ok p) by (pose proof (sf_idx _ _ F) as G; rewrite Forall_forall in G; apply G; eapply Permutation_in; [apply sort_by_perm|exact Hp]).
      destruct Hok as [Hs Hl]. unfold idx_row. rewrite !nl_free_app. rewrite nl_free_pad_right by (apply nl_free_label; exact Hl).
      rewrite nl_free_pad_left by (apply nl_free_dec; lia). reflexivity.
  - destruct (st_debug st) as [d|] eqn:Ed; [|constructor]. destruct (sf_dbg _ _ F d Ed) as [Hdi Hdt].
    apply Forall_app. split; [|repeat constructor; reflexivity].
    destruct (line_table_eq d Hdi Hdt) as (Et & Hrin & Elen). unfold line_table_lines.
    destruct (line_table d) as [|t0 ts] eqn:E; [constructor|]. constructor.
    + rewrite !nl_free_app. rewrite nl_free_pad_right by reflexivity. reflexivity.
    + apply Forall_forall. intros l Hl. apply in_map_iff in Hl. destruct Hl as [[k m] [<- Hp]].
      rewrite Et in Hp. unfold tbl in Hp. pose proof (in_combine_l _ _ _ _ Hp) as Hk. apply seqz_in in Hk.
      pose proof (in_combine_r _ _ _ _ Hp) as Hm.
      assert (Hwok : word_ok m).
      { pose proof (vec_word_ok (ds_lines d) 0 (count_lines (ds_src d))) as G. unfold debug_inv in Hdi. btrue.
        match goal with Hr : forallb run_inv _ = true |- _ => specialize (G Hr) end. rewrite Forall_forall in G. apply G. exact Hm. }
      unfold line_row. cbn [fst snd]. rewrite !nl_free_app. rewrite nl_free_pad_left by (apply nl_free_dec; lia).
      rewrite nl_free_tword by exact Hwok.
      rewrite (nl_free_printable (escape _)); [reflexivity|].
      apply escape_printable.
      (* the raw line is a part of the (valid) source *)
      unfold debug_inv in Hdi. btrue. unfold valid_str in *. apply forallb_forall. intros x Hx.
      match goal with Hv : forallb is_scalar (ds_src d) = true |- _ => rewrite forallb_forall in Hv; apply Hv end.
      unfold src_line in Hx. destruct (raw_line_span (ds_src d) k) as [[a b]|]; [|destruct Hx].
      unfold substr in Hx. clear -Hx. revert Hx. generalize 0 at 1. induction (ds_src d) as [|c s IH]; intros o Hx; [destruct Hx|].
      cbn [sub_from] in Hx. destruct ((a <=? o) && (o <? b)); [destruct Hx as [->|Hx]; [left; reflexivity|right; eapply IH; exact Hx]|right; eapply IH; exact Hx].
Qed.

Lemma ln_blanks blanks : Forall (fun l : str => l = []) blanks -> forallb is_ws (flat_map ln blanks) = true.
Proof. induction 1 as [|l bl Hl _ IH]; [reflexivity|]. subst l. cbn [flat_map ln app forallb]. exact IH. Qed.

Theorem lines_of_text Ls0 Llast blanks h X c :
  Forall (fun l => nl_free l = true) (Ls0 ++ [Llast]) ->
  flat_map ln Ls0 ++ Llast = (h :: X) ++ [c] -> is_ws h = false -> is_ws c = false -> Llast <> [] ->
  Forall (fun l : str => l = []) blanks ->
  lines (trim (flat_map ln (Ls0 ++ [Llast] ++ blanks))) = Ls0 ++ [Llast].
Proof.
  intros Hnl E Hh Hc Hne Hb.
  rewrite !flat_map_app. cbn [flat_map]. rewrite app_nil_r. unfold ln at 2.
  replace (flat_map ln Ls0 ++ (Llast ++ [10]) ++ flat_map ln blanks)
    with ((flat_map ln Ls0 ++ Llast) ++ [10] ++ flat_map ln blanks) by (rewrite <- !app_assoc; reflexivity).
  rewrite E. rewrite <- app_assoc.
  destruct (trim_text h X c ([10] ++ flat_map ln blanks) Hh Hc) as [T _].
  { cbn [app forallb]. apply ln_blanks. exact Hb. }
  rewrite T. rewrite <- E. apply Forall_app in Hnl. destruct Hnl as [Hn1 Hn2]. inversion Hn2 as [|? ? Hn3 _]; subst.
  apply lines_join; assumption.
Qed.

Definition solid (l : str) : Prop := l <> [] /\ no_ws l = true.
Lemma solid_last l : solid l -> exists Y c, l = Y ++ [c] /\ is_ws c = false.
Proof.
  intros [Hne Hw]. destruct (exists_last Hne) as (Y & c & E). exists Y, c. split; [exact E|].
  unfold no_ws in Hw. rewrite forallb_forall in Hw. specialize (Hw c ltac:(rewrite E; apply in_or_app; right; left; reflexivity)).
  apply negb_true_iff in Hw. exact Hw.
Qed.
Lemma digits_solid u s : s <> [] -> forallb (is_digit_char u) s = true -> solid s.
Proof. intros H1 H2. split; [exact H1|eapply digits_no_ws; exact H2]. Qed.
Lemma tblock_lines_solid b : block_inv b = true -> Forall solid (tblock_lines b).
Proof.
  unfold block_inv, in_u16. intro H. apply andb_true_iff in H. destruct H as [H Hws].
  apply andb_true_iff in H. destruct H as [Ha Hlen]. btrue. unfold tblock_lines. pose proof (len_nonneg (snd b)).
  assert (Hhex : forall v, 0 <= v < 65536 -> solid (hex4 v)).
  { intros v Hv. destruct (hex4_props v Hv) as (_ & H2 & H3 & _). apply (digits_solid true); [|exact H3]. intro E. rewrite E in H2. discriminate. }
  constructor; [apply Hhex; lia|]. constructor.
  { destruct (fmt_radix_spec 10 false (len (snd b)) ltac:(lia) ltac:(lia)) as (Hf1 & Hf2 & _). apply (digits_solid false); assumption. }
  apply Forall_forall. intros l Hl. apply in_map_iff in Hl. destruct Hl as [w [<- Hw]].
  rewrite forallb_forall in Hws. specialize (Hws w Hw). destruct w as [v|]; cbn [tword].
  - apply Hhex. unfold in_u16 in Hws. btrue. lia.
  - split; [discriminate|reflexivity].
Qed.

Lemma magic_head A' Llast' c : exists X, flat_map ln (TFMT_MAGIC :: A') ++ (Llast' ++ [c]) = (76 :: X) ++ [c].
Proof.
  cbn [flat_map]. unfold ln at 1. change TFMT_MAGIC with (76 :: s2z "C-3 OBJ FILE").
  eexists. rewrite app_assoc. cbn [app]. reflexivity.
Qed.

Lemma sym_lines_last st : exists B, sym_lines st = B ++ [DIVIDER].
Proof.
  unfold sym_lines. destruct (st_debug st) as [d|].
  - eexists. rewrite !app_assoc. reflexivity.
  - eexists. rewrite app_nil_r. rewrite !app_assoc. reflexivity.
Qed.

Lemma filter_lines_text o : text_inv o = true ->
  filter keep_line (lines (trim (ser_text o))) = filter keep_line (text_lines o).
Proof.
  intro H. destruct (text_inv_facts o H) as (Hbl & Hss & Hsym). unfold ser_text.
  assert (Hnl : Forall (fun l => nl_free l = true) (text_lines o)).
  { unfold text_lines. repeat (apply Forall_app; split); try (repeat constructor; reflexivity).
    - clear -Hbl. induction (o_blocks o) as [|b bl IH]; [constructor|]. apply forallb_cons_iff in Hbl. destruct Hbl as [Hb Hbl].
      cbn [flat_map]. apply Forall_app. split; [apply tblock_lines_nlfree; exact Hb|apply IH; exact Hbl].
    - destruct (o_sym o) as [st|]; [|constructor]. apply (sym_lines_nlfree st (o_blocks o)). apply Hsym. reflexivity. }
  destruct (o_sym o) as [st|] eqn:Es.
  - (* the text ends with a divider *)
    destruct (sym_lines_last st) as [B EB].
    assert (E : text_lines o = (TFMT_MAGIC :: [] :: s2z ".TEXT" :: flat_map tblock_lines (o_blocks o) ++ [[]] ++ B) ++ [DIVIDER] ++ []).
    { unfold text_lines. rewrite Es, EB. cbn [app]. rewrite <- !app_assoc. cbn [app]. reflexivity. }
    rewrite E in *. clear E.
    change DIVIDER with (s2z "===================" ++ [61]) in *.
    destruct (magic_head ([] :: s2z ".TEXT" :: flat_map tblock_lines (o_blocks o) ++ [[]] ++ B) (s2z "===================") 61) as [X EX].
    rewrite (lines_of_text _ _ [] 76 X 61 Hnl EX eq_refl eq_refl).
    + cbn [app]. reflexivity.
    + destruct (s2z "==================="); discriminate.
    + constructor.
  - (* no symbol table: the text ends with the last line of .TEXT and a blank line *)
    assert (Hsol : Forall solid (s2z ".TEXT" :: flat_map tblock_lines (o_blocks o))).
    { constructor; [split; [discriminate|reflexivity]|]. clear -Hbl.
      induction (o_blocks o) as [|b bl IH]; [constructor|]. apply forallb_cons_iff in Hbl. destruct Hbl as [Hb Hbl].
      cbn [flat_map]. apply Forall_app. split; [apply tblock_lines_solid; exact Hb|apply IH; exact Hbl]. }
    destruct (@exists_last _ (s2z ".TEXT" :: flat_map tblock_lines (o_blocks o)) ltac:(discriminate)) as (Y0 & y & EY).
    assert (Hy : solid y) by (rewrite Forall_forall in Hsol; apply Hsol; rewrite EY; apply in_or_app; right; left; reflexivity).
    destruct (solid_last y Hy) as (Yy & c & Ey & Hc).
    assert (E : text_lines o = (TFMT_MAGIC :: [] :: Y0) ++ [y] ++ [[]]).
    { unfold text_lines. rewrite Es. rewrite app_nil_r.
      change ([TFMT_MAGIC; []; s2z ".TEXT"] ++ flat_map tblock_lines (o_blocks o) ++ [[]])
        with (TFMT_MAGIC :: [] :: (s2z ".TEXT" :: flat_map tblock_lines (o_blocks o)) ++ [[]]).
      rewrite EY. rewrite <- app_assoc. reflexivity. }
    rewrite E in *. clear E. subst y.
    destruct (magic_head ([] :: Y0) Yy c) as [X EX].
    assert (Hnl' : Forall (fun l => nl_free l = true) ((TFMT_MAGIC :: [] :: Y0) ++ [Yy ++ [c]])).
    { rewrite app_assoc in Hnl. apply Forall_app in Hnl. apply Hnl. }
    rewrite (lines_of_text _ _ [[]] 76 X c Hnl' EX eq_refl Hc).
    + rewrite !filter_app. change (filter keep_line [[]]) with (@nil str). rewrite app_nil_r. reflexivity.
    + destruct Yy; discriminate.
    + repeat constructor.
Qed.

(* text_inv does not depend on the order of the label / relocation lists *)
Lemma text_inv_equiv o o' : obj_equiv o o' -> text_inv o = true -> text_inv o' = true.
Proof.
  intros E. unfold text_inv. intro H. apply andb_true_iff in H. destruct H as [Hi Ht].
  apply andb_true_iff. split; [eapply obj_inv_equiv; eassumption|].
  destruct E as [_ Es]. destruct (o_sym o) as [s|], (o_sym o') as [s'|]; try contradiction; [|reflexivity].
  destruct Es as (P1 & P2 & Ed). rewrite <- Ed.
  apply andb_true_iff in Ht. destruct Ht as [Ht Hd]. apply andb_true_iff in Ht. destruct Ht as [Hl Hr].
  repeat (apply andb_true_iff; split); [eapply forallb_perm; eassumption|eapply forallb_perm; eassumption|exact Hd].
Qed.
Lemma obj_equiv_trans a b c : obj_equiv a b -> obj_equiv b c -> obj_equiv a c.
Proof.
  intros [H1 H2] [H3 H4]. split; [congruence|].
  destruct (o_sym a), (o_sym b), (o_sym c); try contradiction; [|exact Logic.I].
  destruct H2 as (P1 & P2 & E1). destruct H4 as (P3 & P4 & E2).
  repeat split; [eapply Permutation_trans; eassumption|eapply Permutation_trans; eassumption|congruence].
Qed.

(* C18 *)
Theorem text_roundtrip o : text_inv o = true ->
  forall o_w, obj_equiv o o_w -> exists o', deser_text (ser_text o_w) = ROk o' /\ obj_equiv o o'.
Proof.
  intros H o_w E. pose proof (text_inv_equiv o o_w E H) as Hw.
  unfold deser_text. rewrite (filter_lines_text o_w Hw).
  destruct (deser_lines_text o_w Hw) as (o' & E1 & E2). exists o'. split; [exact E1|].
  eapply obj_equiv_trans; eassumption.
Qed.
