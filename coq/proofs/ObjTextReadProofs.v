(* ObjTextReadProofs.v — C19 for the text reader (model/ObjText.v): deser_text never returns
   RPanic (nor runs out of fuel) on any list of integers, and the object it returns satisfies
   pipe_ok (so link and load cannot panic on it, proofs/ObjPipelineProofs.v). *)
From Coq Require Import ZArith List Bool Lia String.
From Model Require Import Tree Text Obj SourceInfo ObjBin ObjText ObjPipeline.
From Proofs Require Import ObjBytesProofs ObjBinProofs ObjPipelineProofs.
Import ListNotations.
Open Scope Z_scope.
Ltac Zify.zify_post_hook ::= Z.div_mod_to_equations.

(* ---------- numbers read from text are within their type ---------- *)
Lemma digit_val_range radix c d : 0 <= radix -> digit_val radix c = Some d -> 0 <= d < radix.
Proof.
  unfold digit_val. intros Hr H.
  destruct ((48 <=? c) && (c <=? 57)) eqn:E1; [|destruct ((97 <=? c) && (c <=? 122)) eqn:E2; [|destruct ((65 <=? c) && (c <=? 90)) eqn:E3]].
  - btrue. destruct (c - 48 <? radix) eqn:E; [|discriminate]. inversion H; subst. btrue. lia.
  - btrue. destruct (c - 87 <? radix) eqn:E; [|discriminate]. inversion H; subst. btrue. lia.
  - btrue. destruct (c - 55 <? radix) eqn:E; [|discriminate]. inversion H; subst. btrue. lia.
  - rewrite Z.ltb_irrefl in H. discriminate.
Qed.
Lemma digits_val_nonneg radix s : forall acc v, 0 <= radix -> 0 <= acc -> digits_val radix s acc = Some v -> 0 <= v.
Proof.
  induction s as [|c s IH]; intros acc v Hr Ha H; cbn [digits_val] in H; [inversion H; subst; exact Ha|].
  destruct (digit_val radix c) as [d|] eqn:E; [|discriminate].
  apply digit_val_range in E; [|exact Hr]. eapply IH; [exact Hr| |exact H]. nia.
Qed.
Lemma parse_uint_range radix max s v : 0 <= radix -> parse_uint radix max s = Some v -> 0 <= v <= max.
Proof.
  intros Hr. unfold parse_uint. destruct s as [|c [|c2 r]]; [discriminate| |].
  - destruct (digit_val radix c) as [d|] eqn:E; [|discriminate]. apply digit_val_range in E; [|exact Hr].
    destruct (d <=? max) eqn:E2; [|discriminate]. intro H. inversion H; subst. btrue. lia.
  - destruct (digits_val radix (if c =? 43 then c2 :: r else c :: c2 :: r) 0) as [w|] eqn:E; [|discriminate].
    apply digits_val_nonneg in E; [|exact Hr|lia].
    destruct (w <=? max) eqn:E2; [|discriminate]. intro H. inversion H; subst. btrue. lia.
Qed.
Lemma hex2u16_range s v : hex2u16 s = Some v -> 0 <= v <= 65535.
Proof. unfold hex2u16. destruct (byte_len s =? 4); [|discriminate]. apply parse_uint_range. lia. Qed.

(* ---------- .TEXT ---------- *)
Lemma take_words_spec n : forall ls ws rest, take_words n ls = Some (ws, rest) ->
  List.length ws = n /\ (List.length rest <= List.length ls)%nat.
Proof.
  induction n as [|n IH]; intros ls ws rest H; cbn [take_words] in H.
  - inversion H; subst. split; [reflexivity|lia].
  - destruct ls as [|l r]; [discriminate|]. destruct (maybe_hex2u16 l) as [w|]; [|discriminate].
    destruct (take_words n r) as [[ws' rest']|] eqn:E; [|discriminate]. inversion H; subst.
    destruct (IH _ _ _ E) as [H1 H2]. cbn [List.length]. split; lia.
Qed.

Lemma text_group_spec fuel : forall ls blocks, (List.length ls <= fuel)%nat -> blocks_ok blocks = true ->
  match text_group fuel ls blocks with
  | ROk bl => blocks_ok bl = true
  | RNone => True
  | RPanic => False
  end.
Proof.
  induction fuel as [|f IH]; intros ls blocks Hl Hb.
  - destruct ls; [exact Hb|cbn in Hl; lia].
  - destruct ls as [|orig_hex r]; [exact Hb|]. cbn [text_group].
    destruct (hex2u16 orig_hex) as [orig|] eqn:Eo; [|exact Logic.I].
    destruct r as [|len_s r']; [exact Logic.I|].
    destruct (parse_uint 10 U16_MAX len_s) as [blen|] eqn:El; [|exact Logic.I].
    destruct (take_words (Z.to_nat blen) r') as [[ws rest]|] eqn:Ew; [|exact Logic.I].
    destruct (bt_mem orig blocks); [exact Logic.I|].
    apply take_words_spec in Ew. destruct Ew as [Ew1 Ew2].
    apply IH; [cbn [List.length] in Hl; lia|].
    apply blocks_ok_insert; [|exact Hb].
    apply hex2u16_range in Eo. apply parse_uint_range in El; [|lia]. unfold U16_MAX in El.
    unfold block_ok, len. cbn [fst snd]. rewrite Ew1.
    repeat (apply andb_true_iff; split); apply Z.leb_le; lia.
Qed.

(* ---------- LineSymbolMap::new ---------- *)
Lemma lsm_runs_np lines : forall i cur acc, 0 <= i ->
  (match cur with Some c => len c <= i | None => True end) -> lsm_runs lines i cur acc <> RPanic.
Proof.
  induction lines as [|[a|] lines IH]; intros i cur acc Hi Hc; cbn [lsm_runs]; [discriminate| |].
  - apply IH; [lia|]. destruct cur as [c|]; [rewrite len_app; unfold len at 2; cbn [List.length]; lia|unfold len; cbn; lia].
  - destruct cur as [c|].
    + replace (i - len c <? 0) with false by (symmetry; apply Z.ltb_ge; lia). apply IH; [lia|exact Logic.I].
    + apply IH; [lia|exact Logic.I].
Qed.
Lemma lsm_new_np lines : lsm_new lines <> RPanic.
Proof.
  unfold lsm_new. pose proof (lsm_runs_np lines 0 None [] ltac:(lia) Logic.I) as H.
  destruct (lsm_runs lines 0 None []); cbn [rd_bind]; [apply lsm_from_blocks_np|discriminate|contradiction].
Qed.
Lemma lsm_new_bounds lines lm : lsm_new lines = ROk lm ->
  forallb (fun b => fst b + len (snd b) <=? ISIZE_MAX) lm = true.
Proof.
  unfold lsm_new. destruct (lsm_runs lines 0 None []) as [bl| |]; cbn [rd_bind]; try discriminate.
  intro H. apply lsm_from_blocks_ok_inv in H. destruct H as [-> H]. exact H.
Qed.

(* ---------- groups ---------- *)
Definition tgood (r : rd tstate) : Prop :=
  match r with ROk st => blocks_ok (t_blocks st) = true | RNone => True | RPanic => False end.

Lemma debug_group_good rest st : blocks_ok (t_blocks st) = true -> tgood (debug_group rest st).
Proof.
  intro Hb. unfold debug_group. destruct rest as [|l0 rest0]; [exact Hb|].
  destruct (break_div (l0 :: rest0)) as [[label_src tail]|]; [|exact Logic.I].
  destruct (negb (starts_with 61 (last (l0 :: rest0) []))); [exact Logic.I|].
  destruct (parse_table label_src [LABEL; INDEX] idx_rowp true) as [ltab|]; [|exact Logic.I].
  destruct (parse_table _ _ line_rowp false) as [[|row rows]|]; [exact Hb| |exact Logic.I].
  destruct (match t_dbg st with Some x => x | None => ([], []) end) as [lm src].
  destruct (unescape _); [exact Hb|exact Logic.I].
Qed.
Lemma group_good h rest st : blocks_ok (t_blocks st) = true -> tgood (group h rest st).
Proof.
  intro Hb. unfold group.
  destruct (str_eqb h (s2z ".TEXT"%string)).
  { pose proof (text_group_spec (List.length rest) rest (t_blocks st) (le_n _) Hb) as H.
    destruct (text_group (List.length rest) rest (t_blocks st)); cbn [rd_bind tgood t_blocks]; [exact H|exact Logic.I|contradiction]. }
  destruct (str_eqb h (s2z ".SYMBOL"%string)).
  { destruct (parse_table rest _ sym_rowp true); [exact Hb|exact Logic.I]. }
  destruct (str_eqb h (s2z ".LINKER_INFO"%string)).
  { destruct (parse_table rest _ rel_rowp true); [exact Hb|exact Logic.I]. }
  destruct (str_eqb h (s2z ".DEBUG"%string)); [apply debug_group_good; exact Hb|exact Logic.I].
Qed.
Lemma run_groups_good gs : forall st, blocks_ok (t_blocks st) = true -> tgood (run_groups gs st).
Proof.
  induction gs as [|[h r] gs IH]; intros st Hb; [exact Hb|]. cbn [run_groups].
  pose proof (group_good h r st Hb) as H. destruct (group h r st) as [st'| |]; cbn [rd_bind]; [apply IH; exact H|exact Logic.I|contradiction].
Qed.

Theorem deser_text_total s : deser_text s <> RPanic.
Proof.
  unfold deser_text, deser_lines. destruct (filter _ (lines (trim s))) as [|first rest]; [discriminate|].
  destruct (negb (str_eqb first TFMT_MAGIC)); [discriminate|].
  destruct (group_lines rest None []) as [gs|]; [|discriminate].
  pose proof (run_groups_good gs (mkT [] [] [] None) eq_refl) as H.
  destruct (run_groups gs (mkT [] [] [] None)) as [st| |]; cbn [rd_bind]; [|discriminate|contradiction].
  destruct (t_dbg st) as [[lm src]|]; cbn [rd_bind].
  - pose proof (lsm_new_np lm) as Hl. destruct (lsm_new lm); cbn [rd_bind]; [apply finish_obj_np|discriminate|contradiction].
  - apply finish_obj_np.
Qed.

Theorem deser_text_pipe_ok s o : deser_text s = ROk o -> src_fits o -> pipe_ok o = true.
Proof.
  unfold deser_text, deser_lines. intros H Hs. destruct (filter _ (lines (trim s))) as [|first rest]; [discriminate|].
  destruct (negb (str_eqb first TFMT_MAGIC)); [discriminate|].
  destruct (group_lines rest None []) as [gs|]; [|discriminate].
  pose proof (run_groups_good gs (mkT [] [] [] None) eq_refl) as Hg.
  destruct (run_groups gs (mkT [] [] [] None)) as [st| |]; cbn [rd_bind] in H; try discriminate. cbn [tgood] in Hg.
  destruct (t_dbg st) as [[lm src]|].
  - destruct (lsm_new lm) as [lm'| |] eqn:El; cbn [rd_bind] in H; try discriminate.
    eapply finish_obj_pipe_ok; try eassumption. intros d Hd. inversion Hd; subst. cbn [ds_lines].
    apply lsm_new_bounds in El. exact El.
  - cbn [rd_bind] in H. eapply finish_obj_pipe_ok; try eassumption. intros d Hd. discriminate.
Qed.
