From Coq Require Import ZArith List Bool Lia.
From Model Require Import Tree Bits Offset.
Open Scope Z_scope.
Ltac Zify.zify_post_hook ::= Z.div_mod_to_equations.

Definition fits_s (n v : Z) : bool := (- 2 ^ (n - 1) <=? v) && (v <? 2 ^ (n - 1)).
Definition fits_u (n v : Z) : bool := (0 <=? v) && (v <? 2 ^ n).

Lemma n_cases n : 1 <= n <= 16 ->
  n = 1 \/ n = 2 \/ n = 3 \/ n = 4 \/ n = 5 \/ n = 6 \/ n = 7 \/ n = 8 \/
  n = 9 \/ n = 10 \/ n = 11 \/ n = 12 \/ n = 13 \/ n = 14 \/ n = 15 \/ n = 16.
Proof. lia. Qed.

Ltac ncase H :=
  apply n_cases in H;
  repeat (destruct H as [H | H]; [subst | ]); [.. | subst].

Lemma truncate_s_sext n v : 1 <= n <= 16 -> -32768 <= v < 32768 ->
  truncate_s v n = sext n v.
Proof.
  intros Hn Hv. unfold truncate_s, shr_i16, shl_i16, to_i16, wrap16, sext.
  rewrite Z.shiftl_mul_pow2 by lia. rewrite Z.shiftr_div_pow2 by lia.
  ncase Hn; cbn [Z.sub Z.add Z.opp Z.pos_sub Z.pow Z.pow_pos Pos.iter Z.mul Pos.mul Pos.pred_double Z.succ_double Z.pred_double Z.double Pos.succ Pos.add];
  repeat match goal with |- context [if ?c then _ else _] => destruct c eqn:? end; lia.
Qed.

Lemma truncate_u_zext n v : 1 <= n <= 16 -> 0 <= v < 65536 ->
  truncate_u v n = zext n v.
Proof.
  intros Hn Hv. unfold truncate_u, shr_u16, shl_u16, wrap16, zext.
  rewrite Z.shiftl_mul_pow2 by lia. rewrite Z.shiftr_div_pow2 by lia.
  ncase Hn; cbn [Z.sub Z.add Z.opp Z.pos_sub Z.pow Z.pow_pos Pos.iter Z.mul Pos.mul Pos.pred_double Z.succ_double Z.pred_double Z.double Pos.succ Pos.add];
  lia.
Qed.

Lemma sext_fix n v : 1 <= n <= 16 -> (v =? sext n v) = fits_s n v.
Proof.
  intros Hn. unfold sext, fits_s.
  ncase Hn; cbn [Z.sub Z.add Z.opp Z.pos_sub Z.pow Z.pow_pos Pos.iter Z.mul Pos.mul Pos.pred_double Z.succ_double Z.pred_double Z.double Pos.succ Pos.add];
  repeat match goal with |- context [if ?c then _ else _] => destruct c eqn:? end; lia.
Qed.

Lemma zext_fix n v : 1 <= n <= 16 -> (v =? zext n v) = fits_u n v.
Proof.
  intros Hn. unfold zext, fits_u.
  ncase Hn; cbn [Z.sub Z.add Z.opp Z.pos_sub Z.pow Z.pow_pos Pos.iter Z.mul Pos.mul Pos.pred_double Z.succ_double Z.pred_double Z.double Pos.succ Pos.add];
  lia.
Qed.

Lemma n_ok_true n : 1 <= n <= 16 -> n_ok n = true.
Proof. unfold n_ok. lia. Qed.

Lemma new_s_spec n v : 1 <= n <= 16 -> -32768 <= v < 32768 ->
  new_s n v = if fits_s n v then Ok v else Err (CannotFitSigned n).
Proof.
  intros Hn Hv. unfold new_s. rewrite n_ok_true by assumption.
  rewrite truncate_s_sext by assumption. rewrite sext_fix by assumption. reflexivity.
Qed.

Lemma new_u_spec n v : 1 <= n <= 16 -> 0 <= v < 65536 ->
  new_u n v = if fits_u n v then Ok v else Err (CannotFitUnsigned n).
Proof.
  intros Hn Hv. unfold new_u. rewrite n_ok_true by assumption.
  rewrite truncate_u_zext by assumption. rewrite zext_fix by assumption. reflexivity.
Qed.

Lemma new_trunc_s_spec n v : 1 <= n <= 16 -> -32768 <= v < 32768 ->
  new_trunc_s n v = Ok (sext n v).
Proof.
  intros Hn Hv. unfold new_trunc_s. rewrite n_ok_true by assumption.
  rewrite truncate_s_sext by assumption. reflexivity.
Qed.

Lemma new_trunc_u_spec n v : 1 <= n <= 16 -> 0 <= v < 65536 ->
  new_trunc_u n v = Ok (zext n v).
Proof.
  intros Hn Hv. unfold new_trunc_u. rewrite n_ok_true by assumption.
  rewrite truncate_u_zext by assumption. reflexivity.
Qed.

(* the truncated value is always representable, and truncation is idempotent *)
Lemma sext_fits n v : 1 <= n <= 16 -> fits_s n (sext n v) = true.
Proof.
  intros Hn. unfold sext, fits_s.
  ncase Hn; cbn [Z.sub Z.add Z.opp Z.pos_sub Z.pow Z.pow_pos Pos.iter Z.mul Pos.mul Pos.pred_double Z.succ_double Z.pred_double Z.double Pos.succ Pos.add];
  repeat match goal with |- context [if ?c then _ else _] => destruct c eqn:? end; lia.
Qed.
Lemma zext_fits n v : 1 <= n <= 16 -> fits_u n (zext n v) = true.
Proof.
  intros Hn. unfold zext, fits_u.
  ncase Hn; cbn [Z.sub Z.add Z.opp Z.pos_sub Z.pow Z.pow_pos Pos.iter Z.mul Pos.mul Pos.pred_double Z.succ_double Z.pred_double Z.double Pos.succ Pos.add];
  lia.
Qed.
(* the sign extension agrees with the value on the low n bits *)
Lemma sext_low_bits n v : 1 <= n <= 16 -> (sext n v) mod 2 ^ n = v mod 2 ^ n.
Proof.
  intros Hn. unfold sext.
  ncase Hn; cbn [Z.sub Z.add Z.opp Z.pos_sub Z.pow Z.pow_pos Pos.iter Z.mul Pos.mul Pos.pred_double Z.succ_double Z.pred_double Z.double Pos.succ Pos.add];
  repeat match goal with |- context [if ?c then _ else _] => destruct c eqn:? end; lia.
Qed.
