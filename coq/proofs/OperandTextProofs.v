(* OperandTextProofs.v — C05 end to end: a statement text whose last operand is a numeral is
   parsed to the statement carrying the numeral's value exactly when the value fits the field;
   otherwise parse_ast returns an error located at the numeral. *)
From Coq Require Import ZArith List Bool Lia String.
From Model Require Import Tree Text Bits Offset Instr AsmAst Lexer Parser Print.
From Spec Require Import Numerals.
From Proofs Require Import LexerProofs LexStepProofs LexNumProofs OffsetProofs PiecesProofs PrintParseProofs LayoutProofs.
Import ListNotations.
Open Scope Z_scope.

(* the text before the numeral, one per field (canonical spacing) *)
Definition field_prefix (f : field) : list piece :=
  match f with
  | Imm5 => [Wkw "ADD" KADD; Sp; Wreg 1; Cm; Sp; Wreg 2; Cm; Sp]
  | Offset6 => [Wkw "LDR" KLDR; Sp; Wreg 3; Cm; Sp; Wreg 4; Cm; Sp]
  | PCOffset9 => [Wkw "LD" KLD; Sp; Wreg 5; Cm; Sp]
  | PCOffset11 => [Wkw "JSR" KJSR; Sp]
  | TrapVect8 => [Wkw "TRAP" KTRAP; Sp]
  | Orig => [Wdir "orig"; Sp]
  | Blkw => [Wdir "blkw"; Sp]
  | Fill => [Wdir "fill"; Sp]
  end.
Definition field_nucleus (f : field) (v : Z) : nucleus :=
  match f with
  | Imm5 => NInstr (AADD 1 2 (Imm v))
  | Offset6 => NInstr (ALDR 3 4 v)
  | PCOffset9 => NInstr (ALD 5 (POff v))
  | PCOffset11 => NInstr (AJSR (POff v))
  | TrapVect8 => NInstr (ATRAP v)
  | Orig => NDir (DOrig v)
  | Blkw => NDir (DBlkw v)
  | Fill => NDir (DFill (POff (v mod 65536)))
  end.
(* "ADD R1, R2, " etc. followed by the numeral x *)
Definition operand_text (f : field) (x : str) : str := text_of (field_prefix f) ++ x.

Lemma prefix_ok f x t : word_ok x t -> pieces_ok (field_prefix f ++ [W x t]).
Proof.
  intros Hw. assert (Hlast : pieces_ok [W x t]) by (cbn [pieces_ok delim_next]; repeat split; assumption).
  destruct f; cbn [field_prefix app]; pieces_tac;
    repeat first [ exact Hlast | (apply Wreg_ok; [reflexivity| |]) | exact Logic.I
                 | match goal with |- pieces_ok (Sp :: _) => apply Sp_ok | |- pieces_ok (Cm :: _) => apply Cm_ok end ].
Qed.

Lemma text_prefix f x t : text_of (field_prefix f ++ [W x t]) = operand_text f x.
Proof. unfold operand_text. rewrite text_of_app. cbn [text_of flat_map piece_text]. rewrite app_nil_r. reflexivity. Qed.

(* the result: the statement with the value, spanning the whole text, or an error at the numeral *)
Definition operand_outcome (f : field) (x : str) (v : Z) (r : pres (list stmt)) : Prop :=
  if fits f v
  then r = POk [mkStmt [] (field_nucleus f v) 0 (byte_len (operand_text f x))]
  else exists k, r = PErr k (byte_len (text_of (field_prefix f)), byte_len (operand_text f x)).

Lemma skip_labels_kw k sp ts prev last : skip_labels ((TIdent (IKw k), sp) :: ts) prev last = ([], last, ((TIdent (IKw k), sp) :: ts, prev)).
Proof. reflexivity. Qed.
Lemma skip_labels_dir n sp ts prev last : skip_labels ((TDirective n, sp) :: ts) prev last = ([], last, ((TDirective n, sp) :: ts, prev)).
Proof. reflexivity. Qed.

Ltac close_lens :=
  repeat match goal with |- context [byte_len ?s] =>
    let n := eval vm_compute in (byte_len s) in
    lazymatch n with Zpos _ => change (byte_len s) with n | Z0 => change (byte_len s) with n end end.
Ltac pos_arith :=
  cbn [text_of flat_map piece_text app Wkw Wreg Wdir]; rewrite ?app_nil_r;
  repeat first [rewrite byte_len_app | progress cbn [byte_len]]; close_lens;
  repeat match goal with |- context [utf8_len ?c] => let n := eval vm_compute in (utf8_len c) in change (utf8_len c) with n end;
  lia.

(* replace the operand parser call by its result, up to conversion *)
Ltac rep H :=
  match type of H with _ = ?r =>
    first [ match goal with |- context [p_ior ?a ?b] => replace (p_ior a b) with r by (symmetry; exact H) end
          | match goal with |- context [p_pcoff ?a ?b] => replace (p_pcoff a b) with r by (symmetry; exact H) end
          | match goal with |- context [p_off ?a ?b] => replace (p_off a b) with r by (symmetry; exact H) end
          | match goal with |- context [p_directive ?a ?b ?c] => replace (p_directive a b c) with r by (symmetry; exact H) end ]
  end.
Ltac fin H :=
  unfold op_result in H;
  match type of H with if ?b then _ else _ => destruct b end;
  [ rep H; cbn [pbind p_end fst snd skip_nl all_nl forallb p_stmts field_nucleus stored]; f_equal; f_equal; f_equal; pos_arith
  | let k := fresh "k" in destruct H as [k H]; rep H; exists k; cbn [pbind]; f_equal; f_equal; pos_arith ].

Ltac run_regs :=
  repeat first
    [ rewrite p_reg_comma_tok by reflexivity
    | rewrite p_reg_tok by reflexivity
    | (rewrite pbind_ok; cbn beta iota) ].

Theorem operand_text_parse f x t v : word_ok x t -> num_tok t v ->
  operand_outcome f x v (parse_ast (operand_text f x)).
Proof.
  intros Hw Ht. rewrite <- (text_prefix f x t).
  unfold parse_ast, parse_ast_with. rewrite lex_with_at, lex_pieces by (apply prefix_ok; exact Hw).
  unfold operand_outcome. rewrite <- (text_prefix f x t).
  assert (Hnc : negb (is_comment t) = true) by (destruct Ht as [[-> _]|[-> _]]; reflexivity).
  destruct f; cbn [field_prefix app toks_of Wkw Wreg Wdir]; unfold parse_tokens; cbn [filter fst is_comment negb];
    rewrite Hnc; cbn [List.length p_stmts fst all_nl forallb is_newline andb];
    unfold p_stmt; cbn [fst snd]; rewrite ?skip_labels_kw, ?skip_labels_dir; cbn [fst snd p_nucleus cursor p_operands];
    run_regs.
  - match goal with |- context [p_ior 5 ((t, ?sp) :: ?ts, ?pv)] => pose proof (operand_imm5 t v sp ts pv Ht) as H end. fin H.
  - match goal with |- context [p_off (conv_s 6) ((t, ?sp) :: ?ts, ?pv)] => pose proof (operand_offset6 t v sp ts pv Ht) as H end. fin H.
  - match goal with |- context [p_pcoff 9 ((t, ?sp) :: ?ts, ?pv)] => pose proof (operand_pcoffset9 t v sp ts pv Ht) as H end. fin H.
  - match goal with |- context [p_pcoff 11 ((t, ?sp) :: ?ts, ?pv)] => pose proof (operand_pcoffset11 t v sp ts pv Ht) as H end. fin H.
  - match goal with |- context [p_off (conv_u 8) ((t, ?sp) :: ?ts, ?pv)] => pose proof (operand_trapvect8 t v sp ts pv Ht) as H end. fin H.
  - match goal with |- context [p_directive ?n ?d ((t, ?sp) :: ?ts, ?pv)] => pose proof (operand_orig n d t v sp ts pv eq_refl Ht) as H end. fin H.
  - match goal with |- context [p_directive ?n ?d ((t, ?sp) :: ?ts, ?pv)] => pose proof (operand_blkw n d t v sp ts pv eq_refl Ht) as H end. fin H.
  - match goal with |- context [p_directive ?n ?d ((t, ?sp) :: ?ts, ?pv)] => destruct (operand_fill n d t v sp ts pv eq_refl Ht) as [Hf H] end.
    rewrite Hf. rep H. cbn [pbind p_end fst snd skip_nl all_nl forallb p_stmts field_nucleus stored]. f_equal. f_equal. f_equal. pos_arith.
Qed.
