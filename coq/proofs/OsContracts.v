(* OsContracts.v — the trap-routine results of OsProofs.v restated on arbitrary machine states
   described by their user-visible parts ([user_ready]), and the fact that the freshly created
   machine of Load.v ([new_sim], today's OS image) with keyboard and display attached and any
   user-level contents is such a state. *)
From Coq Require Import ZArith List Bool Lia FMapPositive.
From Gen Require Import Constants OsImage.
From Model Require Import Tree Bits Word Instr Sim Load.
From Proofs Require Import Ranges SimStep OsProofs OsPutsp.
Import ListNotations.
Open Scope Z_scope.

(* a machine in user mode, OS image in place, saved supervisor stack pointer [sp], keyboard (interrupts
   off, queue [q]) and display (buffer [buf]) attached, non-strict, default internal registers *)
Record user_ready (s : sim) (sp : Z) (q buf : list Z) : Prop := mkUR {
  ur_os : os_mem (s_mem s);
  ur_strict : fl_strict (s_flags s) = false;
  ur_ireg : s_ireg s = default_ireg;
  ur_devs : s_devs s = kdevs q buf;
  ur_regs : length (s_regs s) = 8%nat;
  ur_user : psr_privileged (s_psr s) = false;
  ur_ssp : s_saved_sp s = new_init sp;
  ur_pc : in_user (s_pc s) = true;
  ur_fno : 0 <= s_frame_no s }.

(* everything the caller can observe, except PC / registers / devices which each contract states *)
Definition same_user_view (s s' : sim) : Prop :=
  s_psr s' = s_psr s /\ s_saved_sp s' = s_saved_sp s /\ s_frame_no s' = s_frame_no s /\ s_frames s' = s_frames s /\
  s_sr_defns s' = s_sr_defns s /\ s_alloca s' = s_alloca s /\ s_mcr s' = s_mcr s /\ s_flags s' = s_flags s /\
  s_ireg s' = s_ireg s /\
  (forall a, in_user a = true -> mget (s_mem s') a = mget (s_mem s) a) /\ os_mem (s_mem s').

Lemma in_user_range a : in_user a = true -> 12288 <= a < 65024.
Proof. unfold in_user, USER_START, IO_START, sim.USER_START, sim.IO_START. intros H. apply andb_prop in H. destruct H as [H1 H2]. apply Z.leb_le in H1. apply Z.ltb_lt in H2. lia. Qed.

Lemma ready_is_mk s sp q buf : user_ready s sp q buf ->
  exists K m r0 r1 r2 r3 r4 r5 r6 r7,
    s = mk K m [r0; r1; r2; r3; r4; r5; r6; r7] (s_pc s) (s_psr s) (new_init sp) (s_frame_no s) (s_frames s) (s_instrs s)
           (s_prefetch s) (s_obs s) (s_mcr s) q buf
    /\ m = s_mem s /\ s_regs s = [r0; r1; r2; r3; r4; r5; r6; r7]
    /\ k_srd K = s_sr_defns s /\ k_al K = s_alloca s /\ kflags K = s_flags s.
Proof.
  intros [Hos Hst Hir Hdv Hrg Hus Hsp Hpc Hfn].
  destruct s as [m rs pc psr ssp fno frs srd al ins pf obs mcr fl ir dv]. cbn in *. subst.
  destruct fl as [st re db ig]. cbn in Hst. subst st.
  destruct rs as [|r0 [|r1 [|r2 [|r3 [|r4 [|r5 [|r6 [|r7 [|x rs]]]]]]]]]; try discriminate.
  exists (mkK srd al re db ig), m, r0, r1, r2, r3, r4, r5, r6, r7. repeat split.
Qed.

Lemma meo_user lo hi m m' : hi <= USER_START -> mem_eq_outside lo hi m m' ->
  forall a, in_user a = true -> mget m' a = mget m a.
Proof.
  intros Hh H a Ha. apply in_user_range in Ha. apply H; unfold USER_START, sim.USER_START, IO_START, sim.IO_START in *; lia.
Qed.

(* the shape of every conclusion below, from the [mk] form *)
Lemma view_of_mk K m m' rs rs' pc pc' psr ssp fno frs ins ins' pf pf' obs obs' mcr q q' buf buf' lo hi :
  OS_END <= lo -> hi <= USER_START -> os_mem m -> mem_eq_outside lo hi m m' ->
  same_user_view (mk K m rs pc psr ssp fno frs ins pf obs mcr q buf) (mk K m' rs' pc' psr ssp fno frs ins' pf' obs' mcr q' buf').
Proof.
  intros Hl Hh Hos Hm. unfold same_user_view, mk. cbn.
  repeat split; try reflexivity.
  - apply (meo_user lo hi); assumption.
  - apply (meo_os lo hi m); assumption.
Qed.

(* ------------------------------------------------------------------ the fresh machine *)
Lemma word_eqb_eq a b : word_eqb a b = true -> a = b.
Proof.
  destruct a as [d1 i1], b as [d2 i2]. unfold word_eqb. cbn. intros H. apply andb_prop in H. destruct H as [H1 H2].
  apply Z.eqb_eq in H1, H2. subst. reflexivity.
Qed.
Definition os_word_ok (m : mem) (a : Z) : bool :=
  match os_word a with Some w => word_eqb (mget m a) (new_init w) | None => true end.
Lemma new_sim_os_mem fl fill : os_mem (s_mem (new_sim fl fill)).
Proof.
  intros a w Hw. pose proof (os_word_range _ _ Hw) as R.
  assert (H : forallb (os_word_ok (s_mem (new_sim fl fill))) (zrange 0 (Z.to_nat (OS_END - 0))) = true).
  { destruct fl as [a1 a2 a3 a4]. vm_compute. reflexivity. }
  pose proof (forall_range' _ 0 OS_END H a R) as Ha. unfold os_word_ok in Ha. rewrite Hw in Ha.
  apply word_eqb_eq. exact Ha.
Qed.

Definition set_user_mem (m : mem) (l : list (Z * word)) : mem := fold_left (fun m p => mset m (fst p) (snd p)) l m.
Lemma set_user_mem_os l : forall m, os_mem m -> Forall (fun p => in_user (fst p) = true) l -> os_mem (set_user_mem m l).
Proof.
  induction l as [|[a w] r IH]; intros m Hos Hl; [exact Hos|].
  cbn [set_user_mem fold_left fst snd]. inversion Hl as [|x y Hx Hy]; subst. cbn [fst] in Hx.
  apply IH; [|exact Hy]. apply os_mem_mset; [exact Hos|]. apply in_user_range in Hx. unfold OS_END. lia.
Qed.

(* the machine of [new_sim] with keyboard/display attached and arbitrary user-level contents *)
Definition user_machine (fl : flags) (fill : Z) (rs : regs) (pc psr : Z) (um : list (Z * word)) (q buf : list Z) : sim :=
  let s := new_sim fl fill in
  mkSim (set_user_mem (s_mem s) um) rs pc psr (s_saved_sp s) (s_frame_no s) (s_frames s) (s_sr_defns s) (s_alloca s)
        (s_instrs s) (s_prefetch s) (s_obs s) (s_mcr s) (s_flags s) (s_ireg s) (kdevs q buf).

Lemma user_machine_ready fl fill rs pc psr um q buf :
  fl_strict fl = false -> length rs = 8%nat -> psr_privileged psr = false -> in_user pc = true ->
  Forall (fun p => in_user (fst p) = true) um ->
  user_ready (user_machine fl fill rs pc psr um q buf) 12288 q buf.
Proof.
  intros Hst Hrs Hps Hpc Hum. destruct fl as [st re db ig]. cbn in Hst. subst st.
  constructor; try assumption; try reflexivity.
  unfold user_machine. cbn [s_mem]. apply set_user_mem_os; [apply new_sim_os_mem | exact Hum].
Qed.

(* ------------------------------------------------------------------ the contracts *)
Ltac use_mk s Hur :=
  let K := fresh "K" in let m := fresh "m" in
  destruct (ready_is_mk _ _ _ _ Hur) as (K & m & r0 & r1 & r2 & r3 & r4 & r5 & r6 & r7 & Hs & Hm & Hrs & Hk1 & Hk2 & Hk3).

Lemma ready_access K s sp q buf : user_ready s sp q buf -> 0 <= s_pc s < IO_START /\ may_access K (s_psr s) (s_pc s) = true.
Proof.
  intros H. pose proof (in_user_range _ (ur_pc _ _ _ _ H)) as R. split.
  - unfold IO_START, sim.IO_START. lia.
  - unfold may_access. rewrite (ur_pc _ _ _ _ H). destruct (psr_privileged (s_psr s)), (k_ign K); reflexivity.
Qed.

(* OUT / PUTC *)
Theorem contract_out s sp q buf sc t :
  user_ready s sp q buf -> OS_END + 3 <= sp <= USER_START ->
  mget (s_mem s) (s_pc s) = new_init 61473 ->       (* TRAP x21 *)
  ds_free_from sc t 9 ->
  exists s', run sc t 9 s = (s', OOk) /\ s_pc s' = wrap16 (s_pc s + 1) /\ s_regs s' = s_regs s /\
             s_devs s' = kdevs q (buf ++ [w_data (rget (s_regs s) 0) mod 256]) /\ same_user_view s s'.
Proof.
  intros Hur Hsp Hw Hfree. use_mk s Hur. destruct (ready_access K s sp q buf Hur) as [Hpc Hacc].
  destruct (putc_call K sc t 0 false m r0 r1 r2 r3 r4 r5 r6 r7 (s_pc s) (s_psr s) (new_init sp) (s_frame_no s) (s_frames s) (s_instrs s)
              (s_prefetch s) (s_obs s) (s_mcr s) q buf sp) as (m' & ins' & obs' & Hrun & Hmeo & _).
  { rewrite (ur_user _ _ _ _ Hur). reflexivity. } { exact Hsp. } { subst m. exact (ur_os _ _ _ _ Hur). }
  { exact Hpc. } { exact Hacc. } { subst m. exact Hw. } { exact (ur_fno _ _ _ _ Hur). }
  { intros i Hi. lia. }
  { replace (t + 3 + 2 * 0)%nat with (t + 3)%nat by lia. apply Hfree. lia. }
  { replace (t + 2 * 0 + 7)%nat with (t + 7)%nat by lia. apply Hfree. lia. }
  rewrite <- Hs in Hrun. change (2 * 0 + 9)%nat with 9%nat in Hrun.
  eexists. split; [exact Hrun|]. rewrite Hrs. regs.
  split; [reflexivity|]. split; [reflexivity|]. split; [reflexivity|].
  rewrite Hs at 1. apply (view_of_mk _ _ _ _ _ _ _ _ _ _ _ _ _ _ _ _ _ _ _ _ _ _ (sp - 3) sp); [lia | lia | subst m; exact (ur_os _ _ _ _ Hur) | exact Hmeo].
Qed.

Ltac finish_view Hs Hur Hmeo lo sp m :=
  rewrite Hs at 1;
  apply (view_of_mk _ _ _ _ _ _ _ _ _ _ _ _ _ _ _ _ _ _ _ _ _ _ lo sp);
  [unfold OS_END in *; lia | lia | subst m; exact (ur_os _ _ _ _ Hur) | exact Hmeo].

(* GETC, non-empty queue, keyboard free at its accesses *)
Theorem contract_getc s sp ch q buf sc t :
  user_ready s sp (ch :: q) buf -> OS_END + 2 <= sp <= USER_START ->
  mget (s_mem s) (s_pc s) = new_init 61472 ->       (* TRAP x20 *)
  kb_free_from sc t 5 ->
  exists s', run sc t 5 s = (s', OOk) /\ s_pc s' = wrap16 (s_pc s + 1) /\
             (exists r1 r2 r3 r4 r5 r6 r7 x0, s_regs s = [x0; r1; r2; r3; r4; r5; r6; r7] /\
                                              s_regs s' = [new_init ch; r1; r2; r3; r4; r5; r6; r7]) /\
             s_devs s' = kdevs q buf /\ same_user_view s s'.
Proof.
  intros Hur Hsp Hw Hfree. use_mk s Hur. destruct (ready_access K s sp (ch :: q) buf Hur) as [Hpc Hacc].
  destruct (getc_call K sc t 0 false m r0 r1 r2 r3 r4 r5 r6 r7 (s_pc s) (s_psr s) (new_init sp) (s_frame_no s) (s_frames s) (s_instrs s)
              (s_prefetch s) (s_obs s) (s_mcr s) ch q buf sp) as (m' & ins' & obs' & Hrun & Hmeo & _).
  { rewrite (ur_user _ _ _ _ Hur). reflexivity. } { exact Hsp. } { subst m. exact (ur_os _ _ _ _ Hur). }
  { exact Hpc. } { exact Hacc. } { subst m. exact Hw. } { exact (ur_fno _ _ _ _ Hur). }
  { intros i Hi. lia. }
  { replace (t + 1 + 2 * 0)%nat with (t + 1)%nat by lia. apply Hfree. lia. }
  { replace (t + 2 * 0 + 3)%nat with (t + 3)%nat by lia. apply Hfree. lia. }
  rewrite <- Hs in Hrun. change (2 * 0 + 5)%nat with 5%nat in Hrun.
  eexists. split; [exact Hrun|]. rewrite Hrs.
  split; [reflexivity|]. split; [exists r1, r2, r3, r4, r5, r6, r7, r0; split; reflexivity|]. split; [reflexivity|].
  finish_view Hs Hur Hmeo (sp - 2) sp m.
Qed.

(* PUTS: zero-terminated string at R0 *)
Theorem contract_puts s sp cs q buf sc t :
  user_ready s sp q buf -> OS_END + 7 <= sp <= USER_START ->
  mget (s_mem s) (s_pc s) = new_init 61474 ->       (* TRAP x22 *)
  chars_ok cs -> str_at (s_mem s) (w_data (rget (s_regs s) 0)) cs ->
  USER_START <= w_data (rget (s_regs s) 0) -> w_data (rget (s_regs s) 0) + Z.of_nat (length cs) < IO_START ->
  ds_free_from sc t (13 * length cs + 13) ->
  exists s', run sc t (13 * length cs + 13) s = (s', OOk) /\ s_pc s' = wrap16 (s_pc s + 1) /\ s_regs s' = s_regs s /\
             s_devs s' = kdevs q (buf ++ low8 cs) /\ same_user_view s s'.
Proof.
  intros Hur Hsp Hw Hok Hstr Ha0 Ha1 Hfree. use_mk s Hur. destruct (ready_access K s sp q buf Hur) as [Hpc Hacc].
  rewrite Hrs in Hstr, Ha0, Ha1. rewrite rget0 in Hstr, Ha0, Ha1.
  destruct (puts_call K sc t cs m r0 r1 r2 r3 r4 r5 r6 r7 (s_pc s) (s_psr s) (new_init sp) (s_frame_no s) (s_frames s) (s_instrs s)
              (s_prefetch s) (s_obs s) (s_mcr s) q buf sp) as (m' & ins' & obs' & Hrun & Hmeo).
  { rewrite (ur_user _ _ _ _ Hur). reflexivity. } { exact Hsp. } { subst m. exact (ur_os _ _ _ _ Hur). }
  { exact Hpc. } { exact Hacc. } { subst m. exact Hw. } { exact (ur_fno _ _ _ _ Hur). }
  { exact Hok. } { subst m. exact Hstr. } { unfold USER_START, sim.USER_START in Ha0. lia. } { exact Ha1. }
  { right. lia. } { exact Hfree. }
  rewrite <- Hs in Hrun.
  eexists. split; [exact Hrun|]. rewrite Hrs.
  split; [reflexivity|]. split; [reflexivity|]. split; [reflexivity|].
  finish_view Hs Hur Hmeo (sp - 7) sp m.
Qed.

(* IN: prompt, one byte read and echoed *)
Theorem contract_in s sp ch q buf sc t :
  user_ready s sp (ch :: q) buf -> OS_END + 9 <= sp <= USER_START ->
  mget (s_mem s) (s_pc s) = new_init 61475 ->       (* TRAP x23 *)
  ds_free_from sc t 251 -> kb_free_from sc t 251 ->
  exists s', run sc t 251 s = (s', OOk) /\ s_pc s' = wrap16 (s_pc s + 1) /\
             (exists r1 r2 r3 r4 r5 r6 r7 x0, s_regs s = [x0; r1; r2; r3; r4; r5; r6; r7] /\
                                              s_regs s' = [new_init ch; r1; r2; r3; r4; r5; r6; r7]) /\
             s_devs s' = kdevs q (buf ++ low8 in_prompt ++ [ch mod 256]) /\ same_user_view s s'.
Proof.
  intros Hur Hsp Hw Hdf Hkf. use_mk s Hur. destruct (ready_access K s sp (ch :: q) buf Hur) as [Hpc Hacc].
  destruct (in_call K sc t m r0 r1 r2 r3 r4 r5 r6 r7 (s_pc s) (s_psr s) (new_init sp) (s_frame_no s) (s_frames s) (s_instrs s)
              (s_prefetch s) (s_obs s) (s_mcr s) ch q buf sp) as (m' & ins' & obs' & Hrun & Hmeo).
  { rewrite (ur_user _ _ _ _ Hur). reflexivity. } { exact Hsp. } { subst m. exact (ur_os _ _ _ _ Hur). }
  { exact Hpc. } { exact Hacc. } { subst m. exact Hw. } { exact (ur_fno _ _ _ _ Hur). }
  { exact Hdf. } { exact Hkf. }
  rewrite <- Hs in Hrun.
  eexists. split; [exact Hrun|]. rewrite Hrs.
  split; [reflexivity|]. split; [exists r1, r2, r3, r4, r5, r6, r7, r0; split; reflexivity|]. split; [reflexivity|].
  finish_view Hs Hur Hmeo (sp - 9) sp m.
Qed.

(* HALT: virtual traps stop at once with the PC on the trap; real traps clear the MCR within three instructions *)
Theorem contract_halt_virtual s sp q buf e :
  user_ready s sp q buf -> fl_real (s_flags s) = false ->
  mget (s_mem s) (s_pc s) = new_init 61477 ->       (* TRAP x25 *)
  exists s', step_in e s = (s', OHalt) /\ s_pc s' = s_pc s /\ s_regs s' = s_regs s /\ s_devs s' = s_devs s /\
             s_mem s' = s_mem s /\ s_psr s' = s_psr s /\ s_saved_sp s' = s_saved_sp s /\ s_mcr s' = s_mcr s.
Proof.
  intros Hur Hreal Hw. use_mk s Hur. destruct (ready_access K s sp q buf Hur) as [Hpc Hacc].
  assert (Hr : k_real K = false) by (rewrite <- Hk3 in Hreal; exact Hreal).
  pose proof (halt_virtual K e m [r0; r1; r2; r3; r4; r5; r6; r7] (s_pc s) (s_psr s) (new_init sp) (s_frame_no s) (s_frames s) (s_instrs s)
                (s_prefetch s) (s_obs s) (s_mcr s) q buf Hr Hpc Hacc ltac:(subst m; exact Hw)) as H.
  rewrite <- Hs in H. eexists. split; [exact H|]. rewrite Hrs, (ur_devs _ _ _ _ Hur), (ur_ssp _ _ _ _ Hur). subst m.
  repeat split.
Qed.

Theorem contract_halt_real s sp q buf sc t :
  user_ready s sp q buf -> OS_END + 2 <= sp <= USER_START -> fl_real (s_flags s) = true ->
  mget (s_mem s) (s_pc s) = new_init 61477 ->
  exists s', run sc t 3 s = (s', OOk) /\ s_mcr s' = false /\ s_devs s' = s_devs s /\
             (forall r, 0 <= r < 6 -> rget (s_regs s') r = rget (s_regs s) r) /\
             (forall a, in_user a = true -> mget (s_mem s') a = mget (s_mem s) a).
Proof.
  intros Hur Hsp Hreal Hw. use_mk s Hur. destruct (ready_access K s sp q buf Hur) as [Hpc Hacc].
  assert (Hr : k_real K = true) by (rewrite <- Hk3 in Hreal; exact Hreal).
  destruct (halt_real K sc t m r0 r1 r2 r3 r4 r5 r6 r7 (s_pc s) (s_psr s) (new_init sp) (s_frame_no s) (s_frames s) (s_instrs s)
              (s_prefetch s) (s_obs s) (s_mcr s) q buf sp Hr) as (m' & r6' & r7' & ssp' & psr' & fno' & frs' & ins' & obs' & Hrun & Hmeo).
  { rewrite (ur_user _ _ _ _ Hur). reflexivity. } { exact Hsp. } { subst m. exact (ur_os _ _ _ _ Hur). }
  { exact Hpc. } { exact Hacc. } { subst m. exact Hw. }
  rewrite <- Hs in Hrun. eexists. split; [exact Hrun|]. rewrite Hrs, (ur_devs _ _ _ _ Hur). cbn [mk s_mcr s_devs s_regs s_mem].
  split; [reflexivity|]. split; [reflexivity|]. split.
  - intros r Hr6. assert (r = 0 \/ r = 1 \/ r = 2 \/ r = 3 \/ r = 4 \/ r = 5) as [-> | [-> | [-> | [-> | [-> | ->]]]]] by lia; reflexivity.
  - subst m. apply (meo_user (sp - 2) sp); [lia | exact Hmeo].
Qed.

(* PUTSP: packed string at R0: full words ws (both bytes non-zero) then a terminator word z whose low
   byte is zero, or whose high byte is zero (odd length: its low byte is still printed) *)
Theorem contract_putsp s sp ws z q buf sc t :
  user_ready s sp q buf -> OS_END + 9 <= sp <= USER_START ->
  mget (s_mem s) (s_pc s) = new_init 61476 ->       (* TRAP x24 *)
  full_ok ws -> term_ok z -> pstr_at (s_mem s) (w_data (rget (s_regs s) 0)) ws z ->
  USER_START <= w_data (rget (s_regs s) 0) -> w_data (rget (s_regs s) 0) + Z.of_nat (length ws) < IO_START ->
  ds_always_free sc ->
  exists n s', run sc t n s = (s', OOk) /\ s_pc s' = wrap16 (s_pc s + 1) /\ s_regs s' = s_regs s /\
               s_devs s' = kdevs q (buf ++ packed_out ws z) /\ same_user_view s s'.
Proof.
  intros Hur Hsp Hw Hfull Hterm Hstr Ha0 Ha1 Hfree. use_mk s Hur. destruct (ready_access K s sp q buf Hur) as [Hpc Hacc].
  rewrite Hrs in Hstr, Ha0, Ha1. rewrite rget0 in Hstr, Ha0, Ha1.
  destruct (putsp_call K sc t ws z m r0 r1 r2 r3 r4 r5 r6 r7 (s_pc s) (s_psr s) (new_init sp) (s_frame_no s) (s_frames s) (s_instrs s)
              (s_prefetch s) (s_obs s) (s_mcr s) q buf sp) as (n & m' & ins' & obs' & Hrun & Hmeo).
  { rewrite (ur_user _ _ _ _ Hur). reflexivity. } { exact Hsp. } { subst m. exact (ur_os _ _ _ _ Hur). }
  { exact Hpc. } { exact Hacc. } { subst m. exact Hw. } { exact (ur_fno _ _ _ _ Hur). }
  { exact Hfull. } { exact Hterm. } { subst m. exact Hstr. } { unfold USER_START, sim.USER_START in Ha0. lia. } { exact Ha1. }
  { right. lia. } { exact Hfree. }
  rewrite <- Hs in Hrun.
  exists n. eexists. split; [exact Hrun|]. rewrite Hrs.
  split; [reflexivity|]. split; [reflexivity|]. split; [reflexivity|].
  finish_view Hs Hur Hmeo (sp - 9) sp m.
Qed.
