(* OsProofs.v — the trap routines of src/os.asm (today's image: gen/OsImage.v, regenerated from
   the crate on every run) executed by [Sim.step_in] meet their contracts.  The OS words are
   concrete (fetched through [os_mem], decoded by computation); registers, condition codes,
   user memory, the keyboard queue and the display buffer are arbitrary.  Lock schedules are
   functions [nat -> env]: [sc t] is the environment of the t-th instruction. *)
From Coq Require Import ZArith List Bool Lia FMapPositive.
From Gen Require Import Constants OsImage.
From Model Require Import Tree Bits Word Instr Sim Load.
From Proofs Require Import Ranges SimStep.
Import ListNotations.
Open Scope Z_scope.
Ltac Zify.zify_post_hook ::= Z.div_mod_to_equations.

(* ------------------------------------------------------------------ iterated steps *)
Definition sched := nat -> env.
Fixpoint run (sc : sched) (t : nat) (n : nat) (s : sim) : sim * outcome :=
  match n with
  | O => (s, OOk)
  | S k => match step_in (sc t) s with (s', OOk) => run sc (S t) k s' | r => r end
  end.
Lemma run_S sc t n s : run sc t (S n) s = match step_in (sc t) s with (s', OOk) => run sc (S t) n s' | r => r end.
Proof. reflexivity. Qed.
Lemma run_add sc a : forall t b s,
  run sc t (a + b) s = match run sc t a s with (s', OOk) => run sc (t + a) b s' | r => r end.
Proof.
  induction a as [|a IH]; intros t b s.
  - cbn [Nat.add run]. rewrite Nat.add_0_r. reflexivity.
  - cbn [Nat.add]. rewrite !run_S. destruct (step_in (sc t) s) as [s1 [| |x|]]; try reflexivity.
    rewrite IH. replace (S t + a)%nat with (t + S a)%nat by lia. reflexivity.
Qed.
Lemma run_ok_add sc t a b s s1 s2 :
  run sc t a s = (s1, OOk) -> run sc (t + a) b s1 = (s2, OOk) -> run sc t (a + b) s = (s2, OOk).
Proof. intros H1 H2. rewrite run_add, H1. exact H2. Qed.

(* ------------------------------------------------------------------ the OS image in memory *)
Fixpoint block_get (start : Z) (ws : list (option Z)) (a : Z) : option Z :=
  match ws with [] => None | w :: r => if a =? start then w else block_get (start + 1) r a end.
Fixpoint blocks_get (bs : list (Z * list (option Z))) (a : Z) : option Z :=
  match bs with
  | [] => None
  | (st, ws) :: r => match block_get st ws a with Some w => Some w | None => blocks_get r a end
  end.
Definition os_word (a : Z) : option Z := blocks_get os_blocks a.
(* the OS image is in place *)
Definition os_mem (m : mem) : Prop := forall a w, os_word a = Some w -> mget m a = new_init w.

Lemma block_get_range ws : forall st a w, block_get st ws a = Some w -> st <= a < st + Z.of_nat (length ws).
Proof.
  induction ws as [|x r IH]; intros st a w H; [discriminate|].
  cbn [block_get length] in *. destruct (a =? st) eqn:E.
  - apply Z.eqb_eq in E. lia.
  - apply IH in H. lia.
Qed.
Definition OS_END : Z := 1024.
Definition blocks_within (bs : list (Z * list (option Z))) (lo hi : Z) : bool :=
  forallb (fun b => (lo <=? fst b) && (fst b + Z.of_nat (length (snd b)) <=? hi)) bs.
Lemma blocks_get_range lo hi bs : blocks_within bs lo hi = true ->
  forall a w, blocks_get bs a = Some w -> lo <= a < hi.
Proof.
  induction bs as [|[st ws] r IH]; intros Hb a w H; [discriminate|].
  cbn [blocks_within forallb fst snd] in Hb. apply andb_prop in Hb. destruct Hb as [H1 H2].
  apply andb_prop in H1. destruct H1 as [Ha Hc]. apply Z.leb_le in Ha. apply Z.leb_le in Hc.
  cbn [blocks_get] in H. destruct (block_get st ws a) eqn:E.
  - apply block_get_range in E. lia.
  - apply (IH H2 a w H).
Qed.
Lemma os_word_range a w : os_word a = Some w -> 0 <= a < OS_END.
Proof. apply blocks_get_range. vm_compute. reflexivity. Qed.
Lemma os_mem_mset m a v : os_mem m -> OS_END <= a -> os_mem (mset m a v).
Proof.
  intros H Ha b w Hb. pose proof (os_word_range _ _ Hb). unfold OS_END in *.
  rewrite mget_mset_other by lia. apply H. exact Hb.
Qed.

(* every word below the device registers, outside the window [lo, hi), is unchanged *)
Definition mem_eq_outside (lo hi : Z) (m m' : mem) : Prop :=
  forall a, 0 <= a < IO_START -> ~ (lo <= a < hi) -> mget m' a = mget m a.
Lemma meo_refl lo hi m : mem_eq_outside lo hi m m.
Proof. intros a _ _. reflexivity. Qed.
Lemma meo_trans lo hi m1 m2 m3 : mem_eq_outside lo hi m1 m2 -> mem_eq_outside lo hi m2 m3 -> mem_eq_outside lo hi m1 m3.
Proof. intros H1 H2 a Ha Hn. rewrite H2, H1 by assumption. reflexivity. Qed.
Lemma meo_weaken lo hi lo' hi' m m' : lo' <= lo -> hi <= hi' -> mem_eq_outside lo hi m m' -> mem_eq_outside lo' hi' m m'.
Proof. intros Hl Hh H a Ha Hn. apply H; [assumption|lia]. Qed.
Lemma meo_mset_in lo hi m m' a v : 0 <= a -> lo <= a < hi -> mem_eq_outside lo hi m m' -> mem_eq_outside lo hi m (mset m' a v).
Proof. intros H0 Ha H b Hb Hn. rewrite mget_mset_other by lia. apply H; assumption. Qed.
Lemma meo_mset_io lo hi m m' a v : IO_START <= a -> mem_eq_outside lo hi m m' -> mem_eq_outside lo hi m (mset m' a v).
Proof. unfold IO_START, sim.IO_START. intros Ha H b Hb Hn. unfold IO_START, sim.IO_START in Hb. rewrite mget_mset_other by lia. apply H; [unfold IO_START, sim.IO_START; lia | assumption]. Qed.
Lemma meo_os lo hi m m' : OS_END <= lo -> os_mem m -> mem_eq_outside lo hi m m' -> os_mem m'.
Proof.
  intros Hl Hos H a w Ha. pose proof (os_word_range _ _ Ha) as R. unfold OS_END in *.
  rewrite H; [apply Hos; exact Ha | unfold IO_START, sim.IO_START; lia | lia].
Qed.

(* ------------------------------------------------------------------ tactics *)
Ltac rng := cbv [IO_START sim.IO_START OS_END DSR DDR KBSR KBDR sim_device.DSR sim_device.DDR sim_device.KBSR sim_device.KBDR USER_START sim.USER_START] in *; lia.
Ltac osw H :=
  lazymatch goal with
  | |- mget ?m ?a = new_init ?x =>
      let r := eval vm_compute in (os_word a) in
      lazymatch r with
      | Some ?w => unify x w; exact (H a w (@eq_refl (option Z) (Some w) <: os_word a = Some w))
      end
  end.
Ltac dec :=
  lazymatch goal with
  | |- decode ?w = ?rhs =>
      let r := eval vm_compute in (decode w) in
      unify rhs r; exact (@eq_refl dec_res r <: decode w = r)
  end.
Ltac priv :=
  lazymatch goal with
  | |- psr_privileged (psr_set_cc _ _) = true => apply psr_priv_set_cc; priv
  | |- psr_privileged (psr_set_privileged _ true) = true => apply psr_priv_set
  | _ => assumption
  end.
Ltac acc := apply may_access_priv; priv.
Ltac ceval t := let v := eval vm_compute in t in change t with v.

Ltac is_lit v := lazymatch v with Z0 => idtac | Zpos _ => idtac | Zneg _ => idtac end.
Ltac has_var t := match t with context [?x] => is_var x end.
Ltac closed t := tryif has_var t then fail else idtac.
Ltac cev1 :=
  match goal with
  | |- context [wrap16 ?x] => closed x; let v := eval vm_compute in (wrap16 x) in is_lit v; change (wrap16 x) with v
  | |- context [cc_of ?x] => closed x; let v := eval vm_compute in (cc_of x) in is_lit v; change (cc_of x) with v
  | |- context [cc_norm ?x] => closed x; let v := eval vm_compute in (cc_norm x) in is_lit v; change (cc_norm x) with v
  | |- context [if ?b then _ else _] =>
      closed b;
      let v := eval vm_compute in b in
      lazymatch v with true => change b with true | false => change b with false end; cbv iota
  end.
Ltac cev := repeat cev1.
(* one instruction: rewrite with a whole-step rule, discharge its side conditions *)
Ltac norm := cbv beta iota; regs; rewrite ?psr_set_cc_idem, ?psr_cc_set_cc; cev.

Ltac osm H := first [exact H | apply os_mem_mset; [osm H | rng]].
Ltac newmem m1 Hos1 Hos :=
  match goal with
  | |- context [mk _ (mset ?m ?a ?v)] =>
      set (m1 := mset m a v); assert (Hos1 : os_mem m1) by (subst m1; osm Hos)
  end.

(* only the device mirrors differ *)
Definition same_low (m m' : mem) : Prop := forall a, 0 <= a < IO_START -> mget m' a = mget m a.
Lemma same_low_refl m : same_low m m. Proof. intros a _. reflexivity. Qed.
Lemma same_low_mset_io m m' a v : IO_START <= a -> same_low m m' -> same_low m (mset m' a v).
Proof. intros Ha H b Hb. rewrite mget_mset_other by rng. apply H. exact Hb. Qed.
Lemma same_low_os m m' : os_mem m -> same_low m m' -> os_mem m'.
Proof. intros Hos H a w Ha. pose proof (os_word_range _ _ Ha). rewrite H by rng. apply Hos. exact Ha. Qed.

Definition ds_locked_at (sc : sched) (t : nat) : bool := e_ds_locked (sc t).

(* PUTC_POLL_DSR (x024A/x024B): [d] polls find the display locked, the next one finds it free *)
Lemma putc_poll K sc d : forall t m a0 r1 r2 r3 r4 r5 r6 r7 P c ssp fno frs ins pf obs mcr q buf,
  os_mem m -> psr_privileged P = true ->
  (forall i, (i < d)%nat -> ds_locked_at sc (t + 2 * i) = true) ->
  ds_locked_at sc (t + 2 * d) = false ->
  exists m' ins' obs',
    run sc t (2 * d + 2) (mk K m [a0; r1; r2; r3; r4; r5; r6; r7] 586 (psr_set_cc P c) ssp fno frs ins pf obs mcr q buf) =
    (mk K m' [new_init 32768; r1; r2; r3; r4; r5; r6; r7] 588 (psr_set_cc P 4) ssp fno frs ins' false obs' mcr q buf, OOk)
    /\ same_low m m' /\ mget m' KBDR = mget m KBDR.
Proof.
  induction d as [|d IH]; intros t m a0 r1 r2 r3 r4 r5 r6 r7 P c ssp fno frs ins pf obs mcr q buf Hos HP Hl Hf.
  - cbn [Nat.mul Nat.add] in *. rewrite Nat.add_0_r in Hf. unfold ds_locked_at in Hf.
    rewrite run_S.
    erewrite step_LDI_dsr; [ | rng | acc | osw Hos | dec | vm_compute; reflexivity | priv | osw Hos ].
    unfold dsr_val. rewrite Hf. norm.
    rewrite run_S.
    newmem m1 Hos1 Hos.
    erewrite step_BR; [ | rng | acc | osw Hos1 | dec ].
    norm. eexists _, _, _. split; [reflexivity|]. subst m1. split.
    + apply same_low_mset_io; [rng | apply same_low_refl].
    + apply mget_mset_other; rng.
  - assert (Hl0 : ds_locked_at sc t = true) by (specialize (Hl O ltac:(lia)); rewrite Nat.mul_0_r, Nat.add_0_r in Hl; exact Hl).
    unfold ds_locked_at in Hl0.
    replace (2 * S d + 2)%nat with (2 + (2 * d + 2))%nat by lia. rewrite run_add.
    cbn [run]. 
    erewrite step_LDI_dsr; [ | rng | acc | osw Hos | dec | vm_compute; reflexivity | priv | osw Hos ].
    unfold dsr_val. rewrite Hl0. norm. newmem m1 Hos1 Hos.
    erewrite step_BR; [ | rng | acc | osw Hos1 | dec ].
    norm.
    destruct (IH (t + 2)%nat m1 (new_init 0) r1 r2 r3 r4 r5 r6 r7 P 2 ssp fno frs (next_ins (next_ins ins)) false
                 [(587, OBS_READ)] mcr q buf Hos1 HP) as (m' & ins' & obs' & Hrun & Hsame & Hk).
    { intros i Hi. specialize (Hl (S i) ltac:(lia)). replace (t + 2 + 2 * i)%nat with (t + 2 * S i)%nat by lia. exact Hl. }
    { replace (t + 2 + 2 * d)%nat with (t + 2 * S d)%nat by lia. exact Hf. }
    exists m', ins', obs'. split; [exact Hrun|]. split.
    + intros a Ha. rewrite Hsame by exact Ha. subst m1. apply mget_mset_other; rng.
    + rewrite Hk. subst m1. apply mget_mset_other; rng.
Qed.

Ltac mg := repeat first [rewrite mget_mset_same | rewrite mget_mset_other by rng].
Ltac osr Hos a :=
  let r := eval vm_compute in (os_word a) in
  lazymatch r with Some ?w => rewrite (Hos a w (@eq_refl (option Z) (Some w) <: os_word a = Some w)) end.

Lemma putc_call K sc t d (lockw : bool) m r0 r1 r2 r3 r4 r5 r6 r7 pc psr ssp fno frs ins pf obs mcr q buf sp :
  (if psr_privileged psr then r6 else ssp) = new_init sp ->
  OS_END + 3 <= sp <= USER_START ->
  os_mem m -> 0 <= pc < IO_START -> may_access K psr pc = true -> mget m pc = new_init 61473 -> 0 <= fno ->
  (forall i, (i < d)%nat -> ds_locked_at sc (t + 3 + 2 * i) = true) ->
  ds_locked_at sc (t + 3 + 2 * d) = false ->
  ds_locked_at sc (t + 2 * d + 7) = lockw ->
  exists m' ins' obs',
    run sc t (2 * d + 9) (mk K m [r0; r1; r2; r3; r4; r5; r6; r7] pc psr ssp fno frs ins pf obs mcr q buf) =
    (mk K m' [r0; r1; r2; r3; r4; r5; r6; r7] (wrap16 (pc + 1)) psr ssp fno frs ins' false obs' mcr q
        (if lockw then buf else buf ++ [w_data r0 mod 256]), OOk)
    /\ mem_eq_outside (sp - 3) sp m m' /\ mget m' KBDR = mget m KBDR.
Proof.
  intros Hsp Hstk Hos Hpc Hacc Hw Hfno Hl Hf Hlw.
  replace (2 * d + 9)%nat with (3 + ((2 * d + 2) + 4))%nat by lia.
  rewrite run_add. rewrite run_S.
  erewrite step_TRAP; [ | rng | exact Hacc | exact Hw | dec | destruct (k_real K); reflexivity | | | rng ].
  2,3: rewrite Hsp; cbn [w_data new_init]; rewrite wrap16_small by rng; rng.
  rewrite Hsp. cbn [w_data new_init]. rewrite w_sub_init by lia.
  rewrite !(wrap16_small (sp - 1)), !(wrap16_small (sp - 2)) by rng.
  norm. mg. osr Hos 33. cbn [w_data new_init].
  newmem m1 Hos1 Hos.
  set (P := psr_set_privileged psr true). assert (HP : psr_privileged P = true) by apply psr_priv_set.
  set (frs1 := push_frs _ _ _ _ _ _ _). set (ssp1 := if psr_privileged psr then ssp else r6).
  (* x0248 ADD R6,R6,#-1 *)
  rewrite run_S. erewrite step_ADD; [ | rng | acc | osw Hos1 | dec ].
  norm. cbn [operand_of]. ceval (to_u16 (-1)). rewrite w_add_init by rng.
  replace (wrap16 (sp - 2 + 65535)) with (sp - 3) by (unfold wrap16; rng).
  cbn [w_data new_init]. norm.
  (* x0249 STR R0,R6,#0 *)
  rewrite run_S. erewrite step_STR; [ | rng | acc | osw Hos1 | dec | | ]; regs; cbn [w_data new_init]; rewrite ?Z.add_0_r, ?(wrap16_small (sp - 3)) by rng; [ | rng | acc].
  norm. newmem m2 Hos2 Hos1.
  cbn [run]. rewrite run_add.
  destruct (putc_poll K sc d (t + 3)%nat m2 r0 r1 r2 r3 r4 r5 (new_init (sp - 3)) r7 P (cc_of (sp - 3)) ssp1 (fno + 1) frs1
              (next_ins (next_ins (next_ins ins))) false (obs_write [(585, OBS_READ)] m1 (sp - 3) r0) mcr q buf Hos2 HP Hl Hf)
    as (m3 & ins3 & obs3 & Hrun3 & Hsame3 & Hk3).
  rewrite Hrun3. clear Hrun3.
  assert (Hos3 : os_mem m3) by (apply (same_low_os m2); assumption).
  (* x024C LDR R0,R6,#0 *)
  rewrite run_S. erewrite step_LDR; [ | rng | acc | osw Hos3 | dec | | ]; regs; cbn [w_data new_init]; rewrite ?Z.add_0_r, ?(wrap16_small (sp - 3)) by rng; [ | rng | acc].
  rewrite (Hsame3 (sp - 3)) by rng. subst m2. mg. norm.
  (* x024D ADD R6,R6,#1 *)
  rewrite run_S. erewrite step_ADD; [ | rng | acc | osw Hos3 | dec ].
  norm. cbn [operand_of]. ceval (to_u16 1). rewrite w_add_init by rng.
  replace (wrap16 (sp - 3 + 1)) with (sp - 2) by (unfold wrap16; rng).
  cbn [w_data new_init]. norm.
  (* x024E STI R0,DDR *)
  rewrite run_S. erewrite step_STI_ddr; [ | rng | acc | osw Hos3 | dec | vm_compute; reflexivity | priv | osw Hos3 ].
  replace (e_ds_locked (sc (S (S (t + 3 + (2 * d + 2)))))) with lockw
    by (rewrite <- Hlw; unfold ds_locked_at; f_equal; f_equal; lia).
  assert (Hfr : pop_frs frs1 = frs) by (subst frs1; apply pop_push_frs).
  assert (Hm1a : mget m1 (sp - 2) = new_init (wrap16 (pc + 1))) by (subst m1; mg; reflexivity).
  assert (Hm1b : mget m1 (sp - 1) = new_init psr) by (subst m1; mg; reflexivity).
  assert (Hmeo : mem_eq_outside (sp - 3) sp m m3).
  { intros a Ha Hn. rewrite Hsame3 by exact Ha. subst m1. mg. reflexivity. }
  assert (Hkk : mget m3 KBDR = mget m KBDR) by (rewrite Hk3; subst m1; mg; reflexivity).
  destruct lockw; norm.
  - (* the write was dropped *)
    rewrite run_S. erewrite step_RTI; [ | rng | acc | osw Hos3 | dec | priv | | ]; cbn [w_data new_init]; [ | rng | rewrite wrap16_small by rng; rng].
    replace (wrap16 (sp - 2 + 1)) with (sp - 1) by (unfold wrap16; rng).
    rewrite !(Hsame3 (sp - 2)), !(Hsame3 (sp - 1)) by rng. mg. rewrite Hm1a, Hm1b. cbn [w_data new_init].
    rewrite w_add_init by rng. replace (wrap16 (sp - 2 + 2)) with sp by (unfold wrap16; rng).
    rewrite Hfr. replace (Z.max 0 (fno + 1 - 1)) with fno by lia.
    cbn [run]. subst ssp1.
    destruct (psr_privileged psr); [rewrite <- Hsp | rewrite <- Hsp];
      (eexists _, _, _; split; [reflexivity | split; [exact Hmeo | exact Hkk]]).
  - rewrite run_S. newmem m4 Hos4 Hos3.
    erewrite step_RTI; [ | rng | acc | osw Hos4 | dec | priv | | ]; cbn [w_data new_init]; [ | rng | rewrite wrap16_small by rng; rng].
    replace (wrap16 (sp - 2 + 1)) with (sp - 1) by (unfold wrap16; rng).
    subst m4. mg.
    rewrite !(Hsame3 (sp - 2)), !(Hsame3 (sp - 1)) by rng. mg. rewrite Hm1a, Hm1b. cbn [w_data new_init].
    rewrite w_add_init by rng. replace (wrap16 (sp - 2 + 2)) with sp by (unfold wrap16; rng).
    rewrite Hfr. replace (Z.max 0 (fno + 1 - 1)) with fno by lia.
    cbn [run]. subst ssp1.
    destruct (psr_privileged psr); [rewrite <- Hsp | rewrite <- Hsp];
      (eexists _, _, _; split; [reflexivity | split; [apply meo_mset_io; [rng | exact Hmeo] | rewrite mget_mset_other by rng; exact Hkk]]).
Qed.

Definition kb_locked_at (sc : sched) (t : nat) : bool := e_kb_locked (sc t).

(* GETC_POLL_KBSR (x0244/x0245) with a non-empty queue: [d] polls find the keyboard locked, the next one free *)
Lemma getc_poll K sc d : forall t m a0 r1 r2 r3 r4 r5 r6 r7 P c ssp fno frs ins pf obs mcr ch q buf,
  os_mem m -> psr_privileged P = true ->
  (forall i, (i < d)%nat -> kb_locked_at sc (t + 2 * i) = true) ->
  kb_locked_at sc (t + 2 * d) = false ->
  exists m' ins' obs',
    run sc t (2 * d + 2) (mk K m [a0; r1; r2; r3; r4; r5; r6; r7] 580 (psr_set_cc P c) ssp fno frs ins pf obs mcr (ch :: q) buf) =
    (mk K m' [new_init 32768; r1; r2; r3; r4; r5; r6; r7] 582 (psr_set_cc P 4) ssp fno frs ins' false obs' mcr (ch :: q) buf, OOk)
    /\ same_low m m' /\ mget m' KBDR = mget m KBDR.
Proof.
  induction d as [|d IH]; intros t m a0 r1 r2 r3 r4 r5 r6 r7 P c ssp fno frs ins pf obs mcr ch q buf Hos HP Hl Hf.
  - cbn [Nat.mul Nat.add] in *. rewrite Nat.add_0_r in Hf. unfold kb_locked_at in Hf.
    rewrite run_S.
    erewrite step_LDI_kbsr; [ | rng | acc | osw Hos | dec | vm_compute; reflexivity | priv | osw Hos ].
    unfold kbsr_val. rewrite Hf. cbn [negb andb is_nil]. norm.
    rewrite run_S.
    newmem m1 Hos1 Hos.
    erewrite step_BR; [ | rng | acc | osw Hos1 | dec ].
    norm. eexists _, _, _. split; [reflexivity|]. subst m1. split.
    + apply same_low_mset_io; [rng | apply same_low_refl].
    + apply mget_mset_other; rng.
  - assert (Hl0 : kb_locked_at sc t = true) by (specialize (Hl O ltac:(lia)); rewrite Nat.mul_0_r, Nat.add_0_r in Hl; exact Hl).
    unfold kb_locked_at in Hl0.
    replace (2 * S d + 2)%nat with (2 + (2 * d + 2))%nat by lia. rewrite run_add.
    cbn [run].
    erewrite step_LDI_kbsr; [ | rng | acc | osw Hos | dec | vm_compute; reflexivity | priv | osw Hos ].
    unfold kbsr_val. rewrite Hl0. cbn [negb andb]. norm. newmem m1 Hos1 Hos.
    erewrite step_BR; [ | rng | acc | osw Hos1 | dec ].
    norm.
    destruct (IH (t + 2)%nat m1 (new_init 0) r1 r2 r3 r4 r5 r6 r7 P 2 ssp fno frs (next_ins (next_ins ins)) false
                 [(581, OBS_READ)] mcr ch q buf Hos1 HP) as (m' & ins' & obs' & Hrun & Hsame & Hk).
    { intros i Hi. specialize (Hl (S i) ltac:(lia)). replace (t + 2 + 2 * i)%nat with (t + 2 * S i)%nat by lia. exact Hl. }
    { replace (t + 2 + 2 * d)%nat with (t + 2 * S d)%nat by lia. exact Hf. }
    exists m', ins', obs'. split; [exact Hrun|]. split.
    + intros a Ha. rewrite Hsame by exact Ha. subst m1. apply mget_mset_other; rng.
    + rewrite Hk. subst m1. apply mget_mset_other; rng.
Qed.

(* GETC: the whole call.  [lockr] = keyboard lock state at the KBDR read *)
Lemma getc_call K sc t d (lockr : bool) m r0 r1 r2 r3 r4 r5 r6 r7 pc psr ssp fno frs ins pf obs mcr ch q buf sp :
  (if psr_privileged psr then r6 else ssp) = new_init sp ->
  OS_END + 2 <= sp <= USER_START ->
  os_mem m -> 0 <= pc < IO_START -> may_access K psr pc = true -> mget m pc = new_init 61472 -> 0 <= fno ->
  (forall i, (i < d)%nat -> kb_locked_at sc (t + 1 + 2 * i) = true) ->
  kb_locked_at sc (t + 1 + 2 * d) = false ->
  kb_locked_at sc (t + 2 * d + 3) = lockr ->
  exists m' ins' obs',
    run sc t (2 * d + 5) (mk K m [r0; r1; r2; r3; r4; r5; r6; r7] pc psr ssp fno frs ins pf obs mcr (ch :: q) buf) =
    (mk K m' [if lockr then mget m KBDR else new_init ch; r1; r2; r3; r4; r5; r6; r7] (wrap16 (pc + 1)) psr ssp fno frs ins' false obs' mcr
        (if lockr then ch :: q else q) buf, OOk)
    /\ mem_eq_outside (sp - 2) sp m m'
    /\ mget m' KBDR = (if lockr then mget m KBDR else new_init ch).
Proof.
  intros Hsp Hstk Hos Hpc Hacc Hw Hfno Hl Hf Hlw.
  replace (2 * d + 5)%nat with (1 + ((2 * d + 2) + 2))%nat by lia.
  rewrite run_add. rewrite run_S.
  erewrite step_TRAP; [ | rng | exact Hacc | exact Hw | dec | destruct (k_real K); reflexivity | | | rng ].
  2,3: rewrite Hsp; cbn [w_data new_init]; rewrite wrap16_small by rng; rng.
  rewrite Hsp. cbn [w_data new_init]. rewrite w_sub_init by lia.
  rewrite !(wrap16_small (sp - 1)), !(wrap16_small (sp - 2)) by rng.
  norm. mg. osr Hos 32. cbn [w_data new_init].
  newmem m1 Hos1 Hos.
  set (P := psr_set_privileged psr true). assert (HP : psr_privileged P = true) by apply psr_priv_set.
  set (frs1 := push_frs _ _ _ _ _ _ _). set (ssp1 := if psr_privileged psr then ssp else r6).
  cbn [run]. rewrite run_add.
  destruct (getc_poll K sc d (t + 1)%nat m1 r0 r1 r2 r3 r4 r5 (new_init (sp - 2)) r7 P 2 ssp1 (fno + 1) frs1
              (next_ins ins) false (obs_trap [(pc, OBS_READ)] m sp psr (wrap16 (pc + 1)) 32) mcr ch q buf Hos1 HP Hl Hf)
    as (m3 & ins3 & obs3 & Hrun3 & Hsame3 & Hk3).
  rewrite Hrun3. clear Hrun3.
  assert (Hos3 : os_mem m3) by (apply (same_low_os m1); assumption).
  assert (Hfr : pop_frs frs1 = frs) by (subst frs1; apply pop_push_frs).
  assert (Hm1a : mget m1 (sp - 2) = new_init (wrap16 (pc + 1))) by (subst m1; mg; reflexivity).
  assert (Hm1b : mget m1 (sp - 1) = new_init psr) by (subst m1; mg; reflexivity).
  assert (Hm1k : mget m1 KBDR = mget m KBDR) by (subst m1; mg; reflexivity).
  assert (Hmeo : mem_eq_outside (sp - 2) sp m m3).
  { intros a Ha Hn. rewrite Hsame3 by exact Ha. subst m1. mg. reflexivity. }
  (* x0246 LDI R0,KBDR *)
  rewrite run_S. erewrite step_LDI_kbdr; [ | rng | acc | osw Hos3 | dec | vm_compute; reflexivity | priv | osw Hos3 ].
  replace (e_kb_locked (sc (t + 1 + (2 * d + 2))%nat)) with lockr
    by (rewrite <- Hlw; unfold kb_locked_at; f_equal; f_equal; lia).
  destruct lockr; norm.
  - (* stale mirror *)
    rewrite run_S. erewrite step_RTI; [ | rng | acc | osw Hos3 | dec | priv | | ]; cbn [w_data new_init]; [ | rng | rewrite wrap16_small by rng; rng].
    replace (wrap16 (sp - 2 + 1)) with (sp - 1) by (unfold wrap16; rng).
    rewrite !(Hsame3 (sp - 2)), !(Hsame3 (sp - 1)) by rng. rewrite Hm1a, Hm1b. cbn [w_data new_init].
    rewrite w_add_init by rng. replace (wrap16 (sp - 2 + 2)) with sp by (unfold wrap16; rng).
    rewrite Hfr. replace (Z.max 0 (fno + 1 - 1)) with fno by lia.
    cbn [run]. subst ssp1. rewrite Hk3, Hm1k.
    destruct (psr_privileged psr); [rewrite <- Hsp | rewrite <- Hsp];
      (eexists _, _, _; split; [reflexivity | split; [exact Hmeo | rewrite Hk3; exact Hm1k]]).
  - rewrite run_S. newmem m4 Hos4 Hos3.
    erewrite step_RTI; [ | rng | acc | osw Hos4 | dec | priv | | ]; cbn [w_data new_init]; [ | rng | rewrite wrap16_small by rng; rng].
    replace (wrap16 (sp - 2 + 1)) with (sp - 1) by (unfold wrap16; rng).
    subst m4. mg.
    rewrite !(Hsame3 (sp - 2)), !(Hsame3 (sp - 1)) by rng. rewrite Hm1a, Hm1b. cbn [w_data new_init].
    rewrite w_add_init by rng. replace (wrap16 (sp - 2 + 2)) with sp by (unfold wrap16; rng).
    rewrite Hfr. replace (Z.max 0 (fno + 1 - 1)) with fno by lia.
    cbn [run]. subst ssp1.
    destruct (psr_privileged psr); [rewrite <- Hsp | rewrite <- Hsp];
      (eexists _, _, _; split; [reflexivity | split; [apply meo_mset_io; [rng | exact Hmeo] | apply mget_mset_same]]).
Qed.

(* ---- HALT ---- *)
Lemma halt_virtual K e m rs pc psr ssp fno frs ins pf obs mcr q buf :
  k_real K = false -> 0 <= pc < IO_START -> may_access K psr pc = true -> mget m pc = new_init 61477 ->
  step_in e (mk K m rs pc psr ssp fno frs ins pf obs mcr q buf) =
  (mk K m rs pc psr ssp fno frs ins true [(pc, OBS_READ)] mcr q buf, OHalt).
Proof.
  intros Hr Hpc Hacc Hw.
  erewrite step_TRAP_halt_virtual; [ | rng | exact Hacc | exact Hw | dec | exact Hr ].
  replace (wrap16 (wrap16 (pc + 1) + -1)) with pc; [reflexivity|].
  unfold wrap16. rng.
Qed.

Lemma halt_real K sc t m r0 r1 r2 r3 r4 r5 r6 r7 pc psr ssp fno frs ins pf obs mcr q buf sp :
  k_real K = true ->
  (if psr_privileged psr then r6 else ssp) = new_init sp ->
  OS_END + 2 <= sp <= USER_START ->
  os_mem m -> 0 <= pc < IO_START -> may_access K psr pc = true -> mget m pc = new_init 61477 ->
  exists m' r6' r7' ssp' psr' fno' frs' ins' obs',
    run sc t 3 (mk K m [r0; r1; r2; r3; r4; r5; r6; r7] pc psr ssp fno frs ins pf obs mcr q buf) =
    (mk K m' [r0; r1; r2; r3; r4; r5; r6'; r7'] 673 psr' ssp' fno' frs' ins' false obs' false q buf, OOk)
    /\ mem_eq_outside (sp - 2) sp m m'.
Proof.
  intros Hr Hsp Hstk Hos Hpc Hacc Hw.
  rewrite run_S.
  erewrite step_TRAP; [ | rng | exact Hacc | exact Hw | dec | rewrite Hr; reflexivity | | | rng ].
  2,3: rewrite Hsp; cbn [w_data new_init]; rewrite wrap16_small by rng; rng.
  rewrite Hsp. cbn [w_data new_init]. rewrite w_sub_init by lia.
  rewrite !(wrap16_small (sp - 1)), !(wrap16_small (sp - 2)) by rng.
  norm. mg. osr Hos 37. cbn [w_data new_init].
  newmem m1 Hos1 Hos.
  set (P := psr_set_privileged psr true). assert (HP : psr_privileged P = true) by apply psr_priv_set.
  (* x029F AND R7,R7,#0 *)
  rewrite run_S. erewrite step_AND; [ | rng | acc | osw Hos1 | dec ].
  norm. cbn [operand_of]. ceval (to_u16 0).
  (* x02A0 STI R7,MCR *)
  rewrite run_S. erewrite step_STI_mcr; [ | rng | acc | osw Hos1 | dec | vm_compute; reflexivity | priv | osw Hos1 ].
  norm. replace (w_data (w_and r7 (new_init 0))) with 0 by (unfold w_and; cbn [w_data new_init]; rewrite Z.land_0_r; reflexivity).
  change (32768 <=? 0) with false.
  cbn [run]. eexists _, _, _, _, _, _, _, _, _. split; [reflexivity|].
  apply meo_mset_io; [rng|]. subst m1. intros a Ha Hn. mg. reflexivity.
Qed.

(* ---- strings in memory ---- *)
(* the words at a, a+1, ... carry the non-zero values cs and are followed by a zero word *)
Fixpoint str_at (m : mem) (a : Z) (cs : list Z) : Prop :=
  match cs with
  | [] => w_data (mget m a) = 0
  | c :: r => w_data (mget m a) = c /\ str_at m (a + 1) r
  end.
Definition chars_ok (cs : list Z) : Prop := Forall (fun c => 0 < c < 65536) cs.

Lemma str_at_meo lo hi m m' cs : forall a,
  mem_eq_outside lo hi m m' -> 0 <= a -> a + Z.of_nat (length cs) < IO_START ->
  (a + Z.of_nat (length cs) < lo \/ hi <= a) ->
  str_at m a cs -> str_at m' a cs.
Proof.
  induction cs as [|c r IH]; intros a Hm Ha Hb Hd Hs; cbn [str_at length] in *.
  - rewrite Hm; [exact Hs | rng | rng].
  - destruct Hs as [H1 H2]. split.
    + rewrite Hm; [exact H1 | rng | rng].
    + apply IH; [exact Hm | lia | rng | rng | exact H2].
Qed.

Definition ds_free_from (sc : sched) (t n : nat) : Prop := forall i, (i < n)%nat -> ds_locked_at sc (t + i) = false.
Lemma ds_free_sub sc t n t' n' : ds_free_from sc t n -> (t <= t')%nat -> (t' + n' <= t + n)%nat -> ds_free_from sc t' n'.
Proof. intros H H1 H2 i Hi. replace (t' + i)%nat with (t + (t' - t + i))%nat by lia. apply H. lia. Qed.

Definition low8 (cs : list Z) : list Z := map (fun c => c mod 256) cs.

Lemma cc_of_nz ch : 0 < ch < 65536 -> cc_of ch = 4 \/ cc_of ch = 1.
Proof.
  intros H. unfold cc_of, to_i16. rewrite wrap16_small by lia.
  destruct (ch <? 32768) eqn:E.
  - apply Z.ltb_lt in E. replace (ch <? 0) with false by (symmetry; apply Z.ltb_ge; lia).
    replace (ch =? 0) with false by (symmetry; apply Z.eqb_neq; lia). auto.
  - apply Z.ltb_ge in E. replace (ch - 65536 <? 0) with true by (symmetry; apply Z.ltb_lt; lia). auto.
Qed.

(* PUTS_LOOP (x0255 .. x0259): prints the string R1 points at; R6 = x *)
Lemma puts_loop K sc cs : forall t m a0 p r2 r3 r4 r5 r7 P c ssp fno frs ins pf obs mcr q buf x,
  os_mem m -> psr_privileged P = true -> 0 <= fno ->
  OS_END + 3 <= x <= USER_START ->
  chars_ok cs -> str_at m (w_data p) cs ->
  0 <= w_data p -> w_data p + Z.of_nat (length cs) < IO_START ->
  (w_data p + Z.of_nat (length cs) < x - 3 \/ x <= w_data p) ->
  ds_free_from sc t (13 * length cs + 2) ->
  exists m' ins' obs' a0' p' c',
    run sc t (13 * length cs + 2)
      (mk K m [a0; p; r2; r3; r4; r5; new_init x; r7] 597 (psr_set_cc P c) ssp fno frs ins pf obs mcr q buf) =
    (mk K m' [a0'; p'; r2; r3; r4; r5; new_init x; r7] 602 (psr_set_cc P c') ssp fno frs ins' false obs' mcr q (buf ++ low8 cs), OOk)
    /\ mem_eq_outside (x - 3) x m m'.
Proof.
  induction cs as [|ch cs IH]; intros t m a0 p r2 r3 r4 r5 r7 P c ssp fno frs ins pf obs mcr q buf x Hos HP Hfno Hx Hok Hstr Hp0 Hp1 Hdis Hfree.
  - cbn [length str_at] in *. change (13 * 0 + 2)%nat with 2%nat in *.
    (* x0255 LDR R0,R1,#0 ; x0256 BRz *)
    rewrite run_S. erewrite step_LDR; [ | rng | acc | osw Hos | dec | | ]; regs; rewrite ?Z.add_0_r, ?(wrap16_small (w_data p)) by rng; [ | rng | acc].
    rewrite Hstr. norm.
    rewrite run_S. erewrite step_BR; [ | rng | acc | osw Hos | dec ].
    norm. cbn [run]. unfold low8. cbn [map]. rewrite app_nil_r.
    eexists _, _, _, _, _, _. split; [reflexivity | apply meo_refl].
  - cbn [length str_at] in *. destruct Hstr as [Hch Hstr].
    assert (Hc : 0 < ch < 65536) by (inversion Hok; assumption).
    assert (Hok' : chars_ok cs) by (inversion Hok; assumption).
    replace (13 * S (length cs) + 2)%nat with (2 + (9 + (2 + (13 * length cs + 2))))%nat by lia.
    rewrite run_add.
    rewrite run_S. erewrite step_LDR; [ | rng | acc | osw Hos | dec | | ]; regs; rewrite ?Z.add_0_r, ?(wrap16_small (w_data p)) by rng; [ | rng | acc].
    rewrite Hch. norm.
    rewrite run_S. erewrite step_BR; [ | rng | acc | osw Hos | dec ].
    norm. rewrite cc_norm_cc_of.
    replace (negb (Z.land 2 (cc_of ch) =? 0)) with false by (destruct (cc_of_nz ch Hc) as [-> | ->]; reflexivity).
    cbv iota. cbn [run]. rewrite run_add.
    (* x0257 PUTC *)
    destruct (putc_call K sc (t + 2)%nat 0 false m (mget m (w_data p)) p r2 r3 r4 r5 (new_init x) r7 599 (psr_set_cc P (cc_of ch)) ssp fno frs
                (next_ins (next_ins ins)) false [(598, OBS_READ)] mcr q buf x)
      as (m1 & ins1 & obs1 & Hrun1 & Hmeo1 & _).
    { replace (psr_privileged (psr_set_cc P (cc_of ch))) with true by (symmetry; priv). reflexivity. }
    { exact Hx. } { exact Hos. } { rng. } { acc. } { osw Hos. } { exact Hfno. }
    { intros i Hi. lia. }
    { replace (t + 2 + 3 + 2 * 0)%nat with (t + 5)%nat by lia. apply Hfree. lia. }
    { replace (t + 2 + 2 * 0 + 7)%nat with (t + 9)%nat by lia. apply Hfree. lia. }
    change (2 * 0 + 9)%nat with 9%nat in Hrun1. rewrite Hrun1. clear Hrun1. cbv iota.
    assert (Hos1 : os_mem m1) by (apply (meo_os (x - 3) x m); [rng | exact Hos | exact Hmeo1]).
    norm. rewrite run_add.
    (* x0258 ADD R1,R1,#1 ; x0259 BR PUTS_LOOP *)
    rewrite run_S. erewrite step_ADD; [ | rng | acc | osw Hos1 | dec ].
    norm. cbn [operand_of]. ceval (to_u16 1).
    rewrite run_S. erewrite step_BR; [ | rng | acc | osw Hos1 | dec ].
    norm. rewrite cc_norm_cc_of.
    replace (negb (Z.land 7 (cc_of (w_data (w_add p (new_init 1)))) =? 0)) with true
      by (destruct (cc_of_cases (w_data (w_add p (new_init 1)))) as [-> | [-> | ->]]; reflexivity).
    cbv iota. cbn [run].
    assert (Hpd : w_data (w_add p (new_init 1)) = w_data p + 1).
    { rewrite w_add_data by rng. apply wrap16_small. rng. }
    destruct (IH (t + 2 + 9 + 2)%nat m1 (mget m (w_data p)) (w_add p (new_init 1)) r2 r3 r4 r5 r7 P
                 (cc_of (w_data (w_add p (new_init 1)))) ssp fno frs
                 (next_ins (next_ins ins1)) false [(601, OBS_READ)] mcr q (buf ++ [w_data (mget m (w_data p)) mod 256]) x
                 Hos1 HP Hfno Hx Hok')
      as (m2 & ins2 & obs2 & a02 & p2 & c2 & Hrun2 & Hmeo2).
    { rewrite Hpd. apply (str_at_meo (x - 3) x m m1); [exact Hmeo1 | lia | rng | rng | exact Hstr]. }
    { rewrite Hpd. lia. } { rewrite Hpd. rng. } { rewrite Hpd. rng. }
    { apply (ds_free_sub sc t (13 * S (length cs) + 2)); [exact Hfree | lia | lia]. }
    rewrite Hrun2. exists m2, ins2, obs2, a02, p2, c2. split.
    + unfold low8. cbn [map]. rewrite Hch. rewrite <- app_assoc. reflexivity.
    + apply (meo_trans _ _ m m1 m2); assumption.
Qed.

Ltac wsmall := repeat match goal with |- context [wrap16 (?a + ?b)] => rewrite (wrap16_small (a + b)) by rng | |- context [wrap16 (?a - ?b)] => rewrite (wrap16_small (a - b)) by rng end.

(* PUTS: the whole call with the display free *)
Lemma puts_call K sc t cs m r0 r1 r2 r3 r4 r5 r6 r7 pc psr ssp fno frs ins pf obs mcr q buf sp :
  (if psr_privileged psr then r6 else ssp) = new_init sp ->
  OS_END + 7 <= sp <= USER_START ->
  os_mem m -> 0 <= pc < IO_START -> may_access K psr pc = true -> mget m pc = new_init 61474 -> 0 <= fno ->
  chars_ok cs -> str_at m (w_data r0) cs ->
  0 <= w_data r0 -> w_data r0 + Z.of_nat (length cs) < IO_START ->
  (w_data r0 + Z.of_nat (length cs) < sp - 7 \/ sp <= w_data r0) ->
  ds_free_from sc t (13 * length cs + 13) ->
  exists m' ins' obs',
    run sc t (13 * length cs + 13) (mk K m [r0; r1; r2; r3; r4; r5; r6; r7] pc psr ssp fno frs ins pf obs mcr q buf) =
    (mk K m' [r0; r1; r2; r3; r4; r5; r6; r7] (wrap16 (pc + 1)) psr ssp fno frs ins' false obs' mcr q (buf ++ low8 cs), OOk)
    /\ mem_eq_outside (sp - 7) sp m m'.
Proof.
  intros Hsp Hstk Hos Hpc Hacc Hw Hfno Hok Hstr Ha0 Ha1 Hdis Hfree.
  replace (13 * length cs + 13)%nat with (6 + ((13 * length cs + 2) + 5))%nat by lia.
  rewrite run_add. rewrite run_S.
  erewrite step_TRAP; [ | rng | exact Hacc | exact Hw | dec | destruct (k_real K); reflexivity | | | rng ].
  2,3: rewrite Hsp; cbn [w_data new_init]; rewrite wrap16_small by rng; rng.
  rewrite Hsp. cbn [w_data new_init]. rewrite w_sub_init by lia.
  rewrite !(wrap16_small (sp - 1)), !(wrap16_small (sp - 2)) by rng.
  norm. mg. osr Hos 34. cbn [w_data new_init].
  newmem m1 Hos1 Hos.
  set (P := psr_set_privileged psr true). assert (HP : psr_privileged P = true) by apply psr_priv_set.
  set (frs1 := push_frs _ _ _ _ _ _ _). set (ssp1 := if psr_privileged psr then ssp else r6).
  (* x0250 ADD R6,R6,#-1 ; x0251 STR R0,R6,#0 *)
  rewrite run_S. erewrite step_ADD; [ | rng | acc | osw Hos1 | dec ].
  norm. cbn [operand_of]. ceval (to_u16 (-1)). rewrite w_add_init by rng.
  replace (wrap16 (sp - 2 + 65535)) with (sp - 3) by (unfold wrap16; rng).
  cbn [w_data new_init]. norm.
  rewrite run_S. erewrite step_STR; [ | rng | acc | osw Hos1 | dec | | ]; regs; cbn [w_data new_init]; rewrite ?Z.add_0_r, ?(wrap16_small (sp - 3)) by rng; [ | rng | acc].
  norm. newmem m2 Hos2 Hos1.
  (* x0252 ADD R6,R6,#-1 ; x0253 STR R1,R6,#0 *)
  rewrite run_S. erewrite step_ADD; [ | rng | acc | osw Hos2 | dec ].
  norm. cbn [operand_of]. ceval (to_u16 (-1)). rewrite w_add_init by rng.
  replace (wrap16 (sp - 3 + 65535)) with (sp - 4) by (unfold wrap16; rng).
  cbn [w_data new_init]. norm.
  rewrite run_S. erewrite step_STR; [ | rng | acc | osw Hos2 | dec | | ]; regs; cbn [w_data new_init]; rewrite ?Z.add_0_r, ?(wrap16_small (sp - 4)) by rng; [ | rng | acc].
  norm. newmem m3 Hos3 Hos2.
  (* x0254 ADD R1,R0,#0 *)
  rewrite run_S. erewrite step_ADD; [ | rng | acc | osw Hos3 | dec ].
  norm. cbn [operand_of]. ceval (to_u16 0). rewrite w_add_zero.
  cbn [run]. rewrite run_add.
  assert (Hmeo3 : mem_eq_outside (sp - 7) sp m m3).
  { subst m3 m2 m1. intros a Ha Hn. mg. reflexivity. }
  destruct (puts_loop K sc cs (t + 6)%nat m3 r0 r0 r2 r3 r4 r5 r7 P (cc_of (w_data r0)) ssp1 (fno + 1) frs1
              (next_ins (next_ins (next_ins (next_ins (next_ins (next_ins ins)))))) false [(596, OBS_READ)] mcr q buf (sp - 4)
              Hos3 HP ltac:(lia) ltac:(rng) Hok)
    as (m4 & ins4 & obs4 & a04 & p4 & c4 & Hrun4 & Hmeo4).
  { apply (str_at_meo (sp - 7) sp m m3); [exact Hmeo3 | lia | rng | rng | exact Hstr]. }
  { exact Ha0. } { exact Ha1. } { rng. }
  { apply (ds_free_sub sc t (13 * length cs + 13)); [exact Hfree | lia | lia]. }
  rewrite Hrun4. clear Hrun4. cbv iota.
  replace (sp - 4 - 3) with (sp - 7) in Hmeo4 by lia.
  assert (Hmeo4' : mem_eq_outside (sp - 7) sp m m4).
  { apply (meo_trans _ _ m m3 m4); [exact Hmeo3 | apply (meo_weaken (sp - 7) (sp - 4)); [lia | lia | exact Hmeo4]]. }
  assert (Hos4 : os_mem m4) by (apply (meo_os (sp - 7) sp m); [rng | exact Hos | exact Hmeo4']).
  assert (Hs1 : mget m4 (sp - 1) = new_init psr) by (rewrite Hmeo4 by rng; subst m3 m2 m1; mg; reflexivity).
  assert (Hs2 : mget m4 (sp - 2) = new_init (wrap16 (pc + 1))) by (rewrite Hmeo4 by rng; subst m3 m2 m1; mg; reflexivity).
  assert (Hs3 : mget m4 (sp - 3) = r0) by (rewrite Hmeo4 by rng; subst m3 m2 m1; mg; reflexivity).
  assert (Hs4 : mget m4 (sp - 4) = r1) by (rewrite Hmeo4 by rng; subst m3 m2 m1; mg; reflexivity).
  assert (Hfr : pop_frs frs1 = frs) by (subst frs1; apply pop_push_frs).
  (* x025A LDR R1,R6,#0 ; x025B ADD R6,R6,#1 ; x025C LDR R0,R6,#0 ; x025D ADD R6,R6,#1 ; x025E RTI *)
  rewrite run_S. erewrite step_LDR; [ | rng | acc | osw Hos4 | dec | | ]; regs; cbn [w_data new_init]; rewrite ?Z.add_0_r, ?(wrap16_small (sp - 4)) by rng; [ | rng | acc].
  rewrite Hs4. norm.
  rewrite run_S. erewrite step_ADD; [ | rng | acc | osw Hos4 | dec ].
  norm. cbn [operand_of]. ceval (to_u16 1). rewrite w_add_init by rng.
  replace (wrap16 (sp - 4 + 1)) with (sp - 3) by (unfold wrap16; rng). cbn [w_data new_init]. norm.
  rewrite run_S. erewrite step_LDR; [ | rng | acc | osw Hos4 | dec | | ]; regs; cbn [w_data new_init]; rewrite ?Z.add_0_r, ?(wrap16_small (sp - 3)) by rng; [ | rng | acc].
  rewrite Hs3. norm.
  rewrite run_S. erewrite step_ADD; [ | rng | acc | osw Hos4 | dec ].
  norm. cbn [operand_of]. ceval (to_u16 1). rewrite w_add_init by rng.
  replace (wrap16 (sp - 3 + 1)) with (sp - 2) by (unfold wrap16; rng). cbn [w_data new_init]. norm.
  rewrite run_S. erewrite step_RTI; [ | rng | acc | osw Hos4 | dec | priv | | ]; cbn [w_data new_init]; [ | rng | rewrite wrap16_small by rng; rng].
  replace (wrap16 (sp - 2 + 1)) with (sp - 1) by (unfold wrap16; rng).
  rewrite Hs1, Hs2. cbn [w_data new_init].
  rewrite w_add_init by rng. replace (wrap16 (sp - 2 + 2)) with sp by (unfold wrap16; rng).
  rewrite Hfr. replace (Z.max 0 (fno + 1 - 1)) with fno by lia.
  cbn [run]. subst ssp1.
  destruct (psr_privileged psr); [rewrite <- Hsp | rewrite <- Hsp];
    (eexists _, _, _; split; [reflexivity | exact Hmeo4']).
Qed.

(* "Input character: " *)
Definition in_prompt : list Z := [73; 110; 112; 117; 116; 32; 99; 104; 97; 114; 97; 99; 116; 101; 114; 58; 32].
Lemma in_prompt_ok : chars_ok in_prompt.
Proof. unfold chars_ok, in_prompt. repeat constructor; lia. Qed.
Lemma in_prompt_at m : os_mem m -> str_at m 612 in_prompt.
Proof.
  intros Hos. unfold in_prompt. cbn [str_at].
  repeat match goal with
  | |- _ /\ _ => split
  | |- w_data (mget m ?a) = _ => osr Hos a; reflexivity
  end.
Qed.

Definition kb_free_from (sc : sched) (t n : nat) : Prop := forall i, (i < n)%nat -> kb_locked_at sc (t + i) = false.

Lemma in_call K sc t m r0 r1 r2 r3 r4 r5 r6 r7 pc psr ssp fno frs ins pf obs mcr ch q buf sp :
  (if psr_privileged psr then r6 else ssp) = new_init sp ->
  OS_END + 9 <= sp <= USER_START ->
  os_mem m -> 0 <= pc < IO_START -> may_access K psr pc = true -> mget m pc = new_init 61475 -> 0 <= fno ->
  ds_free_from sc t 251 -> kb_free_from sc t 251 ->
  exists m' ins' obs',
    run sc t 251 (mk K m [r0; r1; r2; r3; r4; r5; r6; r7] pc psr ssp fno frs ins pf obs mcr (ch :: q) buf) =
    (mk K m' [new_init ch; r1; r2; r3; r4; r5; r6; r7] (wrap16 (pc + 1)) psr ssp fno frs ins' false obs' mcr q
        (buf ++ low8 in_prompt ++ [ch mod 256]), OOk)
    /\ mem_eq_outside (sp - 9) sp m m'.
Proof.
  intros Hsp Hstk Hos Hpc Hacc Hw Hfno Hdf Hkf.
  change 251%nat with (2 + (234 + (5 + (9 + 1))))%nat.
  rewrite run_add. rewrite run_S.
  erewrite step_TRAP; [ | rng | exact Hacc | exact Hw | dec | destruct (k_real K); reflexivity | | | rng ].
  2,3: rewrite Hsp; cbn [w_data new_init]; rewrite wrap16_small by rng; rng.
  rewrite Hsp. cbn [w_data new_init]. rewrite w_sub_init by lia.
  rewrite !(wrap16_small (sp - 1)), !(wrap16_small (sp - 2)) by rng.
  norm. mg. osr Hos 35. cbn [w_data new_init].
  newmem m1 Hos1 Hos.
  set (P := psr_set_privileged psr true). assert (HP : psr_privileged P = true) by apply psr_priv_set.
  set (frs1 := push_frs _ _ _ _ _ _ _). set (ssp1 := if psr_privileged psr then ssp else r6).
  assert (Hmeo1 : mem_eq_outside (sp - 9) sp m m1) by (subst m1; intros a Ha Hn; mg; reflexivity).
  (* x025F LEA R0,S_IN_PROMPT *)
  rewrite run_S. erewrite step_LEA; [ | rng | acc | osw Hos1 | dec ].
  norm. cbn [run]. rewrite run_add.
  (* x0260 PUTS *)
  destruct (puts_call K sc (t + 2)%nat in_prompt m1 (new_init 612) r1 r2 r3 r4 r5 (new_init (sp - 2)) r7 608 (psr_set_cc P 2) ssp1 (fno + 1) frs1
              (next_ins (next_ins ins)) false [(607, OBS_READ)] mcr (ch :: q) buf (sp - 2))
    as (m2 & ins2 & obs2 & Hrun2 & Hmeo2).
  { replace (psr_privileged (psr_set_cc P 2)) with true by (symmetry; priv). reflexivity. }
  { rng. } { exact Hos1. } { rng. } { acc. } { osw Hos1. } { lia. } { exact in_prompt_ok. }
  { apply in_prompt_at. exact Hos1. } { cbn; lia. } { cbn; rng. } { left. cbn. rng. }
  { apply (ds_free_sub sc t 251); [exact Hdf | lia | cbn; lia]. }
  change (13 * length in_prompt + 13)%nat with 234%nat in Hrun2. rewrite Hrun2. clear Hrun2. cbv iota.
  replace (sp - 2 - 7) with (sp - 9) in Hmeo2 by lia.
  assert (Hmeo2' : mem_eq_outside (sp - 9) sp m m2).
  { apply (meo_trans _ _ m m1 m2); [exact Hmeo1 | apply (meo_weaken (sp - 9) (sp - 2)); [lia | lia | exact Hmeo2]]. }
  assert (Hos2 : os_mem m2) by (apply (meo_os (sp - 9) sp m); [rng | exact Hos | exact Hmeo2']).
  norm. rewrite run_add.
  (* x0261 GETC *)
  destruct (getc_call K sc (t + 2 + 234)%nat 0 false m2 (new_init 612) r1 r2 r3 r4 r5 (new_init (sp - 2)) r7 609 (psr_set_cc P 2) ssp1 (fno + 1) frs1
              ins2 false obs2 mcr ch q (buf ++ low8 in_prompt) (sp - 2))
    as (m3 & ins3 & obs3 & Hrun3 & Hmeo3 & _).
  { replace (psr_privileged (psr_set_cc P 2)) with true by (symmetry; priv). reflexivity. }
  { rng. } { exact Hos2. } { rng. } { acc. } { osw Hos2. } { lia. }
  { intros i Hi. lia. }
  { replace (t + 2 + 234 + 1 + 2 * 0)%nat with (t + 237)%nat by lia. apply Hkf. lia. }
  { replace (t + 2 + 234 + 2 * 0 + 3)%nat with (t + 239)%nat by lia. apply Hkf. lia. }
  change (2 * 0 + 5)%nat with 5%nat in Hrun3. rewrite Hrun3. clear Hrun3. cbv iota.
  assert (Hmeo3' : mem_eq_outside (sp - 9) sp m m3).
  { apply (meo_trans _ _ m m2 m3); [exact Hmeo2' | apply (meo_weaken (sp - 2 - 2) (sp - 2)); [lia | lia | exact Hmeo3]]. }
  assert (Hos3 : os_mem m3) by (apply (meo_os (sp - 9) sp m); [rng | exact Hos | exact Hmeo3']).
  norm. rewrite run_add.
  (* x0262 PUTC *)
  destruct (putc_call K sc (t + 2 + 234 + 5)%nat 0 false m3 (new_init ch) r1 r2 r3 r4 r5 (new_init (sp - 2)) r7 610 (psr_set_cc P 2) ssp1 (fno + 1) frs1
              ins3 false obs3 mcr q (buf ++ low8 in_prompt) (sp - 2))
    as (m4 & ins4 & obs4 & Hrun4 & Hmeo4 & _).
  { replace (psr_privileged (psr_set_cc P 2)) with true by (symmetry; priv). reflexivity. }
  { rng. } { exact Hos3. } { rng. } { acc. } { osw Hos3. } { lia. }
  { intros i Hi. lia. }
  { replace (t + 2 + 234 + 5 + 3 + 2 * 0)%nat with (t + 244)%nat by lia. apply Hdf. lia. }
  { replace (t + 2 + 234 + 5 + 2 * 0 + 7)%nat with (t + 248)%nat by lia. apply Hdf. lia. }
  change (2 * 0 + 9)%nat with 9%nat in Hrun4. rewrite Hrun4. clear Hrun4. cbv iota.
  assert (Hmeo4' : mem_eq_outside (sp - 9) sp m m4).
  { apply (meo_trans _ _ m m3 m4); [exact Hmeo3' | apply (meo_weaken (sp - 2 - 3) (sp - 2)); [lia | lia | exact Hmeo4]]. }
  assert (Hos4 : os_mem m4) by (apply (meo_os (sp - 9) sp m); [rng | exact Hos | exact Hmeo4']).
  assert (Hs1 : mget m4 (sp - 1) = new_init psr).
  { rewrite Hmeo4, Hmeo3, Hmeo2 by rng. subst m1. mg. reflexivity. }
  assert (Hs2 : mget m4 (sp - 2) = new_init (wrap16 (pc + 1))).
  { rewrite Hmeo4, Hmeo3, Hmeo2 by rng. subst m1. mg. reflexivity. }
  assert (Hfr : pop_frs frs1 = frs) by (subst frs1; apply pop_push_frs).
  norm.
  (* x0263 RTI *)
  rewrite run_S. erewrite step_RTI; [ | rng | acc | osw Hos4 | dec | priv | | ]; cbn [w_data new_init]; [ | rng | rewrite wrap16_small by rng; rng].
  replace (wrap16 (sp - 2 + 1)) with (sp - 1) by (unfold wrap16; rng).
  rewrite Hs1, Hs2. cbn [w_data new_init].
  rewrite w_add_init by rng. replace (wrap16 (sp - 2 + 2)) with sp by (unfold wrap16; rng).
  rewrite Hfr. replace (Z.max 0 (fno + 1 - 1)) with fno by lia.
  cbn [run]. subst ssp1. rewrite <- app_assoc.
  destruct (psr_privileged psr); [rewrite <- Hsp | rewrite <- Hsp];
    (eexists _, _, _; split; [reflexivity | exact Hmeo4']).
Qed.
