(* OsPutsp.v — TRAP_PUTSP of src/os.asm: packed strings (low byte, then high byte of each word, up to
   the first zero byte).  The high byte is extracted by eight shift rounds whose instruction
   count depends on the bits of the word, so the number of instructions is existential; the
   display is assumed free throughout. *)
From Coq Require Import ZArith List Bool Lia FMapPositive.
From Gen Require Import Constants OsImage.
From Model Require Import Tree Bits Word Instr Sim Load.
From Proofs Require Import Ranges SimStep OsProofs.
Import ListNotations.
Open Scope Z_scope.

Lemma w_add_data_gen l r : 0 <= w_data l < 65536 -> 0 <= w_data r < 65536 ->
  w_data (w_add l r) = wrap16 (w_data l + w_data r).
Proof.
  intros Hl Hr. unfold w_add.
  destruct ((w_data r =? 0) && (w_init r =? ALL_BITS)) eqn:E1.
  - apply andb_prop in E1. destruct E1 as [E _]. apply Z.eqb_eq in E. rewrite E, Z.add_0_r. symmetry. apply wrap16_small. exact Hl.
  - destruct ((w_data l =? 0) && (w_init l =? ALL_BITS)) eqn:E2.
    + apply andb_prop in E2. destruct E2 as [E _]. apply Z.eqb_eq in E. rewrite E, Z.add_0_l. symmetry. apply wrap16_small. exact Hr.
    + reflexivity.
Qed.
Lemma wrap16_range x : 0 <= wrap16 x < 65536.
Proof. unfold wrap16. apply Z.mod_pos_bound. lia. Qed.

(* one round of PUTSP_GET_HIGH_8: (R0, R2) := (2*R0 + msb R2, 2*R2) *)
Definition shl1 (hv : Z * Z) : Z * Z :=
  let '(h, v) := hv in
  (if v <? 32768 then wrap16 (h + h) else wrap16 (wrap16 (h + h) + 1), wrap16 (v + v)).
Lemma shl8_high :
  forallb (fun v => fst (Nat.iter 8 shl1 (0, v)) =? v / 256) (zrange 0 (Z.to_nat (65536 - 0))) = true.
Proof. vm_compute. reflexivity. Qed.
Lemma shl8_high_eq v : 0 <= v < 65536 -> fst (Nat.iter 8 shl1 (0, v)) = v / 256.
Proof. intros H. apply Z.eqb_eq. exact (forall_range' _ 0 65536 shl8_high v H). Qed.
Lemma shl1_range hv : 0 <= fst (shl1 hv) < 65536 /\ 0 <= snd (shl1 hv) < 65536.
Proof. destruct hv as [h v]. unfold shl1. cbn [fst snd]. split; [destruct (v <? 32768)|]; apply wrap16_range. Qed.

Lemma cc_of_pos k : 0 < k < 32768 -> cc_of k = 1.
Proof.
  intros H. unfold cc_of, to_i16. rewrite wrap16_small by lia.
  replace (k <? 32768) with true by (symmetry; apply Z.ltb_lt; lia).
  replace (k <? 0) with false by (symmetry; apply Z.ltb_ge; lia).
  replace (k =? 0) with false by (symmetry; apply Z.eqb_neq; lia). reflexivity.
Qed.
Lemma cc_of_neg v : 32768 <= v < 65536 -> cc_of v = 4.
Proof.
  intros H. unfold cc_of, to_i16. rewrite wrap16_small by lia.
  replace (v <? 32768) with false by (symmetry; apply Z.ltb_ge; lia).
  replace (v - 65536 <? 0) with true by (symmetry; apply Z.ltb_lt; lia). reflexivity.
Qed.
Lemma cc_of_nonneg v : 0 <= v < 32768 -> cc_of v = 2 \/ cc_of v = 1.
Proof.
  intros H. destruct (Z.eq_dec v 0) as [->|Hn]; [left; reflexivity | right; apply cc_of_pos; lia].
Qed.

Lemma iter_succ_r {A} (f : A -> A) k : forall x, Nat.iter (S k) f x = Nat.iter k f (f x).
Proof. induction k as [|k IH]; intros x; [reflexivity|]. change (Nat.iter (S (S k)) f x) with (f (Nat.iter (S k) f x)). rewrite IH. reflexivity. Qed.

(* PUTSP_GET_HIGH_8 (x0287 .. x028F): k rounds, then falls out to x0290 *)
Lemma putsp_shift K sc (k : nat) : forall t m a0 p a2 a3 r4 r5 r6 r7 P c ssp fno frs ins pf obs mcr q buf,
  os_mem m -> psr_privileged P = true -> (k <= 8)%nat ->
  0 <= w_data a0 < 65536 -> 0 <= w_data a2 < 65536 -> w_data a3 = Z.of_nat k ->
  exists n ins' obs' a0' a2' a3' c',
    run sc t n (mk K m [a0; p; a2; a3; r4; r5; r6; r7] 647 (psr_set_cc P c) ssp fno frs ins pf obs mcr q buf) =
    (mk K m [a0'; p; a2'; a3'; r4; r5; r6; r7] 656 (psr_set_cc P c') ssp fno frs ins' false obs' mcr q buf, OOk)
    /\ w_data a0' = fst (Nat.iter k shl1 (w_data a0, w_data a2)).
Proof.
  induction k as [|k IH]; intros t m a0 p a2 a3 r4 r5 r6 r7 P c ssp fno frs ins pf obs mcr q buf Hos HP Hk H0 H2 H3.
  - (* x0287 ADD R3,R3,#0 ; x0288 BRnz -> x0290 *)
    exists 2%nat. rewrite run_S. erewrite step_ADD; [ | rng | acc | osw Hos | dec ].
    norm. cbn [operand_of]. ceval (to_u16 0). rewrite w_add_zero. rewrite H3. cbn [Z.of_nat]. cev.
    rewrite run_S. erewrite step_BR; [ | rng | acc | osw Hos | dec ].
    norm. cbn [run]. eexists _, _, _, _, _, _. split; [reflexivity|]. reflexivity.
  - assert (Hk3 : cc_of (Z.of_nat (S k)) = 1) by (apply cc_of_pos; lia).
    set (hv := shl1 (w_data a0, w_data a2)).
    (* run the round, then the induction hypothesis *)
    assert (Hround : exists n1 ins1 obs1 b0 b2 b3 c1,
      run sc t n1 (mk K m [a0; p; a2; a3; r4; r5; r6; r7] 647 (psr_set_cc P c) ssp fno frs ins pf obs mcr q buf) =
      (mk K m [b0; p; b2; b3; r4; r5; r6; r7] 647 (psr_set_cc P c1) ssp fno frs ins1 false obs1 mcr q buf, OOk)
      /\ w_data b0 = fst hv /\ w_data b2 = snd hv /\ w_data b3 = Z.of_nat k).
    { assert (Hb3 : w_data (w_add a3 (new_init 65535)) = Z.of_nat k).
      { rewrite w_add_data_gen by (cbn [w_data new_init]; lia). cbn [w_data new_init]. rewrite H3. unfold wrap16. lia. }
      assert (Hb2 : w_data (w_add a2 a2) = snd hv) by (rewrite w_add_data_gen by assumption; reflexivity).
      destruct (w_data a2 <? 32768) eqn:Ev.
      - (* msb clear: BRzp taken, 8 instructions *)
        apply Z.ltb_lt in Ev. exists 8%nat.
        rewrite run_S. erewrite step_ADD; [ | rng | acc | osw Hos | dec ].
        norm. cbn [operand_of]. ceval (to_u16 0). rewrite w_add_zero. rewrite H3, Hk3.
        rewrite run_S. erewrite step_BR; [ | rng | acc | osw Hos | dec ]. norm.
        rewrite run_S. erewrite step_ADD; [ | rng | acc | osw Hos | dec ]. norm. cbn [operand_of]. regs.
        rewrite run_S. erewrite step_ADD; [ | rng | acc | osw Hos | dec ]. norm. cbn [operand_of]. ceval (to_u16 0). rewrite w_add_zero.
        rewrite run_S. erewrite step_BR; [ | rng | acc | osw Hos | dec ]. norm. rewrite cc_norm_cc_of.
        replace (negb (Z.land 3 (cc_of (w_data a2)) =? 0)) with true
          by (destruct (cc_of_nonneg (w_data a2)) as [-> | ->]; [lia | reflexivity | reflexivity]).
        cbv iota.
        rewrite run_S. erewrite step_ADD; [ | rng | acc | osw Hos | dec ]. norm. cbn [operand_of]. regs.
        rewrite run_S. erewrite step_ADD; [ | rng | acc | osw Hos | dec ]. norm. cbn [operand_of]. ceval (to_u16 (-1)).
        rewrite run_S. erewrite step_BR; [ | rng | acc | osw Hos | dec ]. norm. rewrite cc_norm_cc_of.
        replace (negb (Z.land 7 (cc_of (w_data (w_add a3 (new_init 65535)))) =? 0)) with true
          by (destruct (cc_of_cases (w_data (w_add a3 (new_init 65535)))) as [-> | [-> | ->]]; reflexivity).
        cbv iota. cbn [run]. eexists _, _, _, _, _, _. split; [reflexivity|].
        split; [|split; [exact Hb2 | exact Hb3]].
        rewrite w_add_data_gen by assumption. subst hv. unfold shl1. cbn [fst].
        replace (w_data a2 <? 32768) with true by (symmetry; apply Z.ltb_lt; lia). reflexivity.
      - (* msb set: 9 instructions *)
        apply Z.ltb_ge in Ev. exists 9%nat.
        rewrite run_S. erewrite step_ADD; [ | rng | acc | osw Hos | dec ].
        norm. cbn [operand_of]. ceval (to_u16 0). rewrite w_add_zero. rewrite H3, Hk3.
        rewrite run_S. erewrite step_BR; [ | rng | acc | osw Hos | dec ]. norm.
        rewrite run_S. erewrite step_ADD; [ | rng | acc | osw Hos | dec ]. norm. cbn [operand_of]. regs.
        rewrite run_S. erewrite step_ADD; [ | rng | acc | osw Hos | dec ]. norm. cbn [operand_of]. ceval (to_u16 0). rewrite w_add_zero.
        rewrite run_S. erewrite step_BR; [ | rng | acc | osw Hos | dec ]. norm. rewrite cc_norm_cc_of.
        rewrite (cc_of_neg (w_data a2)) by lia. cev.
        rewrite run_S. erewrite step_ADD; [ | rng | acc | osw Hos | dec ]. norm. cbn [operand_of]. ceval (to_u16 1).
        rewrite run_S. erewrite step_ADD; [ | rng | acc | osw Hos | dec ]. norm. cbn [operand_of]. regs.
        rewrite run_S. erewrite step_ADD; [ | rng | acc | osw Hos | dec ]. norm. cbn [operand_of]. ceval (to_u16 (-1)).
        rewrite run_S. erewrite step_BR; [ | rng | acc | osw Hos | dec ]. norm. rewrite cc_norm_cc_of.
        replace (negb (Z.land 7 (cc_of (w_data (w_add a3 (new_init 65535)))) =? 0)) with true
          by (destruct (cc_of_cases (w_data (w_add a3 (new_init 65535)))) as [-> | [-> | ->]]; reflexivity).
        cbv iota. cbn [run]. eexists _, _, _, _, _, _. split; [reflexivity|].
        split; [|split; [exact Hb2 | exact Hb3]].
        rewrite w_add_data_gen; [ | rewrite w_add_data_gen by assumption; apply wrap16_range | cbn; lia].
        rewrite w_add_data_gen by assumption. subst hv. unfold shl1. cbn [fst w_data new_init].
        replace (w_data a2 <? 32768) with false by (symmetry; apply Z.ltb_ge; lia). reflexivity. }
    destruct Hround as (n1 & ins1 & obs1 & b0 & b2 & b3 & c1 & Hrun1 & Hb0 & Hb2 & Hb3).
    destruct (shl1_range (w_data a0, w_data a2)) as [R1 R2]. fold hv in R1, R2.
    destruct (IH (t + n1)%nat m b0 p b2 b3 r4 r5 r6 r7 P c1 ssp fno frs ins1 false obs1 mcr q buf Hos HP ltac:(lia))
      as (n2 & ins2 & obs2 & a0' & a2' & a3' & c2 & Hrun2 & Hres).
    { rewrite Hb0. exact R1. } { rewrite Hb2. exact R2. } { exact Hb3. }
    exists (n1 + n2)%nat, ins2, obs2, a0', a2', a3', c2. split.
    + apply (run_ok_add sc t n1 n2 _ _ _ Hrun1 Hrun2).
    + rewrite Hres, Hb0, Hb2. rewrite iter_succ_r. fold hv. destruct hv. reflexivity.
Qed.

Definition ds_always_free (sc : sched) : Prop := forall t, ds_locked_at sc t = false.
Lemma land_255 v : Z.land v 255 = v mod 256.
Proof. change 255 with (Z.ones 8). rewrite Z.land_ones by lia. reflexivity. Qed.

(* x027F .. x0291: one word whose low byte is non-zero: the low byte is printed, R0 := high byte, CC set from it *)
Lemma putsp_word K sc t m a0 p a2 a3 r4 r5 r7 P c ssp fno frs ins pf obs mcr q buf x v :
  os_mem m -> psr_privileged P = true -> 0 <= fno -> ds_always_free sc ->
  OS_END + 3 <= x <= USER_START ->
  0 <= w_data p < IO_START -> w_data (mget m (w_data p)) = v -> 0 <= v < 65536 -> v mod 256 <> 0 ->
  exists n m' ins' obs' a0' a2' a3',
    run sc t n (mk K m [a0; p; a2; a3; r4; r5; new_init x; r7] 639 (psr_set_cc P c) ssp fno frs ins pf obs mcr q buf) =
    (mk K m' [a0'; p; a2'; a3'; r4; r5; new_init x; r7] 657 (psr_set_cc P (cc_of (v / 256))) ssp fno frs ins' false obs' mcr q (buf ++ [v mod 256]), OOk)
    /\ w_data a0' = v / 256 /\ mem_eq_outside (x - 3) x m m'.
Proof.
  intros Hos HP Hfno Hfree Hx Hp Hv Hv16 Hlo.
  assert (Hlo' : 0 < v mod 256 < 256) by (pose proof (Z.mod_pos_bound v 256 ltac:(lia)); lia).
  (* x027F LDR R2,R1,#0 ; x0280 LD R0,MASK ; x0281 AND R0,R2,R0 ; x0282 BRz *)
  assert (Hpre : exists ins1 obs1,
    run sc t 4 (mk K m [a0; p; a2; a3; r4; r5; new_init x; r7] 639 (psr_set_cc P c) ssp fno frs ins pf obs mcr q buf) =
    (mk K m [w_and (mget m (w_data p)) (new_init 255); p; mget m (w_data p); a3; r4; r5; new_init x; r7] 643 (psr_set_cc P 1) ssp fno frs ins1 false obs1 mcr q buf, OOk)).
  { rewrite run_S. erewrite step_LDR; [ | rng | acc | osw Hos | dec | | ]; regs; rewrite ?Z.add_0_r, ?(wrap16_small (w_data p)) by rng; [ | rng | acc]. norm.
    rewrite run_S. erewrite step_LD; [ | rng | acc | osw Hos | dec | vm_compute; reflexivity | acc ]. norm. osr Hos 670.
    rewrite run_S. erewrite step_AND; [ | rng | acc | osw Hos | dec ]. norm. cbn [operand_of]. regs.
    rewrite run_S. erewrite step_BR; [ | rng | acc | osw Hos | dec ]. norm.
    replace (w_data (w_and (mget m (w_data p)) (new_init 255))) with (v mod 256) by (unfold w_and; cbn [w_data new_init]; rewrite Hv, land_255; reflexivity).
    rewrite (cc_of_pos (v mod 256)) by lia. cev.
    cbn [run]. eexists _, _. reflexivity. }
  destruct Hpre as (ins1 & obs1 & Hrun1).
  (* x0283 PUTC *)
  destruct (putc_call K sc (t + 4)%nat 0 false m (w_and (mget m (w_data p)) (new_init 255)) p (mget m (w_data p)) a3 r4 r5 (new_init x) r7 643 (psr_set_cc P 1) ssp fno frs
              ins1 false obs1 mcr q buf x) as (m2 & ins2 & obs2 & Hrun2 & Hmeo2 & _).
  { replace (psr_privileged (psr_set_cc P 1)) with true by (symmetry; priv). reflexivity. }
  { exact Hx. } { exact Hos. } { rng. } { acc. } { osw Hos. } { exact Hfno. }
  { intros i Hi. lia. } { apply Hfree. } { apply Hfree. }
  change (2 * 0 + 9)%nat with 9%nat in Hrun2.
  assert (Hos2 : os_mem m2) by (apply (meo_os (x - 3) x m); [rng | exact Hos | exact Hmeo2]).
  assert (Hout : w_data (w_and (mget m (w_data p)) (new_init 255)) mod 256 = v mod 256).
  { unfold w_and. cbn [w_data new_init]. rewrite Hv, land_255. apply Z.mod_mod. lia. }
  rewrite Hout in Hrun2. cev.
  (* x0284 AND R0,R0,#0 ; x0285 AND R3,R3,#0 ; x0286 ADD R3,R3,#8 *)
  assert (Hmid : exists ins3 obs3 b0 b3 c3,
    run sc (t + (4 + 9)) 3 (mk K m2 [w_and (mget m (w_data p)) (new_init 255); p; mget m (w_data p); a3; r4; r5; new_init x; r7] 644 (psr_set_cc P 1) ssp fno frs ins2 false obs2 mcr q (buf ++ [v mod 256])) =
    (mk K m2 [b0; p; mget m (w_data p); b3; r4; r5; new_init x; r7] 647 (psr_set_cc P c3) ssp fno frs ins3 false obs3 mcr q (buf ++ [v mod 256]), OOk)
    /\ w_data b0 = 0 /\ w_data b3 = 8).
  { rewrite run_S. erewrite step_AND; [ | rng | acc | osw Hos2 | dec ]. norm. cbn [operand_of]. ceval (to_u16 0).
    rewrite run_S. erewrite step_AND; [ | rng | acc | osw Hos2 | dec ]. norm. cbn [operand_of]. ceval (to_u16 0).
    rewrite run_S. erewrite step_ADD; [ | rng | acc | osw Hos2 | dec ]. norm. cbn [operand_of]. ceval (to_u16 8).
    cbn [run]. eexists _, _, _, _, _. split; [reflexivity|]. split.
    - unfold w_and. cbn [w_data new_init]. apply Z.land_0_r.
    - rewrite w_add_data_gen; [ | unfold w_and; cbn [w_data new_init]; rewrite Z.land_0_r; lia | cbn; lia].
      unfold w_and. cbn [w_data new_init]. rewrite Z.land_0_r. reflexivity. }
  destruct Hmid as (ins3 & obs3 & b0 & b3 & c3 & Hrun3 & Hb0 & Hb3).
  (* the eight rounds *)
  destruct (putsp_shift K sc 8 (t + (4 + 9 + 3))%nat m2 b0 p (mget m (w_data p)) b3 r4 r5 (new_init x) r7 P c3 ssp fno frs ins3 false obs3 mcr q (buf ++ [v mod 256])
              Hos2 HP ltac:(lia)) as (n4 & ins4 & obs4 & a0' & a2' & a3' & c4 & Hrun4 & Hres).
  { rewrite Hb0. lia. } { rewrite Hv. exact Hv16. } { rewrite Hb3. reflexivity. }
  rewrite Hb0, Hv, shl8_high_eq in Hres by exact Hv16.
  (* x0290 ADD R0,R0,#0 *)
  assert (Hlast : exists ins5 obs5,
    run sc (t + (4 + 9 + 3 + n4)) 1 (mk K m2 [a0'; p; a2'; a3'; r4; r5; new_init x; r7] 656 (psr_set_cc P c4) ssp fno frs ins4 false obs4 mcr q (buf ++ [v mod 256])) =
    (mk K m2 [a0'; p; a2'; a3'; r4; r5; new_init x; r7] 657 (psr_set_cc P (cc_of (v / 256))) ssp fno frs ins5 false obs5 mcr q (buf ++ [v mod 256]), OOk)).
  { rewrite run_S. erewrite step_ADD; [ | rng | acc | osw Hos2 | dec ]. norm. cbn [operand_of]. ceval (to_u16 0). rewrite w_add_zero. rewrite Hres.
    cbn [run]. eexists _, _. reflexivity. }
  destruct Hlast as (ins5 & obs5 & Hrun5).
  exists (4 + 9 + 3 + n4 + 1)%nat, m2, ins5, obs5, a0', a2', a3'. split; [|split; [exact Hres | exact Hmeo2]].
  eapply run_ok_add; [|exact Hrun5].
  eapply run_ok_add; [|exact Hrun4].
  eapply run_ok_add; [|exact Hrun3].
  eapply run_ok_add; [exact Hrun1 | exact Hrun2].
Qed.

(* ---- packed strings ---- *)
Fixpoint pstr_at (m : mem) (a : Z) (ws : list Z) (z : Z) : Prop :=
  match ws with
  | [] => w_data (mget m a) = z
  | w :: r => w_data (mget m a) = w /\ pstr_at m (a + 1) r z
  end.
(* full words: both bytes non-zero; terminator: low byte zero, or high byte zero (odd length) *)
Definition full_ok (ws : list Z) : Prop := Forall (fun w => 0 <= w < 65536 /\ w mod 256 <> 0 /\ w / 256 <> 0) ws.
Definition term_ok (z : Z) : Prop := 0 <= z < 65536 /\ (z mod 256 = 0 \/ z / 256 = 0).
Definition packed_out (ws : list Z) (z : Z) : list Z :=
  flat_map (fun w => [w mod 256; w / 256]) ws ++ (if z mod 256 =? 0 then [] else [z mod 256]).

Lemma pstr_at_meo lo hi m m' ws z : forall a,
  mem_eq_outside lo hi m m' -> 0 <= a -> a + Z.of_nat (length ws) < IO_START ->
  (a + Z.of_nat (length ws) < lo \/ hi <= a) ->
  pstr_at m a ws z -> pstr_at m' a ws z.
Proof.
  induction ws as [|c r IH]; intros a Hm Ha Hb Hd Hs; cbn [pstr_at length] in *.
  - rewrite Hm; [exact Hs | rng | rng].
  - destruct Hs as [H1 H2]. split.
    + rewrite Hm; [exact H1 | rng | rng].
    + apply IH; [exact Hm | lia | rng | rng | exact H2].
Qed.

Lemma high_lt_256 v : 0 <= v < 65536 -> 0 <= v / 256 < 256.
Proof. intros H. split; [apply Z.div_pos; lia | apply Z.div_lt_upper_bound; lia]. Qed.

(* PUTSP_LOOP (x027F .. x0294) *)
Lemma putsp_loop K sc ws : forall t m a0 p a2 a3 r4 r5 r7 P c ssp fno frs ins pf obs mcr q buf x z,
  os_mem m -> psr_privileged P = true -> 0 <= fno -> ds_always_free sc ->
  OS_END + 3 <= x <= USER_START ->
  full_ok ws -> term_ok z -> pstr_at m (w_data p) ws z ->
  0 <= w_data p -> w_data p + Z.of_nat (length ws) < IO_START ->
  (w_data p + Z.of_nat (length ws) < x - 3 \/ x <= w_data p) ->
  exists n m' ins' obs' a0' p' a2' a3' c',
    run sc t n (mk K m [a0; p; a2; a3; r4; r5; new_init x; r7] 639 (psr_set_cc P c) ssp fno frs ins pf obs mcr q buf) =
    (mk K m' [a0'; p'; a2'; a3'; r4; r5; new_init x; r7] 661 (psr_set_cc P c') ssp fno frs ins' false obs' mcr q (buf ++ packed_out ws z), OOk)
    /\ mem_eq_outside (x - 3) x m m'.
Proof.
  induction ws as [|w ws IH]; intros t m a0 p a2 a3 r4 r5 r7 P c ssp fno frs ins pf obs mcr q buf x z Hos HP Hfno Hfree Hx Hfull Hterm Hstr Hp0 Hp1 Hdis.
  - cbn [pstr_at length] in *. destruct Hterm as [Hz16 Hz]. unfold packed_out. cbn [flat_map app].
    destruct (z mod 256 =? 0) eqn:Ez.
    + (* low byte zero: stop at once *)
      apply Z.eqb_eq in Ez. exists 4%nat.
      rewrite run_S. erewrite step_LDR; [ | rng | acc | osw Hos | dec | | ]; regs; rewrite ?Z.add_0_r, ?(wrap16_small (w_data p)) by rng; [ | rng | acc]. norm.
      rewrite run_S. erewrite step_LD; [ | rng | acc | osw Hos | dec | vm_compute; reflexivity | acc ]. norm. osr Hos 670.
      rewrite run_S. erewrite step_AND; [ | rng | acc | osw Hos | dec ]. norm. cbn [operand_of]. regs.
      rewrite run_S. erewrite step_BR; [ | rng | acc | osw Hos | dec ]. norm.
      replace (w_data (w_and (mget m (w_data p)) (new_init 255))) with 0 by (unfold w_and; cbn [w_data new_init]; rewrite Hstr, land_255; symmetry; exact Ez).
      cev. cbn [run]. rewrite app_nil_r. eexists _, _, _, _, _, _, _, _. split; [reflexivity | apply meo_refl].
    + (* odd length: the low byte is printed, the high byte is zero *)
      apply Z.eqb_neq in Ez. assert (Hhi : z / 256 = 0) by (destruct Hz; [contradiction | assumption]).
      destruct (putsp_word K sc t m a0 p a2 a3 r4 r5 r7 P c ssp fno frs ins pf obs mcr q buf x z Hos HP Hfno Hfree Hx ltac:(rng) Hstr Hz16 Ez)
        as (n1 & m1 & ins1 & obs1 & b0 & b2 & b3 & Hrun1 & Hb0 & Hmeo1).
      assert (Hos1 : os_mem m1) by (apply (meo_os (x - 3) x m); [rng | exact Hos | exact Hmeo1]).
      rewrite Hhi in Hrun1. exists (n1 + 1)%nat.
      assert (Hlast : exists ins2 obs2, run sc (t + n1) 1 (mk K m1 [b0; p; b2; b3; r4; r5; new_init x; r7] 657 (psr_set_cc P (cc_of 0)) ssp fno frs ins1 false obs1 mcr q (buf ++ [z mod 256])) =
                (mk K m1 [b0; p; b2; b3; r4; r5; new_init x; r7] 661 (psr_set_cc P (cc_of 0)) ssp fno frs ins2 false obs2 mcr q (buf ++ [z mod 256]), OOk)).
      { rewrite run_S. erewrite step_BR; [ | rng | acc | osw Hos1 | dec ]. norm. cbn [run]. eexists _, _. reflexivity. }
      destruct Hlast as (ins2 & obs2 & Hrun2).
      eexists _, _, _, _, _, _, _, _. split; [eapply run_ok_add; [exact Hrun1 | exact Hrun2] | exact Hmeo1].
  - cbn [pstr_at length] in *. destruct Hstr as [Hw Hstr].
    assert (Hw3 : 0 <= w < 65536 /\ w mod 256 <> 0 /\ w / 256 <> 0) by (inversion Hfull; assumption).
    assert (Hfull' : full_ok ws) by (inversion Hfull; assumption).
    destruct Hw3 as (Hw16 & Hwlo & Hwhi).
    destruct (putsp_word K sc t m a0 p a2 a3 r4 r5 r7 P c ssp fno frs ins pf obs mcr q buf x w Hos HP Hfno Hfree Hx ltac:(rng) Hw Hw16 Hwlo)
      as (n1 & m1 & ins1 & obs1 & b0 & b2 & b3 & Hrun1 & Hb0 & Hmeo1).
    assert (Hos1 : os_mem m1) by (apply (meo_os (x - 3) x m); [rng | exact Hos | exact Hmeo1]).
    pose proof (high_lt_256 w Hw16) as Hh.
    (* x0291 BRz (not taken) *)
    assert (Hbr : exists ins2 obs2, run sc (t + n1) 1 (mk K m1 [b0; p; b2; b3; r4; r5; new_init x; r7] 657 (psr_set_cc P (cc_of (w / 256))) ssp fno frs ins1 false obs1 mcr q (buf ++ [w mod 256])) =
                (mk K m1 [b0; p; b2; b3; r4; r5; new_init x; r7] 658 (psr_set_cc P (cc_of (w / 256))) ssp fno frs ins2 false obs2 mcr q (buf ++ [w mod 256]), OOk)).
    { rewrite run_S. erewrite step_BR; [ | rng | acc | osw Hos1 | dec ]. norm. rewrite cc_norm_cc_of.
      rewrite (cc_of_pos (w / 256)) by lia. cev. cbn [run]. eexists _, _. reflexivity. }
    destruct Hbr as (ins2 & obs2 & Hrun2).
    (* x0292 PUTC *)
    destruct (putc_call K sc (t + (n1 + 1))%nat 0 false m1 b0 p b2 b3 r4 r5 (new_init x) r7 658 (psr_set_cc P (cc_of (w / 256))) ssp fno frs
                ins2 false obs2 mcr q (buf ++ [w mod 256]) x) as (m3 & ins3 & obs3 & Hrun3 & Hmeo3 & _).
    { replace (psr_privileged (psr_set_cc P (cc_of (w / 256)))) with true by (symmetry; priv). reflexivity. }
    { exact Hx. } { exact Hos1. } { rng. } { acc. } { osw Hos1. } { exact Hfno. }
    { intros i Hi. lia. } { apply Hfree. } { apply Hfree. }
    change (2 * 0 + 9)%nat with 9%nat in Hrun3. rewrite Hb0 in Hrun3. rewrite (Z.mod_small (w / 256) 256) in Hrun3 by lia. cev.
    assert (Hmeo3' : mem_eq_outside (x - 3) x m m3) by (apply (meo_trans _ _ m m1 m3); assumption).
    assert (Hos3 : os_mem m3) by (apply (meo_os (x - 3) x m); [rng | exact Hos | exact Hmeo3']).
    (* x0293 ADD R1,R1,#1 ; x0294 BR PUTSP_LOOP *)
    assert (Hpd : w_data (w_add p (new_init 1)) = w_data p + 1).
    { rewrite w_add_data by rng. apply wrap16_small. rng. }
    assert (Hnext : exists ins4 obs4 c4, run sc (t + (n1 + 1 + 9)) 2 (mk K m3 [b0; p; b2; b3; r4; r5; new_init x; r7] 659 (psr_set_cc P (cc_of (w / 256))) ssp fno frs ins3 false obs3 mcr q (buf ++ [w mod 256] ++ [w / 256])) =
                (mk K m3 [b0; w_add p (new_init 1); b2; b3; r4; r5; new_init x; r7] 639 (psr_set_cc P c4) ssp fno frs ins4 false obs4 mcr q (buf ++ [w mod 256] ++ [w / 256]), OOk)).
    { rewrite run_S. erewrite step_ADD; [ | rng | acc | osw Hos3 | dec ]. norm. cbn [operand_of]. ceval (to_u16 1).
      rewrite run_S. erewrite step_BR; [ | rng | acc | osw Hos3 | dec ]. norm. rewrite cc_norm_cc_of.
      replace (negb (Z.land 7 (cc_of (w_data (w_add p (new_init 1)))) =? 0)) with true
        by (destruct (cc_of_cases (w_data (w_add p (new_init 1)))) as [-> | [-> | ->]]; reflexivity).
      cbv iota. cbn [run]. eexists _, _, _. reflexivity. }
    destruct Hnext as (ins4 & obs4 & c4 & Hrun4).
    rewrite <- app_assoc in Hrun3.
    destruct (IH (t + (n1 + 1 + 9 + 2))%nat m3 b0 (w_add p (new_init 1)) b2 b3 r4 r5 r7 P c4 ssp fno frs ins4 false obs4 mcr q (buf ++ [w mod 256] ++ [w / 256]) x z
                 Hos3 HP Hfno Hfree Hx Hfull' Hterm)
      as (n5 & m5 & ins5 & obs5 & a05 & p5 & a25 & a35 & c5 & Hrun5 & Hmeo5).
    { rewrite Hpd. apply (pstr_at_meo (x - 3) x m m3); [exact Hmeo3' | lia | rng | rng | exact Hstr]. }
    { rewrite Hpd. lia. } { rewrite Hpd. rng. } { rewrite Hpd. rng. }
    exists (n1 + 1 + 9 + 2 + n5)%nat, m5, ins5, obs5, a05, p5, a25, a35, c5. split.
    + eapply run_ok_add; [|].
      { eapply run_ok_add; [|exact Hrun4]. eapply run_ok_add; [|exact Hrun3]. eapply run_ok_add; [exact Hrun1 | exact Hrun2]. }
      unfold packed_out in *. cbn [flat_map]. rewrite <- !app_assoc in *. cbn [app] in *. exact Hrun5.
    + apply (meo_trans _ _ m m3 m5); assumption.
Qed.

Ltac push_reg Hcur Hnew mnew a b :=
  rewrite run_S; erewrite step_ADD; [ | rng | acc | osw Hcur | dec ];
  norm; cbn [operand_of]; ceval (to_u16 (-1)); rewrite w_add_init by rng;
  replace (wrap16 (a + 65535)) with b by (unfold wrap16; rng);
  cbn [w_data new_init]; norm;
  rewrite run_S; erewrite step_STR; [ | rng | acc | osw Hcur | dec | | ]; regs; cbn [w_data new_init]; rewrite ?Z.add_0_r, ?(wrap16_small b) by rng; [ | rng | acc];
  norm; newmem mnew Hnew Hcur.
Ltac pop_reg Hos Hslot a b :=
  rewrite run_S; erewrite step_LDR; [ | rng | acc | osw Hos | dec | | ]; regs; cbn [w_data new_init]; rewrite ?Z.add_0_r, ?(wrap16_small a) by rng; [ | rng | acc];
  rewrite Hslot; norm;
  rewrite run_S; erewrite step_ADD; [ | rng | acc | osw Hos | dec ];
  norm; cbn [operand_of]; ceval (to_u16 1); rewrite w_add_init by rng;
  replace (wrap16 (a + 1)) with b by (unfold wrap16; rng); cbn [w_data new_init]; norm.

(* PUTSP: the whole call with the display free *)
Lemma putsp_call K sc t ws z m r0 r1 r2 r3 r4 r5 r6 r7 pc psr ssp fno frs ins pf obs mcr q buf sp :
  (if psr_privileged psr then r6 else ssp) = new_init sp ->
  OS_END + 9 <= sp <= USER_START ->
  os_mem m -> 0 <= pc < IO_START -> may_access K psr pc = true -> mget m pc = new_init 61476 -> 0 <= fno ->
  full_ok ws -> term_ok z -> pstr_at m (w_data r0) ws z ->
  0 <= w_data r0 -> w_data r0 + Z.of_nat (length ws) < IO_START ->
  (w_data r0 + Z.of_nat (length ws) < sp - 9 \/ sp <= w_data r0) ->
  ds_always_free sc ->
  exists n m' ins' obs',
    run sc t n (mk K m [r0; r1; r2; r3; r4; r5; r6; r7] pc psr ssp fno frs ins pf obs mcr q buf) =
    (mk K m' [r0; r1; r2; r3; r4; r5; r6; r7] (wrap16 (pc + 1)) psr ssp fno frs ins' false obs' mcr q (buf ++ packed_out ws z), OOk)
    /\ mem_eq_outside (sp - 9) sp m m'.
Proof.
  intros Hsp Hstk Hos Hpc Hacc Hw Hfno Hfull Hterm Hstr Ha0 Ha1 Hdis Hfree.
  (* prologue: 10 instructions *)
  assert (Hpro : exists m4 ins4 obs4 c4,
    run sc t 10 (mk K m [r0; r1; r2; r3; r4; r5; r6; r7] pc psr ssp fno frs ins pf obs mcr q buf) =
    (mk K m4 [r0; r0; r2; r3; r4; r5; new_init (sp - 6); r7] 639 (psr_set_cc (psr_set_privileged psr true) c4)
        (if psr_privileged psr then ssp else r6) (fno + 1)
        (push_frs FTrap (k_srd K) [r0; r1; r2; r3; r4; r5; new_init (sp - 2); r7]
           (mset (mset m (sp - 1) (new_init psr)) (sp - 2) (new_init (wrap16 (pc + 1)))) (wrap16 (wrap16 (pc + 1) - 1)) 36 frs)
        ins4 false obs4 mcr q buf, OOk)
    /\ os_mem m4 /\ mem_eq_outside (sp - 9) sp m m4
    /\ mget m4 (sp - 1) = new_init psr /\ mget m4 (sp - 2) = new_init (wrap16 (pc + 1))
    /\ mget m4 (sp - 3) = r0 /\ mget m4 (sp - 4) = r1 /\ mget m4 (sp - 5) = r2 /\ mget m4 (sp - 6) = r3).
  { rewrite run_S.
    erewrite step_TRAP; [ | rng | exact Hacc | exact Hw | dec | destruct (k_real K); reflexivity | | | rng ].
    2,3: rewrite Hsp; cbn [w_data new_init]; rewrite wrap16_small by rng; rng.
    rewrite Hsp. cbn [w_data new_init]. rewrite w_sub_init by lia.
    rewrite !(wrap16_small (sp - 1)), !(wrap16_small (sp - 2)) by rng.
    norm. mg. osr Hos 36. cbn [w_data new_init].
    newmem m1 Hos1 Hos.
    set (P := psr_set_privileged psr true). assert (HP : psr_privileged P = true) by apply psr_priv_set.
    set (frs1 := push_frs _ _ _ _ _ _ _). set (ssp1 := if psr_privileged psr then ssp else r6).
    push_reg Hos1 Hos2 m2 (sp - 2) (sp - 3).
    push_reg Hos2 Hos3 m3 (sp - 3) (sp - 4).
    push_reg Hos3 Hos4 m4 (sp - 4) (sp - 5).
    push_reg Hos4 Hos5 m5 (sp - 5) (sp - 6).
    rewrite run_S. erewrite step_ADD; [ | rng | acc | osw Hos5 | dec ].
    norm. cbn [operand_of]. ceval (to_u16 0). rewrite w_add_zero. cbn [run].
    exists m5. eexists _, _, _. split; [reflexivity|]. split; [exact Hos5|].
    subst m5 m4 m3 m2 m1. repeat split; try (mg; reflexivity).
    intros a Ha Hn. mg. reflexivity. }
  destruct Hpro as (m4 & ins4 & obs4 & c4 & Hrun4 & Hos4 & Hmeo4 & Hs1 & Hs2 & Hs3 & Hs4 & Hs5 & Hs6).
  set (P := psr_set_privileged psr true) in *. assert (HP : psr_privileged P = true) by apply psr_priv_set.
  set (frs1 := push_frs _ _ _ _ _ _ _) in *. set (ssp1 := if psr_privileged psr then ssp else r6) in *.
  destruct (putsp_loop K sc ws (t + 10)%nat m4 r0 r0 r2 r3 r4 r5 r7 P c4 ssp1 (fno + 1) frs1 ins4 false obs4 mcr q buf (sp - 6) z
              Hos4 HP ltac:(lia) Hfree ltac:(rng) Hfull Hterm)
    as (n5 & m5 & ins5 & obs5 & a05 & p5 & a25 & a35 & c5 & Hrun5 & Hmeo5).
  { apply (pstr_at_meo (sp - 9) sp m m4); [exact Hmeo4 | lia | rng | rng | exact Hstr]. }
  { exact Ha0. } { exact Ha1. } { rng. }
  replace (sp - 6 - 3) with (sp - 9) in Hmeo5 by lia.
  assert (Hmeo5' : mem_eq_outside (sp - 9) sp m m5).
  { apply (meo_trans _ _ m m4 m5); [exact Hmeo4 | apply (meo_weaken (sp - 9) (sp - 6)); [lia | lia | exact Hmeo5]]. }
  assert (Hos5 : os_mem m5) by (apply (meo_os (sp - 9) sp m); [rng | exact Hos | exact Hmeo5']).
  assert (Ht1 : mget m5 (sp - 1) = new_init psr) by (rewrite Hmeo5 by rng; exact Hs1).
  assert (Ht2 : mget m5 (sp - 2) = new_init (wrap16 (pc + 1))) by (rewrite Hmeo5 by rng; exact Hs2).
  assert (Ht3 : mget m5 (sp - 3) = r0) by (rewrite Hmeo5 by rng; exact Hs3).
  assert (Ht4 : mget m5 (sp - 4) = r1) by (rewrite Hmeo5 by rng; exact Hs4).
  assert (Ht5 : mget m5 (sp - 5) = r2) by (rewrite Hmeo5 by rng; exact Hs5).
  assert (Ht6 : mget m5 (sp - 6) = r3) by (rewrite Hmeo5 by rng; exact Hs6).
  assert (Hfr : pop_frs frs1 = frs) by (subst frs1; apply pop_push_frs).
  (* epilogue: 9 instructions *)
  assert (Hepi : exists ins6 obs6,
    run sc (t + (10 + n5)) 9 (mk K m5 [a05; p5; a25; a35; r4; r5; new_init (sp - 6); r7] 661 (psr_set_cc P c5) ssp1 (fno + 1) frs1 ins5 false obs5 mcr q (buf ++ packed_out ws z)) =
    (mk K m5 [r0; r1; r2; r3; r4; r5; r6; r7] (wrap16 (pc + 1)) psr ssp fno frs ins6 false obs6 mcr q (buf ++ packed_out ws z), OOk)).
  { pop_reg Hos5 Ht6 (sp - 6) (sp - 5).
    pop_reg Hos5 Ht5 (sp - 5) (sp - 4).
    pop_reg Hos5 Ht4 (sp - 4) (sp - 3).
    pop_reg Hos5 Ht3 (sp - 3) (sp - 2).
    rewrite run_S. erewrite step_RTI; [ | rng | acc | osw Hos5 | dec | priv | | ]; cbn [w_data new_init]; [ | rng | rewrite wrap16_small by rng; rng].
    replace (wrap16 (sp - 2 + 1)) with (sp - 1) by (unfold wrap16; rng).
    rewrite Ht1, Ht2. cbn [w_data new_init].
    rewrite w_add_init by rng. replace (wrap16 (sp - 2 + 2)) with sp by (unfold wrap16; rng).
    rewrite Hfr. replace (Z.max 0 (fno + 1 - 1)) with fno by lia.
    cbn [run]. subst ssp1.
    destruct (psr_privileged psr); [rewrite <- Hsp | rewrite <- Hsp]; (eexists _, _; reflexivity). }
  destruct Hepi as (ins6 & obs6 & Hrun6).
  exists (10 + n5 + 9)%nat, m5, ins6, obs6. split; [|exact Hmeo5'].
  eapply run_ok_add; [|exact Hrun6]. eapply run_ok_add; [exact Hrun4 | exact Hrun5].
Qed.
