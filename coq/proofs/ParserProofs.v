(* ParserProofs.v — C04: the model of parse_ast never panics (repaired code) and every error span
   lies inside the input; the model of the pinned lex_str_literal does panic. *)
From Coq Require Import ZArith List Bool Lia.
From Model Require Import Tree Text Bits Offset Instr AsmAst Lexer Parser.
From Proofs Require Import LexerProofs.
Import ListNotations.
Open Scope Z_scope.

(* ---------- well-formed parser positions ---------- *)
Definition wf (hi : Z) (p : ppos) : Prop :=
  Forall (fun t : tok => span_in 0 hi (snd t)) (fst p) /\ span_in 0 hi (snd p).

Definition res_ok {A} (hi : Z) (Q : A -> Prop) (r : pres A) : Prop :=
  match r with POk a => Q a | PErr _ sp => span_in 0 hi sp | PPanic => False end.

Lemma res_ok_bind {A B} hi (Q : A -> Prop) (R : B -> Prop) (r : pres A) (f : A -> pres B) :
  res_ok hi Q r -> (forall a, Q a -> res_ok hi R (f a)) -> res_ok hi R (pbind r f).
Proof. destruct r; cbn [res_ok pbind]; intros H Hf; [apply Hf; exact H|exact H|exact H]. Qed.

Lemma res_ok_weaken {A} hi (Q R : A -> Prop) r : res_ok hi Q r -> (forall a, Q a -> R a) -> res_ok hi R r.
Proof. destruct r; cbn [res_ok]; intros H HQ; [apply HQ; exact H|exact H|exact H]. Qed.

(* position after a component: well formed, and not longer (le) / shorter (lt) than before *)
Definition q_le {A} hi (p : ppos) (x : A * ppos) : Prop :=
  wf hi (snd x) /\ (length (fst (snd x)) <= length (fst p))%nat.
Definition q_lt {A} hi (p : ppos) (x : A * ppos) : Prop :=
  wf hi (snd x) /\ (length (fst (snd x)) < length (fst p))%nat.
Definition qp_lt hi (p p' : ppos) : Prop := wf hi p' /\ (length (fst p') < length (fst p))%nat.
Definition qp_le hi (p p' : ppos) : Prop := wf hi p' /\ (length (fst p') <= length (fst p))%nat.

Lemma wf_cursor hi p : wf hi p -> span_in 0 hi (cursor (fst p) (snd p)).
Proof.
  intros [Hts Hprev]. destruct p as [ts prev]. cbn [fst snd] in *. destruct ts as [|[t sp] ts]; cbn [cursor]; [exact Hprev|].
  inversion Hts; subst. assumption.
Qed.
Lemma wf_tail hi t sp ts prev : wf hi ((t, sp) :: ts, prev) -> wf hi (ts, sp) /\ span_in 0 hi sp.
Proof. intros [Hts _]. cbn [fst snd] in *. inversion Hts; subst. cbn [snd] in *. split; [split; assumption|assumption]. Qed.

(* ---------- offsets never panic for the widths the parser uses ---------- *)
Lemma off_res_new_s hi n v sp : n_ok n = true -> span_in 0 hi sp -> res_ok hi (fun _ => True) (off_res (new_s n v) sp).
Proof. intros Hn Hs. unfold new_s. rewrite Hn. destruct (v =? truncate_s v n); cbn [off_res res_ok]; [exact Logic.I|exact Hs]. Qed.
Lemma off_res_new_u hi n v sp : n_ok n = true -> span_in 0 hi sp -> res_ok hi (fun _ => True) (off_res (new_u n v) sp).
Proof. intros Hn Hs. unfold new_u. rewrite Hn. destruct (v =? truncate_u v n); cbn [off_res res_ok]; [exact Logic.I|exact Hs]. Qed.
Lemma off_res_trunc_s hi n v sp : n_ok n = true -> res_ok hi (fun _ => True) (off_res (new_trunc_s n v) sp).
Proof. intros Hn. unfold new_trunc_s. rewrite Hn. exact Logic.I. Qed.
Lemma off_res_trunc_u hi n v sp : n_ok n = true -> res_ok hi (fun _ => True) (off_res (new_trunc_u n v) sp).
Proof. intros Hn. unfold new_trunc_u. rewrite Hn. exact Logic.I. Qed.

Lemma conv_s_ok hi n t sp r : n_ok n = true -> span_in 0 hi sp -> conv_s n t sp = Some r -> res_ok hi (fun _ => True) r.
Proof.
  intros Hn Hs H. destruct t; cbn [conv_s] in H; inversion H; subst.
  - destruct (v <? 32768); [apply off_res_new_s; assumption|exact Hs].
  - apply off_res_new_s; assumption.
Qed.
Lemma conv_u_ok hi n t sp r : n_ok n = true -> span_in 0 hi sp -> conv_u n t sp = Some r -> res_ok hi (fun _ => True) r.
Proof.
  intros Hn Hs H. destruct t; cbn [conv_u] in H; inversion H; subst.
  - apply off_res_new_u; assumption.
  - destruct (0 <=? v); [apply off_res_new_u; assumption|exact Hs].
Qed.

(* ---------- single-token components ---------- *)
Ltac head_tok p Hwf :=
  destruct p as [[|[t sp] ts] prev]; cbn [fst snd] in *;
  [ destruct Hwf as [_ Hprev] | destruct (wf_tail _ _ _ _ _ Hwf) as [Hwf' Hsp] ].

Lemma p_tok_ok hi want m p : wf hi p -> res_ok hi (qp_lt hi p) (p_tok want m p).
Proof.
  intros Hwf. unfold p_tok. head_tok p Hwf; cbn [res_ok]; [exact Hprev|].
  destruct (want t); cbn [res_ok]; [|exact Hsp]. split; [exact Hwf'|cbn [fst length]; lia].
Qed.

Lemma p_end_ok hi p : wf hi p -> res_ok hi (qp_le hi p) (p_end p).
Proof.
  intros Hwf. unfold p_end. pose proof Hwf as Hwf0. head_tok p Hwf; cbn [res_ok].
  - split; [exact Hwf0|cbn; lia].
  - destruct t; cbn [res_ok]; try exact Hsp. split; [exact Hwf'|cbn [fst length]; lia].
Qed.

Lemma p_reg_ok hi p : wf hi p -> res_ok hi (q_lt hi p) (p_reg p).
Proof.
  intros Hwf. unfold p_reg. head_tok p Hwf; cbn [res_ok]; [exact Hprev|].
  destruct t; cbn [res_ok]; try exact Hsp.
  destruct ((0 <=? r) && (r <? 8)); cbn [res_ok]; [|exact Hsp]. split; [exact Hwf'|cbn [fst snd length]; lia].
Qed.
Lemma p_label_ok hi p : wf hi p -> res_ok hi (q_lt hi p) (p_label p).
Proof.
  intros Hwf. unfold p_label. head_tok p Hwf; cbn [res_ok]; [exact Hprev|].
  destruct t; cbn [res_ok]; try exact Hsp. destruct i; cbn [res_ok]; try exact Hsp.
  split; [exact Hwf'|cbn [fst snd length]; lia].
Qed.
Lemma p_str_ok hi p : wf hi p -> res_ok hi (q_lt hi p) (p_str p).
Proof.
  intros Hwf. unfold p_str. head_tok p Hwf; cbn [res_ok]; [exact Hprev|].
  destruct t; cbn [res_ok]; try exact Hsp. split; [exact Hwf'|cbn [fst snd length]; lia].
Qed.

Lemma p_off_ok hi conv p :
  (forall t sp r, span_in 0 hi sp -> conv t sp = Some r -> res_ok hi (fun _ => True) r) ->
  wf hi p -> res_ok hi (q_lt hi p) (p_off conv p).
Proof.
  intros Hc Hwf. unfold p_off. head_tok p Hwf; cbn [res_ok]; [exact Hprev|].
  destruct (conv t sp) as [r|] eqn:E; cbn [res_ok]; [|exact Hsp].
  eapply res_ok_bind; [eapply Hc; eassumption|]. intros v _. cbn [res_ok]. split; [exact Hwf'|cbn [fst snd length]; lia].
Qed.

Lemma p_ior_ok hi n p : n_ok n = true -> wf hi p -> res_ok hi (q_lt hi p) (p_ior n p).
Proof.
  intros Hn Hwf. unfold p_ior. head_tok p Hwf; cbn [res_ok]; [exact Hprev|].
  destruct (conv_s n t sp) as [r|] eqn:E.
  - eapply res_ok_bind; [eapply conv_s_ok; eassumption|]. intros v _. cbn [res_ok]. split; [exact Hwf'|cbn [fst snd length]; lia].
  - destruct t; cbn [res_ok]; try exact Hsp.
    destruct ((0 <=? r) && (r <? 8)); cbn [res_ok]; [|exact Hsp]. split; [exact Hwf'|cbn [fst snd length]; lia].
Qed.
Lemma p_pcoff_ok hi n p : n_ok n = true -> wf hi p -> res_ok hi (q_lt hi p) (p_pcoff n p).
Proof.
  intros Hn Hwf. unfold p_pcoff. head_tok p Hwf; cbn [res_ok]; [exact Hprev|].
  destruct (conv_s n t sp) as [r|] eqn:E.
  - eapply res_ok_bind; [eapply conv_s_ok; eassumption|]. intros v _. cbn [res_ok]. split; [exact Hwf'|cbn [fst snd length]; lia].
  - destruct t; cbn [res_ok]; try exact Hsp. destruct i; cbn [res_ok]; try exact Hsp.
    split; [exact Hwf'|cbn [fst snd length]; lia].
Qed.

Lemma p_reg_comma_ok hi p : wf hi p -> res_ok hi (q_lt hi p) (p_reg_comma p).
Proof.
  intros Hwf. unfold p_reg_comma. eapply res_ok_bind; [apply p_reg_ok; exact Hwf|].
  intros [r p1] [Hw1 Hl1]. cbn [fst snd] in *. cbn beta iota.
  eapply res_ok_bind; [apply p_tok_ok; exact Hw1|]. intros p2 [Hw2 Hl2]. cbn [res_ok]. split; [exact Hw2|cbn [fst snd]; lia].
Qed.

(* ---------- instructions ---------- *)
Ltac step_with L :=
  eapply res_ok_bind; [apply L; try reflexivity; try assumption|];
  let a := fresh "a" in let q := fresh "q" in let Hw := fresh "Hw" in let Hl := fresh "Hl" in
  intros [a q] [Hw Hl]; cbn [fst snd] in Hw, Hl; cbn beta iota.
Ltac finish := cbn [res_ok]; split; [assumption|cbn [fst snd]; lia].

Lemma p_br_ok hi cc p : wf hi p -> res_ok hi (q_le hi p) (p_br cc p).
Proof. intros Hwf. unfold p_br. step_with p_pcoff_ok. finish. Qed.

Lemma p_operands_ok hi k p : wf hi p -> res_ok hi (q_le hi p) (p_operands k p).
Proof.
  intros Hwf.
  assert (Hsame : res_ok hi (q_le (A:=asm_instr) hi p) (POk (ARET, p))) by (cbn [res_ok]; split; [exact Hwf|cbn [fst snd]; lia]).
  destruct k; cbn [p_operands]; try apply p_br_ok; try exact Hwf;
    try (cbn [res_ok]; split; [exact Hwf|cbn [fst snd]; lia]).
  - step_with p_reg_comma_ok. step_with p_reg_comma_ok. step_with p_ior_ok. finish.
  - step_with p_reg_comma_ok. step_with p_reg_comma_ok. step_with p_ior_ok. finish.
  - step_with p_reg_comma_ok. step_with p_reg_ok. finish.
  - step_with p_reg_ok. finish.
  - step_with p_pcoff_ok. finish.
  - step_with p_reg_ok. finish.
  - step_with p_reg_comma_ok. step_with p_pcoff_ok. finish.
  - step_with p_reg_comma_ok. step_with p_pcoff_ok. finish.
  - step_with p_reg_comma_ok. step_with p_reg_comma_ok.
    eapply res_ok_bind; [apply p_off_ok; [intros; eapply conv_s_ok; try eassumption; reflexivity|assumption]|].
    intros [v q1] [Hw1 Hl1]. cbn [fst snd] in *. cbn beta iota. finish.
  - step_with p_reg_comma_ok. step_with p_pcoff_ok. finish.
  - step_with p_reg_comma_ok. step_with p_pcoff_ok. finish.
  - step_with p_reg_comma_ok. step_with p_pcoff_ok. finish.
  - step_with p_reg_comma_ok. step_with p_reg_comma_ok.
    eapply res_ok_bind; [apply p_off_ok; [intros; eapply conv_s_ok; try eassumption; reflexivity|assumption]|].
    intros [v q1] [Hw1 Hl1]. cbn [fst snd] in *. cbn beta iota. finish.
  - eapply res_ok_bind; [apply p_off_ok; [intros; eapply conv_u_ok; try eassumption; reflexivity|assumption]|].
    intros [v q1] [Hw1 Hl1]. cbn [fst snd] in *. cbn beta iota. finish.
  - (* NOP *)
    assert (Hdef : res_ok hi (q_le hi p) (let* v := off_res (new_trunc_s 9 0) (snd p) in POk (ANOP (POff v), p))).
    { eapply res_ok_bind; [apply off_res_trunc_s; reflexivity|]. intros v _. cbn [res_ok]. split; [exact Hwf|cbn [fst snd]; lia]. }
    destruct p as [[|[t sp] ts] prev]; cbn [fst]; [exact Hdef|].
    destruct t; try exact Hdef; try (step_with p_pcoff_ok; finish).
    destruct i; try exact Hdef. step_with p_pcoff_ok. finish.
Qed.

(* ---------- directives ---------- *)
Lemma p_directive_ok hi name dsp p : span_in 0 hi dsp -> wf hi p -> res_ok hi (q_le hi p) (p_directive name dsp p).
Proof.
  intros Hd Hwf. unfold p_directive.
  destruct (assoc_str (kw_upper name) dir_names) as [z|]; [|exact Hd].
  destruct z as [|z|z]; [| |exact Hd].
  - eapply res_ok_bind; [apply p_off_ok; [intros; eapply conv_u_ok; try eassumption; reflexivity|assumption]|].
    intros [v q1] [Hw1 Hl1]. cbn [fst snd] in *. cbn beta iota. finish.
  - destruct z as [z|z|]; try destruct z as [z|z|]; try destruct z as [z|z|]; try exact Hd.
    + (* 5 EXTERNAL *) step_with p_label_ok. finish.
    + (* 3 STRINGZ *) step_with p_str_ok. finish.
    + (* 4 END *) cbn [res_ok]. split; [exact Hwf|cbn [fst snd]; lia].
    + (* 2 BLKW *)
      pose proof (wf_cursor hi p Hwf) as Hcur.
      eapply res_ok_bind; [apply p_off_ok; [intros; eapply conv_u_ok; try eassumption; reflexivity|assumption]|].
      intros [v q1] [Hw1 Hl1]. cbn [fst snd] in *. cbn beta iota.
      destruct (v =? 0); cbn [res_ok]; [exact Hcur|]. split; [assumption|cbn [fst snd]; lia].
    + (* 1 FILL *)
      pose proof (wf_cursor hi p Hwf) as Hcur.
      head_tok p Hwf; [exact Hprev|].
      destruct t; try exact Hcur.
      * eapply res_ok_bind; [apply off_res_trunc_u; reflexivity|]. intros w _. cbn [res_ok]. split; [exact Hwf'|cbn [fst snd length]; lia].
      * eapply res_ok_bind; [apply off_res_trunc_u; reflexivity|]. intros w _. cbn [res_ok]. split; [exact Hwf'|cbn [fst snd length]; lia].
      * destruct i; try exact Hcur. cbn [res_ok]. split; [exact Hwf'|cbn [fst snd length]; lia].
Qed.

(* ---------- statements ---------- *)
Lemma skip_labels_ok hi : forall n ts prev last, (length ts <= n)%nat -> wf hi (ts, prev) ->
  (match last with Some sp => span_in 0 hi sp | None => True end) ->
  let '(ls, last', p') := skip_labels ts prev last in
  wf hi p' /\ (length (fst p') <= length ts)%nat /\
  (match last' with Some sp => span_in 0 hi sp | None => True end).
Proof.
  induction n as [|n IH]; intros ts prev last Hn Hwf Hlast.
  - destruct ts; [|cbn [length] in Hn; lia]. cbn. split; [exact Hwf|split; [lia|exact Hlast]].
  - destruct ts as [|[t sp] ts1].
    + cbn. split; [exact Hwf|split; [lia|exact Hlast]].
    + cbn [length] in Hn. unfold skip_labels; fold skip_labels.
      assert (Hstop : wf hi ((t, sp) :: ts1, prev) /\ (length (fst ((t, sp) :: ts1, prev)) <= length ((t, sp) :: ts1))%nat /\
                      match last with Some sp0 => span_in 0 hi sp0 | None => True end).
      { split; [exact Hwf|split; [cbn [fst]; lia|exact Hlast]]. }
      destruct (all_nl _); [exact Hstop|].
      destruct (wf_tail _ _ _ _ _ Hwf) as [Hwf1 Hsp].
      destruct t; try exact Hstop.
      * (* identifier *)
        destruct i; [exact Hstop|].
        assert (Hone : let '(ls, last', p') := (let '(ls, last', p) := skip_labels ts1 sp (Some sp) in (mkLabel s (fst sp) :: ls, last', p)) in
                  wf hi p' /\ (length (fst p') <= length ((TIdent (ILabel s), sp) :: ts1))%nat /\
                  match last' with Some sp0 => span_in 0 hi sp0 | None => True end).
        { specialize (IH ts1 sp (Some sp) ltac:(lia) Hwf1 Hsp).
          destruct (skip_labels ts1 sp (Some sp)) as [[ls last'] p']. destruct IH as [H1 [H2 H3]].
          cbn beta iota zeta. split; [exact H1|split; [cbn [length]; repeat apply le_S; exact H2|exact H3]]. }
        destruct ts1 as [|[t2 sp2] ts2]; [exact Hone|].
        destruct t2; try exact Hone.
        destruct (wf_tail _ _ _ _ _ Hwf1) as [Hwf2 Hsp2].
        specialize (IH ts2 sp2 (Some sp) ltac:(cbn [length] in *; lia) Hwf2 Hsp).
        destruct (skip_labels ts2 sp2 (Some sp)) as [[ls last'] p']. destruct IH as [H1 [H2 H3]].
        cbn beta iota zeta. split; [exact H1|split; [cbn [length]; repeat apply le_S; exact H2|exact H3]].
      * (* newline *)
        specialize (IH ts1 sp last ltac:(lia) Hwf1 Hlast).
        destruct (skip_labels ts1 sp last) as [[ls last'] p']. destruct IH as [H1 [H2 H3]].
        cbn beta iota zeta. split; [exact H1|split; [cbn [length]; repeat apply le_S; exact H2|exact H3]].
Qed.

Lemma skip_nl_ok hi : forall ts prev, wf hi (ts, prev) ->
  wf hi (skip_nl ts prev) /\ (length (fst (skip_nl ts prev)) <= length ts)%nat.
Proof.
  induction ts as [|[t sp] ts IH]; intros prev Hwf.
  - cbn. split; [exact Hwf|lia].
  - unfold skip_nl; fold skip_nl. destruct (all_nl _); [split; [exact Hwf|cbn [fst]; lia]|].
    destruct t; try (split; [exact Hwf|cbn [fst]; lia]).
    destruct (wf_tail _ _ _ _ _ Hwf) as [Hwf1 _]. destruct (IH sp Hwf1) as [H1 H2]. split; [exact H1|cbn [length]; lia].
Qed.

Lemma p_nucleus_ok hi last p : wf hi p ->
  (match last with Some sp => span_in 0 hi sp | None => True end) ->
  res_ok hi (q_lt hi p) (p_nucleus last p).
Proof.
  intros Hwf Hlast. unfold p_nucleus.
  assert (Herr : span_in 0 hi (match last with Some sp => sp | None => cursor (fst p) (snd p) end)).
  { destruct last; [exact Hlast|apply wf_cursor; exact Hwf]. }
  destruct p as [[|[t sp] ts] prev]; cbn [fst snd] in *; [exact Herr|].
  destruct (wf_tail _ _ _ _ _ Hwf) as [Hwf1 Hsp].
  destruct t; try exact Herr.
  - destruct i; [|exact Herr].
    eapply res_ok_bind; [apply p_operands_ok; exact Hwf1|]. intros [a q] [Hw Hl]. cbn [fst snd] in *. cbn beta iota.
    cbn [res_ok]. split; [exact Hw|cbn [fst snd length]; lia].
  - eapply res_ok_bind; [apply p_directive_ok; [exact Hsp|exact Hwf1]|]. intros [a q] [Hw Hl]. cbn [fst snd] in *. cbn beta iota.
    cbn [res_ok]. split; [exact Hw|cbn [fst snd length]; lia].
Qed.

Lemma p_stmt_ok hi p : wf hi p -> res_ok hi (q_lt hi p) (p_stmt p).
Proof.
  intros Hwf. unfold p_stmt. destruct p as [ts prev]. cbn [fst snd].
  pose proof (skip_labels_ok hi (length ts) ts prev None (le_n _) Hwf Logic.I) as Hs.
  destruct (skip_labels ts prev None) as [[labels last] p1]. destruct Hs as [Hw1 [Hl1 Hlast]].
  eapply res_ok_bind; [apply p_nucleus_ok; assumption|]. intros [n p2] [Hw2 Hl2]. cbn [fst snd] in *. cbn beta iota.
  eapply res_ok_bind; [apply p_end_ok; exact Hw2|]. intros p3 [Hw3 Hl3]. cbn [res_ok].
  destruct p3 as [ts3 prev3]. destruct (skip_nl_ok hi ts3 prev3 Hw3) as [H1 H2]. cbn [fst snd] in *.
  split; [exact H1|cbn [fst snd]; lia].
Qed.

Lemma p_stmts_ok hi : forall fuel p, (length (fst p) < fuel)%nat -> wf hi p -> res_ok hi (fun _ => True) (p_stmts fuel p).
Proof.
  induction fuel as [|f IH]; intros p Hf Hwf; [lia|].
  cbn [p_stmts]. destruct (all_nl (fst p)); [exact Logic.I|].
  eapply res_ok_bind; [apply p_stmt_ok; exact Hwf|]. intros [s p'] [Hw Hl]. cbn [fst snd] in *. cbn beta iota.
  eapply res_ok_bind; [apply IH; [lia|exact Hw]|]. intros l _. exact Logic.I.
Qed.

(* ---------- from the token stream ---------- *)
Lemma spans_sorted_in lo hi l : spans_sorted lo hi l -> 0 <= lo -> Forall (fun t : tok => span_in 0 hi (snd t)) l.
Proof.
  revert lo. induction l as [|[t sp] l IH]; intros lo H Hlo; [constructor|].
  cbn [spans_sorted] in H. destruct H as [H1 [H2 H3]]. pose proof (spans_sorted_le _ _ _ H3) as Hle.
  constructor; [cbn [snd]; unfold span_in; lia|]. apply (IH (snd sp)); [exact H3|lia].
Qed.

Lemma parse_tokens_ok hi l : Forall (fun t : tok => span_in 0 hi (snd t)) l -> 0 <= hi ->
  res_ok hi (fun _ => True) (parse_tokens l).
Proof.
  intros Hl Hhi. unfold parse_tokens. apply p_stmts_ok; [cbn [fst]; apply le_n|].
  split; cbn [fst snd]; [|unfold span_in; cbn; lia].
  induction Hl as [|t l Ht _ IH]; cbn [filter]; [constructor|]. destruct (negb (is_comment (fst t))); [constructor; assumption|assumption].
Qed.

Theorem parse_ast_ok s : res_ok (byte_len s) (fun _ => True) (parse_ast s).
Proof.
  unfold parse_ast, parse_ast_with. rewrite lex_with_at.
  pose proof (lex_at_spans true (length s) s 0 (le_n _)) as Hsp.
  pose proof (lex_at_fixed_no_panic (length s) s 0 (le_n _)) as Hnp.
  pose proof (byte_len_nonneg s) as Hb.
  destruct (lex_at true 0 s) as [l|l e sp|]; [| |congruence].
  - apply parse_tokens_ok; [|exact Hb]. apply (spans_sorted_in 0); [exact Hsp|lia].
  - destruct Hsp as [mid [H1 [H2 [H3 H4]]]]. pose proof (spans_sorted_le _ _ _ H1). cbn [res_ok]. unfold span_in. lia.
Qed.

Theorem parse_ast_total s : parse_ast s <> PPanic.
Proof. pose proof (parse_ast_ok s) as H. destruct (parse_ast s); cbn [res_ok] in H; [discriminate|discriminate|contradiction]. Qed.

Theorem parse_ast_err_span s k sp : parse_ast s = PErr k sp -> 0 <= fst sp /\ fst sp <= snd sp /\ snd sp <= byte_len s.
Proof. intros H. pose proof (parse_ast_ok s) as Hok. rewrite H in Hok. exact Hok. Qed.

(* the pinned code: both panics of lex_str_literal, reached through parse_ast *)
(* .stringz, a quote, abc, a backslash, then the end of input;  .stringz, a quote, a, a backslash, e-acute, a quote *)
Definition w_backslash_eol : str := [46; 115; 116; 114; 105; 110; 103; 122; 32; 34; 97; 98; 99; 92].
Definition w_backslash_multibyte : str := [46; 115; 116; 114; 105; 110; 103; 122; 32; 34; 97; 92; 233; 34].
Theorem parse_ast_pinned_panics :
  parse_ast_with false w_backslash_eol = PPanic /\
  parse_ast_with false w_backslash_multibyte = PPanic /\
  parse_ast w_backslash_eol = PErr (ELex UnclosedStrLit) (9, 14) /\
  parse_ast w_backslash_multibyte = POk [mkStmt [] (NDir (DStringz [97; 92; 233])) 0 15].
Proof. vm_compute. repeat split. Qed.
