(* PiecesProofs.v — lexing a text made of token pieces separated by blanks and commas: the token
   stream is the list of the pieces' tokens with the spans of their texts.  Word-like pieces
   (numerals, registers, identifiers, directives) need a delimiter after them; string literals
   carry their own end.  Used by C36 (printed statements) and C03 (rendered layouts). *)
From Coq Require Import ZArith List Bool Lia.
From Model Require Import Tree Text Instr AsmAst Lexer Parser Print.
From Spec Require Import Numerals.
From Proofs Require Import LexerProofs LexStepProofs LexNumProofs.
Import ListNotations.
Open Scope Z_scope.

(* ---------- delimiters ---------- *)
Definition is_delim (d : Z) : bool :=
  (d =? 32) || (d =? 9) || (d =? 44) || (d =? 58) || (d =? 59) || (d =? 10) || (d =? 13) || (d =? 34).
Definition delim (rest : str) : Prop := match rest with [] => True | d :: _ => is_delim d = true end.

Lemma is_delim_cases d : is_delim d = true -> d = 32 \/ d = 9 \/ d = 44 \/ d = 58 \/ d = 59 \/ d = 10 \/ d = 13 \/ d = 34.
Proof.
  unfold is_delim. intros H. repeat (apply orb_prop in H; destruct H as [H|H]); apply Z.eqb_eq in H; lia.
Qed.
Lemma delim_not_word d : is_delim d = true -> is_word d = false /\ d <> 45 /\ is_dec d || is_hex_letter d = false.
Proof.
  intros H. apply is_delim_cases in H.
  destruct H as [->|[->|[->|[->|[->|[->|[->| ->]]]]]]]; (split; [reflexivity|split; [lia|reflexivity]]).
Qed.
Lemma delim_stops rest : delim rest -> stops is_word rest.
Proof. destruct rest as [|d r]; [trivial|]. cbn [delim stops]. intros H. apply delim_not_word in H. apply H. Qed.

(* ---------- pieces ---------- *)
Inductive piece :=
| W (text : str) (t : token)      (* a word-like token: needs a delimiter after it *)
| Sp                              (* one blank *)
| Cm                              (* a comma *)
| St (text : str) (v : str)       (* a string literal, quotes included, with its value *)
| Bl (bs : str)                   (* a run of blanks and tabs, possibly empty *)
| Col                             (* a colon *)
| Nl (crlf : bool)                (* a line end: LF or CR LF *)
| Cmt (body : str).               (* a comment: ';' and everything up to the line feed (a CR before it included) *)

Definition nl_text (crlf : bool) : str := if crlf then [13; 10] else [10].
Definition piece_text (p : piece) : str :=
  match p with
  | W x _ => x | Sp => [32] | Cm => [44] | St x _ => x
  | Bl bs => bs | Col => [58] | Nl crlf => nl_text crlf | Cmt body => 59 :: body
  end.
Definition text_of (ps : list piece) : str := flat_map piece_text ps.

Fixpoint toks_of (pos : Z) (ps : list piece) : list tok :=
  match ps with
  | [] => []
  | W x t :: r => (t, (pos, pos + byte_len x)) :: toks_of (pos + byte_len x) r
  | Sp :: r => toks_of (pos + 1) r
  | Cm :: r => (TComma, (pos, pos + 1)) :: toks_of (pos + 1) r
  | St x v :: r => (TString v, (pos, pos + byte_len x)) :: toks_of (pos + byte_len x) r
  | Bl bs :: r => toks_of (pos + byte_len bs) r
  | Col :: r => (TColon, (pos, pos + 1)) :: toks_of (pos + 1) r
  | Nl crlf :: r => (TNewLine, (pos, pos + byte_len (nl_text crlf))) :: toks_of (pos + byte_len (nl_text crlf)) r
  | Cmt body :: r => (TComment, (pos, pos + (1 + byte_len body))) :: toks_of (pos + (1 + byte_len body)) r
  end.

(* a word text lexes to its token whenever a delimiter (or the end) follows *)
Definition word_ok (x : str) (t : token) : Prop :=
  exists c w, x = c :: w /\ is_blank c = false /\
    forall fx rest, delim rest -> lex_step fx c (w ++ rest) = (SOk t, byte_len x, rest).
Definition str_ok (x v : str) : Prop :=
  exists body, x = 34 :: body /\
    forall rest, lex_step true 34 (body ++ rest) = (SOk (TString v), byte_len x, rest).

(* what may follow a word: anything but another word (empty blank runs are transparent) *)
Fixpoint delim_next (r : list piece) : Prop :=
  match r with
  | W _ _ :: _ => False
  | Bl [] :: r' => delim_next r'
  | _ => True
  end.
(* what may follow a comment: the line feed, or the end of the text *)
Fixpoint eol_next (r : list piece) : Prop :=
  match r with
  | [] => True
  | Nl false :: _ => True
  | Bl [] :: r' => eol_next r'
  | _ => False
  end.

Fixpoint pieces_ok (ps : list piece) : Prop :=
  match ps with
  | [] => True
  | W x t :: r => word_ok x t /\ delim_next r /\ pieces_ok r
  | St x v :: r => str_ok x v /\ pieces_ok r
  | Bl bs :: r => forallb is_blank bs = true /\ pieces_ok r
  | Cmt body :: r => forallb (fun c => negb (c =? 10)) body = true /\ eol_next r /\ pieces_ok r
  | _ :: r => pieces_ok r
  end.

Lemma pieces_delim r : pieces_ok r -> delim_next r -> delim (text_of r).
Proof.
  induction r as [|p r IH]; [trivial|]. intros Hok Hh.
  destruct p; cbn [text_of flat_map piece_text app delim delim_next] in *; try reflexivity; try contradiction.
  - cbn [pieces_ok] in Hok. destruct Hok as [[body [-> _]] _]. reflexivity.
  - cbn [pieces_ok] in Hok. destruct Hok as [Hb Hok]. destruct bs as [|b bs].
    + cbn [app]. apply IH; assumption.
    + cbn [app delim]. cbn [forallb] in Hb. apply andb_prop in Hb. destruct Hb as [Hb _].
      unfold is_blank in Hb. unfold is_delim. apply orb_prop in Hb. destruct Hb as [Hb|Hb]; rewrite Hb; cbn [orb]; rewrite ?orb_true_r; reflexivity.
  - destruct crlf; reflexivity.
Qed.

Lemma eol_stops r : pieces_ok r -> eol_next r -> stops (fun c => negb (c =? 10)) (text_of r).
Proof.
  induction r as [|p r IH]; [trivial|]. intros Hok Hh.
  destruct p; cbn [eol_next] in Hh; try contradiction.
  - destruct bs; [|contradiction]. cbn [pieces_ok] in Hok. destruct Hok as [_ Hok].
    cbn [text_of flat_map piece_text app]. apply IH; assumption.
  - destruct crlf; [contradiction|]. reflexivity.
Qed.

Lemma lex_step_comma fx r : lex_step fx 44 r = (SOk TComma, 1, r).
Proof. reflexivity. Qed.
Lemma lex_step_colon fx r : lex_step fx 58 r = (SOk TColon, 1, r).
Proof. reflexivity. Qed.
Lemma lex_step_lf fx r : lex_step fx 10 r = (SOk TNewLine, 1, r).
Proof. reflexivity. Qed.
Lemma lex_step_crlf fx r : lex_step fx 13 (10 :: r) = (SOk TNewLine, 2, r).
Proof. reflexivity. Qed.
Lemma lex_step_comment fx body r : forallb (fun c => negb (c =? 10)) body = true -> stops (fun c => negb (c =? 10)) r ->
  lex_step fx 59 (body ++ r) = (SOk TComment, 1 + byte_len body, r).
Proof.
  intros Hb Hr. unfold lex_step. cbn [Z.eqb Pos.eqb]. rewrite span_p_exact by assumption. reflexivity.
Qed.

Lemma lex_at_blanks fx bs : forall pos r, forallb is_blank bs = true ->
  lex_at fx pos (bs ++ r) = lex_at fx (pos + byte_len bs) r.
Proof.
  induction bs as [|b bs IH]; intros pos r H.
  - cbn [app byte_len]. rewrite Z.add_0_r. reflexivity.
  - cbn [forallb] in H. apply andb_prop in H. destruct H as [Hb Hbs].
    cbn [app]. rewrite lex_at_cons, Hb. rewrite IH by exact Hbs. cbn [byte_len].
    rewrite (utf8_len_ascii b).
    + f_equal. lia.
    + unfold is_blank in Hb. apply orb_prop in Hb. destruct Hb as [E|E]; apply Z.eqb_eq in E; lia.
Qed.

Theorem lex_pieces : forall ps pos, pieces_ok ps -> lex_at true pos (text_of ps) = LexOk (toks_of pos ps).
Proof.
  induction ps as [|p ps IH]; intros pos Hok; [reflexivity|].
  destruct p as [x t| | |x v|bs| |crlf|body]; cbn [text_of flat_map piece_text] in *; fold (text_of ps).
  - cbn [pieces_ok] in Hok. destruct Hok as [[c [w [-> [Hb Hstep]]]] [Hnext Hrest]].
    cbn [app]. rewrite lex_at_cons, Hb. rewrite (Hstep true (text_of ps)) by (apply pieces_delim; assumption).
    rewrite IH by exact Hrest. reflexivity.
  - cbn [app]. rewrite lex_at_cons. change (is_blank 32) with true. cbn iota. apply IH. exact Hok.
  - cbn [app]. rewrite lex_at_cons. change (is_blank 44) with false. cbn iota. rewrite lex_step_comma.
    rewrite IH by exact Hok. reflexivity.
  - cbn [pieces_ok] in Hok. destruct Hok as [[body [-> Hstep]] Hrest].
    cbn [app]. rewrite lex_at_cons. change (is_blank 34) with false. cbn iota. rewrite Hstep.
    rewrite IH by exact Hrest. reflexivity.
  - cbn [pieces_ok] in Hok. destruct Hok as [Hb Hrest]. rewrite lex_at_blanks by exact Hb. cbn [toks_of]. apply IH. exact Hrest.
  - cbn [app]. rewrite lex_at_cons. change (is_blank 58) with false. cbn iota. rewrite lex_step_colon.
    rewrite IH by exact Hok. reflexivity.
  - destruct crlf; cbn [nl_text app].
    + rewrite lex_at_cons. change (is_blank 13) with false. cbn iota. rewrite lex_step_crlf. rewrite IH by exact Hok. reflexivity.
    + rewrite lex_at_cons. change (is_blank 10) with false. cbn iota. rewrite lex_step_lf. rewrite IH by exact Hok. reflexivity.
  - cbn [pieces_ok] in Hok. destruct Hok as [Hb [Hn Hrest]].
    cbn [app]. rewrite lex_at_cons. change (is_blank 59) with false. cbn iota.
    rewrite lex_step_comment by (try apply eol_stops; assumption). rewrite IH by exact Hrest. reflexivity.
Qed.

Lemma text_of_app a b : text_of (a ++ b) = text_of a ++ text_of b.
Proof. unfold text_of. apply flat_map_app. Qed.
(* ---------- string literals: the scanner inverts the `{:?}` escaping on the C36 alphabet ---------- *)
Definition alpha_char (c : Z) : bool :=
  ((32 <=? c) && (c <? 127)) || (c =? 9) || (c =? 10) || (c =? 13) || (c =? 0).

Lemma scan_plain fx c r : c <> 10 -> c <> 13 -> c <> 34 -> c <> 92 ->
  scan_str fx (c :: r) = sc_push [c] (utf8_len c) (scan_str fx r).
Proof.
  intros H10 H13 H34 H92. destruct r as [|d r]; unfold scan_str; fold (scan_str fx); unfold at_eol;
    neq_false c 10; neq_false c 13; neq_false c 34; neq_false c 92; reflexivity.
Qed.
Lemma scan_quote fx r : scan_str fx (34 :: r) = ScClosed [] 1 r.
Proof. destruct r; reflexivity. Qed.
Lemma scan_esc e r : e <> 10 -> e <> 13 ->
  scan_str true (92 :: e :: r) = sc_push (unescape e) (1 + utf8_len e) (scan_str true r).
Proof.
  intros H10 H13. unfold scan_str; fold (scan_str true). unfold at_eol. cbn [Z.eqb Pos.eqb orb andb].
  neq_false e 10. neq_false e 13. reflexivity.
Qed.

Lemma scan_escaped v rest : forallb alpha_char v = true ->
  scan_str true (flat_map esc_debug v ++ 34 :: rest) = ScClosed v (byte_len (flat_map esc_debug v) + 1) rest.
Proof.
  induction v as [|c v IH]; intros Hv.
  - cbn [flat_map app byte_len]. apply scan_quote.
  - cbn [forallb] in Hv. apply andb_prop in Hv. destruct Hv as [Hc Hv]. specialize (IH Hv).
    cbn [flat_map]. rewrite <- app_assoc. rewrite byte_len_app.
    unfold esc_debug at 1 3.
    destruct (c =? 34) eqn:E34.
    { apply Z.eqb_eq in E34. subst c. cbn [app]. rewrite scan_esc by lia. rewrite IH. cbn [sc_push unescape Z.eqb Pos.eqb app byte_len].
      f_equal. change (utf8_len 92) with 1. change (utf8_len 34) with 1. lia. }
    destruct (c =? 92) eqn:E92.
    { apply Z.eqb_eq in E92. subst c. cbn [app]. rewrite scan_esc by lia. rewrite IH. cbn [sc_push unescape Z.eqb Pos.eqb app byte_len].
      f_equal. change (utf8_len 92) with 1. lia. }
    destruct (c =? 10) eqn:E10.
    { apply Z.eqb_eq in E10. subst c. cbn [app]. rewrite scan_esc by lia. rewrite IH. cbn [sc_push unescape Z.eqb Pos.eqb app byte_len].
      f_equal. change (utf8_len 92) with 1. change (utf8_len 110) with 1. lia. }
    destruct (c =? 13) eqn:E13.
    { apply Z.eqb_eq in E13. subst c. cbn [app]. rewrite scan_esc by lia. rewrite IH. cbn [sc_push unescape Z.eqb Pos.eqb app byte_len].
      f_equal. change (utf8_len 92) with 1. change (utf8_len 114) with 1. lia. }
    destruct (c =? 9) eqn:E9.
    { apply Z.eqb_eq in E9. subst c. cbn [app]. rewrite scan_esc by lia. rewrite IH. cbn [sc_push unescape Z.eqb Pos.eqb app byte_len].
      f_equal. change (utf8_len 92) with 1. change (utf8_len 116) with 1. lia. }
    destruct (c =? 0) eqn:E0.
    { apply Z.eqb_eq in E0. subst c. cbn [app]. rewrite scan_esc by lia. rewrite IH. cbn [sc_push unescape Z.eqb Pos.eqb app byte_len].
      f_equal. change (utf8_len 92) with 1. change (utf8_len 48) with 1. lia. }
    apply Z.eqb_neq in E34, E92, E10, E13, E9, E0.
    unfold alpha_char in Hc.
    assert (Hp : (32 <=? c) && (c <? 127) = true).
    { repeat (apply orb_prop in Hc; destruct Hc as [Hc|Hc]); try exact Hc; apply Z.eqb_eq in Hc; lia. }
    rewrite Hp. cbn [app]. rewrite scan_plain by lia. rewrite IH. cbn [sc_push app byte_len]. f_equal. lia.
Qed.

Lemma str_piece_ok v : forallb alpha_char v = true -> byte_len v <? 65535 = true ->
  str_ok (debug_str v) v.
Proof.
  intros Hv Hlen. unfold debug_str. exists (flat_map esc_debug v ++ [34]). split; [reflexivity|].
  intros rest. unfold lex_step. cbn [Z.eqb Pos.eqb]. unfold lex_str_literal.
  rewrite <- app_assoc. cbn [app]. rewrite scan_escaped by exact Hv. rewrite Hlen.
  cbn [byte_len]. rewrite byte_len_app. cbn [byte_len]. change (utf8_len 34) with 1.
  replace (1 + 0) with 1 by lia. reflexivity.
Qed.

(* ---------- numerals as printed ---------- *)
Lemma dec_str_nonneg v : 0 <= v -> dec_str v = spell_mag 10 true 0 v.
Proof. intros H. unfold dec_str, spell_mag. replace (v <? 0) with false by (symmetry; apply Z.ltb_ge; lia). reflexivity. Qed.
Lemma dec_str_neg v : v < 0 -> dec_str v = 45 :: spell_mag 10 true 0 (- v).
Proof. intros H. unfold dec_str, spell_mag. replace (v <? 0) with true by (symmetry; apply Z.ltb_lt; lia). reflexivity. Qed.

Definition tok_of_off (v : Z) : token := if v <? 0 then TSigned v else TUnsigned v.

Lemma cons_split (x : str) : x <> [] -> exists c w, x = c :: w.
Proof. destruct x as [|c w]; [congruence|]. intros _. exists c, w. reflexivity. Qed.

Lemma word_ok_off v : -32768 <= v <= 65535 -> word_ok (print_off v) (tok_of_off v).
Proof.
  intros Hv. unfold print_off, tok_of_off. exists 35, (dec_str v). split; [reflexivity|]. split; [reflexivity|].
  intros fx rest Hd. apply delim_stops in Hd.
  destruct (v <? 0) eqn:E.
  - apply Z.ltb_lt in E. rewrite dec_str_neg by exact E. set (ds := spell_mag 10 true 0 (- v)).
    assert (Hds : Forall dec_digit ds) by (apply spell_mag_dec; lia).
    assert (Hne : ds <> []) by apply spell_mag_nonempty.
    cbn [app]. rewrite step_hash_minus; [|apply Forall_word, Forall_dec_hex; exact Hds|exact Hd].
    rewrite lex_signed_hash_digits by assumption. unfold ds at 1. rewrite spell_mag_value by lia.
    unfold signed_result. replace (- v <=? 32768) with true by (symmetry; apply Z.leb_le; lia). rewrite Z.opp_involutive.
    cbn [byte_len]. change (utf8_len 35) with 1. change (utf8_len 45) with 1. f_equal. f_equal. lia.
  - apply Z.ltb_ge in E. rewrite dec_str_nonneg by exact E. set (ds := spell_mag 10 true 0 v).
    assert (Hds : Forall dec_digit ds) by (apply spell_mag_dec; lia).
    destruct (cons_split ds (spell_mag_nonempty _ _ _ _)) as [d [w Hdw]].
    assert (Hd0 : dec_digit d) by (rewrite Hdw in Hds; inversion Hds; assumption).
    rewrite Hdw. cbn [app]. unfold dec_digit in Hd0.
    rewrite step_hash; [|lia|lia|rewrite <- Hdw; apply Forall_word, Forall_dec_hex; exact Hds|exact Hd].
    rewrite <- Hdw. rewrite Hdw at 1. rewrite lex_unsigned_hash_digits by (rewrite <- Hdw; exact Hds). rewrite <- Hdw.
    unfold ds at 1. rewrite spell_mag_value by lia.
    unfold unsigned_result. replace (v <=? 65535) with true by (symmetry; apply Z.leb_le; lia).
    cbn [byte_len]. change (utf8_len 35) with 1. reflexivity.
Qed.

Lemma word_ok_reg r : 0 <= r <= 7 -> word_ok (print_reg r) (TReg r).
Proof.
  intros Hr. unfold print_reg. exists 82, (dec_str r). split; [reflexivity|]. split; [reflexivity|].
  intros fx rest Hd. apply delim_stops in Hd. rewrite dec_str_nonneg by lia. set (ds := spell_mag 10 true 0 r).
  assert (Hds : Forall dec_digit ds) by (apply spell_mag_dec; lia).
  destruct (cons_split ds (spell_mag_nonempty _ _ _ _)) as [d [w Hdw]].
  rewrite step_reg; [|reflexivity|apply spell_mag_nonempty|apply Forall_is_digit; exact Hds|exact Hd].
  rewrite Hdw at 1. rewrite lex_reg_digits; [|reflexivity|rewrite <- Hdw; exact Hds]. rewrite <- Hdw.
  unfold ds at 1. rewrite spell_mag_value by lia. unfold reg_result.
  replace (r <=? 7) with true by (symmetry; apply Z.leb_le; lia). cbn [byte_len]. change (utf8_len 82) with 1. reflexivity.
Qed.

Lemma hex_pad_spell w v : hex_pad w v = spell_mag 16 true (Nat.sub w (length (map (digit_char true) (nat_digits 16 v)))) v.
Proof. reflexivity. Qed.

Lemma word_ok_hex w v : 0 <= v <= 65535 -> word_ok (120 :: hex_pad w v) (TUnsigned v).
Proof.
  intros Hv. exists 120, (hex_pad w v). split; [reflexivity|]. split; [reflexivity|].
  intros fx rest Hd. apply delim_stops in Hd. rewrite hex_pad_spell.
  set (ds := spell_mag 16 true _ v).
  assert (Hds : Forall hex_digit ds) by (apply spell_mag_hex; lia).
  destruct (cons_split ds (spell_mag_nonempty _ _ _ _)) as [d [u Hdu]].
  assert (Hd0 : hex_digit d) by (rewrite Hdu in Hds; inversion Hds; assumption).
  rewrite Hdu. cbn [app].
  rewrite step_x_hex; [|reflexivity| | |rewrite <- Hdu; apply Forall_word; exact Hds|exact Hd].
  - rewrite lex_unsigned_hex_digits; [|reflexivity|rewrite <- Hdu; exact Hds]. rewrite <- Hdu.
    unfold ds at 1. rewrite spell_mag_value by lia. unfold unsigned_result.
    replace (v <=? 65535) with true by (symmetry; apply Z.leb_le; lia). cbn [byte_len]. change (utf8_len 120) with 1. reflexivity.
  - unfold hex_digit in Hd0. lia.
  - destruct (hex_digit_cases d Hd0) as [H|H]; [rewrite (is_digit_dec d H); reflexivity|rewrite H; apply orb_true_r].
Qed.

(* ---------- identifiers: labels and keywords ---------- *)
Definition label_name_ok (name : str) : bool :=
  match name with
  | [] => false
  | c :: w =>
      is_alpha_us c && forallb is_word w
      && (negb (is_x c) || match w with [] => true | d :: _ => negb (is_dec d || is_hex_letter d) end)
      && (negb (is_r c) || negb (negb (is_nil w) && forallb is_dec w))
      && match ident_of name with ILabel _ => true | IKw _ => false end
  end.

Lemma ident_of_label name : match ident_of name with ILabel _ => true | IKw _ => false end = true -> ident_of name = ILabel name.
Proof. unfold ident_of. destruct (assoc_str (kw_upper name) kw_table); [discriminate|reflexivity]. Qed.

Lemma not_blank_alpha c : is_alpha_us c = true -> is_blank c = false.
Proof. intros H. pose proof (alpha_bounds c H). unfold is_blank. neq_false c 32. neq_false c 9. reflexivity. Qed.

Lemma ident_word_ok c w t : is_alpha_us c = true -> forallb is_word w = true ->
  (is_x c = true -> match w with [] => True | d :: _ => is_dec d || is_hex_letter d = false end) ->
  (is_r c = true -> negb (is_nil w) && forallb is_dec w = false) ->
  SOk (TIdent (ident_of (c :: w))) = SOk t ->
  word_ok (c :: w) t.
Proof.
  intros Ha Hw Hx Hr Ht. exists c, w. split; [reflexivity|]. split; [apply not_blank_alpha; exact Ha|].
  intros fx rest Hd. rewrite step_ident.
  - rewrite Ht. cbn [byte_len]. rewrite (utf8_len_ascii c) by (apply alpha_ascii; exact Ha). reflexivity.
  - split; [exact Ha|]. split; [exact Hw|]. split; [apply delim_stops; exact Hd|]. split; [|exact Hr].
    intros Hxc. specialize (Hx Hxc). destruct w as [|d w'].
    + cbn [app]. destruct rest as [|d r]; [trivial|]. cbn [delim] in Hd. apply delim_not_word in Hd. split; apply Hd.
    + cbn [app]. split; [|exact Hx]. cbn [forallb] in Hw. apply andb_prop in Hw. destruct Hw as [Hwd _].
      intros ->. discriminate.
Qed.

Lemma word_ok_label name : label_name_ok name = true -> word_ok name (TIdent (ILabel name)).
Proof.
  unfold label_name_ok. destruct name as [|c w]; [discriminate|]. intros H.
  repeat (apply andb_prop in H; destruct H as [H ?]).
  apply ident_word_ok; try assumption.
  - intros Hx. match goal with H1 : negb (is_x c) || _ = true |- _ => rewrite Hx in H1; cbn [negb orb] in H1 end.
    destruct w as [|d w']; [trivial|]. apply negb_true_iff. assumption.
  - intros Hr. match goal with H1 : negb (is_r c) || _ = true |- _ => rewrite Hr in H1; cbn [negb orb] in H1 end.
    apply negb_true_iff. assumption.
  - f_equal. f_equal. apply ident_of_label. assumption.
Qed.

(* a concrete identifier text: every condition is decided by computation *)
Definition kw_text_ok (x : str) (k : kw) : bool :=
  match x with
  | [] => false
  | c :: w =>
      is_alpha_us c && forallb is_word w && negb (is_x c)
      && (negb (is_r c) || negb (negb (is_nil w) && forallb is_dec w))
      && match ident_of x with IKw k' => kw_index k' =? kw_index k | ILabel _ => false end
  end.
Lemma kw_index_inj a b : kw_index a = kw_index b -> a = b.
Proof. destruct a, b; cbn; intros H; try reflexivity; discriminate. Qed.

Lemma word_ok_kw x k : kw_text_ok x k = true -> word_ok x (TIdent (IKw k)).
Proof.
  unfold kw_text_ok. destruct x as [|c w]; [discriminate|]. intros H.
  repeat (apply andb_prop in H; destruct H as [H ?]).
  apply ident_word_ok; try assumption.
  - intros Hx. match goal with H1 : negb (is_x c) = true |- _ => rewrite Hx in H1; discriminate end.
  - intros Hr. match goal with H1 : negb (is_r c) || _ = true |- _ => rewrite Hr in H1; cbn [negb orb] in H1 end.
    apply negb_true_iff. assumption.
  - destruct (ident_of (c :: w)) as [k'|]; [|discriminate]. f_equal. f_equal. f_equal. apply kw_index_inj. apply Z.eqb_eq. assumption.
Qed.

Lemma word_ok_directive w : forallb is_word w = true -> word_ok (46 :: w) (TDirective w).
Proof.
  intros Hw. exists 46, w. split; [reflexivity|]. split; [reflexivity|].
  intros fx rest Hd. rewrite step_directive by (try apply delim_stops; assumption).
  cbn [byte_len]. change (utf8_len 46) with 1. reflexivity.
Qed.
