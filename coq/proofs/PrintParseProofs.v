(* PrintParseProofs.v — C36: for every statement in the parser's image whose string literal stays
   on the alphabet (printable ASCII, TAB, LF, CR, NUL), parsing the printed statement yields
   exactly one statement with the same labels, nucleus and operands (source positions aside). *)
From Coq Require Import ZArith List Bool Lia String.
From Model Require Import Tree Text Bits Offset Instr AsmAst Lexer Parser Print.
From Spec Require Import Numerals.
From Proofs Require Import LexerProofs LexStepProofs LexNumProofs OffsetProofs PiecesProofs.
Import ListNotations.
Open Scope Z_scope.

(* ---------- the parser's image ---------- *)
Definition reg_okb (r : Z) : bool := (0 <=? r) && (r <? 8).
Definition label_okb (l : label) : bool := label_name_ok (l_name l).
Definition ior_okb (o : imm_or_reg) : bool := match o with Imm v => fits_s 5 v | RegOp r => reg_okb r end.
Definition pcoff_okb (n : Z) (o : pcoff) : bool := match o with POff v => fits_s n v | PLab l => label_okb l end.

Definition instr_okb (i : asm_instr) : bool :=
  match i with
  | AADD dr sr o | AAND dr sr o => reg_okb dr && reg_okb sr && ior_okb o
  | ABR cc o => (1 <=? cc) && (cc <=? 7) && pcoff_okb 9 o
  | AJMP r | AJSRR r => reg_okb r
  | AJSR o => pcoff_okb 11 o
  | ALD r o | ALDI r o | ALEA r o | AST r o | ASTI r o => reg_okb r && pcoff_okb 9 o
  | ALDR a b o | ASTR a b o => reg_okb a && reg_okb b && fits_s 6 o
  | ANOT a b => reg_okb a && reg_okb b
  | ATRAP v => fits_u 8 v
  | ANOP o => pcoff_okb 9 o
  | ARET | ARTI | AGETC | AOUT | APUTC | APUTS | AIN | APUTSP | AHALT => true
  end.
Definition directive_okb (d : directive) : bool :=
  match d with
  | DOrig a => fits_u 16 a
  | DFill (POff v) => fits_u 16 v
  | DFill (PLab l) => label_okb l
  | DBlkw n => fits_u 16 n && negb (n =? 0)
  | DStringz s => byte_len s <? 65535
  | DEnd => true
  | DExternal l => label_okb l
  end.
Definition nucleus_okb (n : nucleus) : bool :=
  match n with NInstr i => instr_okb i | NDir d => directive_okb d end.
(* statements `parse_ast` can return: registers 0..7, offsets inside their fields, label names that
   lex as labels, string literals below the size limit *)
Definition in_parser_image (s : stmt) : bool :=
  forallb label_okb (s_labels s) && nucleus_okb (s_nucleus s).
(* the alphabet of the property *)
Definition printable_strings (s : stmt) : bool :=
  match s_nucleus s with NDir (DStringz v) => forallb alpha_char v | _ => true end.

(* ---------- statements up to source positions ---------- *)
Definition shape_label (l : label) : label := mkLabel (l_name l) 0.
Definition shape_pcoff (o : pcoff) : pcoff := match o with POff v => POff v | PLab l => PLab (shape_label l) end.
Definition shape_instr (i : asm_instr) : asm_instr :=
  match i with
  | ABR cc o => ABR cc (shape_pcoff o) | AJSR o => AJSR (shape_pcoff o)
  | ALD r o => ALD r (shape_pcoff o) | ALDI r o => ALDI r (shape_pcoff o) | ALEA r o => ALEA r (shape_pcoff o)
  | AST r o => AST r (shape_pcoff o) | ASTI r o => ASTI r (shape_pcoff o) | ANOP o => ANOP (shape_pcoff o)
  | _ => i
  end.
Definition shape_directive (d : directive) : directive :=
  match d with DFill o => DFill (shape_pcoff o) | DExternal l => DExternal (shape_label l) | _ => d end.
Definition shape_nucleus (n : nucleus) : nucleus :=
  match n with NInstr i => NInstr (shape_instr i) | NDir d => NDir (shape_directive d) end.
Definition shape_stmt (s : stmt) : stmt :=
  mkStmt (map shape_label (s_labels s)) (shape_nucleus (s_nucleus s)) 0 0.

(* ---------- the printed statement as pieces ---------- *)
Definition Wreg (r : Z) : piece := W (print_reg r) (TReg r).
Definition Woff (v : Z) : piece := W (print_off v) (tok_of_off v).
Definition Wlab (l : label) : piece := W (l_name l) (TIdent (ILabel (l_name l))).
Definition Wior (o : imm_or_reg) : piece := match o with Imm v => Woff v | RegOp r => Wreg r end.
Definition Wpc (o : pcoff) : piece := match o with POff v => Woff v | PLab l => Wlab l end.
Definition Wkw (m : string) (k : kw) : piece := W (zs m) (TIdent (IKw k)).
Definition Whex (w : nat) (v : Z) : piece := W (120 :: hex_pad w v) (TUnsigned v).
Definition Wdir (m : string) : piece := W (46 :: zs m) (TDirective (zs m)).

Definition br_kw (cc : Z) : kw :=
  if cc =? 1 then KBRP else if cc =? 2 then KBRZ else if cc =? 3 then KBRZP else if cc =? 4 then KBRN
  else if cc =? 5 then KBRNP else if cc =? 6 then KBRNZ else if cc =? 7 then KBRNZP else KNOP.

Definition instr_pieces (i : asm_instr) : list piece :=
  match i with
  | AADD dr sr o => [Wkw "ADD" KADD; Sp; Wreg dr; Cm; Sp; Wreg sr; Cm; Sp; Wior o]
  | AAND dr sr o => [Wkw "AND" KAND; Sp; Wreg dr; Cm; Sp; Wreg sr; Cm; Sp; Wior o]
  | ABR cc o => [W (br_name cc) (TIdent (IKw (br_kw cc))); Sp; Wpc o]
  | AJMP r => [Wkw "JMP" KJMP; Sp; Wreg r]
  | AJSR o => [Wkw "JSR" KJSR; Sp; Wpc o]
  | AJSRR r => [Wkw "JSRR" KJSRR; Sp; Wreg r]
  | ALD r o => [Wkw "LD" KLD; Sp; Wreg r; Cm; Sp; Wpc o]
  | ALDI r o => [Wkw "LDI" KLDI; Sp; Wreg r; Cm; Sp; Wpc o]
  | ALDR a b o => [Wkw "LDR" KLDR; Sp; Wreg a; Cm; Sp; Wreg b; Cm; Sp; Woff o]
  | ALEA r o => [Wkw "LEA" KLEA; Sp; Wreg r; Cm; Sp; Wpc o]
  | ANOT a b => [Wkw "NOT" KNOT; Sp; Wreg a; Cm; Sp; Wreg b]
  | ARET => [Wkw "RET" KRET]
  | ARTI => [Wkw "RTI" KRTI]
  | AST r o => [Wkw "ST" KST; Sp; Wreg r; Cm; Sp; Wpc o]
  | ASTI r o => [Wkw "STI" KSTI; Sp; Wreg r; Cm; Sp; Wpc o]
  | ASTR a b o => [Wkw "STR" KSTR; Sp; Wreg a; Cm; Sp; Wreg b; Cm; Sp; Woff o]
  | ATRAP v => [Wkw "TRAP" KTRAP; Sp; Whex 2 v]
  | ANOP o => [Wkw "NOP" KNOP; Sp; Wpc o]
  | AGETC => [Wkw "GETC" KGETC] | AOUT => [Wkw "OUT" KOUT] | APUTC => [Wkw "PUTC" KPUTC]
  | APUTS => [Wkw "PUTS" KPUTS] | AIN => [Wkw "IN" KIN] | APUTSP => [Wkw "PUTSP" KPUTSP]
  | AHALT => [Wkw "HALT" KHALT]
  end.
Definition directive_pieces (d : directive) : list piece :=
  match d with
  | DOrig a => [Wdir "orig"; Sp; Whex 4 a]
  | DFill o => [Wdir "fill"; Sp; Wpc o]
  | DBlkw n => [Wdir "blkw"; Sp; Woff n]
  | DStringz s => [Wdir "stringz"; Sp; St (debug_str s) s]
  | DEnd => [Wdir "end"]
  | DExternal l => [Wdir "external"; Sp; Wlab l]
  end.
Definition nucleus_pieces (n : nucleus) : list piece :=
  match n with NInstr i => instr_pieces i | NDir d => directive_pieces d end.
Definition label_pieces (ls : list label) : list piece := flat_map (fun l => [Wlab l; Sp]) ls.
Definition stmt_pieces (s : stmt) : list piece := label_pieces (s_labels s) ++ nucleus_pieces (s_nucleus s).

(* the printer writes exactly these pieces *)
Lemma print_instr_pieces i : print_instr i = text_of (instr_pieces i).
Proof.
  destruct i; try destruct o; cbn [instr_pieces print_instr op1 op2 op3 print_ior print_pcoff print_label csp
    text_of flat_map piece_text Wkw Wreg Woff Wior Wpc Wlab Whex app];
    rewrite ?app_nil_r; reflexivity.
Qed.
Lemma print_directive_pieces d : print_directive d = text_of (directive_pieces d).
Proof.
  destruct d; try destruct o; cbn [directive_pieces print_directive op1 print_pcoff print_label
    text_of flat_map piece_text Wdir Woff Wpc Wlab Whex app]; rewrite ?app_nil_r; reflexivity.
Qed.
Lemma print_stmt_pieces s : print_stmt s = text_of (stmt_pieces s).
Proof.
  unfold print_stmt, stmt_pieces. rewrite text_of_app. f_equal.
  - unfold label_pieces, text_of. induction (s_labels s) as [|l ls IH]; [reflexivity|].
    cbn [flat_map app piece_text Wlab print_label]. rewrite IH. rewrite <- app_assoc. reflexivity.
  - destruct (s_nucleus s); [apply print_instr_pieces|apply print_directive_pieces].
Qed.

(* ---------- every piece lexes to its token ---------- *)
Lemma reg_okb_range r : reg_okb r = true -> 0 <= r <= 7.
Proof. unfold reg_okb. intros H. apply andb_prop in H. destruct H as [H1 H2]. apply Z.leb_le in H1. apply Z.ltb_lt in H2. lia. Qed.
Lemma fits_s_range n v : 1 <= n <= 16 -> fits_s n v = true -> -32768 <= v <= 65535.
Proof. intros Hn H. pose proof (fits_s_i16 n v Hn H). lia. Qed.
Lemma fits_u_range n v : 1 <= n <= 16 -> fits_u n v = true -> 0 <= v <= 65535.
Proof.
  intros Hn H. unfold fits_u in H. apply andb_prop in H. destruct H as [H1 H2]. apply Z.leb_le in H1. apply Z.ltb_lt in H2.
  assert (2 ^ n <= 2 ^ 16) by (apply Z.pow_le_mono_r; lia). change (2 ^ 16) with 65536 in *. lia.
Qed.

Ltac split_andb :=
  repeat match goal with H : _ && _ = true |- _ => apply andb_prop in H; destruct H end.

Lemma Wreg_ok r rest : reg_okb r = true -> pieces_ok rest -> delim_next rest -> pieces_ok (Wreg r :: rest).
Proof. intros H Hr Hn. cbn [pieces_ok Wreg]. split; [apply word_ok_reg, reg_okb_range, H|split; assumption]. Qed.
Lemma Woff_ok v rest : -32768 <= v <= 65535 -> pieces_ok rest -> delim_next rest -> pieces_ok (Woff v :: rest).
Proof. intros H Hr Hn. cbn [pieces_ok Woff]. split; [apply word_ok_off, H|split; assumption]. Qed.
Lemma Wlab_ok l rest : label_okb l = true -> pieces_ok rest -> delim_next rest -> pieces_ok (Wlab l :: rest).
Proof. intros H Hr Hn. cbn [pieces_ok Wlab]. split; [apply word_ok_label, H|split; assumption]. Qed.
Lemma Wkw_ok m k rest : kw_text_ok (zs m) k = true -> pieces_ok rest -> delim_next rest -> pieces_ok (Wkw m k :: rest).
Proof. intros H Hr Hn. cbn [pieces_ok Wkw]. split; [apply word_ok_kw, H|split; assumption]. Qed.
Lemma Whex_ok w v rest : 0 <= v <= 65535 -> pieces_ok rest -> delim_next rest -> pieces_ok (Whex w v :: rest).
Proof. intros H Hr Hn. cbn [pieces_ok Whex]. split; [apply word_ok_hex, H|split; assumption]. Qed.
Lemma Wdir_ok m rest : forallb is_word (zs m) = true -> pieces_ok rest -> delim_next rest -> pieces_ok (Wdir m :: rest).
Proof. intros H Hr Hn. cbn [pieces_ok Wdir]. split; [apply word_ok_directive, H|split; assumption]. Qed.

Lemma Wior_ok o rest : ior_okb o = true -> pieces_ok rest -> delim_next rest -> pieces_ok (Wior o :: rest).
Proof.
  destruct o; cbn [ior_okb Wior]; intros H Hr Hn.
  - apply Woff_ok; [apply (fits_s_range 5); [lia|exact H]|assumption|assumption].
  - apply Wreg_ok; assumption.
Qed.
Lemma Wpc_ok n o rest : 1 <= n <= 16 -> pcoff_okb n o = true -> pieces_ok rest -> delim_next rest -> pieces_ok (Wpc o :: rest).
Proof.
  intros Hn. destruct o; cbn [pcoff_okb Wpc]; intros H Hr Hnx.
  - apply Woff_ok; [apply (fits_s_range n); assumption|assumption|assumption].
  - apply Wlab_ok; assumption.
Qed.

Lemma W_ok x t rest : word_ok x t -> pieces_ok rest -> delim_next rest -> pieces_ok (W x t :: rest).
Proof. intros H Hr Hn. cbn [pieces_ok]. split; [exact H|split; assumption]. Qed.
Lemma Sp_ok r : pieces_ok r -> pieces_ok (Sp :: r). Proof. exact (fun H => H). Qed.
Lemma Cm_ok r : pieces_ok r -> pieces_ok (Cm :: r). Proof. exact (fun H => H). Qed.

Ltac pieces_tac :=
  repeat first
    [ exact Logic.I
    | match goal with
      | |- pieces_ok (Sp :: _) => apply Sp_ok
      | |- pieces_ok (Cm :: _) => apply Cm_ok
      | |- pieces_ok (Wreg _ :: _) => apply Wreg_ok; [assumption| |]
      | |- pieces_ok (Wkw _ _ :: _) => apply Wkw_ok; [reflexivity| |]
      | |- pieces_ok (Wdir _ :: _) => apply Wdir_ok; [reflexivity| |]
      | |- pieces_ok (Wior _ :: _) => apply Wior_ok; [assumption| |]
      | |- pieces_ok (Wpc _ :: _) => (eapply Wpc_ok; [|eassumption| |]); [lia| |]
      end ].

Lemma br_name_ok cc : 1 <= cc <= 7 -> kw_text_ok (br_name cc) (br_kw cc) = true.
Proof.
  intros H. assert (Hc : cc = 1 \/ cc = 2 \/ cc = 3 \/ cc = 4 \/ cc = 5 \/ cc = 6 \/ cc = 7) by lia.
  destruct Hc as [->|[->|[->|[->|[->|[->| ->]]]]]]; reflexivity.
Qed.

Lemma instr_pieces_ok i : instr_okb i = true -> pieces_ok (instr_pieces i).
Proof.
  destruct i; cbn [instr_okb instr_pieces]; intros H; split_andb; pieces_tac.
  - (* BR *)
    apply W_ok; [apply word_ok_kw, br_name_ok| |exact Logic.I].
    + match goal with H1 : (1 <=? cc) = true, H2 : (cc <=? 7) = true |- _ => apply Z.leb_le in H1; apply Z.leb_le in H2; lia end.
    + apply Sp_ok. eapply Wpc_ok; [|eassumption|exact Logic.I|exact Logic.I]. lia.
  - (* LDR *) apply Woff_ok; [apply (fits_s_range 6); [lia|assumption]|exact Logic.I|exact Logic.I].
  - (* STR *) apply Woff_ok; [apply (fits_s_range 6); [lia|assumption]|exact Logic.I|exact Logic.I].
  - (* TRAP *) apply Whex_ok; [apply (fits_u_range 8); [lia|assumption]|exact Logic.I|exact Logic.I].
Qed.

Lemma directive_pieces_ok d : directive_okb d = true -> (match d with DStringz v => forallb alpha_char v = true | _ => True end) ->
  pieces_ok (directive_pieces d).
Proof.
  destruct d; cbn [directive_okb directive_pieces]; intros H Ha; split_andb; pieces_tac.
  - apply Whex_ok; [apply (fits_u_range 16); [lia|assumption]|exact Logic.I|exact Logic.I].
  - destruct o; cbn [Wpc].
    + apply Woff_ok; [pose proof (fits_u_range 16 v ltac:(lia) H); lia|exact Logic.I|exact Logic.I].
    + apply Wlab_ok; [exact H|exact Logic.I|exact Logic.I].
  - apply Woff_ok; [match goal with H1 : fits_u 16 n = true |- _ => pose proof (fits_u_range 16 n ltac:(lia) H1); lia end|exact Logic.I|exact Logic.I].
  - split; [apply str_piece_ok; assumption|exact Logic.I].
  - apply Wlab_ok; [exact H|exact Logic.I|exact Logic.I].
Qed.

Lemma label_pieces_ok ls rest : forallb label_okb ls = true -> pieces_ok rest -> pieces_ok (label_pieces ls ++ rest).
Proof.
  induction ls as [|l ls IH]; intros H Hr; [exact Hr|].
  cbn [forallb] in H. apply andb_prop in H. destruct H as [Hl Hls].
  cbn [label_pieces flat_map app]. fold (label_pieces ls). cbn [pieces_ok Wlab].
  split; [apply word_ok_label; exact Hl|]. split; [exact Logic.I|]. apply IH; assumption.
Qed.

Lemma stmt_pieces_ok s : in_parser_image s = true -> printable_strings s = true -> pieces_ok (stmt_pieces s).
Proof.
  unfold in_parser_image, printable_strings, stmt_pieces. intros H Hp. apply andb_prop in H. destruct H as [Hl Hn].
  apply label_pieces_ok; [exact Hl|]. destruct (s_nucleus s) as [i|d]; cbn [nucleus_okb nucleus_pieces] in *.
  - apply instr_pieces_ok; exact Hn.
  - apply directive_pieces_ok; [exact Hn|]. destruct d; try exact Logic.I. exact Hp.
Qed.

(* ---------- parsing the tokens of the pieces ---------- *)
Lemma conv_s_off n v sp : 1 <= n <= 16 -> fits_s n v = true -> conv_s n (tok_of_off v) sp = Some (POk v).
Proof.
  intros Hn H. pose proof (fits_s_i16 n v Hn H) as Hr. unfold tok_of_off. destruct (v <? 0); cbn [conv_s].
  - rewrite new_s_spec by lia. rewrite H. reflexivity.
  - replace (v <? 32768) with true by (symmetry; apply Z.ltb_lt; lia). rewrite new_s_spec by lia. rewrite H. reflexivity.
Qed.

Lemma p_reg_tok r sp ts prev : reg_okb r = true -> p_reg ((TReg r, sp) :: ts, prev) = POk (r, (ts, sp)).
Proof. intros H. unfold p_reg, reg_okb in *. cbn [fst snd]. rewrite H. reflexivity. Qed.
Lemma p_reg_comma_tok r sp sp2 ts prev : reg_okb r = true ->
  p_reg_comma ((TReg r, sp) :: (TComma, sp2) :: ts, prev) = POk (r, (ts, sp2)).
Proof. intros H. unfold p_reg_comma. rewrite p_reg_tok by exact H. reflexivity. Qed.
Lemma p_ior_off v sp ts prev : fits_s 5 v = true -> p_ior 5 ((tok_of_off v, sp) :: ts, prev) = POk (Imm v, (ts, sp)).
Proof. intros H. unfold p_ior. cbn [fst snd]. rewrite conv_s_off by (try lia; exact H). reflexivity. Qed.
Lemma p_ior_reg r sp ts prev : reg_okb r = true -> p_ior 5 ((TReg r, sp) :: ts, prev) = POk (RegOp r, (ts, sp)).
Proof. intros H. unfold p_ior, reg_okb in *. cbn [fst snd conv_s]. rewrite H. reflexivity. Qed.
Lemma p_pcoff_off n v sp ts prev : 1 <= n <= 16 -> fits_s n v = true ->
  p_pcoff n ((tok_of_off v, sp) :: ts, prev) = POk (POff v, (ts, sp)).
Proof. intros Hn H. unfold p_pcoff. cbn [fst snd]. rewrite conv_s_off by assumption. reflexivity. Qed.
Lemma p_pcoff_lab n name sp ts prev :
  p_pcoff n ((TIdent (ILabel name), sp) :: ts, prev) = POk (PLab (mkLabel name (fst sp)), (ts, sp)).
Proof. reflexivity. Qed.
Lemma p_off_s_off n v sp ts prev : 1 <= n <= 16 -> fits_s n v = true ->
  p_off (conv_s n) ((tok_of_off v, sp) :: ts, prev) = POk (v, (ts, sp)).
Proof. intros Hn H. unfold p_off. cbn [fst snd]. rewrite conv_s_off by assumption. reflexivity. Qed.
Lemma p_off_u_tok n v sp ts prev : 1 <= n <= 16 -> fits_u n v = true ->
  p_off (conv_u n) ((TUnsigned v, sp) :: ts, prev) = POk (v, (ts, sp)).
Proof.
  intros Hn H. pose proof (fits_u_range n v Hn H). unfold p_off. cbn [fst snd conv_u]. rewrite new_u_spec by lia. rewrite H. reflexivity.
Qed.
Lemma tok_of_off_nonneg v : 0 <= v -> tok_of_off v = TUnsigned v.
Proof. intros H. unfold tok_of_off. replace (v <? 0) with false by (symmetry; apply Z.ltb_ge; lia). reflexivity. Qed.

Lemma pbind_ok {A B} (a : A) (f : A -> pres B) : pbind (POk a) f = f a.
Proof. reflexivity. Qed.

Ltac run_ops :=
  repeat first
    [ rewrite p_reg_comma_tok by assumption
    | rewrite p_reg_tok by assumption
    | rewrite p_ior_off by assumption
    | rewrite p_ior_reg by assumption
    | rewrite p_pcoff_off by (try lia; assumption)
    | rewrite p_pcoff_lab
    | rewrite p_off_s_off by (try lia; assumption)
    | rewrite p_off_u_tok by (try lia; assumption)
    | (rewrite pbind_ok; cbn beta iota) ].

(* the nucleus: instruction or directive, parsed from its pieces up to the end of the input *)
Lemma instr_parse i pos prev last : instr_okb i = true ->
  exists i' q, p_nucleus last (toks_of pos (instr_pieces i), prev) = POk (NInstr i', ([], q)) /\ shape_instr i' = shape_instr i.
Proof.
  intros H. destruct i; cbn [instr_okb] in H; split_andb;
    try destruct o; cbn [ior_okb pcoff_okb] in *;
    cbn [instr_pieces toks_of Wkw Wreg Woff Wior Wpc Wlab Whex p_nucleus fst snd p_operands p_br];
    run_ops; try (eexists; eexists; split; [reflexivity|reflexivity]).
  - (* BR, offset *)
    assert (Hc : cc = 1 \/ cc = 2 \/ cc = 3 \/ cc = 4 \/ cc = 5 \/ cc = 6 \/ cc = 7).
    { match goal with H1 : (1 <=? cc) = true, H2 : (cc <=? 7) = true |- _ => apply Z.leb_le in H1; apply Z.leb_le in H2; lia end. }
    destruct Hc as [->|[->|[->|[->|[->|[->| ->]]]]]]; unfold br_kw; cbn [Z.eqb Pos.eqb]; unfold p_operands, p_br; run_ops;
      eexists; eexists; (split; [reflexivity|reflexivity]).
  - (* BR, label *)
    assert (Hc : cc = 1 \/ cc = 2 \/ cc = 3 \/ cc = 4 \/ cc = 5 \/ cc = 6 \/ cc = 7).
    { match goal with H1 : (1 <=? cc) = true, H2 : (cc <=? 7) = true |- _ => apply Z.leb_le in H1; apply Z.leb_le in H2; lia end. }
    destruct Hc as [->|[->|[->|[->|[->|[->| ->]]]]]]; unfold br_kw; cbn [Z.eqb Pos.eqb]; unfold p_operands, p_br; run_ops;
      eexists; eexists; (split; [reflexivity|reflexivity]).
  - (* NOP, offset: the parser looks at the next token first *)
    unfold tok_of_off. destruct (v <? 0) eqn:E; fold (tok_of_off v);
      [replace (TSigned v) with (tok_of_off v) by (unfold tok_of_off; rewrite E; reflexivity)
      |replace (TUnsigned v) with (tok_of_off v) by (unfold tok_of_off; rewrite E; reflexivity)];
      run_ops; eexists; eexists; (split; [reflexivity|reflexivity]).
Qed.

Lemma dir_lookup_orig : assoc_str (kw_upper (zs "orig")) dir_names = Some 0. Proof. reflexivity. Qed.
Lemma dir_lookup_fill : assoc_str (kw_upper (zs "fill")) dir_names = Some 1. Proof. reflexivity. Qed.
Lemma dir_lookup_blkw : assoc_str (kw_upper (zs "blkw")) dir_names = Some 2. Proof. reflexivity. Qed.
Lemma dir_lookup_stringz : assoc_str (kw_upper (zs "stringz")) dir_names = Some 3. Proof. reflexivity. Qed.
Lemma dir_lookup_end : assoc_str (kw_upper (zs "end")) dir_names = Some 4. Proof. reflexivity. Qed.
Lemma dir_lookup_external : assoc_str (kw_upper (zs "external")) dir_names = Some 5. Proof. reflexivity. Qed.

Lemma directive_parse d pos prev last : directive_okb d = true ->
  exists d' q, p_nucleus last (toks_of pos (directive_pieces d), prev) = POk (NDir d', ([], q)) /\ shape_directive d' = shape_directive d.
Proof.
  intros H. destruct d; cbn [directive_okb] in H; split_andb;
    cbn [directive_pieces toks_of Wdir Woff Wpc Wlab Whex p_nucleus fst snd]; unfold p_directive.
  - rewrite dir_lookup_orig. run_ops. eexists; eexists; split; reflexivity.
  - rewrite dir_lookup_fill. destruct o; cbn [Wpc Woff Wlab toks_of fst snd].
    + pose proof (fits_u_range 16 v ltac:(lia) H) as Hr. rewrite tok_of_off_nonneg by lia.
      rewrite new_trunc_u_spec by lia. cbn [off_res pbind]. unfold zext. change (2 ^ 16) with 65536.
      rewrite Z.mod_small by lia. eexists; eexists; split; reflexivity.
    + eexists; eexists; split; reflexivity.
  - rewrite dir_lookup_blkw. cbn [cursor fst snd].
    match goal with H1 : fits_u 16 n = true |- _ => pose proof (fits_u_range 16 n ltac:(lia) H1) as Hr end.
    rewrite tok_of_off_nonneg by lia. run_ops.
    match goal with H2 : negb (n =? 0) = true |- _ => apply negb_true_iff in H2; rewrite H2 end.
    eexists; eexists; split; reflexivity.
  - rewrite dir_lookup_stringz. cbn [p_str fst snd pbind]. eexists; eexists; split; reflexivity.
  - rewrite dir_lookup_end. eexists; eexists; split; reflexivity.
  - rewrite dir_lookup_external. cbn [p_label fst snd pbind]. eexists; eexists; split; reflexivity.
Qed.

Lemma nucleus_parse n pos prev last : nucleus_okb n = true ->
  exists n' q, p_nucleus last (toks_of pos (nucleus_pieces n), prev) = POk (n', ([], q)) /\ shape_nucleus n' = shape_nucleus n.
Proof.
  destruct n as [i|d]; cbn [nucleus_okb nucleus_pieces]; intros H.
  - destruct (instr_parse i pos prev last H) as [i' [q [H1 H2]]]. exists (NInstr i'), q. split; [exact H1|]. cbn [shape_nucleus]. rewrite H2. reflexivity.
  - destruct (directive_parse d pos prev last H) as [d' [q [H1 H2]]]. exists (NDir d'), q. split; [exact H1|]. cbn [shape_nucleus]. rewrite H2. reflexivity.
Qed.

(* the first token of a nucleus is a keyword or a directive: the label loop stops there *)
Definition starts_nucleus (ts : list tok) : Prop :=
  match ts with
  | (TIdent (IKw _), _) :: _ | (TDirective _, _) :: _ => True
  | _ => False
  end.
Lemma nucleus_starts n pos : starts_nucleus (toks_of pos (nucleus_pieces n)).
Proof. destruct n as [i|d]; [destruct i|destruct d]; exact Logic.I. Qed.

Lemma skip_labels_stop ts prev last : starts_nucleus ts -> skip_labels ts prev last = ([], last, (ts, prev)).
Proof.
  destruct ts as [|[t sp] ts]; [contradiction|]. cbn [starts_nucleus]. destruct t; try contradiction.
  - destruct i; [|contradiction]. intros _. reflexivity.
  - intros _. reflexivity.
Qed.

Lemma skip_labels_label s sp ts1 prev last :
  match ts1 with (TColon, _) :: _ => False | _ => True end ->
  skip_labels ((TIdent (ILabel s), sp) :: ts1) prev last =
    let '(ls, last', p) := skip_labels ts1 sp (Some sp) in (mkLabel s (fst sp) :: ls, last', p).
Proof.
  intros H. destruct ts1 as [|[t2 sp2] ts2]; [reflexivity|]. destruct t2; try reflexivity. contradiction.
Qed.

Lemma labels_then_nucleus ls : forall rest pos prev last, starts_nucleus (toks_of (pos + byte_len (text_of (label_pieces ls))) rest) ->
  exists ls' last' prev',
    skip_labels (toks_of pos (label_pieces ls ++ rest)) prev last =
      (ls', last', (toks_of (pos + byte_len (text_of (label_pieces ls))) rest, prev')) /\
    map shape_label ls' = map shape_label ls.
Proof.
  induction ls as [|l ls IH]; intros rest pos prev last Hs.
  - cbn [label_pieces flat_map app text_of byte_len] in *. rewrite Z.add_0_r in *.
    exists [], last, prev. split; [apply skip_labels_stop; exact Hs|reflexivity].
  - change (label_pieces (l :: ls)) with (Wlab l :: Sp :: label_pieces ls) in *.
    assert (Hpos : pos + byte_len (text_of (Wlab l :: Sp :: label_pieces ls)) = pos + byte_len (l_name l) + 1 + byte_len (text_of (label_pieces ls))).
    { change (Wlab l :: Sp :: label_pieces ls) with ([Wlab l; Sp] ++ label_pieces ls). rewrite text_of_app, byte_len_app.
      cbn [text_of flat_map piece_text Wlab app]. rewrite byte_len_app. cbn [byte_len]. change (utf8_len 32) with 1. lia. }
    rewrite Hpos in Hs |- *.
    cbn [app toks_of Wlab].
    destruct (IH rest (pos + byte_len (l_name l) + 1) (pos, pos + byte_len (l_name l)) (Some (pos, pos + byte_len (l_name l))) Hs)
      as [ls' [last' [prev' [H1 H2]]]].
    rewrite skip_labels_label.
    + match goal with |- context [skip_labels ?a ?b ?c] =>
        replace (skip_labels a b c) with (ls', last', (toks_of (pos + byte_len (l_name l) + 1 + byte_len (text_of (label_pieces ls))) rest, prev'))
          by (symmetry; exact H1) end.
      exists (mkLabel (l_name l) (fst (pos, pos + byte_len (l_name l))) :: ls'), last', prev'.
      split; [reflexivity|]. cbn [map shape_label l_name]. rewrite H2. reflexivity.
    + (* the next token is a label or the nucleus, never a colon *)
      destruct ls as [|l2 ls2].
      * cbn [label_pieces flat_map app text_of byte_len] in Hs |- *. rewrite Z.add_0_r in Hs.
        destruct (toks_of (pos + byte_len (l_name l) + 1) rest) as [|[t2 sp2] r2]; [exact Logic.I|].
        cbn [starts_nucleus] in Hs. destruct t2; try contradiction; exact Logic.I.
      * exact Logic.I.
Qed.

Lemma filter_toks ps pos :
  forallb (fun p => match p with W _ t => negb (is_comment t) | Cmt _ => false | _ => true end) ps = true ->
  filter (fun t : tok => negb (is_comment (fst t))) (toks_of pos ps) = toks_of pos ps.
Proof.
  revert pos. induction ps as [|p ps IH]; intros pos H; [reflexivity|].
  cbn [forallb] in H. apply andb_prop in H. destruct H as [Hp Hps].
  destruct p; try discriminate; cbn [toks_of filter fst]; try rewrite Hp; try (cbn [is_comment negb]); rewrite ?IH by exact Hps; reflexivity.
Qed.

Lemma stmt_pieces_no_comment s :
  forallb (fun p => match p with W _ t => negb (is_comment t) | Cmt _ => false | _ => true end) (stmt_pieces s) = true.
Proof.
  unfold stmt_pieces. rewrite forallb_app. apply andb_true_intro. split.
  - unfold label_pieces. induction (s_labels s) as [|l ls IH]; [reflexivity|]. cbn [flat_map app forallb Wlab is_comment negb andb]. exact IH.
  - destruct (s_nucleus s) as [i|d]; [destruct i|destruct d]; try destruct o; cbn [nucleus_pieces instr_pieces directive_pieces];
      unfold Wior, Wpc, Woff, tok_of_off; cbn [forallb Wkw Wreg Wlab Whex Wdir is_comment negb andb];
      repeat match goal with |- context [if ?b then _ else _] => destruct b end; reflexivity.
Qed.

Lemma stmt_not_all_nl s pos : all_nl (toks_of pos (stmt_pieces s)) = false.
Proof.
  unfold stmt_pieces. destruct (s_labels s) as [|l ls]; [|reflexivity].
  cbn [label_pieces flat_map app]. pose proof (nucleus_starts (s_nucleus s) pos) as H.
  destruct (toks_of pos (nucleus_pieces (s_nucleus s))) as [|[t sp] r]; [contradiction|].
  cbn [starts_nucleus] in H. destruct t; try contradiction; reflexivity.
Qed.

Lemma p_stmts_nil f q : p_stmts f ([], q) = POk [].
Proof. destruct f; reflexivity. Qed.

(* ---------- the round trip ---------- *)
Theorem print_parse_roundtrip s : in_parser_image s = true -> printable_strings s = true ->
  exists s', parse_ast (print_stmt s) = POk [s'] /\ shape_stmt s' = shape_stmt s.
Proof.
  intros Himg Hpr. unfold parse_ast, parse_ast_with. rewrite lex_with_at, print_stmt_pieces.
  rewrite lex_pieces by (apply stmt_pieces_ok; assumption).
  unfold parse_tokens. rewrite filter_toks by apply stmt_pieces_no_comment.
  set (ts := toks_of 0 (stmt_pieces s)).
  unfold in_parser_image in Himg. apply andb_prop in Himg. destruct Himg as [Hl Hn].
  (* the tokens are not all newlines: the nucleus starts with a keyword or directive *)
  pose proof (nucleus_starts (s_nucleus s) (0 + byte_len (text_of (label_pieces (s_labels s))))) as Hst.
  destruct (labels_then_nucleus (s_labels s) (nucleus_pieces (s_nucleus s)) 0 (0, 0) None Hst) as [ls' [last' [prev' [Hsk Hls]]]].
  fold (stmt_pieces s) in Hsk. fold ts in Hsk.
  destruct (nucleus_parse (s_nucleus s) (0 + byte_len (text_of (label_pieces (s_labels s)))) prev' last' Hn) as [n' [q [Hnuc Hshape]]].
  assert (Hnl : all_nl ts = false) by apply stmt_not_all_nl.
  cbn [p_stmts fst]. rewrite Hnl. unfold p_stmt. cbn [fst snd]. rewrite Hsk. cbn [fst snd].
  rewrite Hnuc. cbn [pbind p_end fst snd skip_nl all_nl forallb].
  rewrite p_stmts_nil. cbn [pbind].
  eexists; split; [reflexivity|]. unfold shape_stmt; cbn [s_labels s_nucleus]; rewrite Hls, Hshape; reflexivity.
Qed.
