(* Ranges.v — finite integer ranges and the lemma that lifts a computed [forallb] over a
   range to a universally quantified statement with the bound in it. *)
From Coq Require Import ZArith List Bool Lia.
Import ListNotations.
Open Scope Z_scope.

Fixpoint zrange (lo : Z) (n : nat) : list Z :=
  match n with O => [] | S k => lo :: zrange (lo + 1) k end.

Lemma zrange_in n : forall lo v, lo <= v < lo + Z.of_nat n -> In v (zrange lo n).
Proof.
  induction n as [|n IH]; intros lo v H.
  - lia.
  - cbn [zrange]. destruct (Z.eq_dec lo v) as [->|Hne]; [left; reflexivity|].
    right. apply IH. lia.
Qed.

Lemma forall_range (P : Z -> bool) lo n :
  forallb P (zrange lo n) = true -> forall v, lo <= v < lo + Z.of_nat n -> P v = true.
Proof.
  intros H v Hv. rewrite forallb_forall in H. apply H. apply zrange_in. exact Hv.
Qed.

Lemma forall_range' (P : Z -> bool) lo hi :
  forallb P (zrange lo (Z.to_nat (hi - lo))) = true -> forall v, lo <= v < hi -> P v = true.
Proof.
  intros H v Hv. apply (forall_range P lo (Z.to_nat (hi - lo))); [exact H|]. lia.
Qed.
