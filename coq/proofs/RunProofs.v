(* RunProofs.v — the event loop of model/Run.v against the declarative reading of spec/RunSpec.v
   (C13): run_while is repeated single stepping up to the first boundary with a stop condition. *)
From Coq Require Import ZArith List Bool Lia.
From Model Require Import Tree Bits Word Instr Sim Run.
From Spec Require Import RunSpec.
From Proofs Require Import StepFrame.
Import ListNotations.
Open Scope Z_scope.

(* ------------------------------------------------------------------ tripwires that agree *)
Lemma stop_here_ext bps T T' j it b s' st n :
  (forall x, T j x = T' j x) -> stop_here bps T j it b s' st n -> stop_here bps T' j it b s' st n.
Proof.
  intros E H. destruct H.
  - apply SH_mcr; assumption.
  - apply SH_trip; [assumption | rewrite <- E; assumption].
  - apply SH_halt; [assumption | rewrite <- E; assumption | assumption].
  - apply SH_err; [assumption | rewrite <- E; assumption | assumption].
  - apply SH_panic; [assumption | rewrite <- E; assumption | assumption].
  - apply SH_bp; [assumption | rewrite <- E; assumption | assumption | assumption].
Qed.

Lemma quiet_at_ext bps T T' its s j :
  (forall x, T j x = T' j x) -> quiet_at bps T its s j -> quiet_at bps T' its s j.
Proof.
  intros E (it & b & b' & Hn & Hi & Hm & Ht & He & Hb).
  exists it, b, b'. repeat split; try assumption. rewrite <- E. exact Ht.
Qed.

Lemma first_stop_ext bps T T' its s s' st n :
  (forall j x, T j x = T' j x) -> first_stop bps T its s s' st n -> first_stop bps T' its s s' st n.
Proof.
  intros E (j & it & b & Hq & Hn & Hi & Hs).
  exists j, it, b. repeat split; try assumption.
  - intros i Hi'. apply (quiet_at_ext bps T T'); [intro; apply E | apply Hq; exact Hi'].
  - apply (stop_here_ext bps T T'); [intro; apply E | exact Hs].
Qed.

(* ------------------------------------------------------------------ one more iteration in front *)
Lemma quiet_at_cons bps T it rest s s2 i :
  exec_iter it s = (s2, inl tt) ->
  quiet_at bps (fun j => T (S j)) rest s2 i -> quiet_at bps T (it :: rest) s (S i).
Proof.
  intros Hex (it' & b & b' & Hn & Hi & Hm & Ht & He & Hb).
  exists it', b, b'. repeat split; try assumption.
  cbn [iter_steps]. rewrite Hex. exact Hi.
Qed.

Lemma stop_here_S bps T j it b s' st n :
  stop_here bps (fun j => T (S j)) j it b s' st n -> stop_here bps T (S j) it b s' st (S n).
Proof.
  intro H. destruct H.
  - apply SH_mcr; assumption.
  - apply SH_trip; assumption.
  - apply SH_halt; assumption.
  - apply SH_err; assumption.
  - apply SH_panic; assumption.
  - apply SH_bp; assumption.
Qed.

Lemma first_stop_cons bps T it rest s s2 s' st n :
  s_mcr (pre_state it s) = true -> T O (pre_state it s) = true ->
  exec_iter it s = (s2, inl tt) -> any_bp bps s2 = false ->
  first_stop bps (fun j => T (S j)) rest s2 s' st n ->
  first_stop bps T (it :: rest) s s' st (S n).
Proof.
  intros Hm Ht Hex Hb (j & it' & b & Hq & Hn & Hi & Hs).
  exists (S j), it', b. repeat split.
  - intros i Hlt. destruct i as [|i].
    + exists it, s, s2. repeat split; assumption.
    + apply (quiet_at_cons bps T it rest s s2 i Hex). apply Hq. lia.
  - exact Hn.
  - cbn [iter_steps]. rewrite Hex. exact Hi.
  - apply stop_here_S. exact Hs.
Qed.

Lemma first_stop_now bps T it rest s s' st n :
  stop_here bps T O it s s' st n -> first_stop bps T (it :: rest) s s' st n.
Proof.
  intro H. exists O, it, s. repeat split; try assumption; try reflexivity. intros i Hi. lia.
Qed.

(* ------------------------------------------------------------------ the loop is the first stop *)
Lemma run_loop_first_stop bps trip : forall its k s s' st n,
  run_loop bps trip k its s = (s', st, n) -> st <> SFuel ->
  exists n', n = (k + n')%nat /\ first_stop bps (fun j => trip (k + j)%nat) its s s' st n'.
Proof.
  induction its as [|it rest IH]; intros k s s' st n H Hf.
  - cbn [run_loop] in H. inversion H; subst. congruence.
  - cbn [run_loop] in H.
    assert (Ek : forall x, trip k x = trip (k + 0)%nat x) by (intro; rewrite Nat.add_0_r; reflexivity).
    destruct (s_mcr (clear_if (it_pre it) s)) eqn:Hm; cbn [negb] in H.
    2:{ inversion H; subst. exists O. split; [lia|]. apply first_stop_now. apply SH_mcr. exact Hm. }
    destruct (trip k (clear_if (it_pre it) s)) eqn:Ht; cbn [negb] in H.
    2:{ inversion H; subst. exists O. split; [lia|]. apply first_stop_now.
        apply SH_trip; [exact Hm|]. cbv beta. rewrite <- Ek. exact Ht. }
    destruct (step (it_env it) (clear_if (it_mid it) (clear_if (it_pre it) s))) as [s2 r] eqn:Hs.
    destruct r as [[]|[| e |]].
    + destruct (any_bp bps s2) eqn:Hb.
      * inversion H; subst. exists 1%nat. split; [lia|]. apply first_stop_now.
        apply SH_bp; try assumption. cbv beta. rewrite <- Ek. exact Ht.
      * destruct (IH (S k) s2 s' st n H Hf) as (n' & Hn & Hfs).
        exists (S n'). split; [lia|].
        apply (first_stop_cons bps (fun j => trip (k + j)%nat) it rest s s2); try assumption.
        { cbv beta. rewrite <- Ek. exact Ht. }
        apply (first_stop_ext bps (fun j => trip (S k + j)%nat)); [|exact Hfs].
        intros j x. cbv beta. rewrite Nat.add_succ_r. reflexivity.
    + inversion H; subst. exists 1%nat. split; [lia|]. apply first_stop_now.
      apply SH_halt; try assumption. cbv beta. rewrite <- Ek. exact Ht.
    + inversion H; subst. exists 1%nat. split; [lia|]. apply first_stop_now.
      apply SH_err; try assumption. cbv beta. rewrite <- Ek. exact Ht.
    + inversion H; subst. exists 1%nat. split; [lia|]. apply first_stop_now.
      apply SH_panic; try assumption. cbv beta. rewrite <- Ek. exact Ht.
Qed.

(* the description determines the result: at most one (state, reason, count) is a first stop *)
Lemma iter_steps_S its : forall j s b it,
  iter_steps its j s = Some b -> nth_error its j = Some it ->
  forall b', exec_iter it b = (b', inl tt) -> iter_steps its (S j) s = Some b'.
Proof.
  induction its as [|i0 rest IH]; intros j s b it Hi Hn b' He.
  - destruct j; cbn in Hn; discriminate.
  - destruct j as [|j].
    + cbn in Hi, Hn. inversion Hi; inversion Hn; subst. cbn [iter_steps]. rewrite He. reflexivity.
    + cbn [iter_steps] in Hi |- *. cbn [nth_error] in Hn.
      destruct (exec_iter i0 s) as [s1 [[]|]] eqn:E0; [|discriminate].
      exact (IH j s1 b it Hi Hn b' He).
Qed.

Lemma stop_here_pred bps T j it b s' st n :
  stop_here bps T (S j) it b s' st n ->
  exists m, n = S m /\ stop_here bps (fun j => T (S j)) j it b s' st m.
Proof.
  intro H. inversion H; subst.
  - exists j. split; [reflexivity|]. apply SH_mcr; assumption.
  - exists j. split; [reflexivity|]. apply SH_trip; assumption.
  - exists (S j). split; [reflexivity|]. apply SH_halt; assumption.
  - exists (S j). split; [reflexivity|]. apply SH_err; assumption.
  - exists (S j). split; [reflexivity|]. apply SH_panic; assumption.
  - exists (S j). split; [reflexivity|]. apply SH_bp; assumption.
Qed.

Lemma first_stop_uncons bps T it rest s s' st n j it' b :
  (forall i, (i < S j)%nat -> quiet_at bps T (it :: rest) s i) ->
  nth_error (it :: rest) (S j) = Some it' -> iter_steps (it :: rest) (S j) s = Some b ->
  stop_here bps T (S j) it' b s' st n ->
  exists s2 m, s_mcr (pre_state it s) = true /\ T O (pre_state it s) = true /\
    exec_iter it s = (s2, inl tt) /\ any_bp bps s2 = false /\ n = S m /\
    first_stop bps (fun j => T (S j)) rest s2 s' st m.
Proof.
  intros Hq Hn Hi Hs.
  destruct (Hq O ltac:(lia)) as (it0 & b0 & b1 & Hn0 & Hi0 & Hm0 & Ht0 & He0 & Hb0).
  cbn in Hn0, Hi0. inversion Hn0; inversion Hi0; subst it0 b0. clear Hn0 Hi0.
  destruct (stop_here_pred _ _ _ _ _ _ _ _ Hs) as (m & En & Hs').
  exists b1, m. repeat split; try assumption.
  exists j, it', b. repeat split.
  - intros i Hlt. destruct (Hq (S i) ltac:(lia)) as (iti & bi & bi' & Hni & Hii & Hmi & Hti & Hei & Hbi).
    exists iti, bi, bi'. cbn [nth_error] in Hni. cbn [iter_steps] in Hii. rewrite He0 in Hii.
    repeat split; assumption.
  - exact Hn.
  - cbn [iter_steps] in Hi. rewrite He0 in Hi. exact Hi.
  - exact Hs'.
Qed.

Lemma first_stop_run_loop bps trip : forall its k s s' st n,
  first_stop bps (fun j => trip (k + j)%nat) its s s' st n ->
  run_loop bps trip k its s = (s', st, (k + n)%nat).
Proof.
  induction its as [|it rest IH]; intros k s s' st n (j & it' & b & Hq & Hn & Hi & Hs).
  - destruct j; cbn in Hn; discriminate.
  - cbn [run_loop].
    assert (Ek : forall x, trip (k + 0)%nat x = trip k x) by (intro; rewrite Nat.add_0_r; reflexivity).
    destruct j as [|j].
    + cbn in Hn, Hi. inversion Hn; inversion Hi; subst it' b. clear Hn Hi Hq.
      unfold exec_iter, pre_state in Hs.
      inversion Hs as [Hm | Hm Ht | s2 Hm Ht He | s2 e Hm Ht He | s2 Hm Ht He | s2 Hm Ht He Hb]; subst;
        cbv beta in *; try rewrite Ek in Ht; unfold exec_iter, pre_state in *; rewrite Hm; cbn [negb].
      * rewrite Nat.add_0_r. reflexivity.
      * rewrite Ht. cbn [negb]. rewrite Nat.add_0_r. reflexivity.
      * rewrite Ht. cbn [negb]. rewrite He. rewrite Nat.add_1_r. reflexivity.
      * rewrite Ht. cbn [negb]. rewrite He. rewrite Nat.add_1_r. reflexivity.
      * rewrite Ht. cbn [negb]. rewrite He. rewrite Nat.add_1_r. reflexivity.
      * rewrite Ht. cbn [negb]. rewrite He. rewrite Hb. rewrite Nat.add_1_r. reflexivity.
    + destruct (first_stop_uncons _ _ _ _ _ _ _ _ _ _ _ Hq Hn Hi Hs) as (s2 & m & Hm0 & Ht0 & He0 & Hb0 & En & Hfs).
      cbv beta in Ht0. rewrite Ek in Ht0. unfold pre_state in Hm0, Ht0. rewrite Hm0, Ht0. cbn [negb].
      unfold exec_iter, pre_state in He0. rewrite He0, Hb0. subst n.
      replace (k + S m)%nat with (S k + m)%nat by lia.
      apply IH. apply (first_stop_ext bps (fun j0 => trip (k + S j0)%nat)); [|exact Hfs].
      intros j0 x. cbv beta. rewrite Nat.add_succ_r. reflexivity.
Qed.

(* ================================================================== run_while as a whole *)
Lemma run_while_finish bps T its sp :
  run_while bps T its sp =
  (let '(s1, st, n) := run_loop bps T O its (start (fst sp)) in (finish s1 st, n)).
Proof.
  unfold run_while, start. destruct (run_loop bps T 0 its (upd_mcr (upd_obs (fst sp) []) true)) as [[s1 st] n].
  destruct st; reflexivity.
Qed.

Lemma finish_fuel s1 st x : finish s1 st = (x, RFuel) -> st = SFuel.
Proof. destruct st; cbn; intro H; inversion H; reflexivity. Qed.

(* C13_run_is_iter: the call returns exactly the first stop of repeated stepping *)
Lemma run_while_is_iter bps T its sp sp' r n :
  r <> RFuel ->
  (run_while bps T its sp = (sp', r, n) <->
   exists s1 st, first_stop bps T its (start (fst sp)) s1 st n /\ finish s1 st = (sp', r)).
Proof.
  intro Hr. rewrite run_while_finish. split.
  - destruct (run_loop bps T 0 its (start (fst sp))) as [[s1 st] n0] eqn:E. intro H. inversion H; subst.
    destruct (run_loop_first_stop bps T its O _ _ _ _ E) as (n' & En & Hfs).
    { intro; subst st. cbn in H1. inversion H1. congruence. }
    exists s1, st. split; [|first [reflexivity | exact H1]]. cbn in En. subst. exact Hfs.
  - intros (s1 & st & Hfs & Hfin).
    rewrite (first_stop_run_loop bps T its O _ s1 st n Hfs). cbn [Nat.add]. rewrite Hfin. reflexivity.
Qed.

(* ------------------------------------------------------------------ reading a first stop *)
Lemma iter_steps_fun its j s b b' : iter_steps its j s = Some b -> iter_steps its j s = Some b' -> b = b'.
Proof. intros H H'. rewrite H in H'. inversion H'. reflexivity. Qed.

Lemma first_stop_count bps T its s s' st n :
  first_stop bps T its s s' st n ->
  exists j, (forall i, (i < j)%nat -> quiet_at bps T its s i) /\ (n = j \/ n = S j).
Proof.
  intros (j & it & b & Hq & _ & _ & Hs). exists j. split; [exact Hq|].
  destruct Hs; auto.
Qed.

Lemma first_stop_tripwire bps T its s s' n :
  first_stop bps T its s s' (SPause PTripwire) n ->
  exists it b, nth_error its n = Some it /\ iter_steps its n s = Some b /\ s' = pre_state it b /\
    s_mcr s' = true /\ T n s' = false /\ (forall i, (i < n)%nat -> quiet_at bps T its s i).
Proof.
  intros (j & it & b & Hq & Hn & Hi & Hs). inversion Hs; subst.
  exists it, b. repeat split; assumption.
Qed.

Lemma clear_if_frame_no b s : s_frame_no (clear_if b s) = s_frame_no s.
Proof. destruct b; reflexivity. Qed.
Lemma clear_if_instrs b s : s_instrs (clear_if b s) = s_instrs s.
Proof. destruct b; reflexivity. Qed.
Lemma clear_if_mcr_off b s : s_mcr s = false -> s_mcr (clear_if b s) = false.
Proof. destruct b; [reflexivity | auto]. Qed.
Lemma clear_if_true_mcr s : s_mcr (clear_if true s) = false.
Proof. reflexivity. Qed.

(* C13_over / C13_out: the depth-based stop *)
Lemma over_stop bps its s0 d0 s1 n :
  first_stop bps (trip_over d0) its s0 s1 (SPause PTripwire) n ->
  (1 <= n)%nat /\ s_frame_no s1 <= d0 /\
  forall i b, (1 <= i < n)%nat -> iter_steps its i s0 = Some b -> d0 < s_frame_no b.
Proof.
  intro H. destruct (first_stop_tripwire _ _ _ _ _ _ H) as (it & b & Hn & Hi & Es & Hm & Ht & Hq).
  destruct n as [|n]; [cbn in Ht; discriminate|]. cbn [trip_over] in Ht.
  repeat split.
  - lia.
  - apply Z.ltb_ge in Ht. exact Ht.
  - intros i bi [Hi1 Hi2] Hbi. destruct (Hq i Hi2) as (iti & b0 & b0' & _ & Hb0 & _ & Hti & _).
    rewrite (iter_steps_fun _ _ _ _ _ Hbi Hb0).
    destruct i as [|i]; [lia|]. cbn [trip_over] in Hti. unfold pre_state in Hti.
    rewrite clear_if_frame_no in Hti. apply Z.ltb_lt in Hti. exact Hti.
Qed.

Lemma out_stop bps its s0 d0 s1 n :
  first_stop bps (trip_out d0) its s0 s1 (SPause PTripwire) n ->
  (1 <= n)%nat /\ s_frame_no s1 < d0 /\
  forall i b, (1 <= i < n)%nat -> iter_steps its i s0 = Some b -> d0 <= s_frame_no b.
Proof.
  intro H. destruct (first_stop_tripwire _ _ _ _ _ _ H) as (it & b & Hn & Hi & Es & Hm & Ht & Hq).
  destruct n as [|n]; [cbn in Ht; discriminate|]. cbn [trip_out] in Ht.
  repeat split.
  - lia.
  - apply Z.leb_gt in Ht. exact Ht.
  - intros i bi [Hi1 Hi2] Hbi. destruct (Hq i Hi2) as (iti & b0 & b0' & _ & Hb0 & _ & Hti & _).
    rewrite (iter_steps_fun _ _ _ _ _ Hbi Hb0).
    destruct i as [|i]; [lia|]. cbn [trip_out] in Hti. unfold pre_state in Hti.
    rewrite clear_if_frame_no in Hti. apply Z.leb_le in Hti. exact Hti.
Qed.

Lemma step_over_spec bps its sp sp' r n :
  step_over bps its sp = (sp', r, n) -> r <> RFuel ->
  exists s1 st, first_stop bps (trip_over (s_frame_no (fst sp))) its (start (fst sp)) s1 st n /\
    finish s1 st = (sp', r) /\
    (st = SPause PTripwire ->
       (1 <= n)%nat /\ s_frame_no s1 <= s_frame_no (fst sp) /\
       forall i b, (1 <= i < n)%nat -> iter_steps its i (start (fst sp)) = Some b -> s_frame_no (fst sp) < s_frame_no b).
Proof.
  unfold step_over. intros H Hr. apply (run_while_is_iter _ _ _ _ _ _ _ Hr) in H.
  destruct H as (s1 & st & Hfs & Hfin). exists s1, st. repeat split; try assumption;
    subst st; destruct (over_stop _ _ _ _ _ _ Hfs) as (A & B & C); assumption.
Qed.

Lemma step_out_spec bps its sp sp' r n :
  step_out bps its sp = (sp', r, n) -> r <> RFuel ->
  (s_frame_no (fst sp) = 0 /\ sp' = sp /\ r = ROk /\ n = O) \/
  (s_frame_no (fst sp) <> 0 /\
   exists s1 st, first_stop bps (trip_out (s_frame_no (fst sp))) its (start (fst sp)) s1 st n /\
    finish s1 st = (sp', r) /\
    (st = SPause PTripwire ->
       (1 <= n)%nat /\ s_frame_no s1 < s_frame_no (fst sp) /\
       forall i b, (1 <= i < n)%nat -> iter_steps its i (start (fst sp)) = Some b -> s_frame_no (fst sp) <= s_frame_no b)).
Proof.
  unfold step_out. intros H Hr. destruct (s_frame_no (fst sp) =? 0) eqn:E.
  - left. apply Z.eqb_eq in E. inversion H; subst. auto.
  - right. apply Z.eqb_neq in E. split; [exact E|].
    apply (run_while_is_iter _ _ _ _ _ _ _ Hr) in H.
    destruct H as (s1 & st & Hfs & Hfin). exists s1, st. repeat split; try assumption;
      subst st; destruct (out_stop _ _ _ _ _ _ Hfs) as (A & B & C); assumption.
Qed.

(* ------------------------------------------------------------------ C13_mcr_one_more *)
(* a clear that arrives before the MCR test of iteration j: instruction j does not run *)
Lemma mcr_pre_zero_more bps T its s s' st n j it :
  first_stop bps T its s s' st n -> nth_error its j = Some it -> it_pre it = true ->
  (n <= j)%nat.
Proof.
  intros (J & itJ & b & Hq & HnJ & Hi & Hs) Hn Hp.
  assert (HJ : (J <= j)%nat).
  { destruct (Nat.le_gt_cases J j) as [|Hlt]; [assumption|].
    destruct (Hq j Hlt) as (it0 & b0 & b0' & Hn0 & _ & Hm0 & _). rewrite Hn in Hn0. inversion Hn0; subst it0.
    unfold pre_state in Hm0. rewrite Hp in Hm0. cbn in Hm0. discriminate. }
  destruct (Nat.eq_dec J j) as [->|Hne].
  - rewrite Hn in HnJ. inversion HnJ; subst itJ.
    assert (Hoff : s_mcr (pre_state it b) = false) by (unfold pre_state; rewrite Hp; reflexivity).
    inversion Hs; subst; try congruence; lia.
  - destruct Hs; lia.
Qed.

(* a clear that arrives after the tests of iteration j passed: instruction j still runs; if it
   leaves the MCR off (it does not itself write the MCR on again), nothing more runs *)
Lemma mcr_mid_one_more bps T its s s' st n j it :
  first_stop bps T its s s' st n -> nth_error its j = Some it ->
  (forall b b', iter_steps its j s = Some b -> exec_iter it b = (b', inl tt) -> s_mcr b' = false) ->
  (n <= S j)%nat.
Proof.
  intros (J & itJ & b & Hq & HnJ & Hi & Hs) Hn Hoff.
  destruct (Nat.le_gt_cases J j) as [Hle|Hlt]; [destruct Hs; lia|].
  (* iteration j was quiet, so boundary j+1 is the state after instruction j: MCR off there *)
  destruct (Hq j Hlt) as (it0 & b0 & b0' & Hn0 & Hi0 & _ & _ & He0 & _).
  rewrite Hn in Hn0. inversion Hn0; subst it0.
  pose proof (Hoff _ _ Hi0 He0) as Hm.
  pose proof (iter_steps_S _ _ _ _ _ Hi0 Hn _ He0) as HiS.
  destruct (Nat.eq_dec J (S j)) as [->|Hne].
  - rewrite (iter_steps_fun _ _ _ _ _ Hi HiS) in Hs.
    assert (Hoff' : s_mcr (pre_state itJ b0') = false) by (unfold pre_state; apply clear_if_mcr_off; exact Hm).
    inversion Hs; subst; try congruence. lia.
  - exfalso. assert (HltS : (S j < J)%nat) by lia.
    destruct (Hq (S j) HltS) as (it1 & b1 & b1' & _ & Hi1 & Hm1 & _).
    rewrite (iter_steps_fun _ _ _ _ _ Hi1 HiS) in Hm1.
    unfold pre_state in Hm1. rewrite (clear_if_mcr_off _ _ Hm) in Hm1. discriminate.
Qed.

(* ================================================================== the instruction limit *)
Ltac Zify.zify_post_hook ::= Z.div_mod_to_equations.

Lemma exec_iter_instrs it s s' r : exec_iter it s = (s', r) -> instrs_post s s' r.
Proof.
  unfold exec_iter, pre_state. intro H. apply step_instrs in H. unfold instrs_post in *.
  rewrite !clear_if_instrs in H. exact H.
Qed.

Lemma count_step i0 max I I' :
  0 <= max < 18446744073709551616 -> (I - i0) mod 18446744073709551616 < max ->
  (I' = I \/ I' = (I + 1) mod 18446744073709551616) ->
  (I' - i0) mod 18446744073709551616 <= max.
Proof. intros Hm Hd [->| ->]; lia. Qed.

Lemma limit_loop bps i0 max : 0 <= max < Run.U64 -> forall its k s s' st n,
  run_loop bps (trip_limit i0 max) k its s = (s', st, n) ->
  (s_instrs s - i0) mod Run.U64 <= max ->
  (s_instrs s' - i0) mod Run.U64 <= max /\
  (st = SPause PTripwire -> (s_instrs s' - i0) mod Run.U64 = max).
Proof.
  unfold Run.U64. intro Hmax. induction its as [|it rest IH]; intros k s s' st n H Hd.
  - cbn in H. inversion H; subst. split; [exact Hd | discriminate].
  - cbn [run_loop] in H.
    destruct (s_mcr (clear_if (it_pre it) s)); cbn [negb] in H.
    2:{ inversion H; subst. rewrite clear_if_instrs. split; [exact Hd | discriminate]. }
    destruct (trip_limit i0 max k (clear_if (it_pre it) s)) eqn:Ht; cbn [negb] in H.
    2:{ inversion H; subst. unfold trip_limit, Run.U64 in Ht. rewrite clear_if_instrs in *.
        apply Z.ltb_ge in Ht. split; [exact Hd | intros _; lia]. }
    unfold trip_limit, Run.U64 in Ht. rewrite clear_if_instrs in Ht. apply Z.ltb_lt in Ht.
    destruct (step (it_env it) (clear_if (it_mid it) (clear_if (it_pre it) s))) as [s2 r] eqn:Hs.
    assert (Hp : instrs_post s s2 r) by (apply (exec_iter_instrs it); exact Hs).
    assert (Hd2 : (s_instrs s2 - i0) mod 18446744073709551616 <= max).
    { apply (count_step i0 max (s_instrs s)); [exact Hmax | exact Ht |].
      destruct Hp as [Hp|[_ Hp]]; [left | right]; exact Hp. }
    destruct r as [[]|[| e |]].
    + destruct (any_bp bps s2).
      * inversion H; subst. split; [exact Hd2 | discriminate].
      * exact (IH _ _ _ _ _ H Hd2).
    + inversion H; subst. split; [exact Hd2 | discriminate].
    + inversion H; subst. split; [exact Hd2 | discriminate].
    + inversion H; subst. split; [exact Hd2 | discriminate].
Qed.

Lemma finish_instrs s1 st : s_instrs (fst (fst (finish s1 st))) = s_instrs s1.
Proof. destruct st; reflexivity. Qed.

(* C13_limit *)
Lemma run_with_limit_count bps max its sp sp' r n :
  0 <= max < Run.U64 -> run_with_limit bps max its sp = (sp', r, n) ->
  (s_instrs (fst sp') - s_instrs (fst sp)) mod Run.U64 <= max /\
  (r = ROk -> snd sp' = PTripwire -> (s_instrs (fst sp') - s_instrs (fst sp)) mod Run.U64 = max).
Proof.
  intros Hmax H. unfold run_with_limit in H. rewrite run_while_finish in H.
  destruct (run_loop bps (trip_limit (s_instrs (fst sp)) max) 0 its (start (fst sp))) as [[s1 st] n0] eqn:E.
  injection H as H1 H2.
  assert (E0 : (s_instrs (start (fst sp)) - s_instrs (fst sp)) mod Run.U64 <= max).
  { unfold start. cbn [s_instrs upd_mcr upd_obs]. rewrite Z.sub_diag. unfold Run.U64. cbn. lia. }
  destruct (limit_loop bps _ max Hmax its _ _ _ _ _ E E0) as [A B].
  pose proof (finish_instrs s1 st) as F. rewrite H1 in F. cbn [fst] in F. rewrite F.
  split; [exact A|]. intros Hr Hp. apply B.
  destruct st; cbn in H1; injection H1 as H3 H4; subst; try discriminate.
  cbn in Hp. subst. reflexivity.
Qed.

(* ================================================================== the observer does not matter *)
Lemma bp_check_obs b s o : bp_check b (upd_obs s o) = bp_check b s.
Proof. destruct b; reflexivity. Qed.
Lemma any_bp_obs bps s o : any_bp bps (upd_obs s o) = any_bp bps s.
Proof.
  unfold any_bp. induction bps as [|b r IH]; [reflexivity|].
  cbn [existsb]. rewrite bp_check_obs, IH. reflexivity.
Qed.
Lemma clear_if_obs b s o : clear_if b (upd_obs s o) = upd_obs (clear_if b s) o.
Proof. destruct b; reflexivity. Qed.

Definition trip_ignores_obs (T : tripwire) : Prop := forall k x o, T k (upd_obs x o) = T k x.

Lemma run_loop_obs bps T : trip_ignores_obs T -> forall its k s o s' st n,
  run_loop bps T k its s = (s', st, n) ->
  exists o', run_loop bps T k its (upd_obs s o) = (upd_obs s' o', st, n).
Proof.
  intro HT. induction its as [|it rest IH]; intros k s o s' st n H.
  - cbn in *. inversion H; subst. exists o. reflexivity.
  - cbn [run_loop] in *. rewrite clear_if_obs. rewrite HT.
    change (s_mcr (upd_obs (clear_if (it_pre it) s) o)) with (s_mcr (clear_if (it_pre it) s)).
    destruct (s_mcr (clear_if (it_pre it) s)); cbn [negb] in *.
    2:{ inversion H; subst. exists o. reflexivity. }
    destruct (T k (clear_if (it_pre it) s)); cbn [negb] in *.
    2:{ inversion H; subst. exists o. reflexivity. }
    rewrite clear_if_obs.
    destruct (step_obs (it_env it) (clear_if (it_mid it) (clear_if (it_pre it) s)) o) as [o1 E1].
    rewrite E1.
    destruct (step (it_env it) (clear_if (it_mid it) (clear_if (it_pre it) s))) as [s2 r].
    cbn [fst snd]. destruct r as [[]|[| e |]].
    + rewrite any_bp_obs. destruct (any_bp bps s2).
      * inversion H; subst. exists o1. reflexivity.
      * exact (IH _ _ o1 _ _ _ H).
    + inversion H; subst. exists o1. reflexivity.
    + inversion H; subst. exists o1. reflexivity.
    + inversion H; subst. exists o1. reflexivity.
Qed.

Lemma trip_limit_ignores_obs i m : trip_ignores_obs (trip_limit i m).
Proof. intros k x o. reflexivity. Qed.

(* ------------------------------------------------------------------ repeated step_in *)
Definition brk_outcome (r : unit + brk) : outcome :=
  match r with inl _ => OOk | inr BHalt => OHalt | inr (BErr e) => OErr e | inr BPanic => OPanic end.

Lemma exec_iter_step_in it s o s' r :
  exec_iter it s = (s', r) ->
  exists o', step_in (it_env it) (clear_if (it_mid it) (pre_state it (upd_obs s o))) = (upd_obs s' o', brk_outcome r).
Proof.
  unfold exec_iter, pre_state, step_in. intro H. rewrite !clear_if_obs.
  change (upd_obs (upd_obs (clear_if (it_mid it) (clear_if (it_pre it) s)) o) [])
    with (upd_obs (clear_if (it_mid it) (clear_if (it_pre it) s)) []).
  destruct (step_obs (it_env it) (clear_if (it_mid it) (clear_if (it_pre it) s)) []) as [o' E].
  rewrite E, H. cbn [fst snd]. exists o'. destruct r as [[]|[| e |]]; reflexivity.
Qed.

Lemma iter_steps_step_in : forall n its s o b,
  iter_steps its n s = Some b -> exists o', step_in_n its n (upd_obs s o) = Some (upd_obs b o').
Proof.
  induction n as [|n IH]; intros its s o b H.
  - cbn in *. inversion H; subst. exists o. reflexivity.
  - cbn [iter_steps step_in_n] in *. destruct its as [|it rest]; [discriminate|].
    destruct (exec_iter it s) as [s1 r] eqn:E. destruct r as [[]|]; [|discriminate].
    destruct (exec_iter_step_in it s o _ _ E) as [o1 E1]. rewrite E1. cbn [brk_outcome].
    exact (IH rest s1 o1 b H).
Qed.

Lemma upd_obs_same s : upd_obs s (s_obs s) = s.
Proof. destruct s; reflexivity. Qed.

Lemma steps_are_step_in its n s b :
  iter_steps its n s = Some b -> exists b', step_in_n its n s = Some b' /\ same_but_obs b b'.
Proof.
  intro H. destruct (iter_steps_step_in n its s (s_obs s) b H) as [o' E].
  rewrite upd_obs_same in E. exists (upd_obs b o'). split; [exact E | reflexivity].
Qed.

(* ================================================================== splitting a limited run *)
Lemma rebase_step a b i0 i1 I I' d2 :
  0 <= a -> 0 <= b -> a + b < 18446744073709551616 -> 0 <= d2 < b ->
  (I - i1) mod 18446744073709551616 = d2 -> (I - i0) mod 18446744073709551616 = a + d2 ->
  (I' = I \/ I' = (I + 1) mod 18446744073709551616) ->
  exists d2', 0 <= d2' <= b /\ (I' - i1) mod 18446744073709551616 = d2' /\
              (I' - i0) mod 18446744073709551616 = a + d2'.
Proof.
  intros Ha Hb Hab Hd E1 E0 [->| ->].
  - exists d2. repeat split; try lia; assumption.
  - exists (d2 + 1). repeat split; lia.
Qed.

Definition rebased (a b i0 i1 : Z) (s : sim) : Prop :=
  exists d2, 0 <= d2 <= b /\ (s_instrs s - i1) mod 18446744073709551616 = d2 /\
             (s_instrs s - i0) mod 18446744073709551616 = a + d2.

(* the second segment's tripwire (b more instructions from count i1) and the whole run's tripwire
   (a+b instructions from count i0) agree along the second segment *)
Lemma limit_rebase bps i0 i1 a b : 0 <= a -> 0 <= b -> a + b < Run.U64 ->
  forall its k k' s s' st n,
  rebased a b i0 i1 s ->
  run_loop bps (trip_limit i1 b) k its s = (s', st, n) ->
  exists m, n = (k + m)%nat /\ run_loop bps (trip_limit i0 (a + b)) k' its s = (s', st, (k' + m)%nat).
Proof.
  unfold Run.U64. intros Ha Hb Hab. induction its as [|it rest IH]; intros k k' s s' st n Hinv H.
  - cbn in *. inversion H; subst. exists O. rewrite !Nat.add_0_r. split; reflexivity.
  - cbn [run_loop] in *.
    destruct (s_mcr (clear_if (it_pre it) s)); cbn [negb] in *.
    2:{ inversion H; subst. exists O. rewrite !Nat.add_0_r. split; reflexivity. }
    destruct Hinv as (d2 & Hd2 & E1 & E0).
    assert (Et : trip_limit i0 (a + b) k' (clear_if (it_pre it) s) = trip_limit i1 b k (clear_if (it_pre it) s)).
    { unfold trip_limit, Run.U64. rewrite clear_if_instrs, E1, E0.
      destruct (d2 <? b) eqn:X; [apply Z.ltb_lt in X; apply Z.ltb_lt; lia | apply Z.ltb_ge in X; apply Z.ltb_ge; lia]. }
    rewrite Et.
    destruct (trip_limit i1 b k (clear_if (it_pre it) s)) eqn:Ht; cbn [negb] in *.
    2:{ inversion H; subst. exists O. rewrite !Nat.add_0_r. split; reflexivity. }
    unfold trip_limit, Run.U64 in Ht. rewrite clear_if_instrs, E1 in Ht. apply Z.ltb_lt in Ht.
    destruct (step (it_env it) (clear_if (it_mid it) (clear_if (it_pre it) s))) as [s2 r] eqn:Hs.
    assert (Hp : instrs_post s s2 r) by (apply (exec_iter_instrs it); exact Hs).
    assert (Hinv2 : rebased a b i0 i1 s2).
    { apply (rebase_step a b i0 i1 (s_instrs s) (s_instrs s2) d2); try assumption; try lia.
      destruct Hp as [Hp|[_ Hp]]; [left | right]; exact Hp. }
    destruct r as [[]|[| e |]].
    + destruct (any_bp bps s2).
      * inversion H; subst. exists 1%nat. rewrite !Nat.add_1_r. split; reflexivity.
      * destruct (IH (S k) (S k') _ _ _ _ Hinv2 H) as (m & En & Hrun).
        exists (S m). split; [lia|]. rewrite Hrun. f_equal. lia.
    + inversion H; subst. exists 1%nat. rewrite !Nat.add_1_r. split; reflexivity.
    + inversion H; subst. exists 1%nat. rewrite !Nat.add_1_r. split; reflexivity.
    + inversion H; subst. exists 1%nat. rewrite !Nat.add_1_r. split; reflexivity.
Qed.

(* the first segment, replayed under the larger limit, reaches the seam and goes on with the
   inputs of the second segment *)
Lemma limit_prefix bps i0 a b its2 : 0 <= b ->
  forall its1 k s s1 n,
  run_loop bps (trip_limit i0 a) k its1 s = (s1, SPause PTripwire, n) ->
  exists m, n = (k + m)%nat /\ s_mcr s1 = true /\
    run_loop bps (trip_limit i0 (a + b)) k (firstn m its1 ++ its2) s =
    run_loop bps (trip_limit i0 (a + b)) n its2 s1.
Proof.
  intro Hb. induction its1 as [|it rest IH]; intros k s s1 n H.
  - cbn in H. inversion H.
  - cbn [run_loop] in H.
    destruct (s_mcr (clear_if (it_pre it) s)) eqn:Hm; cbn [negb] in H; [|inversion H].
    destruct (trip_limit i0 a k (clear_if (it_pre it) s)) eqn:Ht; cbn [negb] in H.
    2:{ inversion H; subst. exists O. rewrite Nat.add_0_r. split; [reflexivity|]. split; [exact Hm|].
        cbn [firstn app]. destruct (it_pre it); [cbn in Hm; discriminate | reflexivity]. }
    assert (Ht' : trip_limit i0 (a + b) k (clear_if (it_pre it) s) = true).
    { unfold trip_limit in *. apply Z.ltb_lt in Ht. apply Z.ltb_lt. lia. }
    destruct (step (it_env it) (clear_if (it_mid it) (clear_if (it_pre it) s))) as [s2 r] eqn:Hs.
    destruct r as [[]|[| e |]]; try (inversion H; fail).
    destruct (any_bp bps s2) eqn:Hbp; [inversion H|].
    destruct (IH (S k) s2 s1 n H) as (m & En & Hm1 & Hrun).
    exists (S m). split; [lia|]. split; [exact Hm1|].
    cbn [firstn app run_loop]. rewrite Hm, Ht'. cbn [negb]. rewrite Hs, Hbp. exact Hrun.
Qed.

Lemma start_after_pause s1 : s_mcr s1 = true -> start (upd_mcr s1 false) = upd_obs s1 [].
Proof. destruct s1; cbn. intros ->. reflexivity. Qed.

Lemma finish_obs s o st :
  snd (fst (finish (upd_obs s o) st)) = snd (fst (finish s st)) /\
  snd (finish (upd_obs s o) st) = snd (finish s st) /\
  same_but_obs (fst (fst (finish (upd_obs s o) st))) (fst (fst (finish s st))).
Proof. destruct st; repeat split; reflexivity. Qed.

(* C13_split *)
Lemma limit_split bps a b its1 its2 sp sp1 n1 sp2 r2 n2 :
  0 <= a -> 0 <= b -> a + b < Run.U64 ->
  run_with_limit bps a its1 sp = (sp1, ROk, n1) -> snd sp1 = PTripwire ->
  run_with_limit bps b its2 sp1 = (sp2, r2, n2) ->
  exists sp', run_with_limit bps (a + b) (firstn n1 its1 ++ its2) sp = (sp', r2, (n1 + n2)%nat) /\
    snd sp' = snd sp2 /\ same_but_obs (fst sp') (fst sp2).
Proof.
  intros Ha Hb Hab H1 Hp1 H2.
  pose proof (run_with_limit_count bps a its1 sp sp1 ROk n1 ltac:(unfold Run.U64 in *; lia) H1) as [_ Hcount].
  specialize (Hcount eq_refl Hp1).
  unfold run_with_limit in *. rewrite run_while_finish in *.
  destruct (run_loop bps (trip_limit (s_instrs (fst sp)) a) 0 its1 (start (fst sp))) as [[s1 st1] m1] eqn:E1.
  injection H1 as F1 N1. subst m1.
  destruct st1; cbn in F1; try discriminate. injection F1 as F1. subst sp1. cbn in Hp1. subst p.
  cbn [fst snd] in *. cbn [s_instrs upd_mcr] in *.
  destruct (limit_prefix bps (s_instrs (fst sp)) a b its2 Hb its1 O _ _ _ E1) as (m & En & Hm1 & Hrun).
  cbn in En. subst m. rewrite Hrun. clear Hrun.
  rewrite (start_after_pause s1 Hm1) in H2.
  destruct (run_loop bps (trip_limit (s_instrs s1) b) 0 its2 (upd_obs s1 [])) as [[s2 st2] m2] eqn:E2.
  injection H2 as F2 N2. subst m2.
  destruct (run_loop_obs bps _ (trip_limit_ignores_obs (s_instrs s1) b) its2 O _ (s_obs s1) _ _ _ E2) as [o' E2'].
  change (upd_obs (upd_obs s1 []) (s_obs s1)) with (upd_obs s1 (s_obs s1)) in E2'. rewrite upd_obs_same in E2'.
  assert (Hinv : rebased a b (s_instrs (fst sp)) (s_instrs s1) s1).
  { exists 0. split; [lia|]. split; [rewrite Z.sub_diag; reflexivity|].
    unfold Run.U64 in Hcount. rewrite Hcount. lia. }
  destruct (limit_rebase bps (s_instrs (fst sp)) (s_instrs s1) a b Ha Hb Hab its2 O n1 _ _ _ _ Hinv E2') as (m & En & Hrun).
  cbn in En. subst m. rewrite Hrun.
  destruct (finish_obs s2 o' st2) as (P1 & P2 & P3).
  pose proof (f_equal fst F2) as Fa. pose proof (f_equal snd F2) as Fb. cbn [fst snd] in Fa, Fb. subst sp2 r2.
  exists (fst (finish (upd_obs s2 o') st2)).
  repeat split.
  - destruct (finish (upd_obs s2 o') st2) as [x y] eqn:Ef. cbn [fst snd] in *. rewrite P2. reflexivity.
  - exact P1.
  - exact P3.
Qed.

(* ================================================================== statements for props/C13.v *)
Lemma run_loop_iff bps T its s s' st n : st <> SFuel ->
  (run_loop bps T O its s = (s', st, n) <-> first_stop bps T its s s' st n).
Proof.
  intro Hf. split.
  - intro H. destruct (run_loop_first_stop bps T its O s s' st n H Hf) as (n' & En & Hfs).
    cbn in En. subst n'. exact Hfs.
  - intro H. exact (first_stop_run_loop bps T its O s s' st n H).
Qed.

Lemma first_stop_unique bps T its s s1 st1 n1 s2 st2 n2 :
  first_stop bps T its s s1 st1 n1 -> first_stop bps T its s s2 st2 n2 ->
  s1 = s2 /\ st1 = st2 /\ n1 = n2.
Proof.
  intros H1 H2.
  pose proof (first_stop_run_loop bps T its O s s1 st1 n1 H1) as E1.
  pose proof (first_stop_run_loop bps T its O s s2 st2 n2 H2) as E2.
  rewrite E1 in E2. inversion E2. auto.
Qed.

Lemma run_while_mcr_pre bps T its sp sp' r n j it :
  run_while bps T its sp = (sp', r, n) -> r <> RFuel ->
  nth_error its j = Some it -> it_pre it = true -> (n <= j)%nat.
Proof.
  intros H Hr Hn Hp. apply (run_while_is_iter _ _ _ _ _ _ _ Hr) in H. destruct H as (s1 & st & Hfs & _).
  exact (mcr_pre_zero_more _ _ _ _ _ _ _ _ _ Hfs Hn Hp).
Qed.

Lemma run_while_mcr_mid bps T its sp sp' r n j it :
  run_while bps T its sp = (sp', r, n) -> r <> RFuel ->
  nth_error its j = Some it -> it_mid it = true ->
  (forall b b', iter_steps its j (start (fst sp)) = Some b -> exec_iter it b = (b', inl tt) -> s_mcr b' = false) ->
  (n <= S j)%nat.
Proof.
  intros H Hr Hn _ Hoff. apply (run_while_is_iter _ _ _ _ _ _ _ Hr) in H. destruct H as (s1 & st & Hfs & _).
  exact (mcr_mid_one_more _ _ _ _ _ _ _ _ _ Hfs Hn Hoff).
Qed.

(* the MCR is off after every call that returns (the loop is left through the store) *)
Lemma run_while_mcr_off bps T its sp sp' r n :
  run_while bps T its sp = (sp', r, n) -> r = ROk \/ (exists e, r = RErr e) -> s_mcr (fst sp') = false.
Proof.
  rewrite run_while_finish. destruct (run_loop bps T 0 its (start (fst sp))) as [[s1 st] n0].
  intros H Hr. injection H as H _. destruct st; cbn in H; injection H as H1 H2; subst; try reflexivity;
    destruct Hr as [Hr|[e Hr]]; discriminate.
Qed.

(* ================================================================== pause on a tripwire, resume *)
Lemma run_loop_reindex bps T T' : forall its k k' s,
  (forall j x, T (k' + j)%nat x = T' (k + j)%nat x) ->
  forall s' st n, run_loop bps T' k its s = (s', st, n) ->
  exists m, n = (k + m)%nat /\ run_loop bps T k' its s = (s', st, (k' + m)%nat).
Proof.
  induction its as [|it rest IH]; intros k k' s HT s' st n H.
  - cbn in *. inversion H; subst. exists O. rewrite !Nat.add_0_r. split; reflexivity.
  - cbn [run_loop] in *.
    destruct (s_mcr (clear_if (it_pre it) s)); cbn [negb] in *.
    2:{ inversion H; subst. exists O. rewrite !Nat.add_0_r. split; reflexivity. }
    pose proof (HT O (clear_if (it_pre it) s)) as E0. rewrite !Nat.add_0_r in E0. rewrite E0.
    destruct (T' k (clear_if (it_pre it) s)); cbn [negb] in *.
    2:{ inversion H; subst. exists O. rewrite !Nat.add_0_r. split; reflexivity. }
    destruct (step (it_env it) (clear_if (it_mid it) (clear_if (it_pre it) s))) as [s2 r].
    destruct r as [[]|[| e |]].
    + destruct (any_bp bps s2).
      * inversion H; subst. exists 1%nat. rewrite !Nat.add_1_r. split; reflexivity.
      * assert (HT' : forall j x, T (S k' + j)%nat x = T' (S k + j)%nat x).
        { intros j x. pose proof (HT (S j) x) as E. rewrite !Nat.add_succ_r in E. exact E. }
        destruct (IH (S k) (S k') s2 HT' _ _ _ H) as (m & En & Hrun).
        exists (S m). split; [lia|]. rewrite Hrun. f_equal. lia.
    + inversion H; subst. exists 1%nat. rewrite !Nat.add_1_r. split; reflexivity.
    + inversion H; subst. exists 1%nat. rewrite !Nat.add_1_r. split; reflexivity.
    + inversion H; subst. exists 1%nat. rewrite !Nat.add_1_r. split; reflexivity.
Qed.

Lemma tripwire_prefix bps T1 T its2 : forall its1 k s s1 n,
  run_loop bps T1 k its1 s = (s1, SPause PTripwire, n) ->
  (forall j x, (k <= j < n)%nat -> T j x = T1 j x) ->
  exists m, n = (k + m)%nat /\ s_mcr s1 = true /\
    run_loop bps T k (firstn m its1 ++ its2) s = run_loop bps T n its2 s1.
Proof.
  induction its1 as [|it rest IH]; intros k s s1 n H HT.
  - cbn in H. inversion H.
  - cbn [run_loop] in H.
    destruct (s_mcr (clear_if (it_pre it) s)) eqn:Hm; cbn [negb] in H; [|inversion H].
    destruct (T1 k (clear_if (it_pre it) s)) eqn:Ht; cbn [negb] in H.
    2:{ inversion H; subst. exists O. rewrite Nat.add_0_r. split; [reflexivity|]. split; [exact Hm|].
        cbn [firstn app]. destruct (it_pre it); [cbn in Hm; discriminate | reflexivity]. }
    destruct (step (it_env it) (clear_if (it_mid it) (clear_if (it_pre it) s))) as [s2 r] eqn:Hs.
    destruct r as [[]|[| e |]]; try (inversion H; fail).
    destruct (any_bp bps s2) eqn:Hbp; [inversion H|].
    assert (HT' : forall j x, (S k <= j < n)%nat -> T j x = T1 j x) by (intros; apply HT; lia).
    destruct (IH (S k) s2 s1 n H HT') as (m & En & Hm1 & Hrun).
    exists (S m). split; [lia|]. split; [exact Hm1|].
    cbn [firstn app run_loop]. rewrite Hm. rewrite (HT k _ ltac:(lia)), Ht. cbn [negb].
    rewrite Hs, Hbp. exact Hrun.
Qed.

Lemma trip_seq_first n1 T1 T2 j x : (j < n1)%nat -> trip_seq n1 T1 T2 j x = T1 j x.
Proof. intro H. unfold trip_seq. apply Nat.ltb_lt in H. rewrite H. reflexivity. Qed.
Lemma trip_seq_second n1 T1 T2 j x : trip_seq n1 T1 T2 (n1 + j)%nat x = T2 (0 + j)%nat x.
Proof.
  unfold trip_seq. assert (H : (n1 + j <? n1)%nat = false) by (apply Nat.ltb_ge; lia).
  rewrite H. replace (n1 + j - n1)%nat with j by lia. reflexivity.
Qed.

(* a call that pauses on its tripwire and a second call that resumes, against ONE call whose
   tripwire is the first one and then the second one: same result, pause condition, total
   number of instructions and state up to the observer *)
Lemma resume_after_tripwire bps T1 T2 its1 its2 sp sp1 n1 sp2 r2 n2 :
  trip_ignores_obs T2 ->
  run_while bps T1 its1 sp = (sp1, ROk, n1) -> snd sp1 = PTripwire ->
  run_while bps T2 its2 sp1 = (sp2, r2, n2) ->
  exists sp', run_while bps (trip_seq n1 T1 T2) (firstn n1 its1 ++ its2) sp = (sp', r2, (n1 + n2)%nat) /\
    snd sp' = snd sp2 /\ same_but_obs (fst sp') (fst sp2).
Proof.
  intros HT2 H1 Hp1 H2. rewrite run_while_finish in *.
  destruct (run_loop bps T1 0 its1 (start (fst sp))) as [[s1 st1] m1] eqn:E1.
  injection H1 as F1 N1. subst m1.
  destruct st1; cbn in F1; try discriminate. injection F1 as F1. subst sp1. cbn in Hp1. subst p.
  cbn [fst snd] in *.
  destruct (tripwire_prefix bps T1 (trip_seq n1 T1 T2) its2 its1 O _ _ _ E1) as (m & En & Hm1 & Hrun).
  { intros j x Hj. apply trip_seq_first. lia. }
  cbn in En. subst m. rewrite Hrun. clear Hrun.
  rewrite (start_after_pause s1 Hm1) in H2.
  destruct (run_loop bps T2 0 its2 (upd_obs s1 [])) as [[s2 st2] m2] eqn:E2.
  injection H2 as F2 N2. subst m2.
  destruct (run_loop_obs bps _ HT2 its2 O _ (s_obs s1) _ _ _ E2) as [o' E2'].
  change (upd_obs (upd_obs s1 []) (s_obs s1)) with (upd_obs s1 (s_obs s1)) in E2'. rewrite upd_obs_same in E2'.
  destruct (run_loop_reindex bps (trip_seq n1 T1 T2) T2 its2 O n1 s1 (trip_seq_second n1 T1 T2) _ _ _ E2') as (m & En & Hrun).
  cbn in En. subst m. rewrite Hrun.
  destruct (finish_obs s2 o' st2) as (P1 & P2 & P3).
  pose proof (f_equal fst F2) as Fa. pose proof (f_equal snd F2) as Fb. cbn [fst snd] in Fa, Fb. subst sp2 r2.
  exists (fst (finish (upd_obs s2 o') st2)).
  repeat split.
  - destruct (finish (upd_obs s2 o') st2) as [x y] eqn:Ef. cbn [fst snd] in *. rewrite P2. reflexivity.
  - exact P1.
  - exact P3.
Qed.

Lemma trip_over_ignores_obs d : trip_ignores_obs (trip_over d).
Proof. intros k x o. destruct k; reflexivity. Qed.
Lemma trip_out_ignores_obs d : trip_ignores_obs (trip_out d).
Proof. intros k x o. destruct k; reflexivity. Qed.
Lemma trip_true_ignores_obs : trip_ignores_obs trip_true.
Proof. intros k x o. reflexivity. Qed.
Lemma tw_eval_ignores_obs t : trip_ignores_obs (tw_eval t).
Proof. intros k x o. destruct t; reflexivity. Qed.
