(* SessionProofs.v — C30 for the non-machine part of a simulator: reset keeps the breakpoints and
   returns the pause status (hit_halt / hit_breakpoint) to that of a new simulator. *)
From Coq Require Import ZArith List Bool.
From Model Require Import Tree Bits Word Instr Sim SimWire Load Run Session.
Import ListNotations.
Open Scope Z_scope.

Theorem session_reset_keeps e fill ss :
  ss_bps (session_reset e fill ss) = ss_bps ss /\
  ss_sim (session_reset e fill ss) = reset e (ss_sim ss) fill.
Proof. split; reflexivity. Qed.

Theorem session_reset_pause e fill ss :
  ss_pause (session_reset e fill ss) = ss_pause (session_new (s_flags (ss_sim ss)) fill) /\
  hit_halt (ss_pause (session_reset e fill ss)) = false /\
  hit_breakpoint (ss_pause (session_reset e fill ss)) = false.
Proof. repeat split; reflexivity. Qed.

(* the breakpoints of the reset session still stop a run where they did: [any_bp] only reads the list and the machine *)
Theorem session_reset_breakpoints_effective e fill ss s :
  any_bp (ss_bps (session_reset e fill ss)) s = any_bp (ss_bps ss) s.
Proof. reflexivity. Qed.
