(* SimAccess.v — facts about the memory-access primitives of the model used by C09 (privilege),
   C28 (access observer) and C27 (frame stack). *)
From Coq Require Import ZArith List Bool Lia FMapPositive.
From Gen Require Import Constants.
From Model Require Import Tree Bits Word Instr Sim.
From Proofs Require Import SimHoare.
Import ListNotations.
Open Scope Z_scope.

(* ---------- C09: an unprivileged access outside user space is denied and has no effect ---------- *)
Lemma read_denied e a c s : c_priv c = false -> in_user a = false ->
  read_mem e a c s = (s, inr (BErr AccessViolation)).
Proof. intros P U. unfold read_mem. rewrite P, U. reflexivity. Qed.
Lemma write_denied e a w c s : c_priv c = false -> in_user a = false ->
  write_mem e a w c s = (s, inr (BErr AccessViolation)).
Proof. intros P U. unfold write_mem. rewrite P, U. reflexivity. Qed.

Definition user_mode (s : sim) : Prop := psr_privileged (s_psr s) = false /\ fl_ignore_priv (s_flags s) = false.
Lemma user_ctx s : user_mode s -> c_priv (default_ctx s) = false.
Proof. intros [P I]. unfold default_ctx. cbn [c_priv]. rewrite P, I. reflexivity. Qed.

(* a permitted unprivileged read touches no device, no internal register, no memory word: only the observer *)
Lemma in_user_below_io a : in_user a = true -> (IO_START <=? a) = false.
Proof. unfold in_user. intros H. apply andb_prop in H. destruct H as [_ H]. apply Z.ltb_lt in H. apply Z.leb_gt. exact H. Qed.
Lemma read_user e a c s : c_priv c = false -> in_user a = true ->
  read_mem e a c s = ((if c_track c then upd_obs s (obs_update (s_obs s) a OBS_READ) else s),
                      inl (mget (s_mem s) a)).
Proof.
  intros P U. unfold read_mem. rewrite P, U. cbn [negb andb]. rewrite (in_user_below_io a U).
  destruct (c_track c); reflexivity.
Qed.
(* a permitted unprivileged write changes exactly that user-space word (and the observer) *)
Lemma write_user e a w c s : c_priv c = false -> in_user a = true ->
  exists s', write_mem e a w c s = (s', match set_if_init w (c_strict c) with Some _ => inl tt | None => inr (BErr StrictMemSetUninit) end)
    /\ s_regs s' = s_regs s /\ s_pc s' = s_pc s /\ s_psr s' = s_psr s /\ s_devs s' = s_devs s
    /\ s_saved_sp s' = s_saved_sp s /\ s_mcr s' = s_mcr s
    /\ (forall b, 0 <= b -> b <> a -> mget (s_mem s') b = mget (s_mem s) b).
Proof.
  intros P U. unfold write_mem. rewrite P, U. cbn [negb andb]. rewrite (in_user_below_io a U).
  assert (0 <= a) as Ha. { unfold in_user in U. apply andb_prop in U. destruct U as [U _]. apply Z.leb_le in U. unfold USER_START, sim.USER_START in U. lia. }
  destruct (set_if_init w (c_strict c)) as [w'|]; destruct (c_track c); eexists; (split; [reflexivity|]); repeat split;
    try (intros b Hb Hne; cbn [s_mem upd_mem upd_obs]; apply mget_mset_other; auto).
Qed.

(* RTI in user mode with privilege checks on: privilege violation, nothing happens *)
Lemma rti_user e s : user_mode s -> exec e SRTI s = (s, inr (BErr PrivilegeViolation)).
Proof.
  intros [P I]. unfold exec. rewrite run_bind, run_get. cbv zeta. rewrite P, I. reflexivity.
Qed.

(* ---------- C28: what the observer records ---------- *)
Fixpoint obs_get (o : list (Z * Z)) (a : Z) : Z :=
  match o with [] => 0 | (a', f) :: r => if a =? a' then f else obs_get r a end.

Fixpoint all_gt (x : Z) (o : list (Z * Z)) : Prop :=
  match o with [] => True | (a, _) :: r => x < a /\ all_gt x r end.
Fixpoint sorted_obs (o : list (Z * Z)) : Prop :=
  match o with [] => True | (a, _) :: r => all_gt a r /\ sorted_obs r end.

Lemma all_gt_trans x y o : x < y -> all_gt y o -> all_gt x o.
Proof. induction o as [|[a f] r IH]; cbn; [auto|]. intros H [H1 H2]. split; [lia|auto]. Qed.
Lemma get_all_gt a o : all_gt a o -> obs_get o a = 0.
Proof.
  induction o as [|[a' f'] r IH]; cbn; [reflexivity|]. intros [H1 H2].
  destruct (Z.eqb_spec a a'); [lia|auto].
Qed.
Lemma update_all_gt x o a f : all_gt x o -> x < a -> all_gt x (obs_update o a f).
Proof.
  induction o as [|[a' f'] r IH]; cbn [obs_update all_gt]; intros H Hx; [auto|].
  destruct H as [H1 H2]. destruct (a =? a'); [cbn; auto|]. destruct (a <? a'); cbn; auto.
Qed.
Lemma sorted_update o a f : sorted_obs o -> sorted_obs (obs_update o a f).
Proof.
  induction o as [|[a' f'] r IH]; cbn [obs_update sorted_obs]; intros H; [cbn; auto|].
  destruct H as [H1 H2]. destruct (Z.eqb_spec a a') as [->|Hne]; [cbn; auto|].
  destruct (Z.ltb_spec a a').
  - cbn. repeat split; auto. eapply all_gt_trans; eauto.
  - cbn. split; [apply update_all_gt; [auto|lia] | auto].
Qed.

Lemma obs_get_update o a f b : sorted_obs o ->
  obs_get (obs_update o a f) b = if b =? a then Z.lor (obs_get o a) f else obs_get o b.
Proof.
  induction o as [|[a' f'] r IH]; cbn [obs_update obs_get sorted_obs]; intros S.
  - destruct (b =? a); reflexivity.
  - destruct S as [S1 S2]. destruct (Z.eqb_spec a a') as [->|Hne].
    + cbn [obs_get]. destruct (b =? a'); reflexivity.
    + destruct (Z.ltb_spec a a').
      * cbn [obs_get]. destruct (Z.eqb_spec b a) as [E|Hb]; [|reflexivity].
        destruct (Z.eqb_spec a a'); [contradiction|].
        rewrite (get_all_gt a r) by (eapply all_gt_trans; eauto). reflexivity.
      * cbn [obs_get]. rewrite IH by exact S2. destruct (Z.eqb_spec b a') as [E|Hb].
        -- rewrite E. destruct (Z.eqb_spec a' a); [congruence|reflexivity].
        -- reflexivity.
Qed.

(* what read_mem / write_mem do to the observer *)
Lemma read_obs e a c s :
  s_obs (fst (read_mem e a c s)) =
  if negb (c_priv c) && negb (in_user a) then s_obs s
  else if c_track c then obs_update (s_obs s) a OBS_READ else s_obs s.
Proof.
  unfold read_mem. destruct (negb (c_priv c) && negb (in_user a)); [reflexivity|].
  destruct (IO_START <=? a).
  - destruct (assoc (s_ireg s) a); [destruct (c_track c); reflexivity|].
    destruct (dev_read e (nth_dev (s_devs s) (port_dev a)) a (c_io c)) as [d' [v|]]; destruct (c_track c); reflexivity.
  - destruct (c_track c); reflexivity.
Qed.

Lemma write_obs_untracked e a w c s : c_track c = false -> s_obs (fst (write_mem e a w c s)) = s_obs s.
Proof.
  intros T. unfold write_mem. rewrite T. destruct (negb (c_priv c) && negb (in_user a)); [reflexivity|].
  destruct (IO_START <=? a).
  - destruct (get_if_init w (c_strict c)); [|reflexivity].
    destruct (assoc (s_ireg s) a) as [r|].
    + destruct (set_if_init w (c_strict c)); destruct r; reflexivity.
    + destruct (dev_write e (nth_dev (s_devs s) (port_dev a)) a z) as [d' [|]]; [destruct (set_if_init w (c_strict c))|]; reflexivity.
  - destruct (set_if_init w (c_strict c)); reflexivity.
Qed.

(* a tracked, permitted write to ordinary memory: WRITTEN, and MODIFIED exactly when the stored
   word (data and initialisation) differs from the old one *)
Lemma write_obs_plain e a w c s :
  negb (c_priv c) && negb (in_user a) = false -> (IO_START <=? a) = false -> c_track c = true ->
  s_obs (fst (write_mem e a w c s)) =
  let o := obs_update (s_obs s) a OBS_WRITTEN in
  if word_eqb (mget (s_mem s) a) w then o else obs_update o a OBS_MODIFIED.
Proof.
  intros P IO T. unfold write_mem. rewrite P, IO, T. cbv zeta.
  destruct (word_eqb (mget (s_mem s) a) w); cbn [negb]; destruct (set_if_init w (c_strict c)); reflexivity.
Qed.

(* ---------- C27: the frame stack primitives ---------- *)
Lemma push_frame_depth a b f s :
  s_frame_no (fst (push_frame a b f s)) = s_frame_no s + 1
  /\ match s_frames s, s_frames (fst (push_frame a b f s)) with
     | Some fs, Some (top :: fs') => fs' = fs /\ f_caller top = a /\ f_callee top = b /\ f_type top = f
     | None, None => True
     | _, _ => False
     end.
Proof.
  unfold push_frame, modify. cbn [fst]. destruct (s_frames s) as [fs|]; [|split; [reflexivity|exact Logic.I]].
  destruct (match f with FSubroutine => _ | FTrap => _ | FInterrupt => _ end) as [[k|rs]|]; split; try reflexivity; repeat split.
Qed.
Lemma pop_frame_depth s :
  s_frame_no (fst (pop_frame s)) = Z.max 0 (s_frame_no s - 1)
  /\ s_frames (fst (pop_frame s)) = match s_frames s with Some (_ :: r) => Some r | x => x end.
Proof. split; reflexivity. Qed.

(* arguments recorded for a frame: registers for pass-by-register signatures, the words at
   R6-4+4+i (= R6+i) for stack-convention signatures *)
Lemma push_frame_args_pbr a b f s fs rs :
  s_frames s = Some fs ->
  (match f with FSubroutine => assoc (s_sr_defns s) b | FTrap => if b <? 256 then trap_defn b else None | FInterrupt => assoc (s_sr_defns s) b end) = Some (PBR rs) ->
  exists top, s_frames (fst (push_frame a b f s)) = Some (top :: fs) /\ f_fp top = None /\ f_args top = map (fun r => rget (s_regs s) r) rs.
Proof.
  intros Hf Hp. unfold push_frame, modify. cbn [fst]. rewrite Hf. cbv zeta. rewrite Hp. eexists; repeat split.
Qed.
