(* SimEntryFrame.v — C27: the frame recorded by a trap / exception / interrupt entry: the address of the
   interrupted (or trapping) instruction, the vector, the kind, on top of the unchanged older frames. *)
From Coq Require Import ZArith List Bool Lia.
From Gen Require Import Constants.
From Model Require Import Tree Bits Word Instr Sim.
From Proofs Require Import SimHoare SimAccess SimObs SimFrames IrqProofs SimStepObs SimFrameList SimObsEntry.
Import ListNotations.
Open Scope Z_scope.

Lemma read_mem_prefetch e a c s s1 w : read_mem e a c s = (s1, inl w) -> s_prefetch s1 = s_prefetch s.
Proof.
  unfold read_mem. destruct (negb (c_priv c) && negb (in_user a)); [discriminate|].
  intros E. inversion E as [[E1 E2]]. clear E E2.
  destruct (IO_START <=? a).
  - destruct (assoc (s_ireg s) a) as [r|].
    + destruct (c_track c); reflexivity.
    + destruct (dev_read e (nth_dev (s_devs s) (port_dev a)) a (c_io c)) as [d' [data|]];
        destruct (c_track c); reflexivity.
  - destruct (c_track c); reflexivity.
Qed.

Theorem entry_frame e v ft psr_f s s' u fs :
  entry_body e v ft psr_f s s = (s', inl u) ->
  let a1 := wrap16 (entry_sp s - 1) in let a2 := wrap16 (entry_sp s - 2) in
  length (s_regs s) = 8%nat -> (IO_START <=? a1) = false -> (IO_START <=? a2) = false ->
  s_frames s = Some fs ->
  exists top, s_frames s' = Some (top :: fs) /\
    f_caller top = prefetch_pc s /\ f_callee top = v /\ f_type top = ft.
Proof.
  intros E a1 a2 LEN IO1 IO2 F. revert E. unfold entry_body.
  rewrite run_bind.
  set (sa := if negb (psr_privileged (s_psr s))
             then upd_saved_sp (upd_regs s (rset (s_regs s) 6 (s_saved_sp s))) (rget (s_regs s) 6) else s).
  assert (SW : (if negb (psr_privileged (s_psr s)) then swap_sp else ret tt) s = (sa, inl tt)).
  { unfold sa. destruct (negb (psr_privileged (s_psr s))); reflexivity. }
  rewrite SW, run_bind, run_get. cbv zeta. rewrite run_bind, run_modify, run_bind, run_get. cbv zeta.
  set (sb := upd_psr sa (psr_set_privileged (s_psr sa) true)).
  rewrite run_bind. unfold get_if_init.
  destruct (negb (strict sb) || is_init (rget (s_regs sb) 6)); cbn [of_opt]; [|discriminate].
  rewrite run_ret, run_bind, run_modify.
  set (sc := upd_regs sb (rset (s_regs sb) 6 (w_sub (rget (s_regs sb) 6) (new_init 2)))).
  assert (SP : w_data (rget (s_regs sb) 6) = entry_sp s).
  { unfold sb, sa, entry_sp. destruct (psr_privileged (s_psr s)); cbn [negb]; [reflexivity|].
    cbn [upd_psr upd_saved_sp upd_regs s_regs]. rewrite rget_rset_same; [reflexivity|lia|rewrite LEN; cbn; lia]. }
  rewrite SP. fold a1 a2.
  assert (CP : c_priv (default_ctx sb) = true).
  { unfold default_ctx, sb. cbn [c_priv upd_psr s_psr]. rewrite psr_priv_set. reflexivity. }
  rewrite run_bind, (write_plain e a1 (s_psr sa) (default_ctx sb) sc CP IO1 eq_refl).
  set (sd := upd_mem _ _).
  rewrite run_bind, (write_plain e a2 (s_pc sa) (default_ctx sb) sd CP IO2 eq_refl).
  set (se := upd_mem _ _).
  rewrite run_bind, run_modify.
  set (sf := upd_psr se _).
  intros E.
  unfold call_interrupt in E. rewrite run_bind, run_get, run_bind in E.
  destruct (read_mem e v (default_ctx sf) sf) as [sg [w|b]] eqn:RV; [|discriminate].
  rewrite run_bind, run_get, run_bind in E. unfold get_if_init in E.
  destruct (negb (strict sg) || is_init w); cbn [of_opt] in E; [|discriminate].
  rewrite run_ret, run_bind in E.
  pose proof (push_frame_depth (prefetch_pc sg) v ft sg) as [_ PF].
  destruct (push_frame (prefetch_pc sg) v ft sg) as [sh [[]|b]] eqn:PU; [|discriminate].
  cbn [fst] in PF.
  (* what the states before the push keep *)
  assert (FA : s_frames sa = s_frames s /\ s_pc sa = s_pc s /\ s_prefetch sa = s_prefetch s).
  { unfold sa. destruct (negb (psr_privileged (s_psr s))); repeat split; reflexivity. }
  destruct FA as (F1 & F2 & F3).
  destruct (k_read e v (default_ctx sf) sf) as [Fk _]. rewrite RV in Fk. cbn [fst] in Fk.
  destruct (read_mem_keeps _ _ _ _ _ _ RV) as (Pk & _ & _).
  pose proof (read_mem_prefetch _ _ _ _ _ _ RV) as PRE.
  assert (Fg : s_frames sg = Some fs).
  { rewrite Fk. unfold sf, se, sd, sc, sb. cbn [upd_psr upd_mem upd_obs upd_regs s_frames]. rewrite F1. exact F. }
  rewrite Fg in PF. destruct (s_frames sh) as [[|top fs']|] eqn:Fh; try contradiction.
  destruct PF as (E1 & E2 & E3 & E4). subst fs'.
  destruct (k_set_pc (new_init (w_data w)) true sh) as [Fk2 _]. rewrite E in Fk2. cbn [fst] in Fk2.
  exists top. split; [rewrite Fk2; exact Fh|]. split; [|split; assumption].
  rewrite E2. unfold prefetch_pc. rewrite Pk, PRE.
  unfold sf, se, sd, sc, sb. cbn [upd_psr upd_mem upd_obs upd_regs s_pc s_prefetch]. rewrite F2, F3. reflexivity.
Qed.

(* a step that takes an interrupt records the interrupted instruction's address, the vector x100+v, kind Interrupt *)
Theorem step_interrupt_frame e s s' u v p fs :
  length (s_regs s) = 8%nat -> takes_irq e s v p ->
  step_inner e (upd_obs s []) = (s', inl u) ->
  let a1 := wrap16 (entry_sp s - 1) in let a2 := wrap16 (entry_sp s - 2) in
  (IO_START <=? a1) = false -> (IO_START <=? a2) = false ->
  0 <= s_pc s < 65536 -> s_frames s = Some fs ->
  exists top, s_frames s' = Some (top :: fs) /\
    f_caller top = s_pc s /\ f_callee top = 256 + v /\ f_type top = FInterrupt.
Proof.
  intros L T STEP a1 a2 IO1 IO2 PC F.
  assert (T' : takes_irq e (upd_obs s []) v p) by exact T.
  destruct T' as [Hp Hg]. rewrite step_inner_cases, Hp in STEP.
  pose proof Hg as Hg'. apply Z.ltb_lt in Hg'. rewrite Hg' in STEP.
  rewrite (handle_interrupt_some_is_entry e (256 + v) p (after_poll e (upd_obs s [])) Hg) in STEP.
  destruct (entry_frame e (256 + v) FInterrupt _ (after_poll e (upd_obs s [])) s' u fs STEP L IO1 IO2 F)
    as (top & A & B & C & D).
  exists top. repeat split; try assumption.
  rewrite B. unfold prefetch_pc, after_poll. cbn [upd_devs upd_prefetch upd_obs s_pc s_prefetch].
  rewrite Z.sub_0_r. unfold wrap16. apply Z.mod_small. exact PC.
Qed.
