(* SimFrameList.v — C27, second sentence: with debug frames on, the frame list has exactly as many
   entries as the reported depth — an invariant of [step_in] on every path (completed steps, errors,
   interrupts, traps, strict-mode failures in the middle of an entry), hence of every run. *)
From Coq Require Import ZArith List Bool Lia.
From Gen Require Import Constants.
From Model Require Import Tree Bits Word Instr Sim.
From Proofs Require Import SimHoare.
Import ListNotations.
Open Scope Z_scope.

Definition FL (s : sim) : Prop :=
  match s_frames s with
  | Some fs => s_frame_no s = Z.of_nat (length fs)
  | None => 0 <= s_frame_no s
  end.

(* computations that leave depth and frame list alone, on every path *)
Definition keeps {A} (m : M A) : Prop :=
  forall s, s_frames (fst (m s)) = s_frames s /\ s_frame_no (fst (m s)) = s_frame_no s.

Lemma keeps_inv {A} (m : M A) : keeps m -> inv FL m.
Proof. intros K s H. destruct (K s) as [F N]. unfold FL in *. rewrite F, N. exact H. Qed.

Lemma k_ret {A} (a : A) : keeps (ret a). Proof. intros s; split; reflexivity. Qed.
Lemma k_get : keeps get. Proof. intros s; split; reflexivity. Qed.
Lemma k_fail {A} b : keeps (@fail A b). Proof. intros s; split; reflexivity. Qed.
Lemma k_err {A} e : keeps (@err A e). Proof. apply k_fail. Qed.
Lemma k_of_opt {A} (o : option A) e : keeps (of_opt o e). Proof. destruct o; [apply k_ret|apply k_err]. Qed.
Lemma k_modify f : (forall s, s_frames (f s) = s_frames s /\ s_frame_no (f s) = s_frame_no s) -> keeps (modify f).
Proof. intros H s. cbn. apply H. Qed.
Lemma k_bind {A B} (m : M A) (k : A -> M B) : keeps m -> (forall a, keeps (k a)) -> keeps (bind m k).
Proof.
  intros Hm Hk s. unfold bind. destruct (Hm s) as [F N]. destruct (m s) as [s' [a|b]]; cbn [fst] in *.
  - destruct (Hk a s') as [F' N']. rewrite F', N'. split; assumption.
  - split; assumption.
Qed.
Lemma k_read e a c : keeps (read_mem e a c).
Proof.
  intros s. unfold read_mem. destruct (negb (c_priv c) && negb (in_user a)); [split; reflexivity|].
  destruct (IO_START <=? a).
  - destruct (assoc (s_ireg s) a); [destruct (c_track c); split; reflexivity|].
    destruct (dev_read e (nth_dev (s_devs s) (port_dev a)) a (c_io c)) as [d' [v|]]; destruct (c_track c); split; reflexivity.
  - destruct (c_track c); split; reflexivity.
Qed.
Lemma k_write e a w c : keeps (write_mem e a w c).
Proof.
  intros s. unfold write_mem. destruct (negb (c_priv c) && negb (in_user a)); [split; reflexivity|].
  destruct (IO_START <=? a).
  - destruct (get_if_init w (c_strict c)); [|split; reflexivity].
    destruct (assoc (s_ireg s) a) as [r|].
    + destruct (set_if_init w (c_strict c)); destruct r; destruct (c_track c); split; reflexivity.
    + destruct (dev_write e (nth_dev (s_devs s) (port_dev a)) a z) as [d' [|]];
        [destruct (set_if_init w (c_strict c)); destruct (c_track c)|]; split; reflexivity.
  - destruct (set_if_init w (c_strict c)); destruct (c_track c); split; reflexivity.
Qed.

Ltac keeps_with tac :=
  repeat first
    [ tac
    | apply k_ret | apply k_get | apply k_err | apply k_fail | apply k_of_opt | apply k_read | apply k_write
    | (apply k_modify; intros; split; reflexivity)
    | apply k_bind; [|intro]
    | match goal with
      | |- keeps (if ?c then _ else _) => destruct c
      | |- keeps (match ?x with _ => _ end) => destruct x
      end ].
Ltac keeps_tac := keeps_with fail.

Lemma k_set_cc r : keeps (set_cc r). Proof. unfold set_cc. keeps_tac. Qed.
Lemma k_set_pc w b : keeps (set_pc w b). Proof. unfold set_pc. keeps_tac. Qed.
Lemma k_offset_pc o b : keeps (offset_pc o b). Proof. unfold offset_pc. keeps_with ltac:(apply k_set_pc). Qed.
Lemma k_set_reg d v st : keeps (set_reg_if_init d v st). Proof. unfold set_reg_if_init. keeps_tac. Qed.
Lemma k_swap_sp : keeps swap_sp. Proof. unfold swap_sp. keeps_tac. Qed.

Lemma fl_push a b f : inv FL (push_frame a b f).
Proof.
  intros s H. unfold push_frame, modify. cbn [fst]. unfold FL in *.
  destruct (s_frames s) as [fs|] eqn:F.
  - destruct (match f with FSubroutine => _ | FTrap => _ | FInterrupt => _ end) as [[k|rs]|];
      cbn [upd_frames s_frames s_frame_no length]; rewrite H; lia.
  - cbn [upd_frames s_frames s_frame_no]. lia.
Qed.
Lemma fl_pop : inv FL pop_frame.
Proof.
  intros s H. unfold pop_frame, modify. cbn [fst]. unfold FL in *.
  destruct (s_frames s) as [[|f r]|]; cbn [upd_frames s_frames s_frame_no length] in *; lia.
Qed.

Lemma fl_set_cc r : inv FL (set_cc r). Proof. apply keeps_inv, k_set_cc. Qed.
Lemma fl_set_pc w b : inv FL (set_pc w b). Proof. apply keeps_inv, k_set_pc. Qed.
Lemma fl_offset_pc o b : inv FL (offset_pc o b). Proof. apply keeps_inv, k_offset_pc. Qed.
Lemma fl_set_reg d v st : inv FL (set_reg_if_init d v st). Proof. apply keeps_inv, k_set_reg. Qed.
Lemma fl_swap_sp : inv FL swap_sp. Proof. apply keeps_inv, k_swap_sp. Qed.
Lemma fl_read e a c : inv FL (read_mem e a c). Proof. apply keeps_inv, k_read. Qed.
Lemma fl_write e a w c : inv FL (write_mem e a w c). Proof. apply keeps_inv, k_write. Qed.
Lemma fl_modify f : (forall s, s_frames (f s) = s_frames s /\ s_frame_no (f s) = s_frame_no s) -> inv FL (modify f).
Proof. intros H. apply keeps_inv, k_modify, H. Qed.
Ltac flm := apply fl_modify; intros; split; reflexivity.

Lemma fl_call_subroutine addr : inv FL (call_subroutine addr).
Proof.
  unfold call_subroutine. apply inv_bind; [flm|intros _]. apply inv_bind; [apply inv_get|intro s].
  apply inv_bind; [apply fl_push|intros _]. apply fl_set_pc.
Qed.
Lemma fl_call_interrupt e v ft : inv FL (call_interrupt e v ft).
Proof.
  unfold call_interrupt. apply inv_bind; [apply inv_get|intro s]. apply inv_bind; [apply fl_read|intro w].
  apply inv_bind; [apply inv_get|intro s1]. apply inv_bind; [apply inv_of_opt|intro addr].
  apply inv_bind; [apply fl_push|intros _]. apply fl_set_pc.
Qed.

Lemma fl_entry e v ft (psr_f : Z -> Z) s :
  inv FL ((if negb (psr_privileged (s_psr s)) then swap_sp else ret tt);;;
       s0 <- get;; (let old_psr := s_psr s0 in let old_pc := s_pc s0 in
        modify (fun s1 => upd_psr s1 (psr_set_privileged (s_psr s1) true));;;
        s1 <- get;; (let mctx := default_ctx s1 in
         sp <- of_opt (get_if_init (rget (s_regs s1) 6) (strict s1)) StrictMemAddrUninit;;
         modify (fun s2 => upd_regs s2 (rset (s_regs s2) 6 (w_sub (rget (s_regs s2) 6) (new_init 2))));;;
         write_mem e (wrap16 (sp - 1)) (new_init old_psr) mctx;;;
         write_mem e (wrap16 (sp - 2)) (new_init old_pc) mctx;;;
         modify (fun s2 => upd_psr s2 (psr_f (s_psr s2)));;;
         call_interrupt e v ft))).
Proof.
  apply inv_bind; [destruct (negb (psr_privileged (s_psr s))); [apply fl_swap_sp|apply inv_ret]|intros _].
  apply inv_bind; [apply inv_get|intro s0]. cbv zeta.
  apply inv_bind; [flm|intros _]. apply inv_bind; [apply inv_get|intro s1]. cbv zeta.
  apply inv_bind; [apply inv_of_opt|intro sp]. apply inv_bind; [flm|intros _].
  apply inv_bind; [apply fl_write|intros _]. apply inv_bind; [apply fl_write|intros _].
  apply inv_bind; [flm|intros _]. apply fl_call_interrupt.
Qed.

Lemma fl_handle_interrupt e v p : inv FL (handle_interrupt e v p).
Proof.
  unfold handle_interrupt. apply inv_bind; [apply inv_get|intro s].
  destruct p as [p|].
  - destruct (p <=? psr_priority (s_psr s)); [apply inv_ret|].
    exact (fl_entry e v FInterrupt (fun x => psr_set_priority (psr_set_cc x 2) p) s).
  - destruct (if fl_real (s_flags s) then None else real_int_vect v) as [b|].
    + apply inv_bind; [|intros _; apply inv_fail].
      destruct (negb (s_prefetch s)); [|apply inv_ret].
      apply inv_bind; [apply fl_offset_pc|intros _]. flm.
    + exact (fl_entry e v FTrap (fun x => psr_set_cc x 2) s).
Qed.

Lemma fl_tail dr v ws : inv FL (set_reg_if_init dr v ws ;;; set_cc (w_data v)).
Proof. apply inv_bind; [apply fl_set_reg|intros _]. apply fl_set_cc. Qed.

Lemma fl_exec e i : inv FL (exec e i).
Proof.
  unfold exec. apply inv_bind; [apply inv_get|intro s]. cbv zeta.
  destruct i as [cc off|dr sr1 o|dr off|sr off|o|dr sr1 o|dr br off|sr br off| |dr sr|dr off|sr off|br|dr off|v].
  - destruct (negb (Z.land cc (psr_cc (s_psr s)) =? 0)); [apply fl_offset_pc|apply inv_ret].
  - apply fl_tail.
  - apply inv_bind; [apply fl_read|intro w]. apply fl_tail.
  - apply fl_write.
  - apply inv_bind; [apply inv_of_opt|intro a]. apply fl_call_subroutine.
  - apply fl_tail.
  - apply inv_bind; [apply inv_of_opt|intro b]. apply inv_bind; [apply fl_read|intro w]. apply fl_tail.
  - apply inv_bind; [apply inv_of_opt|intro b]. apply fl_write.
  - destruct (psr_privileged (s_psr s) || fl_ignore_priv (s_flags s)); [|apply inv_err].
    apply inv_bind; [apply inv_of_opt|intro sp]. apply inv_bind; [apply fl_read|intro w1].
    apply inv_bind; [apply inv_of_opt|intro pc]. apply inv_bind; [apply fl_read|intro w2].
    apply inv_bind; [apply inv_of_opt|intro psr]. apply inv_bind; [flm|intros _].
    apply inv_bind; [apply fl_set_pc|intros _]. apply inv_bind; [flm|intros _].
    apply inv_bind; [destruct (negb (psr_privileged psr)); [apply fl_swap_sp|apply inv_ret]|intros _]. apply fl_pop.
  - apply fl_tail.
  - apply inv_bind; [apply fl_read|intro w]. apply inv_bind; [apply inv_of_opt|intro ea].
    apply inv_bind; [apply inv_get|intro s']. cbv zeta. apply inv_bind; [apply fl_read|intro v]. apply fl_tail.
  - apply inv_bind; [apply fl_read|intro w]. apply inv_bind; [apply inv_of_opt|intro ea].
    apply inv_bind; [apply inv_get|intro s']. cbv zeta. apply fl_write.
  - apply inv_bind; [apply fl_set_pc|intros _]. destruct (br =? 7); [apply fl_pop|apply inv_ret].
  - flm.
  - apply fl_handle_interrupt.
Qed.

Lemma fl_decode_m w : inv FL (decode_m w).
Proof. unfold decode_m. destruct (decode w); [apply inv_ret|apply inv_err|apply inv_err|apply inv_fail]. Qed.

Lemma fl_step_inner e : inv FL (step_inner e).
Proof.
  unfold step_inner. apply inv_bind; [flm|intros _]. apply inv_bind; [apply inv_get|intro s].
  destruct (poll_all e (s_devs s) (e_draws e) None) as [[ds i] dr].
  apply inv_bind; [flm|intros _].
  assert (F : inv FL (s0 <- get;; w <- read_mem e (s_pc s0) (default_ctx s0);;
                      word <- of_opt (get_if_init w (strict s0)) StrictPCCurrUninit;;
                      instr <- decode_m word;; offset_pc 1 false;;;
                      modify (fun s1 => upd_prefetch s1 false);;; exec e instr;;;
                      modify (fun s1 => upd_instrs s1 ((s_instrs s1 + 1) mod 18446744073709551616)))).
  { apply inv_bind; [apply inv_get|intro s0]. apply inv_bind; [apply fl_read|intro w].
    apply inv_bind; [apply inv_of_opt|intro word]. apply inv_bind; [apply fl_decode_m|intro instr].
    apply inv_bind; [apply fl_offset_pc|intros _]. apply inv_bind; [flm|intros _].
    apply inv_bind; [apply fl_exec|intros _]. flm. }
  destruct i as [[v p|]|]; [destruct (psr_priority (s_psr s) <? p); [apply fl_handle_interrupt|exact F]|apply inv_err|exact F].
Qed.

Lemma fl_step e : inv FL (step e).
Proof.
  intros s H. unfold step. pose proof (fl_step_inner e s H) as H1.
  destruct (step_inner e s) as [s1 r]. cbn [fst] in H1.
  destruct (negb (fl_real (s_flags s1))); [exact H1|].
  destruct r as [u|[|x|]]; try exact H1.
  - apply fl_handle_interrupt. exact H1.
  - destruct x; try exact H1; apply fl_handle_interrupt; exact H1.
Qed.

Theorem fl_step_in e s : FL s -> FL (fst (step_in e s)).
Proof.
  intros H. unfold step_in. assert (H0 : FL (upd_obs s [])) by exact H.
  pose proof (fl_step e _ H0) as H1. destruct (step e (upd_obs s [])) as [s1 r]. exact H1.
Qed.

(* every run *)
Fixpoint steps (es : list env) (s : sim) : sim :=
  match es with [] => s | e :: r => steps r (fst (step_in e s)) end.
Theorem fl_run es : forall s, FL s -> FL (steps es s).
Proof. induction es as [|e es IH]; intros s H; [exact H|]. cbn [steps]. apply IH. apply fl_step_in. exact H. Qed.
