(* SimFrames.v — C27 at the level of whole instructions: the effect of every instruction, of trap
   entry and of interrupt entry on the frame depth, on every successful path. *)
From Coq Require Import ZArith List Bool Lia.
From Gen Require Import Constants.
From Model Require Import Tree Bits Word Instr Sim.
From Proofs Require Import SimHoare.
Import ListNotations.
Open Scope Z_scope.

(* [FE m f]: whenever m succeeds, the depth afterwards is f (depth before) *)
Definition FE {A} (m : M A) (f : Z -> Z) : Prop :=
  forall s s' a, m s = (s', inl a) -> s_frame_no s' = f (s_frame_no s).
Definition idz (n : Z) : Z := n.

Lemma fe_ret {A} (a : A) : FE (ret a) idz. Proof. intros s s' x E. inversion E. reflexivity. Qed.
Lemma fe_get : FE get idz. Proof. intros s s' x E. inversion E. reflexivity. Qed.
Lemma fe_fail {A} b f : FE (@fail A b) f. Proof. intros s s' x E. inversion E. Qed.
Lemma fe_err {A} e f : FE (@err A e) f. Proof. apply fe_fail. Qed.
Lemma fe_of_opt {A} (o : option A) e : FE (of_opt o e) idz.
Proof. destruct o; [apply fe_ret | apply fe_err]. Qed.
Lemma fe_modify f : (forall s, s_frame_no (f s) = s_frame_no s) -> FE (modify f) idz.
Proof. intros H s s' x E. inversion E. apply H. Qed.
Lemma fe_bind {A B} (m : M A) (k : A -> M B) f g :
  FE m f -> (forall a, FE (k a) g) -> FE (bind m k) (fun n => g (f n)).
Proof.
  intros Hm Hk s s' b E. unfold bind in E. destruct (m s) as [s1 [a|x]] eqn:Em; [|inversion E].
  rewrite (Hk a s1 s' b E), (Hm s s1 a Em). reflexivity.
Qed.
Lemma fe_bind_id {A B} (m : M A) (k : A -> M B) g :
  FE m idz -> (forall a, FE (k a) g) -> FE (bind m k) g.
Proof. intros Hm Hk. exact (fe_bind m k idz g Hm Hk). Qed.
Lemma fe_bind_get {B} (k : sim -> M B) g : (forall s0, FE (k s0) g) -> FE (bind get k) g.
Proof. intros Hk. apply fe_bind_id; [apply fe_get | exact Hk]. Qed.
Lemma fe_then_id {A B} (m : M A) (k : A -> M B) g :
  FE m g -> (forall a, FE (k a) idz) -> FE (bind m k) g.
Proof. intros Hm Hk. exact (fe_bind m k g idz Hm Hk). Qed.

Lemma fe_then_fail {A B} (m : M A) b g : FE (bind m (fun _ => @fail B b)) g.
Proof. intros s s' u E. unfold bind in E. destruct (m s) as [s1 [a|x]]; inversion E. Qed.

Lemma fe_read e a c : FE (read_mem e a c) idz.
Proof.
  intros s s' w E. unfold read_mem in E. destruct (negb (c_priv c) && negb (in_user a)); [inversion E|].
  destruct (IO_START <=? a).
  - destruct (assoc (s_ireg s) a); [destruct (c_track c); inversion E; reflexivity|].
    destruct (dev_read e (nth_dev (s_devs s) (port_dev a)) a (c_io c)) as [d' [v|]]; destruct (c_track c); inversion E; reflexivity.
  - destruct (c_track c); inversion E; reflexivity.
Qed.
Lemma fe_write e a w c : FE (write_mem e a w c) idz.
Proof.
  intros s s' u E. unfold write_mem in E. destruct (negb (c_priv c) && negb (in_user a)); [inversion E|].
  destruct (IO_START <=? a).
  - destruct (get_if_init w (c_strict c)); [|inversion E].
    destruct (assoc (s_ireg s) a) as [r|].
    + destruct (set_if_init w (c_strict c)); destruct r; destruct (c_track c); inversion E; reflexivity.
    + destruct (dev_write e (nth_dev (s_devs s) (port_dev a)) a z) as [d' [|]];
        [destruct (set_if_init w (c_strict c)); destruct (c_track c)|]; inversion E; reflexivity.
  - destruct (set_if_init w (c_strict c)); destruct (c_track c); inversion E; reflexivity.
Qed.

Ltac fe_id_with tac :=
  repeat first
    [ tac
    | apply fe_ret | apply fe_get | apply fe_err | apply fe_fail | apply fe_of_opt | apply fe_read | apply fe_write
    | (apply fe_modify; intros; reflexivity)
    | apply fe_bind_id; [|intro]
    | match goal with
      | |- FE (if ?c then _ else _) _ => destruct c
      | |- FE (match ?x with _ => _ end) _ => destruct x
      end ].
Ltac fe_id := fe_id_with fail.

Lemma fe_set_cc r : FE (set_cc r) idz. Proof. unfold set_cc. fe_id. Qed.
Lemma fe_set_pc w b : FE (set_pc w b) idz. Proof. unfold set_pc. fe_id. Qed.
Lemma fe_offset_pc o b : FE (offset_pc o b) idz. Proof. unfold offset_pc. fe_id_with ltac:(apply fe_set_pc). Qed.
Lemma fe_set_reg d v st : FE (set_reg_if_init d v st) idz. Proof. unfold set_reg_if_init. fe_id. Qed.
Lemma fe_swap_sp : FE swap_sp idz. Proof. unfold swap_sp. fe_id. Qed.

Lemma fe_push a b f : FE (push_frame a b f) (fun n => n + 1).
Proof.
  intros s s' u E. unfold push_frame, modify in E. inversion E. destruct (s_frames s) as [fs|]; [|reflexivity].
  destruct (match f with FSubroutine => _ | FTrap => _ | FInterrupt => _ end) as [[k|rs]|]; reflexivity.
Qed.
Lemma fe_pop : FE pop_frame (fun n => Z.max 0 (n - 1)).
Proof. intros s s' u E. unfold pop_frame, modify in E. inversion E. reflexivity. Qed.

Lemma fe_call_subroutine addr : FE (call_subroutine addr) (fun n => n + 1).
Proof.
  unfold call_subroutine. apply fe_bind_id; [fe_id|intros _]. apply fe_bind_get; intro s.
  apply fe_then_id; [apply fe_push|intros _; apply fe_set_pc].
Qed.
Lemma fe_call_interrupt e v ft : FE (call_interrupt e v ft) (fun n => n + 1).
Proof.
  unfold call_interrupt. apply fe_bind_get; intro s. apply fe_bind_id; [fe_id|intro w].
  apply fe_bind_get; intro s1. apply fe_bind_id; [fe_id|intro addr].
  apply fe_then_id; [apply fe_push|intros _; apply fe_set_pc].
Qed.

(* entry (interrupt taken, or trap/exception not short-cut): +1 *)
Lemma fe_handle_interrupt_some e v p s s' u :
  handle_interrupt e v (Some p) s = (s', inl u) -> psr_priority (s_psr s) < p -> s_frame_no s' = s_frame_no s + 1.
Proof.
  intros E Hp. revert E. unfold handle_interrupt. rewrite run_bind, run_get.
  destruct (Z.leb_spec p (psr_priority (s_psr s))); [lia|].
  assert (F : FE ((if negb (psr_privileged (s_psr s)) then swap_sp else ret tt);;;
       s0 <- get;; (let old_psr := s_psr s0 in let old_pc := s_pc s0 in
        modify (fun s1 => upd_psr s1 (psr_set_privileged (s_psr s1) true));;;
        s1 <- get;; (let mctx := default_ctx s1 in
         sp <- of_opt (get_if_init (rget (s_regs s1) 6) (strict s1)) StrictMemAddrUninit;;
         modify (fun s2 => upd_regs s2 (rset (s_regs s2) 6 (w_sub (rget (s_regs s2) 6) (new_init 2))));;;
         write_mem e (wrap16 (sp - 1)) (new_init old_psr) mctx;;;
         write_mem e (wrap16 (sp - 2)) (new_init old_pc) mctx;;;
         modify (fun s2 => upd_psr s2 (psr_set_priority (psr_set_cc (s_psr s2) 2) p));;;
         call_interrupt e v FInterrupt))) (fun n => n + 1)).
  { apply fe_bind_id; [fe_id_with ltac:(apply fe_swap_sp)|intros _]. apply fe_bind_get; intro s0. cbv zeta.
    apply fe_bind_id; [fe_id|intros _]. apply fe_bind_get; intro s1. cbv zeta.
    apply fe_bind_id; [fe_id|intro sp]. apply fe_bind_id; [fe_id|intros _].
    apply fe_bind_id; [fe_id|intros _]. apply fe_bind_id; [fe_id|intros _].
    apply fe_bind_id; [fe_id|intros _]. apply fe_call_interrupt. }
  intros E. exact (F s s' u E).
Qed.

Lemma fe_handle_interrupt_none e v : FE (handle_interrupt e v None) (fun n => n + 1).
Proof.
  unfold handle_interrupt. apply fe_bind_get; intro s.
  destruct (if fl_real (s_flags s) then None else real_int_vect v) as [b|].
  - (* virtual short-cut: never succeeds *)
    apply fe_then_fail.
  - apply fe_bind_id; [fe_id_with ltac:(apply fe_swap_sp)|intros _]. apply fe_bind_get; intro s0. cbv zeta.
    apply fe_bind_id; [fe_id|intros _]. apply fe_bind_get; intro s1. cbv zeta.
    apply fe_bind_id; [fe_id|intro sp]. apply fe_bind_id; [fe_id|intros _].
    apply fe_bind_id; [fe_id|intros _]. apply fe_bind_id; [fe_id|intros _].
    apply fe_bind_id; [fe_id|intros _]. apply fe_call_interrupt.
Qed.

(* the effect of each instruction on the depth *)
Definition depth_effect (i : sim_instr) (n : Z) : Z :=
  match i with
  | SJSR _ | STRAP _ => n + 1
  | SRTI => Z.max 0 (n - 1)
  | SJMP br => if br =? 7 then Z.max 0 (n - 1) else n
  | _ => n
  end.

Theorem exec_depth e i : FE (exec e i) (depth_effect i).
Proof.
  unfold exec. apply fe_bind_get; intro s. cbv zeta.
  destruct i as [cc off|dr sr1 o|dr off|sr off|o|dr sr1 o|dr br off|sr br off| |dr sr|dr off|sr off|br|dr off|v];
    cbn [depth_effect]; fold idz;
    try (fe_id_with ltac:(first [apply fe_set_reg | apply fe_set_cc | apply fe_offset_pc | apply fe_set_pc]); fail).
  - (* JSR *) apply fe_bind_id; [fe_id|intro a]. apply fe_call_subroutine.
  - (* RTI *) destruct (psr_privileged (s_psr s) || fl_ignore_priv (s_flags s)); [|apply fe_err].
    apply fe_bind_id; [fe_id|intro sp]. apply fe_bind_id; [fe_id|intro w1]. apply fe_bind_id; [fe_id|intro pc].
    apply fe_bind_id; [fe_id|intro w2]. apply fe_bind_id; [fe_id|intro psr]. apply fe_bind_id; [fe_id|intros _].
    apply fe_bind_id; [apply fe_set_pc|intros _]. apply fe_bind_id; [fe_id|intros _].
    apply fe_bind_id; [destruct (negb (psr_privileged psr)); [apply fe_swap_sp | apply fe_ret]|intros _]. apply fe_pop.
  - (* JMP *) unfold depth_effect. destruct (br =? 7).
    + apply fe_bind_id; [apply fe_set_pc|intros _]. apply fe_pop.
    + fold idz. apply fe_bind_id; [apply fe_set_pc|intros _]. apply fe_ret.
  - (* TRAP *) apply fe_handle_interrupt_none.
Qed.
