(* SimHoare.v — reasoning principles for the state-and-failure monad of model/Sim.v:
   run equations, panic-freedom ([nopanic]) and state invariants ([inv]) with their rules for
   bind, so that facts about [exec]/[step] are proved compositionally from facts about the
   primitives (read_mem, write_mem, set_pc, ...). *)
From Coq Require Import ZArith List Bool Lia FMapPositive.
From Model Require Import Tree Bits Word Instr Sim.
Import ListNotations.
Open Scope Z_scope.

(* ---------- run equations ---------- *)
Lemma run_bind {A B} (m : M A) (k : A -> M B) s :
  bind m k s = match m s with (s', inl a) => k a s' | (s', inr b) => (s', inr b) end.
Proof. reflexivity. Qed.
Lemma run_ret {A} (a : A) s : ret a s = (s, inl a). Proof. reflexivity. Qed.
Lemma run_get s : get s = (s, inl s). Proof. reflexivity. Qed.
Lemma run_modify f s : modify f s = (f s, inl tt). Proof. reflexivity. Qed.
Lemma run_fail {A} b s : @fail A b s = (s, inr b). Proof. reflexivity. Qed.

(* ---------- panic freedom ---------- *)
Definition nopanic {A} (m : M A) : Prop := forall s, snd (m s) <> inr BPanic.

Lemma np_ret {A} (a : A) : nopanic (ret a). Proof. intros s; cbn; discriminate. Qed.
Lemma np_get : nopanic get. Proof. intros s; cbn; discriminate. Qed.
Lemma np_modify f : nopanic (modify f). Proof. intros s; cbn; discriminate. Qed.
Lemma np_err {A} e : nopanic (@err A e). Proof. intros s; cbn; discriminate. Qed.
Lemma np_fail {A} b : b <> BPanic -> nopanic (@fail A b).
Proof. intros H s; cbn. intros E. injection E as E. contradiction. Qed.
Lemma np_of_opt {A} (o : option A) e : nopanic (of_opt o e).
Proof. destruct o; [apply np_ret | apply np_err]. Qed.
Lemma np_bind {A B} (m : M A) (k : A -> M B) :
  nopanic m -> (forall a, nopanic (k a)) -> nopanic (bind m k).
Proof.
  intros Hm Hk s. unfold bind. specialize (Hm s). destruct (m s) as [s' [a|b]]; cbn in *.
  - apply Hk.
  - intros E. apply Hm. injection E as ->. reflexivity.
Qed.

(* ---------- invariants: the state component satisfies I after m, on every path ---------- *)
Definition inv {A} (P : sim -> Prop) (m : M A) : Prop := forall s, P s -> P (fst (m s)).

Lemma inv_ret {A} (P : sim -> Prop) (a : A) : inv P (ret a). Proof. intros s H; exact H. Qed.
Lemma inv_get (P : sim -> Prop) : inv P get. Proof. intros s H; exact H. Qed.
Lemma inv_fail {A} (P : sim -> Prop) b : inv P (@fail A b). Proof. intros s H; exact H. Qed.
Lemma inv_err {A} (P : sim -> Prop) e : inv P (@err A e). Proof. intros s H; exact H. Qed.
Lemma inv_of_opt {A} (P : sim -> Prop) (o : option A) e : inv P (of_opt o e).
Proof. destruct o; [apply inv_ret | apply inv_err]. Qed.
Lemma inv_modify (P : sim -> Prop) f : (forall s, P s -> P (f s)) -> inv P (modify f).
Proof. intros H s Hs; cbn; auto. Qed.
Lemma inv_bind {A B} (P : sim -> Prop) (m : M A) (k : A -> M B) :
  inv P m -> (forall a, inv P (k a)) -> inv P (bind m k).
Proof.
  intros Hm Hk s Hs. unfold bind. specialize (Hm s Hs). destruct (m s) as [s' [a|b]]; cbn in *.
  - apply Hk. exact Hm.
  - exact Hm.
Qed.
(* bind under `get`: the continuation may use the fact that the state it received satisfies I *)
Lemma inv_bind_get {B} (P : sim -> Prop) (k : sim -> M B) :
  (forall s0, P s0 -> inv P (k s0)) -> inv P (bind get k).
Proof. intros Hk s Hs. unfold bind, get. apply Hk; assumption. Qed.

(* ---------- memory ---------- *)
Lemma mkey_inj a b : 0 <= a -> 0 <= b -> mkey a = mkey b -> a = b.
Proof. unfold mkey. intros Ha Hb H. apply (f_equal Zpos) in H. rewrite !Z2Pos.id in H by lia. lia. Qed.
Lemma mget_mset_same m a w : mget (mset m a w) a = w.
Proof. unfold mget, mset; cbn. rewrite PositiveMap.gss. reflexivity. Qed.
Lemma mget_mset_other m a b w : 0 <= a -> 0 <= b -> a <> b -> mget (mset m a w) b = mget m b.
Proof.
  intros Ha Hb Hne. unfold mget, mset; cbn. rewrite PositiveMap.gso; [reflexivity|].
  intros E. apply Hne. symmetry. apply mkey_inj; assumption.
Qed.
