(* SimInit.v — C14, third sentence: on a machine whose memory words, registers and saved stack
   pointer are all fully initialised, no step ever reports a strict (uninitialised-value) error,
   and the machine stays fully initialised.  Holds with strict mode on or off. *)
From Coq Require Import ZArith List Bool Lia FMapPositive.
From Gen Require Import Constants.
From Model Require Import Tree Bits Word Instr Sim.
From Proofs Require Import SimHoare SimNoPanic.
Import ListNotations.
Open Scope Z_scope.

Definition AI (s : sim) : Prop :=
  List.length (s_regs s) = 8%nat /\ Forall (fun w => is_init w = true) (s_regs s)
  /\ is_init (s_saved_sp s) = true /\ (forall a, is_init (mget (s_mem s) a) = true).

Definition ok_brk (b : brk) : Prop := match b with BErr e => is_strict_err e = false | _ => True end.

Definition G {A} (m : M A) (Q : A -> Prop) : Prop :=
  forall s, AI s -> AI (fst (m s)) /\ match snd (m s) with inl a => Q a | inr b => ok_brk b end.
Definition any {A} (_ : A) : Prop := True.
Definition winit (w : word) : Prop := is_init w = true.

Lemma g_ret {A} (a : A) (Q : A -> Prop) : Q a -> G (ret a) Q. Proof. intros H s Hs. split; [exact Hs|exact H]. Qed.
Lemma g_get : G get AI. Proof. intros s Hs. split; exact Hs. Qed.
Lemma g_fail {A} b (Q : A -> Prop) : ok_brk b -> G (@fail A b) Q. Proof. intros H s Hs. split; [exact Hs|exact H]. Qed.
Lemma g_err {A} e (Q : A -> Prop) : is_strict_err e = false -> G (@err A e) Q. Proof. intros H. apply g_fail. exact H. Qed.
Lemma g_modify f : (forall s, AI s -> AI (f s)) -> G (modify f) any.
Proof. intros H s Hs. split; [apply H; exact Hs|exact Logic.I]. Qed.
Lemma g_bind {A B} (m : M A) (k : A -> M B) Q R :
  G m Q -> (forall a, Q a -> G (k a) R) -> G (bind m k) R.
Proof.
  intros Hm Hk s Hs. unfold bind. specialize (Hm s Hs). destruct (m s) as [s1 [a|b]]; cbn [fst snd] in *.
  - destruct Hm as [H1 H2]. exact (Hk a H2 s1 H1).
  - exact Hm.
Qed.
Lemma g_any {A} (m : M A) (Q : A -> Prop) : G m Q -> G m any.
Proof.
  intros H s Hs. specialize (H s Hs). destruct (m s) as [s1 [a|b]]; cbn [fst snd] in *; destruct H; split; auto. exact Logic.I.
Qed.

Lemma g_get_if_init w st e : winit w -> G (of_opt (get_if_init w st) e) any.
Proof. intros H. unfold get_if_init. unfold winit in H. rewrite H, orb_true_r. apply g_ret. exact Logic.I. Qed.
Lemma g_set_if_init w st e : winit w -> G (of_opt (set_if_init w st) e) winit.
Proof. intros H. unfold set_if_init. unfold winit in H. rewrite H, orb_true_r. apply g_ret. exact H. Qed.

(* ---------- state lemmas ---------- *)
Lemma AI_mset s a w : AI s -> winit w -> AI (upd_mem s (mset (s_mem s) a w)).
Proof.
  intros (L & R & S & M) Hw. repeat split; try assumption. intros b. cbn [s_mem upd_mem].
  unfold mget, mset. cbn [m_over m_fill]. destruct (Pos.eq_dec (mkey b) (mkey a)) as [E|N].
  - rewrite E, PositiveMap.gss. exact Hw.
  - rewrite PositiveMap.gso by exact N. exact (M b).
Qed.
Lemma AI_mset' s s' a w : AI s -> winit w ->
  s_regs s' = s_regs s -> s_saved_sp s' = s_saved_sp s -> s_mem s' = mset (s_mem s) a w -> AI s'.
Proof.
  intros H Hw R S M. pose proof (AI_mset s a w H Hw) as (L1 & R1 & S1 & M1). unfold AI. rewrite R, S, M.
  repeat split; assumption.
Qed.
Lemma set_nth_length {A} (l : list A) n x : List.length (set_nth l n x) = List.length l.
Proof. revert n. induction l as [|h t IH]; intros [|n]; cbn; try rewrite IH; reflexivity. Qed.
Lemma set_nth_Forall {A} (P : A -> Prop) (l : list A) n x : Forall P l -> P x -> Forall P (set_nth l n x).
Proof.
  revert n. induction l as [|h t IH]; intros [|n] Hl Hx; cbn; try constructor; inversion Hl; subst; auto.
Qed.
Lemma AI_rset s r w : AI s -> winit w -> AI (upd_regs s (rset (s_regs s) r w)).
Proof.
  intros (L & R & S & M) Hw. unfold AI. cbn [s_regs s_saved_sp s_mem upd_regs]. unfold rset.
  rewrite set_nth_length. repeat split; try assumption. apply set_nth_Forall; assumption.
Qed.
Lemma AI_rget s r : AI s -> 0 <= r < 8 -> winit (rget (s_regs s) r).
Proof.
  intros (L & R & _) Hr. unfold rget, winit. rewrite Forall_forall in R. apply R. apply nth_In. rewrite L. lia.
Qed.
Lemma AI_ssp s w : AI s -> winit w -> AI (upd_saved_sp s w).
Proof. intros (L & R & S & M) Hw. repeat split; assumption. Qed.
Lemma AI_mget s a : AI s -> winit (mget (s_mem s) a). Proof. intros (_ & _ & _ & M). apply M. Qed.

(* ---------- word operations on initialised words ---------- *)
Lemma winit_new d : winit (new_init d). Proof. reflexivity. Qed.
Lemma winit_eq w : winit w -> w_init w = ALL_BITS. Proof. unfold winit, is_init. intros H. apply Z.eqb_eq. exact H. Qed.
Lemma winit_add l r : winit l -> winit r -> winit (w_add l r).
Proof.
  intros Hl Hr. unfold w_add. destruct (_ && _); [exact Hl|]. destruct (_ && _); [exact Hr|].
  unfold winit, is_init, both_init. cbn [w_init]. rewrite (winit_eq l Hl), (winit_eq r Hr). reflexivity.
Qed.
Lemma winit_sub l r : winit l -> winit r -> winit (w_sub l r).
Proof.
  intros Hl Hr. unfold w_sub. destruct (_ && _); [exact Hl|].
  unfold winit, is_init, both_init. cbn [w_init]. rewrite (winit_eq l Hl), (winit_eq r Hr). reflexivity.
Qed.
Lemma winit_not w : winit w -> winit (w_not w). Proof. intros H. exact H. Qed.
Lemma lor_all x : 0 <= x <= 65535 -> Z.lor 65535 x = 65535.
Proof.
  intros H. rewrite Z.lor_comm. destruct (Z.eq_dec x 0) as [->|Hx]; [reflexivity|].
  change 65535 with (Z.ones 16). apply Z.lor_ones_low; [lia|].
  apply Z.log2_lt_pow2; [lia|]. change (2 ^ 16) with 65536. lia.
Qed.
Lemma land16 x : 0 <= Z.land x 65535 <= 65535.
Proof.
  change 65535 with (Z.ones 16) at 1 2. rewrite Z.land_ones by lia.
  pose proof (Z.mod_pos_bound x (2 ^ 16) ltac:(reflexivity)). change (2 ^ 16) with 65536 in *. lia.
Qed.
Lemma winit_and l r : winit l -> winit r -> winit (w_and l r).
Proof.
  intros Hl Hr. unfold winit, is_init, w_and. cbn [w_init]. rewrite (winit_eq l Hl), (winit_eq r Hr).
  change ALL_BITS with 65535. apply Z.eqb_eq. change (Z.land 65535 65535) with 65535.
  rewrite <- Z.lor_assoc. apply lor_all.
  pose proof (land16 (not16 (w_data l))). pose proof (land16 (not16 (w_data r))).
  split; [apply Z.lor_nonneg; lia|].
  (* lor of two values within 16 bits stays within 16 bits *)
  destruct (Z.eq_dec (Z.lor (Z.land (not16 (w_data l)) 65535) (Z.land (not16 (w_data r)) 65535)) 0) as [->|Hn]; [lia|].
  assert (Z.log2 (Z.lor (Z.land (not16 (w_data l)) 65535) (Z.land (not16 (w_data r)) 65535)) < 16).
  { rewrite Z.log2_lor by lia. apply Z.max_lub_lt.
    - destruct (Z.eq_dec (Z.land (not16 (w_data l)) 65535) 0) as [->|]; [reflexivity|]. apply Z.log2_lt_pow2; [lia|]. change (2^16) with 65536. lia.
    - destruct (Z.eq_dec (Z.land (not16 (w_data r)) 65535) 0) as [->|]; [reflexivity|]. apply Z.log2_lt_pow2; [lia|]. change (2^16) with 65536. lia. }
  assert (0 < Z.lor (Z.land (not16 (w_data l)) 65535) (Z.land (not16 (w_data r)) 65535)) by (assert (0 <= Z.lor (Z.land (not16 (w_data l)) 65535) (Z.land (not16 (w_data r)) 65535)) by (apply Z.lor_nonneg; lia); lia).
  apply Z.log2_lt_pow2 in H1; [|assumption]. change (2^16) with 65536 in H1. lia.
Qed.

(* ---------- primitives ---------- *)
Lemma AI_obs s o : AI s -> AI (upd_obs s o). Proof. intros H; exact H. Qed.

Lemma g_read e a c : G (read_mem e a c) winit.
Proof.
  intros s Hs. unfold read_mem. destruct (negb (c_priv c) && negb (in_user a)); [split; [exact Hs|reflexivity]|].
  destruct (IO_START <=? a).
  - destruct (assoc (s_ireg s) a) as [r|].
    + destruct (c_track c); cbn [fst snd]; (split; [eapply AI_mset'; [exact Hs|apply winit_new|reflexivity..] | cbn [s_mem upd_mem upd_obs]; rewrite mget_mset_same; apply winit_new]).
    + destruct (dev_read e (nth_dev (s_devs s) (port_dev a)) a (c_io c)) as [d' [v|]].
      * destruct (c_track c); cbn [fst snd]; (split; [eapply AI_mset'; [exact Hs|apply winit_new|reflexivity..] | cbn [s_mem upd_mem upd_obs upd_devs]; rewrite mget_mset_same; apply winit_new]).
      * destruct (c_track c); cbn [fst snd]; (split; [exact Hs | apply (AI_mget s a Hs)]).
  - destruct (c_track c); cbn [fst snd]; (split; [exact Hs | apply AI_mget; exact Hs]).
Qed.

Lemma AI_ireg_write s r v : AI s -> AI (ireg_write s r v).
Proof. intros H. destruct r; try exact H. apply AI_ssp; [exact H|apply winit_new]. Qed.

Lemma g_write e a w c : winit w -> G (write_mem e a w c) any.
Proof.
  intros Hw s Hs. unfold write_mem. destruct (negb (c_priv c) && negb (in_user a)); [split; [exact Hs|reflexivity]|].
  unfold get_if_init, set_if_init. pose proof Hw as Hw'. unfold winit in Hw'. rewrite Hw', orb_true_r.
  destruct (IO_START <=? a).
  - destruct (assoc (s_ireg s) a) as [r|].
    + pose proof (AI_ireg_write s r (w_data w) Hs) as Hi.
      destruct (c_track c); cbn [fst snd]; (split; [|exact Logic.I]); (eapply AI_mset'; [exact Hi|exact Hw|reflexivity..]).
    + destruct (dev_write e (nth_dev (s_devs s) (port_dev a)) a (w_data w)) as [d' [|]].
      * destruct (c_track c); cbn [fst snd]; (split; [|exact Logic.I]); (eapply AI_mset'; [exact Hs|exact Hw|reflexivity..]).
      * cbn [fst snd]. split; [exact Hs|exact Logic.I].
  - destruct (c_track c); cbn [fst snd]; (split; [|exact Logic.I]); (eapply AI_mset'; [exact Hs|exact Hw|reflexivity..]).
Qed.

Lemma g_set_pc w b : winit w -> G (set_pc w b) any.
Proof.
  intros Hw. unfold set_pc. eapply g_bind; [apply g_get|intros s Hs].
  eapply g_bind; [apply g_get_if_init; exact Hw|intros addr _].
  eapply g_bind.
  - pose proof (AI_mget s addr Hs) as Hi. unfold winit in Hi. rewrite Hi. cbn [negb]. rewrite andb_false_r. exact (g_ret tt any Logic.I).
  - intros _ _. apply g_modify. intros x H; exact H.
Qed.
Lemma g_offset_pc o b : G (offset_pc o b) any.
Proof. unfold offset_pc. eapply g_bind; [apply g_get|intros s Hs]. apply g_set_pc. apply winit_new. Qed.
Lemma g_set_reg dr v st : winit v -> G (set_reg_if_init dr v st) any.
Proof.
  intros Hv. unfold set_reg_if_init. eapply g_bind; [apply g_set_if_init; exact Hv|intros w Hw].
  apply g_modify. intros s Hs. apply AI_rset; assumption.
Qed.
Lemma g_set_cc r : G (set_cc r) any.
Proof. unfold set_cc. apply g_modify. intros s H; exact H. Qed.
Lemma g_push a b f : G (push_frame a b f) any.
Proof.
  unfold push_frame. apply g_modify. intros s H. destruct (s_frames s) as [fs|]; [|exact H].
  destruct (match f with FSubroutine => _ | FTrap => _ | FInterrupt => _ end) as [[k|rs]|]; exact H.
Qed.
Lemma g_pop : G pop_frame any.
Proof. unfold pop_frame. apply g_modify. intros s H; exact H. Qed.
Lemma g_swap_sp : G swap_sp any.
Proof.
  unfold swap_sp. apply g_modify. intros s H. apply AI_ssp; [apply AI_rset; [exact H|]|].
  - destruct H as (_ & _ & S & _). exact S.
  - apply AI_rget; [exact H|lia].
Qed.
Lemma g_call_subroutine addr : G (call_subroutine addr) any.
Proof.
  unfold call_subroutine. eapply g_bind; [apply g_modify; intros s H; apply AI_rset; [exact H|apply winit_new]|intros _ _].
  eapply g_bind; [apply g_get|intros s Hs]. eapply g_bind; [apply g_push|intros _ _]. apply g_set_pc. apply winit_new.
Qed.
Lemma g_call_interrupt e v ft : G (call_interrupt e v ft) any.
Proof.
  unfold call_interrupt. eapply g_bind; [apply g_get|intros s Hs]. eapply g_bind; [apply g_read|intros w Hw].
  eapply g_bind; [apply g_get|intros s1 Hs1]. eapply g_bind; [apply g_get_if_init; exact Hw|intros addr _].
  eapply g_bind; [apply g_push|intros _ _]. apply g_set_pc. apply winit_new.
Qed.

Lemma g_entry_body e vect (psr_f : Z -> Z) ft s :
  G ((if negb (psr_privileged (s_psr s)) then swap_sp else ret tt) ;;;
     s <- get ;;
     (let old_psr := s_psr s in let old_pc := s_pc s in
      modify (fun s => upd_psr s (psr_set_privileged (s_psr s) true)) ;;;
      s <- get ;;
      (let mctx := default_ctx s in
       sp <- of_opt (get_if_init (rget (s_regs s) 6) (strict s)) StrictMemAddrUninit ;;
       modify (fun s => upd_regs s (rset (s_regs s) 6 (w_sub (rget (s_regs s) 6) (new_init 2)))) ;;;
       write_mem e (wrap16 (sp - 1)) (new_init old_psr) mctx ;;;
       write_mem e (wrap16 (sp - 2)) (new_init old_pc) mctx ;;;
       modify (fun s => upd_psr s (psr_f (s_psr s))) ;;;
       call_interrupt e vect ft))) any.
Proof.
  eapply g_bind; [destruct (negb (psr_privileged (s_psr s))); [apply g_swap_sp|exact (g_ret tt any Logic.I)]|intros _ _].
  eapply g_bind; [apply g_get|intros s1 Hs1]. cbv zeta.
  eapply g_bind; [apply g_modify; intros x H; exact H|intros _ _].
  eapply g_bind; [apply g_get|intros s2 Hs2]. cbv zeta.
  eapply g_bind; [apply g_get_if_init; apply AI_rget; [exact Hs2|lia]|intros sp _].
  eapply g_bind; [apply g_modify; intros x H; apply AI_rset; [exact H|apply winit_sub; [apply AI_rget; [exact H|lia]|apply winit_new]]|intros _ _].
  eapply g_bind; [apply g_write; apply winit_new|intros _ _].
  eapply g_bind; [apply g_write; apply winit_new|intros _ _].
  eapply g_bind; [apply g_modify; intros x H; exact H|intros _ _].
  apply g_call_interrupt.
Qed.

Lemma real_int_vect_ok v b : real_int_vect v = Some b -> ok_brk b.
Proof.
  unfold real_int_vect. repeat match goal with |- context [if ?c then _ else _] => destruct c end;
  intros E; inversion E; cbn; auto.
Qed.

Lemma g_handle_interrupt e vect prio : G (handle_interrupt e vect prio) any.
Proof.
  unfold handle_interrupt. eapply g_bind; [apply g_get|intros s Hs].
  destruct prio as [p|].
  - destruct (p <=? psr_priority (s_psr s)); [exact (g_ret tt any Logic.I)|].
    apply (g_entry_body e vect (fun q => psr_set_priority (psr_set_cc q 2) p) FInterrupt s).
  - destruct (if fl_real (s_flags s) then None else real_int_vect vect) as [b|] eqn:E.
    + assert (ok_brk b) by (destruct (fl_real (s_flags s)); [discriminate|eapply real_int_vect_ok; eauto]).
      eapply g_bind.
      * destruct (negb (s_prefetch s)); [|exact (g_ret tt any Logic.I)].
        eapply g_bind; [apply g_offset_pc|intros _ _]. apply g_modify. intros x Hx; exact Hx.
      * intros _ _. apply g_fail. assumption.
    + apply (g_entry_body e vect (fun q => psr_set_cc q 2) FTrap s).
Qed.

(* register fields of decoded instructions are always in 0..7 *)
Definition ior_ok (o : imm_or_reg) : Prop := match o with Imm _ => True | RegOp r => 0 <= r < 8 end.
Definition regs_ok (i : sim_instr) : Prop :=
  match i with
  | SBR _ _ | SRTI | STRAP _ => True
  | SADD a b o | SAND a b o => 0 <= a < 8 /\ 0 <= b < 8 /\ ior_ok o
  | SLD a _ | SST a _ | SLDI a _ | SSTI a _ | SLEA a _ | SJMP a => 0 <= a < 8
  | SJSR o => ior_ok o
  | SLDR a b _ | SSTR a b _ | SNOT a b => 0 <= a < 8 /\ 0 <= b < 8
  end.

Lemma operand_init s o : AI s -> ior_ok o -> winit (operand s o).
Proof. intros H Ho. destruct o; cbn [operand]; [apply winit_new | apply AI_rget; assumption]. Qed.

Lemma g_exec e i : regs_ok i -> G (exec e i) any.
Proof.
  intros RO. unfold exec. eapply g_bind; [apply g_get|intros s Hs]. cbv zeta.
  destruct i as [cc off|dr sr1 o|dr off|sr off|o|dr sr1 o|dr br off|sr br off| |dr sr|dr off|sr off|br|dr off|v]; cbn [regs_ok] in RO.
  - destruct (negb (Z.land cc (psr_cc (s_psr s)) =? 0)); [apply g_offset_pc|exact (g_ret tt any Logic.I)].
  - destruct RO as (A & B & O). eapply g_bind; [apply g_set_reg; apply winit_add; [apply AI_rget; assumption|apply operand_init; assumption]|intros _ _]. apply g_set_cc.
  - eapply g_bind; [apply g_read|intros v Hv]. eapply g_bind; [apply g_set_reg; exact Hv|intros _ _]. apply g_set_cc.
  - apply g_write. apply AI_rget; assumption.
  - eapply g_bind.
    + apply g_get_if_init. destruct o; [apply winit_new|apply AI_rget; assumption].
    + intros a _. apply g_call_subroutine.
  - destruct RO as (A & B & O). eapply g_bind; [apply g_set_reg; apply winit_and; [apply AI_rget; assumption|apply operand_init; assumption]|intros _ _]. apply g_set_cc.
  - destruct RO as (A & B). eapply g_bind; [apply g_get_if_init; apply AI_rget; assumption|intros b _].
    eapply g_bind; [apply g_read|intros v Hv]. eapply g_bind; [apply g_set_reg; exact Hv|intros _ _]. apply g_set_cc.
  - destruct RO as (A & B). eapply g_bind; [apply g_get_if_init; apply AI_rget; assumption|intros b _].
    apply g_write. apply AI_rget; assumption.
  - destruct (psr_privileged (s_psr s) || fl_ignore_priv (s_flags s)); [|apply g_err; reflexivity].
    eapply g_bind; [apply g_get_if_init; apply AI_rget; [exact Hs|lia]|intros sp _].
    eapply g_bind; [apply g_read|intros w1 H1]. eapply g_bind; [apply g_get_if_init; exact H1|intros pc _].
    eapply g_bind; [apply g_read|intros w2 H2]. eapply g_bind; [apply g_get_if_init; exact H2|intros psr _].
    eapply g_bind; [apply g_modify; intros x H; apply AI_rset; [exact H|apply winit_add; [apply AI_rget; [exact H|lia]|apply winit_new]]|intros _ _].
    eapply g_bind; [apply g_set_pc; apply winit_new|intros _ _].
    eapply g_bind; [apply g_modify; intros x H; exact H|intros _ _].
    eapply g_bind; [destruct (negb (psr_privileged psr)); [apply g_swap_sp|exact (g_ret tt any Logic.I)]|intros _ _]. apply g_pop.
  - destruct RO as (A & B). eapply g_bind; [apply g_set_reg; apply winit_not; apply AI_rget; assumption|intros _ _]. apply g_set_cc.
  - eapply g_bind; [apply g_read|intros w Hw]. eapply g_bind; [apply g_get_if_init; exact Hw|intros ea _].
    eapply g_bind; [apply g_get|intros s1 Hs1]. cbv zeta.
    eapply g_bind; [apply g_read|intros v Hv]. eapply g_bind; [apply g_set_reg; exact Hv|intros _ _]. apply g_set_cc.
  - eapply g_bind; [apply g_read|intros w Hw]. eapply g_bind; [apply g_get_if_init; exact Hw|intros ea _].
    eapply g_bind; [apply g_get|intros s1 Hs1]. cbv zeta. apply g_write. apply AI_rget; assumption.
  - eapply g_bind; [apply g_set_pc; apply AI_rget; assumption|intros _ _]. destruct (br =? 7); [apply g_pop|exact (g_ret tt any Logic.I)].
  - apply g_modify. intros x H. apply AI_rset; [exact H|apply winit_new].
  - apply g_handle_interrupt.
Qed.

Lemma decode_regs_ok w i : decode w = DOk i -> regs_ok i.
Proof.
  intros E. unfold decode in E.
  pose proof (slice3_reg_ok w 9) as R9. pose proof (slice3_reg_ok w 6) as R6. pose proof (slice3_reg_ok w 0) as R0.
  change (9 + 3) with 12 in R9. change (6 + 3) with 9 in R6. change (0 + 3) with 3 in R0.
  assert (forall x, reg_ok x = true -> 0 <= x < 8) as RK by (unfold reg_ok; intros; lia).
  pose proof (RK _ R9). pose proof (RK _ R6). pose proof (RK _ R0).
  rewrite R9, R6, R0 in E. cbn [andb negb] in E.
  repeat match type of E with context [if ?c then _ else _] => destruct c end; try discriminate E;
  injection E as <-; cbn [regs_ok ior_ok]; auto.
Qed.

Lemma g_decode_m w : G (decode_m w) regs_ok.
Proof.
  unfold decode_m. pose proof (decode_never_panics w) as NP. pose proof (decode_regs_ok w) as RO.
  destruct (decode w) as [i| | |]; try contradiction.
  - apply g_ret. apply RO. reflexivity.
  - apply g_err. reflexivity.
  - apply g_err. reflexivity.
Qed.

Lemma g_step_inner e : G (step_inner e) any.
Proof.
  unfold step_inner. eapply g_bind; [apply g_modify; intros x H; exact H|intros _ _].
  eapply g_bind; [apply g_get|intros s Hs].
  destruct (poll_all e (s_devs s) (e_draws e) None) as [[ds i] rest].
  eapply g_bind; [apply g_modify; intros x H; exact H|intros _ _]. cbv zeta.
  assert (FE : G (s0 <- get;; w <- read_mem e (s_pc s0) (default_ctx s0);;
      word <- of_opt (get_if_init w (strict s0)) StrictPCCurrUninit;; instr <- decode_m word;;
      offset_pc 1 false;;; modify (fun s1 => upd_prefetch s1 false);;; exec e instr;;;
      modify (fun s1 => upd_instrs s1 ((s_instrs s1 + 1) mod 18446744073709551616))) any).
  { eapply g_bind; [apply g_get|intros s0 Hs0]. eapply g_bind; [apply g_read|intros w Hw].
    eapply g_bind; [apply g_get_if_init; exact Hw|intros word _]. eapply g_bind; [apply g_decode_m|intros instr RO].
    eapply g_bind; [apply g_offset_pc|intros _ _]. eapply g_bind; [apply g_modify; intros x H; exact H|intros _ _].
    eapply g_bind; [apply g_exec; exact RO|intros _ _]. apply g_modify; intros x H; exact H. }
  destruct i as [[vect prio|]|].
  - destruct (psr_priority (s_psr s) <? prio); [apply g_handle_interrupt | exact FE].
  - apply g_err. reflexivity.
  - exact FE.
Qed.

Theorem init_machine_no_strict_error e s :
  AI s -> AI (fst (step_in e s)) /\ (forall x, snd (step_in e s) = OErr x -> is_strict_err x = false).
Proof.
  intros Hs. unfold step_in.
  assert (GS : G (step e) any).
  { intros s0 Hs0. unfold step. pose proof (g_step_inner e s0 Hs0) as H.
    destruct (step_inner e s0) as [s1 r]. cbn [fst snd] in H. destruct H as [H1 H2].
    destruct (negb (fl_real (s_flags s1))); [split; assumption|].
    destruct r as [u|[ |x| ]]; try (split; assumption).
    - apply g_handle_interrupt. exact H1.
    - destruct x; try (split; assumption); apply g_handle_interrupt; exact H1. }
  specialize (GS (upd_obs s []) Hs). destruct (step e (upd_obs s [])) as [s1 r]. cbn [fst snd] in *.
  destruct GS as [G1 G2]. split; [exact G1|]. intros x E. destruct r as [u|[ |y| ]]; try discriminate E.
  injection E as <-. exact G2.
Qed.
