(* SimNoPanic.v — C16 on the model: no machine state, environment or flag combination makes
   [step_in] return the Panic outcome, and [prefetch_pc] is a total function.  (The Rust panic
   sites of the modelled code are listed and discharged in tools/panic_sites.expected; the only
   one a state could reach is `Reg::try_from(..).unwrap()` in decode, explicit as [DPanic].) *)
From Coq Require Import ZArith List Bool Lia.
From Gen Require Import Constants.
From Model Require Import Tree Bits Word Instr Sim.
From Proofs Require Import SimHoare.
Import ListNotations.
Open Scope Z_scope.

Lemma land7_range x : 0 <= Z.land x 7 < 8.
Proof.
  change 7 with (Z.ones 3). rewrite Z.land_ones by lia.
  apply Z.mod_pos_bound. reflexivity.
Qed.
Lemma slice3_reg_ok w lo : reg_ok (slice w lo (lo + 3)) = true.
Proof.
  unfold reg_ok, slice. replace (lo + 3 - lo) with 3 by lia. change (Z.shiftl 1 3 - 1) with 7.
  pose proof (land7_range (Z.shiftr w lo)). lia.
Qed.

(* decode never panics, for EVERY integer (not only 16-bit words) *)
Lemma decode_never_panics w : decode w <> DPanic.
Proof.
  unfold decode.
  pose proof (slice3_reg_ok w 9) as R9. pose proof (slice3_reg_ok w 6) as R6. pose proof (slice3_reg_ok w 0) as R0.
  change (9 + 3) with 12 in R9. change (6 + 3) with 9 in R6. change (0 + 3) with 3 in R0.
  rewrite R9, R6, R0. cbn [andb negb].
  repeat match goal with |- context [if ?c then _ else _] => destruct c end; discriminate.
Qed.

Lemma np_decode_m w : nopanic (decode_m w).
Proof.
  unfold decode_m. pose proof (decode_never_panics w). destruct (decode w); try contradiction;
  [apply np_ret | apply np_err | apply np_err].
Qed.

Lemma np_read e a c : nopanic (read_mem e a c).
Proof.
  intros s. unfold read_mem.
  destruct (negb (c_priv c) && negb (in_user a)); [cbn; discriminate|].
  cbn. discriminate.
Qed.

Lemma np_write e a d c : nopanic (write_mem e a d c).
Proof.
  intros s. unfold write_mem.
  destruct (negb (c_priv c) && negb (in_user a)); [cbn; discriminate|].
  destruct (IO_START <=? a).
  - destruct (get_if_init d (c_strict c)); [|cbn; discriminate].
    destruct (assoc (s_ireg s) a).
    + destruct (set_if_init d (c_strict c)); cbn; discriminate.
    + destruct (dev_write e (nth_dev (s_devs s) (port_dev a)) a z) as [d' ok].
      destruct ok; [destruct (set_if_init d (c_strict c))|]; cbn; discriminate.
  - destruct (set_if_init d (c_strict c)); cbn; discriminate.
Qed.

(* [np_step tac]: decompose the monadic term; [tac] (lemmas about named sub-computations) is tried
   before the bind rule so that named definitions are not unfolded by unification *)
Ltac np_with tac :=
  repeat first
    [ tac
    | apply np_ret | apply np_get | apply np_modify | apply np_err | apply np_of_opt
    | apply np_read | apply np_write | apply np_decode_m
    | apply np_bind; [|intro]
    | match goal with
      | |- nopanic (if ?c then _ else _) => destruct c
      | |- nopanic (match ?x with _ => _ end) => destruct x
      | |- nopanic (let '(_, _) := ?x in _) => destruct x
      end ].
Ltac np := np_with fail.

Lemma np_set_cc r : nopanic (set_cc r). Proof. unfold set_cc; np. Qed.
Lemma np_set_pc w b : nopanic (set_pc w b). Proof. unfold set_pc; np. Qed.
Lemma np_offset_pc o b : nopanic (offset_pc o b). Proof. unfold offset_pc; np_with ltac:(apply np_set_pc). Qed.
Lemma np_push_frame a b f : nopanic (push_frame a b f). Proof. unfold push_frame; np. Qed.
Lemma np_pop_frame : nopanic pop_frame. Proof. unfold pop_frame; np. Qed.
Lemma np_swap_sp : nopanic swap_sp. Proof. unfold swap_sp; np. Qed.
Lemma np_set_reg d v st : nopanic (set_reg_if_init d v st). Proof. unfold set_reg_if_init; np. Qed.
Lemma np_call_subroutine a : nopanic (call_subroutine a).
Proof. unfold call_subroutine; np_with ltac:(first [apply np_push_frame | apply np_set_pc]). Qed.
Lemma np_call_interrupt e v f : nopanic (call_interrupt e v f).
Proof. unfold call_interrupt; np_with ltac:(first [apply np_push_frame | apply np_set_pc]). Qed.

Lemma real_int_vect_not_panic v b : real_int_vect v = Some b -> b <> BPanic.
Proof.
  unfold real_int_vect. repeat match goal with |- context [if ?c then _ else _] => destruct c end;
  intros E; inversion E; discriminate.
Qed.

Lemma np_handle_interrupt e v p : nopanic (handle_interrupt e v p).
Proof.
  unfold handle_interrupt. apply np_bind; [apply np_get|intro s].
  destruct p as [p|].
  - destruct (p <=? psr_priority (s_psr s)); [apply np_ret|].
    np_with ltac:(first [apply np_swap_sp | apply np_call_interrupt]).
  - destruct (if fl_real (s_flags s) then None else real_int_vect v) as [b|] eqn:E.
    + assert (b <> BPanic).
      { destruct (fl_real (s_flags s)); [discriminate|]. eapply real_int_vect_not_panic; eauto. }
      np_with ltac:(first [apply np_offset_pc | apply np_fail; assumption]).
    + np_with ltac:(first [apply np_swap_sp | apply np_call_interrupt]).
Qed.

Lemma np_exec e i : nopanic (exec e i).
Proof.
  unfold exec. apply np_bind; [apply np_get|intro s].
  destruct i;
    np_with ltac:(first [ apply np_offset_pc | apply np_set_reg | apply np_set_cc | apply np_call_subroutine
          | apply np_set_pc | apply np_swap_sp | apply np_pop_frame | apply np_handle_interrupt ]).
Qed.

Lemma np_step_inner e : nopanic (step_inner e).
Proof.
  unfold step_inner. np_with ltac:(first [ apply np_handle_interrupt | apply np_offset_pc | apply np_exec ]).
Qed.

Lemma np_step e : nopanic (step e).
Proof.
  intros s. unfold step. pose proof (np_step_inner e s) as H.
  destruct (step_inner e s) as [s1 r]. cbn in H.
  destruct (negb (fl_real (s_flags s1))); [exact H|].
  destruct r as [u|[ |x| ]]; try exact H.
  - apply np_handle_interrupt.
  - destruct x; try exact H; apply np_handle_interrupt.
Qed.

Theorem step_in_never_panics e s : snd (step_in e s) <> OPanic.
Proof.
  unfold step_in. pose proof (np_step e (upd_obs s [])) as H.
  destruct (step e (upd_obs s [])) as [s1 r]. cbn in *.
  destruct r as [u|[ |x| ]]; try discriminate. exfalso; apply H; reflexivity.
Qed.

(* any number of steps: iterate with arbitrary environments *)
Fixpoint run_n (es : list env) (s : sim) : sim * list outcome :=
  match es with
  | [] => (s, [])
  | e :: r => let '(s1, o) := step_in e s in let '(s2, os) := run_n r s1 in (s2, o :: os)
  end.
Theorem run_never_panics es : forall s, ~ In OPanic (snd (run_n es s)).
Proof.
  induction es as [|e r IH]; intros s; cbn; [tauto|].
  pose proof (step_in_never_panics e s) as H. destruct (step_in e s) as [s1 o]. cbn in H.
  specialize (IH s1). destruct (run_n r s1) as [s2 os]. cbn in *. intros [E|E]; [congruence|auto].
Qed.

(* prefetch_pc is total and yields a 16-bit address *)
Theorem prefetch_pc_range s : 0 <= prefetch_pc s < 65536.
Proof. unfold prefetch_pc, wrap16. apply Z.mod_pos_bound. reflexivity. Qed.
