(* SimObs.v — C28 at the level of whole instructions: which observer entries an instruction adds.
   (After the fetch; the fetch itself is one tracked read of the PC, see [read_obs].) *)
From Coq Require Import ZArith List Bool Lia.
From Gen Require Import Constants.
From Model Require Import Tree Bits Word Instr Sim.
From Proofs Require Import SimHoare SimAccess.
Import ListNotations.
Open Scope Z_scope.

Definition OBS (o : list (Z * Z)) (s : sim) : Prop := s_obs s = o.

Lemma inv_obs_modify o f : (forall s, s_obs (f s) = s_obs s) -> inv (OBS o) (modify f).
Proof. intros H. apply inv_modify. intros s E. unfold OBS in *. rewrite H. exact E. Qed.
Lemma inv_obs_set_pc o w b : inv (OBS o) (set_pc w b).
Proof.
  unfold set_pc. apply inv_bind; [apply inv_get|intro s]. apply inv_bind; [apply inv_of_opt|intro a].
  apply inv_bind; [destruct (_ && _ && _); [apply inv_err|apply inv_ret]|intros _]. apply inv_obs_modify. reflexivity.
Qed.
Lemma inv_obs_offset_pc o off b : inv (OBS o) (offset_pc off b).
Proof. unfold offset_pc. apply inv_bind; [apply inv_get|intro s]. apply inv_obs_set_pc. Qed.
Lemma inv_obs_set_reg o d v st : inv (OBS o) (set_reg_if_init d v st).
Proof. unfold set_reg_if_init. apply inv_bind; [apply inv_of_opt|intro w]. apply inv_obs_modify. reflexivity. Qed.
Lemma inv_obs_set_cc o r : inv (OBS o) (set_cc r).
Proof. unfold set_cc. apply inv_obs_modify. reflexivity. Qed.
Lemma inv_obs_push o a b f : inv (OBS o) (push_frame a b f).
Proof.
  unfold push_frame. apply inv_modify. intros s E. unfold OBS in *. destruct (s_frames s) as [fs|]; [|exact E].
  destruct (match f with FSubroutine => _ | FTrap => _ | FInterrupt => _ end) as [[k|rs]|]; exact E.
Qed.
Lemma inv_obs_pop o : inv (OBS o) pop_frame.
Proof. unfold pop_frame. apply inv_obs_modify. reflexivity. Qed.
Lemma inv_obs_call_subroutine o a : inv (OBS o) (call_subroutine a).
Proof.
  unfold call_subroutine. apply inv_bind; [apply inv_obs_modify; reflexivity|intros _].
  apply inv_bind; [apply inv_get|intro s]. apply inv_bind; [apply inv_obs_push|intros _]. apply inv_obs_set_pc.
Qed.

(* instructions without a memory operand *)
Definition no_mem_operand (i : sim_instr) : bool :=
  match i with
  | SBR _ _ | SADD _ _ _ | SAND _ _ _ | SNOT _ _ | SJMP _ | SJSR _ | SLEA _ _ => true
  | _ => false
  end.

Theorem exec_obs_neutral e i o : no_mem_operand i = true -> inv (OBS o) (exec e i).
Proof.
  intros N. unfold exec. apply inv_bind; [apply inv_get|intro s]. cbv zeta.
  destruct i as [cc off|dr sr1 op|dr off|sr off|op|dr sr1 op|dr br off|sr br off| |dr sr|dr off|sr off|br|dr off|v]; try discriminate N.
  - destruct (negb (Z.land cc (psr_cc (s_psr s)) =? 0)); [apply inv_obs_offset_pc|apply inv_ret].
  - apply inv_bind; [apply inv_obs_set_reg|intros _]. apply inv_obs_set_cc.
  - apply inv_bind; [apply inv_of_opt|intro a]. apply inv_obs_call_subroutine.
  - apply inv_bind; [apply inv_obs_set_reg|intros _]. apply inv_obs_set_cc.
  - apply inv_bind; [apply inv_obs_set_reg|intros _]. apply inv_obs_set_cc.
  - apply inv_bind; [apply inv_obs_set_pc|intros _]. destruct (br =? 7); [apply inv_obs_pop|apply inv_ret].
  - apply inv_obs_modify. reflexivity.
Qed.

(* LD / LDR: exactly one READ mark at the effective address, when the load completes *)
Lemma read_ok_obs e a c s s' w : read_mem e a c s = (s', inl w) -> c_track c = true ->
  s_obs s' = obs_update (s_obs s) a OBS_READ.
Proof.
  intros E T. pose proof (read_obs e a c s) as O. rewrite E in O. cbn [fst] in O. rewrite O, T.
  unfold read_mem in E. destruct (negb (c_priv c) && negb (in_user a)); [inversion E|reflexivity].
Qed.

Lemma tail_obs dr v ws s1 s' u :
  (set_reg_if_init dr v ws ;;; set_cc (w_data v)) s1 = (s', inl u) -> s_obs s' = s_obs s1.
Proof.
  intros E. pose proof (inv_bind (OBS (s_obs s1)) (set_reg_if_init dr v ws) (fun _ => set_cc (w_data v))
                         (inv_obs_set_reg _ dr v ws) (fun _ => inv_obs_set_cc _ (w_data v)) s1 eq_refl) as H.
  rewrite E in H. exact H.
Qed.

Theorem exec_obs_ld e dr off s s' u :
  exec e (SLD dr off) s = (s', inl u) -> s_obs s' = obs_update (s_obs s) (wrap16 (s_pc s + off)) OBS_READ.
Proof.
  unfold exec. rewrite run_bind, run_get. cbv zeta. rewrite run_bind.
  destruct (read_mem e (wrap16 (s_pc s + off)) (default_ctx s) s) as [s1 [v|b]] eqn:R; [|discriminate].
  intros E. rewrite (tail_obs _ _ _ _ _ _ E). exact (read_ok_obs _ _ _ _ _ _ R eq_refl).
Qed.

Theorem exec_obs_ldr e dr br off s s' u :
  exec e (SLDR dr br off) s = (s', inl u) ->
  s_obs s' = obs_update (s_obs s) (wrap16 (w_data (rget (s_regs s) br) + off)) OBS_READ.
Proof.
  unfold exec. rewrite run_bind, run_get. cbv zeta. rewrite run_bind.
  unfold get_if_init. destruct (negb (strict s) || is_init (rget (s_regs s) br)); cbn [of_opt]; [|discriminate].
  rewrite run_ret, run_bind.
  destruct (read_mem e (wrap16 (w_data (rget (s_regs s) br) + off)) (default_ctx s) s) as [s1 [v|b]] eqn:R; [|discriminate].
  intros E. rewrite (tail_obs _ _ _ _ _ _ E). exact (read_ok_obs _ _ _ _ _ _ R eq_refl).
Qed.

(* ST to ordinary memory: WRITTEN, and MODIFIED iff the stored word differs from the old one *)
Theorem exec_obs_st e sr off s s' u :
  exec e (SST sr off) s = (s', inl u) ->
  let ea := wrap16 (s_pc s + off) in
  (IO_START <=? ea) = false ->
  s_obs s' = let o := obs_update (s_obs s) ea OBS_WRITTEN in
             if word_eqb (mget (s_mem s) ea) (rget (s_regs s) sr) then o else obs_update o ea OBS_MODIFIED.
Proof.
  unfold exec. rewrite run_bind, run_get. cbv zeta. intros E IO.
  set (c := mkCtx _ _ _ _) in E.
  assert (P : negb (c_priv c) && negb (in_user (wrap16 (s_pc s + off))) = false).
  { unfold write_mem in E. destruct (negb (c_priv c) && negb (in_user (wrap16 (s_pc s + off)))); [discriminate E|reflexivity]. }
  pose proof (write_obs_plain e (wrap16 (s_pc s + off)) (rget (s_regs s) sr) c s P IO eq_refl) as O.
  rewrite E in O. exact O.
Qed.

(* STR to ordinary memory: as ST, at base + offset *)
Theorem exec_obs_str e sr br off s s' u :
  exec e (SSTR sr br off) s = (s', inl u) ->
  let ea := wrap16 (w_data (rget (s_regs s) br) + off) in
  (IO_START <=? ea) = false ->
  s_obs s' = let o := obs_update (s_obs s) ea OBS_WRITTEN in
             if word_eqb (mget (s_mem s) ea) (rget (s_regs s) sr) then o else obs_update o ea OBS_MODIFIED.
Proof.
  unfold exec. rewrite run_bind, run_get. cbv zeta. rewrite run_bind.
  unfold get_if_init. destruct (negb (strict s) || is_init (rget (s_regs s) br)); cbn [of_opt]; [|discriminate].
  rewrite run_ret. intros E IO.
  set (c := mkCtx _ _ _ _) in E.
  set (ea := wrap16 (w_data (rget (s_regs s) br) + off)) in *.
  assert (P : negb (c_priv c) && negb (in_user ea) = false).
  { unfold write_mem in E. destruct (negb (c_priv c) && negb (in_user ea)); [discriminate E|reflexivity]. }
  pose proof (write_obs_plain e ea (rget (s_regs s) sr) c s P IO eq_refl) as O.
  rewrite E in O. exact O.
Qed.

(* LDI: READ at the pointer's address, then READ at the address the pointer word holds
   (whatever the first read returned: memory or a device) *)
Theorem exec_obs_ldi e dr off s s' u :
  exec e (SLDI dr off) s = (s', inl u) ->
  exists s1 w, read_mem e (wrap16 (s_pc s + off)) (default_ctx s) s = (s1, inl w) /\
    s_obs s' = obs_update (obs_update (s_obs s) (wrap16 (s_pc s + off)) OBS_READ) (w_data w) OBS_READ.
Proof.
  unfold exec. rewrite run_bind, run_get. cbv zeta. rewrite run_bind.
  destruct (read_mem e (wrap16 (s_pc s + off)) (default_ctx s) s) as [s1 [w|b]] eqn:R1; [|discriminate].
  rewrite run_bind. unfold get_if_init. destruct (negb (strict s) || is_init w); cbn [of_opt]; [|discriminate].
  rewrite run_ret, run_bind, run_get. cbv zeta. rewrite run_bind.
  destruct (read_mem e (w_data w) (default_ctx s1) s1) as [s2 [v|b]] eqn:R2; [|discriminate].
  intros E. exists s1, w. split; [reflexivity|].
  rewrite (tail_obs _ _ _ _ _ _ E), (read_ok_obs _ _ _ _ _ _ R2 eq_refl), (read_ok_obs _ _ _ _ _ _ R1 eq_refl). reflexivity.
Qed.

(* STI: READ at the pointer's address, then the marks of a store at the address the pointer holds *)
Theorem exec_obs_sti e sr off s s' u :
  exec e (SSTI sr off) s = (s', inl u) ->
  exists s1 w, read_mem e (wrap16 (s_pc s + off)) (default_ctx s) s = (s1, inl w) /\
    ((IO_START <=? w_data w) = false ->
     s_obs s' = let o := obs_update (obs_update (s_obs s) (wrap16 (s_pc s + off)) OBS_READ) (w_data w) OBS_WRITTEN in
                if word_eqb (mget (s_mem s1) (w_data w)) (rget (s_regs s1) sr) then o else obs_update o (w_data w) OBS_MODIFIED).
Proof.
  unfold exec. rewrite run_bind, run_get. cbv zeta. rewrite run_bind.
  destruct (read_mem e (wrap16 (s_pc s + off)) (default_ctx s) s) as [s1 [w|b]] eqn:R1; [|discriminate].
  rewrite run_bind. unfold get_if_init. destruct (negb (strict s) || is_init w); cbn [of_opt]; [|discriminate].
  rewrite run_ret, run_bind, run_get. cbv zeta.
  intros E. exists s1, w. split; [reflexivity|]. intros IO.
  set (c := mkCtx _ _ _ _) in E.
  assert (P : negb (c_priv c) && negb (in_user (w_data w)) = false).
  { unfold write_mem in E. destruct (negb (c_priv c) && negb (in_user (w_data w))); [discriminate E|reflexivity]. }
  pose proof (write_obs_plain e (w_data w) (rget (s_regs s1) sr) c s1 P IO eq_refl) as O.
  rewrite E in O. cbn [fst] in O. rewrite O, (read_ok_obs _ _ _ _ _ _ R1 eq_refl). reflexivity.
Qed.
