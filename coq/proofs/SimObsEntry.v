(* SimObsEntry.v — C28 for RTI and for trap / interrupt / exception entry: the stack pops of a completed
   RTI are marked READ; a completed entry marks its two pushes WRITTEN (MODIFIED iff the word changes)
   and the vector entry READ. *)
From Coq Require Import ZArith List Bool Lia.
From Gen Require Import Constants.
From Model Require Import Tree Bits Word Instr Sim.
From Proofs Require Import SimHoare SimAccess SimObs IrqProofs.
Import ListNotations.
Open Scope Z_scope.

Lemma obs_modify_keeps {A} (m : M A) o : inv (OBS o) m -> forall s s' a, s_obs s = o -> m s = (s', a) -> s_obs s' = o.
Proof. intros I s s' a E R. pose proof (I s E) as H. rewrite R in H. exact H. Qed.

(* RTI: the two pops *)
Theorem exec_obs_rti e s s' u :
  exec e SRTI s = (s', inl u) ->
  let sp := w_data (rget (s_regs s) 6) in
  s_obs s' = obs_update (obs_update (s_obs s) sp OBS_READ) (wrap16 (sp + 1)) OBS_READ.
Proof.
  unfold exec. rewrite run_bind, run_get. cbv zeta.
  destruct (psr_privileged (s_psr s) || fl_ignore_priv (s_flags s)); [|discriminate].
  rewrite run_bind. unfold get_if_init at 1.
  destruct (negb (strict s) || is_init (rget (s_regs s) 6)); cbn [of_opt]; [|discriminate].
  rewrite run_ret, run_bind.
  destruct (read_mem e (w_data (rget (s_regs s) 6)) (default_ctx s) s) as [s1 [w1|b]] eqn:R1; [|discriminate].
  rewrite run_bind. unfold get_if_init at 1. destruct (negb (strict s) || is_init w1); cbn [of_opt]; [|discriminate].
  rewrite run_ret, run_bind.
  destruct (read_mem e (wrap16 (w_data (rget (s_regs s) 6) + 1)) (default_ctx s) s1) as [s2 [w2|b]] eqn:R2; [|discriminate].
  rewrite run_bind. unfold get_if_init at 1. destruct (negb (strict s) || is_init w2); cbn [of_opt]; [|discriminate].
  rewrite run_ret. intros E.
  assert (K : inv (OBS (s_obs s2))
    (modify (fun s0 => upd_regs s0 (rset (s_regs s0) 6 (w_add (rget (s_regs s0) 6) (new_init 2))));;;
     set_pc (new_init (w_data w1)) true;;;
     modify (fun s0 => upd_psr s0 (w_data w2));;;
     (if negb (psr_privileged (w_data w2)) then swap_sp else ret tt);;; pop_frame)).
  { apply inv_bind; [apply inv_obs_modify; reflexivity|intros _].
    apply inv_bind; [apply inv_obs_set_pc|intros _].
    apply inv_bind; [apply inv_obs_modify; reflexivity|intros _].
    apply inv_bind; [destruct (negb (psr_privileged (w_data w2))); [unfold swap_sp; apply inv_obs_modify; reflexivity|apply inv_ret]|intros _].
    apply inv_obs_pop. }
  rewrite (obs_modify_keeps _ _ K s2 s' (inl u) eq_refl E).
  rewrite (read_ok_obs _ _ _ _ _ _ R2 eq_refl), (read_ok_obs _ _ _ _ _ _ R1 eq_refl). reflexivity.
Qed.

(* ------------------------------------------------------------------ entry *)
Definition wmark (o : list (Z * Z)) (a : Z) (old new : word) : list (Z * Z) :=
  let o1 := obs_update o a OBS_WRITTEN in if word_eqb old new then o1 else obs_update o1 a OBS_MODIFIED.

(* a permitted, tracked write of an initialised word to ordinary memory, as a state transformer *)
Lemma write_plain e a d c s :
  c_priv c = true -> (IO_START <=? a) = false -> c_track c = true ->
  write_mem e a (new_init d) c s =
  (upd_mem (upd_obs s (wmark (s_obs s) a (mget (s_mem s) a) (new_init d))) (mset (s_mem s) a (new_init d)), inl tt).
Proof.
  intros P IO T. unfold write_mem. rewrite P, IO, T. cbn [negb andb]. cbv zeta.
  unfold set_if_init, new_init, is_init. cbn [w_init w_data]. rewrite Z.eqb_refl, orb_true_r.
  unfold wmark. destruct (word_eqb (mget (s_mem s) a) {| w_data := d; w_init := ALL_BITS |}); reflexivity.
Qed.

(* the common body of interrupt, trap and exception entry (after the virtual short-cut and the priority gate) *)
Definition entry_body (e : env) (v : Z) (ft : ftype) (psr_f : Z -> Z) (s : sim) : M unit :=
  (if negb (psr_privileged (s_psr s)) then swap_sp else ret tt);;;
  s0 <- get;; (let old_psr := s_psr s0 in let old_pc := s_pc s0 in
   modify (fun s1 => upd_psr s1 (psr_set_privileged (s_psr s1) true));;;
   s1 <- get;; (let mctx := default_ctx s1 in
    sp <- of_opt (get_if_init (rget (s_regs s1) 6) (strict s1)) StrictMemAddrUninit;;
    modify (fun s2 => upd_regs s2 (rset (s_regs s2) 6 (w_sub (rget (s_regs s2) 6) (new_init 2))));;;
    write_mem e (wrap16 (sp - 1)) (new_init old_psr) mctx;;;
    write_mem e (wrap16 (sp - 2)) (new_init old_pc) mctx;;;
    modify (fun s2 => upd_psr s2 (psr_f (s_psr s2)));;;
    call_interrupt e v ft)).

Lemma handle_interrupt_some_is_entry e v p s : psr_priority (s_psr s) < p ->
  handle_interrupt e v (Some p) s = entry_body e v FInterrupt (fun x => psr_set_priority (psr_set_cc x 2) p) s s.
Proof.
  intros H. unfold handle_interrupt. rewrite run_bind, run_get.
  destruct (Z.leb_spec p (psr_priority (s_psr s))); [lia|]. reflexivity.
Qed.
Lemma handle_interrupt_none_is_entry e v s : (if fl_real (s_flags s) then None else real_int_vect v) = None ->
  handle_interrupt e v None s = entry_body e v FTrap (fun x => psr_set_cc x 2) s s.
Proof. intros H. unfold handle_interrupt. rewrite run_bind, run_get, H. reflexivity. Qed.

Lemma psr_priv_set p : psr_privileged (psr_set_privileged p true) = true.
Proof.
  unfold psr_privileged, psr_set_privileged. rewrite Z.lor_0_r.
  change 32767 with (Z.ones 15). rewrite Z.land_ones by lia.
  rewrite Z.shiftr_div_pow2 by lia. apply Z.eqb_eq. apply Z.div_small. apply Z.mod_pos_bound. lia.
Qed.

Lemma wrap16_nonneg x : 0 <= wrap16 x.
Proof. unfold wrap16. apply Z.mod_pos_bound. reflexivity. Qed.
Lemma wrap16_pred_ne x : wrap16 (x - 1) <> wrap16 (x - 2).
Proof. unfold wrap16. pose proof (Z.mod_pos_bound (x - 1) 65536 eq_refl). pose proof (Z.mod_pos_bound (x - 2) 65536 eq_refl).
  pose proof (Z.div_mod (x - 1) 65536). pose proof (Z.div_mod (x - 2) 65536). lia. Qed.

(* the stack pointer the entry pushes below: the supervisor stack pointer *)
Definition entry_sp (s : sim) : Z :=
  if psr_privileged (s_psr s) then w_data (rget (s_regs s) 6) else w_data (s_saved_sp s).

Theorem entry_obs e v ft psr_f s s' u :
  length (s_regs s) = 8%nat ->
  entry_body e v ft psr_f s s = (s', inl u) ->
  let a1 := wrap16 (entry_sp s - 1) in let a2 := wrap16 (entry_sp s - 2) in
  (IO_START <=? a1) = false -> (IO_START <=? a2) = false -> (IO_START <=? v) = false ->
  s_obs s' = obs_update (wmark (wmark (s_obs s) a1 (mget (s_mem s) a1) (new_init (s_psr s)))
                                a2 (mget (s_mem s) a2) (new_init (s_pc s))) v OBS_READ.
Proof.
  intros LEN E a1 a2 IO1 IO2 IOV. revert E. unfold entry_body.
  rewrite run_bind.
  (* after the optional swap *)
  set (sa := if negb (psr_privileged (s_psr s))
             then upd_saved_sp (upd_regs s (rset (s_regs s) 6 (s_saved_sp s))) (rget (s_regs s) 6) else s).
  assert (SW : (if negb (psr_privileged (s_psr s)) then swap_sp else ret tt) s = (sa, inl tt)).
  { unfold sa. destruct (negb (psr_privileged (s_psr s))); reflexivity. }
  rewrite SW, run_bind, run_get. cbv zeta. rewrite run_bind, run_modify, run_bind, run_get. cbv zeta.
  set (sb := upd_psr sa (psr_set_privileged (s_psr sa) true)).
  rewrite run_bind. unfold get_if_init.
  destruct (negb (strict sb) || is_init (rget (s_regs sb) 6)); cbn [of_opt]; [|discriminate].
  rewrite run_ret, run_bind, run_modify.
  set (sc := upd_regs sb (rset (s_regs sb) 6 (w_sub (rget (s_regs sb) 6) (new_init 2)))).
  assert (SP : w_data (rget (s_regs sb) 6) = entry_sp s).
  { unfold sb, sa, entry_sp. destruct (psr_privileged (s_psr s)); cbn [negb]; [reflexivity|].
    cbn [upd_psr upd_saved_sp upd_regs s_regs]. rewrite rget_rset_same; [reflexivity|lia|rewrite LEN; cbn; lia]. }
  rewrite SP. fold a1 a2.
  assert (CP : c_priv (default_ctx sb) = true).
  { unfold default_ctx, sb. cbn [c_priv upd_psr s_psr]. rewrite psr_priv_set. reflexivity. }
  rewrite run_bind, (write_plain e a1 (s_psr sa) (default_ctx sb) sc CP IO1 eq_refl).
  set (sd := upd_mem _ _).
  rewrite run_bind, (write_plain e a2 (s_pc sa) (default_ctx sb) sd CP IO2 eq_refl).
  set (se := upd_mem _ _).
  rewrite run_bind, run_modify.
  set (sf := upd_psr se _).
  intros E.
  (* call_interrupt: the vector read, then nothing more *)
  unfold call_interrupt in E. rewrite run_bind, run_get, run_bind in E.
  destruct (read_mem e v (default_ctx sf) sf) as [sg [w|b]] eqn:RV; [|discriminate].
  assert (K : inv (OBS (s_obs sg))
            (s0 <- get;; addr <- of_opt (get_if_init w (strict s0)) StrictSRAddrUninit;;
             push_frame (prefetch_pc s0) v ft;;; set_pc (new_init addr) true)).
  { apply inv_bind; [apply inv_get|intro s0]. apply inv_bind; [apply inv_of_opt|intro addr].
    apply inv_bind; [apply inv_obs_push|intros _]. apply inv_obs_set_pc. }
  rewrite (obs_modify_keeps _ _ K sg s' (inl u) eq_refl E).
  rewrite (read_ok_obs _ _ _ _ _ _ RV eq_refl).
  (* unfold the recorded marks *)
  assert (FA : s_psr sa = s_psr s /\ s_pc sa = s_pc s /\ s_mem sa = s_mem s /\ s_obs sa = s_obs s).
  { unfold sa. destruct (negb (psr_privileged (s_psr s))); repeat split; reflexivity. }
  destruct FA as (F1 & F2 & F3 & F4).
  unfold sf, se, sd, sc, sb. cbn [upd_psr upd_mem upd_obs upd_regs s_obs s_mem s_psr s_pc].
  rewrite F1, F2, F3, F4.
  rewrite (mget_mset_other (s_mem s) a1 a2 (new_init (s_psr s)) (wrap16_nonneg _) (wrap16_nonneg _) (wrap16_pred_ne _)).
  reflexivity.
Qed.

(* in terms of the two public entry points *)
Theorem interrupt_entry_obs e v p s s' u :
  length (s_regs s) = 8%nat -> psr_priority (s_psr s) < p ->
  handle_interrupt e v (Some p) s = (s', inl u) ->
  let a1 := wrap16 (entry_sp s - 1) in let a2 := wrap16 (entry_sp s - 2) in
  (IO_START <=? a1) = false -> (IO_START <=? a2) = false -> (IO_START <=? v) = false ->
  s_obs s' = obs_update (wmark (wmark (s_obs s) a1 (mget (s_mem s) a1) (new_init (s_psr s)))
                                a2 (mget (s_mem s) a2) (new_init (s_pc s))) v OBS_READ.
Proof. intros L G E. rewrite (handle_interrupt_some_is_entry e v p s G) in E. exact (entry_obs _ _ _ _ _ _ _ L E). Qed.

Theorem trap_entry_obs e v s s' u :
  length (s_regs s) = 8%nat ->
  handle_interrupt e v None s = (s', inl u) ->
  let a1 := wrap16 (entry_sp s - 1) in let a2 := wrap16 (entry_sp s - 2) in
  (IO_START <=? a1) = false -> (IO_START <=? a2) = false -> (IO_START <=? v) = false ->
  s_obs s' = obs_update (wmark (wmark (s_obs s) a1 (mget (s_mem s) a1) (new_init (s_psr s)))
                                a2 (mget (s_mem s) a2) (new_init (s_pc s))) v OBS_READ.
Proof.
  intros L E. destruct (if fl_real (s_flags s) then None else real_int_vect v) as [b|] eqn:V.
  - (* the virtual short-cut never completes *)
    exfalso. revert E. unfold handle_interrupt. rewrite run_bind, run_get, V, run_bind.
    destruct ((if negb (s_prefetch s) then offset_pc (-1) false;;; modify (fun s0 => upd_prefetch s0 true) else ret tt) s) as [t [x|b']]; discriminate.
  - rewrite (handle_interrupt_none_is_entry e v s V) in E. exact (entry_obs _ _ _ _ _ _ _ L E).
Qed.
