(* SimRefineExec.v — every instruction of the model ([exec]) and the trap/interrupt entry
   ([handle_interrupt]) refine [execute] / [enter] of the reference semantics, non-strict mode. *)
From Coq Require Import ZArith List Bool Lia FMapPositive.
From Gen Require Import Constants.
From Model Require Import Tree Bits Word Instr Sim IsaWire.
From Spec Require Import IsaSpec.
From Proofs Require Import SimHoare SimRefinePrims InstrProofs.
Import ListNotations.
Open Scope Z_scope.

Definition sout_of {A} (r : A + brk) : option sout :=
  match r with
  | inl _ => Some SOk | inr BHalt => Some SHalt | inr (BErr e) => Some (SErr e) | inr BPanic => None
  end.

(* ---------- closed forms of the helpers in non-strict mode ---------- *)
Lemma strict_lax s : lax s -> strict s = false. Proof. intros H; exact H. Qed.

Lemma set_pc_lax w b s : lax s -> set_pc w b s = (upd_pc s (w_data w), inl tt).
Proof.
  intros H. unfold set_pc. rewrite run_bind, run_get. rewrite (strict_lax s H).
  unfold get_if_init. cbn [negb orb of_opt]. rewrite run_bind, run_ret. cbn [andb]. rewrite run_bind, run_ret.
  reflexivity.
Qed.
Lemma offset_pc_lax o b s : lax s -> offset_pc o b s = (upd_pc s (wrap16 (s_pc s + o)), inl tt).
Proof. intros H. unfold offset_pc. rewrite run_bind, run_get. rewrite set_pc_lax by exact H. reflexivity. Qed.
Lemma set_reg_lax dr v s : set_reg_if_init dr v false s = (upd_regs s (rset (s_regs s) dr v), inl tt).
Proof. reflexivity. Qed.
Lemma set_cc_run r s : set_cc r s = (upd_psr s (psr_set_cc (s_psr s) (cc_of r)), inl tt).
Proof. reflexivity. Qed.

Lemma cc_of_nzp v : cc_of v = nzp v. Proof. reflexivity. Qed.
Lemma psr_set_cc_nzp p v : psr_set_cc p (cc_of v) = Z.lor (Z.land p 65528) (nzp v).
Proof.
  unfold psr_set_cc, cc_of, nzp. destruct (to_i16 v <? 0); [reflexivity|]. destruct (to_i16 v =? 0); reflexivity.
Qed.
Lemma abs_set_cc s v : abs (upd_psr s (psr_set_cc (s_psr s) (cc_of v))) = with_cc (abs s) v.
Proof. rewrite psr_set_cc_nzp. reflexivity. Qed.

Lemma push_frame_run a b f s : exists s', push_frame a b f s = (s', inl tt) /\ abs s' = abs s /\ s_flags s' = s_flags s
  /\ s_pc s' = s_pc s /\ s_prefetch s' = s_prefetch s.
Proof.
  unfold push_frame, modify. eexists; split; [reflexivity|].
  destruct (s_frames s) as [fs|]; [|repeat split].
  destruct (match f with FSubroutine => _ | FTrap => _ | FInterrupt => _ end) as [[k|rs]|]; repeat split.
Qed.
Lemma pop_frame_run s : exists s', pop_frame s = (s', inl tt) /\ abs s' = abs s /\ s_flags s' = s_flags s.
Proof. unfold pop_frame, modify. eexists; repeat split. Qed.

Lemma swap_sp_run s : swap_sp s = (upd_saved_sp (upd_regs s (rset (s_regs s) 6 (s_saved_sp s))) (rget (s_regs s) 6), inl tt).
Proof. reflexivity. Qed.
Lemma abs_swap s : abs (upd_saved_sp (upd_regs s (rset (s_regs s) 6 (s_saved_sp s))) (rget (s_regs s) 6)) = swap_stacks (abs s).
Proof.
  unfold swap_stacks. rewrite abs_upd_saved_sp, abs_upd_regs, areg_abs. reflexivity.
Qed.

Lemma w_sub_data l k : k <> 0 -> w_data (w_sub l (new_init k)) = wrap16 (w_data l - k).
Proof.
  intros Hk. unfold w_sub, new_init. cbn [w_data w_init].
  destruct (k =? 0) eqn:E; [apply Z.eqb_eq in E; contradiction|]. reflexivity.
Qed.
Lemma w_add_data_2 l : 0 <= w_data l < 65536 -> w_data (w_add l (new_init 2)) = wrap16 (w_data l + 2).
Proof.
  intros Hr. unfold w_add, new_init. cbn [w_data w_init]. cbn [Z.eqb andb].
  destruct ((w_data l =? 0) && (w_init l =? ALL_BITS)) eqn:E; [|reflexivity].
  apply andb_prop in E. destruct E as [E _]. apply Z.eqb_eq in E. rewrite E. reflexivity.
Qed.

(* ---------- supervisor accesses in non-strict mode cannot fail ---------- *)
Lemma write_mem_priv_ok e a w c s : c_priv c = true -> c_strict c = false -> snd (write_mem e a w c s) = inl tt.
Proof.
  intros Hp Hs. unfold write_mem. rewrite Hp. cbn [negb andb]. unfold get_if_init, set_if_init. rewrite Hs. cbn [negb orb].
  destruct (IO_START <=? a).
  - destruct (assoc (s_ireg s) a); [reflexivity|].
    destruct (dev_write e (nth_dev (s_devs s) (port_dev a)) a (w_data w)) as [d' [|]]; reflexivity.
  - reflexivity.
Qed.
Lemma read_mem_psr e a c s : s_psr (fst (read_mem e a c s)) = s_psr s.
Proof.
  unfold read_mem. destruct (negb (c_priv c) && negb (in_user a)); [reflexivity|].
  destruct (IO_START <=? a).
  - destruct (assoc (s_ireg s) a); [destruct (c_track c); reflexivity|].
    destruct (dev_read e (nth_dev (s_devs s) (port_dev a)) a (c_io c)) as [d' [v|]]; destruct (c_track c); reflexivity.
  - destruct (c_track c); reflexivity.
Qed.
Lemma read_mem_priv_ok e a c s : c_priv c = true -> exists w, snd (read_mem e a c s) = inl w.
Proof. intros Hp. unfold read_mem. rewrite Hp. cbn [negb andb]. eexists; reflexivity. Qed.

Lemma psr_priv_land p : psr_privileged (Z.land p 32767) = true.
Proof.
  unfold psr_privileged. change 32767 with (Z.ones 15). rewrite Z.land_ones by lia.
  rewrite Z.shiftr_div_pow2 by lia. rewrite Z.div_small; [reflexivity|]. apply Z.mod_pos_bound. reflexivity.
Qed.
Lemma psr_set_priv_true p : psr_set_privileged p true = Z.land p 32767.
Proof. unfold psr_set_privileged. apply Z.lor_0_r. Qed.

Lemma lax_flags s s' : s_flags s' = s_flags s -> lax s -> lax s'.
Proof. unfold lax. intros ->. auto. Qed.

(* ---------- call_interrupt ---------- *)
Lemma call_interrupt_refines e vect ft s :
  lax s ->
  let '(s', r) := call_interrupt e vect ft s in
  (let '(a7, target) := load e (may_access_all (abs s)) vect (abs s) in
   match target with Some t => (with_pc a7 t, SOk) | None => (a7, SErr AccessViolation) end)
  = (abs s', match sout_of r with Some o => o | None => SOk end)
  /\ sout_of r <> None /\ s_flags s' = s_flags s.
Proof.
  intros Hlax. unfold call_interrupt. rewrite run_bind, run_get, run_bind.
  pose proof (read_mem_refines e vect (default_ctx s) s eq_refl) as (Hl & Hb & Hf).
  rewrite may_access_abs, Hl.
  destruct (read_mem e vect (default_ctx s) s) as [s1 [w|b]]; cbn [fst snd ropt] in *.
  - rewrite run_bind, run_get. assert (lax s1) as L1 by (eapply lax_flags; eauto).
    rewrite (strict_lax s1 L1). unfold get_if_init. cbn [negb orb of_opt]. rewrite run_bind, run_ret, run_bind.
    destruct (push_frame_run (prefetch_pc s1) vect ft s1) as (s2 & E2 & A2 & F2 & _).
    rewrite E2. rewrite set_pc_lax by (eapply lax_flags; [exact F2|exact L1]).
    cbn [w_data new_init]. rewrite abs_upd_pc, A2. repeat split; [discriminate|]. cbn [s_flags upd_pc]. rewrite F2. exact Hf.
  - specialize (Hb b eq_refl). subst b. repeat split; [discriminate|exact Hf].
Qed.

(* ---------- trap / exception / interrupt entry ---------- *)
Definition entry_psr (p : Z) (prio : option Z) : Z :=
  match prio with Some q => psr_set_priority (psr_set_cc p 2) q | None => psr_set_cc p 2 end.

Lemma psr_set_cc_2 p : psr_set_cc p 2 = Z.lor (Z.land p 65528) 2. Proof. reflexivity. Qed.

(* the common part of handle_interrupt after the gate and the virtual short-cut *)
Definition do_entry (e : env) (vect : Z) (prio : option Z) : M unit :=
  s <- get ;;
  (if negb (psr_privileged (s_psr s)) then swap_sp else ret tt) ;;;
  s <- get ;;
  let old_psr := s_psr s in let old_pc := s_pc s in
  modify (fun s => upd_psr s (psr_set_privileged (s_psr s) true)) ;;;
  s <- get ;;
  let mctx := default_ctx s in
  sp <- of_opt (get_if_init (rget (s_regs s) 6) (strict s)) StrictMemAddrUninit ;;
  modify (fun s => upd_regs s (rset (s_regs s) 6 (w_sub (rget (s_regs s) 6) (new_init 2)))) ;;;
  write_mem e (wrap16 (sp - 1)) (new_init old_psr) mctx ;;;
  write_mem e (wrap16 (sp - 2)) (new_init old_pc) mctx ;;;
  modify (fun s => upd_psr s (entry_psr (s_psr s) prio)) ;;;
  call_interrupt e vect (match prio with Some _ => FInterrupt | None => FTrap end).

Lemma do_entry_refines e vect prio s :
  lax s ->
  let '(s', r) := do_entry e vect prio s in
  enter e vect prio (abs s) = (abs s', match sout_of r with Some o => o | None => SOk end)
  /\ sout_of r <> None /\ s_flags s' = s_flags s.
Proof.
  intros Hlax. unfold do_entry, enter. rewrite run_bind, run_get, run_bind.
  change (supervisor (abs s)) with (psr_privileged (s_psr s)).
  (* after the optional stack swap *)
  set (s1 := if psr_privileged (s_psr s) then s
             else upd_saved_sp (upd_regs s (rset (s_regs s) 6 (s_saved_sp s))) (rget (s_regs s) 6)).
  assert (E1 : (if negb (psr_privileged (s_psr s)) then swap_sp else ret tt) s = (s1, inl tt)).
  { unfold s1. destruct (psr_privileged (s_psr s)); [reflexivity|]. cbn [negb]. apply swap_sp_run. }
  assert (A1 : (if psr_privileged (s_psr s) then abs s else swap_stacks (abs s)) = abs s1).
  { unfold s1. destruct (psr_privileged (s_psr s)); [reflexivity|]. symmetry. apply abs_swap. }
  assert (F1 : s_flags s1 = s_flags s) by (unfold s1; destruct (psr_privileged (s_psr s)); reflexivity).
  rewrite E1, A1. clear E1 A1.
  rewrite run_bind, run_get, run_bind, run_modify, run_bind, run_get.
  set (s2 := upd_psr s1 (psr_set_privileged (s_psr s1) true)).
  assert (L2 : lax s2) by (eapply lax_flags; [|exact Hlax]; exact F1).
  rewrite (strict_lax s2 L2). unfold get_if_init. cbn [negb orb of_opt]. rewrite run_bind, run_ret, run_bind, run_modify.
  set (sp := w_data (rget (s_regs s2) 6)).
  set (s3 := upd_regs s2 (rset (s_regs s2) 6 (w_sub (rget (s_regs s2) 6) (new_init 2)))).
  assert (P2 : c_priv (default_ctx s2) = true).
  { unfold default_ctx, s2. cbn [c_priv s_psr upd_psr]. rewrite psr_set_priv_true, psr_priv_land. reflexivity. }
  assert (S2 : c_strict (default_ctx s2) = false) by exact L2.
  (* the specification side up to the first push *)
  change (a_psr (abs s1)) with (s_psr s1). change (a_pc (abs s1)) with (s_pc s1).
  assert (A2 : with_psr (abs s1) (Z.land (s_psr s1) 32767) = abs s2).
  { unfold s2. rewrite abs_upd_psr, psr_set_priv_true. reflexivity. }
  rewrite A2. rewrite areg_abs. fold sp.
  assert (A3 : with_reg (abs s2) 6 (wrap16 (sp - 2)) = abs s3).
  { unfold s3. rewrite abs_upd_regs, w_sub_data by lia. reflexivity. }
  rewrite A3.
  (* first push *)
  rewrite run_bind.
  pose proof (write_mem_refines e (wrap16 (sp - 1)) (new_init (s_psr s1)) (default_ctx s2) s3 S2) as (W1 & _ & F4).
  pose proof (write_mem_priv_ok e (wrap16 (sp - 1)) (new_init (s_psr s1)) (default_ctx s2) s3 P2 S2) as O1.
  rewrite P2 in W1. cbn [w_data new_init] in W1. rewrite W1.
  destruct (write_mem e (wrap16 (sp - 1)) (new_init (s_psr s1)) (default_ctx s2) s3) as [s4 r4]. cbn [fst snd] in *. subst r4.
  (* second push *)
  rewrite run_bind.
  pose proof (write_mem_refines e (wrap16 (sp - 2)) (new_init (s_pc s1)) (default_ctx s2) s4 S2) as (W2 & _ & F5).
  pose proof (write_mem_priv_ok e (wrap16 (sp - 2)) (new_init (s_pc s1)) (default_ctx s2) s4 P2 S2) as O2.
  rewrite P2 in W2. cbn [w_data new_init] in W2. rewrite W2.
  destruct (write_mem e (wrap16 (sp - 2)) (new_init (s_pc s1)) (default_ctx s2) s4) as [s5 r5]. cbn [fst snd] in *. subst r5.
  rewrite run_bind, run_modify.
  set (s6 := upd_psr s5 (entry_psr (s_psr s5) prio)).
  assert (A6 : with_psr (abs s5) (match prio with
                 | Some p => Z.lor (Z.land (Z.lor (Z.land (a_psr (abs s5)) 65528) 2) 63743) (Z.shiftl (Z.land p 7) 8)
                 | None => Z.lor (Z.land (a_psr (abs s5)) 65528) 2 end) = abs s6).
  { unfold s6. rewrite abs_upd_psr. destruct prio; reflexivity. }
  rewrite A6.
  assert (L6 : lax s6).
  { eapply lax_flags; [|exact L2]. unfold s6. cbn [s_flags upd_psr]. rewrite F5, F4. reflexivity. }
  pose proof (call_interrupt_refines e vect (match prio with Some _ => FInterrupt | None => FTrap end) s6 L6) as C.
  destruct (call_interrupt e vect (match prio with Some _ => FInterrupt | None => FTrap end) s6) as [s7 r7].
  destruct C as (C1 & C2 & C3). rewrite C1. repeat split; [exact C2|].
  rewrite C3. unfold s6. cbn [s_flags upd_psr]. rewrite F5, F4. exact F1.
Qed.

Lemma handle_interrupt_some e v p s :
  psr_priority (s_psr s) < p -> handle_interrupt e v (Some p) s = do_entry e v (Some p) s.
Proof.
  intros Hp. unfold handle_interrupt, do_entry. rewrite !run_bind, !run_get.
  destruct (Z.leb_spec p (psr_priority (s_psr s))); [lia|]. reflexivity.
Qed.
Lemma handle_interrupt_none_real e v s :
  (if fl_real (s_flags s) then None else real_int_vect v) = None ->
  handle_interrupt e v None s = do_entry e v None s.
Proof.
  intros H. unfold handle_interrupt, do_entry. rewrite !run_bind, !run_get. rewrite H. reflexivity.
Qed.

(* ---------- well-formedness: every register holds a 16-bit value ---------- *)
Definition wf_regs (s : sim) : Prop := forall r, 0 <= w_data (rget (s_regs s) r) < 65536.

Lemma w_add_data l r : 0 <= w_data l < 65536 -> 0 <= w_data r < 65536 ->
  w_data (w_add l r) = wrap16 (w_data l + w_data r).
Proof.
  intros Hl Hr. unfold w_add, wrap16.
  destruct ((w_data r =? 0) && (w_init r =? ALL_BITS)) eqn:E1.
  - apply andb_prop in E1. destruct E1 as [E1 _]. apply Z.eqb_eq in E1. rewrite E1, Z.add_0_r, Z.mod_small by lia. reflexivity.
  - destruct ((w_data l =? 0) && (w_init l =? ALL_BITS)) eqn:E2.
    + apply andb_prop in E2. destruct E2 as [E2 _]. apply Z.eqb_eq in E2. rewrite E2, Z.add_0_l, Z.mod_small by lia. reflexivity.
    + reflexivity.
Qed.
Lemma to_u16_range v : 0 <= to_u16 v < 65536.
Proof. unfold to_u16, wrap16. apply Z.mod_pos_bound. reflexivity. Qed.

Lemma operand_abs s o : operand_value (abs s) o = w_data (operand s o).
Proof. destruct o; cbn [operand_value operand]; [reflexivity | apply areg_abs]. Qed.
Lemma operand_range s o : wf_regs s -> 0 <= w_data (operand s o) < 65536.
Proof. intros W. destruct o; cbn [operand]; [apply to_u16_range | apply W]. Qed.

Ltac start H :=
  unfold exec; rewrite run_bind, run_get; cbv zeta; rewrite ?(strict_lax _ H); cbn [andb]; cbn [execute];
  repeat match goal with |- context [a_pc (abs ?x)] => change (a_pc (abs x)) with (s_pc x) end.

Ltac use_read e a c s0 :=
  let Hl := fresh "Hl" in let Hb := fresh "Hb" in let Hf := fresh "Hf" in
  pose proof (read_mem_refines e a c s0 eq_refl) as (Hl & Hb & Hf);
  rewrite ?may_access_abs; rewrite Hl;
  destruct (read_mem e a c s0) as [? [?|?]]; cbn [fst snd ropt] in *;
  [ | match goal with b : brk |- _ => specialize (Hb b eq_refl); subst b end ].

Ltac use_write e a w c s0 Hs :=
  let Hl := fresh "Hw" in let Hb := fresh "Hb" in let Hf := fresh "Hf" in
  pose proof (write_mem_refines e a w c s0 Hs) as (Hl & Hb & Hf);
  cbn [c_priv] in Hl; rewrite ?may_access_abs, ?areg_abs; rewrite Hl;
  destruct (write_mem e a w c s0) as [? [?|?]]; cbn [fst snd rok] in *;
  [ | match goal with b : brk |- _ => specialize (Hb b eq_refl); subst b end ].

Definition trap_ok (i : sim_instr) : Prop := match i with STRAP v => 0 <= v < 256 | _ => True end.

Theorem exec_refines e i s :
  lax s -> wf_regs s -> s_prefetch s = false -> trap_ok i ->
  let '(s', r) := exec e i s in
  exists o, sout_of r = Some o
    /\ execute e (wrap16 (s_pc s - 1)) i (abs s) = (abs s', o)
    /\ s_flags s' = s_flags s.
Proof.
  intros H W Hpf Hv. destruct i as [cc off|dr sr1 o|dr off|sr off|o|dr sr1 o|dr br off|sr br off| |dr sr|dr off|sr off|br|dr off|v].
  - (* BR *) start H. cbn [execute]. change (cond_codes (abs s)) with (psr_cc (s_psr s)).
    destruct (Z.land cc (psr_cc (s_psr s)) =? 0); cbn [negb].
    + exists SOk. repeat split.
    + rewrite offset_pc_lax by exact H. exists SOk. repeat split.
  - (* ADD *) start H. cbn [execute]. rewrite run_bind, set_reg_lax, set_cc_run. exists SOk.
    rewrite abs_set_cc, abs_upd_regs, w_add_data by (first [apply W | apply operand_range; exact W]).
    rewrite areg_abs, operand_abs. repeat split.
  - (* LD *) start H. cbn [execute]. rewrite run_bind.
    use_read e (wrap16 (s_pc s + off)) (default_ctx s) s.
    + rewrite run_bind, set_reg_lax, set_cc_run. exists SOk. rewrite abs_set_cc, abs_upd_regs. repeat split. exact Hf.
    + exists (SErr AccessViolation). repeat split. exact Hf.
  - (* ST *) start H. cbn [execute].
    use_write e (wrap16 (s_pc s + off)) (rget (s_regs s) sr)
      (mkCtx (c_priv (default_ctx s)) false (c_io (default_ctx s)) (c_track (default_ctx s))) s (eq_refl false).
    + exists SOk. repeat split. exact Hf.
    + exists (SErr AccessViolation). repeat split. exact Hf.
  - (* JSR *) start H. cbn [execute]. unfold get_if_init. cbn [negb orb of_opt]. rewrite run_bind, run_ret.
    unfold call_subroutine. rewrite run_bind, run_modify, run_bind, run_get, run_bind.
    set (s1 := upd_regs s (rset (s_regs s) 7 (new_init (s_pc s)))).
    destruct (push_frame_run (prefetch_pc s1) (w_data match o with Imm off => new_init (wrap16 (s_pc s + off)) | RegOp br => rget (s_regs s) br end) FSubroutine s1)
      as (s2 & E2 & A2 & F2 & _).
    rewrite E2. rewrite set_pc_lax by (eapply lax_flags; [exact F2|exact H]).
    exists SOk. cbn [w_data new_init]. rewrite abs_upd_pc, A2. unfold s1. rewrite abs_upd_regs. cbn [w_data new_init].
    repeat split; [|cbn [s_flags upd_pc]; rewrite F2; reflexivity].
    destruct o; cbn [w_data new_init]; [reflexivity | rewrite areg_abs; reflexivity].
  - (* AND *) start H. cbn [execute]. rewrite run_bind, set_reg_lax, set_cc_run. exists SOk.
    rewrite abs_set_cc, abs_upd_regs. cbn [w_and w_data]. rewrite areg_abs, operand_abs. repeat split.
  - (* LDR *) start H. cbn [execute]. unfold get_if_init. cbn [negb orb of_opt]. rewrite run_bind, run_ret. rewrite run_bind.
    rewrite areg_abs.
    use_read e (wrap16 (w_data (rget (s_regs s) br) + off)) (default_ctx s) s.
    + rewrite run_bind, set_reg_lax, set_cc_run. exists SOk. rewrite abs_set_cc, abs_upd_regs. repeat split. exact Hf.
    + exists (SErr AccessViolation). repeat split. exact Hf.
  - (* STR *) start H. cbn [execute]. unfold get_if_init. cbn [negb orb of_opt]. rewrite run_bind, run_ret.
    rewrite !areg_abs.
    use_write e (wrap16 (w_data (rget (s_regs s) br) + off)) (rget (s_regs s) sr)
      (mkCtx (c_priv (default_ctx s)) false (c_io (default_ctx s)) (c_track (default_ctx s))) s (eq_refl false).
    + exists SOk. repeat split. exact Hf.
    + exists (SErr AccessViolation). repeat split. exact Hf.
  - (* RTI *) start H. cbn [execute]. rewrite may_access_abs.
    change (psr_privileged (s_psr s) || fl_ignore_priv (s_flags s)) with (c_priv (default_ctx s)).
    destruct (c_priv (default_ctx s)) eqn:P; cbn [negb].
    + unfold get_if_init. cbn [negb orb of_opt]. rewrite run_bind, run_ret, run_bind. rewrite areg_abs.
      rewrite <- P.
      use_read e (w_data (rget (s_regs s) 6)) (default_ctx s) s.
      2:{ exists (SErr AccessViolation). repeat split. exact Hf. }
      rename s0 into s1. rename w into w1.
      rewrite run_bind, run_ret, run_bind.
      pose proof (read_mem_refines e (wrap16 (w_data (rget (s_regs s) 6) + 1)) (default_ctx s) s1 eq_refl) as (Hl2 & Hb2 & Hf2).
      rewrite Hl2.
      destruct (read_mem e (wrap16 (w_data (rget (s_regs s) 6) + 1)) (default_ctx s) s1) as [s2 [w2|b2]]; cbn [fst snd ropt] in *.
      2:{ specialize (Hb2 b2 eq_refl). subst b2. exists (SErr AccessViolation). repeat split; cbn [s_flags upd_psr upd_regs]; congruence. }
      rewrite run_bind, run_ret, run_bind, run_modify, run_bind.
      set (s3 := upd_regs s2 (rset (s_regs s2) 6 (w_add (rget (s_regs s2) 6) (new_init 2)))).
      assert (L3 : lax s3) by (eapply lax_flags; [|exact H]; unfold s3; cbn [s_flags upd_regs]; congruence).
      rewrite set_pc_lax by exact L3. rewrite run_bind, run_modify, run_bind.
      set (s4 := upd_psr (upd_pc s3 (w_data (new_init (w_data w1)))) (w_data w2)).
      change (Z.shiftr (w_data w2) 15 =? 0) with (psr_privileged (w_data w2)).
      assert (A4 : with_psr (with_pc (with_reg (abs s2) 6 (wrap16 (areg (abs s2) 6 + 2))) (w_data w1)) (w_data w2) = abs s4).
      { unfold s4, s3. rewrite abs_upd_psr, abs_upd_pc, abs_upd_regs, areg_abs.
        unfold w_add, new_init. cbn [w_data w_init Z.eqb andb].
        destruct ((w_data (rget (s_regs s2) 6) =? 0) && (w_init (rget (s_regs s2) 6) =? ALL_BITS)) eqn:E.
        - apply andb_prop in E. destruct E as [E _]. apply Z.eqb_eq in E. rewrite E. reflexivity.
        - reflexivity. }
      rewrite A4.
      destruct (psr_privileged (w_data w2)); cbn [negb].
      * rewrite run_ret. destruct (pop_frame_run s4) as (s5 & E5 & A5 & F5). rewrite E5.
        exists SOk. rewrite A5. repeat split. rewrite F5. unfold s4, s3. cbn [s_flags upd_psr upd_pc upd_regs]. congruence.
      * rewrite swap_sp_run. destruct (pop_frame_run (upd_saved_sp (upd_regs s4 (rset (s_regs s4) 6 (s_saved_sp s4))) (rget (s_regs s4) 6))) as (s5 & E5 & A5 & F5).
        rewrite E5. exists SOk. rewrite A5, abs_swap. repeat split. rewrite F5. unfold s4, s3. cbn [s_flags upd_psr upd_pc upd_regs upd_saved_sp]. congruence.
    + exists (SErr PrivilegeViolation). repeat split.
  - (* NOT *) start H. cbn [execute]. rewrite run_bind, set_reg_lax, set_cc_run. exists SOk.
    rewrite abs_set_cc, abs_upd_regs. cbn [w_not w_data]. rewrite areg_abs. repeat split.
  - (* LDI *) start H. rewrite run_bind.
    pose proof (read_mem_psr e (wrap16 (s_pc s + off)) (default_ctx s) s) as Hp.
    use_read e (wrap16 (s_pc s + off)) (default_ctx s) s.
    2:{ exists (SErr AccessViolation). repeat split. exact Hf. }
    rename s0 into s1. unfold get_if_init. cbn [negb orb of_opt]. rewrite run_bind, run_ret, run_bind, run_get.
    cbv zeta. rewrite ?(strict_lax _ H). cbn [andb]. rewrite run_bind.
    assert (P1 : default_ctx s1 = default_ctx s).
    { unfold default_ctx. rewrite Hp, Hf. reflexivity. }
    rewrite P1.
    use_read e (w_data w) (default_ctx s) s1.
    + rewrite run_bind, set_reg_lax, set_cc_run. exists SOk. rewrite abs_set_cc, abs_upd_regs. repeat split; cbn [s_flags upd_psr upd_regs]; congruence.
    + exists (SErr AccessViolation). repeat split; cbn [s_flags upd_psr upd_regs]; congruence.
  - (* STI *) start H. rewrite run_bind.
    use_read e (wrap16 (s_pc s + off)) (default_ctx s) s.
    2:{ exists (SErr AccessViolation). repeat split. exact Hf. }
    rename s0 into s1. unfold get_if_init. cbn [negb orb of_opt]. rewrite run_bind, run_ret, run_bind, run_get.
    assert (L1 : lax s1) by (eapply lax_flags; eauto).
    cbv zeta. cbn [andb].
    use_write e (w_data w) (rget (s_regs s1) sr)
      (mkCtx (c_priv (default_ctx s1)) false (c_io (default_ctx s1)) (c_track (default_ctx s1))) s1 (eq_refl false).
    + exists SOk. repeat split; cbn [s_flags upd_psr upd_regs]; congruence.
    + exists (SErr AccessViolation). repeat split; cbn [s_flags upd_psr upd_regs]; congruence.
  - (* JMP *) start H. rewrite run_bind, set_pc_lax by exact H. rewrite areg_abs.
    destruct (br =? 7).
    + destruct (pop_frame_run (upd_pc s (w_data (rget (s_regs s) br)))) as (s5 & E5 & A5 & F5). rewrite E5.
      exists SOk. rewrite A5. repeat split. exact F5.
    + rewrite run_ret. exists SOk. repeat split.
  - (* LEA *) start H. rewrite run_modify. exists SOk. rewrite abs_upd_regs. repeat split.
  - (* TRAP *) start H. cbn [trap_ok] in Hv.
    change (a_real (abs s)) with (fl_real (s_flags s)).
    destruct (fl_real (s_flags s)) eqn:R; cbn [negb andb].
    + rewrite handle_interrupt_none_real by (rewrite R; reflexivity).
      pose proof (do_entry_refines e v None s H) as D. destruct (do_entry e v None s) as [s' r].
      destruct D as (D1 & D2 & D3). destruct (sout_of r) as [o|] eqn:E; [|contradiction]. exists o. repeat split; assumption.
    + destruct (Z.eqb_spec v 37) as [->|Hne].
      * unfold handle_interrupt. rewrite run_bind, run_get. rewrite R. cbn [real_int_vect Z.eqb Pos.eqb].
        rewrite Hpf. cbn [negb]. rewrite run_bind, run_bind, offset_pc_lax by exact H. rewrite run_modify, run_fail.
        exists SHalt. repeat split.
      * assert (real_int_vect v = None) as RV.
        { unfold real_int_vect. destruct (Z.eqb_spec v 37); [contradiction|].
          destruct (Z.eqb_spec v 256); [lia|]. destruct (Z.eqb_spec v 257); [lia|]. destruct (Z.eqb_spec v 258); [lia|]. reflexivity. }
        rewrite handle_interrupt_none_real by (rewrite R; exact RV).
        pose proof (do_entry_refines e v None s H) as D. destruct (do_entry e v None s) as [s' r].
        destruct D as (D1 & D2 & D3). destruct (sout_of r) as [o|] eqn:E; [|contradiction]. exists o. repeat split; assumption.
Qed.
