(* SimRefinePrims.v — the primitives of the simulator model refine the reference semantics
   (spec/IsaSpec.v) under the abstraction [abs] (model/IsaWire.v), in non-strict mode. *)
From Coq Require Import ZArith List Bool Lia FMapPositive.
From Gen Require Import Constants.
From Model Require Import Tree Bits Word Instr Sim IsaWire.
From Spec Require Import IsaSpec.
From Proofs Require Import SimHoare.
Import ListNotations.
Open Scope Z_scope.

(* ---------- PositiveMap.map commutes with find / add ---------- *)
Lemma pmap_find {A B} (f : A -> B) m k :
  PositiveMap.find k (PositiveMap.map f m) = option_map f (PositiveMap.find k m).
Proof. unfold PositiveMap.map. apply PositiveMap.gmapi. Qed.

Lemma xmapi_add {A B} (f : A -> B) : forall k v m j,
  PositiveMap.xmapi (fun _ => f) (PositiveMap.add k v m) j
  = PositiveMap.add k (f v) (PositiveMap.xmapi (fun _ => f) m j).
Proof.
  induction k as [k IH|k IH|]; intros v m j; destruct m as [|l o r]; cbn; try rewrite IH; try reflexivity.
Qed.
Lemma pmap_add {A B} (f : A -> B) k v m :
  PositiveMap.map f (PositiveMap.add k v m) = PositiveMap.add k (f v) (PositiveMap.map f m).
Proof. unfold PositiveMap.map, PositiveMap.mapi. apply xmapi_add. Qed.

Lemma amget_abs m a : amget (abs_mem m) a = w_data (mget m a).
Proof.
  unfold amget, abs_mem, mget; cbn [am_over am_fill m_over m_fill]. rewrite pmap_find. destruct (PositiveMap.find (mkey a) (m_over m)); reflexivity.
Qed.
Lemma abs_mem_mset m a w : abs_mem (mset m a w) = amset (abs_mem m) a (w_data w).
Proof. unfold abs_mem, mset, amset; cbn [m_over m_fill]. rewrite pmap_add. reflexivity. Qed.

(* ---------- registers ---------- *)
Lemma map_set_nth {A B} (f : A -> B) : forall l n x, map f (set_nth l n x) = set_nth (map f l) n (f x).
Proof. induction l as [|h t IH]; intros [|n] x; cbn; try rewrite IH; reflexivity. Qed.
Lemma areg_abs s r : areg (abs s) r = w_data (rget (s_regs s) r).
Proof. unfold areg, rget, abs; cbn. change 0 with (w_data (mkWord 0 0)). apply map_nth. Qed.

(* ---------- abs of field updates ---------- *)
Lemma abs_upd_regs s r w : abs (upd_regs s (rset (s_regs s) r w)) = with_reg (abs s) r (w_data w).
Proof. unfold abs, with_reg, rset; cbn. rewrite map_set_nth. reflexivity. Qed.
Lemma abs_upd_pc s pc : abs (upd_pc s pc) = with_pc (abs s) pc. Proof. reflexivity. Qed.
Lemma abs_upd_psr s p : abs (upd_psr s p) = with_psr (abs s) p. Proof. reflexivity. Qed.
Lemma abs_upd_mem s m : abs (upd_mem s m) = with_mem (abs s) (abs_mem m). Proof. reflexivity. Qed.
Lemma abs_upd_devs s d : abs (upd_devs s d) = with_devs (abs s) d. Proof. reflexivity. Qed.
Lemma abs_upd_mcr s b : abs (upd_mcr s b) = with_mcr (abs s) b. Proof. reflexivity. Qed.
Lemma abs_upd_saved_sp s w : abs (upd_saved_sp s w) = with_ssp (abs s) (w_data w). Proof. reflexivity. Qed.
Lemma abs_upd_obs s o : abs (upd_obs s o) = abs s. Proof. reflexivity. Qed.
Lemma abs_upd_frames s n f : abs (upd_frames s n f) = abs s. Proof. reflexivity. Qed.
Lemma abs_upd_instrs s n : abs (upd_instrs s n) = abs s. Proof. reflexivity. Qed.
Lemma abs_upd_prefetch s b : abs (upd_prefetch s b) = abs s. Proof. reflexivity. Qed.

Lemma may_access_abs s : may_access_all (abs s) = c_priv (default_ctx s).
Proof. reflexivity. Qed.

Definition lax (s : sim) : Prop := fl_strict (s_flags s) = false.

(* result of a model computation seen by the specification *)
Definition ropt {A} (r : word + A) : option Z := match r with inl w => Some (w_data w) | inr _ => None end.
Definition rok {A B} (r : A + B) : bool := match r with inl _ => true | inr _ => false end.

Ltac fin0 := repeat split; first [ reflexivity | discriminate | idtac ].
Ltac fin r := repeat split; first [ reflexivity | discriminate | (destruct r; reflexivity) | idtac ].
(* ---------- read_mem refines load ---------- *)
Lemma user_space_in_user a : user_space a = in_user a. Proof. reflexivity. Qed.

Lemma read_mem_refines e a c s :
  c_io c = true ->
  load e (c_priv c) a (abs s) = (abs (fst (read_mem e a c s)), ropt (snd (read_mem e a c s)))
  /\ (forall b, snd (read_mem e a c s) = inr b -> b = BErr AccessViolation)
  /\ s_flags (fst (read_mem e a c s)) = s_flags s.
Proof.
  intros Hio. unfold read_mem, load. rewrite user_space_in_user.
  destruct (negb (c_priv c) && negb (in_user a)); [cbn; repeat split; intros b E; injection E as <-; reflexivity|].
  change sim.IO_START with IO_START.
  destruct (Z.leb_spec IO_START a) as [Hge|Hlt].
  - assert (a <? IO_START = false) as -> by lia.
    change (a_ireg (abs s)) with (s_ireg s).
    destruct (assoc (s_ireg s) a) as [r|].
    + destruct (c_track c); cbn; rewrite ?abs_upd_obs, abs_upd_mem, abs_mem_mset, ?mget_mset_same; cbn;
        fin r.
    + change (a_devs (abs s)) with (s_devs s). rewrite Hio.
      destruct (dev_read e (nth_dev (s_devs s) (port_dev a)) a true) as [d' [v|]].
      * destruct (c_track c); cbn; rewrite ?abs_upd_obs, abs_upd_mem, abs_mem_mset, ?mget_mset_same; cbn;
          fin0.
      * destruct (c_track c); cbn; rewrite ?abs_upd_obs, ?amget_abs; cbn; fin0.
  - assert (a <? IO_START = true) as -> by lia.
    destruct (c_track c); cbn; rewrite ?abs_upd_obs, ?amget_abs; cbn; fin0.
Qed.

(* ---------- write_mem refines store ---------- *)
Lemma io_reg_store_abs s r v : abs (ireg_write s r v) = io_reg_store (abs s) r v.
Proof. destruct r; reflexivity. Qed.

Lemma write_mem_refines e a w c s :
  c_strict c = false ->
  store e (c_priv c) a (w_data w) (abs s) = (abs (fst (write_mem e a w c s)), rok (snd (write_mem e a w c s)))
  /\ (forall b, snd (write_mem e a w c s) = inr b -> b = BErr AccessViolation)
  /\ s_flags (fst (write_mem e a w c s)) = s_flags s.
Proof.
  intros Hst. unfold write_mem, store. rewrite user_space_in_user.
  destruct (negb (c_priv c) && negb (in_user a)); [cbn; repeat split; intros b E; injection E as <-; reflexivity|].
  change sim.IO_START with IO_START.
  unfold get_if_init, set_if_init. rewrite Hst. cbn [negb orb].
  destruct (Z.leb_spec IO_START a) as [Hge|Hlt].
  - assert (a <? IO_START = false) as -> by lia.
    change (a_ireg (abs s)) with (s_ireg s).
    destruct (assoc (s_ireg s) a) as [r|].
    + destruct (c_track c); cbn [fst snd rok]; rewrite ?abs_upd_mem, ?abs_mem_mset, ?abs_upd_obs, ?io_reg_store_abs;
        fin r.
    + change (a_devs (abs s)) with (s_devs s).
      destruct (dev_write e (nth_dev (s_devs s) (port_dev a)) a (w_data w)) as [d' [|]].
      * destruct (c_track c); cbn [fst snd rok]; rewrite ?abs_upd_mem, ?abs_mem_mset, ?abs_upd_obs; fin0.
      * cbn [fst snd rok]. fin0.
  - assert (a <? IO_START = true) as -> by lia.
    destruct (c_track c); cbn [fst snd rok]; rewrite ?abs_upd_mem, ?abs_mem_mset, ?abs_upd_obs; fin0.
Qed.
