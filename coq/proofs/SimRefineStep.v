(* SimRefineStep.v — C08: one step of the simulator model refines one step of the reference
   semantics (spec/IsaSpec.v) under the abstraction function [abs], in non-strict mode, for every
   state whose registers and PC hold 16-bit values, every environment, real and virtual traps,
   privilege checks on or off, with and without a pending interrupt. *)
From Coq Require Import ZArith List Bool Lia FMapPositive.
From Gen Require Import Constants.
From Model Require Import Tree Bits Word Instr Sim IsaWire.
From Spec Require Import IsaSpec.
From Proofs Require Import SimHoare SimNoPanic SimRefinePrims SimRefineExec.
Import ListNotations.
Open Scope Z_scope.

Lemma read_mem_pc e a c s : s_pc (fst (read_mem e a c s)) = s_pc s.
Proof.
  unfold read_mem. destruct (negb (c_priv c) && negb (in_user a)); [reflexivity|].
  destruct (IO_START <=? a).
  - destruct (assoc (s_ireg s) a); [destruct (c_track c); reflexivity|].
    destruct (dev_read e (nth_dev (s_devs s) (port_dev a)) a (c_io c)) as [d' [v|]]; destruct (c_track c); reflexivity.
  - destruct (c_track c); reflexivity.
Qed.
Lemma read_mem_regs e a c s : s_regs (fst (read_mem e a c s)) = s_regs s.
Proof.
  unfold read_mem. destruct (negb (c_priv c) && negb (in_user a)); [reflexivity|].
  destruct (IO_START <=? a).
  - destruct (assoc (s_ireg s) a); [destruct (c_track c); reflexivity|].
    destruct (dev_read e (nth_dev (s_devs s) (port_dev a)) a (c_io c)) as [d' [v|]]; destruct (c_track c); reflexivity.
  - destruct (c_track c); reflexivity.
Qed.

Lemma decode_trap_ok w i : decode w = DOk i -> trap_ok i.
Proof.
  intros E. destruct i; cbn [trap_ok]; try exact Logic.I.
  unfold decode in E.
  pose proof (slice3_reg_ok w 9) as R9. pose proof (slice3_reg_ok w 6) as R6. pose proof (slice3_reg_ok w 0) as R0.
  change (9 + 3) with 12 in R9. change (6 + 3) with 9 in R6. change (0 + 3) with 3 in R0.
  rewrite R9, R6, R0 in E. cbn [andb negb] in E.
  repeat match type of E with context [if ?c then _ else _] => destruct c end; try discriminate E.
  injection E as <-. unfold zext. apply Z.mod_pos_bound. reflexivity.
Qed.

Inductive out_match : outcome -> sout -> Prop :=
| om_ok : out_match OOk SOk
| om_halt : out_match OHalt SHalt
| om_err e : out_match (OErr e) (SErr e).

Definition brk_match (r : unit + brk) (o : sout) : Prop := sout_of r = Some o.

(* the fetch-decode-execute path *)
Definition fetch_exec (e : env) : M unit :=
  s <- get ;;
  w <- read_mem e (s_pc s) (default_ctx s) ;;
  word <- of_opt (get_if_init w (strict s)) StrictPCCurrUninit ;;
  instr <- decode_m word ;;
  offset_pc 1 false ;;;
  modify (fun s => upd_prefetch s false) ;;;
  exec e instr ;;;
  modify (fun s => upd_instrs s ((s_instrs s + 1) mod 18446744073709551616)).

Definition spec_fetch_exec (e : env) (a0 : astate) : astate * sout :=
  match load e (may_access_all a0) (a_pc a0) a0 with
  | (a1, None) => raise_exc AccessViolation a1
  | (a1, Some w) =>
      match decode w with
      | DOk i => execute e (a_pc a0) i (with_pc a1 (wrap16 (a_pc a1 + 1)))
      | DIllegalOpcode => raise_exc IllegalOpcode a1
      | _ => raise_exc InvalidInstrFormat a1
      end
  end.

Lemma wrap16_succ_pred x : 0 <= x < 65536 -> wrap16 (wrap16 (x + 1) - 1) = x.
Proof.
  intros H. unfold wrap16. destruct (Z.eq_dec x 65535) as [->|Hne]; [reflexivity|].
  rewrite (Z.mod_small (x + 1)) by lia. replace (x + 1 - 1) with x by lia. apply Z.mod_small. lia.
Qed.

Lemma fetch_exec_refines e s :
  lax s -> wf_regs s -> 0 <= s_pc s < 65536 ->
  let '(s', r) := fetch_exec e s in
  exists o, brk_match r o /\ spec_fetch_exec e (abs s) = (abs s', o) /\ s_flags s' = s_flags s.
Proof.
  intros H W Hpc. unfold fetch_exec, spec_fetch_exec. rewrite run_bind, run_get, run_bind.
  change (a_pc (abs s)) with (s_pc s).
  pose proof (read_mem_refines e (s_pc s) (default_ctx s) s eq_refl) as (Hl & Hb & Hf).
  pose proof (read_mem_pc e (s_pc s) (default_ctx s) s) as Hp.
  pose proof (read_mem_regs e (s_pc s) (default_ctx s) s) as Hr.
  rewrite may_access_abs, Hl.
  destruct (read_mem e (s_pc s) (default_ctx s) s) as [s1 [w|b]]; cbn [fst snd ropt] in *.
  2:{ specialize (Hb b eq_refl). subst b. exists (SErr AccessViolation). repeat split. exact Hf. }
  assert (L1 : lax s1) by (eapply lax_flags; eauto).
  rewrite (strict_lax s H). unfold get_if_init. cbn [negb orb of_opt]. rewrite run_bind, run_ret, run_bind.
  unfold decode_m. pose proof (decode_never_panics (w_data w)) as NP. pose proof (decode_trap_ok (w_data w)) as TO.
  destruct (decode (w_data w)) as [i| | |]; try contradiction.
  2:{ exists (SErr IllegalOpcode). repeat split. exact Hf. }
  2:{ exists (SErr InvalidInstrFormat). repeat split. exact Hf. }
  rewrite run_ret, run_bind, offset_pc_lax by exact L1. rewrite run_bind, run_modify, run_bind.
  set (s3 := upd_prefetch (upd_pc s1 (wrap16 (s_pc s1 + 1))) false).
  assert (L3 : lax s3) by exact L1.
  assert (W3 : wf_regs s3) by (unfold wf_regs, s3; cbn [s_regs upd_prefetch upd_pc]; rewrite Hr; exact W).
  pose proof (exec_refines e i s3 L3 W3 eq_refl (TO i eq_refl)) as X.
  destruct (exec e i s3) as [s4 r4]. destruct X as (o & X1 & X2 & X3).
  assert (P3 : wrap16 (s_pc s3 - 1) = s_pc s).
  { unfold s3. cbn [s_pc upd_prefetch upd_pc]. rewrite Hp. apply wrap16_succ_pred. exact Hpc. }
  rewrite P3 in X2.
  assert (A3 : with_pc (abs s1) (wrap16 (a_pc (abs s1) + 1)) = abs s3) by reflexivity.
  rewrite A3, X2.
  destruct r4 as [u|b4].
  - rewrite run_modify. exists o. repeat split; [exact X1|]. cbn [s_flags upd_instrs]. rewrite X3. exact Hf.
  - exists o. repeat split; [exact X1|]. rewrite X3. exact Hf.
Qed.

Lemma step_inner_unfold e s :
  step_inner e s =
  (let s0 := upd_prefetch s true in
   let '(ds, i, _) := poll_all e (s_devs s0) (e_draws e) None in
   let s1 := upd_devs s0 ds in
   match i with
   | Some (IVec vect prio) =>
       if psr_priority (s_psr s0) <? prio then handle_interrupt e (256 + vect) (Some prio) s1 else fetch_exec e s1
   | Some IExt => (s1, inr (BErr InterruptErr))
   | None => fetch_exec e s1
   end).
Proof.
  unfold step_inner. rewrite run_bind, run_modify, run_bind, run_get. cbv zeta.
  destruct (poll_all e (s_devs (upd_prefetch s true)) (e_draws e) None) as [[ds i] rest].
  rewrite run_bind, run_modify. destruct i as [[vect prio|]|]; [|reflexivity|reflexivity].
  destruct (psr_priority (s_psr (upd_prefetch s true)) <? prio); reflexivity.
Qed.

Lemma step_inner_refines e s :
  lax s -> wf_regs s -> 0 <= s_pc s < 65536 ->
  let '(s', r) := step_inner e s in
  exists o, brk_match r o /\ inner_step e (abs s) = (abs s', o) /\ s_flags s' = s_flags s.
Proof.
  intros H W Hpc. rewrite step_inner_unfold. cbv zeta. unfold inner_step.
  change (a_devs (abs s)) with (s_devs (upd_prefetch s true)).
  destruct (poll_all e (s_devs (upd_prefetch s true)) (e_draws e) None) as [[ds i] rest].
  set (s1 := upd_devs (upd_prefetch s true) ds).
  assert (A1 : with_devs (abs s) ds = abs s1) by reflexivity. rewrite A1.
  assert (L1 : lax s1) by exact H. assert (W1 : wf_regs s1) by exact W. assert (P1 : 0 <= s_pc s1 < 65536) by exact Hpc.
  pose proof (fetch_exec_refines e s1 L1 W1 P1) as FE.
  destruct i as [[vect prio|]|].
  - change (Z.land (Z.shiftr (a_psr (abs s1)) 8) 7) with (psr_priority (s_psr s1)).
    change (s_psr (upd_prefetch s true)) with (s_psr s1).
    destruct (Z.ltb_spec (psr_priority (s_psr s1)) prio) as [Hlt|Hge].
    + rewrite handle_interrupt_some by exact Hlt.
      pose proof (do_entry_refines e (256 + vect) (Some prio) s1 L1) as D.
      destruct (do_entry e (256 + vect) (Some prio) s1) as [s' r]. destruct D as (D1 & D2 & D3).
      destruct (sout_of r) as [o|] eqn:E; [|contradiction]. exists o. repeat split; assumption.
    + exact FE.
  - exists (SErr InterruptErr). repeat split.
  - exact FE.
Qed.

Theorem step_refines e s :
  lax s -> wf_regs s -> 0 <= s_pc s < 65536 ->
  let '(s', r) := step e s in
  exists o, brk_match r o /\ spec_step e (abs s) = (abs s', o) /\ s_flags s' = s_flags s.
Proof.
  intros H W Hpc. unfold step, spec_step.
  pose proof (step_inner_refines e s H W Hpc) as SI.
  destruct (step_inner e s) as [s1 r]. destruct SI as (o & B & I1 & F1). rewrite I1.
  change (a_real (abs s1)) with (fl_real (s_flags s1)).
  destruct (fl_real (s_flags s1)) eqn:R; cbn [negb].
  2:{ exists o. repeat split; assumption. }
  assert (L1 : lax s1) by (eapply lax_flags; eauto).
  assert (HI : forall v, let '(s', r') := handle_interrupt e v None s1 in
            exists o', brk_match r' o' /\ enter e v None (abs s1) = (abs s', o') /\ s_flags s' = s_flags s).
  { intros v. rewrite handle_interrupt_none_real by (rewrite R; reflexivity).
    pose proof (do_entry_refines e v None s1 L1) as D. destruct (do_entry e v None s1) as [s' r'].
    destruct D as (D1 & D2 & D3). unfold brk_match. destruct (sout_of r') as [o'|]; [|contradiction].
    exists o'. repeat split; [exact D1|congruence]. }
  unfold brk_match in B.
  destruct r as [u|[ |x| ]]; cbn [sout_of] in B; try discriminate B; injection B as <-.
  - exists SOk. repeat split. exact F1.
  - exact (HI 37).
  - destruct x; cbn [exception_vector];
      first [ exact (HI 256) | exact (HI 257) | exact (HI 258) | (eexists; repeat split; exact F1) ].
Qed.

Theorem step_in_refines e s :
  lax s -> wf_regs s -> 0 <= s_pc s < 65536 ->
  exists so, out_match (snd (step_in e s)) so /\ spec_step e (abs s) = (abs (fst (step_in e s)), so).
Proof.
  intros H W Hpc. unfold step_in.
  pose proof (step_refines e (upd_obs s []) H W Hpc) as S.
  destruct (step e (upd_obs s [])) as [s1 r]. destruct S as (o & B & S1 & _). cbn [fst snd].
  unfold brk_match in B. rewrite abs_upd_obs in S1.
  destruct r as [u|[ |x| ]]; cbn [sout_of] in B; try discriminate B; injection B as <-; eexists; split; try eassumption; constructor.
Qed.

(* the address reported for a failed step is that of the faulting instruction *)
Lemma wf_regs_forall s : Forall (fun w => 0 <= w_data w < 65536) (s_regs s) -> wf_regs s.
Proof.
  intros F r. unfold rget. destruct (nth_in_or_default (Z.to_nat r) (s_regs s) (mkWord 0 0)) as [Hin|E].
  - rewrite Forall_forall in F. apply F. exact Hin.
  - rewrite E. cbn. lia.
Qed.
