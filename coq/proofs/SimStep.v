(* SimStep.v — derived one-instruction rules for [Sim.step_in] on machines whose devices are
   quiet (no device interrupt pending: keyboard with interrupts disabled, display), in non-strict
   mode, with the default internal-register map.  Each rule states the complete successor state
   of one instruction kind used by src/os.asm; the OS-routine proofs (OsProofs.v, LockProofs.v)
   chain these rules.  No definition of the model is changed or re-stated here. *)
From Coq Require Import ZArith List Bool Lia FMapPositive.
From Gen Require Import Constants.
From Model Require Import Tree Bits Word Instr Sim Load.
From Proofs Require Import Ranges.
Import ListNotations.
Open Scope Z_scope.
Ltac Zify.zify_post_hook ::= Z.div_mod_to_equations.

(* ------------------------------------------------------------------ memory *)
Lemma mkey_inj a b : 0 <= a -> 0 <= b -> mkey a = mkey b -> a = b.
Proof. unfold mkey. intros Ha Hb H. apply Z2Pos.inj in H; lia. Qed.

Lemma mget_mset_same m a v : mget (mset m a v) a = v.
Proof. unfold mget, mset. cbn [m_over m_fill]. rewrite PositiveMap.gss. reflexivity. Qed.

Lemma mget_mset_other m a b v : 0 <= a -> 0 <= b -> a <> b -> mget (mset m a v) b = mget m b.
Proof.
  intros Ha Hb Hne. unfold mget, mset. cbn [m_over m_fill].
  rewrite PositiveMap.gso; [reflexivity|]. intro H. apply Hne. symmetry. apply mkey_inj; assumption.
Qed.

(* ------------------------------------------------------------------ registers *)
Lemma rget0 a0 l : rget (a0 :: l) 0 = a0. Proof. reflexivity. Qed.
Lemma rget1 a0 a1 l : rget (a0 :: a1 :: l) 1 = a1. Proof. reflexivity. Qed.
Lemma rget2 a0 a1 a2 l : rget (a0 :: a1 :: a2 :: l) 2 = a2. Proof. reflexivity. Qed.
Lemma rget3 a0 a1 a2 a3 l : rget (a0 :: a1 :: a2 :: a3 :: l) 3 = a3. Proof. reflexivity. Qed.
Lemma rget4 a0 a1 a2 a3 a4 l : rget (a0 :: a1 :: a2 :: a3 :: a4 :: l) 4 = a4. Proof. reflexivity. Qed.
Lemma rget5 a0 a1 a2 a3 a4 a5 l : rget (a0 :: a1 :: a2 :: a3 :: a4 :: a5 :: l) 5 = a5. Proof. reflexivity. Qed.
Lemma rget6 a0 a1 a2 a3 a4 a5 a6 l : rget (a0 :: a1 :: a2 :: a3 :: a4 :: a5 :: a6 :: l) 6 = a6. Proof. reflexivity. Qed.
Lemma rget7 a0 a1 a2 a3 a4 a5 a6 a7 l : rget (a0 :: a1 :: a2 :: a3 :: a4 :: a5 :: a6 :: a7 :: l) 7 = a7. Proof. reflexivity. Qed.
Lemma rset0 a0 l x : rset (a0 :: l) 0 x = x :: l. Proof. reflexivity. Qed.
Lemma rset1 a0 a1 l x : rset (a0 :: a1 :: l) 1 x = a0 :: x :: l. Proof. reflexivity. Qed.
Lemma rset2 a0 a1 a2 l x : rset (a0 :: a1 :: a2 :: l) 2 x = a0 :: a1 :: x :: l. Proof. reflexivity. Qed.
Lemma rset3 a0 a1 a2 a3 l x : rset (a0 :: a1 :: a2 :: a3 :: l) 3 x = a0 :: a1 :: a2 :: x :: l. Proof. reflexivity. Qed.
Lemma rset4 a0 a1 a2 a3 a4 l x : rset (a0 :: a1 :: a2 :: a3 :: a4 :: l) 4 x = a0 :: a1 :: a2 :: a3 :: x :: l. Proof. reflexivity. Qed.
Lemma rset5 a0 a1 a2 a3 a4 a5 l x : rset (a0 :: a1 :: a2 :: a3 :: a4 :: a5 :: l) 5 x = a0 :: a1 :: a2 :: a3 :: a4 :: x :: l. Proof. reflexivity. Qed.
Lemma rset6 a0 a1 a2 a3 a4 a5 a6 l x : rset (a0 :: a1 :: a2 :: a3 :: a4 :: a5 :: a6 :: l) 6 x = a0 :: a1 :: a2 :: a3 :: a4 :: a5 :: x :: l. Proof. reflexivity. Qed.
Lemma rset7 a0 a1 a2 a3 a4 a5 a6 a7 l x : rset (a0 :: a1 :: a2 :: a3 :: a4 :: a5 :: a6 :: a7 :: l) 7 x = a0 :: a1 :: a2 :: a3 :: a4 :: a5 :: a6 :: x :: l. Proof. reflexivity. Qed.
Ltac regs := rewrite ?rget0, ?rget1, ?rget2, ?rget3, ?rget4, ?rget5, ?rget6, ?rget7,
                     ?rset0, ?rset1, ?rset2, ?rset3, ?rset4, ?rset5, ?rset6, ?rset7.

(* ------------------------------------------------------------------ the machines considered *)
(* constant part of the state *)
Record konst := mkK { k_srd : list (Z * plist); k_al : list (Z * Z); k_real : bool; k_dbg : bool; k_ign : bool }.
Definition kflags (K : konst) : flags := mkFlags false (k_real K) (k_dbg K) (k_ign K).
Definition kdevs (q buf : list Z) : list dev := [DNull; DKb q false; DDs buf].
Definition mk (K : konst) (m : mem) (rs : regs) (pc psr : Z) (ssp : word) (fno : Z) (frs : option (list frame))
              (ins : Z) (pf : bool) (obs : list (Z * Z)) (mcr : bool) (q buf : list Z) : sim :=
  mkSim m rs pc psr ssp fno frs (k_srd K) (k_al K) ins pf obs mcr (kflags K) default_ireg (kdevs q buf).

Definition next_ins (ins : Z) : Z := (ins + 1) mod 18446744073709551616.
Definition may_access (K : konst) (psr a : Z) : bool := psr_privileged psr || k_ign K || in_user a.

Lemma poll_quiet e q buf dr : poll_all e (kdevs q buf) dr None = (kdevs q buf, None, dr).
Proof. cbn. rewrite andb_false_r. reflexivity. Qed.

(* plain (non-I/O) read *)
Lemma read_mem_plain e a c s :
  a < IO_START -> (c_priv c || in_user a) = true -> c_track c = true ->
  read_mem e a c s = (upd_obs s (obs_update (s_obs s) a OBS_READ), inl (mget (s_mem s) a)).
Proof.
  intros Ha Hp Ht. unfold read_mem.
  replace (negb (c_priv c) && negb (in_user a)) with false
    by (destruct (c_priv c), (in_user a); cbn in *; congruence).
  replace (IO_START <=? a) with false by (symmetry; apply Z.leb_gt; exact Ha).
  rewrite Ht. reflexivity.
Qed.

(* what remains of a step after a successful fetch and decode *)
Definition after_exec (e : env) (r : sim * (unit + brk)) : sim * outcome :=
  match r with
  | (s2, inl _) => (upd_instrs s2 (next_ins (s_instrs s2)), OOk)
  | (s2, inr b) =>
      let '(s3, r3) :=
        if negb (fl_real (s_flags s2)) then (s2, @inr unit brk b)
        else match b with
             | BHalt => handle_interrupt e 37 None s2
             | BErr PrivilegeViolation => handle_interrupt e 256 None s2
             | BErr IllegalOpcode => handle_interrupt e 257 None s2
             | BErr InvalidInstrFormat => handle_interrupt e 257 None s2
             | BErr AccessViolation => handle_interrupt e 258 None s2
             | _ => (s2, inr b)
             end in
      (s3, match r3 with inl _ => OOk | inr BHalt => OHalt | inr (BErr x) => OErr x | inr BPanic => OPanic end)
  end.

Lemma bind_ok {A B} (m : M A) (k : A -> M B) s s' a : m s = (s', inl a) -> bind m k s = k a s'.
Proof. intros H. unfold bind. rewrite H. reflexivity. Qed.
Lemma bind_fail {A B} (m : M A) (k : A -> M B) s s' b : m s = (s', inr b) -> bind m k s = (s', inr b).
Proof. intros H. unfold bind. rewrite H. reflexivity. Qed.
Lemma bind_get {B} (k : sim -> M B) s : bind get k s = k s s.
Proof. reflexivity. Qed.
Lemma bind_modify {B} f (k : unit -> M B) s : bind (modify f) k s = k tt (f s).
Proof. reflexivity. Qed.
Lemma bind_ret {A B} (a : A) (k : A -> M B) s : bind (ret a) k s = k a s.
Proof. reflexivity. Qed.

Ltac rsimpl :=
  cbn [upd_mem upd_regs upd_pc upd_psr upd_saved_sp upd_frames upd_instrs upd_prefetch upd_obs upd_mcr upd_devs upd_alloca
       s_mem s_regs s_pc s_psr s_saved_sp s_frame_no s_frames s_sr_defns s_alloca s_instrs s_prefetch s_obs s_mcr s_flags s_ireg s_devs
       fl_strict fl_real fl_debug_frames fl_ignore_priv kflags strict default_ctx c_priv c_strict c_io c_track].


Ltac is_upd t :=
  lazymatch t with
  | upd_mem _ _ => idtac | upd_regs _ _ => idtac | upd_pc _ _ => idtac | upd_psr _ _ => idtac
  | upd_saved_sp _ _ => idtac | upd_frames _ _ _ => idtac | upd_instrs _ _ => idtac | upd_prefetch _ _ => idtac
  | upd_obs _ _ => idtac | upd_mcr _ _ => idtac | upd_devs _ _ => idtac | upd_alloca _ _ => idtac
  | ireg_write _ _ _ => idtac
  end.
Ltac nstate1 :=
  match goal with
  | |- context [?u] =>
      lazymatch type of u with sim => idtac end; is_upd u;
      let u' := eval cbv beta iota delta [upd_mem upd_regs upd_pc upd_psr upd_saved_sp upd_frames upd_instrs upd_prefetch upd_obs upd_mcr upd_devs upd_alloca ireg_write
         s_mem s_regs s_pc s_psr s_saved_sp s_frame_no s_frames s_sr_defns s_alloca s_instrs s_prefetch s_obs s_mcr s_flags s_ireg s_devs] in u in
      change u with u'
  end.
Ltac nstate := repeat nstate1; rsimpl.


Lemma set_pc_ns w chk s : fl_strict (s_flags s) = false ->
  set_pc w chk s = (upd_pc s (w_data w), inl tt).
Proof.
  intros H. unfold set_pc. rewrite bind_get. unfold strict. rewrite H.
  cbn [get_if_init negb orb of_opt andb]. rewrite bind_ret. rewrite bind_ret. reflexivity.
Qed.
Lemma offset_pc_ns off chk s : fl_strict (s_flags s) = false ->
  offset_pc off chk s = (upd_pc s (wrap16 (s_pc s + off)), inl tt).
Proof. intros H. unfold offset_pc. rewrite bind_get. rewrite set_pc_ns by exact H. reflexivity. Qed.

Lemma step_in_fetch K e m rs pc psr ssp fno frs ins pf obs mcr q buf w i :
  0 <= pc < IO_START -> may_access K psr pc = true ->
  mget m pc = new_init w -> decode w = DOk i ->
  step_in e (mk K m rs pc psr ssp fno frs ins pf obs mcr q buf) =
  after_exec e (exec e i (mk K m rs (wrap16 (pc + 1)) psr ssp fno frs ins false [(pc, OBS_READ)] mcr q buf)).
Proof.
  intros Hpc Hacc Hw Hd.
  unfold step_in, step, step_inner, mk.
  rewrite bind_modify, bind_get. nstate.
  change [DNull; DKb q false; DDs buf] with (kdevs q buf).
  rewrite poll_quiet. rewrite bind_modify, bind_get. nstate.
  erewrite bind_ok by (apply read_mem_plain; [lia | exact Hacc | reflexivity]).
  nstate. rewrite Hw.
  cbn [get_if_init negb orb of_opt new_init w_data]. rewrite bind_ret.
  unfold decode_m. rewrite Hd. rewrite bind_ret.
  erewrite bind_ok by (apply offset_pc_ns; reflexivity). nstate.
  rewrite bind_modify. nstate.
  change (obs_update [] pc OBS_READ) with [(pc, OBS_READ)].
  unfold bind at 1.
  match goal with |- context [exec e i ?S] => destruct (exec e i S) as [s2 [[]|b]] end.
  - unfold modify, after_exec, next_ins. destruct (negb (fl_real (s_flags _))); reflexivity.
  - unfold after_exec. reflexivity.
Qed.

(* ---- results of exec on [mk] states; [pc] is the already incremented PC ---- *)
Lemma exec_BR K e m rs pc psr ssp fno frs ins obs mcr q buf cc off :
  exec e (SBR cc off) (mk K m rs pc psr ssp fno frs ins false obs mcr q buf) =
  (mk K m rs (if negb (Z.land cc (psr_cc psr) =? 0) then wrap16 (pc + off) else pc) psr ssp fno frs ins false obs mcr q buf, inl tt).
Proof.
  unfold exec, mk. rewrite bind_get. nstate.
  destruct (negb (Z.land cc (psr_cc psr) =? 0)).
  - rewrite offset_pc_ns by reflexivity. nstate. reflexivity.
  - reflexivity.
Qed.

Definition operand_of (rs : regs) (o : imm_or_reg) : word :=
  match o with Imm v => new_init (to_u16 v) | RegOp r => rget rs r end.

Lemma exec_ADD K e m rs pc psr ssp fno frs ins obs mcr q buf dr sr o :
  exec e (SADD dr sr o) (mk K m rs pc psr ssp fno frs ins false obs mcr q buf) =
  (mk K m (rset rs dr (w_add (rget rs sr) (operand_of rs o))) pc
      (psr_set_cc psr (cc_of (w_data (w_add (rget rs sr) (operand_of rs o))))) ssp fno frs ins false obs mcr q buf, inl tt).
Proof.
  reflexivity.
Qed.

Lemma exec_AND K e m rs pc psr ssp fno frs ins obs mcr q buf dr sr o :
  exec e (SAND dr sr o) (mk K m rs pc psr ssp fno frs ins false obs mcr q buf) =
  (mk K m (rset rs dr (w_and (rget rs sr) (operand_of rs o))) pc
      (psr_set_cc psr (cc_of (w_data (w_and (rget rs sr) (operand_of rs o))))) ssp fno frs ins false obs mcr q buf, inl tt).
Proof.
  reflexivity.
Qed.

Lemma exec_LEA K e m rs pc psr ssp fno frs ins obs mcr q buf dr off :
  exec e (SLEA dr off) (mk K m rs pc psr ssp fno frs ins false obs mcr q buf) =
  (mk K m (rset rs dr (new_init (wrap16 (pc + off)))) pc psr ssp fno frs ins false obs mcr q buf, inl tt).
Proof. reflexivity. Qed.

(* loads from plain memory *)
Lemma exec_LD K e m rs pc psr ssp fno frs ins obs mcr q buf dr off :
  wrap16 (pc + off) < IO_START -> may_access K psr (wrap16 (pc + off)) = true ->
  exec e (SLD dr off) (mk K m rs pc psr ssp fno frs ins false obs mcr q buf) =
  (mk K m (rset rs dr (mget m (wrap16 (pc + off)))) pc (psr_set_cc psr (cc_of (w_data (mget m (wrap16 (pc + off))))))
      ssp fno frs ins false (obs_update obs (wrap16 (pc + off)) OBS_READ) mcr q buf, inl tt).
Proof.
  intros Hio Hacc. unfold exec, mk. rewrite bind_get. nstate.
  erewrite bind_ok by (apply read_mem_plain; [exact Hio | exact Hacc | reflexivity]). nstate.
  reflexivity.
Qed.

Lemma exec_LDR K e m rs pc psr ssp fno frs ins obs mcr q buf dr br off :
  let ea := wrap16 (w_data (rget rs br) + off) in
  ea < IO_START -> may_access K psr ea = true ->
  exec e (SLDR dr br off) (mk K m rs pc psr ssp fno frs ins false obs mcr q buf) =
  (mk K m (rset rs dr (mget m ea)) pc (psr_set_cc psr (cc_of (w_data (mget m ea))))
      ssp fno frs ins false (obs_update obs ea OBS_READ) mcr q buf, inl tt).
Proof.
  intros ea Hio Hacc. unfold exec, mk. rewrite bind_get. nstate.
  cbn [get_if_init negb orb of_opt]. rewrite bind_ret. fold ea.
  erewrite bind_ok by (apply read_mem_plain; [exact Hio | exact Hacc | reflexivity]). nstate.
  reflexivity.
Qed.

(* plain (non-I/O) write, non-strict *)
Definition obs_write (o : list (Z * Z)) (m : mem) (a : Z) (data : word) : list (Z * Z) :=
  let o1 := obs_update o a OBS_WRITTEN in
  if negb (word_eqb (mget m a) data) then obs_update o1 a OBS_MODIFIED else o1.
Lemma write_mem_plain e a data c s :
  a < IO_START -> (c_priv c || in_user a) = true -> c_track c = true -> c_strict c = false ->
  write_mem e a data c s =
  (upd_mem (upd_obs s (obs_write (s_obs s) (s_mem s) a data)) (mset (s_mem s) a data), inl tt).
Proof.
  intros Ha Hp Ht Hs. unfold write_mem.
  replace (negb (c_priv c) && negb (in_user a)) with false
    by (destruct (c_priv c), (in_user a); cbn in *; congruence).
  replace (IO_START <=? a) with false by (symmetry; apply Z.leb_gt; exact Ha).
  rewrite Ht, Hs. cbn [set_if_init negb orb]. unfold obs_write.
  destruct (negb (word_eqb (mget (s_mem s) a) data)); reflexivity.
Qed.

Lemma exec_STR K e m rs pc psr ssp fno frs ins obs mcr q buf sr br off :
  let ea := wrap16 (w_data (rget rs br) + off) in
  ea < IO_START -> may_access K psr ea = true ->
  exec e (SSTR sr br off) (mk K m rs pc psr ssp fno frs ins false obs mcr q buf) =
  (mk K (mset m ea (rget rs sr)) rs pc psr ssp fno frs ins false (obs_write obs m ea (rget rs sr)) mcr q buf, inl tt).
Proof.
  intros ea Hio Hacc. unfold exec, mk. rewrite bind_get. nstate.
  cbn [get_if_init negb orb of_opt]. rewrite bind_ret. fold ea.
  rewrite write_mem_plain; [nstate; reflexivity | exact Hio | exact Hacc | reflexivity | reflexivity].
Qed.

(* ---- device registers ---- *)
Definition is_nil {A} (l : list A) : bool := match l with [] => true | _ => false end.
Definition kbsr_val (e : env) (q : list Z) : Z := if negb (e_kb_locked e) && negb (is_nil q) then 32768 else 0.
Definition dsr_val (e : env) : Z := if e_ds_locked e then 0 else 32768.

Lemma read_kbsr K e c m rs pc psr ssp fno frs ins pf obs mcr q buf :
  c_priv c = true -> c_track c = true ->
  read_mem e KBSR c (mk K m rs pc psr ssp fno frs ins pf obs mcr q buf) =
  (mk K (mset m KBSR (new_init (kbsr_val e q))) rs pc psr ssp fno frs ins pf (obs_update obs KBSR OBS_READ) mcr q buf,
   inl (new_init (kbsr_val e q))).
Proof.
  intros Hp Ht. unfold read_mem, mk. rewrite Hp, Ht. cbn [negb andb].
  change (IO_START <=? KBSR) with true. cbv iota. nstate.
  change (assoc default_ireg KBSR) with (@None ireg). cbv iota.
  change (port_dev KBSR) with 1. change (nth_dev (kdevs q buf) 1) with (DKb q false).
  unfold dev_read. change (KBSR =? KBSR) with true. cbv iota beta zeta.
  nstate. change (set_nth (kdevs q buf) (Z.to_nat 1) (DKb q false)) with (kdevs q buf).
  rewrite mget_mset_same. unfold kbsr_val, is_nil.
  rewrite Z.add_0_r. reflexivity.
Qed.

Lemma read_dsr K e c m rs pc psr ssp fno frs ins pf obs mcr q buf :
  c_priv c = true -> c_track c = true ->
  read_mem e DSR c (mk K m rs pc psr ssp fno frs ins pf obs mcr q buf) =
  (mk K (mset m DSR (new_init (dsr_val e))) rs pc psr ssp fno frs ins pf (obs_update obs DSR OBS_READ) mcr q buf,
   inl (new_init (dsr_val e))).
Proof.
  intros Hp Ht. unfold read_mem, mk. rewrite Hp, Ht. cbn [negb andb].
  change (IO_START <=? DSR) with true. cbv iota. nstate.
  change (assoc default_ireg DSR) with (@None ireg). cbv iota.
  change (port_dev DSR) with 2. change (nth_dev (kdevs q buf) 2) with (DDs buf).
  unfold dev_read. change (DSR =? DSR) with true. cbv iota beta zeta.
  nstate. change (set_nth (kdevs q buf) (Z.to_nat 2) (DDs buf)) with (kdevs q buf).
  rewrite mget_mset_same. reflexivity.
Qed.

(* KBDR: locked or empty queue -> the stale mirror word; otherwise the head of the queue is taken *)
Lemma read_kbdr K e c m rs pc psr ssp fno frs ins pf obs mcr q buf :
  c_priv c = true -> c_track c = true -> c_io c = true ->
  read_mem e KBDR c (mk K m rs pc psr ssp fno frs ins pf obs mcr q buf) =
  match (if e_kb_locked e then [] else q) with
  | [] => (mk K m rs pc psr ssp fno frs ins pf (obs_update obs KBDR OBS_READ) mcr q buf, inl (mget m KBDR))
  | ch :: r => (mk K (mset m KBDR (new_init ch)) rs pc psr ssp fno frs ins pf (obs_update obs KBDR OBS_READ) mcr r buf, inl (new_init ch))
  end.
Proof.
  intros Hp Ht Hi. unfold read_mem, mk. rewrite Hp, Ht, Hi. cbn [negb andb].
  change (IO_START <=? KBDR) with true. cbv iota. nstate.
  change (assoc default_ireg KBDR) with (@None ireg). cbv iota.
  change (port_dev KBDR) with 1. change (nth_dev (kdevs q buf) 1) with (DKb q false).
  unfold dev_read. change (KBDR =? KBSR) with false. change (KBDR =? KBDR) with true. cbv iota beta zeta.
  destruct (e_kb_locked e).
  - nstate. reflexivity.
  - destruct q as [|ch r].
    + nstate. reflexivity.
    + nstate. change (set_nth (kdevs (ch :: r) buf) (Z.to_nat 1) (DKb r false)) with (kdevs r buf).
      rewrite mget_mset_same. reflexivity.
Qed.

(* DDR write: dropped (and the memory mirror skipped) while the display lock is held *)
Lemma write_ddr K e c data m rs pc psr ssp fno frs ins pf obs mcr q buf :
  c_priv c = true -> c_track c = true -> c_strict c = false ->
  write_mem e DDR data c (mk K m rs pc psr ssp fno frs ins pf obs mcr q buf) =
  if e_ds_locked e then (mk K m rs pc psr ssp fno frs ins pf obs mcr q buf, inl tt)
  else (mk K (mset m DDR data) rs pc psr ssp fno frs ins pf (obs_write obs m DDR data) mcr q (buf ++ [w_data data mod 256]), inl tt).
Proof.
  intros Hp Ht Hs. unfold write_mem, mk. rewrite Hp, Ht, Hs. cbn [negb andb].
  change (IO_START <=? DDR) with true. cbv iota. cbn [get_if_init negb orb]. nstate.
  change (assoc default_ireg DDR) with (@None ireg). cbv iota.
  change (port_dev DDR) with 2. change (nth_dev (kdevs q buf) 2) with (DDs buf).
  unfold dev_write. change (DDR =? DDR) with true. cbv iota beta zeta.
  destruct (e_ds_locked e).
  - nstate. reflexivity.
  - nstate. change (set_nth (kdevs q buf) (Z.to_nat 2) (DDs (buf ++ [w_data data mod 256]))) with (kdevs q (buf ++ [w_data data mod 256])).
    cbn [set_if_init negb orb]. unfold obs_write.
    destruct (negb (word_eqb (mget m DDR) data)); nstate; reflexivity.
Qed.

(* MCR write through the internal-register map *)
Lemma write_mcr K e c data m rs pc psr ssp fno frs ins pf obs mcr q buf :
  c_priv c = true -> c_track c = true -> c_strict c = false ->
  write_mem e 65534 data c (mk K m rs pc psr ssp fno frs ins pf obs mcr q buf) =
  (mk K (mset m 65534 data) rs pc psr ssp fno frs ins pf (obs_write obs m 65534 data) (32768 <=? w_data data) q buf, inl tt).
Proof.
  intros Hp Ht Hs. unfold write_mem, mk. rewrite Hp, Ht, Hs. cbn [negb andb].
  change (IO_START <=? 65534) with true. cbv iota. cbn [get_if_init negb orb]. nstate.
  change (assoc default_ireg 65534) with (Some RegMCR). cbv iota.
  nstate. cbn [set_if_init negb orb]. unfold obs_write.
  destruct (negb (word_eqb (mget m 65534) data)); nstate; reflexivity.
Qed.

Lemma may_access_priv K psr a : psr_privileged psr = true -> may_access K psr a = true.
Proof. intros H. unfold may_access. rewrite H. reflexivity. Qed.

Ltac ctx_tac H :=
  unfold default_ctx, mk;
  cbn [c_priv c_track c_io c_strict s_psr s_flags kflags fl_ignore_priv fl_strict];
  rewrite ?H; reflexivity.

Lemma exec_LDI_kbsr K e m rs pc psr ssp fno frs ins obs mcr q buf dr off :
  let p := wrap16 (pc + off) in
  p < IO_START -> psr_privileged psr = true -> mget m p = new_init KBSR ->
  exec e (SLDI dr off) (mk K m rs pc psr ssp fno frs ins false obs mcr q buf) =
  (mk K (mset m KBSR (new_init (kbsr_val e q))) (rset rs dr (new_init (kbsr_val e q))) pc
      (psr_set_cc psr (cc_of (kbsr_val e q))) ssp fno frs ins false
      (obs_update (obs_update obs p OBS_READ) KBSR OBS_READ) mcr q buf, inl tt).
Proof.
  intros p Hio Hpriv Hp. unfold exec, mk. rewrite bind_get. nstate. fold p.
  erewrite bind_ok by (apply read_mem_plain; [exact Hio | ctx_tac Hpriv | reflexivity]).
  nstate. rewrite Hp. cbn [get_if_init negb orb of_opt new_init w_data]. rewrite bind_ret, bind_get.
  nstate.
  erewrite bind_ok by (apply (read_kbsr K); ctx_tac Hpriv).
  reflexivity.
Qed.

Lemma exec_LDI_dsr K e m rs pc psr ssp fno frs ins obs mcr q buf dr off :
  let p := wrap16 (pc + off) in
  p < IO_START -> psr_privileged psr = true -> mget m p = new_init DSR ->
  exec e (SLDI dr off) (mk K m rs pc psr ssp fno frs ins false obs mcr q buf) =
  (mk K (mset m DSR (new_init (dsr_val e))) (rset rs dr (new_init (dsr_val e))) pc
      (psr_set_cc psr (cc_of (dsr_val e))) ssp fno frs ins false
      (obs_update (obs_update obs p OBS_READ) DSR OBS_READ) mcr q buf, inl tt).
Proof.
  intros p Hio Hpriv Hp. unfold exec, mk. rewrite bind_get. nstate. fold p.
  erewrite bind_ok by (apply read_mem_plain; [exact Hio | ctx_tac Hpriv | reflexivity]).
  nstate. rewrite Hp. cbn [get_if_init negb orb of_opt new_init w_data]. rewrite bind_ret, bind_get.
  nstate.
  erewrite bind_ok by (apply (read_dsr K); ctx_tac Hpriv).
  reflexivity.
Qed.

Lemma exec_LDI_kbdr K e m rs pc psr ssp fno frs ins obs mcr q buf dr off :
  let p := wrap16 (pc + off) in
  p < IO_START -> psr_privileged psr = true -> mget m p = new_init KBDR ->
  exec e (SLDI dr off) (mk K m rs pc psr ssp fno frs ins false obs mcr q buf) =
  match (if e_kb_locked e then [] else q) with
  | [] => (mk K m (rset rs dr (mget m KBDR)) pc (psr_set_cc psr (cc_of (w_data (mget m KBDR)))) ssp fno frs ins false
              (obs_update (obs_update obs p OBS_READ) KBDR OBS_READ) mcr q buf, inl tt)
  | ch :: r => (mk K (mset m KBDR (new_init ch)) (rset rs dr (new_init ch)) pc (psr_set_cc psr (cc_of ch)) ssp fno frs ins false
              (obs_update (obs_update obs p OBS_READ) KBDR OBS_READ) mcr r buf, inl tt)
  end.
Proof.
  intros p Hio Hpriv Hp. unfold exec, mk. rewrite bind_get. nstate. fold p.
  erewrite bind_ok by (apply read_mem_plain; [exact Hio | ctx_tac Hpriv | reflexivity]).
  nstate. rewrite Hp. cbn [get_if_init negb orb of_opt new_init w_data]. rewrite bind_ret, bind_get.
  nstate.
  unfold bind at 1.
  match goal with |- context [read_mem e KBDR ?c ?S] =>
    replace (read_mem e KBDR c S) with (read_mem e KBDR c (mk K m rs pc psr ssp fno frs ins false (obs_update obs p OBS_READ) mcr q buf)) by reflexivity end.
  rewrite read_kbdr by (ctx_tac Hpriv).
  destruct (if e_kb_locked e then [] else q); reflexivity.
Qed.

Lemma exec_STI_ddr K e m rs pc psr ssp fno frs ins obs mcr q buf sr off :
  let p := wrap16 (pc + off) in
  p < IO_START -> psr_privileged psr = true -> mget m p = new_init DDR ->
  exec e (SSTI sr off) (mk K m rs pc psr ssp fno frs ins false obs mcr q buf) =
  if e_ds_locked e then (mk K m rs pc psr ssp fno frs ins false (obs_update obs p OBS_READ) mcr q buf, inl tt)
  else (mk K (mset m DDR (rget rs sr)) rs pc psr ssp fno frs ins false
           (obs_write (obs_update obs p OBS_READ) m DDR (rget rs sr)) mcr q (buf ++ [w_data (rget rs sr) mod 256]), inl tt).
Proof.
  intros p Hio Hpriv Hp. unfold exec, mk. rewrite bind_get. nstate. fold p.
  erewrite bind_ok by (apply read_mem_plain; [exact Hio | ctx_tac Hpriv | reflexivity]).
  nstate. rewrite Hp. cbn [get_if_init negb orb of_opt new_init w_data]. rewrite bind_ret, bind_get.
  nstate.
  match goal with |- write_mem e DDR ?d ?c ?S = _ =>
    replace (write_mem e DDR d c S) with (write_mem e DDR d c (mk K m rs pc psr ssp fno frs ins false (obs_update obs p OBS_READ) mcr q buf)) by reflexivity end.
  rewrite write_ddr by (cbn [c_priv c_track c_strict andb]; rewrite ?Hpriv; reflexivity).
  destruct (e_ds_locked e); reflexivity.
Qed.

Lemma exec_STI_mcr K e m rs pc psr ssp fno frs ins obs mcr q buf sr off :
  let p := wrap16 (pc + off) in
  p < IO_START -> psr_privileged psr = true -> mget m p = new_init 65534 ->
  exec e (SSTI sr off) (mk K m rs pc psr ssp fno frs ins false obs mcr q buf) =
  (mk K (mset m 65534 (rget rs sr)) rs pc psr ssp fno frs ins false
      (obs_write (obs_update obs p OBS_READ) m 65534 (rget rs sr)) (32768 <=? w_data (rget rs sr)) q buf, inl tt).
Proof.
  intros p Hio Hpriv Hp. unfold exec, mk. rewrite bind_get. nstate. fold p.
  erewrite bind_ok by (apply read_mem_plain; [exact Hio | ctx_tac Hpriv | reflexivity]).
  nstate. rewrite Hp. cbn [get_if_init negb orb of_opt new_init w_data]. rewrite bind_ret, bind_get.
  nstate.
  match goal with |- write_mem e 65534 ?d ?c ?S = _ =>
    replace (write_mem e 65534 d c S) with (write_mem e 65534 d c (mk K m rs pc psr ssp fno frs ins false (obs_update obs p OBS_READ) mcr q buf)) by reflexivity end.
  rewrite write_mcr by (cbn [c_priv c_track c_strict andb]; rewrite ?Hpriv; reflexivity).
  reflexivity.
Qed.

(* ---- frames ---- *)
Definition push_frs (ft : ftype) (srd : list (Z * plist)) (rs : regs) (m : mem) (caller callee : Z)
                    (frs : option (list frame)) : option (list frame) :=
  match frs with
  | None => None
  | Some fs =>
      let pl := match ft with
                | FSubroutine => assoc srd callee
                | FTrap => if callee <? 256 then trap_defn callee else None
                | FInterrupt => assoc srd callee
                end in
      let '(fp, args) :=
        match pl with
        | Some (PCC k) =>
            let fp := w_sub (rget rs 6) (new_init 4) in
            (Some fp, map (fun i => mget m (wrap16 (wrap16 (w_data fp + 4) + i))) (seqz 0 (Z.to_nat k)))
        | Some (PBR l) => (None, map (fun r => rget rs r) l)
        | None => (None, [])
        end in
      Some (mkFrame caller callee ft fp args :: fs)
  end.
Definition pop_frs (frs : option (list frame)) : option (list frame) :=
  match frs with Some (_ :: r) => Some r | x => x end.
Lemma pop_push_frs ft srd rs m a b frs : pop_frs (push_frs ft srd rs m a b frs) = frs.
Proof.
  destruct frs as [fs|]; [|reflexivity]. unfold push_frs.
  destruct (match ft with FSubroutine => assoc srd b | FTrap => if b <? 256 then trap_defn b else None | FInterrupt => assoc srd b end) as [[k|l]|]; reflexivity.
Qed.

Lemma push_frame_mk K m rs pc psr ssp fno frs ins pf obs mcr q buf caller callee ft :
  push_frame caller callee ft (mk K m rs pc psr ssp fno frs ins pf obs mcr q buf) =
  (mk K m rs pc psr ssp (fno + 1) (push_frs ft (k_srd K) rs m caller callee frs) ins pf obs mcr q buf, inl tt).
Proof.
  unfold push_frame, modify, mk, push_frs. nstate. destruct frs as [fs|]; [|reflexivity].
  destruct (match ft with FSubroutine => assoc (k_srd K) callee | FTrap => if callee <? 256 then trap_defn callee else None | FInterrupt => assoc (k_srd K) callee end) as [[k|l]|]; reflexivity.
Qed.

Lemma psr_priv_set psr : psr_privileged (psr_set_privileged psr true) = true.
Proof.
  unfold psr_privileged, psr_set_privileged. rewrite Z.lor_0_r.
  change 32767 with (Z.ones 15). rewrite Z.land_ones by lia.
  rewrite Z.shiftr_div_pow2 by lia. apply Z.eqb_eq. apply Z.div_small. apply Z.mod_pos_bound. lia.
Qed.

Lemma psr_priv_set_cc p c : psr_privileged p = true -> psr_privileged (psr_set_cc p c) = true.
Proof.
  unfold psr_privileged, psr_set_cc. intros H. apply Z.eqb_eq in H. apply Z.eqb_eq.
  rewrite Z.shiftr_lor, Z.shiftr_land, H. rewrite Z.land_0_l, Z.lor_0_l.
  destruct (one_hot3 (Z.land c 7)); [|reflexivity].
  rewrite Z.shiftr_land. change (Z.shiftr 7 15) with 0. apply Z.land_0_r.
Qed.

(* ---- TRAP (not the virtual HALT short-cut) ---- *)
Definition sup_sp (psr : Z) (rs : regs) (ssp : word) : word := if psr_privileged psr then rget rs 6 else ssp.
Definition obs_trap (obs : list (Z * Z)) (m : mem) (sp psr pc v : Z) : list (Z * Z) :=
  obs_update (obs_write (obs_write obs m (wrap16 (sp - 1)) (new_init psr))
                        (mset m (wrap16 (sp - 1)) (new_init psr)) (wrap16 (sp - 2)) (new_init pc)) v OBS_READ.

Lemma exec_TRAP K e m r0 r1 r2 r3 r4 r5 r6 r7 pc psr ssp fno frs ins obs mcr q buf v :
  let spw := if psr_privileged psr then r6 else ssp in
  let sp := w_data spw in
  let m' := mset (mset m (wrap16 (sp - 1)) (new_init psr)) (wrap16 (sp - 2)) (new_init pc) in
  let rs' := [r0; r1; r2; r3; r4; r5; w_sub spw (new_init 2); r7] in
  (if k_real K then None else real_int_vect v) = None ->
  wrap16 (sp - 1) < IO_START -> wrap16 (sp - 2) < IO_START -> v < IO_START ->
  exec e (STRAP v) (mk K m [r0; r1; r2; r3; r4; r5; r6; r7] pc psr ssp fno frs ins false obs mcr q buf) =
  (mk K m' rs' (w_data (mget m' v))
      (psr_set_cc (psr_set_privileged psr true) 2)
      (if psr_privileged psr then ssp else r6)
      (fno + 1) (push_frs FTrap (k_srd K) rs' m' (wrap16 (pc - 1)) v frs)
      ins false (obs_trap obs m sp psr pc v) mcr q buf, inl tt).
Proof.
  intros spw sp m' rs' Hv H1 H2 H3. unfold exec, handle_interrupt, mk. rewrite bind_get. nstate.
  rewrite bind_get. nstate. rewrite Hv.
  pose proof (psr_priv_set psr) as Hpp.
  pose proof (psr_priv_set_cc _ 2 Hpp) as Hpc.
  subst rs' spw sp m'.
  destruct (psr_privileged psr) eqn:Hpriv; cbn [negb].
  - rewrite bind_ret, bind_get, bind_modify. nstate. rewrite bind_get. nstate. regs.
    cbn [get_if_init negb orb of_opt]. rewrite bind_ret, bind_modify. nstate. regs.
    erewrite bind_ok by (apply write_mem_plain; [assumption | ctx_tac Hpp | reflexivity | reflexivity]). nstate.
    erewrite bind_ok by (apply write_mem_plain; [assumption | ctx_tac Hpp | reflexivity | reflexivity]). nstate.
    rewrite bind_modify. nstate. unfold call_interrupt. rewrite bind_get. nstate.
    erewrite bind_ok by (apply read_mem_plain; [assumption | ctx_tac Hpc | reflexivity]).
    nstate. rewrite bind_get. nstate. cbn [get_if_init negb orb of_opt]. rewrite bind_ret.
    unfold prefetch_pc. nstate. cbn [negb]. 
    erewrite bind_ok by (apply (push_frame_mk K)).
    rewrite set_pc_ns by reflexivity. unfold mk, obs_trap. nstate. reflexivity.
  - unfold swap_sp. rewrite bind_modify. nstate. regs. rewrite bind_get, bind_modify. nstate. rewrite bind_get. nstate. regs.
    cbn [get_if_init negb orb of_opt]. rewrite bind_ret, bind_modify. nstate. regs.
    erewrite bind_ok by (apply write_mem_plain; [assumption | ctx_tac Hpp | reflexivity | reflexivity]). nstate.
    erewrite bind_ok by (apply write_mem_plain; [assumption | ctx_tac Hpp | reflexivity | reflexivity]). nstate.
    rewrite bind_modify. nstate. unfold call_interrupt. rewrite bind_get. nstate.
    erewrite bind_ok by (apply read_mem_plain; [assumption | ctx_tac Hpc | reflexivity]).
    nstate. rewrite bind_get. nstate. cbn [get_if_init negb orb of_opt]. rewrite bind_ret.
    unfold prefetch_pc. nstate. cbn [negb]. 
    erewrite bind_ok by (apply (push_frame_mk K)).
    rewrite set_pc_ns by reflexivity. unfold mk, obs_trap. nstate. reflexivity.
Qed.

Lemma exec_TRAP_halt_virtual K e m rs pc psr ssp fno frs ins obs mcr q buf :
  k_real K = false ->
  exec e (STRAP 37) (mk K m rs pc psr ssp fno frs ins false obs mcr q buf) =
  (mk K m rs (wrap16 (pc + -1)) psr ssp fno frs ins true obs mcr q buf, inr BHalt).
Proof.
  intros Hr. unfold exec, handle_interrupt, mk. rewrite bind_get. nstate. rewrite bind_get. nstate. rewrite Hr.
  change (real_int_vect 37) with (Some BHalt). cbv iota. cbn [negb].
  erewrite bind_ok.
  2:{ erewrite bind_ok by (apply offset_pc_ns; reflexivity). nstate. unfold modify. nstate. reflexivity. }
  reflexivity.
Qed.

(* ---- RTI ---- *)
Lemma exec_RTI K e m r0 r1 r2 r3 r4 r5 r6 r7 pc psr ssp fno frs ins obs mcr q buf :
  let sp := w_data r6 in
  let npc := w_data (mget m sp) in
  let npsr := w_data (mget m (wrap16 (sp + 1))) in
  let r6' := w_add r6 (new_init 2) in
  psr_privileged psr = true -> sp < IO_START -> wrap16 (sp + 1) < IO_START ->
  exec e SRTI (mk K m [r0; r1; r2; r3; r4; r5; r6; r7] pc psr ssp fno frs ins false obs mcr q buf) =
  (mk K m [r0; r1; r2; r3; r4; r5; if psr_privileged npsr then r6' else ssp; r7] npc npsr
      (if psr_privileged npsr then ssp else r6')
      (Z.max 0 (fno - 1)) (pop_frs frs) ins false
      (obs_update (obs_update obs sp OBS_READ) (wrap16 (sp + 1)) OBS_READ) mcr q buf, inl tt).
Proof.
  intros sp npc npsr r6' Hpriv H1 H2. unfold exec, mk. rewrite bind_get. nstate. rewrite Hpriv. cbn [orb]. regs.
  cbn [get_if_init negb orb of_opt]. rewrite bind_ret. fold sp.
  erewrite bind_ok by (apply read_mem_plain; [assumption | ctx_tac Hpriv | reflexivity]). nstate.
  rewrite bind_ret.
  erewrite bind_ok by (apply read_mem_plain; [assumption | ctx_tac Hpriv | reflexivity]). nstate.
  rewrite bind_ret, bind_modify. nstate. regs.
  erewrite bind_ok by (apply set_pc_ns; reflexivity). nstate.
  rewrite bind_modify. nstate. fold npsr npc r6'.
  destruct (psr_privileged npsr); cbn [negb].
  - rewrite bind_ret. unfold pop_frame, modify. nstate. destruct frs as [[|f fs]|]; reflexivity.
  - unfold swap_sp. rewrite bind_modify. nstate. regs. unfold pop_frame, modify. nstate. destruct frs as [[|f fs]|]; reflexivity.
Qed.

(* ------------------------------------------------------------------ whole-step rules *)
Lemma after_exec_ok K e m rs pc psr ssp fno frs ins obs mcr q buf :
  after_exec e (mk K m rs pc psr ssp fno frs ins false obs mcr q buf, inl tt) =
  (mk K m rs pc psr ssp fno frs (next_ins ins) false obs mcr q buf, OOk).
Proof. reflexivity. Qed.

Ltac step_by L :=
  intros; erewrite step_in_fetch by eassumption; rewrite L by assumption; try apply after_exec_ok.

Lemma step_BR K e m rs pc psr ssp fno frs ins pf obs mcr q buf w cc off :
  0 <= pc < IO_START -> may_access K psr pc = true -> mget m pc = new_init w -> decode w = DOk (SBR cc off) ->
  step_in e (mk K m rs pc psr ssp fno frs ins pf obs mcr q buf) =
  (mk K m rs (if negb (Z.land cc (psr_cc psr) =? 0) then wrap16 (wrap16 (pc + 1) + off) else wrap16 (pc + 1))
      psr ssp fno frs (next_ins ins) false [(pc, OBS_READ)] mcr q buf, OOk).
Proof. step_by exec_BR. Qed.

Lemma step_ADD K e m rs pc psr ssp fno frs ins pf obs mcr q buf w dr sr o :
  0 <= pc < IO_START -> may_access K psr pc = true -> mget m pc = new_init w -> decode w = DOk (SADD dr sr o) ->
  step_in e (mk K m rs pc psr ssp fno frs ins pf obs mcr q buf) =
  (mk K m (rset rs dr (w_add (rget rs sr) (operand_of rs o))) (wrap16 (pc + 1))
      (psr_set_cc psr (cc_of (w_data (w_add (rget rs sr) (operand_of rs o))))) ssp fno frs (next_ins ins) false [(pc, OBS_READ)] mcr q buf, OOk).
Proof. step_by exec_ADD. Qed.

Lemma step_AND K e m rs pc psr ssp fno frs ins pf obs mcr q buf w dr sr o :
  0 <= pc < IO_START -> may_access K psr pc = true -> mget m pc = new_init w -> decode w = DOk (SAND dr sr o) ->
  step_in e (mk K m rs pc psr ssp fno frs ins pf obs mcr q buf) =
  (mk K m (rset rs dr (w_and (rget rs sr) (operand_of rs o))) (wrap16 (pc + 1))
      (psr_set_cc psr (cc_of (w_data (w_and (rget rs sr) (operand_of rs o))))) ssp fno frs (next_ins ins) false [(pc, OBS_READ)] mcr q buf, OOk).
Proof. step_by exec_AND. Qed.

Lemma step_LEA K e m rs pc psr ssp fno frs ins pf obs mcr q buf w dr off :
  0 <= pc < IO_START -> may_access K psr pc = true -> mget m pc = new_init w -> decode w = DOk (SLEA dr off) ->
  step_in e (mk K m rs pc psr ssp fno frs ins pf obs mcr q buf) =
  (mk K m (rset rs dr (new_init (wrap16 (wrap16 (pc + 1) + off)))) (wrap16 (pc + 1)) psr ssp fno frs (next_ins ins) false [(pc, OBS_READ)] mcr q buf, OOk).
Proof. step_by exec_LEA. Qed.

Lemma step_LD K e m rs pc psr ssp fno frs ins pf obs mcr q buf w dr off :
  let ea := wrap16 (wrap16 (pc + 1) + off) in
  0 <= pc < IO_START -> may_access K psr pc = true -> mget m pc = new_init w -> decode w = DOk (SLD dr off) ->
  ea < IO_START -> may_access K psr ea = true ->
  step_in e (mk K m rs pc psr ssp fno frs ins pf obs mcr q buf) =
  (mk K m (rset rs dr (mget m ea)) (wrap16 (pc + 1)) (psr_set_cc psr (cc_of (w_data (mget m ea))))
      ssp fno frs (next_ins ins) false (obs_update [(pc, OBS_READ)] ea OBS_READ) mcr q buf, OOk).
Proof. step_by exec_LD. Qed.

Lemma step_LDR K e m rs pc psr ssp fno frs ins pf obs mcr q buf w dr br off :
  let ea := wrap16 (w_data (rget rs br) + off) in
  0 <= pc < IO_START -> may_access K psr pc = true -> mget m pc = new_init w -> decode w = DOk (SLDR dr br off) ->
  ea < IO_START -> may_access K psr ea = true ->
  step_in e (mk K m rs pc psr ssp fno frs ins pf obs mcr q buf) =
  (mk K m (rset rs dr (mget m ea)) (wrap16 (pc + 1)) (psr_set_cc psr (cc_of (w_data (mget m ea))))
      ssp fno frs (next_ins ins) false (obs_update [(pc, OBS_READ)] ea OBS_READ) mcr q buf, OOk).
Proof. step_by exec_LDR. Qed.

Lemma step_STR K e m rs pc psr ssp fno frs ins pf obs mcr q buf w sr br off :
  let ea := wrap16 (w_data (rget rs br) + off) in
  0 <= pc < IO_START -> may_access K psr pc = true -> mget m pc = new_init w -> decode w = DOk (SSTR sr br off) ->
  ea < IO_START -> may_access K psr ea = true ->
  step_in e (mk K m rs pc psr ssp fno frs ins pf obs mcr q buf) =
  (mk K (mset m ea (rget rs sr)) rs (wrap16 (pc + 1)) psr ssp fno frs (next_ins ins) false
      (obs_write [(pc, OBS_READ)] m ea (rget rs sr)) mcr q buf, OOk).
Proof. step_by exec_STR. Qed.

Lemma step_LDI_kbsr K e m rs pc psr ssp fno frs ins pf obs mcr q buf w dr off :
  let p := wrap16 (wrap16 (pc + 1) + off) in
  0 <= pc < IO_START -> may_access K psr pc = true -> mget m pc = new_init w -> decode w = DOk (SLDI dr off) ->
  p < IO_START -> psr_privileged psr = true -> mget m p = new_init KBSR ->
  step_in e (mk K m rs pc psr ssp fno frs ins pf obs mcr q buf) =
  (mk K (mset m KBSR (new_init (kbsr_val e q))) (rset rs dr (new_init (kbsr_val e q))) (wrap16 (pc + 1))
      (psr_set_cc psr (cc_of (kbsr_val e q))) ssp fno frs (next_ins ins) false
      (obs_update (obs_update [(pc, OBS_READ)] p OBS_READ) KBSR OBS_READ) mcr q buf, OOk).
Proof. step_by exec_LDI_kbsr. Qed.

Lemma step_LDI_dsr K e m rs pc psr ssp fno frs ins pf obs mcr q buf w dr off :
  let p := wrap16 (wrap16 (pc + 1) + off) in
  0 <= pc < IO_START -> may_access K psr pc = true -> mget m pc = new_init w -> decode w = DOk (SLDI dr off) ->
  p < IO_START -> psr_privileged psr = true -> mget m p = new_init DSR ->
  step_in e (mk K m rs pc psr ssp fno frs ins pf obs mcr q buf) =
  (mk K (mset m DSR (new_init (dsr_val e))) (rset rs dr (new_init (dsr_val e))) (wrap16 (pc + 1))
      (psr_set_cc psr (cc_of (dsr_val e))) ssp fno frs (next_ins ins) false
      (obs_update (obs_update [(pc, OBS_READ)] p OBS_READ) DSR OBS_READ) mcr q buf, OOk).
Proof. step_by exec_LDI_dsr. Qed.

Lemma step_LDI_kbdr K e m rs pc psr ssp fno frs ins pf obs mcr q buf w dr off :
  let p := wrap16 (wrap16 (pc + 1) + off) in
  0 <= pc < IO_START -> may_access K psr pc = true -> mget m pc = new_init w -> decode w = DOk (SLDI dr off) ->
  p < IO_START -> psr_privileged psr = true -> mget m p = new_init KBDR ->
  step_in e (mk K m rs pc psr ssp fno frs ins pf obs mcr q buf) =
  match (if e_kb_locked e then [] else q) with
  | [] => (mk K m (rset rs dr (mget m KBDR)) (wrap16 (pc + 1)) (psr_set_cc psr (cc_of (w_data (mget m KBDR)))) ssp fno frs (next_ins ins) false
              (obs_update (obs_update [(pc, OBS_READ)] p OBS_READ) KBDR OBS_READ) mcr q buf, OOk)
  | ch :: r => (mk K (mset m KBDR (new_init ch)) (rset rs dr (new_init ch)) (wrap16 (pc + 1)) (psr_set_cc psr (cc_of ch)) ssp fno frs (next_ins ins) false
              (obs_update (obs_update [(pc, OBS_READ)] p OBS_READ) KBDR OBS_READ) mcr r buf, OOk)
  end.
Proof. step_by exec_LDI_kbdr. destruct (if e_kb_locked e then [] else q); apply after_exec_ok. Qed.

Lemma step_STI_ddr K e m rs pc psr ssp fno frs ins pf obs mcr q buf w sr off :
  let p := wrap16 (wrap16 (pc + 1) + off) in
  0 <= pc < IO_START -> may_access K psr pc = true -> mget m pc = new_init w -> decode w = DOk (SSTI sr off) ->
  p < IO_START -> psr_privileged psr = true -> mget m p = new_init DDR ->
  step_in e (mk K m rs pc psr ssp fno frs ins pf obs mcr q buf) =
  if e_ds_locked e then (mk K m rs (wrap16 (pc + 1)) psr ssp fno frs (next_ins ins) false (obs_update [(pc, OBS_READ)] p OBS_READ) mcr q buf, OOk)
  else (mk K (mset m DDR (rget rs sr)) rs (wrap16 (pc + 1)) psr ssp fno frs (next_ins ins) false
           (obs_write (obs_update [(pc, OBS_READ)] p OBS_READ) m DDR (rget rs sr)) mcr q (buf ++ [w_data (rget rs sr) mod 256]), OOk).
Proof. step_by exec_STI_ddr. destruct (e_ds_locked e); apply after_exec_ok. Qed.

Lemma step_STI_mcr K e m rs pc psr ssp fno frs ins pf obs mcr q buf w sr off :
  let p := wrap16 (wrap16 (pc + 1) + off) in
  0 <= pc < IO_START -> may_access K psr pc = true -> mget m pc = new_init w -> decode w = DOk (SSTI sr off) ->
  p < IO_START -> psr_privileged psr = true -> mget m p = new_init 65534 ->
  step_in e (mk K m rs pc psr ssp fno frs ins pf obs mcr q buf) =
  (mk K (mset m 65534 (rget rs sr)) rs (wrap16 (pc + 1)) psr ssp fno frs (next_ins ins) false
      (obs_write (obs_update [(pc, OBS_READ)] p OBS_READ) m 65534 (rget rs sr)) (32768 <=? w_data (rget rs sr)) q buf, OOk).
Proof. step_by exec_STI_mcr. Qed.

Lemma step_TRAP K e m r0 r1 r2 r3 r4 r5 r6 r7 pc psr ssp fno frs ins pf obs mcr q buf w v :
  let spw := if psr_privileged psr then r6 else ssp in
  let sp := w_data spw in
  let npc := wrap16 (pc + 1) in
  let m' := mset (mset m (wrap16 (sp - 1)) (new_init psr)) (wrap16 (sp - 2)) (new_init npc) in
  let rs' := [r0; r1; r2; r3; r4; r5; w_sub spw (new_init 2); r7] in
  0 <= pc < IO_START -> may_access K psr pc = true -> mget m pc = new_init w -> decode w = DOk (STRAP v) ->
  (if k_real K then None else real_int_vect v) = None ->
  wrap16 (sp - 1) < IO_START -> wrap16 (sp - 2) < IO_START -> v < IO_START ->
  step_in e (mk K m [r0; r1; r2; r3; r4; r5; r6; r7] pc psr ssp fno frs ins pf obs mcr q buf) =
  (mk K m' rs' (w_data (mget m' v)) (psr_set_cc (psr_set_privileged psr true) 2)
      (if psr_privileged psr then ssp else r6)
      (fno + 1) (push_frs FTrap (k_srd K) rs' m' (wrap16 (npc - 1)) v frs)
      (next_ins ins) false (obs_trap [(pc, OBS_READ)] m sp psr npc v) mcr q buf, OOk).
Proof. step_by exec_TRAP. Qed.

Lemma step_TRAP_halt_virtual K e m rs pc psr ssp fno frs ins pf obs mcr q buf w :
  0 <= pc < IO_START -> may_access K psr pc = true -> mget m pc = new_init w -> decode w = DOk (STRAP 37) ->
  k_real K = false ->
  step_in e (mk K m rs pc psr ssp fno frs ins pf obs mcr q buf) =
  (mk K m rs (wrap16 (wrap16 (pc + 1) + -1)) psr ssp fno frs ins true [(pc, OBS_READ)] mcr q buf, OHalt).
Proof.
  intros. erewrite step_in_fetch by eassumption. rewrite exec_TRAP_halt_virtual by assumption.
  unfold after_exec, mk. cbn [s_flags kflags fl_real]. rewrite H3. reflexivity.
Qed.

Lemma step_RTI K e m r0 r1 r2 r3 r4 r5 r6 r7 pc psr ssp fno frs ins pf obs mcr q buf w :
  let sp := w_data r6 in
  let npc := w_data (mget m sp) in
  let npsr := w_data (mget m (wrap16 (sp + 1))) in
  let r6' := w_add r6 (new_init 2) in
  0 <= pc < IO_START -> may_access K psr pc = true -> mget m pc = new_init w -> decode w = DOk SRTI ->
  psr_privileged psr = true -> sp < IO_START -> wrap16 (sp + 1) < IO_START ->
  step_in e (mk K m [r0; r1; r2; r3; r4; r5; r6; r7] pc psr ssp fno frs ins pf obs mcr q buf) =
  (mk K m [r0; r1; r2; r3; r4; r5; if psr_privileged npsr then r6' else ssp; r7] npc npsr
      (if psr_privileged npsr then ssp else r6')
      (Z.max 0 (fno - 1)) (pop_frs frs) (next_ins ins) false
      (obs_update (obs_update [(pc, OBS_READ)] sp OBS_READ) (wrap16 (sp + 1)) OBS_READ) mcr q buf, OOk).
Proof. step_by exec_RTI. Qed.

(* ------------------------------------------------------------------ word / PSR arithmetic *)
Lemma wrap16_small x : 0 <= x < 65536 -> wrap16 x = x.
Proof. intros H. unfold wrap16. apply Z.mod_small. exact H. Qed.
Lemma w_sub_init a b : b <> 0 -> w_sub (new_init a) (new_init b) = new_init (wrap16 (a - b)).
Proof. intros Hb. unfold w_sub, new_init. cbn [w_data w_init]. apply Z.eqb_neq in Hb. rewrite Hb. reflexivity. Qed.
Lemma w_add_init a b : a <> 0 -> b <> 0 -> w_add (new_init a) (new_init b) = new_init (wrap16 (a + b)).
Proof.
  intros Ha Hb. unfold w_add, new_init. cbn [w_data w_init]. apply Z.eqb_neq in Ha, Hb. rewrite Ha, Hb. reflexivity.
Qed.
Lemma w_add_zero l : w_add l (new_init 0) = l.
Proof. reflexivity. Qed.
Lemma w_add_data l b : 0 <= w_data l < 65536 -> 0 < b < 65536 ->
  w_data (w_add l (new_init b)) = wrap16 (w_data l + b).
Proof.
  intros Hl Hb. unfold w_add, new_init. cbn [w_data w_init].
  replace (b =? 0) with false by (symmetry; apply Z.eqb_neq; lia). cbn [andb].
  destruct ((w_data l =? 0) && (w_init l =? ALL_BITS)) eqn:E.
  - apply andb_prop in E. destruct E as [E _]. apply Z.eqb_eq in E. rewrite E. cbn [w_data].
    symmetry. apply wrap16_small. lia.
  - reflexivity.
Qed.

Lemma one_hot3_cases x : one_hot3 x = true -> x = 1 \/ x = 2 \/ x = 4.
Proof.
  unfold one_hot3. intros H. apply orb_prop in H. destruct H as [H|H]; [apply orb_prop in H; destruct H as [H|H]|];
  apply Z.eqb_eq in H; auto.
Qed.
Definition cc_norm (c : Z) : Z := if one_hot3 (Z.land c 7) then Z.land c 7 else 2.
Lemma cc_norm_cases c : cc_norm c = 1 \/ cc_norm c = 2 \/ cc_norm c = 4.
Proof. unfold cc_norm. destruct (one_hot3 (Z.land c 7)) eqn:E; [apply one_hot3_cases; exact E|auto]. Qed.
Lemma psr_set_cc_idem p a b : psr_set_cc (psr_set_cc p a) b = psr_set_cc p b.
Proof.
  unfold psr_set_cc. fold (cc_norm a) (cc_norm b). f_equal.
  rewrite Z.land_lor_distr_l. rewrite <- Z.land_assoc. change (Z.land 65528 65528) with 65528.
  destruct (cc_norm_cases a) as [-> | [-> | ->]]; cbn; apply Z.lor_0_r.
Qed.
Lemma psr_cc_set_cc p c : psr_cc (psr_set_cc p c) = cc_norm c.
Proof.
  unfold psr_cc, psr_set_cc. fold (cc_norm c). rewrite Z.land_lor_distr_l. rewrite <- Z.land_assoc.
  change (Z.land 65528 7) with 0. rewrite Z.land_0_r, Z.lor_0_l.
  destruct (cc_norm_cases c) as [-> | [-> | ->]]; reflexivity.
Qed.
Lemma cc_of_cases x : cc_of x = 4 \/ cc_of x = 2 \/ cc_of x = 1.
Proof. unfold cc_of. destruct (to_i16 x <? 0); auto. destruct (to_i16 x =? 0); auto. Qed.
Lemma cc_norm_cc_of x : cc_norm (cc_of x) = cc_of x.
Proof. destruct (cc_of_cases x) as [-> | [-> | ->]]; reflexivity. Qed.
Lemma psr_cc_set_cc_of p x : psr_cc (psr_set_cc p (cc_of x)) = cc_of x.
Proof. rewrite psr_cc_set_cc. apply cc_norm_cc_of. Qed.
