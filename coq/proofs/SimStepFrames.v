(* SimStepFrames.v — C27 over whole steps and over runs: the frame depth after any run of completed
   steps is the depth before, folded through the depth effect of every executed instruction
   (+1 call / trap, -1 return saturating at zero) and +1 for every interrupt taken. *)
From Coq Require Import ZArith List Bool Lia FMapPositive.
From Gen Require Import Constants.
From Model Require Import Tree Bits Word Instr Sim.
From Proofs Require Import SimHoare SimAccess SimObs SimFrames IrqProofs SimStepObs.
Import ListNotations.
Open Scope Z_scope.

Lemma read_mem_depth e a c s s1 w : read_mem e a c s = (s1, inl w) -> s_frame_no s1 = s_frame_no s.
Proof. intros E. exact (fe_read e a c s s1 w E). Qed.

Lemma fetch_exec_depth e s0 s' u s1 w i :
  fetch_exec e s0 = (s', inl u) ->
  read_mem e (s_pc s0) (default_ctx s0) s0 = (s1, inl w) -> decode (w_data w) = DOk i ->
  s_frame_no s' = depth_effect i (s_frame_no s0).
Proof.
  intros F R D. destruct (fetch_exec_decompose _ _ _ _ F) as (t1 & w' & i' & t3 & R' & D' & X & S').
  rewrite R in R'. inversion R'; subst t1 w'. rewrite D in D'. inversion D'; subst i'. subst s'.
  cbn [upd_instrs s_frame_no]. rewrite (exec_depth e i _ _ _ X). cbn [after_fetch upd_prefetch upd_pc s_frame_no].
  rewrite (read_mem_depth _ _ _ _ _ _ R). reflexivity.
Qed.

(* one completed step without interrupt: the depth effect of the fetched instruction *)
Theorem step_depth e s s' u s1 w i : Completed e s s' u s1 w i ->
  s_frame_no s' = depth_effect i (s_frame_no s).
Proof.
  intros (NT & STEP & FETCH & DEC).
  assert (NT' : forall v p, ~ takes_irq e (upd_obs s []) v p) by exact NT.
  rewrite (gate_not_taken e (upd_obs s []) NT') in STEP.
  change (pending e (upd_obs s [])) with (pending e s) in STEP.
  assert (F : fetch_exec e (after_poll e (upd_obs s [])) = (s', inl u)).
  { destruct (pending e s) as [[v p|]|]; [exact STEP|discriminate|exact STEP]. }
  exact (fetch_exec_depth _ _ _ _ _ _ _ F FETCH DEC).
Qed.

(* one step that takes an interrupt *)
Theorem step_irq_depth e s s' u v p : takes_irq e s v p -> step_inner e (upd_obs s []) = (s', inl u) ->
  s_frame_no s' = s_frame_no s + 1.
Proof.
  intros T STEP. assert (T' : takes_irq e (upd_obs s []) v p) by exact T.
  destruct T' as [Hp Hg]. rewrite step_inner_cases, Hp in STEP.
  apply Z.ltb_lt in Hg. rewrite Hg in STEP.
  rewrite (fe_handle_interrupt_some e (256 + v) p _ _ _ STEP); [reflexivity|].
  apply Z.ltb_lt in Hg. exact Hg.
Qed.

(* runs: a trace of events *)
Inductive event := EInstr (i : sim_instr) | EIrq.
Definition event_effect (ev : event) (n : Z) : Z :=
  match ev with EInstr i => depth_effect i n | EIrq => n + 1 end.

Inductive Trace : sim -> list event -> sim -> Prop :=
| tr_nil s : Trace s [] s
| tr_instr e s s1 u t w i evs s' :
    Completed e s s1 u t w i -> Trace s1 evs s' -> Trace s (EInstr i :: evs) s'
| tr_irq e s s1 u v p evs s' :
    takes_irq e s v p -> step_inner e (upd_obs s []) = (s1, inl u) -> Trace s1 evs s' -> Trace s (EIrq :: evs) s'.

Theorem trace_depth s evs s' : Trace s evs s' ->
  s_frame_no s' = fold_left (fun n ev => event_effect ev n) evs (s_frame_no s).
Proof.
  induction 1 as [s|e s s1 u t w i evs s' C _ IH|e s s1 u v p evs s' T ST _ IH]; cbn [fold_left event_effect].
  - reflexivity.
  - rewrite IH, (step_depth _ _ _ _ _ _ _ C). reflexivity.
  - rewrite IH, (step_irq_depth _ _ _ _ _ _ T ST). reflexivity.
Qed.

(* a call, a body that neither calls nor returns, and the matching return restore the depth *)
Definition neutral (ev : event) : bool :=
  match ev with
  | EInstr (SJSR _) | EInstr (STRAP _) | EInstr SRTI | EIrq => false
  | EInstr (SJMP br) => negb (br =? 7)
  | EInstr _ => true
  end.
Lemma neutral_fold evs n : forallb neutral evs = true -> fold_left (fun n ev => event_effect ev n) evs n = n.
Proof.
  revert n. induction evs as [|ev evs IH]; intros n H; cbn [fold_left]; [reflexivity|].
  cbn [forallb] in H. apply andb_true_iff in H as [H1 H2]. rewrite <- (IH n H2) at 2. f_equal.
  destruct ev as [i|]; [|discriminate H1]. cbn [event_effect].
  destruct i; cbn [neutral depth_effect] in *; try discriminate H1; try reflexivity.
  apply negb_true_iff in H1. rewrite H1. reflexivity.
Qed.

Theorem call_body_return_depth s o body s' :
  Trace s (EInstr (SJSR o) :: body ++ [EInstr (SJMP 7)]) s' -> forallb neutral body = true ->
  0 <= s_frame_no s -> s_frame_no s' = s_frame_no s.
Proof.
  intros T N P. rewrite (trace_depth _ _ _ T). cbn [fold_left event_effect depth_effect].
  rewrite fold_left_app, (neutral_fold _ _ N). cbn [fold_left event_effect depth_effect Z.eqb Pos.eqb]. lia.
Qed.

(* non-vacuity: `JSR #1` at x3000 (x4801) calling x3002, where `RET` (xC1C0) returns: a trace of two
   completed steps exists; depth 0 -> 1 -> 0 and the machine is back at x3001 *)
Definition ex_call_state : sim :=
  mkSim (mset (mset (mkMem (PositiveMap.empty word) (new_init 0)) 12288 (new_init 18433)) 12290 (new_init 49600))
        (repeat (new_init 0) 8) 12288 32770 (new_init 12288) 0 (Some []) [] [] 0 false [] true
        (mkFlags false false true false) [] [].
Ltac completed_by_computation :=
  unfold Completed; split; [intros v p [H _]; vm_compute in H; discriminate H|];
  split; [vm_compute; reflexivity|]; split; vm_compute; reflexivity.
Example ex_call_ret :
  exists s1 s', Trace ex_call_state [EInstr (SJSR (Imm 1)); EInstr (SJMP 7)] s' /\
    (exists u t w, Completed ex_env ex_call_state s1 u t w (SJSR (Imm 1))) /\
    s_frame_no s1 = 1 /\ s_pc s1 = 12290 /\
    s_frame_no s' = 0 /\ s_pc s' = 12289 /\ s_frames s' = Some [].
Proof.
  eexists. eexists. split.
  - eapply tr_instr with (e := ex_env); [completed_by_computation|].
    eapply tr_instr with (e := ex_env); [completed_by_computation|]. apply tr_nil.
  - split; [eexists; eexists; eexists; completed_by_computation|]. vm_compute. repeat split; reflexivity.
Qed.
