(* SimStepFrames2.v — C27 at step level, the recorded frame of a call: a completed JSR / JSRR step with
   debug frames on pushes exactly one frame holding the address of the calling instruction, the
   subroutine start and the kind Subroutine, on top of the unchanged older frames. *)
From Coq Require Import ZArith List Bool Lia.
From Gen Require Import Constants.
From Model Require Import Tree Bits Word Instr Sim.
From Proofs Require Import SimHoare SimAccess SimObs SimFrames IrqProofs SimStepObs SimFrameList.
Import ListNotations.
Open Scope Z_scope.

Definition jsr_target (s : sim) (o : imm_or_reg) : Z :=
  match o with Imm off => wrap16 (wrap16 (s_pc s + 1) + off) | RegOp br => w_data (rget (s_regs s) br) end.

Lemma wrap16_succ_pred x : 0 <= x < 65536 -> wrap16 (wrap16 (x + 1) - 1) = x.
Proof.
  intros H. unfold wrap16.
  pose proof (Z.div_mod (x + 1) 65536). pose proof (Z.mod_pos_bound (x + 1) 65536 eq_refl).
  pose proof (Z.div_mod ((x + 1) mod 65536 - 1) 65536). pose proof (Z.mod_pos_bound ((x + 1) mod 65536 - 1) 65536 eq_refl).
  lia.
Qed.

Theorem step_jsr_frame e s s' u s1 w o fs : Completed e s s' u s1 w (SJSR o) ->
  0 <= s_pc s < 65536 -> s_frames s = Some fs ->
  exists top, s_frames s' = Some (top :: fs) /\
    f_caller top = s_pc s /\ f_callee top = jsr_target s o /\ f_type top = FSubroutine.
Proof.
  intros C PC F.
  destruct C as (NT & STEP & FETCH & DEC).
  destruct (step_inner_decompose e s s' u NT STEP) as (t1 & w' & i' & s3 & R & D & O & X & S').
  rewrite FETCH in R. inversion R; subst t1 w'. rewrite DEC in D. inversion D; subst i'. clear R D.
  destruct (read_mem_keeps _ _ _ _ _ _ FETCH) as (Pk & Rk & _).
  destruct (k_read e (s_pc s) (default_ctx s) (after_poll e (upd_obs s []))) as [Fk _].
  rewrite FETCH in Fk. cbn [fst] in Fk.
  (* frames of the final state are those after exec *)
  assert (FS : s_frames s' = s_frames s3).
  { assert (NT' : forall v p, ~ takes_irq e (upd_obs s []) v p) by exact NT.
    rewrite (gate_not_taken e (upd_obs s []) NT') in STEP.
    change (pending e (upd_obs s [])) with (pending e s) in STEP.
    assert (FE : fetch_exec e (after_poll e (upd_obs s [])) = (s', inl u)).
    { destruct (pending e s) as [[v p|]|]; [exact STEP|discriminate|exact STEP]. }
    destruct (fetch_exec_decompose _ _ _ _ FE) as (t1 & w' & i' & t3 & R & D & X' & E').
    assert (EQ : (s1, @inl word brk w) = (t1, inl w')) by (rewrite <- FETCH; exact R).
    inversion EQ; subst t1 w'. rewrite DEC in D. inversion D; subst i'.
    rewrite X in X'. inversion X'; subst t3. subst s'. reflexivity. }
  rewrite FS. clear FS S' STEP.
  (* the call *)
  unfold exec in X. rewrite run_bind, run_get in X. cbv zeta in X. rewrite run_bind in X.
  set (sf := after_fetch s1) in *.
  set (wv := match o with Imm off => new_init (wrap16 (s_pc sf + off)) | RegOp br => rget (s_regs sf) br end) in X.
  unfold get_if_init in X. destruct (negb (strict sf) || is_init wv); cbn [of_opt] in X; [|discriminate].
  rewrite run_ret in X. unfold call_subroutine in X.
  rewrite run_bind, run_modify, run_bind, run_get, run_bind in X.
  set (sg := upd_regs sf (rset (s_regs sf) 7 (new_init (s_pc sf)))) in X.
  pose proof (push_frame_depth (prefetch_pc sg) (w_data wv) FSubroutine sg) as [_ PF].
  destruct (push_frame (prefetch_pc sg) (w_data wv) FSubroutine sg) as [sh [[]|b]] eqn:PU; [|discriminate].
  cbn [fst] in PF.
  assert (Fg : s_frames sg = Some fs).
  { unfold sg, sf. cbn [upd_regs after_fetch upd_prefetch upd_pc s_frames]. rewrite Fk. exact F. }
  rewrite Fg in PF. destruct (s_frames sh) as [[|top fs']|] eqn:Fh; try contradiction.
  destruct PF as (E1 & E2 & E3 & E4). subst fs'.
  destruct (k_set_pc (new_init (w_data wv)) true sh) as [Fk2 _]. rewrite X in Fk2. cbn [fst] in Fk2.
  exists top. split; [rewrite Fk2; exact Fh|]. split; [|split; [|exact E4]].
  - rewrite E2. unfold prefetch_pc, sg, sf. cbn [upd_regs after_fetch upd_prefetch upd_pc s_pc s_prefetch].
    rewrite Pk. apply wrap16_succ_pred. exact PC.
  - rewrite E3. unfold wv, jsr_target, sf. destruct o as [off|br]; cbn [after_fetch upd_prefetch upd_pc s_pc s_regs w_data new_init].
    + rewrite Pk. reflexivity.
    + rewrite Rk. reflexivity.
Qed.
