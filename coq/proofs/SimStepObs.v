(* SimStepObs.v — C28 at the level of whole steps: a completed [step_in] that takes no interrupt
   is the fetch (one tracked read of the PC, from an emptied observer) followed by the
   instruction; so the observer after the step is READ at the PC plus exactly what the
   instruction adds (SimObs.v). *)
From Coq Require Import ZArith List Bool Lia FMapPositive.
From Gen Require Import Constants.
From Model Require Import Tree Bits Word Instr Sim.
From Proofs Require Import SimHoare SimAccess SimObs IrqProofs.
Import ListNotations.
Open Scope Z_scope.

(* the machine between fetch and execute: PC incremented, prefetch flag cleared *)
Definition after_fetch (s1 : sim) : sim := upd_prefetch (upd_pc s1 (wrap16 (s_pc s1 + 1))) false.

Lemma offset_pc_1 s : offset_pc 1 false s = (upd_pc s (wrap16 (s_pc s + 1)), inl tt).
Proof.
  unfold offset_pc. rewrite run_bind, run_get. unfold set_pc. rewrite run_bind, run_get, run_bind.
  unfold get_if_init, new_init, is_init. cbn [w_init w_data].
  rewrite Z.eqb_refl, orb_true_r. cbn [of_opt]. rewrite run_ret, andb_false_r. cbn [andb].
  rewrite run_bind, run_ret, run_modify. reflexivity.
Qed.

Lemma fetch_exec_decompose e s0 s' u :
  fetch_exec e s0 = (s', inl u) ->
  exists s1 w i s3,
    read_mem e (s_pc s0) (default_ctx s0) s0 = (s1, inl w) /\
    decode (w_data w) = DOk i /\
    exec e i (after_fetch s1) = (s3, inl tt) /\
    s' = upd_instrs s3 ((s_instrs s3 + 1) mod 18446744073709551616).
Proof.
  unfold fetch_exec. rewrite run_bind, run_get, run_bind.
  destruct (read_mem e (s_pc s0) (default_ctx s0) s0) as [s1 [w|b]] eqn:R; [|discriminate].
  rewrite run_bind. unfold get_if_init. destruct (negb (strict s0) || is_init w); cbn [of_opt]; [|discriminate].
  rewrite run_ret, run_bind. unfold decode_m.
  destruct (decode (w_data w)) as [i| | |] eqn:D; try discriminate.
  rewrite run_ret, run_bind, offset_pc_1, run_bind, run_modify, run_bind.
  fold (after_fetch s1).
  destruct (exec e i (after_fetch s1)) as [s3 [[]|b]] eqn:X; [|discriminate].
  rewrite run_modify. intros E. inversion E; subst.
  exists s1, w, i, s3. repeat split; assumption.
Qed.

Lemma step_in_of_inner e s s1 u : step_inner e (upd_obs s []) = (s1, inl u) -> step_in e s = (s1, OOk).
Proof. intros E. unfold step_in, step. rewrite E. destruct (negb (fl_real (s_flags s1))); reflexivity. Qed.

Theorem step_inner_decompose e s s' u :
  (forall v p, ~ takes_irq e s v p) -> step_inner e (upd_obs s []) = (s', inl u) ->
  exists s1 w i s3,
    read_mem e (s_pc s) (default_ctx s) (after_poll e (upd_obs s [])) = (s1, inl w) /\
    decode (w_data w) = DOk i /\
    s_obs (after_fetch s1) = [(s_pc s, OBS_READ)] /\
    exec e i (after_fetch s1) = (s3, inl tt) /\
    s_obs s' = s_obs s3.
Proof.
  intros NT.
  assert (NT' : forall v p, ~ takes_irq e (upd_obs s []) v p) by exact NT.
  rewrite (gate_not_taken e (upd_obs s []) NT').
  change (pending e (upd_obs s [])) with (pending e s).
  assert (K : fetch_exec e (after_poll e (upd_obs s [])) = (s', inl u) ->
    exists s1 w i s3,
    read_mem e (s_pc s) (default_ctx s) (after_poll e (upd_obs s [])) = (s1, inl w) /\
    decode (w_data w) = DOk i /\
    s_obs (after_fetch s1) = [(s_pc s, OBS_READ)] /\
    exec e i (after_fetch s1) = (s3, inl tt) /\
    s_obs s' = s_obs s3).
  { intros F. destruct (fetch_exec_decompose _ _ _ _ F) as (t1 & w & i & t3 & R & D & X & S'). subst.
    exists t1, w, i, t3. split; [exact R|split; [exact D|split; [|split; [exact X|reflexivity]]]].
    pose proof (read_ok_obs _ _ _ _ _ _ R eq_refl) as O. exact O. }
  destruct (pending e s) as [[v p|]|]; [exact K|discriminate|exact K].
Qed.

(* what a completed read keeps *)
Lemma read_mem_keeps e a c s s1 w : read_mem e a c s = (s1, inl w) ->
  s_pc s1 = s_pc s /\ s_regs s1 = s_regs s /\ ((IO_START <=? a) = false -> s_mem s1 = s_mem s).
Proof.
  unfold read_mem. destruct (negb (c_priv c) && negb (in_user a)); [discriminate|].
  intros E. inversion E as [[E1 E2]]. clear E E2.
  destruct (IO_START <=? a) eqn:IO.
  - destruct (assoc (s_ireg s) a) as [r|].
    + destruct (c_track c); cbn; repeat split; discriminate.
    + destruct (dev_read e (nth_dev (s_devs s) (port_dev a)) a (c_io c)) as [d' [data|]];
        destruct (c_track c); cbn; repeat split; discriminate.
  - destruct (c_track c); cbn; repeat split; reflexivity.
Qed.

(* a completed step of machine [s] that takes no interrupt, its fetch and the decoded instruction *)
Definition Completed (e : env) (s s' : sim) (u : unit) (s1 : sim) (w : word) (i : sim_instr) : Prop :=
  (forall v p, ~ takes_irq e s v p) /\
  step_inner e (upd_obs s []) = (s', inl u) /\
  read_mem e (s_pc s) (default_ctx s) (after_poll e (upd_obs s [])) = (s1, inl w) /\
  decode (w_data w) = DOk i.

Lemma step_exec e s s' u s1 w i : Completed e s s' u s1 w i ->
  exists s3, s_obs (after_fetch s1) = [(s_pc s, OBS_READ)] /\
  exec e i (after_fetch s1) = (s3, inl tt) /\ s_obs s' = s_obs s3.
Proof.
  intros (NT & STEP & FETCH & DEC).
  destruct (step_inner_decompose e s s' u NT STEP) as (t1 & w' & i' & t3 & R & D & O & X & S').
  rewrite FETCH in R. inversion R; subst t1 w'. rewrite DEC in D. inversion D; subst i'.
  exists t3. auto.
Qed.

Theorem step_obs_no_operand e s s' u s1 w i : Completed e s s' u s1 w i ->
  no_mem_operand i = true -> s_obs s' = [(s_pc s, OBS_READ)].
Proof.
  intros C N. destruct (step_exec _ _ _ _ _ _ _ C) as (s3 & O & X & S'). rewrite S'.
  pose proof (exec_obs_neutral e i _ N (after_fetch s1) O) as H. unfold OBS in H. rewrite X in H. exact H.
Qed.

Theorem step_obs_ld e s s' u s1 w dr off : Completed e s s' u s1 w (SLD dr off) ->
  s_obs s' = obs_update [(s_pc s, OBS_READ)] (wrap16 (wrap16 (s_pc s + 1) + off)) OBS_READ.
Proof.
  intros C. destruct (step_exec _ _ _ _ _ _ _ C) as (s3 & O & X & S'). rewrite S'.
  destruct C as (_ & _ & FETCH & _). destruct (read_mem_keeps _ _ _ _ _ _ FETCH) as (Pk & _ & _).
  pose proof (exec_obs_ld _ _ _ _ _ _ X) as H. rewrite O in H.
  cbn [after_fetch upd_prefetch upd_pc s_pc] in H. rewrite Pk in H. exact H.
Qed.

Theorem step_obs_ldr e s s' u s1 w dr br off : Completed e s s' u s1 w (SLDR dr br off) ->
  s_obs s' = obs_update [(s_pc s, OBS_READ)] (wrap16 (w_data (rget (s_regs s) br) + off)) OBS_READ.
Proof.
  intros C. destruct (step_exec _ _ _ _ _ _ _ C) as (s3 & O & X & S'). rewrite S'.
  destruct C as (_ & _ & FETCH & _). destruct (read_mem_keeps _ _ _ _ _ _ FETCH) as (_ & Rk & _).
  pose proof (exec_obs_ldr _ _ _ _ _ _ _ X) as H. rewrite O in H.
  cbn [after_fetch upd_prefetch upd_pc s_regs] in H. rewrite Rk in H. exact H.
Qed.

Theorem step_obs_st e s s' u s1 w sr off : Completed e s s' u s1 w (SST sr off) ->
  (IO_START <=? s_pc s) = false ->
  let ea := wrap16 (wrap16 (s_pc s + 1) + off) in
  (IO_START <=? ea) = false ->
  s_obs s' = let o := obs_update [(s_pc s, OBS_READ)] ea OBS_WRITTEN in
             if word_eqb (mget (s_mem s) ea) (rget (s_regs s) sr) then o else obs_update o ea OBS_MODIFIED.
Proof.
  intros C PIO ea IO. destruct (step_exec _ _ _ _ _ _ _ C) as (s3 & O & X & S'). rewrite S'.
  destruct C as (_ & _ & FETCH & _).
  destruct (read_mem_keeps _ _ _ _ _ _ FETCH) as (Pk & Rk & Mm). specialize (Mm PIO).
  pose proof (exec_obs_st _ _ _ _ _ _ X) as H. cbv zeta in H. rewrite O in H.
  cbn [after_fetch upd_prefetch upd_pc s_mem s_regs s_pc] in H. rewrite Pk, Rk, Mm in H.
  exact (H IO).
Qed.

Theorem step_obs_str e s s' u s1 w sr br off : Completed e s s' u s1 w (SSTR sr br off) ->
  (IO_START <=? s_pc s) = false ->
  let ea := wrap16 (w_data (rget (s_regs s) br) + off) in
  (IO_START <=? ea) = false ->
  s_obs s' = let o := obs_update [(s_pc s, OBS_READ)] ea OBS_WRITTEN in
             if word_eqb (mget (s_mem s) ea) (rget (s_regs s) sr) then o else obs_update o ea OBS_MODIFIED.
Proof.
  intros C PIO ea IO. destruct (step_exec _ _ _ _ _ _ _ C) as (s3 & O & X & S'). rewrite S'.
  destruct C as (_ & _ & FETCH & _).
  destruct (read_mem_keeps _ _ _ _ _ _ FETCH) as (Pk & Rk & Mm). specialize (Mm PIO).
  pose proof (exec_obs_str _ _ _ _ _ _ _ X) as H. cbv zeta in H. rewrite O in H.
  cbn [after_fetch upd_prefetch upd_pc s_mem s_regs s_pc] in H. rewrite Rk, Mm in H.
  exact (H IO).
Qed.

(* non-vacuity: a user-mode machine executing `ST R0, #1` (x3001) at x3000 with R0 = 5 over a zero
   word: the step completes, no interrupt is taken (no devices), and the observer holds exactly
   READ at x3000 and WRITTEN+MODIFIED at x3002 *)
Definition ex_st_state : sim :=
  mkSim (mset (mkMem (PositiveMap.empty word) (new_init 0)) 12288 (new_init 12289))
        (new_init 5 :: repeat (new_init 0) 7) 12288 32770 (new_init 12288) 0 None [] [] 0 false [(7, 7)] true
        (mkFlags false false false false) [] [].
Definition ex_env : env := mkEnv false false [].
Example ex_st_step :
  (forall v p, ~ takes_irq ex_env ex_st_state v p) /\
  (exists s', step_inner ex_env (upd_obs ex_st_state []) = (s', inl tt) /\
              step_in ex_env ex_st_state = (s', OOk) /\
              (exists s1 w, Completed ex_env ex_st_state s' tt s1 w (SST 0 1)) /\
              s_obs s' = [(12288, OBS_READ); (12290, Z.lor OBS_WRITTEN OBS_MODIFIED)] /\
              mget (s_mem s') 12290 = new_init 5).
Proof.
  split.
  - intros v p [H _]. vm_compute in H. discriminate H.
  - eexists. split; [vm_compute; reflexivity|]. split; [vm_compute; reflexivity|]. split.
    + eexists. eexists. split; [intros v p [H _]; vm_compute in H; discriminate H|].
      split; [vm_compute; reflexivity|]. split; vm_compute; reflexivity.
    + split; vm_compute; reflexivity.
Qed.

(* the value of a completed read of ordinary memory *)
Lemma read_mem_value e a c s s1 w : read_mem e a c s = (s1, inl w) -> (IO_START <=? a) = false -> w = mget (s_mem s) a.
Proof.
  unfold read_mem. destruct (negb (c_priv c) && negb (in_user a)); [discriminate|]. intros E IO. rewrite IO in E.
  inversion E. destruct (c_track c); reflexivity.
Qed.

(* LDI / STI whose pointer cell lies in ordinary memory: the pointer is the word stored there before the step *)
Theorem step_obs_ldi e s s' u s1 w dr off : Completed e s s' u s1 w (SLDI dr off) ->
  (IO_START <=? s_pc s) = false ->
  let pa := wrap16 (wrap16 (s_pc s + 1) + off) in
  (IO_START <=? pa) = false ->
  s_obs s' = obs_update (obs_update [(s_pc s, OBS_READ)] pa OBS_READ) (w_data (mget (s_mem s) pa)) OBS_READ.
Proof.
  intros C PIO pa IO. destruct (step_exec _ _ _ _ _ _ _ C) as (s3 & O & X & S'). rewrite S'.
  destruct C as (_ & _ & FETCH & _).
  destruct (read_mem_keeps _ _ _ _ _ _ FETCH) as (Pk & Rk & Mm). specialize (Mm PIO).
  destruct (exec_obs_ldi _ _ _ _ _ _ X) as (t & w2 & R2 & H). rewrite O in H.
  cbn [after_fetch upd_prefetch upd_pc s_pc] in R2, H. rewrite Pk in R2, H. fold pa in R2, H.
  rewrite (read_mem_value _ _ _ _ _ _ R2 IO) in H. cbn [after_fetch upd_prefetch upd_pc s_mem] in H. rewrite Mm in H. exact H.
Qed.

Theorem step_obs_sti e s s' u s1 w sr off : Completed e s s' u s1 w (SSTI sr off) ->
  (IO_START <=? s_pc s) = false ->
  let pa := wrap16 (wrap16 (s_pc s + 1) + off) in
  (IO_START <=? pa) = false ->
  let ea := w_data (mget (s_mem s) pa) in
  (IO_START <=? ea) = false ->
  s_obs s' = let o := obs_update (obs_update [(s_pc s, OBS_READ)] pa OBS_READ) ea OBS_WRITTEN in
             if word_eqb (mget (s_mem s) ea) (rget (s_regs s) sr) then o else obs_update o ea OBS_MODIFIED.
Proof.
  intros C PIO pa IO ea EIO. destruct (step_exec _ _ _ _ _ _ _ C) as (s3 & O & X & S'). rewrite S'.
  destruct C as (_ & _ & FETCH & _).
  destruct (read_mem_keeps _ _ _ _ _ _ FETCH) as (Pk & Rk & Mm). specialize (Mm PIO).
  destruct (exec_obs_sti _ _ _ _ _ _ X) as (t & w2 & R2 & H). rewrite O in H.
  cbn [after_fetch upd_prefetch upd_pc s_pc] in R2, H. rewrite Pk in R2, H. fold pa in R2, H.
  pose proof (read_mem_value _ _ _ _ _ _ R2 IO) as V. cbn [after_fetch upd_prefetch upd_pc s_mem] in V. rewrite Mm in V.
  destruct (read_mem_keeps _ _ _ _ _ _ R2) as (_ & Rk2 & Mm2). specialize (Mm2 IO).
  cbn [after_fetch upd_prefetch upd_pc s_regs s_mem] in Rk2, Mm2. rewrite Rk in Rk2. rewrite Mm in Mm2.
  subst w2. fold ea in H. rewrite Rk2, Mm2 in H. exact (H EIO).
Qed.
