(* SimStepObs2.v — C28 at step level for RTI and for steps that take an interrupt. *)
From Coq Require Import ZArith List Bool Lia.
From Gen Require Import Constants.
From Model Require Import Tree Bits Word Instr Sim.
From Proofs Require Import SimHoare SimAccess SimObs IrqProofs SimStepObs SimObsEntry.
Import ListNotations.
Open Scope Z_scope.

Theorem step_obs_rti e s s' u s1 w : Completed e s s' u s1 w SRTI ->
  let sp := w_data (rget (s_regs s) 6) in
  s_obs s' = obs_update (obs_update [(s_pc s, OBS_READ)] sp OBS_READ) (wrap16 (sp + 1)) OBS_READ.
Proof.
  intros C sp. destruct (step_exec _ _ _ _ _ _ _ C) as (s3 & O & X & S'). rewrite S'.
  destruct C as (_ & _ & FETCH & _). destruct (read_mem_keeps _ _ _ _ _ _ FETCH) as (_ & Rk & _).
  pose proof (exec_obs_rti _ _ _ _ X) as H. cbv zeta in H. rewrite O in H.
  cbn [after_fetch upd_prefetch upd_pc s_regs] in H. rewrite Rk in H. exact H.
Qed.

(* a step that takes an interrupt: nothing is fetched; the observer holds exactly the entry's marks *)
Theorem step_obs_interrupt e s s' u v p :
  length (s_regs s) = 8%nat -> takes_irq e s v p ->
  step_inner e (upd_obs s []) = (s', inl u) ->
  let a1 := wrap16 (entry_sp s - 1) in let a2 := wrap16 (entry_sp s - 2) in
  (IO_START <=? a1) = false -> (IO_START <=? a2) = false -> (IO_START <=? 256 + v) = false ->
  s_obs s' = obs_update (wmark (wmark [] a1 (mget (s_mem s) a1) (new_init (s_psr s)))
                                a2 (mget (s_mem s) a2) (new_init (s_pc s))) (256 + v) OBS_READ.
Proof.
  intros L T STEP a1 a2 IO1 IO2 IOV.
  assert (T' : takes_irq e (upd_obs s []) v p) by exact T.
  destruct T' as [Hp Hg]. rewrite step_inner_cases, Hp in STEP.
  pose proof Hg as Hg'. apply Z.ltb_lt in Hg'. rewrite Hg' in STEP.
  exact (interrupt_entry_obs e (256 + v) p (after_poll e (upd_obs s [])) s' u L Hg STEP IO1 IO2 IOV).
Qed.

Lemma read_mem_keeps2 e a c s s1 w : read_mem e a c s = (s1, inl w) ->
  s_psr s1 = s_psr s /\ s_saved_sp s1 = s_saved_sp s /\ s_flags s1 = s_flags s.
Proof.
  unfold read_mem. destruct (negb (c_priv c) && negb (in_user a)); [discriminate|].
  intros E. inversion E as [[E1 E2]]. clear E E2.
  destruct (IO_START <=? a).
  - destruct (assoc (s_ireg s) a) as [r|].
    + destruct (c_track c); cbn; repeat split; reflexivity.
    + destruct (dev_read e (nth_dev (s_devs s) (port_dev a)) a (c_io c)) as [d' [data|]];
        destruct (c_track c); cbn; repeat split; reflexivity.
  - destruct (c_track c); cbn; repeat split; reflexivity.
Qed.

(* a TRAP that enters the OS (real traps, or a vector without virtual short-cut): fetch, two pushes, vector read *)
Theorem step_obs_trap e s s' u s1 w v : Completed e s s' u s1 w (STRAP v) ->
  length (s_regs s) = 8%nat -> (IO_START <=? s_pc s) = false ->
  let a1 := wrap16 (entry_sp s - 1) in let a2 := wrap16 (entry_sp s - 2) in
  (IO_START <=? a1) = false -> (IO_START <=? a2) = false -> (IO_START <=? v) = false ->
  s_obs s' = obs_update (wmark (wmark [(s_pc s, OBS_READ)] a1 (mget (s_mem s) a1) (new_init (s_psr s)))
                                a2 (mget (s_mem s) a2) (new_init (wrap16 (s_pc s + 1)))) v OBS_READ.
Proof.
  intros C L PIO a1 a2 IO1 IO2 IOV. destruct (step_exec _ _ _ _ _ _ _ C) as (s3 & O & X & S'). rewrite S'.
  destruct C as (_ & _ & FETCH & _).
  destruct (read_mem_keeps _ _ _ _ _ _ FETCH) as (Pk & Rk & Mm). specialize (Mm PIO).
  destruct (read_mem_keeps2 _ _ _ _ _ _ FETCH) as (Psr & Ssp & _).
  unfold exec in X. rewrite run_bind, run_get in X. cbv zeta in X.
  assert (L' : length (s_regs (after_fetch s1)) = 8%nat).
  { cbn [after_fetch upd_prefetch upd_pc s_regs]. rewrite Rk. exact L. }
  assert (ESP : entry_sp (after_fetch s1) = entry_sp s).
  { unfold entry_sp. cbn [after_fetch upd_prefetch upd_pc s_psr s_regs s_saved_sp]. rewrite Psr, Rk, Ssp. reflexivity. }
  pose proof (trap_entry_obs e v (after_fetch s1) s3 tt L' X) as H. cbv zeta in H.
  rewrite ESP in H. fold a1 a2 in H. specialize (H IO1 IO2 IOV). rewrite O in H.
  cbn [after_fetch upd_prefetch upd_pc s_mem s_psr s_pc] in H. rewrite Mm, Psr, Pk in H. exact H.
Qed.
