(* SimStrict.v — C14: strict mode only adds uninitialised-value errors.
   [unstrict s] is s with the strict flag cleared.  [Rel m1 m2 s]: running m1 from s (strict
   world) either fails with a strict error, or m2 from [unstrict s] ends in the [unstrict] of the
   same state with the same result.  Proved for every primitive, lifted through bind, for every
   instruction, trap/interrupt entry, and the whole step. *)
From Coq Require Import ZArith List Bool Lia.
From Gen Require Import Constants.
From Model Require Import Tree Bits Word Instr Sim.
From Proofs Require Import SimHoare.
Import ListNotations.
Open Scope Z_scope.

Definition unstrict_flags (f : flags) : flags := mkFlags false (fl_real f) (fl_debug_frames f) (fl_ignore_priv f).
Definition unstrict (s : sim) : sim :=
  mkSim (s_mem s) (s_regs s) (s_pc s) (s_psr s) (s_saved_sp s) (s_frame_no s) (s_frames s) (s_sr_defns s)
        (s_alloca s) (s_instrs s) (s_prefetch s) (s_obs s) (s_mcr s) (unstrict_flags (s_flags s)) (s_ireg s) (s_devs s).

Definition strict_brk (b : brk) : bool := match b with BErr e => is_strict_err e | _ => false end.

Definition Rel {A} (m1 m2 : M A) (s : sim) : Prop :=
  match m1 s with
  | (s1, inl a) => m2 (unstrict s) = (unstrict s1, inl a)
  | (s1, inr b) => strict_brk b = true \/ m2 (unstrict s) = (unstrict s1, inr b)
  end.

Lemma rel_ret {A} (a : A) s : Rel (ret a) (ret a) s. Proof. reflexivity. Qed.
Lemma rel_fail {A} b s : Rel (@fail A b) (@fail A b) s. Proof. right. reflexivity. Qed.
Lemma rel_err {A} e s : Rel (@err A e) (@err A e) s. Proof. right. reflexivity. Qed.
Lemma rel_strict_err {A} e (m2 : M A) s : is_strict_err e = true -> Rel (@err A e) m2 s.
Proof. intros H. left. exact H. Qed.

Lemma rel_bind {A B} (m1 m2 : M A) (k1 k2 : A -> M B) s :
  Rel m1 m2 s -> (forall a s1, m1 s = (s1, inl a) -> Rel (k1 a) (k2 a) s1) -> Rel (bind m1 k1) (bind m2 k2) s.
Proof.
  unfold Rel, bind. intros Hm Hk. destruct (m1 s) as [s1 [a|b]] eqn:E.
  - rewrite Hm. exact (Hk a s1 eq_refl).
  - destruct Hm as [Hm|Hm]; [left; exact Hm|]. right. rewrite Hm. reflexivity.
Qed.
Lemma rel_get {B} (k1 k2 : sim -> M B) s : Rel (k1 s) (k2 (unstrict s)) s -> Rel (bind get k1) (bind get k2) s.
Proof. unfold Rel, bind, get. auto. Qed.
Lemma rel_modify f s : unstrict (f s) = f (unstrict s) -> Rel (modify f) (modify f) s.
Proof. unfold Rel, modify. intros H. rewrite H. reflexivity. Qed.
Lemma rel_modify2 f1 f2 s : unstrict (f1 s) = f2 (unstrict s) -> Rel (modify f1) (modify f2) s.
Proof. unfold Rel, modify. intros H. rewrite H. reflexivity. Qed.

(* ---------- primitives ---------- *)
Definition ctx_lax (c : ctx) : ctx := mkCtx (c_priv c) false (c_io c) (c_track c).

Lemma read_unstrict e a c c' s :
  c_priv c' = c_priv c -> c_io c' = c_io c -> c_track c' = c_track c ->
  read_mem e a c' (unstrict s) = (unstrict (fst (read_mem e a c s)), snd (read_mem e a c s)).
Proof.
  intros P I T. unfold read_mem. rewrite P, I, T.
  destruct (negb (c_priv c) && negb (in_user a)); [reflexivity|].
  destruct (IO_START <=? a).
  - change (s_ireg (unstrict s)) with (s_ireg s). destruct (assoc (s_ireg s) a) as [r|].
    + destruct r; destruct (c_track c); reflexivity.
    + change (s_devs (unstrict s)) with (s_devs s).
      destruct (dev_read e (nth_dev (s_devs s) (port_dev a)) a (c_io c)) as [d' [v|]]; destruct (c_track c); reflexivity.
  - destruct (c_track c); reflexivity.
Qed.
Lemma rel_read e a c c' s :
  c_priv c' = c_priv c -> c_io c' = c_io c -> c_track c' = c_track c ->
  Rel (read_mem e a c) (read_mem e a c') s.
Proof.
  intros P I T. unfold Rel. rewrite (read_unstrict e a c c' s P I T).
  destruct (read_mem e a c s) as [s1 [w|b]]; [reflexivity|right; reflexivity].
Qed.

Lemma rel_write e a w c c' s :
  c_priv c' = c_priv c -> c_strict c' = false -> c_io c' = c_io c -> c_track c' = c_track c ->
  Rel (write_mem e a w c) (write_mem e a w c') s.
Proof.
  intros P S I T. unfold Rel, write_mem. rewrite P, S, T.
  destruct (negb (c_priv c) && negb (in_user a)); [right; reflexivity|].
  unfold get_if_init, set_if_init. cbn [negb orb].
  change (s_ireg (unstrict s)) with (s_ireg s). change (s_devs (unstrict s)) with (s_devs s).
  destruct (c_strict c) eqn:CS; cbn [negb orb].
  - destruct (is_init w) eqn:IW.
    + destruct (IO_START <=? a).
      * destruct (assoc (s_ireg s) a) as [r|].
        -- destruct r; destruct (c_track c); reflexivity.
        -- destruct (dev_write e (nth_dev (s_devs s) (port_dev a)) a (w_data w)) as [d' [|]]; [destruct (c_track c)|]; reflexivity.
      * destruct (c_track c); reflexivity.
    + destruct (IO_START <=? a); [left; reflexivity|]. destruct (c_track c); left; reflexivity.
  - destruct (IO_START <=? a).
    + destruct (assoc (s_ireg s) a) as [r|].
      * destruct r; destruct (c_track c); reflexivity.
      * destruct (dev_write e (nth_dev (s_devs s) (port_dev a)) a (w_data w)) as [d' [|]]; [destruct (c_track c)|]; reflexivity.
    + destruct (c_track c); reflexivity.
Qed.

Lemma rel_get_if_init w st e s : is_strict_err e = true ->
  Rel (of_opt (get_if_init w st) e) (of_opt (get_if_init w false) e) s.
Proof.
  intros H. unfold get_if_init. destruct st; cbn [negb orb]; [|apply rel_ret].
  destruct (is_init w); [apply rel_ret | apply rel_strict_err; exact H].
Qed.
Lemma rel_set_if_init w st e s : is_strict_err e = true ->
  Rel (of_opt (set_if_init w st) e) (of_opt (set_if_init w false) e) s.
Proof.
  intros H. unfold set_if_init. destruct st; cbn [negb orb]; [|apply rel_ret].
  destruct (is_init w); [apply rel_ret | apply rel_strict_err; exact H].
Qed.

Lemma rel_set_reg dr v st s : Rel (set_reg_if_init dr v st) (set_reg_if_init dr v false) s.
Proof.
  unfold set_reg_if_init. apply rel_bind; [apply rel_set_if_init; reflexivity|].
  intros w s1 _. apply rel_modify. reflexivity.
Qed.
Lemma rel_set_cc r s : Rel (set_cc r) (set_cc r) s.
Proof. unfold set_cc. apply rel_modify. reflexivity. Qed.

Lemma rel_set_pc w b s : Rel (set_pc w b) (set_pc w b) s.
Proof.
  unfold set_pc. apply rel_get. change (strict (unstrict s)) with false.
  apply rel_bind; [apply rel_get_if_init; reflexivity|]. intros addr s1 _.
  apply rel_bind.
  - cbn [andb]. destruct (strict s && b && negb (is_init (mget (s_mem s) addr))); [apply rel_strict_err; reflexivity | apply rel_ret].
  - intros _ s2 _. apply rel_modify. reflexivity.
Qed.
Lemma rel_offset_pc o b s : Rel (offset_pc o b) (offset_pc o b) s.
Proof. unfold offset_pc. apply rel_get. apply rel_set_pc. Qed.

Lemma rel_push_frame a b f s : Rel (push_frame a b f) (push_frame a b f) s.
Proof.
  unfold push_frame. apply rel_modify.
  change (s_frames (unstrict s)) with (s_frames s). destruct (s_frames s) as [fs|]; [|reflexivity].
  change (s_sr_defns (unstrict s)) with (s_sr_defns s).
  destruct (match f with FSubroutine => _ | FTrap => _ | FInterrupt => _ end) as [[k|rs]|]; reflexivity.
Qed.
Lemma rel_pop_frame s : Rel pop_frame pop_frame s.
Proof. unfold pop_frame. apply rel_modify. reflexivity. Qed.
Lemma rel_swap_sp s : Rel swap_sp swap_sp s.
Proof. unfold swap_sp. apply rel_modify. reflexivity. Qed.

Lemma rel_call_subroutine addr s : Rel (call_subroutine addr) (call_subroutine addr) s.
Proof.
  unfold call_subroutine. apply rel_bind; [apply rel_modify; reflexivity|]. intros _ s1 _.
  apply rel_get. apply rel_bind; [apply rel_push_frame|]. intros _ s2 _. apply rel_set_pc.
Qed.

Lemma default_ctx_unstrict s :
  c_priv (default_ctx (unstrict s)) = c_priv (default_ctx s) /\ c_strict (default_ctx (unstrict s)) = false
  /\ c_io (default_ctx (unstrict s)) = c_io (default_ctx s) /\ c_track (default_ctx (unstrict s)) = c_track (default_ctx s).
Proof. repeat split. Qed.

Lemma rel_call_interrupt e vect ft s : Rel (call_interrupt e vect ft) (call_interrupt e vect ft) s.
Proof.
  unfold call_interrupt. apply rel_get. apply rel_bind; [apply rel_read; reflexivity|]. intros w s1 _.
  apply rel_get. change (strict (unstrict s1)) with false.
  apply rel_bind; [apply rel_get_if_init; reflexivity|]. intros addr s2 _.
  apply rel_bind; [apply rel_push_frame|]. intros _ s3 _. apply rel_set_pc.
Qed.

Ltac rel_prims :=
  first [ apply rel_ret | apply rel_err | apply rel_fail | apply rel_set_reg | apply rel_set_cc | apply rel_set_pc
        | apply rel_offset_pc | apply rel_push_frame | apply rel_pop_frame | apply rel_swap_sp
        | apply rel_call_subroutine | apply rel_call_interrupt
        | (apply rel_read; reflexivity) | (apply rel_write; reflexivity)
        | (apply rel_get_if_init; reflexivity) | (apply rel_modify; reflexivity) ].

Lemma rel_handle_interrupt e vect prio s : Rel (handle_interrupt e vect prio) (handle_interrupt e vect prio) s.
Proof.
  unfold handle_interrupt. apply rel_get.
  change (s_psr (unstrict s)) with (s_psr s). change (s_prefetch (unstrict s)) with (s_prefetch s).
  change (fl_real (s_flags (unstrict s))) with (fl_real (s_flags s)).
  destruct prio as [p|].
  - destruct (p <=? psr_priority (s_psr s)); [apply rel_ret|].
    apply rel_bind; [destruct (negb (psr_privileged (s_psr s))); rel_prims|]. intros _ s1 _.
    apply rel_get. change (s_psr (unstrict s1)) with (s_psr s1). change (s_pc (unstrict s1)) with (s_pc s1).
    apply rel_bind; [rel_prims|]. intros _ s2 _. apply rel_get.
    change (strict (unstrict s2)) with false. change (s_regs (unstrict s2)) with (s_regs s2).
    apply rel_bind; [rel_prims|]. intros sp s3 _.
    apply rel_bind; [rel_prims|]. intros _ s4 _.
    apply rel_bind; [rel_prims|]. intros _ s5 _.
    apply rel_bind; [rel_prims|]. intros _ s6 _.
    apply rel_bind; [rel_prims|]. intros _ s7 _. rel_prims.
  - destruct (if fl_real (s_flags s) then None else real_int_vect vect) as [b|].
    + apply rel_bind.
      * destruct (negb (s_prefetch s)); [|rel_prims]. apply rel_bind; [rel_prims|]. intros _ s1 _. rel_prims.
      * intros _ s1 _. rel_prims.
    + apply rel_bind; [destruct (negb (psr_privileged (s_psr s))); rel_prims|]. intros _ s1 _.
      apply rel_get. change (s_psr (unstrict s1)) with (s_psr s1). change (s_pc (unstrict s1)) with (s_pc s1).
      apply rel_bind; [rel_prims|]. intros _ s2 _. apply rel_get.
      change (strict (unstrict s2)) with false. change (s_regs (unstrict s2)) with (s_regs s2).
      apply rel_bind; [rel_prims|]. intros sp s3 _.
      apply rel_bind; [rel_prims|]. intros _ s4 _.
      apply rel_bind; [rel_prims|]. intros _ s5 _.
      apply rel_bind; [rel_prims|]. intros _ s6 _.
      apply rel_bind; [rel_prims|]. intros _ s7 _. rel_prims.
Qed.

Ltac norm_unstrict s :=
  change (strict (unstrict s)) with false;
  change (s_regs (unstrict s)) with (s_regs s); change (s_pc (unstrict s)) with (s_pc s);
  change (s_psr (unstrict s)) with (s_psr s); change (in_alloca (unstrict s)) with (in_alloca s);
  change (fl_ignore_priv (s_flags (unstrict s))) with (fl_ignore_priv (s_flags s));
  change (operand (unstrict s)) with (operand s).

Lemma rel_write_ctx e a w s0 st s :
  Rel (write_mem e a w (mkCtx (c_priv (default_ctx s0)) st (c_io (default_ctx s0)) (c_track (default_ctx s0))))
      (write_mem e a w (mkCtx (c_priv (default_ctx (unstrict s0))) false (c_io (default_ctx (unstrict s0))) (c_track (default_ctx (unstrict s0))))) s.
Proof. apply rel_write; reflexivity. Qed.

Lemma rel_exec e i s : Rel (exec e i) (exec e i) s.
Proof.
  unfold exec. apply rel_get. cbv zeta. norm_unstrict s. cbn [andb].
  destruct i as [cc off|dr sr1 o|dr off|sr off|o|dr sr1 o|dr br off|sr br off| |dr sr|dr off|sr off|br|dr off|v].
  - destruct (negb (Z.land cc (psr_cc (s_psr s)) =? 0)); rel_prims.
  - apply rel_bind; [rel_prims|]. intros _ s1 _. rel_prims.
  - apply rel_bind; [rel_prims|]. intros v s1 _. apply rel_bind; [rel_prims|]. intros _ s2 _. rel_prims.
  - apply rel_write_ctx.
  - apply rel_bind; [rel_prims|]. intros addr s1 _. rel_prims.
  - apply rel_bind; [rel_prims|]. intros _ s1 _. rel_prims.
  - apply rel_bind; [rel_prims|]. intros b s1 _. apply rel_bind; [rel_prims|]. intros v s2 _.
    apply rel_bind; [rel_prims|]. intros _ s3 _. rel_prims.
  - apply rel_bind; [rel_prims|]. intros b s1 _. apply rel_write_ctx.
  - destruct (psr_privileged (s_psr s) || fl_ignore_priv (s_flags s)); [|rel_prims].
    apply rel_bind; [rel_prims|]. intros sp s1 _.
    apply rel_bind; [rel_prims|]. intros w1 s2 _.
    apply rel_bind; [rel_prims|]. intros pc s3 _.
    apply rel_bind; [rel_prims|]. intros w2 s4 _.
    apply rel_bind; [rel_prims|]. intros psr s5 _.
    apply rel_bind; [rel_prims|]. intros _ s6 _.
    apply rel_bind; [rel_prims|]. intros _ s7 _.
    apply rel_bind; [rel_prims|]. intros _ s8 _.
    apply rel_bind; [destruct (negb (psr_privileged psr)); rel_prims|]. intros _ s9 _. rel_prims.
  - apply rel_bind; [rel_prims|]. intros _ s1 _. rel_prims.
  - apply rel_bind; [rel_prims|]. intros w s1 _. apply rel_bind; [rel_prims|]. intros ea s2 _.
    apply rel_get. norm_unstrict s2. cbv zeta. cbn [andb].
    apply rel_bind; [rel_prims|]. intros v s3 _. apply rel_bind; [rel_prims|]. intros _ s4 _. rel_prims.
  - apply rel_bind; [rel_prims|]. intros w s1 _. apply rel_bind; [rel_prims|]. intros ea s2 _.
    apply rel_get. norm_unstrict s2. cbv zeta. cbn [andb]. apply rel_write_ctx.
  - apply rel_bind; [rel_prims|]. intros _ s1 _. destruct (br =? 7); rel_prims.
  - rel_prims.
  - apply rel_handle_interrupt.
Qed.

Lemma rel_decode_m w s : Rel (decode_m w) (decode_m w) s.
Proof. unfold decode_m. destruct (decode w); rel_prims. Qed.

Lemma rel_step_inner e s : Rel (step_inner e) (step_inner e) s.
Proof.
  unfold step_inner. apply rel_bind; [rel_prims|]. intros _ s1 _. apply rel_get.
  change (s_devs (unstrict s1)) with (s_devs s1). change (s_psr (unstrict s1)) with (s_psr s1).
  destruct (poll_all e (s_devs s1) (e_draws e) None) as [[ds i] rest].
  apply rel_bind; [rel_prims|]. intros _ s2 _. cbv zeta.
  assert (FE : forall s', Rel
     (s <- get;; w <- read_mem e (s_pc s) (default_ctx s);; word <- of_opt (get_if_init w (strict s)) StrictPCCurrUninit;;
      instr <- decode_m word;; offset_pc 1 false;;; modify (fun s0 => upd_prefetch s0 false);;; exec e instr;;;
      modify (fun s0 => upd_instrs s0 ((s_instrs s0 + 1) mod 18446744073709551616)))
     (s <- get;; w <- read_mem e (s_pc s) (default_ctx s);; word <- of_opt (get_if_init w (strict s)) StrictPCCurrUninit;;
      instr <- decode_m word;; offset_pc 1 false;;; modify (fun s0 => upd_prefetch s0 false);;; exec e instr;;;
      modify (fun s0 => upd_instrs s0 ((s_instrs s0 + 1) mod 18446744073709551616))) s').
  { intros s'. apply rel_get. norm_unstrict s'.
    apply rel_bind; [rel_prims|]. intros w s3 _. apply rel_bind; [rel_prims|]. intros word s4 _.
    apply rel_bind; [apply rel_decode_m|]. intros instr s5 _. apply rel_bind; [rel_prims|]. intros _ s6 _.
    apply rel_bind; [rel_prims|]. intros _ s7 _. apply rel_bind; [apply rel_exec|]. intros _ s8 _. rel_prims. }
  destruct i as [[vect prio|]|].
  - destruct (psr_priority (s_psr s1) <? prio); [apply rel_handle_interrupt | apply FE].
  - rel_prims.
  - apply FE.
Qed.

Lemma rel_step e s : Rel (step e) (step e) s.
Proof.
  unfold Rel, step. pose proof (rel_step_inner e s) as R. unfold Rel in R.
  destruct (step_inner e s) as [s1 r] eqn:E.
  destruct r as [u|b].
  - rewrite R. change (fl_real (s_flags (unstrict s1))) with (fl_real (s_flags s1)).
    destruct (negb (fl_real (s_flags s1))); reflexivity.
  - destruct (negb (fl_real (s_flags s1))) eqn:RF.
    + destruct R as [R|R]; [left; exact R|]. right. rewrite R.
      change (fl_real (s_flags (unstrict s1))) with (fl_real (s_flags s1)). rewrite RF. reflexivity.
    + (* real traps: the redirected errors are never strict errors, so the non-strict run took the same branch *)
      assert (RH : forall v, match handle_interrupt e v None s1 with
                            | (s2, inl a) => handle_interrupt e v None (unstrict s1) = (unstrict s2, inl a)
                            | (s2, inr b') => strict_brk b' = true \/ handle_interrupt e v None (unstrict s1) = (unstrict s2, inr b')
                            end) by (intros v; exact (rel_handle_interrupt e v None s1)).
      destruct b as [ |x| ].
      * destruct R as [R|R]; [discriminate R|]. rewrite R.
        change (fl_real (s_flags (unstrict s1))) with (fl_real (s_flags s1)). rewrite RF. exact (RH 37).
      * destruct x; try (destruct R as [R|R]; [discriminate R|]; rewrite R;
          change (fl_real (s_flags (unstrict s1))) with (fl_real (s_flags s1)); rewrite RF;
          first [exact (RH 256) | exact (RH 257) | exact (RH 258) | (right; reflexivity)]);
          left; reflexivity.
      * destruct R as [R|R]; [discriminate R|]. rewrite R.
        change (fl_real (s_flags (unstrict s1))) with (fl_real (s_flags s1)). rewrite RF. right. reflexivity.
Qed.

(* the statement on step_in *)
Theorem strict_step_simulation e s :
  match step_in e s with
  | (s1, OErr x) => is_strict_err x = true \/ step_in e (unstrict s) = (unstrict s1, OErr x)
  | (s1, o) => step_in e (unstrict s) = (unstrict s1, o)
  end.
Proof.
  unfold step_in. pose proof (rel_step e (upd_obs s [])) as R. unfold Rel in R.
  change (unstrict (upd_obs s [])) with (upd_obs (unstrict s) []) in R.
  destruct (step e (upd_obs s [])) as [s1 [u|b]].
  - rewrite R. reflexivity.
  - destruct b as [ |x| ].
    + destruct R as [R|R]; [discriminate R|]. rewrite R. reflexivity.
    + destruct R as [R|R]; [left; exact R|]. right. rewrite R. reflexivity.
    + destruct R as [R|R]; [discriminate R|]. rewrite R. reflexivity.
Qed.
