(* SimStrictRun.v — C14 over runs: a run of a strict machine in which no step reports a strict
   (uninitialised-value) error is, step for step, the run of the same machine with strict mode off:
   same outcomes, same states up to the flag. *)
From Coq Require Import ZArith List Bool Lia.
From Model Require Import Tree Bits Word Instr Sim.
From Proofs Require Import SimHoare SimNoPanic SimStrict.
Import ListNotations.
Open Scope Z_scope.

Definition strict_out (o : outcome) : bool := match o with OErr x => is_strict_err x | _ => false end.

Theorem strict_run_simulation es : forall s,
  existsb strict_out (snd (run_n es s)) = false ->
  run_n es (unstrict s) = (unstrict (fst (run_n es s)), snd (run_n es s)).
Proof.
  induction es as [|e es IH]; intros s H; [reflexivity|].
  cbn [run_n] in *. pose proof (strict_step_simulation e s) as S.
  destruct (step_in e s) as [s1 o].
  specialize (IH s1). destruct (run_n es s1) as [s2 os]. cbn [fst snd existsb] in *.
  apply orb_false_iff in H as [Ho Hos]. specialize (IH Hos).
  assert (E : step_in e (unstrict s) = (unstrict s1, o)).
  { destruct o as [| |x|]; try exact S. destruct S as [S|S]; [|exact S]. cbn [strict_out] in Ho. congruence. }
  rewrite E, IH. reflexivity.
Qed.

(* up to the first strict error: the prefix before it is simulated *)
Theorem strict_run_prefix es1 es2 s :
  existsb strict_out (snd (run_n es1 s)) = false ->
  fst (run_n (es1 ++ es2) (unstrict s)) = fst (run_n es2 (unstrict (fst (run_n es1 s)))) /\
  firstn (length es1) (snd (run_n (es1 ++ es2) (unstrict s))) = snd (run_n es1 s).
Proof.
  revert s. induction es1 as [|e es IH]; intros s H.
  - cbn. split; reflexivity.
  - cbn [run_n app] in *. pose proof (strict_step_simulation e s) as S.
    destruct (step_in e s) as [s1 o].
    specialize (IH s1). destruct (run_n es s1) as [s2 os] eqn:R1. cbn [fst snd existsb] in *.
    apply orb_false_iff in H as [Ho Hos]. specialize (IH Hos).
    assert (E : step_in e (unstrict s) = (unstrict s1, o)).
    { destruct o as [| |x|]; try exact S. destruct S as [S|S]; [|exact S]. cbn [strict_out] in Ho. congruence. }
    rewrite E. destruct (run_n (es ++ es2) (unstrict s1)) as [s3 os3]. cbn [fst snd length firstn] in *.
    destruct IH as [I1 I2]. split; [exact I1|]. rewrite I2. reflexivity.
Qed.
