(* SimStrictRunSpec.v — C08 for runs of strict machines: a run of a strict machine in which no step reports a
   strict error is, outcome for outcome and in its final architectural state, the run of the reference semantics. *)
From Coq Require Import ZArith List Bool Lia.
From Model Require Import Tree Bits Word Instr Sim IsaWire.
From Spec Require Import IsaSpec.
From Proofs Require Import SimHoare SimNoPanic SimRefinePrims SimRefineExec SimRefineStep SimWf SimStrict SimStrictRun.
Import ListNotations.
Open Scope Z_scope.

Lemma WF_unstrict s : WF s -> WF (unstrict s).
Proof. intros H. exact H. Qed.

Theorem strict_run_refines es s : WF s ->
  existsb strict_out (snd (run_n es s)) = false ->
  let '(s', outs) := run_n es s in
  let '(a', souts) := spec_run es (abs s) in
  a' = abs s' /\ Forall2 out_match outs souts.
Proof.
  intros W H. pose proof (strict_run_simulation es s H) as S.
  pose proof (run_refines es (unstrict s) eq_refl (WF_unstrict s W)) as R.
  rewrite S in R. change (abs (unstrict s)) with (abs s) in R.
  destruct (run_n es s) as [s' outs]. cbn [fst snd] in R.
  destruct (spec_run es (abs s)) as [a' souts]. exact R.
Qed.
