(* SimStrictSpec.v — C08 for strict machines: a step of a machine in strict mode either stops with one
   of the strict (uninitialised-value) errors or is exactly the step of the reference semantics
   (C14's simulation composed with C08's refinement; the abstraction [abs] ignores the strict flag). *)
From Coq Require Import ZArith List Bool Lia.
From Model Require Import Tree Bits Word Instr Sim IsaWire.
From Spec Require Import IsaSpec.
From Proofs Require Import SimHoare SimRefinePrims SimRefineExec SimRefineStep SimStrict.
Import ListNotations.
Open Scope Z_scope.

Lemma abs_unstrict s : abs (unstrict s) = abs s.
Proof. reflexivity. Qed.

Theorem strict_step_refines e s :
  (forall r, 0 <= w_data (rget (s_regs s) r) < 65536) -> 0 <= s_pc s < 65536 ->
  let '(s1, o) := step_in e s in
  (exists x, o = OErr x /\ is_strict_err x = true) \/
  (exists so, out_match o so /\ spec_step e (abs s) = (abs s1, so)).
Proof.
  intros W P.
  pose proof (strict_step_simulation e s) as S.
  pose proof (step_in_refines e (unstrict s) eq_refl W P) as (so & OM & SP).
  rewrite abs_unstrict in SP.
  destruct (step_in e s) as [s1 o].
  destruct o as [| |x|].
  - right. rewrite S in OM, SP. cbn [fst snd] in OM, SP. rewrite abs_unstrict in SP. exists so. split; assumption.
  - right. rewrite S in OM, SP. cbn [fst snd] in OM, SP. rewrite abs_unstrict in SP. exists so. split; assumption.
  - destruct S as [S|S].
    + left. exists x. split; [reflexivity|exact S].
    + right. rewrite S in OM, SP. cbn [fst snd] in OM, SP. rewrite abs_unstrict in SP. exists so. split; assumption.
  - right. rewrite S in OM, SP. cbn [fst snd] in OM, SP. rewrite abs_unstrict in SP. exists so. split; assumption.
Qed.
