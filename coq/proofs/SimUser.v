(* SimUser.v — C09 at the level of whole instructions: while the machine is in user mode with
   privilege checks on, executing any instruction other than TRAP (which enters the OS through the
   trap vector table) keeps the invariant [U s0]: still user mode, and every memory word outside
   user space, the devices, the saved (supervisor) stack pointer, the MCR and the internal-register
   mappings are exactly those of s0.  Denied accesses stop the instruction with the error, by the
   same invariant rule (state on every path). *)
From Coq Require Import ZArith List Bool Lia.
From Gen Require Import Constants.
From Model Require Import Tree Bits Word Instr Sim.
From Proofs Require Import Ranges SimHoare SimAccess.
Import ListNotations.
Open Scope Z_scope.

Definition U (s0 s : sim) : Prop :=
  32768 <= s_psr s < 65536 /\ s_flags s = s_flags s0 /\ fl_ignore_priv (s_flags s0) = false
  /\ (forall a, 0 <= a -> in_user a = false -> mget (s_mem s) a = mget (s_mem s0) a)
  /\ s_devs s = s_devs s0 /\ s_saved_sp s = s_saved_sp s0 /\ s_mcr s = s_mcr s0 /\ s_ireg s = s_ireg s0.

Lemma user_psr_not_priv p : 32768 <= p < 65536 -> psr_privileged p = false.
Proof.
  intros H. unfold psr_privileged. rewrite Z.shiftr_div_pow2 by lia. apply Z.eqb_neq.
  change (2 ^ 15) with 32768. intros E. assert (p / 32768 >= 1) by (apply Z.le_ge; apply Z.div_le_lower_bound; lia). lia.
Qed.
Lemma U_ctx s0 s : U s0 s -> c_priv (default_ctx s) = false.
Proof.
  intros (P & F & I & _). unfold default_ctx. cbn [c_priv]. rewrite (user_psr_not_priv _ P), F, I. reflexivity.
Qed.

(* the CC update keeps a user-mode PSR a user-mode 16-bit PSR: finite sweep *)
Definition cc_chk (p c : Z) : bool :=
  let r := Z.lor (Z.land p 65528) (if one_hot3 c then c else 2) in (32768 <=? r) && (r <? 65536).
Lemma cc_sweep : forallb (fun p => forallb (cc_chk p) (zrange 0 8)) (zrange 32768 (Z.to_nat 32768)) = true.
Proof. vm_compute. reflexivity. Qed.
Lemma psr_set_cc_user p c : 32768 <= p < 65536 -> 32768 <= psr_set_cc p c < 65536.
Proof.
  intros H. unfold psr_set_cc.
  assert (0 <= Z.land c 7 < 8) as Hc.
  { change 7 with (Z.ones 3). rewrite Z.land_ones by lia. apply Z.mod_pos_bound. reflexivity. }
  pose proof (forall_range' _ 32768 65536 cc_sweep p H) as H1. cbv beta in H1.
  pose proof (forall_range' _ 0 8 H1 (Z.land c 7) Hc) as H2. unfold cc_chk in H2. cbv zeta in H2.
  apply andb_prop in H2. destruct H2 as [A B]. apply Z.leb_le in A. apply Z.ltb_lt in B. lia.
Qed.

(* ---------- primitives preserve U ---------- *)
Ltac Usplit := repeat match goal with |- _ /\ _ => split end; try assumption.

Lemma inv_U_read e a c s0 : c_priv c = false -> inv (U s0) (read_mem e a c).
Proof.
  intros P. unfold inv. intros s H. destruct (in_user a) eqn:Ua.
  - rewrite (read_user e a c s P Ua). cbn [fst]. destruct (c_track c); exact H.
  - rewrite (read_denied e a c s P Ua). exact H.
Qed.
Lemma inv_U_write e a w c s0 : c_priv c = false -> inv (U s0) (write_mem e a w c).
Proof.
  intros P. unfold inv. intros s H. destruct (in_user a) eqn:Ua.
  - destruct (write_user e a w c s P Ua) as (s' & E & R & PC & PS & D & SS & M & Mem). rewrite E. cbn [fst].
    destruct H as ([H1a H1b] & H2 & H3 & H4 & H5 & H6 & H7 & H8).
    assert (s_flags s' = s_flags s /\ s_ireg s' = s_ireg s) as [F I].
    { clear -E P Ua. unfold write_mem in E. rewrite P, Ua in E. cbn [negb andb] in E. rewrite (in_user_below_io a Ua) in E.
      destruct (set_if_init w (c_strict c)); destruct (c_track c); inversion E; split; reflexivity. }
    unfold U. rewrite PS, F, D, SS, M, I. Usplit.
    intros b Hb Ub. rewrite Mem; [apply H4; assumption|assumption|]. intros ->. congruence.
  - rewrite (write_denied e a w c s P Ua). exact H.
Qed.
Lemma inv_U_modify_regs s0 f : inv (U s0) (modify (fun s => upd_regs s (f s))).
Proof. apply inv_modify. intros s H. exact H. Qed.
Lemma inv_U_set_pc w b s0 : inv (U s0) (set_pc w b).
Proof.
  unfold set_pc. apply inv_bind; [apply inv_get|intro s]. apply inv_bind; [apply inv_of_opt|intro addr].
  apply inv_bind; [destruct (_ && _ && _); [apply inv_err | apply inv_ret]|intros _]. apply inv_modify. intros x H. exact H.
Qed.
Lemma inv_U_offset_pc o b s0 : inv (U s0) (offset_pc o b).
Proof. unfold offset_pc. apply inv_bind; [apply inv_get|intro s]. apply inv_U_set_pc. Qed.
Lemma inv_U_set_reg dr v st s0 : inv (U s0) (set_reg_if_init dr v st).
Proof. unfold set_reg_if_init. apply inv_bind; [apply inv_of_opt|intro w]. apply inv_modify. intros x H. exact H. Qed.
Lemma inv_U_set_cc r s0 : inv (U s0) (set_cc r).
Proof.
  unfold set_cc. apply inv_modify. intros s (H1 & H2 & H3 & H4 & H5 & H6 & H7 & H8).
  pose proof (psr_set_cc_user (s_psr s) (cc_of r) H1) as [Ha Hb].
  unfold U. cbn [s_psr s_flags s_mem s_devs s_saved_sp s_mcr s_ireg upd_psr]. Usplit.
Qed.
Lemma inv_U_push a b f s0 : inv (U s0) (push_frame a b f).
Proof.
  unfold push_frame. apply inv_modify. intros s H. destruct (s_frames s) as [fs|]; [|exact H].
  destruct (match f with FSubroutine => _ | FTrap => _ | FInterrupt => _ end) as [[k|rs]|]; exact H.
Qed.
Lemma inv_U_pop s0 : inv (U s0) pop_frame.
Proof. unfold pop_frame. apply inv_modify. intros s H. exact H. Qed.
Lemma inv_U_call_subroutine addr s0 : inv (U s0) (call_subroutine addr).
Proof.
  unfold call_subroutine. apply inv_bind; [apply inv_modify; intros s H; exact H|intros _].
  apply inv_bind; [apply inv_get|intro s]. apply inv_bind; [apply inv_U_push|intros _]. apply inv_U_set_pc.
Qed.

Definition is_trap (i : sim_instr) : bool := match i with STRAP _ => true | _ => false end.

Theorem inv_U_exec e i s0 : is_trap i = false -> inv (U s0) (exec e i).
Proof.
  intros NT. unfold exec. apply inv_bind_get. intros s Hs. pose proof (U_ctx s0 s Hs) as PC. cbv zeta.
  destruct i as [cc off|dr sr1 o|dr off|sr off|o|dr sr1 o|dr br off|sr br off| |dr sr|dr off|sr off|br|dr off|v]; try discriminate NT.
  - destruct (negb (Z.land cc (psr_cc (s_psr s)) =? 0)); [apply inv_U_offset_pc | apply inv_ret].
  - apply inv_bind; [apply inv_U_set_reg|intros _]. apply inv_U_set_cc.
  - apply inv_bind; [apply inv_U_read; exact PC|intro v]. apply inv_bind; [apply inv_U_set_reg|intros _]. apply inv_U_set_cc.
  - apply inv_U_write. exact PC.
  - apply inv_bind; [apply inv_of_opt|intro a]. apply inv_U_call_subroutine.
  - apply inv_bind; [apply inv_U_set_reg|intros _]. apply inv_U_set_cc.
  - apply inv_bind; [apply inv_of_opt|intro b]. apply inv_bind; [apply inv_U_read; exact PC|intro v].
    apply inv_bind; [apply inv_U_set_reg|intros _]. apply inv_U_set_cc.
  - apply inv_bind; [apply inv_of_opt|intro b]. apply inv_U_write. exact PC.
  - (* RTI in user mode: privilege violation *)
    destruct Hs as (P & F & I & _). rewrite (user_psr_not_priv _ P), F, I. cbn [orb]. apply inv_err.
  - apply inv_bind; [apply inv_U_set_reg|intros _]. apply inv_U_set_cc.
  - apply inv_bind; [apply inv_U_read; exact PC|intro w]. apply inv_bind; [apply inv_of_opt|intro ea].
    apply inv_bind_get. intros s' Hs'. pose proof (U_ctx s0 s' Hs') as PC'.
    apply inv_bind; [apply inv_U_read; exact PC'|intro v]. apply inv_bind; [apply inv_U_set_reg|intros _]. apply inv_U_set_cc.
  - apply inv_bind; [apply inv_U_read; exact PC|intro w]. apply inv_bind; [apply inv_of_opt|intro ea].
    apply inv_bind_get. intros s' Hs'. pose proof (U_ctx s0 s' Hs') as PC'. apply inv_U_write. exact PC'.
  - apply inv_bind; [apply inv_U_set_pc|intros _]. destruct (br =? 7); [apply inv_U_pop | apply inv_ret].
  - apply inv_modify. intros x H. exact H.
Qed.

(* the fetch itself is an unprivileged read: a PC outside user space is an access violation *)
Lemma U_refl s : 32768 <= s_psr s < 65536 -> fl_ignore_priv (s_flags s) = false -> U s s.
Proof. intros [P1 P2] I. unfold U. Usplit; auto. Qed.

(* errors that a user-mode instruction can produce come with the state still satisfying U, and an
   access outside user space always produces AccessViolation: see read_denied / write_denied *)

(* ---------- the whole fetch-decode-execute path ---------- *)
Definition fetch_exec_u (e : env) : M unit :=
  s <- get ;;
  w <- read_mem e (s_pc s) (default_ctx s) ;;
  word <- of_opt (get_if_init w (strict s)) StrictPCCurrUninit ;;
  instr <- decode_m word ;;
  offset_pc 1 false ;;;
  modify (fun s => upd_prefetch s false) ;;;
  exec e instr ;;;
  modify (fun s => upd_instrs s ((s_instrs s + 1) mod 18446744073709551616)).

Lemma inv_U_tail e i s0 : is_trap i = false ->
  inv (U s0) (offset_pc 1 false ;;; modify (fun s => upd_prefetch s false) ;;; exec e i ;;;
              modify (fun s => upd_instrs s ((s_instrs s + 1) mod 18446744073709551616))).
Proof.
  intros NT. apply inv_bind; [apply inv_U_offset_pc|intros _].
  apply inv_bind; [apply inv_modify; intros x H; exact H|intros _].
  apply inv_bind; [apply inv_U_exec; exact NT|intros _]. apply inv_modify; intros x H; exact H.
Qed.

Theorem user_fetch_exec_confined e s0 s :
  U s0 s ->
  (forall i, decode (w_data (mget (s_mem s) (s_pc s))) = DOk i -> is_trap i = false) ->
  U s0 (fst (fetch_exec_u e s)).
Proof.
  intros Hs NT. unfold fetch_exec_u. rewrite run_bind, run_get, run_bind.
  pose proof (U_ctx s0 s Hs) as PC.
  destruct (in_user (s_pc s)) eqn:Ua.
  - rewrite (read_user e (s_pc s) (default_ctx s) s PC Ua).
    set (s1 := if c_track (default_ctx s) then upd_obs s (obs_update (s_obs s) (s_pc s) OBS_READ) else s).
    assert (H1 : U s0 s1) by (unfold s1; destruct (c_track (default_ctx s)); exact Hs).
    unfold get_if_init. destruct (negb (strict s) || is_init (mget (s_mem s) (s_pc s))); cbn [of_opt]; [|exact H1].
    rewrite run_bind, run_ret, run_bind. unfold decode_m.
    destruct (decode (w_data (mget (s_mem s) (s_pc s)))) as [i| | |] eqn:D; try exact H1.
    rewrite run_ret. apply (inv_U_tail e i s0 (NT i eq_refl) s1 H1).
  - rewrite (read_denied e (s_pc s) (default_ctx s) s PC Ua). exact Hs.
Qed.
