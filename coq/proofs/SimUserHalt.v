(* SimUserHalt.v — C09: the one TRAP that does not enter the OS.  Under virtual traps HALT (TRAP x25) is a
   short-cut that stops the machine where it is; in user mode it touches nothing outside user space either,
   so the confinement theorems extend to programs that end in HALT. *)
From Coq Require Import ZArith List Bool Lia.
From Gen Require Import Constants.
From Model Require Import Tree Bits Word Instr Sim.
From Proofs Require Import SimHoare SimAccess SimUser IrqProofs SimUserRun.
Import ListNotations.
Open Scope Z_scope.

(* instructions that keep a user-mode machine confined: everything but TRAP, and HALT when traps are virtual *)
Definition stays_user (real : bool) (i : sim_instr) : bool :=
  match i with STRAP v => negb real && (v =? 37) | _ => true end.

Lemma inv_U_halt e s0 : fl_real (s_flags s0) = false -> inv (U s0) (exec e (STRAP 37)).
Proof.
  intros R. unfold exec. apply inv_bind_get. intros s Hs. cbv zeta.
  unfold handle_interrupt. apply inv_bind_get. intros s1 Hs1.
  assert (F : fl_real (s_flags s1) = false). { destruct Hs1 as (_ & F & _). rewrite F. exact R. }
  rewrite F. cbn [real_int_vect Z.eqb Pos.eqb].
  apply inv_bind; [|intros _; apply inv_fail].
  destruct (negb (s_prefetch s1)); [|apply inv_ret].
  apply inv_bind; [apply inv_U_offset_pc|intros _]. apply inv_modify. intros x H. exact H.
Qed.

Theorem inv_U_exec_halt e i s0 : stays_user (fl_real (s_flags s0)) i = true -> inv (U s0) (exec e i).
Proof.
  intros H. destruct i as [cc off|dr sr1 o|dr off|sr off|o|dr sr1 o|dr br off|sr br off| |dr sr|dr off|sr off|br|dr off|v];
    try (apply inv_U_exec; reflexivity).
  cbn [stays_user] in H. apply andb_true_iff in H as [H1 H2]. apply negb_true_iff in H1. apply Z.eqb_eq in H2. subst v.
  apply inv_U_halt. exact H1.
Qed.

Theorem user_fetch_exec_confined_halt e s0 s :
  U s0 s ->
  (forall i, decode (w_data (mget (s_mem s) (s_pc s))) = DOk i -> stays_user (fl_real (s_flags s0)) i = true) ->
  U s0 (fst (fetch_exec_u e s)).
Proof.
  intros Hs NT. unfold fetch_exec_u. rewrite run_bind, run_get, run_bind.
  pose proof (U_ctx s0 s Hs) as PC.
  destruct (in_user (s_pc s)) eqn:Ua.
  - rewrite (read_user e (s_pc s) (default_ctx s) s PC Ua).
    set (s1 := if c_track (default_ctx s) then upd_obs s (obs_update (s_obs s) (s_pc s) OBS_READ) else s).
    assert (H1 : U s0 s1) by (unfold s1; destruct (c_track (default_ctx s)); exact Hs).
    unfold get_if_init. destruct (negb (strict s) || is_init (mget (s_mem s) (s_pc s))); cbn [of_opt]; [|exact H1].
    rewrite run_bind, run_ret, run_bind. unfold decode_m.
    destruct (decode (w_data (mget (s_mem s) (s_pc s)))) as [i| | |] eqn:D; try exact H1.
    rewrite run_ret.
    assert (T : inv (U s0) (offset_pc 1 false ;;; modify (fun s => upd_prefetch s false) ;;; exec e i ;;;
              modify (fun s => upd_instrs s ((s_instrs s + 1) mod 18446744073709551616)))).
    { apply inv_bind; [apply inv_U_offset_pc|intros _].
      apply inv_bind; [apply inv_modify; intros x H; exact H|intros _].
      apply inv_bind; [apply inv_U_exec_halt; exact (NT i eq_refl)|intros _]. apply inv_modify; intros x H; exact H. }
    apply (T s1 H1).
  - rewrite (read_denied e (s_pc s) (default_ctx s) s PC Ua). exact Hs.
Qed.

(* steps and runs, as in SimUserRun but with HALT allowed under virtual traps *)
Theorem user_step_confined_halt e s0 s :
  UP s0 s -> (forall v p, ~ takes_irq e s v p) ->
  (forall i, decode (w_data (mget (s_mem s) (s_pc s))) = DOk i -> stays_user (fl_real (s_flags s0)) i = true) ->
  UP s0 (fst (step_inner e s)) /\ s_devs (fst (step_inner e s)) = polled_devs e (s_devs s) (e_draws e).
Proof.
  intros H NT NTR. rewrite (gate_not_taken e s NT).
  pose proof (UP_after_poll e s0 s H) as H1.
  assert (K : UP s0 (fst (fetch_exec e (after_poll e s))) /\
              s_devs (fst (fetch_exec e (after_poll e s))) = polled_devs e (s_devs s) (e_draws e)).
  { pose proof (user_fetch_exec_confined_halt e (upd_devs s0 (s_devs (after_poll e s))) (after_poll e s) H1 NTR) as H2.
    change (fetch_exec_u e) with (fetch_exec e) in H2.
    destruct H2 as (P & F & I & M & D & SS & MC & IR). cbn [upd_devs s_devs] in D.
    split; [|rewrite D; reflexivity].
    unfold UP, U. rewrite D. cbn [upd_devs s_flags s_mem s_devs s_saved_sp s_mcr s_ireg] in *.
    repeat split; try assumption; try apply P. }
  destruct (pending e s) as [[v p|]|]; [exact K| |exact K].
  cbn [fst]. split; [exact H1|reflexivity].
Qed.

Inductive UserRunH (real : bool) : sim -> sim -> Prop :=
| urh_refl s : UserRunH real s s
| urh_next e s t :
    (forall v p, ~ takes_irq e s v p) ->
    (forall i, decode (w_data (mget (s_mem s) (s_pc s))) = DOk i -> stays_user real i = true) ->
    UserRunH real (fst (step_inner e (upd_obs s []))) t -> UserRunH real s t.

Theorem user_run_confined_halt s0 s t : UserRunH (fl_real (s_flags s0)) s t -> UP s0 s -> UP s0 t.
Proof.
  induction 1 as [s|e s t NT NTR _ IH]; intros H; [exact H|].
  destruct (user_step_confined_halt e s0 (upd_obs s []) (UP_obs s0 s [] H) NT NTR) as [H1 _]. exact (IH H1).
Qed.
