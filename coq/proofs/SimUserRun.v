(* SimUserRun.v — C09 over whole steps and runs.  [UP s0 s]: s is in user mode and agrees with s0 on
   everything a user program must not change — every memory word outside user space, the
   supervisor stack pointer, the MCR, the flags and the internal-register mappings — and on the
   devices up to what polling them does (the machine polls its devices at every boundary; that
   is the machine's doing, not the program's: see [PolledFrom]). *)
From Coq Require Import ZArith List Bool Lia FMapPositive.
From Gen Require Import Constants.
From Model Require Import Tree Bits Word Instr Sim.
From Proofs Require Import SimHoare SimAccess SimUser IrqProofs.
Import ListNotations.
Open Scope Z_scope.

Definition UP (s0 s : sim) : Prop := U (upd_devs s0 (s_devs s)) s.

Lemma UP_meaning s0 s : UP s0 s ->
  psr_privileged (s_psr s) = false /\ s_flags s = s_flags s0 /\ s_saved_sp s = s_saved_sp s0 /\
  s_mcr s = s_mcr s0 /\ s_ireg s = s_ireg s0 /\
  (forall a, 0 <= a -> in_user a = false -> mget (s_mem s) a = mget (s_mem s0) a).
Proof.
  intros (P & F & I & M & D & SS & MC & IR). cbn [upd_devs s_flags s_mem s_saved_sp s_mcr s_ireg] in *.
  repeat split; try assumption. apply user_psr_not_priv. exact P.
Qed.

Lemma UP_of_U s0 s : U s0 s -> UP s0 s.
Proof.
  intros (P & F & I & M & D & SS & MC & IR). unfold UP, U. cbn [upd_devs s_flags s_mem s_devs s_saved_sp s_mcr s_ireg].
  repeat split; try assumption; try apply P.
Qed.

Lemma UP_after_poll e s0 s : UP s0 s -> UP s0 (after_poll e s).
Proof.
  intros (P & F & I & M & D & SS & MC & IR). unfold UP, U, after_poll in *.
  cbn [upd_devs upd_prefetch s_psr s_flags s_mem s_devs s_saved_sp s_mcr s_ireg] in *.
  repeat split; try assumption; try apply P.
Qed.

Lemma UP_obs s0 s o : UP s0 s -> UP s0 (upd_obs s o).
Proof. intros H. exact H. Qed.

(* one boundary in user mode at which no interrupt is taken and the word at the PC is not a TRAP:
   whatever the instruction and however the step ends (completed, or any error) *)
Theorem user_step_confined e s0 s :
  UP s0 s -> (forall v p, ~ takes_irq e s v p) ->
  (forall i, decode (w_data (mget (s_mem s) (s_pc s))) = DOk i -> is_trap i = false) ->
  UP s0 (fst (step_inner e s)) /\ s_devs (fst (step_inner e s)) = polled_devs e (s_devs s) (e_draws e).
Proof.
  intros H NT NTR. rewrite (gate_not_taken e s NT).
  pose proof (UP_after_poll e s0 s H) as H1.
  assert (K : UP s0 (fst (fetch_exec e (after_poll e s))) /\
              s_devs (fst (fetch_exec e (after_poll e s))) = polled_devs e (s_devs s) (e_draws e)).
  { pose proof (user_fetch_exec_confined e (upd_devs s0 (s_devs (after_poll e s))) (after_poll e s) H1 NTR) as H2.
    change (fetch_exec_u e) with (fetch_exec e) in H2.
    destruct H2 as (P & F & I & M & D & SS & MC & IR). cbn [upd_devs s_devs] in D.
    split; [|rewrite D; reflexivity].
    unfold UP, U. rewrite D. cbn [upd_devs s_flags s_mem s_devs s_saved_sp s_mcr s_ireg] in *.
    repeat split; try assumption; try apply P. }
  destruct (pending e s) as [[v p|]|]; [exact K| |exact K].
  cbn [fst]. split; [exact H1|reflexivity].
Qed.

(* runs *)
Inductive PolledFrom : list dev -> list dev -> Prop :=
| pf_refl d : PolledFrom d d
| pf_step e d d' : PolledFrom d d' -> PolledFrom d (polled_devs e d' (e_draws e)).

Inductive UserRun : sim -> sim -> Prop :=
| ur_refl s : UserRun s s
| ur_next e s t :
    (forall v p, ~ takes_irq e s v p) ->
    (forall i, decode (w_data (mget (s_mem s) (s_pc s))) = DOk i -> is_trap i = false) ->
    UserRun (fst (step_inner e (upd_obs s []))) t -> UserRun s t.

Theorem user_run_confined s0 s t : UserRun s t -> UP s0 s -> UP s0 t /\ PolledFrom (s_devs s) (s_devs t).
Proof.
  induction 1 as [s|e s t NT NTR _ IH]; intros H.
  - split; [exact H|apply pf_refl].
  - destruct (user_step_confined e s0 (upd_obs s []) (UP_obs s0 s [] H) NT NTR) as [H1 D1].
    destruct (IH H1) as [H2 P2]. split; [exact H2|].
    rewrite D1 in P2. cbn [upd_obs s_devs] in P2.
    clear - P2. remember (polled_devs e (s_devs s) (e_draws e)) as d1 eqn:E.
    induction P2 as [d|e' d d' _ IHP]; [subst; apply pf_step; apply pf_refl|apply pf_step; exact (IHP E)].
Qed.

(* non-vacuity: `ADD R0,R0,#1` (x1021) then `STI R0,#1` (xB001) through a pointer to x0200 (OS space) in
   user mode: a two-step user run exists; the second step is denied with an access violation and the
   word at x0200 (and everything else outside user space) is untouched *)
Definition ex_user_state : sim :=
  mkSim (mset (mset (mset (mset (mkMem (PositiveMap.empty word) (new_init 0)) 12288 (new_init 4129)) 12289 (new_init 45057))
                    12291 (new_init 512)) 512 (new_init 777))
        (repeat (new_init 0) 8) 12288 32770 (new_init 12288) 0 None [] [] 0 false [] true
        (mkFlags false false false false) [] [].
Definition ex_free : env := mkEnv false false [].
Example ex_user_run :
  UP ex_user_state ex_user_state /\
  exists t, UserRun ex_user_state t /\ UP ex_user_state t /\
    s_instrs t = 1 /\ rget (s_regs t) 0 = new_init 1 /\
    snd (step_inner ex_free (upd_obs (fst (step_inner ex_free (upd_obs ex_user_state []))) [])) = inr (BErr AccessViolation) /\
    mget (s_mem t) 512 = new_init 777.
Proof.
  assert (U0 : UP ex_user_state ex_user_state).
  { apply UP_of_U. apply U_refl; [cbn [ex_user_state s_psr]; lia|reflexivity]. }
  split; [exact U0|].
  assert (R : UserRun ex_user_state
                (fst (step_inner ex_free (upd_obs (fst (step_inner ex_free (upd_obs ex_user_state []))) [])))).
  { eapply ur_next with (e := ex_free).
    - intros v p [H _]. vm_compute in H. discriminate H.
    - intros i D. vm_compute in D. inversion D. reflexivity.
    - eapply ur_next with (e := ex_free).
      + intros v p [H _]. vm_compute in H. discriminate H.
      + intros i D. vm_compute in D. inversion D. reflexivity.
      + apply ur_refl. }
  eexists. split; [exact R|]. split; [exact (proj1 (user_run_confined _ _ _ R U0))|].
  vm_compute. repeat split; reflexivity.
Qed.
