(* SimWf.v — the 16-bit well-formedness of machine states (what Rust's u16/u8 types guarantee) is
   an invariant of the model's step, so the one-step refinement of C08 composes to runs of any
   length. *)
From Coq Require Import ZArith List Bool Lia FMapPositive.
From Gen Require Import Constants.
From Model Require Import Tree Bits Word Instr Sim IsaWire.
From Spec Require Import IsaSpec.
From Proofs Require Import SimHoare SimNoPanic SimRefinePrims SimRefineExec SimRefineStep.
Import ListNotations.
Open Scope Z_scope.

Definition lt16 (x : Z) : Prop := 0 <= x < 65536.
Definition r16 (w : word) : Prop := lt16 (w_data w).
Definition dev_ok (d : dev) : Prop := match d with DKb q _ => Forall (fun c => 0 <= c < 256) q | _ => True end.

Definition WF (s : sim) : Prop :=
  Forall r16 (s_regs s) /\ lt16 (s_pc s) /\ lt16 (s_psr s) /\ r16 (s_saved_sp s)
  /\ (forall a, r16 (mget (s_mem s) a)) /\ Forall dev_ok (s_devs s).

(* ---------- 16-bit arithmetic facts ---------- *)
Lemma lt16_wrap x : lt16 (wrap16 x). Proof. unfold lt16, wrap16. apply Z.mod_pos_bound. reflexivity. Qed.
Lemma lt16_log2 x : 0 <= x -> (x < 65536 <-> x = 0 \/ Z.log2 x < 16).
Proof.
  intros H. split.
  - intros Hx. destruct (Z.eq_dec x 0); [left; assumption|right]. apply Z.log2_lt_pow2; [lia|]. exact Hx.
  - intros [->|Hl]; [lia|]. destruct (Z.eq_dec x 0); [lia|]. change 65536 with (2 ^ 16). apply Z.log2_lt_pow2; lia.
Qed.
Lemma lt16_land a b : lt16 a -> 0 <= b -> lt16 (Z.land a b).
Proof.
  intros [Ha1 Ha2] Hb. split; [apply Z.land_nonneg; left; exact Ha1|].
  assert (0 <= Z.land a b) by (apply Z.land_nonneg; left; exact Ha1).
  apply lt16_log2; [assumption|]. destruct (Z.eq_dec (Z.land a b) 0); [left; assumption|right].
  apply (proj1 (lt16_log2 a Ha1)) in Ha2. destruct Ha2 as [->|Ha2]; [rewrite Z.land_0_l in n; contradiction|].
  pose proof (Z.log2_land a b Ha1 Hb). lia.
Qed.
Lemma lt16_lor a b : lt16 a -> lt16 b -> lt16 (Z.lor a b).
Proof.
  intros [Ha1 Ha2] [Hb1 Hb2]. split; [apply Z.lor_nonneg; split; assumption|].
  assert (0 <= Z.lor a b) by (apply Z.lor_nonneg; split; assumption).
  apply lt16_log2; [assumption|]. destruct (Z.eq_dec (Z.lor a b) 0); [left; assumption|right].
  rewrite Z.log2_lor by assumption.
  apply (proj1 (lt16_log2 a Ha1)) in Ha2. apply (proj1 (lt16_log2 b Hb1)) in Hb2.
  destruct Ha2 as [->|Ha2], Hb2 as [->|Hb2]; cbn [Z.log2]; lia.
Qed.

Lemma r16_new d : lt16 d -> r16 (new_init d). Proof. intros H; exact H. Qed.
Lemma r16_add l r : r16 l -> r16 r -> r16 (w_add l r).
Proof. intros Hl Hr. unfold w_add. destruct (_ && _); [exact Hl|]. destruct (_ && _); [exact Hr|]. apply lt16_wrap. Qed.
Lemma r16_sub l r : r16 l -> r16 r -> r16 (w_sub l r).
Proof. intros Hl Hr. unfold w_sub. destruct (_ && _); [exact Hl|]. apply lt16_wrap. Qed.
Lemma r16_and l r : r16 l -> r16 r -> r16 (w_and l r).
Proof. intros Hl [Hr _]. unfold r16, w_and. cbn [w_data]. apply lt16_land; assumption. Qed.
Lemma r16_not w : r16 w -> r16 (w_not w).
Proof. unfold r16, w_not, lt16. cbn [w_data]. lia. Qed.

Lemma lt16_psr_set_cc p c : lt16 p -> lt16 (psr_set_cc p c).
Proof.
  intros H. unfold psr_set_cc. apply lt16_lor; [apply lt16_land; [exact H|lia]|].
  destruct (one_hot3 (Z.land c 7)) eqn:E; [|unfold lt16; lia].
  unfold one_hot3 in E. unfold lt16. lia.
Qed.
Lemma lt16_psr_set d : lt16 d -> lt16 (psr_set d).
Proof. intros H. unfold psr_set. apply lt16_psr_set_cc. apply lt16_land; [exact H|vm_compute; discriminate]. Qed.
Lemma lt16_psr_priv p b : lt16 p -> lt16 (psr_set_privileged p b).
Proof. intros H. unfold psr_set_privileged. apply lt16_lor; [apply lt16_land; [exact H|lia]|destruct b; unfold lt16; lia]. Qed.
Lemma lt16_psr_prio p q : lt16 p -> lt16 (psr_set_priority p q).
Proof.
  intros H. unfold psr_set_priority. apply lt16_lor; [apply lt16_land; [exact H|lia]|].
  rewrite Z.shiftl_mul_pow2 by lia. assert (0 <= Z.land q 7 < 8).
  { change 7 with (Z.ones 3). rewrite Z.land_ones by lia. apply Z.mod_pos_bound. reflexivity. }
  unfold lt16. change (2 ^ 8) with 256. lia.
Qed.

(* ---------- Hoare-style rule: WF is preserved, results satisfy Q ---------- *)
Definition GW {A} (m : M A) (Q : A -> Prop) : Prop :=
  forall s, WF s -> WF (fst (m s)) /\ (forall a, snd (m s) = inl a -> Q a).
Definition anyv {A} (_ : A) : Prop := True.

Lemma gw_ret {A} (a : A) (Q : A -> Prop) : Q a -> GW (ret a) Q.
Proof. intros H s Hs. split; [exact Hs|]. intros x E. inversion E. subst. exact H. Qed.
Lemma gw_get : GW get WF. Proof. intros s Hs. split; [exact Hs|]. intros x E. inversion E. subst. exact Hs. Qed.
Lemma gw_fail {A} b (Q : A -> Prop) : GW (@fail A b) Q. Proof. intros s Hs. split; [exact Hs|]. intros x E. inversion E. Qed.
Lemma gw_err {A} e (Q : A -> Prop) : GW (@err A e) Q. Proof. apply gw_fail. Qed.
Lemma gw_modify f : (forall s, WF s -> WF (f s)) -> GW (modify f) anyv.
Proof. intros H s Hs. split; [apply H; exact Hs|]. intros x _. exact Logic.I. Qed.
Lemma gw_bind {A B} (m : M A) (k : A -> M B) Q R :
  GW m Q -> (forall a, Q a -> GW (k a) R) -> GW (bind m k) R.
Proof.
  intros Hm Hk s Hs. unfold bind. specialize (Hm s Hs). destruct (m s) as [s1 [a|b]]; cbn [fst snd] in *.
  - destruct Hm as [H1 H2]. exact (Hk a (H2 a eq_refl) s1 H1).
  - destruct Hm as [H1 _]. split; [exact H1|]. intros x E. inversion E.
Qed.
Lemma gw_of_opt_get w st e : r16 w -> GW (of_opt (get_if_init w st) e) lt16.
Proof. intros H. unfold get_if_init. destruct (negb st || is_init w); [apply gw_ret; exact H|apply gw_err]. Qed.
Lemma gw_of_opt_set w st e : r16 w -> GW (of_opt (set_if_init w st) e) r16.
Proof. intros H. unfold set_if_init. destruct (negb st || is_init w); [apply gw_ret; exact H|apply gw_err]. Qed.

(* ---------- state lemmas ---------- *)
Ltac wf_split := split; [|split; [|split; [|split; [|split]]]].
Lemma WF_mset' s s' a w : WF s -> r16 w ->
  s_regs s' = s_regs s -> s_pc s' = s_pc s -> s_psr s' = s_psr s -> s_saved_sp s' = s_saved_sp s -> s_devs s' = s_devs s ->
  s_mem s' = mset (s_mem s) a w -> WF s'.
Proof.
  intros (R & P & PS & S & M & D) Hw Er Ep Eps Es Ed Em. unfold WF. rewrite Er, Ep, Eps, Es, Ed, Em.
  wf_split; try assumption.
  intros b. unfold mget, mset. cbn [m_over m_fill]. destruct (Pos.eq_dec (mkey b) (mkey a)) as [E|N].
  - rewrite E, PositiveMap.gss. exact Hw.
  - rewrite PositiveMap.gso by exact N. exact (M b).
Qed.
Lemma set_nth_Forall {A} (P : A -> Prop) (l : list A) n x : Forall P l -> P x -> Forall P (set_nth l n x).
Proof. revert n. induction l as [|h t IH]; intros [|n] Hl Hx; cbn; try constructor; inversion Hl; subst; auto. Qed.
Lemma WF_rset s r w : WF s -> r16 w -> WF (upd_regs s (rset (s_regs s) r w)).
Proof. intros (R & P & PS & S & M & D) Hw. unfold WF. cbn [s_regs upd_regs s_pc s_psr s_saved_sp s_mem s_devs]. wf_split; try assumption. apply set_nth_Forall; assumption. Qed.
Lemma WF_rget s r : WF s -> r16 (rget (s_regs s) r).
Proof.
  intros (R & _). unfold rget. destruct (nth_in_or_default (Z.to_nat r) (s_regs s) (mkWord 0 0)) as [Hin|E].
  - rewrite Forall_forall in R. apply R. exact Hin.
  - rewrite E. unfold r16, lt16. cbn. lia.
Qed.
Lemma WF_pc s x : WF s -> lt16 x -> WF (upd_pc s x).
Proof. intros (R & P & PS & S & M & D) H. unfold WF. cbn [s_regs upd_pc s_pc s_psr s_saved_sp s_mem s_devs]. wf_split; assumption. Qed.
Lemma WF_psr s x : WF s -> lt16 x -> WF (upd_psr s x).
Proof. intros (R & P & PS & S & M & D) H. unfold WF. cbn [s_regs upd_psr s_pc s_psr s_saved_sp s_mem s_devs]. wf_split; assumption. Qed.
Lemma WF_ssp s w : WF s -> r16 w -> WF (upd_saved_sp s w).
Proof. intros (R & P & PS & S & M & D) H. unfold WF. cbn [s_regs upd_saved_sp s_pc s_psr s_saved_sp s_mem s_devs]. wf_split; assumption. Qed.
Lemma WF_devs s d : WF s -> Forall dev_ok d -> WF (upd_devs s d).
Proof. intros (R & P & PS & S & M & D) H. unfold WF. cbn [s_regs upd_devs s_pc s_psr s_saved_sp s_mem s_devs]. wf_split; assumption. Qed.
Lemma WF_mget s a : WF s -> r16 (mget (s_mem s) a). Proof. intros (_ & _ & _ & _ & M & _). apply M. Qed.

Lemma nth_dev_ok ds i : Forall dev_ok ds -> dev_ok (nth_dev ds i).
Proof.
  intros F. unfold nth_dev. destruct (nth_in_or_default (Z.to_nat i) ds DNull) as [Hin|E].
  - rewrite Forall_forall in F. apply F. exact Hin.
  - rewrite E. exact Logic.I.
Qed.
Lemma dev_read_ok e d a eff : dev_ok d -> dev_ok (fst (dev_read e d a eff)) /\ (forall v, snd (dev_read e d a eff) = Some v -> lt16 v).
Proof.
  intros H. destruct d as [|q ie|buf|t|l]; cbn [dev_read]; try (split; [exact H|intros v E; discriminate E]).
  - destruct (a =? KBSR).
    + cbn [fst snd]. split; [exact H|]. intros v E. inversion E. unfold lt16.
      destruct (negb (e_kb_locked e) && negb match q with [] => true | _ :: _ => false end); destruct ie; lia.
    + destruct (a =? KBDR); [|split; [exact H|intros v E; discriminate E]].
      destruct (e_kb_locked e); [split; [exact H|intros v E; discriminate E]|].
      destruct q as [|c r]; [split; [exact H|intros v E; discriminate E]|].
      cbn [dev_ok] in H. inversion H; subst.
      destruct eff; cbn [fst snd]; (split; [assumption || (constructor; assumption)|intros v E; inversion E; unfold lt16; lia]).
  - destruct (a =? DSR); cbn [fst snd]; (split; [exact H|]); intros v E; try discriminate E. inversion E. unfold lt16. destruct (e_ds_locked e); lia.
Qed.
Lemma dev_write_ok e d a v : dev_ok d -> dev_ok (fst (dev_write e d a v)).
Proof.
  intros H. destruct d as [|q ie|buf|t|l]; cbn [dev_write]; try exact H.
  - destruct (a =? KBSR); exact H.
  - destruct (a =? DDR); [destruct (e_ds_locked e)|]; exact Logic.I.
Qed.

(* ---------- primitives ---------- *)
Lemma ireg_read_lt16 s r : WF s -> lt16 (ireg_read s r).
Proof.
  intros (R & P & PS & S & M & D). destruct r; cbn [ireg_read]; try assumption.
  - destruct (s_mcr s); unfold lt16; lia.
Qed.

Lemma gw_read e a c : GW (read_mem e a c) r16.
Proof.
  intros s Hs. unfold read_mem. destruct (negb (c_priv c) && negb (in_user a)); [split; [exact Hs|intros x E; inversion E]|].
  destruct (IO_START <=? a).
  - destruct (assoc (s_ireg s) a) as [r|].
    + pose proof (ireg_read_lt16 s r Hs) as Hr.
      destruct (c_track c); cbn [fst snd]; (split; [eapply WF_mset'; [exact Hs|apply r16_new; exact Hr|reflexivity..] | intros x E; inversion E; cbn [s_mem upd_mem upd_obs]; rewrite mget_mset_same; apply r16_new; exact Hr]).
    + pose proof (dev_read_ok e (nth_dev (s_devs s) (port_dev a)) a (c_io c) (nth_dev_ok _ _ (proj2 (proj2 (proj2 (proj2 (proj2 Hs))))))) as [Hd Hv].
      destruct (dev_read e (nth_dev (s_devs s) (port_dev a)) a (c_io c)) as [d' [v|]]; cbn [fst snd] in *.
      * assert (W1 : WF (upd_devs s (set_nth (s_devs s) (Z.to_nat (port_dev a)) d'))).
        { apply WF_devs; [exact Hs|]. apply set_nth_Forall; [exact (proj2 (proj2 (proj2 (proj2 (proj2 Hs)))))|exact Hd]. }
        destruct (c_track c); cbn [fst snd]; (split; [eapply WF_mset'; [exact W1|apply r16_new; exact (Hv v eq_refl)|reflexivity..] | intros x E; inversion E; cbn [s_mem upd_mem upd_obs upd_devs]; rewrite mget_mset_same; apply r16_new; exact (Hv v eq_refl)]).
      * assert (W1 : WF (upd_devs s (set_nth (s_devs s) (Z.to_nat (port_dev a)) d'))).
        { apply WF_devs; [exact Hs|]. apply set_nth_Forall; [exact (proj2 (proj2 (proj2 (proj2 (proj2 Hs)))))|exact Hd]. }
        destruct (c_track c); cbn [fst snd]; (split; [exact W1 | intros x E; inversion E; apply (WF_mget s a Hs)]).
  - destruct (c_track c); cbn [fst snd]; (split; [exact Hs | intros x E; inversion E; apply WF_mget; exact Hs]).
Qed.

Lemma WF_ireg_write s r v : WF s -> lt16 v -> WF (ireg_write s r v).
Proof.
  intros H Hv. destruct r; cbn [ireg_write].
  - apply WF_pc; assumption.
  - apply WF_psr; [exact H|apply lt16_psr_set; exact Hv].
  - exact H.
  - apply WF_ssp; [exact H|exact Hv].
Qed.

Lemma gw_write e a w c : r16 w -> GW (write_mem e a w c) anyv.
Proof.
  intros Hw s Hs. unfold write_mem. destruct (negb (c_priv c) && negb (in_user a)); [split; [exact Hs|intros x _; exact Logic.I]|].
  destruct (IO_START <=? a).
  - unfold get_if_init. destruct (negb (c_strict c) || is_init w); [|split; [exact Hs|intros x _; exact Logic.I]].
    destruct (assoc (s_ireg s) a) as [r|].
    + pose proof (WF_ireg_write s r (w_data w) Hs Hw) as Hi.
      destruct (set_if_init w (c_strict c)) as [w'|] eqn:SI.
      * assert (w' = w) as -> by (unfold set_if_init in SI; destruct (negb (c_strict c) || is_init w); inversion SI; reflexivity).
        destruct (c_track c); cbn [fst snd]; (split; [|intros x _; exact Logic.I]); (eapply WF_mset'; [exact Hi|exact Hw|reflexivity..]).
      * destruct (c_track c); cbn [fst snd]; (split; [exact Hi|intros x _; exact Logic.I]).
    + pose proof (dev_write_ok e (nth_dev (s_devs s) (port_dev a)) a (w_data w) (nth_dev_ok _ _ (proj2 (proj2 (proj2 (proj2 (proj2 Hs))))))) as Hd.
      destruct (dev_write e (nth_dev (s_devs s) (port_dev a)) a (w_data w)) as [d' ok]. cbn [fst] in Hd.
      assert (W1 : WF (upd_devs s (set_nth (s_devs s) (Z.to_nat (port_dev a)) d'))).
      { apply WF_devs; [exact Hs|]. apply set_nth_Forall; [exact (proj2 (proj2 (proj2 (proj2 (proj2 Hs)))))|exact Hd]. }
      destruct ok; [|cbn [fst snd]; split; [exact W1|intros x _; exact Logic.I]].
      destruct (set_if_init w (c_strict c)) as [w'|] eqn:SI.
      * assert (w' = w) as -> by (unfold set_if_init in SI; destruct (negb (c_strict c) || is_init w); inversion SI; reflexivity).
        destruct (c_track c); cbn [fst snd]; (split; [|intros x _; exact Logic.I]); (eapply WF_mset'; [exact W1|exact Hw|reflexivity..]).
      * destruct (c_track c); cbn [fst snd]; (split; [exact W1|intros x _; exact Logic.I]).
  - destruct (set_if_init w (c_strict c)) as [w'|] eqn:SI.
    + assert (w' = w) as -> by (unfold set_if_init in SI; destruct (negb (c_strict c) || is_init w); inversion SI; reflexivity).
      destruct (c_track c); cbn [fst snd]; (split; [|intros x _; exact Logic.I]); (eapply WF_mset'; [exact Hs|exact Hw|reflexivity..]).
    + destruct (c_track c); cbn [fst snd]; (split; [exact Hs|intros x _; exact Logic.I]).
Qed.

Lemma gw_set_pc w b : r16 w -> GW (set_pc w b) anyv.
Proof.
  intros Hw. unfold set_pc. eapply gw_bind; [apply gw_get|intros s Hs].
  eapply gw_bind; [apply gw_of_opt_get; exact Hw|intros addr Ha].
  eapply gw_bind; [destruct (_ && _ && _); [apply gw_err|exact (gw_ret tt anyv Logic.I)]|intros _ _].
  apply gw_modify. intros x H. apply WF_pc; assumption.
Qed.
Lemma gw_offset_pc o b : GW (offset_pc o b) anyv.
Proof. unfold offset_pc. eapply gw_bind; [apply gw_get|intros s Hs]. apply gw_set_pc. apply r16_new. apply lt16_wrap. Qed.
Lemma gw_set_reg dr v st : r16 v -> GW (set_reg_if_init dr v st) anyv.
Proof.
  intros Hv. unfold set_reg_if_init. eapply gw_bind; [apply gw_of_opt_set; exact Hv|intros w Hw].
  apply gw_modify. intros s Hs. apply WF_rset; assumption.
Qed.
Lemma gw_set_cc r : GW (set_cc r) anyv.
Proof. unfold set_cc. apply gw_modify. intros s H. apply WF_psr; [exact H|]. apply lt16_psr_set_cc. exact (proj1 (proj2 (proj2 H))). Qed.
Lemma gw_push a b f : GW (push_frame a b f) anyv.
Proof.
  unfold push_frame. apply gw_modify. intros s H. destruct (s_frames s) as [fs|]; [|exact H].
  destruct (match f with FSubroutine => _ | FTrap => _ | FInterrupt => _ end) as [[k|rs]|]; exact H.
Qed.
Lemma gw_pop : GW pop_frame anyv. Proof. unfold pop_frame. apply gw_modify. intros s H; exact H. Qed.
Lemma gw_swap_sp : GW swap_sp anyv.
Proof.
  unfold swap_sp. apply gw_modify. intros s H. apply WF_ssp; [apply WF_rset; [exact H|exact (proj1 (proj2 (proj2 (proj2 H))))]|apply WF_rget; exact H].
Qed.
Lemma gw_call_subroutine addr : lt16 addr -> GW (call_subroutine addr) anyv.
Proof.
  intros Ha. unfold call_subroutine.
  eapply gw_bind; [apply gw_modify; intros s H; apply WF_rset; [exact H|apply r16_new; exact (proj1 (proj2 H))]|intros _ _].
  eapply gw_bind; [apply gw_get|intros s Hs]. eapply gw_bind; [apply gw_push|intros _ _]. apply gw_set_pc. apply r16_new. exact Ha.
Qed.
Lemma gw_call_interrupt e v ft : GW (call_interrupt e v ft) anyv.
Proof.
  unfold call_interrupt. eapply gw_bind; [apply gw_get|intros s Hs]. eapply gw_bind; [apply gw_read|intros w Hw].
  eapply gw_bind; [apply gw_get|intros s1 Hs1]. eapply gw_bind; [apply gw_of_opt_get; exact Hw|intros addr Ha].
  eapply gw_bind; [apply gw_push|intros _ _]. apply gw_set_pc. apply r16_new. exact Ha.
Qed.

Lemma gw_entry_body e vect (psr_f : Z -> Z) ft s :
  (forall q, lt16 q -> lt16 (psr_f q)) ->
  GW ((if negb (psr_privileged (s_psr s)) then swap_sp else ret tt) ;;;
     s <- get ;;
     (let old_psr := s_psr s in let old_pc := s_pc s in
      modify (fun s => upd_psr s (psr_set_privileged (s_psr s) true)) ;;;
      s <- get ;;
      (let mctx := default_ctx s in
       sp <- of_opt (get_if_init (rget (s_regs s) 6) (strict s)) StrictMemAddrUninit ;;
       modify (fun s => upd_regs s (rset (s_regs s) 6 (w_sub (rget (s_regs s) 6) (new_init 2)))) ;;;
       write_mem e (wrap16 (sp - 1)) (new_init old_psr) mctx ;;;
       write_mem e (wrap16 (sp - 2)) (new_init old_pc) mctx ;;;
       modify (fun s => upd_psr s (psr_f (s_psr s))) ;;;
       call_interrupt e vect ft))) anyv.
Proof.
  intros Hf.
  eapply gw_bind; [destruct (negb (psr_privileged (s_psr s))); [apply gw_swap_sp|exact (gw_ret tt anyv Logic.I)]|intros _ _].
  eapply gw_bind; [apply gw_get|intros s1 Hs1]. cbv zeta.
  eapply gw_bind; [apply gw_modify; intros x H; apply WF_psr; [exact H|apply lt16_psr_priv; exact (proj1 (proj2 (proj2 H)))]|intros _ _].
  eapply gw_bind; [apply gw_get|intros s2 Hs2]. cbv zeta.
  eapply gw_bind; [apply gw_of_opt_get; apply WF_rget; exact Hs2|intros sp _].
  eapply gw_bind; [apply gw_modify; intros x H; apply WF_rset; [exact H|apply r16_sub; [apply WF_rget; exact H|unfold r16, lt16; cbn; lia]]|intros _ _].
  eapply gw_bind; [apply gw_write; apply r16_new; exact (proj1 (proj2 (proj2 Hs1)))|intros _ _].
  eapply gw_bind; [apply gw_write; apply r16_new; exact (proj1 (proj2 Hs1))|intros _ _].
  eapply gw_bind; [apply gw_modify; intros x H; apply WF_psr; [exact H|apply Hf; exact (proj1 (proj2 (proj2 H)))]|intros _ _].
  apply gw_call_interrupt.
Qed.

Lemma gw_handle_interrupt e vect prio : GW (handle_interrupt e vect prio) anyv.
Proof.
  unfold handle_interrupt. eapply gw_bind; [apply gw_get|intros s Hs].
  destruct prio as [p|].
  - destruct (p <=? psr_priority (s_psr s)); [exact (gw_ret tt anyv Logic.I)|].
    apply (gw_entry_body e vect (fun q => psr_set_priority (psr_set_cc q 2) p) FInterrupt s).
    intros q Hq. apply lt16_psr_prio. apply lt16_psr_set_cc. exact Hq.
  - destruct (if fl_real (s_flags s) then None else real_int_vect vect) as [b|].
    + eapply gw_bind.
      * destruct (negb (s_prefetch s)); [|exact (gw_ret tt anyv Logic.I)].
        eapply gw_bind; [apply gw_offset_pc|intros _ _]. apply gw_modify. intros x Hx; exact Hx.
      * intros _ _. apply gw_fail.
    + apply (gw_entry_body e vect (fun q => psr_set_cc q 2) FTrap s). intros q Hq. apply lt16_psr_set_cc. exact Hq.
Qed.

Lemma operand_r16 s o : WF s -> r16 (operand s o).
Proof. intros H. destruct o; cbn [operand]; [apply r16_new; apply lt16_wrap | apply WF_rget; exact H]. Qed.

Lemma gw_exec e i : GW (exec e i) anyv.
Proof.
  unfold exec. eapply gw_bind; [apply gw_get|intros s Hs]. cbv zeta.
  destruct i as [cc off|dr sr1 o|dr off|sr off|o|dr sr1 o|dr br off|sr br off| |dr sr|dr off|sr off|br|dr off|v].
  - destruct (negb (Z.land cc (psr_cc (s_psr s)) =? 0)); [apply gw_offset_pc|exact (gw_ret tt anyv Logic.I)].
  - eapply gw_bind; [apply gw_set_reg; apply r16_add; [apply WF_rget; exact Hs|apply operand_r16; exact Hs]|intros _ _]. apply gw_set_cc.
  - eapply gw_bind; [apply gw_read|intros v Hv]. eapply gw_bind; [apply gw_set_reg; exact Hv|intros _ _]. apply gw_set_cc.
  - apply gw_write. apply WF_rget; exact Hs.
  - eapply gw_bind.
    + apply gw_of_opt_get. destruct o; [apply r16_new; apply lt16_wrap|apply WF_rget; exact Hs].
    + intros a Ha. apply gw_call_subroutine. exact Ha.
  - eapply gw_bind; [apply gw_set_reg; apply r16_and; [apply WF_rget; exact Hs|apply operand_r16; exact Hs]|intros _ _]. apply gw_set_cc.
  - eapply gw_bind; [apply gw_of_opt_get; apply WF_rget; exact Hs|intros b _].
    eapply gw_bind; [apply gw_read|intros v Hv]. eapply gw_bind; [apply gw_set_reg; exact Hv|intros _ _]. apply gw_set_cc.
  - eapply gw_bind; [apply gw_of_opt_get; apply WF_rget; exact Hs|intros b _]. apply gw_write. apply WF_rget; exact Hs.
  - destruct (psr_privileged (s_psr s) || fl_ignore_priv (s_flags s)); [|apply gw_err].
    eapply gw_bind; [apply gw_of_opt_get; apply WF_rget; exact Hs|intros sp _].
    eapply gw_bind; [apply gw_read|intros w1 H1]. eapply gw_bind; [apply gw_of_opt_get; exact H1|intros pc Hpc].
    eapply gw_bind; [apply gw_read|intros w2 H2]. eapply gw_bind; [apply gw_of_opt_get; exact H2|intros psr Hpsr].
    eapply gw_bind; [apply gw_modify; intros x H; apply WF_rset; [exact H|apply r16_add; [apply WF_rget; exact H|unfold r16, lt16; cbn; lia]]|intros _ _].
    eapply gw_bind; [apply gw_set_pc; apply r16_new; exact Hpc|intros _ _].
    eapply gw_bind; [apply gw_modify; intros x H; apply WF_psr; [exact H|exact Hpsr]|intros _ _].
    eapply gw_bind; [destruct (negb (psr_privileged psr)); [apply gw_swap_sp|exact (gw_ret tt anyv Logic.I)]|intros _ _]. apply gw_pop.
  - eapply gw_bind; [apply gw_set_reg; apply r16_not; apply WF_rget; exact Hs|intros _ _]. apply gw_set_cc.
  - eapply gw_bind; [apply gw_read|intros w Hw]. eapply gw_bind; [apply gw_of_opt_get; exact Hw|intros ea _].
    eapply gw_bind; [apply gw_get|intros s1 Hs1]. cbv zeta.
    eapply gw_bind; [apply gw_read|intros v Hv]. eapply gw_bind; [apply gw_set_reg; exact Hv|intros _ _]. apply gw_set_cc.
  - eapply gw_bind; [apply gw_read|intros w Hw]. eapply gw_bind; [apply gw_of_opt_get; exact Hw|intros ea _].
    eapply gw_bind; [apply gw_get|intros s1 Hs1]. cbv zeta. apply gw_write. apply WF_rget; exact Hs1.
  - eapply gw_bind; [apply gw_set_pc; apply WF_rget; exact Hs|intros _ _]. destruct (br =? 7); [apply gw_pop|exact (gw_ret tt anyv Logic.I)].
  - apply gw_modify. intros x H. apply WF_rset; [exact H|apply r16_new; apply lt16_wrap].
  - apply gw_handle_interrupt.
Qed.

Lemma dev_poll_ok e d draws : dev_ok d -> dev_ok (fst (fst (dev_poll e d draws))).
Proof.
  intros H. destruct d as [|q ie|buf|t|l]; cbn [dev_poll]; try exact H.
  - destruct (negb (t_enabled t)); [exact Logic.I|]. destruct (t_time t =? 0); [destruct draws; exact Logic.I|].
    destruct (t_time t =? 1); exact Logic.I.
  - destruct l; exact Logic.I.
Qed.
Lemma poll_all_ok e ds : forall draws best, Forall dev_ok ds -> Forall dev_ok (fst (fst (poll_all e ds draws best))).
Proof.
  induction ds as [|d r IH]; intros draws best F; cbn [poll_all]; [constructor|].
  inversion F as [|? ? Hd Hr]; subst.
  pose proof (dev_poll_ok e d draws Hd) as Hp. destruct (dev_poll e d draws) as [[d' i] draws']. cbn [fst] in Hp.
  specialize (IH draws' (pick_irq best i) Hr). destruct (poll_all e r draws' (pick_irq best i)) as [[r' b'] dd]. cbn [fst] in *.
  constructor; assumption.
Qed.

Lemma gw_step_inner e : GW (step_inner e) anyv.
Proof.
  unfold step_inner. eapply gw_bind; [apply gw_modify; intros x H; exact H|intros _ _].
  eapply gw_bind; [apply gw_get|intros s Hs].
  pose proof (poll_all_ok e (s_devs s) (e_draws e) None (proj2 (proj2 (proj2 (proj2 (proj2 Hs)))))) as PO.
  destruct (poll_all e (s_devs s) (e_draws e) None) as [[ds i] rest]. cbn [fst] in PO.
  eapply gw_bind; [apply gw_modify; intros x H; apply WF_devs; [exact H|exact PO]|intros _ _]. cbv zeta.
  assert (FE : GW (s0 <- get;; w <- read_mem e (s_pc s0) (default_ctx s0);;
      word <- of_opt (get_if_init w (strict s0)) StrictPCCurrUninit;; instr <- decode_m word;;
      offset_pc 1 false;;; modify (fun s1 => upd_prefetch s1 false);;; exec e instr;;;
      modify (fun s1 => upd_instrs s1 ((s_instrs s1 + 1) mod 18446744073709551616))) anyv).
  { eapply gw_bind; [apply gw_get|intros s0 Hs0]. eapply gw_bind; [apply gw_read|intros w Hw].
    eapply gw_bind; [apply gw_of_opt_get; exact Hw|intros word _].
    eapply gw_bind; [unfold decode_m; destruct (decode word); [exact (gw_ret _ anyv Logic.I)|apply gw_err|apply gw_err|apply gw_fail]|intros instr _].
    eapply gw_bind; [apply gw_offset_pc|intros _ _]. eapply gw_bind; [apply gw_modify; intros x H; exact H|intros _ _].
    eapply gw_bind; [apply gw_exec|intros _ _]. apply gw_modify; intros x H; exact H. }
  destruct i as [[vect prio|]|].
  - destruct (psr_priority (s_psr s) <? prio); [apply gw_handle_interrupt | exact FE].
  - apply gw_err.
  - exact FE.
Qed.

Theorem wf_step_in e s : WF s -> WF (fst (step_in e s)).
Proof.
  intros Hs. unfold step_in.
  assert (GS : GW (step e) anyv).
  { intros s0 Hs0. unfold step. pose proof (gw_step_inner e s0 Hs0) as [H1 _].
    destruct (step_inner e s0) as [s1 r]. cbn [fst] in H1.
    destruct (negb (fl_real (s_flags s1))); [split; [exact H1|intros x _; exact Logic.I]|].
    destruct r as [u|[ |x| ]]; try (split; [exact H1|intros y _; exact Logic.I]).
    - apply gw_handle_interrupt. exact H1.
    - destruct x; try (split; [exact H1|intros y _; exact Logic.I]); apply gw_handle_interrupt; exact H1. }
  pose proof (GS (upd_obs s []) Hs) as [G1 _]. destruct (step e (upd_obs s [])) as [s1 r]. exact G1.
Qed.

(* ---------- the refinement composes over runs of any length ---------- *)
Lemma WF_wf_regs s : WF s -> wf_regs s. Proof. intros H r. apply WF_rget. exact H. Qed.

Fixpoint spec_run (es : list env) (a : astate) : astate * list sout :=
  match es with
  | [] => (a, [])
  | e :: r => let '(a1, o) := spec_step e a in let '(a2, os) := spec_run r a1 in (a2, o :: os)
  end.

Theorem run_refines es : forall s, lax s -> WF s ->
  let '(s', outs) := run_n es s in
  let '(a', souts) := spec_run es (abs s) in
  a' = abs s' /\ Forall2 out_match outs souts.
Proof.
  induction es as [|e r IH]; intros s L W; cbn [run_n spec_run]; [split; [reflexivity|constructor]|].
  pose proof (step_refines e (upd_obs s []) L (WF_wf_regs _ W) (proj1 (proj2 W))) as SR.
  pose proof (wf_step_in e s W) as W1.
  unfold step_in in *. destruct (step e (upd_obs s [])) as [s1 r1]. cbn [fst] in W1.
  destruct SR as (o & B & S1 & F1). rewrite abs_upd_obs in S1. rewrite S1.
  assert (L1 : lax s1) by (eapply lax_flags; [exact F1|exact L]).
  specialize (IH s1 L1 W1). destruct (run_n r s1) as [s2 os]. destruct (spec_run r (abs s1)) as [a2 sos].
  destruct IH as [E F]. split; [exact E|]. constructor; [|exact F].
  unfold brk_match in B. destruct r1 as [u|[ |x| ]]; cbn [sout_of] in B; try discriminate B; injection B as <-; constructor.
Qed.
