(* SourceInfoProofs.v — C25: the SourceInfo model (newline index + partition point + trimming)
   agrees with the declarative notions of spec/SourcePos.v, for every text, line and byte index.
   Route: the newline index of s is the list of END offsets of the pieces `lines_of s`
   (nl_from_ends); everything else is list induction on the pieces. *)
From Coq Require Import ZArith List Bool Lia.
From Model Require Import Tree Text SourceInfo.
From Spec Require Import SourcePos.
Import ListNotations.
Open Scope Z_scope.

(* ------------------------------------------------------------------------------------------ *)
(* basic facts on byte lengths                                                                 *)

Lemma utf8_len_pos c : 1 <= utf8_len c <= 4.
Proof. unfold utf8_len. repeat destruct (_ <? _); lia. Qed.

Lemma byte_len_nonneg s : 0 <= byte_len s.
Proof. induction s as [|c r IH]; cbn [byte_len]; [lia|]. pose proof (utf8_len_pos c). lia. Qed.

Lemma byte_len_app a b : byte_len (a ++ b) = byte_len a + byte_len b.
Proof. induction a as [|c r IH]; cbn [byte_len app]; lia. Qed.

Lemma utf8_len_nl : utf8_len 10 = 1.
Proof. reflexivity. Qed.

(* ------------------------------------------------------------------------------------------ *)
(* the spec's pieces really are the lines of the text                                          *)

Lemma lines_of_nonempty s : lines_of s <> [].
Proof.
  destruct s as [|c r]; cbn [lines_of]; [discriminate|].
  destruct (c =? 10); [discriminate|]. destruct (lines_of r); discriminate.
Qed.

Lemma join_nl_cons_cons p q ps : join_nl (p :: q :: ps) = p ++ 10 :: join_nl (q :: ps).
Proof. reflexivity. Qed.

Lemma join_nl_push c p ps : join_nl ((c :: p) :: ps) = c :: join_nl (p :: ps).
Proof. destruct ps; reflexivity. Qed.

Lemma join_lines_of s : join_nl (lines_of s) = s.
Proof.
  induction s as [|c r IH]; [reflexivity|].
  cbn [lines_of]. destruct (c =? 10) eqn:Hc.
  - apply Z.eqb_eq in Hc. subst c.
    pose proof (lines_of_nonempty r) as Hne. destruct (lines_of r) as [|q qs] eqn:Hl; [congruence|].
    rewrite join_nl_cons_cons. cbn [app]. f_equal. exact IH.
  - pose proof (lines_of_nonempty r) as Hne. destruct (lines_of r) as [|q qs] eqn:Hl; [congruence|].
    rewrite join_nl_push. f_equal. exact IH.
Qed.

Lemma length_lines_of s : Z.of_nat (length (lines_of s)) = count_nl s + 1.
Proof.
  induction s as [|c r IH]; [reflexivity|].
  cbn [lines_of count_nl]. destruct (c =? 10).
  - cbn [length]. lia.
  - pose proof (lines_of_nonempty r) as Hne. destruct (lines_of r) as [|q qs]; [congruence|].
    cbn [length] in *. lia.
Qed.

Lemma count_nl_nonneg s : 0 <= count_nl s.
Proof. induction s as [|c r IH]; cbn [count_nl]; [lia|]. destruct (c =? 10); lia. Qed.

Lemma lines_of_no_nl s : forall p, In p (lines_of s) -> ~ In 10 p.
Proof.
  induction s as [|c r IH]; intros p Hin.
  - cbn in Hin. destruct Hin as [<-|[]]. intros [].
  - cbn [lines_of] in Hin. destruct (c =? 10) eqn:Hc.
    + destruct Hin as [<-|Hin]; [intros []|]. apply IH. exact Hin.
    + apply Z.eqb_neq in Hc.
      pose proof (lines_of_nonempty r) as Hne. destruct (lines_of r) as [|q qs]; [congruence|].
      destruct Hin as [<-|Hin].
      * intros [Heq|Hq]; [congruence|]. apply (IH q); [left; reflexivity|exact Hq].
      * apply IH. right. exact Hin.
Qed.

(* ------------------------------------------------------------------------------------------ *)
(* the newline index is the list of end offsets of the pieces                                  *)

Fixpoint ends_of (ls : list str) (off : Z) : list Z :=
  match ls with
  | [] => []
  | p :: ps => (off + byte_len p) :: ends_of ps (off + byte_len p + 1)
  end.

Lemma ends_of_shift ls : forall off d, ends_of ls (off + d) = map (fun x => x + d) (ends_of ls off).
Proof.
  induction ls as [|p ps IH]; intros off d; [reflexivity|].
  cbn [ends_of map]. f_equal; [lia|].
  replace (off + d + byte_len p + 1) with (off + byte_len p + 1 + d) by lia. apply IH.
Qed.

Lemma nl_from_ends s : forall off, nl_from s off = ends_of (lines_of s) off.
Proof.
  induction s as [|c r IH]; intros off.
  - cbn. f_equal. lia.
  - cbn [nl_from lines_of]. destruct (c =? 10) eqn:Hc.
    + cbn [ends_of byte_len]. rewrite IH. f_equal; [lia|]. f_equal. lia.
    + rewrite IH. pose proof (lines_of_nonempty r) as Hne.
      destruct (lines_of r) as [|q qs]; [congruence|].
      cbn [ends_of byte_len]. f_equal; [lia|]. f_equal. lia.
Qed.

Lemma nl_indices_ends s : nl_indices s = ends_of (lines_of s) 0.
Proof. apply nl_from_ends. Qed.

Lemma length_ends_of ls : forall off, length (ends_of ls off) = length ls.
Proof. induction ls as [|p ps IH]; intros off; cbn [ends_of length]; [reflexivity|]. f_equal. apply IH. Qed.

(* C25, first clause *)
Lemma count_lines_spec s : count_lines s = count_nl s + 1.
Proof. unfold count_lines. rewrite nl_indices_ends, length_ends_of. apply length_lines_of. Qed.

(* the l-th end offset *)
Lemma nth_ends_of ls : forall off l, (l < length ls)%nat ->
  nth_error (ends_of ls off) l = Some (off + start_of ls l + byte_len (nth l ls [])).
Proof.
  induction ls as [|p ps IH]; intros off l Hl; [cbn in Hl; lia|].
  destruct l as [|l].
  - cbn. f_equal. lia.
  - cbn [ends_of nth_error start_of nth]. rewrite IH by (cbn in Hl; lia). f_equal. lia.
Qed.

Lemma start_of_cons p ps k : start_of (p :: ps) (S k) = byte_len p + 1 + start_of ps k.
Proof. reflexivity. Qed.

Lemma start_of_nonneg ls : forall l, 0 <= start_of ls l.
Proof.
  induction ls as [|p ps IH]; intros [|l]; cbn [start_of]; try lia.
  pose proof (IH l). pose proof (byte_len_nonneg p). lia.
Qed.

Lemma start_of_S ls : forall l, (l < length ls)%nat ->
  start_of ls (S l) = start_of ls l + byte_len (nth l ls []) + 1.
Proof.
  induction ls as [|p ps IH]; intros l Hl; [cbn in Hl; lia|].
  destruct l as [|l].
  - rewrite start_of_cons. cbn [start_of nth]. lia.
  - rewrite !start_of_cons. cbn [nth]. rewrite (IH l) by (cbn in Hl; lia). lia.
Qed.

Lemma start_of_mono ls : forall l l', (l <= l')%nat -> start_of ls l <= start_of ls l'.
Proof.
  induction ls as [|p ps IH]; intros l l' H.
  - destruct l, l'; cbn; lia.
  - destruct l as [|l], l' as [|l']; cbn [start_of]; try lia.
    + pose proof (start_of_nonneg ps l'). pose proof (byte_len_nonneg p). lia.
    + pose proof (IH l l'). lia.
Qed.

(* the text is: everything before line l, line l, and either nothing or a newline and the rest *)
Lemma split_at_line ls : forall l, (l < length ls)%nat ->
  exists x z, join_nl ls = x ++ nth l ls [] ++ z /\ byte_len x = start_of ls l /\
              ((z = [] /\ S l = length ls) \/ (exists z', z = 10 :: z' /\ (S l < length ls)%nat)).
Proof.
  induction ls as [|p ps IH]; intros l Hl; [cbn in Hl; lia|].
  destruct l as [|l].
  - exists []. destruct ps as [|q qs].
    + exists []. cbn. rewrite app_nil_r. repeat split. left. split; reflexivity.
    + exists (10 :: join_nl (q :: qs)). rewrite join_nl_cons_cons. cbn [nth app start_of byte_len].
      repeat split. right. eexists. split; [reflexivity|]. cbn. lia.
  - destruct ps as [|q qs]; [cbn in Hl; lia|].
    destruct (IH l) as (x & z & Hj & Hx & Hz); [cbn in Hl |- *; lia|].
    exists (p ++ 10 :: x), z. rewrite join_nl_cons_cons, Hj. cbn [nth].
    split; [rewrite <- app_assoc; reflexivity|].
    split.
    + rewrite byte_len_app, start_of_cons. cbn [byte_len]. rewrite utf8_len_nl, Hx. lia.
    + destruct Hz as [[Hz1 Hz2]|(z' & Hz1 & Hz2)].
      * left. split; [exact Hz1|]. cbn [length] in *. lia.
      * right. exists z'. split; [exact Hz1|]. cbn [length] in *. lia.
Qed.

(* byte length of the whole text = end offset of the last piece *)
Lemma byte_len_join_nl ls : ls <> [] ->
  byte_len (join_nl ls) = start_of ls (length ls) - 1.
Proof.
  induction ls as [|p ps IH]; intros Hne; [congruence|].
  destruct ps as [|q qs].
  - cbn. lia.
  - rewrite join_nl_cons_cons, byte_len_app. cbn [byte_len]. rewrite utf8_len_nl, IH by discriminate.
    cbn [length start_of]. lia.
Qed.

(* ------------------------------------------------------------------------------------------ *)
(* raw line spans                                                                              *)

Lemma nth_z_ends ls off l : 0 <= l < Z.of_nat (length ls) ->
  nth_z (ends_of ls off) l = Some (off + start_of ls (Z.to_nat l) + byte_len (nth (Z.to_nat l) ls [])).
Proof.
  intros H. unfold nth_z. destruct (l <? 0) eqn:E; [lia|]. apply nth_ends_of. lia.
Qed.

(* line l of the text, what precedes it and what follows it *)
Lemma raw_line_decomp s l : 0 <= l <= count_nl s ->
  exists x z, s = x ++ line s l ++ z /\ byte_len x = line_start s l /\
    ((z = [] /\ l = count_nl s /\
      raw_line_span s l = Some (line_start s l, line_start s l + byte_len (line s l))) \/
     (exists z', z = 10 :: z' /\ l < count_nl s /\
      raw_line_span s l = Some (line_start s l, line_start s l + byte_len (line s l) + 1))).
Proof.
  intros Hl. pose proof (length_lines_of s) as Hlen.
  destruct (split_at_line (lines_of s) (Z.to_nat l)) as (x & z & Hj & Hx & Hz); [lia|].
  rewrite join_lines_of in Hj. exists x, z. split; [exact Hj|]. split; [exact Hx|].
  assert (Hraw : raw_line_span s l =
                 Some (line_start s l, Z.min (line_start s l + byte_len (line s l) + 1) (byte_len s))).
  { unfold raw_line_span. rewrite count_lines_spec.
    replace ((0 <=? l) && (l <? count_nl s + 1)) with true by (symmetry; apply andb_true_iff; lia).
    rewrite nl_indices_ends. rewrite (nth_z_ends _ 0 l) by lia.
    f_equal. f_equal.
    destruct (l =? 0) eqn:E0.
    - apply Z.eqb_eq in E0. subst l. reflexivity.
    - apply Z.eqb_neq in E0. rewrite (nth_z_ends _ 0 (l - 1)) by lia.
      unfold line_start. replace (Z.to_nat l) with (S (Z.to_nat (l - 1))) by lia.
      rewrite start_of_S by lia. lia. }
  assert (Hs : byte_len s = line_start s l + byte_len (line s l) + byte_len z).
  { rewrite Hj at 1. rewrite !byte_len_app. unfold line_start, line. lia. }
  destruct Hz as [[Hz1 Hz2]|(z' & Hz1 & Hz2)].
  - left. split; [exact Hz1|]. split; [lia|]. rewrite Hraw. subst z. cbn [byte_len] in Hs.
    f_equal. f_equal. lia.
  - right. exists z'. split; [exact Hz1|]. split; [lia|]. rewrite Hraw. subst z. cbn [byte_len] in Hs.
    pose proof (byte_len_nonneg z'). rewrite utf8_len_nl in Hs. f_equal. f_equal. lia.
Qed.

Lemma raw_line_span_none s l : l < 0 \/ count_nl s < l -> raw_line_span s l = None.
Proof.
  intros H. unfold raw_line_span. rewrite count_lines_spec.
  replace ((0 <=? l) && (l <? count_nl s + 1)) with false; [reflexivity|].
  symmetry. apply andb_false_iff. lia.
Qed.

(* ------------------------------------------------------------------------------------------ *)
(* substrings by byte offsets                                                                  *)

Lemma sub_from_skip x : forall r off a b, off + byte_len x <= a ->
  sub_from (x ++ r) off a b = sub_from r (off + byte_len x) a b.
Proof.
  induction x as [|c x IH]; intros r off a b H; cbn [app byte_len sub_from].
  - f_equal. lia.
  - cbn [byte_len] in H. pose proof (utf8_len_pos c). pose proof (byte_len_nonneg x).
    replace (a <=? off) with false by (symmetry; apply Z.leb_gt; lia). cbn [andb].
    rewrite IH by lia. f_equal. lia.
Qed.

Lemma sub_from_take y : forall r off a b, a <= off -> off + byte_len y <= b ->
  sub_from (y ++ r) off a b = y ++ sub_from r (off + byte_len y) a b.
Proof.
  induction y as [|c y IH]; intros r off a b Ha Hb; cbn [app byte_len sub_from].
  - f_equal. lia.
  - cbn [byte_len] in Hb. pose proof (utf8_len_pos c). pose proof (byte_len_nonneg y).
    replace (a <=? off) with true by (symmetry; apply Z.leb_le; lia).
    replace (off <? b) with true by (symmetry; apply Z.ltb_lt; lia). cbn [andb].
    rewrite IH by lia. f_equal. f_equal. f_equal. lia.
Qed.

Lemma sub_from_none z : forall off a b, b <= off -> sub_from z off a b = [].
Proof.
  induction z as [|c z IH]; intros off a b H; cbn [sub_from]; [reflexivity|].
  pose proof (utf8_len_pos c).
  replace (off <? b) with false by (symmetry; apply Z.ltb_ge; lia). rewrite andb_false_r.
  apply IH. lia.
Qed.

Lemma substr_mid x y z : substr (x ++ y ++ z) (byte_len x) (byte_len x + byte_len y) = y.
Proof.
  unfold substr. rewrite sub_from_skip by lia. rewrite sub_from_take by lia.
  rewrite sub_from_none by lia. apply app_nil_r.
Qed.

(* ------------------------------------------------------------------------------------------ *)
(* whitespace and trimming                                                                     *)

Lemma is_ws_spec c : is_ws c = true <-> In c white_space.
Proof.
  split.
  - unfold is_ws. rewrite !orb_true_iff, !andb_true_iff, !Z.leb_le, !Z.eqb_eq.
    intros H. cbn [In white_space]. lia.
  - intros H. cbn [In white_space] in H.
    repeat (destruct H as [<-|H]; [reflexivity|]). destruct H.
Qed.

Lemma is_ws_false c : is_ws c = false <-> ~ In c white_space.
Proof. rewrite <- is_ws_spec. destruct (is_ws c); split; congruence. Qed.

Lemma trim_start_spec t : exists pre, t = pre ++ trim_start t /\
  (forall c, In c pre -> is_ws c = true) /\ (forall c r, trim_start t = c :: r -> is_ws c = false).
Proof.
  induction t as [|a t IH].
  - exists []. cbn. repeat split; [intros c []|discriminate].
  - cbn [trim_start]. destruct (is_ws a) eqn:Ha.
    + destruct IH as (pre & H1 & H2 & H3). exists (a :: pre). cbn [app]. split; [f_equal; exact H1|].
      split; [|exact H3]. intros c [<-|Hc]; [exact Ha|apply H2; exact Hc].
    + exists []. cbn [app]. split; [reflexivity|]. split; [intros c []|].
      intros c r Heq. inversion Heq. subst. exact Ha.
Qed.

Lemma trim_end_spec t : exists post, t = trim_end t ++ post /\
  (forall c, In c post -> is_ws c = true) /\ (forall c r, trim_end t = r ++ [c] -> is_ws c = false).
Proof.
  unfold trim_end. destruct (trim_start_spec (rev t)) as (pre & H1 & H2 & H3).
  exists (rev pre). split.
  - rewrite <- rev_app_distr, <- H1. symmetry. apply rev_involutive.
  - split.
    + intros c Hc. apply H2. apply in_rev. exact Hc.
    + intros c r Heq. apply (H3 c (rev r)).
      rewrite <- (rev_involutive (trim_start (rev t))), Heq. rewrite rev_app_distr. reflexivity.
Qed.

Lemma trim_end_snoc_ws p c : is_ws c = true -> trim_end (p ++ [c]) = trim_end p.
Proof. intros H. unfold trim_end. rewrite rev_app_distr. cbn [rev app trim_start]. rewrite H. reflexivity. Qed.

(* the trimmed middle of any text *)
Lemma trim_decomp p : exists pre mid post, p = pre ++ mid ++ post /\
  trim_end p = pre ++ mid /\ trim_start (trim_end p) = mid /\
  all_ws pre /\ all_ws post /\ no_edge_ws mid /\ (mid = [] -> pre = []).
Proof.
  destruct (trim_end_spec p) as (post & E1 & E2 & E3).
  destruct (trim_start_spec (trim_end p)) as (pre & S1 & S2 & S3).
  exists pre, (trim_start (trim_end p)), post.
  split; [rewrite app_assoc, <- S1; exact E1|].
  split; [exact S1|]. split; [reflexivity|].
  split; [intros c Hc; apply is_ws_spec, S2, Hc|].
  split; [intros c Hc; apply is_ws_spec, E2, Hc|].
  split.
  - split.
    + intros c r Heq. apply is_ws_false. exact (S3 c r Heq).
    + intros c r Heq. apply is_ws_false. apply (E3 c (pre ++ r)).
      rewrite S1 at 1. rewrite Heq. apply app_assoc.
  - intros Hmid. rewrite Hmid, app_nil_r in S1.
    destruct (rev pre) as [|c r] eqn:Hr.
    + apply (f_equal (@rev Z)) in Hr. rewrite rev_involutive in Hr. exact Hr.
    + exfalso. assert (Hp : pre = rev r ++ [c]).
      { apply (f_equal (@rev Z)) in Hr. rewrite rev_involutive in Hr. exact Hr. }
      assert (Hw : is_ws c = true) by (apply S2; rewrite Hp; apply in_or_app; right; left; reflexivity).
      rewrite (E3 c (rev r)) in Hw; [discriminate|]. rewrite S1. exact Hp.
Qed.

(* ------------------------------------------------------------------------------------------ *)
(* C25, second clause: line_span / read_line                                                   *)

Lemma line_span_spec s l : 0 <= l <= count_nl s ->
  exists pre mid post, line s l = pre ++ mid ++ post /\ all_ws pre /\ all_ws post /\ no_edge_ws mid /\
    (mid = [] -> pre = []) /\
    line_span s l = Some (line_start s l + byte_len pre, line_start s l + byte_len pre + byte_len mid) /\
    read_line s l = Some mid.
Proof.
  intros Hl. destruct (raw_line_decomp s l Hl) as (x & z & Hs & Hx & Hz).
  destruct (trim_decomp (line s l)) as (pre & mid & post & Hp & Het & Hmid & Hpre & Hpost & Hedge & Hem).
  exists pre, mid, post. split; [exact Hp|]. split; [exact Hpre|]. split; [exact Hpost|].
  split; [exact Hedge|]. split; [exact Hem|].
  assert (Hspan : line_span s l = Some (line_start s l + byte_len pre, line_start s l + byte_len pre + byte_len mid)).
  { assert (Hbl : byte_len (line s l) = byte_len pre + byte_len mid + byte_len post)
      by (rewrite Hp at 1; rewrite !byte_len_app; lia).
    unfold line_span.
    destruct Hz as [(Hz & _ & Hraw)|(z' & Hz & _ & Hraw)]; rewrite Hraw; rewrite <- Hx.
    - (* last line: the raw line is the piece *)
      assert (Hsub : substr s (byte_len x) (byte_len x + byte_len (line s l)) = line s l).
      { rewrite Hs at 1. apply substr_mid. }
      rewrite Hsub. cbv zeta. rewrite Hmid, Het. rewrite !byte_len_app.
      f_equal. f_equal; lia.
    - (* the raw line is the piece and its newline *)
      assert (Hsub : substr s (byte_len x) (byte_len x + byte_len (line s l) + 1) = line s l ++ [10]).
      { rewrite Hs at 1. subst z. replace (line s l ++ 10 :: z') with ((line s l ++ [10]) ++ z')
          by (rewrite <- app_assoc; reflexivity).
        replace (byte_len x + byte_len (line s l) + 1) with (byte_len x + byte_len (line s l ++ [10]))
          by (rewrite byte_len_app; cbn [byte_len]; rewrite utf8_len_nl; lia).
        apply substr_mid. }
      rewrite Hsub. cbv zeta. rewrite trim_end_snoc_ws by reflexivity. rewrite Hmid, Het.
      rewrite !byte_len_app. cbn [byte_len]. rewrite utf8_len_nl.
      f_equal. f_equal; lia. }
  split; [exact Hspan|].
  unfold read_line. rewrite Hspan. f_equal.
  rewrite Hs, Hp at 1. rewrite <- Hx.
  replace (x ++ (pre ++ mid ++ post) ++ z) with ((x ++ pre) ++ mid ++ (post ++ z))
    by (rewrite <- !app_assoc; reflexivity).
  replace (byte_len x + byte_len pre) with (byte_len (x ++ pre)) by apply byte_len_app.
  apply substr_mid.
Qed.

Lemma line_span_none s l : l < 0 \/ count_nl s < l -> line_span s l = None /\ read_line s l = None.
Proof.
  intros H. unfold read_line, line_span. rewrite raw_line_span_none by exact H. split; reflexivity.
Qed.

(* ------------------------------------------------------------------------------------------ *)
(* C25, third and fourth clause: positions                                                     *)

(* the partition point: the piece whose [start, end] holds i, or the number of pieces when i lies
   behind the last end offset *)
Lemma count_lt_ends ls : forall off i, off <= i ->
  exists n : nat, count_lt (ends_of ls off) i = Z.of_nat n /\ (n <= length ls)%nat /\
    off + start_of ls n <= i /\
    ((n < length ls)%nat -> i <= off + start_of ls n + byte_len (nth n ls [])).
Proof.
  induction ls as [|p ps IH]; intros off i Hi.
  - exists 0%nat. cbn. repeat split; try lia.
  - cbn [ends_of count_lt]. destruct (off + byte_len p <? i) eqn:E.
    + apply Z.ltb_lt in E.
      destruct (IH (off + byte_len p + 1) i) as (n & Hc & Hn & Hlo & Hhi); [lia|].
      exists (S n). rewrite Hc. split; [lia|]. split; [cbn [length]; lia|].
      rewrite start_of_cons. cbn [nth length]. split; [lia|]. intros Hlt.
      assert (Hlt' : (n < length ps)%nat) by lia. specialize (Hhi Hlt'). lia.
    + apply Z.ltb_ge in E. exists 0%nat. cbn [start_of nth length]. repeat split; lia.
Qed.

Lemma line_start_nonneg s l : 0 <= line_start s l.
Proof. apply start_of_nonneg. Qed.

Lemma line_start_mono s l l' : 0 <= l <= l' -> line_start s l <= line_start s l'.
Proof. intros H. apply start_of_mono. lia. Qed.

(* start of the line after l = end of l + its newline *)
Lemma line_start_next s l : 0 <= l <= count_nl s ->
  line_start s (l + 1) = line_start s l + byte_len (line s l) + 1.
Proof.
  intros H. unfold line_start, line. replace (Z.to_nat (l + 1)) with (S (Z.to_nat l)) by lia.
  apply start_of_S. pose proof (length_lines_of s). lia.
Qed.

(* the whole text ends where the last line ends *)
Lemma byte_len_last_line s : byte_len s = line_start s (count_nl s) + byte_len (line s (count_nl s)).
Proof.
  pose proof (count_nl_nonneg s) as Hn. pose proof (length_lines_of s) as Hlen.
  pose proof (line_start_next s (count_nl s)) as Hnext.
  rewrite <- (join_lines_of s) at 1. rewrite byte_len_join_nl by apply lines_of_nonempty.
  unfold line_start in *. replace (length (lines_of s)) with (Z.to_nat (count_nl s + 1)) by lia. lia.
Qed.

Lemma line_end_le_len s l : 0 <= l <= count_nl s -> line_start s l + byte_len (line s l) <= byte_len s.
Proof.
  intros H. pose proof (byte_len_last_line s) as Hlast.
  destruct (Z.eq_dec l (count_nl s)) as [->|Hne]; [lia|].
  pose proof (line_start_next s l H). pose proof (line_start_mono s (l + 1) (count_nl s)).
  pose proof (byte_len_nonneg (line s (count_nl s))). lia.
Qed.

(* the unclamped partition point *)
Lemma count_lt_spec s i : 0 <= i ->
  let k := count_lt (nl_indices s) i in
  0 <= k <= count_nl s + 1 /\ line_start s k <= i /\
  (k <= count_nl s -> i <= line_start s k + byte_len (line s k)) /\
  (k = count_nl s + 1 <-> byte_len s < i).
Proof.
  intros Hi k. subst k. rewrite nl_indices_ends.
  destruct (count_lt_ends (lines_of s) 0 i Hi) as (n & Hc & Hn & Hlo & Hhi).
  pose proof (length_lines_of s) as Hlen. rewrite Hc.
  unfold line_start, line. rewrite Nat2Z.id.
  split; [lia|]. split; [lia|]. split; [intros H; apply Hhi; lia|].
  split.
  - intros Hk. rewrite <- (join_lines_of s). rewrite byte_len_join_nl by apply lines_of_nonempty.
    replace (length (lines_of s)) with n by lia. lia.
  - intros Hgt. destruct (Z.eq_dec (Z.of_nat n) (count_nl s + 1)) as [|Hne]; [assumption|exfalso].
    assert (Hlt : (n < length (lines_of s))%nat) by lia. specialize (Hhi Hlt).
    pose proof (line_end_le_len s (Z.of_nat n)) as Hle. unfold line_start, line in Hle.
    rewrite Nat2Z.id in Hle. lia.
Qed.

Lemma get_line_spec s i : 0 <= i ->
  (i <= byte_len s ->
     0 <= get_line s i <= count_nl s /\
     line_start s (get_line s i) <= i <= line_start s (get_line s i) + byte_len (line s (get_line s i))) /\
  (byte_len s < i -> get_line s i = count_nl s).
Proof.
  intros Hi. unfold get_line. rewrite count_lines_spec.
  pose proof (count_nl_nonneg s) as Hn.
  destruct (count_lt_spec s i Hi) as (Hk & Hlo & Hhi & Hend).
  replace (Z.max 0 (count_nl s + 1 - 1)) with (count_nl s) by lia.
  split.
  - intros Hle. assert (Hk' : count_lt (nl_indices s) i <= count_nl s) by lia.
    rewrite Z.min_l by lia. split; [lia|]. split; [exact Hlo|apply Hhi; exact Hk'].
  - intros Hgt. apply Hend in Hgt. lia.
Qed.

Lemma get_pos_pair_in_range s i : 0 <= i <= byte_len s ->
  exists l c, get_pos_pair_res s i = Some (l, c) /\ 0 <= l <= count_nl s /\ 0 <= c /\
              line_start s l + c = i /\ c <= byte_len (line s l).
Proof.
  intros Hi. destruct (get_line_spec s i) as [Hin _]; [lia|].
  destruct Hin as (Hl & Hlo & Hhi); [lia|].
  unfold get_pos_pair_res.
  destruct (raw_line_decomp s (get_line s i) Hl) as (x & z & _ & _ & Hz).
  assert (Hraw : exists e, raw_line_span s (get_line s i) = Some (line_start s (get_line s i), e)).
  { destruct Hz as [(_ & _ & H)|(z' & _ & _ & H)]; rewrite H; eexists; reflexivity. }
  destruct Hraw as (e & Hraw). rewrite Hraw.
  replace (i <? line_start s (get_line s i)) with false by (symmetry; apply Z.ltb_ge; lia).
  exists (get_line s i), (i - line_start s (get_line s i)). repeat split; lia.
Qed.

Lemma get_pos_pair_past_end s i : byte_len s < i ->
  get_pos_pair_res s i = Some (count_nl s, i - line_start s (count_nl s)) /\
  line_start s (count_nl s) <= byte_len s.
Proof.
  intros Hi. pose proof (byte_len_nonneg s) as Hb. pose proof (count_nl_nonneg s) as Hn.
  destruct (get_line_spec s i) as [_ Hout]; [lia|]. specialize (Hout Hi).
  pose proof (byte_len_last_line s) as Hlast. pose proof (byte_len_nonneg (line s (count_nl s))).
  split; [|lia].
  unfold get_pos_pair_res. rewrite Hout.
  destruct (raw_line_decomp s (count_nl s)) as (x & z & _ & _ & Hz); [lia|].
  assert (Hraw : exists e, raw_line_span s (count_nl s) = Some (line_start s (count_nl s), e)).
  { destruct Hz as [(_ & _ & H0)|(z' & _ & _ & H0)]; rewrite H0; eexists; reflexivity. }
  destruct Hraw as (e & Hraw). rewrite Hraw.
  replace (i <? line_start s (count_nl s)) with false by (symmetry; apply Z.ltb_ge; lia).
  reflexivity.
Qed.

(* the usize subtraction `index - lstart` never underflows *)
Lemma get_pos_pair_res_some s i : 0 <= i -> get_pos_pair_res s i <> None.
Proof.
  intros Hi. destruct (Z_le_gt_dec i (byte_len s)) as [Hle|Hgt].
  - destruct (get_pos_pair_in_range s i) as (l & c & H & _); [lia|]. congruence.
  - destruct (get_pos_pair_past_end s i) as [H _]; [lia|]. congruence.
Qed.

(* the line containing a byte index is unique: the [start, end] intervals of the lines are disjoint *)
Lemma line_of_index_unique s i l l' : 0 <= l <= count_nl s -> 0 <= l' <= count_nl s ->
  line_start s l <= i <= line_start s l + byte_len (line s l) ->
  line_start s l' <= i <= line_start s l' + byte_len (line s l') -> l = l'.
Proof.
  intros Hl Hl' Hi Hi'.
  destruct (Z.lt_trichotomy l l') as [Hlt|[Heq|Hgt]]; [exfalso| exact Heq | exfalso].
  - pose proof (line_start_next s l Hl). pose proof (line_start_mono s (l + 1) l'). lia.
  - pose proof (line_start_next s l' Hl'). pose proof (line_start_mono s (l' + 1) l). lia.
Qed.

(* ------------------------------------------------------------------------------------------ *)
(* the code before the repair (get_line unclamped, fallback raw_line_span(count_lines) = None):
   kept to record the witness of the defect *)
Definition get_pos_pair_unrepaired (s : str) (index : Z) : Z * Z :=
  let lno := count_lt (nl_indices s) index in
  let lstart := match raw_line_span s lno with
                | Some (a, _) => a
                | None => match raw_line_span s (count_lines s) with Some (a, _) => a | None => 0 end
                end in
  (lno, index - lstart).

(* "a\nb", index 4 (one past the end): line 2 of a two-line text, column 4 *)
Lemma unrepaired_witness :
  get_pos_pair_unrepaired [97; 10; 98] 4 = (2, 4) /\ get_pos_pair_res [97; 10; 98] 4 = Some (1, 2) /\
  get_pos_pair_unrepaired [] 1 = (1, 1) /\ get_pos_pair_res [] 1 = Some (0, 1).
Proof. vm_compute. repeat split. Qed.

(* ------------------------------------------------------------------------------------------ *)
(* the same facts read on the BYTES of the text (what `match_indices('\n')` and the byte offsets
   of the Rust code see): a newline byte occurs exactly at newline code points, because every
   byte of a multi-byte UTF-8 sequence is >= 128                                               *)

Ltac zify_divmod := Z.div_mod_to_equations.

Lemma length_utf8_encode c : Z.of_nat (length (utf8_encode c)) = utf8_len c.
Proof. unfold utf8_encode, utf8_len. repeat destruct (_ <? _); reflexivity. Qed.

Lemma length_utf8_bytes s : Z.of_nat (length (utf8_bytes s)) = byte_len s.
Proof.
  induction s as [|c r IH]; [reflexivity|].
  unfold utf8_bytes in *. cbn [flat_map byte_len]. rewrite app_length, Nat2Z.inj_add, IH, length_utf8_encode.
  reflexivity.
Qed.

Lemma utf8_bytes_app a b : utf8_bytes (a ++ b) = utf8_bytes a ++ utf8_bytes b.
Proof. unfold utf8_bytes. apply flat_map_app. Qed.

Lemma utf8_encode_no_nl c b : valid_cp c -> c <> 10 -> In b (utf8_encode c) -> b <> 10.
Proof.
  unfold valid_cp, utf8_encode. intros Hv Hc Hin.
  destruct (c <? 128) eqn:E1; [cbn in Hin; lia|]. apply Z.ltb_ge in E1.
  destruct (c <? 2048); [|destruct (c <? 65536)]; cbn [In] in Hin;
    repeat (destruct Hin as [<-|Hin]; [zify_divmod; lia|]); destruct Hin.
Qed.

Lemma utf8_bytes_no_nl p b : Forall valid_cp p -> ~ In 10 p -> In b (utf8_bytes p) -> b <> 10.
Proof.
  intros Hv Hn Hin. unfold utf8_bytes in Hin. apply in_flat_map in Hin. destruct Hin as (c & Hc & Hb).
  apply (utf8_encode_no_nl c b); [exact (proj1 (Forall_forall _ _) Hv c Hc)| |exact Hb].
  intros ->. exact (Hn Hc).
Qed.

(* number of newline BYTES = number of newline code points *)
Lemma count_nl_bytes s : Forall valid_cp s ->
  Z.of_nat (count_occ Z.eq_dec (utf8_bytes s) 10) = count_nl s.
Proof.
  induction s as [|c r IH]; intros Hv; [reflexivity|].
  inversion Hv as [|? ? Hc Hr]; subst.
  change (utf8_bytes (c :: r)) with (utf8_encode c ++ utf8_bytes r).
  rewrite count_occ_app, Nat2Z.inj_add, (IH Hr). cbn [count_nl]. f_equal.
  destruct (c =? 10) eqn:E.
  - apply Z.eqb_eq in E. subst c. reflexivity.
  - apply Z.eqb_neq in E.
    replace (count_occ Z.eq_dec (utf8_encode c) 10) with 0%nat; [reflexivity|].
    symmetry. apply count_occ_not_In. intros Hin. exact (utf8_encode_no_nl c 10 Hc E Hin eq_refl).
Qed.

(* no newline byte in [line start, index) *)
Lemma get_pos_pair_no_nl_between s i : Forall valid_cp s -> 0 <= i <= byte_len s ->
  exists l c, get_pos_pair_res s i = Some (l, c) /\ line_start s l + c = i /\
    forall j, line_start s l <= j < i -> nth (Z.to_nat j) (utf8_bytes s) 0 <> 10.
Proof.
  intros Hv Hi. destruct (get_pos_pair_in_range s i Hi) as (l & c & Hres & Hl & Hc & Hsum & Hlen).
  exists l, c. split; [exact Hres|]. split; [exact Hsum|]. intros j Hj.
  destruct (raw_line_decomp s l Hl) as (x & z & Hs & Hx & _).
  pose proof (line_start_nonneg s l) as Hst.
  assert (Hvp : Forall valid_cp (line s l)).
  { apply Forall_forall. intros a Ha. apply (proj1 (Forall_forall _ _) Hv).
    rewrite Hs. apply in_or_app. right. apply in_or_app. left. exact Ha. }
  assert (Hnl : ~ In 10 (line s l)).
  { pose proof (length_lines_of s). apply (lines_of_no_nl s). unfold line. apply nth_In. lia. }
  rewrite Hs, !utf8_bytes_app.
  pose proof (length_utf8_bytes x) as Lx. pose proof (length_utf8_bytes (line s l)) as Lp.
  rewrite app_nth2 by lia. rewrite app_nth1 by lia.
  apply (utf8_bytes_no_nl (line s l)); [exact Hvp|exact Hnl|]. apply nth_In. lia.
Qed.

(* ------------------------------------------------------------------------------------------ *)
(* line_span / read_line cannot panic: every slice is taken at code-point boundaries inside the
   text and no usize subtraction underflows                                                    *)

Lemma is_boundary_from_app x : forall r off, is_boundary_from (x ++ r) off (off + byte_len x) = true.
Proof.
  induction x as [|c x IH]; intros r off.
  - cbn [app byte_len]. destruct r; cbn [is_boundary_from]; rewrite Z.add_0_r, Z.eqb_refl; reflexivity.
  - cbn [app byte_len is_boundary_from].
    replace (off + (utf8_len c + byte_len x)) with (off + utf8_len c + byte_len x) by lia.
    rewrite IH. apply orb_true_r.
Qed.

Lemma is_boundary_app x r : is_boundary (x ++ r) (byte_len x) = true.
Proof. unfold is_boundary. apply (is_boundary_from_app x r 0). Qed.

Lemma slice_mid x y z : slice (x ++ y ++ z) (byte_len x) (byte_len x + byte_len y) = Some y.
Proof.
  unfold slice. pose proof (byte_len_nonneg y).
  replace (byte_len x <=? byte_len x + byte_len y) with true by (symmetry; apply Z.leb_le; lia).
  rewrite is_boundary_app.
  replace (is_boundary (x ++ y ++ z) (byte_len x + byte_len y)) with true.
  - cbn [andb]. f_equal. apply substr_mid.
  - rewrite app_assoc, <- byte_len_app. symmetry. apply is_boundary_app.
Qed.

Lemma usub_ok a b : b <= a -> usub a b = Some (a - b).
Proof. intros H. unfold usub. replace (a <? b) with false by (symmetry; apply Z.ltb_ge; lia). reflexivity. Qed.

Lemma byte_len_trim_end_le t : byte_len (trim_end t) <= byte_len t.
Proof.
  destruct (trim_end_spec t) as (post & H & _). rewrite H at 2. rewrite byte_len_app.
  pose proof (byte_len_nonneg post). lia.
Qed.

Lemma byte_len_trim_start_le t : byte_len (trim_start t) <= byte_len t.
Proof.
  destruct (trim_start_spec t) as (pre & H & _). rewrite H at 2. rewrite byte_len_app.
  pose proof (byte_len_nonneg pre). lia.
Qed.

Lemma line_span_res_ok s l : line_span_res s l = Some (line_span s l).
Proof.
  unfold line_span_res, line_span.
  destruct (Z_le_gt_dec 0 l) as [H0|H0]; [destruct (Z_le_gt_dec l (count_nl s)) as [H1|H1]|].
  - destruct (raw_line_decomp s l (conj H0 H1)) as (x & z & Hs & Hx & Hz).
    assert (Hy : exists y z2, s = x ++ y ++ z2 /\
                 raw_line_span s l = Some (byte_len x, byte_len x + byte_len y)).
    { destruct Hz as [(Hz & _ & Hraw)|(z' & Hz & _ & Hraw)].
      - exists (line s l), z. split; [exact Hs|]. rewrite Hraw, Hx. reflexivity.
      - exists (line s l ++ [10]), z'. split; [rewrite Hs at 1; rewrite Hz, <- app_assoc; reflexivity|].
        rewrite Hraw, Hx, byte_len_app. cbn [byte_len]. rewrite utf8_len_nl. f_equal. f_equal. lia. }
    destruct Hy as (y & z2 & Hs2 & Hraw). rewrite Hraw.
    assert (Hsl : slice s (byte_len x) (byte_len x + byte_len y) = Some y) by (rewrite Hs2 at 1; apply slice_mid).
    assert (Hsub : substr s (byte_len x) (byte_len x + byte_len y) = y) by (rewrite Hs2 at 1; apply substr_mid).
    rewrite Hsl, Hsub. cbv zeta.
    pose proof (byte_len_trim_end_le y). pose proof (byte_len_trim_start_le (trim_end y)).
    pose proof (byte_len_nonneg (trim_end y)). pose proof (byte_len_nonneg x).
    rewrite (usub_ok (byte_len y)) by lia. rewrite !usub_ok by lia. reflexivity.
  - rewrite raw_line_span_none by lia. reflexivity.
  - rewrite raw_line_span_none by lia. reflexivity.
Qed.

Lemma read_line_res_ok s l : read_line_res s l = Some (read_line s l).
Proof.
  unfold read_line_res. rewrite line_span_res_ok.
  destruct (Z_le_gt_dec 0 l) as [H0|H0]; [destruct (Z_le_gt_dec l (count_nl s)) as [H1|H1]|].
  - destruct (line_span_spec s l (conj H0 H1)) as (pre & mid & post & Hp & _ & _ & _ & _ & Hspan & Hread).
    destruct (raw_line_decomp s l (conj H0 H1)) as (x & z & Hs & Hx & _).
    rewrite Hspan, Hread. rewrite <- Hx.
    replace (slice s (byte_len x + byte_len pre) (byte_len x + byte_len pre + byte_len mid)) with (Some mid);
      [reflexivity|].
    symmetry. rewrite Hs, Hp at 1.
    replace (x ++ (pre ++ mid ++ post) ++ z) with ((x ++ pre) ++ mid ++ (post ++ z))
      by (rewrite <- !app_assoc; reflexivity).
    rewrite <- byte_len_app. apply slice_mid.
  - destruct (line_span_none s l) as [-> ->]; [lia|reflexivity].
  - destruct (line_span_none s l) as [-> ->]; [lia|reflexivity].
Qed.
