(* SrcLinesProofs.v — the raw lines of a source text (SourceInfo::raw_line_span, byte offsets
   into the UTF-8 text) concatenate to the text: what the text object format relies on when it
   writes one table row per line and the reader glues the SOURCE column back together. *)
From Coq Require Import ZArith List Bool Lia.
From Model Require Import Tree Text Obj SourceInfo ObjBin ObjText.
From Proofs Require Import ObjBytesProofs.
Import ListNotations.
Open Scope Z_scope.

Lemma utf8_len_pos c : 1 <= utf8_len c.
Proof. unfold utf8_len. repeat match goal with |- context [if ?b then _ else _] => destruct b end; lia. Qed.
Lemma byte_len_nonneg s : 0 <= byte_len s.
Proof. induction s as [|c s IH]; cbn [byte_len]; [lia|]. pose proof (utf8_len_pos c). lia. Qed.

(* generalisation over the starting offset *)
Definition span_from (s : str) (off line : Z) : option (Z * Z) :=
  let nl := nl_from s off in
  if (0 <=? line) && (line <? len nl) then
    let start := if line =? 0 then off else match nth_z nl (line - 1) with Some i => i + 1 | None => 0 end in
    let eof := off + byte_len s in
    let e := match nth_z nl line with Some i => Z.min (i + 1) eof | None => eof end in
    Some (start, e)
  else None.
Definition line_from (s : str) (off k : Z) : str :=
  match span_from s off k with Some (a, b) => sub_from s off a b | None => [] end.

Lemma src_line_from s k : src_line s k = line_from s 0 k.
Proof. reflexivity. Qed.

Lemma nth_z_cons {A} (x : A) l k : 0 <= k -> nth_z (x :: l) k = if k =? 0 then Some x else nth_z l (k - 1).
Proof.
  intro H. unfold nth_z. replace (k <? 0) with false by (symmetry; apply Z.ltb_ge; lia).
  destruct (k =? 0) eqn:E.
  - apply Z.eqb_eq in E. subst. reflexivity.
  - apply Z.eqb_neq in E. replace (k - 1 <? 0) with false by (symmetry; apply Z.ltb_ge; lia).
    replace (Z.to_nat k) with (S (Z.to_nat (k - 1))) by lia. reflexivity.
Qed.

Lemma sub_from_empty s : forall o a b, b <= o -> sub_from s o a b = [].
Proof.
  induction s as [|c s IH]; intros o a b H; [reflexivity|]. cbn [sub_from].
  replace ((a <=? o) && (o <? b)) with false by (symmetry; apply andb_false_iff; right; apply Z.ltb_ge; lia).
  apply IH. pose proof (utf8_len_pos c). lia.
Qed.
Lemma sub_from_lower s : forall o a a' b, a <= o -> a' <= o -> sub_from s o a b = sub_from s o a' b.
Proof.
  induction s as [|c s IH]; intros o a a' b H H'; [reflexivity|]. cbn [sub_from].
  replace (a <=? o) with true by (symmetry; apply Z.leb_le; lia).
  replace (a' <=? o) with true by (symmetry; apply Z.leb_le; lia).
  pose proof (utf8_len_pos c). rewrite (IH (o + utf8_len c) a a' b) by lia. reflexivity.
Qed.

Lemma nl_from_head s : forall off, exists x l, nl_from s off = x :: l /\ off <= x <= off + byte_len s.
Proof.
  induction s as [|c s IH]; intro off; cbn [nl_from byte_len].
  - exists off, []. split; [reflexivity|lia].
  - pose proof (utf8_len_pos c). pose proof (byte_len_nonneg s). destruct (c =? 10).
    + exists off, (nl_from s (off + 1)). split; [reflexivity|lia].
    + destruct (IH (off + utf8_len c)) as (x & l & E & Hx). exists x, l. split; [exact E|lia].
Qed.

Lemma flat_map_ext_in {A B} (f g : A -> list B) l : (forall x, In x l -> f x = g x) -> flat_map f l = flat_map g l.
Proof.
  induction l as [|x l IH]; intro H; [reflexivity|]. cbn [flat_map]. rewrite H by (left; reflexivity).
  rewrite IH by (intros y Hy; apply H; right; exact Hy). reflexivity.
Qed.
Lemma seqz_in i n k : In k (seqz i n) -> i <= k < i + Z.of_nat n.
Proof.
  revert i. induction n as [|n IH]; intros i H; [destruct H|]. cbn [seqz] in H. destruct H as [->|H]; [lia|].
  apply IH in H. lia.
Qed.
Lemma flat_map_seqz_shift {B} (f : Z -> list B) n : forall i, flat_map f (seqz (i + 1) n) = flat_map (fun k => f (k + 1)) (seqz i n).
Proof. induction n as [|n IH]; intro i; [reflexivity|]. cbn [seqz flat_map]. rewrite IH. reflexivity. Qed.

Theorem lines_concat_from s : forall off, 0 <= off ->
  flat_map (line_from s off) (seqz 0 (List.length (nl_from s off))) = s.
Proof.
  induction s as [|c s IH]; intros off Hoff.
  - cbn. reflexivity.
  - pose proof (utf8_len_pos c) as HL. pose proof (byte_len_nonneg s) as HB.
    destruct (c =? 10) eqn:Ec.
    + apply Z.eqb_eq in Ec. subst c. change (utf8_len 10) with 1 in *.
      assert (Enl : nl_from (10 :: s) off = off :: nl_from s (off + 1)) by reflexivity.
      rewrite Enl. cbn [List.length seqz flat_map].
      (* line 0 is "\n" *)
      assert (E0 : line_from (10 :: s) off 0 = [10]).
      { unfold line_from, span_from. rewrite Enl. rewrite len_cons. pose proof (len_nonneg (nl_from s (off + 1))).
        replace ((0 <=? 0) && (0 <? 1 + len (nl_from s (off + 1)))) with true by (symmetry; apply andb_true_iff; split; [apply Z.leb_le|apply Z.ltb_lt]; lia).
        cbn [Z.eqb]. rewrite nth_z_cons by lia. cbn [Z.eqb byte_len]. change (utf8_len 10) with 1.
        replace (Z.min (off + 1) (off + (1 + byte_len s))) with (off + 1) by lia.
        cbn [sub_from]. replace ((off <=? off) && (off <? off + 1)) with true by (symmetry; apply andb_true_iff; split; [apply Z.leb_le|apply Z.ltb_lt]; lia).
        change (utf8_len 10) with 1. rewrite sub_from_empty by lia. reflexivity. }
      rewrite E0. cbn [app]. f_equal.
      change 1 with (0 + 1) at 1. rewrite flat_map_seqz_shift.
      rewrite <- (IH (off + 1)) at 2 by lia. apply flat_map_ext_in. intros k Hk. apply seqz_in in Hk.
      unfold line_from, span_from. rewrite Enl. rewrite len_cons.
      assert (Hbb : (0 <=? k + 1) && (k + 1 <? 1 + len (nl_from s (off + 1))) = (0 <=? k) && (k <? len (nl_from s (off + 1)))).
      { destruct (Z.ltb_spec k (len (nl_from s (off + 1)))); destruct (Z.ltb_spec (k + 1) (1 + len (nl_from s (off + 1)))); try lia;
          destruct (Z.leb_spec 0 k); destruct (Z.leb_spec 0 (k + 1)); try lia; reflexivity. }
      rewrite Hbb.
      destruct ((0 <=? k) && (k <? len (nl_from s (off + 1)))) eqn:Er; [|reflexivity].
      replace (k + 1 =? 0) with false by (symmetry; apply Z.eqb_neq; lia).
      replace (k + 1 - 1) with k by lia.
      rewrite (nth_z_cons off _ (k + 1)) by lia. replace (k + 1 =? 0) with false by (symmetry; apply Z.eqb_neq; lia).
      replace (k + 1 - 1) with k by lia.
      rewrite (nth_z_cons off _ k) by lia.
      cbn [byte_len]. change (utf8_len 10) with 1.
      replace (off + (1 + byte_len s)) with (off + 1 + byte_len s) by lia.
      (* start of line k+1 of the whole = start of line k of the rest *)
      set (st := if k =? 0 then Some off else nth_z (nl_from s (off + 1)) (k - 1)).
      set (st' := if k =? 0 then off + 1 else match nth_z (nl_from s (off + 1)) (k - 1) with Some i => i + 1 | None => 0 end).
      assert (Est : match st with Some i => i + 1 | None => 0 end = st').
      { unfold st, st'. destruct (k =? 0); reflexivity. }
      rewrite Est.
      assert (Hst : off + 1 <= st' \/ st' = 0).
      { unfold st'. destruct (k =? 0); [left; lia|]. destruct (nth_z (nl_from s (off + 1)) (k - 1)) as [i|] eqn:En; [|right; reflexivity].
        left. unfold nth_z in En. destruct (k - 1 <? 0); [discriminate|]. apply nth_error_In in En.
        assert (G : forall s o x, In x (nl_from s o) -> o <= x).
        { clear. induction s as [|c s IH]; intros o x Hx; cbn [nl_from] in Hx.
          - destruct Hx as [->|[]]. lia.
          - pose proof (utf8_len_pos c). destruct (c =? 10).
            + destruct Hx as [->|Hx]; [lia|]. apply IH in Hx. lia.
            + apply IH in Hx. lia. }
        apply G in En. lia. }
      cbn [sub_from]. change (utf8_len 10) with 1.
      destruct Hst as [Hst|Hst].
      * replace ((st' <=? off)) with false by (symmetry; apply Z.leb_gt; lia). cbn [andb]. reflexivity.
      * (* degenerate (cannot happen): start 0; both sides agree anyway when off + 1 > 0 *)
        rewrite Hst. destruct (0 <=? off) eqn:E0'; btrue; [|lia].
        (* 0 <= off: the first character is at offset off >= 0 = start; show the end is <= off impossible... *)
        exfalso. unfold st' in Hst. destruct (k =? 0) eqn:Ek; [lia|].
        destruct (nth_z (nl_from s (off + 1)) (k - 1)) as [i|] eqn:En; [|].
        -- unfold nth_z in En. destruct (k - 1 <? 0); [discriminate|]. apply nth_error_In in En.
           assert (G : forall s o x, In x (nl_from s o) -> o <= x).
           { clear. induction s as [|c s IH]; intros o x Hx; cbn [nl_from] in Hx.
             - destruct Hx as [->|[]]. lia.
             - pose proof (utf8_len_pos c). destruct (c =? 10).
               + destruct Hx as [->|Hx]; [lia|]. apply IH in Hx. lia.
               + apply IH in Hx. lia. }
           apply G in En. lia.
        -- (* k - 1 within range, so nth_z is Some *)
           unfold nth_z in En. btrue. replace (k - 1 <? 0) with false in En by (symmetry; apply Z.ltb_ge; lia).
           apply nth_error_None in En. unfold len in *. lia.
    + (* an ordinary character joins the first line of the rest *)
      assert (Enl : nl_from (c :: s) off = nl_from s (off + utf8_len c)) by (cbn [nl_from]; rewrite Ec; reflexivity).
      rewrite Enl.
      destruct (nl_from_head s (off + utf8_len c)) as (x0 & l0 & E0 & Hx0).
      rewrite E0. cbn [List.length seqz flat_map].
      assert (Hrest : flat_map (line_from (c :: s) off) (seqz (0 + 1) (List.length l0)) = flat_map (line_from s (off + utf8_len c)) (seqz (0 + 1) (List.length l0))).
      { apply flat_map_ext_in. intros k Hk. apply seqz_in in Hk.
        unfold line_from, span_from. rewrite Enl, E0. cbn [byte_len].
        replace (off + (utf8_len c + byte_len s)) with (off + utf8_len c + byte_len s) by lia.
        destruct ((0 <=? k) && (k <? len (x0 :: l0))) eqn:Er; [|reflexivity].
        replace (k =? 0) with false by (symmetry; apply Z.eqb_neq; lia).
        destruct (nth_z (x0 :: l0) (k - 1)) as [i|] eqn:En.
        - assert (Hi : off + utf8_len c <= i).
          { unfold nth_z in En. destruct (k - 1 <? 0); [discriminate|]. apply nth_error_In in En. rewrite <- E0 in En.
            assert (G : forall s o x, In x (nl_from s o) -> o <= x).
            { clear. induction s as [|c s IH]; intros o x Hx; cbn [nl_from] in Hx.
              - destruct Hx as [->|[]]. lia.
              - pose proof (utf8_len_pos c). destruct (c =? 10).
                + destruct Hx as [->|Hx]; [lia|]. apply IH in Hx. lia.
                + apply IH in Hx. lia. }
            apply G in En. exact En. }
          cbn [sub_from]. replace (i + 1 <=? off) with false by (symmetry; apply Z.leb_gt; lia). reflexivity.
        - exfalso. unfold nth_z in En. btrue. replace (k - 1 <? 0) with false in En by (symmetry; apply Z.ltb_ge; lia).
          apply nth_error_None in En. unfold len in *. lia. }
      rewrite Hrest.
      rewrite <- (IH (off + utf8_len c)) at 3 by lia. rewrite E0. cbn [List.length seqz flat_map].
      rewrite app_comm_cons. f_equal.
      (* line 0 *)
      unfold line_from, span_from. rewrite Enl, E0. cbn [byte_len].
      replace (off + (utf8_len c + byte_len s)) with (off + utf8_len c + byte_len s) by lia.
      rewrite len_cons. pose proof (len_nonneg l0).
      replace ((0 <=? 0) && (0 <? 1 + len l0)) with true by (symmetry; apply andb_true_iff; split; [apply Z.leb_le|apply Z.ltb_lt]; lia).
      cbn [Z.eqb]. rewrite nth_z_cons by lia. cbn [Z.eqb].
      cbn [sub_from].
      replace ((off <=? off) && (off <? Z.min (x0 + 1) (off + utf8_len c + byte_len s))) with true
        by (symmetry; apply andb_true_iff; split; [apply Z.leb_le|apply Z.ltb_lt]; lia).
      f_equal. apply sub_from_lower; lia.
Qed.

Theorem src_lines_concat s : flat_map (src_line s) (seqz 0 (List.length (nl_indices s))) = s.
Proof. exact (lines_concat_from s 0 ltac:(lia)). Qed.
