(* StepFrame.v — two facts about the single step of model/Sim.v that the run-control proofs
   (C13) need:
     step_instrs : a step leaves the instruction counter alone or (only when it completes) adds
                   one modulo 2^64;
     step_obs    : the access observer is write-only: changing it before a step changes nothing
                   but the observer after the step.
   Both go through every operation of the state-and-failure monad of Sim.v. *)
From Coq Require Import ZArith List Bool Lia.
From Model Require Import Tree Bits Word Instr Sim.
Import ListNotations.
Open Scope Z_scope.

(* ================================================================== preservation of a field *)
Definition pres {X A} (f : sim -> X) (m : M A) : Prop := forall s, f (fst (m s)) = f s.

Lemma pres_ret {X A} (f : sim -> X) (a : A) : pres f (ret a).
Proof. intro s. reflexivity. Qed.
Lemma pres_fail {X A} (f : sim -> X) b : pres f (@fail A b).
Proof. intro s. reflexivity. Qed.
Lemma pres_err {X A} (f : sim -> X) e : pres f (@err A e).
Proof. intro s. reflexivity. Qed.
Lemma pres_get {X} (f : sim -> X) : pres f get.
Proof. intro s. reflexivity. Qed.
Lemma pres_of_opt {X A} (f : sim -> X) (o : option A) e : pres f (of_opt o e).
Proof. intro s. destruct o; reflexivity. Qed.
Lemma pres_modify {X} (f : sim -> X) g : (forall s, f (g s) = f s) -> pres f (modify g).
Proof. intros H s. cbn. apply H. Qed.
Lemma pres_bind {X A B} (f : sim -> X) (m : M A) (k : A -> M B) :
  pres f m -> (forall a, pres f (k a)) -> pres f (bind m k).
Proof.
  intros Hm Hk s. unfold bind. specialize (Hm s). destruct (m s) as [s1 [a|b]]; cbn in *.
  - rewrite Hk. exact Hm.
  - exact Hm.
Qed.

Ltac pres_step db :=
  lazymatch goal with
  | |- pres _ (bind _ _) => apply pres_bind; [| intro]
  | |- pres _ (ret _) => apply pres_ret
  | |- pres _ (fail _) => apply pres_fail
  | |- pres _ (err _) => apply pres_err
  | |- pres _ get => apply pres_get
  | |- pres _ (of_opt _ _) => apply pres_of_opt
  | |- pres _ (modify _) => apply pres_modify; intro; reflexivity
  | |- pres _ (if ?c then _ else _) => destruct c
  | |- pres _ (match ?x with _ => _ end) => destruct x
  | |- pres _ (let _ := _ in _) => cbv zeta
  | |- pres _ _ => solve [auto with db]
  end.
Ltac pres_tac db := repeat (pres_step db).

(* ------------------------------------------------------------------ the instruction counter *)
Create HintDb instrs_db.

Lemma ireg_write_instrs s r d : s_instrs (ireg_write s r d) = s_instrs s.
Proof. destruct r; reflexivity. Qed.

Lemma pres_instrs_read_mem e a c : pres s_instrs (read_mem e a c).
Proof.
  intro s. unfold read_mem.
  destruct (negb (c_priv c) && negb (in_user a)); [reflexivity|].
  destruct (IO_START <=? a).
  - destruct (assoc (s_ireg s) a).
    + destruct (c_track c); reflexivity.
    + destruct (dev_read e (nth_dev (s_devs s) (port_dev a)) a (c_io c)) as [d' [v|]];
        destruct (c_track c); reflexivity.
  - destruct (c_track c); reflexivity.
Qed.

Lemma pres_instrs_write_mem e a d c : pres s_instrs (write_mem e a d c).
Proof.
  intro s. unfold write_mem.
  destruct (negb (c_priv c) && negb (in_user a)); [reflexivity|].
  destruct (IO_START <=? a).
  - destruct (get_if_init d (c_strict c)) as [io|]; [|reflexivity].
    destruct (assoc (s_ireg s) a) as [r|].
    + destruct (set_if_init d (c_strict c)); destruct (c_track c); cbn;
        try destruct (negb (word_eqb _ _)); cbn; apply ireg_write_instrs.
    + destruct (dev_write e (nth_dev (s_devs s) (port_dev a)) a io) as [d' [|]]; [|reflexivity].
      destruct (set_if_init d (c_strict c)); destruct (c_track c); reflexivity.
  - destruct (set_if_init d (c_strict c)); destruct (c_track c); reflexivity.
Qed.
#[export] Hint Resolve pres_instrs_read_mem pres_instrs_write_mem : instrs_db.

Lemma pres_instrs_set_cc r : pres s_instrs (set_cc r).
Proof. unfold set_cc. pres_tac instrs_db. Qed.
Lemma pres_instrs_set_pc w b : pres s_instrs (set_pc w b).
Proof. unfold set_pc. pres_tac instrs_db. Qed.
#[export] Hint Resolve pres_instrs_set_cc pres_instrs_set_pc : instrs_db.
Lemma pres_instrs_offset_pc o b : pres s_instrs (offset_pc o b).
Proof. unfold offset_pc. pres_tac instrs_db. Qed.
Lemma pres_instrs_push_frame a b ft : pres s_instrs (push_frame a b ft).
Proof.
  unfold push_frame. apply pres_modify. intro s. destruct (s_frames s); [|reflexivity].
  match goal with |- context [let '(_, _) := ?x in _] => destruct x end. reflexivity.
Qed.
Lemma pres_instrs_pop_frame : pres s_instrs pop_frame.
Proof. unfold pop_frame. pres_tac instrs_db. Qed.
Lemma pres_instrs_swap_sp : pres s_instrs swap_sp.
Proof. unfold swap_sp. pres_tac instrs_db. Qed.
#[export] Hint Resolve pres_instrs_offset_pc pres_instrs_push_frame pres_instrs_pop_frame pres_instrs_swap_sp : instrs_db.
Lemma pres_instrs_call_subroutine a : pres s_instrs (call_subroutine a).
Proof. unfold call_subroutine. pres_tac instrs_db. Qed.
Lemma pres_instrs_call_interrupt e v ft : pres s_instrs (call_interrupt e v ft).
Proof. unfold call_interrupt. pres_tac instrs_db. Qed.
#[export] Hint Resolve pres_instrs_call_subroutine pres_instrs_call_interrupt : instrs_db.
Lemma pres_instrs_handle_interrupt e v p : pres s_instrs (handle_interrupt e v p).
Proof. unfold handle_interrupt. pres_tac instrs_db. Qed.
Lemma pres_instrs_set_reg_if_init dr v st : pres s_instrs (set_reg_if_init dr v st).
Proof. unfold set_reg_if_init. pres_tac instrs_db. Qed.
#[export] Hint Resolve pres_instrs_handle_interrupt pres_instrs_set_reg_if_init : instrs_db.
Lemma pres_instrs_exec e i : pres s_instrs (exec e i).
Proof. unfold exec. pres_tac instrs_db. Qed.
Lemma pres_instrs_decode_m w : pres s_instrs (decode_m w).
Proof. unfold decode_m. pres_tac instrs_db. Qed.
#[export] Hint Resolve pres_instrs_exec pres_instrs_decode_m : instrs_db.

Definition U64 : Z := 18446744073709551616.
Definition instrs_post (s s' : sim) (r : unit + brk) : Prop :=
  s_instrs s' = s_instrs s \/ (r = inl tt /\ s_instrs s' = (s_instrs s + 1) mod U64).
Definition post_m (m : M unit) : Prop := forall s, instrs_post s (fst (m s)) (snd (m s)).

Lemma post_of_pres m : pres s_instrs m -> post_m m.
Proof. intros H s. left. apply H. Qed.
Lemma post_bind_pres {A} (m : M A) (k : A -> M unit) :
  pres s_instrs m -> (forall a, post_m (k a)) -> post_m (bind m k).
Proof.
  intros Hm Hk s. unfold bind. specialize (Hm s). destruct (m s) as [s1 [a|b]]; cbn in *.
  - specialize (Hk a s1). unfold instrs_post in *. rewrite <- Hm. exact Hk.
  - left. exact Hm.
Qed.
Lemma post_incr : post_m (modify (fun s => upd_instrs s ((s_instrs s + 1) mod 18446744073709551616))).
Proof. intro s. right. split; reflexivity. Qed.

Lemma step_inner_instrs e : post_m (step_inner e).
Proof.
  unfold step_inner.
  apply post_bind_pres; [pres_tac instrs_db | intros _].
  apply post_bind_pres; [pres_tac instrs_db | intro s0].
  destruct (poll_all e (s_devs s0) (e_draws e) None) as [[ds i] dr].
  apply post_bind_pres; [pres_tac instrs_db | intros _]. cbv zeta.
  assert (F : post_m (s <- get ;;
    w <- read_mem e (s_pc s) (default_ctx s) ;;
    word <- of_opt (get_if_init w (strict s)) StrictPCCurrUninit ;;
    instr <- decode_m word ;;
    offset_pc 1 false ;;;
    modify (fun s => upd_prefetch s false) ;;;
    exec e instr ;;;
    modify (fun s => upd_instrs s ((s_instrs s + 1) mod 18446744073709551616)))).
  { repeat (apply post_bind_pres; [pres_tac instrs_db | intro]). apply post_incr. }
  destruct i as [[v p|]|].
  - destruct (psr_priority (s_psr s0) <? p); [apply post_of_pres; pres_tac instrs_db | exact F].
  - apply post_of_pres. pres_tac instrs_db.
  - exact F.
Qed.

Lemma step_instrs e s s' r : step e s = (s', r) -> instrs_post s s' r.
Proof.
  unfold step. pose proof (step_inner_instrs e s) as H.
  destruct (step_inner e s) as [s1 r1]. cbn [fst snd] in H.
  destruct (negb (fl_real (s_flags s1))).
  { intro E. inversion E; subst. exact H. }
  assert (K : forall v, r1 <> inl tt -> handle_interrupt e v None s1 = (s', r) -> instrs_post s s' r).
  { intros v Hne E. left. pose proof (pres_instrs_handle_interrupt e v None s1) as P.
    rewrite E in P. cbn [fst] in P. rewrite P.
    destruct H as [H|[H _]]; [exact H | contradiction]. }
  destruct r1 as [[]|[|[]|]]; try (intro E; inversion E; subst; exact H);
    apply K; discriminate.
Qed.

(* ================================================================== the observer is write-only *)
Definition oi {A} (m : M A) : Prop :=
  forall s o, exists o', m (upd_obs s o) = (upd_obs (fst (m s)) o', snd (m s)).

Lemma oi_ret {A} (a : A) : oi (ret a).
Proof. intros s o. exists o. reflexivity. Qed.
Lemma oi_fail {A} b : oi (@fail A b).
Proof. intros s o. exists o. reflexivity. Qed.
Lemma oi_err {A} e : oi (@err A e).
Proof. intros s o. exists o. reflexivity. Qed.
Lemma oi_of_opt {A} (x : option A) e : oi (of_opt x e).
Proof. intros s o. exists o. destruct x; reflexivity. Qed.
Lemma oi_modify g : (forall s o, g (upd_obs s o) = upd_obs (g s) o) -> oi (modify g).
Proof. intros H s o. exists o. unfold modify. rewrite H. reflexivity. Qed.
Lemma oi_bind {A B} (m : M A) (k : A -> M B) : oi m -> (forall a, oi (k a)) -> oi (bind m k).
Proof.
  intros Hm Hk s o. unfold bind. destruct (Hm s o) as [o1 E1]. rewrite E1.
  destruct (m s) as [s1 [a|b]]; cbn [fst snd].
  - destruct (Hk a s1 o1) as [o2 E2]. exists o2. exact E2.
  - exists o1. reflexivity.
Qed.
Lemma oi_bind_get {B} (k : sim -> M B) :
  (forall s0, oi (k s0)) -> (forall s0 o x, k (upd_obs s0 o) x = k s0 x) -> oi (bind get k).
Proof.
  intros Hk Hp s o. unfold bind, get. rewrite Hp. destruct (Hk s s o) as [o' E]. exists o'. exact E.
Qed.

Ltac oi_step db :=
  lazymatch goal with
  | |- oi (bind get _) => apply oi_bind_get; [intro | intros; reflexivity]
  | |- oi (bind _ _) => apply oi_bind; [| intro]
  | |- oi (ret _) => apply oi_ret
  | |- oi (fail _) => apply oi_fail
  | |- oi (err _) => apply oi_err
  | |- oi (of_opt _ _) => apply oi_of_opt
  | |- oi (modify _) => apply oi_modify; intros; reflexivity
  | |- oi (if ?c then _ else _) => destruct c
  | |- oi (match ?x with _ => _ end) => destruct x
  | |- oi (let _ := _ in _) => cbv zeta
  | |- oi _ => solve [auto with db]
  end.
Ltac oi_tac db := repeat (oi_step db).

Create HintDb oi_db.

Ltac sim_cbn := cbn [s_mem s_regs s_pc s_psr s_saved_sp s_frame_no s_frames s_sr_defns s_alloca s_instrs
                     s_prefetch s_obs s_mcr s_flags s_ireg s_devs upd_obs upd_mem upd_devs fst snd].

Lemma oi_read_mem e a c : oi (read_mem e a c).
Proof.
  intros s o. unfold read_mem. sim_cbn.
  destruct (negb (c_priv c) && negb (in_user a)); [exists o; reflexivity|].
  destruct (IO_START <=? a).
  - destruct (assoc (s_ireg s) a) as [r|].
    + destruct r; destruct (c_track c); eexists; reflexivity.
    + destruct (dev_read e (nth_dev (s_devs s) (port_dev a)) a (c_io c)) as [d' [v|]];
        destruct (c_track c); eexists; reflexivity.
  - destruct (c_track c); eexists; reflexivity.
Qed.

Lemma oi_write_mem e a d c : oi (write_mem e a d c).
Proof.
  intros s o. unfold write_mem. sim_cbn.
  destruct (negb (c_priv c) && negb (in_user a)); [exists o; reflexivity|].
  destruct (IO_START <=? a).
  - destruct (get_if_init d (c_strict c)) as [io|]; [|exists o; reflexivity].
    destruct (assoc (s_ireg s) a) as [r|].
    + destruct r; cbn [ireg_write]; sim_cbn;
        destruct (c_track c); sim_cbn;
        try (destruct (negb (word_eqb _ d)));
        destruct (set_if_init d (c_strict c)); eexists; reflexivity.
    + destruct (dev_write e (nth_dev (s_devs s) (port_dev a)) a io) as [d' [|]]; [|eexists; reflexivity].
      sim_cbn. destruct (c_track c); sim_cbn;
        try (destruct (negb (word_eqb _ d)));
        destruct (set_if_init d (c_strict c)); eexists; reflexivity.
  - destruct (c_track c); sim_cbn;
      try (destruct (negb (word_eqb _ d)));
      destruct (set_if_init d (c_strict c)); eexists; reflexivity.
Qed.
#[export] Hint Resolve oi_read_mem oi_write_mem : oi_db.

Lemma oi_set_cc r : oi (set_cc r).
Proof. unfold set_cc. oi_tac oi_db. Qed.
Lemma oi_set_pc w b : oi (set_pc w b).
Proof. unfold set_pc. oi_tac oi_db. Qed.
#[export] Hint Resolve oi_set_cc oi_set_pc : oi_db.
Lemma oi_offset_pc o b : oi (offset_pc o b).
Proof. unfold offset_pc. oi_tac oi_db. Qed.
Lemma oi_push_frame a b ft : oi (push_frame a b ft).
Proof.
  unfold push_frame. apply oi_modify. intros s o. sim_cbn.
  destruct (s_frames s); [|reflexivity].
  match goal with |- context [let '(_, _) := ?x in _] => destruct x end. reflexivity.
Qed.
Lemma oi_pop_frame : oi pop_frame.
Proof. unfold pop_frame. oi_tac oi_db. Qed.
Lemma oi_swap_sp : oi swap_sp.
Proof. unfold swap_sp. oi_tac oi_db. Qed.
#[export] Hint Resolve oi_offset_pc oi_push_frame oi_pop_frame oi_swap_sp : oi_db.
Lemma oi_call_subroutine a : oi (call_subroutine a).
Proof. unfold call_subroutine. oi_tac oi_db. Qed.
Lemma oi_call_interrupt e v ft : oi (call_interrupt e v ft).
Proof. unfold call_interrupt. oi_tac oi_db. Qed.
#[export] Hint Resolve oi_call_subroutine oi_call_interrupt : oi_db.
Lemma oi_handle_interrupt e v p : oi (handle_interrupt e v p).
Proof. unfold handle_interrupt. oi_tac oi_db. Qed.
Lemma oi_set_reg_if_init dr v st : oi (set_reg_if_init dr v st).
Proof. unfold set_reg_if_init. oi_tac oi_db. Qed.
#[export] Hint Resolve oi_handle_interrupt oi_set_reg_if_init : oi_db.
Lemma oi_exec e i : oi (exec e i).
Proof. unfold exec. oi_tac oi_db. Qed.
Lemma oi_decode_m w : oi (decode_m w).
Proof. unfold decode_m. oi_tac oi_db. Qed.
#[export] Hint Resolve oi_exec oi_decode_m : oi_db.
Lemma oi_step_inner e : oi (step_inner e).
Proof. unfold step_inner. oi_tac oi_db. Qed.

Lemma step_obs e s o :
  exists o', step e (upd_obs s o) = (upd_obs (fst (step e s)) o', snd (step e s)).
Proof.
  unfold step. destruct (oi_step_inner e s o) as [o1 E1]. rewrite E1.
  destruct (step_inner e s) as [s1 r1]. cbn [fst snd]. sim_cbn.
  destruct (negb (fl_real (s_flags s1))); [exists o1; reflexivity|].
  destruct r1 as [[]|[|[]|]]; try (exists o1; reflexivity); apply oi_handle_interrupt.
Qed.
