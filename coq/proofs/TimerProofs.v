(* TimerProofs.v — proofs about model/Timer.v for C34. *)
From Coq Require Import ZArith List Bool Lia Arith.
From Model Require Import Tree Timer.
From Spec Require Import TimerSpec.
Import ListNotations.
Open Scope Z_scope.

(* The draw oracle keeps the contract of random_range for the range r (every draw inside r), r is
   not empty and its lower end is a u32 (>= 0). *)
Definition draws_ok (g : nat -> Z) (r : srange) : Prop := forall k, in_range r (g k) = true.
Definition timer_ok (g : nat -> Z) (t : timer) : Prop :=
  range_nonempty (t_range t) = true /\ 0 <= range_lo (t_range t) /\ draws_ok g (t_range t).

Lemma in_range_iff r d : in_range r d = true <-> range_lo r <= d <= range_hi r.
Proof. unfold in_range. rewrite andb_true_iff, !Z.leb_le. tauto. Qed.

Lemma draw_bounds g t k : timer_ok g t -> range_lo (t_range t) <= g k <= range_hi (t_range t).
Proof. intros (_ & _ & Hd). apply in_range_iff, Hd. Qed.

Lemma timer_ok_same_range g t t' : t_range t' = t_range t -> timer_ok g t -> timer_ok g t'.
Proof. unfold timer_ok. intros ->. tauto. Qed.

Lemma reset_ok g t : timer_ok g t ->
  reset_remaining g t = TOk (with_time t (g (t_drawn t)) (S (t_drawn t))).
Proof.
  intros (Hn & _ & Hd). unfold reset_remaining, gen_time. rewrite Hn, (Hd (t_drawn t)). reflexivity.
Qed.

(* what a poll does when the oracle keeps its contract *)
Definition poll_next (g : nat -> Z) (t : timer) : timer * option (Z * Z) :=
  if negb (t_enabled t) then (t, None)
  else if t_time t =? 0 then
    let t' := with_time t (g (t_drawn t)) (S (t_drawn t)) in
    (t', if g (t_drawn t) =? 0 then Some (timer_interrupt t') else None)
  else if t_time t =? 1 then (with_time t 0 (t_drawn t), Some (timer_interrupt t))
  else (with_time t (t_time t - 1) (t_drawn t), None).

Lemma poll_ok g t : timer_ok g t -> timer_poll g t = TOk (poll_next g t).
Proof.
  intros H. unfold timer_poll, poll_next. destruct (negb (t_enabled t)); [reflexivity|].
  destruct (t_time t =? 0); [|destruct (t_time t =? 1); reflexivity].
  rewrite (reset_ok g t H). reflexivity.
Qed.

Lemma poll_next_range g t : t_range (fst (poll_next g t)) = t_range t.
Proof.
  unfold poll_next. destruct (negb (t_enabled t)); [reflexivity|].
  destruct (t_time t =? 0); [reflexivity|]. destruct (t_time t =? 1); reflexivity.
Qed.
Lemma poll_next_enabled g t : t_enabled (fst (poll_next g t)) = t_enabled t.
Proof.
  unfold poll_next. destruct (negb (t_enabled t)); [reflexivity|].
  destruct (t_time t =? 0); [reflexivity|]. destruct (t_time t =? 1); reflexivity.
Qed.

Definition fired (f : option (Z * Z)) : bool := match f with Some _ => true | None => false end.

Lemma poll_n_S g t n : timer_ok g t ->
  timer_poll_n g t (S n) =
  match timer_poll_n g (fst (poll_next g t)) n with
  | TOk (l, t'') => TOk (fired (snd (poll_next g t)) :: l, t'')
  | TPanic => TPanic
  | TBadDraw => TBadDraw
  end.
Proof.
  intros H. cbn [timer_poll_n]. rewrite (poll_ok g t H). destruct (poll_next g t) as [t' f]. reflexivity.
Qed.

(* polls never panic while the oracle keeps its contract, and keep range and enabled flag *)
Lemma poll_n_total g : forall n t, timer_ok g t ->
  exists l t', timer_poll_n g t n = TOk (l, t') /\ t_range t' = t_range t /\ t_enabled t' = t_enabled t
               /\ length l = n.
Proof.
  induction n as [|n IH]; intros t H.
  - exists [], t. repeat split; reflexivity.
  - rewrite (poll_n_S g t n H).
    destruct (IH (fst (poll_next g t))) as (l & t' & E & Hr & He & Hl).
    { eapply timer_ok_same_range; [apply poll_next_range|exact H]. }
    rewrite E. eexists _, t'. split; [reflexivity|].
    rewrite Hr, He, poll_next_range, poll_next_enabled. cbn [length]. auto.
Qed.

Lemma poll_n_app g : forall a b t, timer_ok g t ->
  timer_poll_n g t (a + b) =
  match timer_poll_n g t a with
  | TOk (l1, t1) => match timer_poll_n g t1 b with
                    | TOk (l2, t2) => TOk (l1 ++ l2, t2)
                    | TPanic => TPanic | TBadDraw => TBadDraw
                    end
  | TPanic => TPanic | TBadDraw => TBadDraw
  end.
Proof.
  induction a as [|a IH]; intros b t H.
  - cbn [Nat.add timer_poll_n]. destruct (timer_poll_n g t b) as [[l2 t2]| |]; reflexivity.
  - change (S a + b)%nat with (S (a + b)). rewrite !(poll_n_S g t _ H).
    rewrite IH by (eapply timer_ok_same_range; [apply poll_next_range|exact H]).
    destruct (timer_poll_n g (fst (poll_next g t)) a) as [[l1 t1]| |]; [|reflexivity|reflexivity].
    destruct (timer_poll_n g t1 b) as [[l2 t2]| |]; reflexivity.
Qed.

(* ---- the gap statement ---- *)
Definition gap_inv (lo hi : Z) (seen : bool) (cur : Z) (t : timer) : Prop :=
  seen = true ->
  (t_time t = 0 /\ cur = 0) \/ (1 <= t_time t /\ 1 <= cur /\ lo <= cur + t_time t - 1 <= hi).

Lemma poll_n_gaps g r : forall n t seen cur,
  t_range t = r -> timer_ok g t -> t_enabled t = true ->
  gap_inv (range_lo r) (range_hi r) seen cur t ->
  exists l t', timer_poll_n g t n = TOk (l, t') /\
               all_within (range_lo r) (range_hi r) (gaps_from seen cur l).
Proof.
  induction n as [|n IH]; intros t seen cur Hr Hok Hen Hinv.
  - exists [], t. split; [reflexivity|constructor].
  - rewrite (poll_n_S g t n Hok).
    pose proof (draw_bounds g t (t_drawn t) Hok) as Hd. rewrite Hr in Hd.
    assert (Hlo : 0 <= range_lo r) by (rewrite <- Hr; apply Hok).
    unfold poll_next. rewrite Hen. cbn [negb].
    destruct (t_time t =? 0) eqn:E0; [|destruct (t_time t =? 1) eqn:E1].
    + apply Z.eqb_eq in E0. cbn [fst snd].
      set (t1 := with_time t (g (t_drawn t)) (S (t_drawn t))).
      destruct (g (t_drawn t) =? 0) eqn:Ed.
      * apply Z.eqb_eq in Ed.
        destruct (IH t1 true 0) as (l & t' & E & Hw); try assumption; try reflexivity.
        { intros _. left. split; [exact Ed|reflexivity]. }
        rewrite E. eexists _, t'. split; [reflexivity|]. cbn [fired gaps_from].
        apply Forall_app. split; [|exact Hw].
        destruct seen; [|constructor]. constructor; [|constructor].
        destruct (Hinv eq_refl) as [[_ ->]|[Ht _]]; lia.
      * apply Z.eqb_neq in Ed.
        destruct (IH t1 seen (cur + 1)) as (l & t' & E & Hw); try assumption; try reflexivity.
        { intros Hs. right. destruct (Hinv Hs) as [[_ ->]|[Ht _]]; [|lia].
          change (t_time t1) with (g (t_drawn t)). lia. }
        rewrite E. eexists _, t'. split; [reflexivity|]. cbn [fired gaps_from]. exact Hw.
    + apply Z.eqb_eq in E1. cbn [fst snd].
      destruct (IH (with_time t 0 (t_drawn t)) true 0) as (l & t' & E & Hw); try assumption; try reflexivity.
      { intros _. left. split; reflexivity. }
      rewrite E. eexists _, t'. split; [reflexivity|]. cbn [fired gaps_from].
      apply Forall_app. split; [|exact Hw].
      destruct seen; [|constructor]. constructor; [|constructor].
      destruct (Hinv eq_refl) as [[Ht _]|(_ & _ & Hb)]; lia.
    + apply Z.eqb_neq in E0. apply Z.eqb_neq in E1. cbn [fst snd].
      destruct (IH (with_time t (t_time t - 1) (t_drawn t)) seen (cur + 1)) as (l & t' & E & Hw);
        try assumption; try reflexivity.
      { intros Hs. right. destruct (Hinv Hs) as [[Ht _]|(Ht & Hc & Hb)]; [lia|].
        change (t_time (with_time t (t_time t - 1) (t_drawn t))) with (t_time t - 1). lia. }
      rewrite E. eexists _, t'. split; [reflexivity|]. cbn [fired gaps_from]. exact Hw.
Qed.

(* C34_gap: for every oracle within the range, every number of polls, from every state *)
Lemma gap_within g t n :
  timer_ok g t -> t_enabled t = true ->
  exists l t', timer_poll_n g t n = TOk (l, t') /\
               all_within (range_lo (t_range t)) (range_hi (t_range t)) (gaps l).
Proof.
  intros Hok Hen. apply (poll_n_gaps g (t_range t) n t false 0); auto. intros H. discriminate H.
Qed.

Lemma gap_exact g t n c :
  timer_ok g t -> t_enabled t = true -> range_lo (t_range t) = c -> range_hi (t_range t) = c ->
  exists l t', timer_poll_n g t n = TOk (l, t') /\ Forall (fun x => x = c) (gaps l).
Proof.
  intros Hok Hen Hl Hh. destruct (gap_within g t n Hok Hen) as (l & t' & E & Hw).
  exists l, t'. split; [exact E|]. rewrite Hl, Hh in Hw.
  eapply Forall_impl; [|exact Hw]. cbn beta. intros. lia.
Qed.

(* ---- countdown: the gap IS the draw ---- *)
Lemma countdown g : forall k t, t_enabled t = true -> t_time t = Z.of_nat (S k) ->
  timer_poll_n g t (S k) = TOk (repeat false k ++ [true], with_time t 0 (t_drawn t)).
Proof.
  induction k as [|k IH]; intros t Hen Ht.
  - cbn [timer_poll_n]. unfold timer_poll. rewrite Hen. cbn [negb]. rewrite Ht. reflexivity.
  - assert (E0 : t_time t =? 0 = false) by (apply Z.eqb_neq; lia).
    assert (E1 : t_time t =? 1 = false) by (apply Z.eqb_neq; lia).
    change (timer_poll_n g t (S (S k))) with
      (match timer_poll g t with
       | TOk (t', f) => match timer_poll_n g t' (S k) with
                        | TOk (l, t'') => TOk ((match f with Some _ => true | None => false end) :: l, t'')
                        | TPanic => TPanic | TBadDraw => TBadDraw end
       | TPanic => TPanic | TBadDraw => TBadDraw end).
    unfold timer_poll. rewrite Hen. cbn [negb]. rewrite E0, E1.
    rewrite (IH (with_time t (t_time t - 1) (t_drawn t))); [reflexivity|exact Hen|].
    change (t_time (with_time t (t_time t - 1) (t_drawn t))) with (t_time t - 1). lia.
Qed.

Lemma gap_is_draw g t :
  timer_ok g t -> t_enabled t = true -> t_time t = 0 ->
  timer_poll_n g t (S (Z.to_nat (g (t_drawn t)))) =
  TOk (repeat false (Z.to_nat (g (t_drawn t))) ++ [true], with_time t 0 (S (t_drawn t))).
Proof.
  intros Hok Hen Ht. pose proof (draw_bounds g t (t_drawn t) Hok) as Hd.
  destruct Hok as (Hne & Hlo & Hdr). assert (Hok : timer_ok g t) by (repeat split; assumption).
  rewrite (poll_n_S g t _ Hok). unfold poll_next. rewrite Hen. cbn [negb].
  rewrite Ht. cbn [Z.eqb fst snd].
  set (d := g (t_drawn t)) in *. set (t1 := with_time t d (S (t_drawn t))).
  destruct (d =? 0) eqn:Ed.
  - apply Z.eqb_eq in Ed. rewrite Ed. cbn [Z.to_nat timer_poll_n repeat app fired].
    unfold t1. rewrite Ed. reflexivity.
  - apply Z.eqb_neq in Ed.
    destruct (Z.to_nat d) as [|k] eqn:Ek; [lia|].
    rewrite (countdown g k t1); [reflexivity|exact Hen|].
    change (t_time t1) with d. lia.
Qed.

(* ---- the first interrupt ---- *)
Lemma first_fire_repeat k l : first_fire (repeat false k ++ true :: l) = Some (Z.of_nat k).
Proof.
  induction k as [|k IH]; [reflexivity|].
  cbn [repeat app first_fire]. rewrite IH. f_equal. lia.
Qed.

Lemma first_within g t :
  timer_ok g t -> t_enabled t = true -> 0 <= t_time t <= range_hi (t_range t) ->
  exists l t', timer_poll_n g t (Z.to_nat (range_hi (t_range t) + 1)) = TOk (l, t') /\
               exists k, first_fire l = Some k /\ 0 <= k <= range_hi (t_range t).
Proof.
  intros Hok Hen Hb. set (hi := range_hi (t_range t)) in *.
  pose proof (draw_bounds g t (t_drawn t) Hok) as Hd. fold hi in Hd.
  assert (Hlo : 0 <= range_lo (t_range t)) by (apply Hok).
  destruct (Z.eq_dec (t_time t) 0) as [E0|N0].
  - (* a draw d, then d polls, then the interrupt *)
    pose proof (gap_is_draw g t Hok Hen E0) as G.
    set (d := g (t_drawn t)) in *.
    replace (Z.to_nat (hi + 1)) with (S (Z.to_nat d) + (Z.to_nat hi - Z.to_nat d))%nat by lia.
    rewrite (poll_n_app g _ _ t Hok). rewrite G.
    destruct (poll_n_total g (Z.to_nat hi - Z.to_nat d) (with_time t 0 (S (t_drawn t)))) as (l2 & t2 & E2 & _).
    { eapply timer_ok_same_range; [|exact Hok]. reflexivity. }
    rewrite E2. eexists _, t2. split; [reflexivity|].
    exists d. rewrite <- app_assoc. cbn [app]. rewrite first_fire_repeat. split; [f_equal|]; lia.
  - destruct (Z.to_nat (t_time t)) as [|k] eqn:Ek; [lia|].
    replace (Z.to_nat (hi + 1)) with (S k + (Z.to_nat (hi + 1) - S k))%nat by lia.
    rewrite (poll_n_app g _ _ t Hok). rewrite (countdown g k t Hen) by lia.
    destruct (poll_n_total g (Z.to_nat (hi + 1) - S k) (with_time t 0 (t_drawn t))) as (l2 & t2 & E2 & _).
    { eapply timer_ok_same_range; [|exact Hok]. reflexivity. }
    rewrite E2. eexists _, t2. split; [reflexivity|].
    exists (Z.of_nat k). rewrite <- app_assoc. cbn [app]. rewrite first_fire_repeat. split; [reflexivity|lia].
Qed.

(* ---- histories ---- *)
Definition keeps_range (o : timer_op) : Prop :=
  match o with OSetRange _ _ | OSetExact _ => False | _ => True end.

Definition time_inv (t : timer) : Prop := 0 <= t_time t <= range_hi (t_range t).

Lemma step_keeps g t o : timer_ok g t -> time_inv t -> keeps_range o ->
  exists t' f, timer_step g t o = TOk (t', f) /\ t_range t' = t_range t /\ time_inv t'.
Proof.
  intros Hok Hinv Hk. pose proof (draw_bounds g t (t_drawn t) Hok) as Hd.
  assert (Hlo : 0 <= range_lo (t_range t)) by (apply Hok).
  unfold time_inv in *.
  destruct o; cbn [timer_step keeps_range] in *; try contradiction.
  - rewrite (poll_ok g t Hok). eexists _, _. split; [apply f_equal, surjective_pairing|].
    split; [apply poll_next_range|]. rewrite poll_next_range.
    unfold poll_next. destruct (negb (t_enabled t)); [exact Hinv|].
    destruct (t_time t =? 0) eqn:E0; [cbn [fst t_time with_time]; lia|].
    destruct (t_time t =? 1) eqn:E1; cbn [fst t_time with_time]; [lia|].
    apply Z.eqb_neq in E0. apply Z.eqb_neq in E1. lia.
  - eexists _, _. split; [reflexivity|]. split; [reflexivity|exact Hinv].
  - eexists _, _. split; [reflexivity|]. split; [reflexivity|exact Hinv].
  - rewrite (reset_ok g t Hok). eexists _, _. split; [reflexivity|]. split; [reflexivity|].
    cbn [t_time t_range with_time]. lia.
  - unfold timer_io_reset. rewrite (reset_ok g t Hok). eexists _, _. split; [reflexivity|]. split; [reflexivity|].
    cbn [t_time t_range with_time]. lia.
  - eexists _, _. split; [reflexivity|]. split; [reflexivity|exact Hinv].
  - eexists _, _. split; [reflexivity|]. split; [reflexivity|exact Hinv].
Qed.

Lemma run_state_keeps g : forall ops t, timer_ok g t -> time_inv t -> Forall keeps_range ops ->
  t_range (timer_run_state g t ops) = t_range t /\ time_inv (timer_run_state g t ops).
Proof.
  induction ops as [|o r IH]; intros t Hok Hinv Hall.
  - split; [reflexivity|exact Hinv].
  - inversion Hall as [|? ? Ho Hr]; subst.
    destruct (step_keeps g t o Hok Hinv Ho) as (t' & f & E & Hrg & Hi).
    cbn [timer_run_state]. rewrite E.
    destruct (IH t') as [H1 H2]; auto.
    { eapply timer_ok_same_range; [exact Hrg|exact Hok]. }
    split; [congruence|exact H2].
Qed.

Lemma timer_new_ok g s e v p t0 :
  timer_new g s e v p = TOk t0 ->
  range_nonempty (t_range t0) = true /\ in_range (t_range t0) (t_time t0) = true /\
  t_enabled t0 = false /\ t_vect t0 = v /\ t_prio t0 = p.
Proof.
  unfold timer_new. destruct (srange_new s e) as [r| |]; try discriminate.
  unfold reset_remaining, gen_time. cbn [t_range t_drawn].
  destruct (range_nonempty r) eqn:En; [|discriminate].
  destruct (in_range r (g O)) eqn:Ei; [|discriminate].
  intros H. injection H as <-. cbn. auto.
Qed.

(* first interrupt after creation + any history that keeps the range and leaves the timer enabled *)
Lemma first_after_history g s e v p t0 ops :
  timer_new g s e v p = TOk t0 -> 0 <= range_lo (t_range t0) -> draws_ok g (t_range t0) ->
  Forall keeps_range ops -> t_enabled (timer_run_state g t0 ops) = true ->
  exists l t', timer_poll_n g (timer_run_state g t0 ops) (Z.to_nat (range_hi (t_range t0) + 1)) = TOk (l, t') /\
               exists k, first_fire l = Some k /\ 0 <= k <= range_hi (t_range t0).
Proof.
  intros Hnew Hlo Hd Hall Hen.
  destruct (timer_new_ok g s e v p t0 Hnew) as (Hne & Hin & _).
  assert (Hok : timer_ok g t0) by (repeat split; assumption).
  assert (Hinv : time_inv t0) by (apply in_range_iff in Hin; unfold time_inv; lia).
  destruct (run_state_keeps g ops t0 Hok Hinv Hall) as [Hr Hi].
  rewrite <- Hr. apply first_within; [|exact Hen|exact Hi].
  eapply timer_ok_same_range; [exact Hr|exact Hok].
Qed.

(* ---- a disabled timer ---- *)
Definition quiet (o : timer_obs) : Prop := match o with ObsOk f _ _ => f = None | _ => True end.

Lemma disabled_quiet g : forall ops t, t_enabled t = false -> ~ In OEnable ops -> Forall quiet (timer_run g t ops).
Proof.
  induction ops as [|o r IH]; intros t Hd Hn; [constructor|].
  assert (Hr : ~ In OEnable r) by (intros H; apply Hn; right; exact H).
  assert (Ho : o <> OEnable) by (intros ->; apply Hn; left; reflexivity).
  cbn [timer_run].
  destruct (timer_step g t o) as [[t' f]| |] eqn:E.
  - assert (f = None /\ t_enabled t' = false) as [-> Hd'].
    { destruct o; cbn [timer_step] in E.
      - unfold timer_poll in E. rewrite Hd in E. cbn [negb] in E. injection E as <- <-. auto.
      - contradiction.
      - injection E as <- <-. auto.
      - destruct (reset_remaining g t) as [t1| |] eqn:E1; try discriminate. injection E as <- <-.
        unfold reset_remaining in E1. destruct (gen_time g (t_range t) (t_drawn t)) as [[d k]| |]; try discriminate.
        injection E1 as <-. auto.
      - unfold timer_io_reset in E. destruct (reset_remaining g t) as [t1| |] eqn:E1; try discriminate. injection E as <- <-.
        unfold reset_remaining in E1. destruct (gen_time g (t_range t) (t_drawn t)) as [[d k]| |]; try discriminate.
        injection E1 as <-. auto.
      - unfold set_range in E. destruct (srange_new s e) as [r1| |]; try discriminate. injection E as <- <-. auto.
      - unfold set_exact, set_range in E. destruct (srange_new (BIncl n) (BIncl n)) as [r1| |]; try discriminate.
        injection E as <- <-. auto.
      - injection E as <- <-. auto.
      - injection E as <- <-. auto. }
    constructor; [reflexivity|]. apply IH; assumption.
  - constructor; [exact Logic.I|]. apply IH; assumption.
  - constructor; [exact Logic.I|constructor].
Qed.

(* ---- the observations are a function of configuration, history and draws ---- *)
Lemma step_ext g g' t o : g (t_drawn t) = g' (t_drawn t) -> timer_step g t o = timer_step g' t o.
Proof.
  intros E.
  assert (R : reset_remaining g t = reset_remaining g' t) by (unfold reset_remaining, gen_time; rewrite E; reflexivity).
  destruct o; cbn [timer_step]; try reflexivity.
  - unfold timer_poll. rewrite R. reflexivity.
  - rewrite R. reflexivity.
  - unfold timer_io_reset. rewrite R. reflexivity.
Qed.

Lemma step_drawn g t o t' f : timer_step g t o = TOk (t', f) -> (t_drawn t' <= S (t_drawn t))%nat.
Proof.
  assert (R : forall t1, reset_remaining g t = TOk t1 -> t_drawn t1 = S (t_drawn t)).
  { intros t1. unfold reset_remaining, gen_time. destruct (range_nonempty (t_range t)); [|discriminate].
    destruct (in_range (t_range t) (g (t_drawn t))); [|discriminate]. intros H. injection H as <-. reflexivity. }
  destruct o; cbn [timer_step]; intros E.
  - unfold timer_poll in E. destruct (negb (t_enabled t)); [injection E as <- <-; lia|].
    destruct (t_time t =? 0).
    + destruct (reset_remaining g t) as [t1| |] eqn:E1; try discriminate. injection E as <- <-.
      rewrite (R t1 eq_refl). lia.
    + destruct (t_time t =? 1); injection E as <- <-; cbn; lia.
  - injection E as <- <-. cbn. lia.
  - injection E as <- <-. cbn. lia.
  - destruct (reset_remaining g t) as [t1| |] eqn:E1; try discriminate. injection E as <- <-. rewrite (R t1 eq_refl). lia.
  - unfold timer_io_reset in E. destruct (reset_remaining g t) as [t1| |] eqn:E1; try discriminate. injection E as <- <-. rewrite (R t1 eq_refl). lia.
  - unfold set_range in E. destruct (srange_new s e) as [r1| |]; try discriminate. injection E as <- <-. cbn. lia.
  - unfold set_exact, set_range in E. destruct (srange_new (BIncl n) (BIncl n)) as [r1| |]; try discriminate. injection E as <- <-. cbn. lia.
  - injection E as <- <-. cbn. lia.
  - injection E as <- <-. cbn. lia.
Qed.

Lemma run_ext g g' : forall ops t,
  (forall k, (k < t_drawn t + length ops)%nat -> g k = g' k) -> timer_run g t ops = timer_run g' t ops.
Proof.
  induction ops as [|o r IH]; intros t H; [reflexivity|].
  cbn [timer_run]. cbn [length] in H.
  rewrite <- (step_ext g g' t o) by (apply H; lia).
  destruct (timer_step g t o) as [[t' f]| |] eqn:E.
  - f_equal. apply IH. intros k Hk. apply H. pose proof (step_drawn g t o t' f E). lia.
  - f_equal. apply IH. intros k Hk. apply H. lia.
  - reflexivity.
Qed.

(* creation + history: what is observed from a timer made with the same arguments *)
Definition observe (g : nat -> Z) (s e : bound) (v p : Z) (ops : list timer_op) : option (Z * list timer_obs) :=
  match timer_new g s e v p with
  | TOk t0 => Some (t_time t0, timer_run g t0 ops)
  | _ => None
  end.

Lemma observe_ext g g' s e v p ops :
  (forall k, (k <= length ops)%nat -> g k = g' k) -> observe g s e v p ops = observe g' s e v p ops.
Proof.
  intros H. unfold observe, timer_new.
  destruct (srange_new s e) as [r| |]; try reflexivity.
  unfold reset_remaining, gen_time. cbn [t_range t_drawn]. rewrite <- (H O) by lia.
  destruct (range_nonempty r); [|reflexivity]. destruct (in_range r (g O)); [|reflexivity].
  f_equal. f_equal. apply run_ext. cbn [t_drawn with_time]. intros k Hk. apply H. lia.
Qed.

(* ---- the unrepaired transition (what poll_interrupt did before the fix), for the record ---- *)
Definition poll_unrepaired (g : nat -> Z) (t : timer) : tres (timer * option (Z * Z)) :=
  if negb (t_enabled t) then TOk (t, None)
  else if t_time t =? 0 then
    match reset_remaining g t with
    | TOk t' => TOk (t', None)
    | TPanic => TPanic
    | TBadDraw => TBadDraw
    end
  else if t_time t =? 1 then TOk (with_time t 0 (t_drawn t), Some (timer_interrupt t))
  else TOk (with_time t (t_time t - 1) (t_drawn t), None).
Fixpoint poll_n_unrepaired (g : nat -> Z) (t : timer) (n : nat) : list bool :=
  match n with
  | O => []
  | S k => match poll_unrepaired g t with
           | TOk (t', f) => fired f :: poll_n_unrepaired g t' k
           | _ => []
           end
  end.

(* range 0..=1, draws (index 1, 2) = 0, 1: two polls between the two interrupts *)
Lemma unrepaired_gap_refuted :
  exists g t n, timer_ok g t /\ t_enabled t = true /\
    ~ all_within (range_lo (t_range t)) (range_hi (t_range t)) (gaps (poll_n_unrepaired g t n)).
Proof.
  exists (fun k => match k with 1%nat => 0 | _ => 1 end).
  exists (mk_timer (mk_srange 0 1 true) 1 129 4 true 1%nat), 4%nat.
  split; [|split; [reflexivity|]].
  - split; [reflexivity|]. split; [cbn; lia|]. intros k.
    destruct k as [|[|k]]; reflexivity.
  - set (l := gaps _). assert (E : l = [2]) by (vm_compute; reflexivity). rewrite E.
    intros H. inversion H as [|? ? Hb _].
    cbn [range_lo range_hi t_range r_start r_end r_incl] in Hb. lia.
Qed.

(* an exact count of 0 never fired *)
Lemma unrepaired_exact0_silent : forall n t,
  t_range t = mk_srange 0 0 true -> t_enabled t = true -> t_time t = 0 ->
  poll_n_unrepaired (fun _ => 0) t n = repeat false n.
Proof.
  induction n as [|n IH]; intros t Hr He Ht; [reflexivity|].
  cbn [poll_n_unrepaired repeat]. unfold poll_unrepaired, reset_remaining, gen_time.
  rewrite He, Ht, Hr. cbn [negb Z.eqb]. cbn [range_nonempty range_lo range_hi r_start r_end r_incl in_range Z.leb Z.compare andb fired].
  f_equal. apply IH; reflexivity || (cbn; assumption).
Qed.
