(* TrapFlagProofs.v — the `use_real_traps` flag is read in two places only (C12):
   [handle_interrupt] for traps/exceptions (priority None) and the dispatch of [step].
   [FI sh m]: the computation m preserves the flags and commutes with setting the flag, unless it
   ends in one of the virtual short-cuts described by [sh].  Proved compositionally (a relational
   Hoare rule for [bind]) for every part of [step_inner]. *)
From Coq Require Import ZArith List Bool Lia FMapPositive.
From Gen Require Import Constants.
From Model Require Import Tree Bits Word Instr Sim.
From Proofs Require Import IrqProofs.
Import ListNotations.
Open Scope Z_scope.

Definition setr (b : bool) (s : sim) : sim :=
  mkSim (s_mem s) (s_regs s) (s_pc s) (s_psr s) (s_saved_sp s) (s_frame_no s) (s_frames s) (s_sr_defns s)
        (s_alloca s) (s_instrs s) (s_prefetch s) (s_obs s) (s_mcr s)
        (mkFlags (fl_strict (s_flags s)) b (fl_debug_frames (s_flags s)) (fl_ignore_priv (s_flags s)))
        (s_ireg s) (s_devs s).

Lemma setr_id s : setr (fl_real (s_flags s)) s = s.
Proof. destruct s as [? ? ? ? ? ? ? ? ? ? ? ? ? [? ? ? ?] ? ?]. reflexivity. Qed.
Lemma setr_setr a b s : setr a (setr b s) = setr a s.
Proof. reflexivity. Qed.

Definition FI {A} (sh : brk -> Prop) (m : M A) : Prop :=
  forall s, s_flags (fst (m s)) = s_flags s /\
            ((exists b, snd (m s) = inr b /\ sh b) \/ m (setr true s) = (setr true (fst (m s)), snd (m s))).

Lemma FI_ret {A} sh (a : A) : FI sh (ret a).
Proof. intro s. split; [reflexivity|right; reflexivity]. Qed.
Lemma FI_fail {A} sh b : FI sh (@fail A b).
Proof. intro s. split; [reflexivity|right; reflexivity]. Qed.
Lemma FI_err {A} sh x : FI sh (@err A x).
Proof. apply FI_fail. Qed.
Lemma FI_of_opt {A} sh (o : option A) x : FI sh (of_opt o x).
Proof. destruct o; [apply FI_ret|apply FI_err]. Qed.
Lemma FI_modify sh f :
  (forall s, s_flags (f s) = s_flags s) -> (forall s, f (setr true s) = setr true (f s)) -> FI sh (modify f).
Proof. intros H1 H2 s. unfold modify. cbn [fst snd]. split; [apply H1|right; rewrite H2; reflexivity]. Qed.

Lemma FI_bind {A B} sh (m : M A) (k : A -> M B) : FI sh m -> (forall a, FI sh (k a)) -> FI sh (bind m k).
Proof.
  intros Hm Hk s. specialize (Hm s). unfold bind.
  destruct (m s) as [s1 [a|b]] eqn:E; cbn [fst snd] in *.
  - destruct Hm as [Hf [(b & Hb & _)|Hr]]; [discriminate Hb|]. rewrite Hr.
    specialize (Hk a s1). destruct Hk as [Hf2 Hk]. split; [congruence|exact Hk].
  - destruct Hm as [Hf [(b' & Hb & Hs)|Hr]].
    + split; [exact Hf|]. left. exists b'. split; [inversion Hb; reflexivity|exact Hs].
    + split; [exact Hf|]. right. rewrite Hr. reflexivity.
Qed.

Lemma FI_bind_get {B} sh (k : sim -> M B) :
  (forall s0, FI sh (k s0)) -> (forall s0 s, k (setr true s0) s = k s0 s) -> FI sh (bind get k).
Proof.
  intros Hk He s. change (bind get k s) with (k s s). change (bind get k (setr true s)) with (k (setr true s) (setr true s)).
  rewrite He. apply Hk.
Qed.

Lemma FI_if {A} sh (b : bool) (m1 m2 : M A) : FI sh m1 -> FI sh m2 -> FI sh (if b then m1 else m2).
Proof. destruct b; auto. Qed.

(* ---------- primitives that work on the state directly *)
Lemma FI_of_eq {A} sh (m : M A) :
  (forall s, s_flags (fst (m s)) = s_flags s) ->
  (forall s, m (setr true s) = (setr true (fst (m s)), snd (m s))) -> FI sh m.
Proof. intros H1 H2 s. split; [apply H1|right; apply H2]. Qed.

Lemma FI_read_mem sh e a c : FI sh (read_mem e a c).
Proof.
  apply FI_of_eq; intro s; unfold read_mem;
  (destruct (negb (c_priv c) && negb (in_user a)); [reflexivity|]);
  change (s_ireg (setr true s)) with (s_ireg s); change (s_devs (setr true s)) with (s_devs s);
  (destruct (IO_START <=? a);
   [ destruct (assoc (s_ireg s) a) as [r|];
     [ destruct r; destruct (c_track c); reflexivity
     | destruct (dev_read e (nth_dev (s_devs s) (port_dev a)) a (c_io c)) as [d' [v|]]; destruct (c_track c); reflexivity ]
   | destruct (c_track c); reflexivity ]).
Qed.

Lemma FI_write_mem sh e a w c : FI sh (write_mem e a w c).
Proof.
  apply FI_of_eq; intro s; unfold write_mem;
  (destruct (negb (c_priv c) && negb (in_user a)); [reflexivity|]);
  change (s_ireg (setr true s)) with (s_ireg s); change (s_devs (setr true s)) with (s_devs s);
  (destruct (IO_START <=? a);
   [ destruct (get_if_init w (c_strict c)) as [d|]; [|reflexivity];
     destruct (assoc (s_ireg s) a) as [r|];
     [ destruct r; destruct (c_track c); destruct (set_if_init w (c_strict c)); reflexivity
     | destruct (dev_write e (nth_dev (s_devs s) (port_dev a)) a d) as [d' [|]];
       [destruct (c_track c); destruct (set_if_init w (c_strict c))|]; reflexivity ]
   | destruct (c_track c); destruct (set_if_init w (c_strict c)); reflexivity ]).
Qed.

Create HintDb fi discriminated.
#[export] Hint Constants Opaque : fi.

Ltac fi1 :=
  lazymatch goal with
  | |- FI _ (ret _) => apply FI_ret
  | |- FI _ (fail _) => apply FI_fail
  | |- FI _ (err _) => apply FI_err
  | |- FI _ (of_opt _ _) => apply FI_of_opt
  | |- FI _ (read_mem _ _ _) => apply FI_read_mem
  | |- FI _ (write_mem _ _ _ _) => apply FI_write_mem
  | |- FI _ (modify _) => apply FI_modify; [intros; reflexivity | intros; reflexivity]
  | |- FI _ (bind get _) => apply FI_bind_get; [intro | intros; reflexivity]
  | |- FI _ (bind _ _) => apply FI_bind; [ | intro ]
  | |- FI _ (if _ then _ else _) => apply FI_if
  | |- FI _ (match ?x with _ => _ end) => destruct x
  | |- FI _ _ => solve [auto 1 with fi nocore]
  end.
Ltac fi := repeat fi1.

Lemma FI_set_cc sh r : FI sh (set_cc r).
Proof. unfold set_cc. fi. Qed.
Lemma FI_set_pc sh w b : FI sh (set_pc w b).
Proof. unfold set_pc. fi. Qed.
#[export] Hint Resolve FI_set_cc FI_set_pc : fi.
Lemma FI_offset_pc sh o b : FI sh (offset_pc o b).
Proof. unfold offset_pc. fi. Qed.
Lemma FI_push_frame sh a b c : FI sh (push_frame a b c).
Proof.
  unfold push_frame. apply FI_modify.
  - intros s. destruct (s_frames s); [|reflexivity]. destruct (match c with FSubroutine => _ | _ => _ end) as [[?k|?l]|]; reflexivity.
  - intros s. cbn [s_frames setr]. destruct (s_frames s); [|reflexivity]. cbn [s_sr_defns setr s_regs s_mem].
    destruct (match c with FSubroutine => _ | _ => _ end) as [[?k|?l]|]; reflexivity.
Qed.
Lemma FI_pop_frame sh : FI sh pop_frame.
Proof. unfold pop_frame. fi. Qed.
Lemma FI_swap_sp sh : FI sh swap_sp.
Proof. unfold swap_sp. fi. Qed.
Lemma FI_set_reg_if_init sh d v b : FI sh (set_reg_if_init d v b).
Proof. unfold set_reg_if_init. fi. Qed.
#[export] Hint Resolve FI_offset_pc FI_push_frame FI_pop_frame FI_swap_sp FI_set_reg_if_init : fi.
Lemma FI_call_subroutine sh a : FI sh (call_subroutine a).
Proof. unfold call_subroutine. fi. Qed.
Lemma FI_call_interrupt sh e v ft : FI sh (call_interrupt e v ft).
Proof. unfold call_interrupt. fi. Qed.
Lemma FI_decode_m sh w : FI sh (decode_m w).
Proof. unfold decode_m. fi. Qed.
#[export] Hint Resolve FI_call_subroutine FI_call_interrupt FI_decode_m : fi.

Lemma FI_handle_some sh e v p : FI sh (handle_interrupt e v (Some p)).
Proof. unfold handle_interrupt. fi. Qed.
#[export] Hint Resolve FI_handle_some : fi.

(* the common entry code of a trap / exception (priority None) once the virtual short-cut is ruled out *)
Definition trap_entry (e : env) (vect : Z) : M unit :=
  s <- get ;;
  (if negb (psr_privileged (s_psr s)) then swap_sp else ret tt) ;;;
  s <- get ;;
  let old_psr := s_psr s in let old_pc := s_pc s in
  modify (fun s => upd_psr s (psr_set_privileged (s_psr s) true)) ;;;
  s <- get ;;
  let mctx := default_ctx s in
  sp <- of_opt (get_if_init (rget (s_regs s) 6) (strict s)) StrictMemAddrUninit ;;
  modify (fun s => upd_regs s (rset (s_regs s) 6 (w_sub (rget (s_regs s) 6) (new_init 2)))) ;;;
  write_mem e (wrap16 (sp - 1)) (new_init old_psr) mctx ;;;
  write_mem e (wrap16 (sp - 2)) (new_init old_pc) mctx ;;;
  modify (fun s => upd_psr s (psr_set_cc (s_psr s) 2)) ;;;
  call_interrupt e vect FTrap.

Lemma FI_trap_entry sh e v : FI sh (trap_entry e v).
Proof. unfold trap_entry. fi. Qed.

(* the virtual short-cut *)
Definition shortcut (b : brk) : M unit :=
  s <- get ;;
  (if negb (s_prefetch s) then offset_pc (-1) false ;;; modify (fun s => upd_prefetch s true) else ret tt) ;;;
  fail b.

Lemma handle_none_real e v s : fl_real (s_flags s) = true -> handle_interrupt e v None s = trap_entry e v s.
Proof. intros H. unfold handle_interrupt, trap_entry. rewrite !bind_get_eq. rewrite H. reflexivity. Qed.
Lemma handle_none_virtual e v s : fl_real (s_flags s) = false ->
  handle_interrupt e v None s = match real_int_vect v with Some b => shortcut b s | None => trap_entry e v s end.
Proof.
  intros H. unfold handle_interrupt, trap_entry, shortcut. rewrite !bind_get_eq. rewrite H.
  destruct (real_int_vect v); reflexivity.
Qed.

Lemma offset_pc_ok o s : exists s', offset_pc o false s = (s', inl tt).
Proof.
  unfold offset_pc. rewrite bind_get_eq. unfold set_pc. rewrite bind_get_eq.
  assert (H : get_if_init (new_init (wrap16 (s_pc s + o))) (strict s) = Some (wrap16 (s_pc s + o))).
  { unfold get_if_init. destruct (strict s); reflexivity. }
  rewrite H. cbn [of_opt]. rewrite bind_ret_eq. rewrite andb_false_r. cbn [andb].
  rewrite bind_ret_eq. eexists. reflexivity.
Qed.
Lemma shortcut_result b s : snd (shortcut b s) = inr b.
Proof.
  unfold shortcut. rewrite bind_get_eq. destruct (negb (s_prefetch s)).
  - destruct (offset_pc_ok (-1) s) as [s' H].
    unfold bind at 1. unfold bind at 1. rewrite H. reflexivity.
  - reflexivity.
Qed.
Lemma shortcut_flags b s : s_flags (fst (shortcut b s)) = s_flags s.
Proof.
  assert (H : FI (fun _ => True) (shortcut b)) by (unfold shortcut; fi).
  apply H.
Qed.

(* traps and exceptions: the flag matters exactly when the vector is one of the four RealIntVect ones *)
Lemma FI_handle_none (sh : brk -> Prop) e v :
  (forall b, real_int_vect v = Some b -> sh b) -> FI sh (handle_interrupt e v None).
Proof.
  intros Hsh s. destruct (fl_real (s_flags s)) eqn:Hr.
  - rewrite (handle_none_real e v s Hr).
    rewrite (handle_none_real e v (setr true s) eq_refl). apply FI_trap_entry.
  - rewrite (handle_none_virtual e v s Hr).
    rewrite (handle_none_real e v (setr true s) eq_refl).
    destruct (real_int_vect v) as [b|] eqn:Hv; [|apply FI_trap_entry].
    split; [apply shortcut_flags|]. left. exists b. split; [apply shortcut_result|apply Hsh; reflexivity].
Qed.

Definition trap_sh (sh : brk -> Prop) (i : sim_instr) : Prop :=
  match i with STRAP v => forall b, real_int_vect v = Some b -> sh b | _ => True end.

Lemma FI_exec sh e i : trap_sh sh i -> FI sh (exec e i).
Proof.
  intros Ht. unfold exec. apply FI_bind_get; [intro s0|intros; reflexivity].
  destruct i; cbv zeta; try solve [fi].
  apply FI_handle_none. exact Ht.
Qed.

(* the short-cut reachable from a decoded instruction is the virtual HALT only *)
Definition sh_halt (b : brk) : Prop := b = BHalt.
Lemma zext8_range z : 0 <= zext 8 z < 256.
Proof. unfold zext. change (2 ^ 8) with 256. pose proof (Z.mod_pos_bound z 256). lia. Qed.
Lemma decode_trap_sh w i : decode w = DOk i -> trap_sh sh_halt i.
Proof.
  destruct i; try (intros; exact Logic.I). intros H b Hb.
  assert (Hv : 0 <= vect < 256).
  { unfold decode in H.
    repeat match type of H with
           | (if ?c then _ else _) = _ => destruct c
           | (let _ := _ in _) = _ => cbv zeta in H
           end; try discriminate H.
    all: try (inversion H; subst; apply zext8_range). }
  unfold real_int_vect in Hb.
  destruct (vect =? 37) eqn:E; [inversion Hb; reflexivity|].
  destruct (vect =? 256) eqn:E1; [apply Z.eqb_eq in E1; lia|].
  destruct (vect =? 257) eqn:E2; [apply Z.eqb_eq in E2; lia|].
  destruct (vect =? 258) eqn:E3; [apply Z.eqb_eq in E3; lia|]. discriminate.
Qed.

Lemma FI_ext {A} sh (m1 m2 : M A) : (forall s, m1 s = m2 s) -> FI sh m2 -> FI sh m1.
Proof. intros He H s. rewrite !He. apply H. Qed.

Lemma FI_bind_decode {B} sh w (k : sim_instr -> M B) :
  (forall i, decode w = DOk i -> FI sh (k i)) -> FI sh (bind (decode_m w) k).
Proof.
  intros H. unfold decode_m. destruct (decode w) as [i| | |] eqn:E.
  - apply (FI_ext sh _ (k i)); [intros; reflexivity|]. apply H. reflexivity.
  - apply (FI_ext sh _ (err IllegalOpcode)); [intros; reflexivity|]. apply FI_err.
  - apply (FI_ext sh _ (err InvalidInstrFormat)); [intros; reflexivity|]. apply FI_err.
  - apply (FI_ext sh _ (fail BPanic)); [intros; reflexivity|]. apply FI_fail.
Qed.

Lemma FI_fetch_exec e : FI sh_halt (fetch_exec e).
Proof.
  unfold fetch_exec. apply FI_bind_get; [intro s0|intros; reflexivity].
  apply FI_bind; [fi|intro w]. apply FI_bind; [fi|intro word].
  apply FI_bind_decode. intros i Hi.
  apply FI_bind; [fi|intros _]. apply FI_bind; [fi|intros _].
  apply FI_bind; [|intros _; fi]. apply FI_exec. eapply decode_trap_sh. exact Hi.
Qed.

Lemma FI_step_inner e : FI sh_halt (step_inner e).
Proof.
  intro s. rewrite !step_inner_cases.
  assert (Hp : pending e (setr true s) = pending e s) by reflexivity.
  assert (Ha : after_poll e (setr true s) = setr true (after_poll e s)) by reflexivity.
  assert (Hf : s_flags (after_poll e s) = s_flags s) by reflexivity.
  rewrite Hp, Ha. change (s_psr (setr true s)) with (s_psr s). rewrite <- Hf.
  destruct (pending e s) as [[v p|]|].
  - destruct (psr_priority (s_psr s) <? p); [apply FI_handle_some|apply FI_fetch_exec].
  - split; [reflexivity|right; reflexivity].
  - apply FI_fetch_exec.
Qed.

(* ------------------------------------------------------------------ C12: the flag is irrelevant except at HALT and exceptions *)
Definition special (r : unit + brk) : Prop :=
  r = inr BHalt \/ r = inr (BErr PrivilegeViolation) \/ r = inr (BErr IllegalOpcode) \/
  r = inr (BErr InvalidInstrFormat) \/ r = inr (BErr AccessViolation).

Lemma step_virtual e s : fl_real (s_flags s) = false -> step e s = step_inner e s.
Proof.
  intros H. unfold step. pose proof (FI_step_inner e s) as [Hf _].
  destruct (step_inner e s) as [s1 r]. cbn [fst] in Hf. rewrite Hf, H. reflexivity.
Qed.

Theorem flag_irrelevant e s s' r :
  step e (setr false s) = (s', r) -> ~ special r -> step e (setr true s) = (setr true s', r).
Proof.
  intros Hv Hns. rewrite step_virtual in Hv by reflexivity.
  pose proof (FI_step_inner e (setr false s)) as [Hf Hr]. rewrite Hv in Hf, Hr. cbn [fst snd] in Hf, Hr.
  destruct Hr as [(b & Hb & Hs)|Hr].
  - exfalso. apply Hns. left. rewrite Hb, Hs. reflexivity.
  - change (setr true (setr false s)) with (setr true s) in Hr.
    unfold step. rewrite Hr. cbn [s_flags setr fl_real negb].
    destruct r as [u|b]; [reflexivity|].
    destruct b as [|x|]; try reflexivity.
    + exfalso. apply Hns. left. reflexivity.
    + destruct x; try reflexivity; exfalso; apply Hns; unfold special; auto.
Qed.

(* at an exception the machine under real traps enters the OS through the exception's vector,
   from the very state in which the virtual machine stopped *)
Definition exc_vector (x : simerr) : option Z :=
  match x with
  | PrivilegeViolation => Some 256 | IllegalOpcode => Some 257 | InvalidInstrFormat => Some 257
  | AccessViolation => Some 258 | _ => None
  end.
Theorem exception_enters_os e s s' x vect :
  step e (setr false s) = (s', inr (BErr x)) -> exc_vector x = Some vect ->
  step e (setr true s) = trap_entry e vect (setr true s').
Proof.
  intros Hv Hx. rewrite step_virtual in Hv by reflexivity.
  pose proof (FI_step_inner e (setr false s)) as [Hf Hr]. rewrite Hv in Hf, Hr. cbn [fst snd] in Hf, Hr.
  destruct Hr as [(b & Hb & Hs)|Hr].
  - rewrite Hs in Hb. discriminate Hb.
  - change (setr true (setr false s)) with (setr true s) in Hr.
    unfold step. rewrite Hr. cbn [s_flags setr fl_real negb].
    destruct x; try discriminate Hx; inversion Hx; subst; apply handle_none_real; reflexivity.
Qed.
