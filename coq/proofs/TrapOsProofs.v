(* TrapOsProofs.v — C12 at HALT and at exceptions, over today's OS image.
   Built on the one-instruction rules of SimStep.v and the routine proofs of OsProofs.v (PUTS by
   induction over the zero-terminated string, the HALT routine) and on TrapFlagProofs.v (the real
   step at an exception IS the trap entry through the exception vector). *)
From Coq Require Import ZArith List Bool Lia String Ascii FMapPositive.
From Gen Require Import Constants OsImage.
From Model Require Import Tree Bits Word Instr Sim Load.
From Proofs Require Import Ranges SimStep OsProofs OsContracts IrqProofs TrapFlagProofs.
Import ListNotations.
Open Scope Z_scope.
Ltac Zify.zify_post_hook ::= Z.div_mod_to_equations.

(* ------------------------------------------------------------------ strings of the OS image *)
Definition label_addr (name : string) : option Z :=
  let cps := map (fun c => Z.of_nat (nat_of_ascii c)) (list_ascii_of_string name) in
  option_map snd (find (fun p => if list_eq_dec Z.eq_dec (fst p) cps then true else false) os_labels).

(* the non-zero 16-bit words from a up to the first zero word, read from the OS image *)
Fixpoint os_chars (fuel : nat) (a : Z) : option (list Z) :=
  match fuel with
  | O => None
  | S k => match os_word a with
           | Some c => if c =? 0 then Some []
                       else if (0 <? c) && (c <? 65536) then option_map (cons c) (os_chars k (a + 1)) else None
           | None => None
           end
  end.
Lemma os_chars_at m : forall fuel a cs, os_mem m -> os_chars fuel a = Some cs -> str_at m a cs /\ chars_ok cs.
Proof.
  induction fuel as [|k IH]; intros a cs Hos H; cbn [os_chars] in H; [discriminate|].
  destruct (os_word a) as [c|] eqn:Hw; [|discriminate].
  destruct (c =? 0) eqn:H0.
  - inversion H; subst. apply Z.eqb_eq in H0. subst c. split; [|constructor].
    cbn [str_at]. rewrite (Hos a 0 Hw). reflexivity.
  - destruct ((0 <? c) && (c <? 65536)) eqn:Hr; [|discriminate].
    destruct (os_chars k (a + 1)) as [r|] eqn:Hk; [|discriminate]. inversion H; subst.
    destruct (IH (a + 1) r Hos Hk) as [Hs Hc]. apply andb_prop in Hr. destruct Hr as [R1 R2].
    apply Z.ltb_lt in R1, R2. split.
    + cbn [str_at]. split; [rewrite (Hos a c Hw); reflexivity|exact Hs].
    + constructor; [lia|exact Hc].
Qed.
Definition os_string (name : string) : list Z :=
  match label_addr name with
  | Some a => match os_chars 128 a with Some cs => cs | None => [] end
  | None => []
  end.

(* the message the OS prints for an exception: the string at the label the handler loads *)
Definition exc_msg (x : simerr) : list Z :=
  match x with
  | PrivilegeViolation => os_string "S_EXC_PRIVL"
  | IllegalOpcode | InvalidInstrFormat => os_string "S_EXC_ILLOP"
  | AccessViolation => os_string "S_EXC_ACV"
  | _ => []
  end.

(* ------------------------------------------------------------------ trap / exception entry in closed form *)
Definition kreal (K : konst) : konst := mkK (k_srd K) (k_al K) true (k_dbg K) (k_ign K).
Lemma setr_mk K m rs pc psr ssp fno frs ins pf obs mcr q buf :
  setr true (mk K m rs pc psr ssp fno frs ins pf obs mcr q buf) = mk (kreal K) m rs pc psr ssp fno frs ins pf obs mcr q buf.
Proof. reflexivity. Qed.

(* as SimStep.exec_TRAP, for any prefetch flag (an exception can be raised before or after the PC increment) *)
Lemma trap_entry_mk K e m r0 r1 r2 r3 r4 r5 r6 r7 pc psr ssp fno frs ins pf obs mcr q buf v :
  let spw := if psr_privileged psr then r6 else ssp in
  let sp := w_data spw in
  let m' := mset (mset m (wrap16 (sp - 1)) (new_init psr)) (wrap16 (sp - 2)) (new_init pc) in
  let rs' := [r0; r1; r2; r3; r4; r5; w_sub spw (new_init 2); r7] in
  k_real K = true ->
  wrap16 (sp - 1) < IO_START -> wrap16 (sp - 2) < IO_START -> v < IO_START ->
  handle_interrupt e v None (mk K m [r0; r1; r2; r3; r4; r5; r6; r7] pc psr ssp fno frs ins pf obs mcr q buf) =
  (mk K m' rs' (w_data (mget m' v))
      (psr_set_cc (psr_set_privileged psr true) 2)
      (if psr_privileged psr then ssp else r6)
      (fno + 1) (push_frs FTrap (k_srd K) rs' m' (wrap16 (pc - (if pf then 0 else 1))) v frs)
      ins pf (obs_trap obs m sp psr pc v) mcr q buf, inl tt).
Proof.
  intros spw sp m' rs' Hr H1 H2 H3. unfold handle_interrupt, mk. rewrite bind_get. nstate. rewrite Hr.
  pose proof (psr_priv_set psr) as Hpp.
  pose proof (psr_priv_set_cc _ 2 Hpp) as Hpc.
  subst rs' spw sp m'.
  destruct (psr_privileged psr) eqn:Hpriv; cbn [negb].
  - rewrite bind_ret, bind_get, bind_modify. nstate. rewrite bind_get. nstate. regs.
    cbn [get_if_init negb orb of_opt]. rewrite bind_ret, bind_modify. nstate. regs.
    erewrite bind_ok by (apply SimStep.write_mem_plain; [assumption | ctx_tac Hpp | reflexivity | reflexivity]). nstate.
    erewrite bind_ok by (apply SimStep.write_mem_plain; [assumption | ctx_tac Hpp | reflexivity | reflexivity]). nstate.
    rewrite bind_modify. nstate. unfold call_interrupt. rewrite bind_get. nstate.
    erewrite bind_ok by (apply SimStep.read_mem_plain; [assumption | ctx_tac Hpc | reflexivity]).
    nstate. rewrite bind_get. nstate. cbn [get_if_init negb orb of_opt]. rewrite bind_ret.
    unfold prefetch_pc. nstate.
    erewrite bind_ok by (apply (push_frame_mk K)).
    rewrite set_pc_ns by reflexivity. unfold mk, obs_trap. nstate. reflexivity.
  - unfold swap_sp. rewrite bind_modify. nstate. regs. rewrite bind_get, bind_modify. nstate. rewrite bind_get. nstate. regs.
    cbn [get_if_init negb orb of_opt]. rewrite bind_ret, bind_modify. nstate. regs.
    erewrite bind_ok by (apply SimStep.write_mem_plain; [assumption | ctx_tac Hpp | reflexivity | reflexivity]). nstate.
    erewrite bind_ok by (apply SimStep.write_mem_plain; [assumption | ctx_tac Hpp | reflexivity | reflexivity]). nstate.
    rewrite bind_modify. nstate. unfold call_interrupt. rewrite bind_get. nstate.
    erewrite bind_ok by (apply SimStep.read_mem_plain; [assumption | ctx_tac Hpc | reflexivity]).
    nstate. rewrite bind_get. nstate. cbn [get_if_init negb orb of_opt]. rewrite bind_ret.
    unfold prefetch_pc. nstate.
    erewrite bind_ok by (apply (push_frame_mk K)).
    rewrite set_pc_ns by reflexivity. unfold mk, obs_trap. nstate. reflexivity.
Qed.

(* ------------------------------------------------------------------ the OS exception handlers *)
(* LEA R0,S_EXC_x ; PUTS ; HALT — from the handler's first instruction to the clock being off *)
Ltac lit_msg x := let v := eval vm_compute in (exc_msg x) in change (exc_msg x) with v.

Ltac handler_tac x :=
  let Hr := fresh "Hr" in let HP := fresh "HP" in let Hstk := fresh "Hstk" in let Hos := fresh "Hos" in
  let Hfno := fresh "Hfno" in let Hdf := fresh "Hdf" in
  intros Hr HP Hstk Hos Hfno; lit_msg x; cbv zeta;
  match goal with |- ds_free_from _ _ ?n -> _ => let v := eval vm_compute in n in change n with v end;
  intros Hdf;
  match goal with |- context [run _ _ ?n _] =>
    let k := eval vm_compute in (n - 4)%nat in change n with (1 + (k + 3))%nat end;
  rewrite run_add, run_S;
  erewrite step_LEA; [ | rng | acc | osw Hos | dec ];
  norm; cbn [run]; rewrite run_add;
  match goal with
  | |- context [run ?sc ?t1 ?n1 (mk ?K ?m [?a0; ?a1; ?a2; ?a3; ?a4; ?a5; new_init ?sp; ?a7] ?pc ?psr ?ssp ?fno ?frs ?ins ?pf ?obs ?mcr ?q ?buf)] =>
      let cs := eval vm_compute in (exc_msg x) in
      let m2 := fresh "m2" in let ins2 := fresh "ins2" in let obs2 := fresh "obs2" in
      let Hrun2 := fresh "Hrun2" in let Hmeo2 := fresh "Hmeo2" in let Hos2 := fresh "Hos2" in
      destruct (puts_call K sc t1 cs m a0 a1 a2 a3 a4 a5 (new_init sp) a7 pc psr ssp fno frs ins pf obs mcr q buf sp)
        as (m2 & ins2 & obs2 & Hrun2 & Hmeo2);
      [ rewrite HP; reflexivity | rng | exact Hos | rng | acc | osw Hos | exact Hfno
      | apply (os_chars_at m 128 (w_data a0) cs Hos); vm_compute; reflexivity
      | apply (os_chars_at m 128 (w_data a0) cs Hos); vm_compute; reflexivity
      | cbn; lia | cbn; rng | left; cbn; rng
      | eapply ds_free_sub; [exact Hdf | lia | cbn; lia]
      | ];
      match type of Hrun2 with run _ _ ?n _ = _ => let v := eval vm_compute in n in change n with v in Hrun2 end;
      rewrite Hrun2; clear Hrun2; cbv iota;
      assert (Hos2 : os_mem m2) by (eapply (meo_os _ _ m); [ | exact Hos | exact Hmeo2]; rng);
      norm;
      match goal with
      | |- context [run ?sc' ?t2 3 (mk ?K' ?m2' [?b0; ?b1; ?b2; ?b3; ?b4; ?b5; new_init ?sp'; ?b7] ?pc' ?psr' ?ssp' ?fno' ?frs' ?ins' ?pf' ?obs' ?mcr' ?q' ?buf')] =>
          let m3 := fresh "m3" in let Hrun3 := fresh "Hrun3" in let Hmeo3 := fresh "Hmeo3" in
          destruct (halt_real K' sc' t2 m2' b0 b1 b2 b3 b4 b5 (new_init sp') b7 pc' psr' ssp' fno' frs' ins' pf' obs' mcr' q' buf' sp')
            as (m3 & ? & ? & ? & ? & ? & ? & ? & ? & Hrun3 & Hmeo3);
          [ exact Hr | rewrite HP; reflexivity | rng | exact Hos2 | rng | acc | osw Hos2 | ];
          rewrite Hrun3;
          eexists _, _, _, _, _, _, _, _, _, _; split; [reflexivity|];
          eapply meo_trans; [eapply meo_weaken; [ | | exact Hmeo2]; lia | eapply meo_weaken; [ | | exact Hmeo3]; lia]
      end
  end.

Lemma handler_privl K sc t m r0 r1 r2 r3 r4 r5 r7 psr ssp fno frs ins pf obs mcr q buf sp :
  k_real K = true -> psr_privileged psr = true ->
  OS_END + 9 <= sp <= USER_START -> os_mem m -> 0 <= fno ->
  let cs := exc_msg PrivilegeViolation in
  let n := (13 * List.length cs + 17)%nat in
  ds_free_from sc t n ->
  exists m' r0' r6' r7' ssp' psr' fno' frs' ins' obs',
    run sc t n (mk K m [r0; r1; r2; r3; r4; r5; new_init sp; r7] 679 psr ssp fno frs ins pf obs mcr q buf) =
    (mk K m' [r0'; r1; r2; r3; r4; r5; r6'; r7'] 673 psr' ssp' fno' frs' ins' false obs' false q (buf ++ low8 cs), OOk)
    /\ mem_eq_outside (sp - 9) sp m m'.
Proof. handler_tac PrivilegeViolation. Qed.
Lemma handler_illop K sc t m r0 r1 r2 r3 r4 r5 r7 psr ssp fno frs ins pf obs mcr q buf sp :
  k_real K = true -> psr_privileged psr = true ->
  OS_END + 9 <= sp <= USER_START -> os_mem m -> 0 <= fno ->
  let cs := exc_msg IllegalOpcode in
  let n := (13 * List.length cs + 17)%nat in
  ds_free_from sc t n ->
  exists m' r0' r6' r7' ssp' psr' fno' frs' ins' obs',
    run sc t n (mk K m [r0; r1; r2; r3; r4; r5; new_init sp; r7] 711 psr ssp fno frs ins pf obs mcr q buf) =
    (mk K m' [r0'; r1; r2; r3; r4; r5; r6'; r7'] 673 psr' ssp' fno' frs' ins' false obs' false q (buf ++ low8 cs), OOk)
    /\ mem_eq_outside (sp - 9) sp m m'.
Proof. handler_tac IllegalOpcode. Qed.
Lemma handler_acv K sc t m r0 r1 r2 r3 r4 r5 r7 psr ssp fno frs ins pf obs mcr q buf sp :
  k_real K = true -> psr_privileged psr = true ->
  OS_END + 9 <= sp <= USER_START -> os_mem m -> 0 <= fno ->
  let cs := exc_msg AccessViolation in
  let n := (13 * List.length cs + 17)%nat in
  ds_free_from sc t n ->
  exists m' r0' r6' r7' ssp' psr' fno' frs' ins' obs',
    run sc t n (mk K m [r0; r1; r2; r3; r4; r5; new_init sp; r7] 738 psr ssp fno frs ins pf obs mcr q buf) =
    (mk K m' [r0'; r1; r2; r3; r4; r5; r6'; r7'] 673 psr' ssp' fno' frs' ins' false obs' false q (buf ++ low8 cs), OOk)
    /\ mem_eq_outside (sp - 9) sp m m'.
Proof. handler_tac AccessViolation. Qed.

(* the three handlers at once: the handler address is the word at the exception's vector *)
Definition exc_handler_addr (x : simerr) : Z :=
  match exc_vector x with Some v => match os_word v with Some a => a | None => 0 end | None => 0 end.
Lemma handler_run K sc t x vect m r0 r1 r2 r3 r4 r5 r7 psr ssp fno frs ins pf obs mcr q buf sp :
  exc_vector x = Some vect ->
  k_real K = true -> psr_privileged psr = true ->
  OS_END + 9 <= sp <= USER_START -> os_mem m -> 0 <= fno ->
  ds_free_from sc t (13 * List.length (exc_msg x) + 17) ->
  exists m' r0' r6' r7' ssp' psr' fno' frs' ins' obs',
    run sc t (13 * List.length (exc_msg x) + 17)
        (mk K m [r0; r1; r2; r3; r4; r5; new_init sp; r7] (exc_handler_addr x) psr ssp fno frs ins pf obs mcr q buf) =
    (mk K m' [r0'; r1; r2; r3; r4; r5; r6'; r7'] 673 psr' ssp' fno' frs' ins' false obs' false q (buf ++ low8 (exc_msg x)), OOk)
    /\ mem_eq_outside (sp - 9) sp m m'.
Proof.
  intros Hx. destruct x; try discriminate Hx.
  - apply handler_illop.
  - apply handler_illop.
  - apply handler_privl.
  - apply handler_acv.
Qed.

(* ------------------------------------------------------------------ C12 at an exception *)
(* the state in which the machine under virtual traps stopped: a user-mode machine with the OS image
   in place, non-strict, default internal registers, keyboard (interrupts off) and display attached,
   saved supervisor stack pointer sp.  (Its PC may be anywhere: a jump out of user space faults at the fetch.) *)
Record stop_ready (s : sim) (sp : Z) (q buf : list Z) : Prop := mkSR {
  sr_os : os_mem (s_mem s);
  sr_strict : fl_strict (s_flags s) = false;
  sr_ireg : s_ireg s = default_ireg;
  sr_devs : s_devs s = kdevs q buf;
  sr_regs : List.length (s_regs s) = 8%nat;
  sr_user : psr_privileged (s_psr s) = false;
  sr_ssp : s_saved_sp s = new_init sp;
  sr_fno : 0 <= s_frame_no s }.

Lemma stop_is_mk s sp q buf : stop_ready s sp q buf ->
  exists K m r0 r1 r2 r3 r4 r5 r6 r7 pc psr fno frs ins pf obs mcr,
    s = mk K m [r0; r1; r2; r3; r4; r5; r6; r7] pc psr (new_init sp) fno frs ins pf obs mcr q buf.
Proof.
  intros [Hos Hst Hir Hdv Hrg Hus Hsp Hfn].
  destruct s as [m rs pc psr ssp fno frs srd al ins pf obs mcr fl ir dv]. cbn in *. subst.
  destruct fl as [st re db ig]. cbn in Hst. subst st.
  destruct rs as [|r0 [|r1 [|r2 [|r3 [|r4 [|r5 [|r6 [|r7 [|x rs]]]]]]]]]; try discriminate.
  exists (mkK srd al re db ig), m, r0, r1, r2, r3, r4, r5, r6, r7, pc, psr, fno, frs, ins, pf, obs, mcr. reflexivity.
Qed.

Lemma step_in_err_inv e s s' x : step_in e s = (s', OErr x) -> step e (upd_obs s []) = (s', inr (BErr x)).
Proof.
  unfold step_in. destruct (step e (upd_obs s [])) as [s1 [u|[ |y| ]]]; intros H; inversion H; subst; reflexivity.
Qed.

Theorem exception_prints sc t s s' x vect sp q buf :
  step_in (sc t) (setr false s) = (s', OErr x) -> exc_vector x = Some vect ->
  stop_ready s' sp q buf -> OS_END + 11 <= sp <= USER_START ->
  ds_free_from sc (S t) (13 * List.length (exc_msg x) + 17) ->
  exists sf, run sc t (S (13 * List.length (exc_msg x) + 17)) (setr true s) = (sf, OOk) /\
    s_mcr sf = false /\ s_devs sf = kdevs q (buf ++ low8 (exc_msg x)) /\
    (forall a, in_user a = true -> mget (s_mem sf) a = mget (s_mem s') a) /\
    (forall k, 1 <= k <= 5 -> rget (s_regs sf) k = rget (s_regs s') k).
Proof.
  intros Hv Hx Hready Hsp Hdf.
  apply step_in_err_inv in Hv.
  pose proof (exception_enters_os (sc t) (upd_obs s []) s' x vect Hv Hx) as Hreal.
  destruct (stop_is_mk _ _ _ _ Hready) as (K & m & r0 & r1 & r2 & r3 & r4 & r5 & r6 & r7 & pc & psr & fno & frs & ins & pf & obs & mcr & Hmk).
  destruct Hready as [Hos _ _ _ _ Hus _ Hfn]. subst s'.
  cbn [mk s_mem s_psr s_frame_no s_regs] in Hos, Hus, Hfn |- *.
  rewrite run_S. unfold step_in at 1.
  change (upd_obs (setr true s) []) with (setr true (upd_obs s [])). rewrite Hreal.
  rewrite setr_mk.
  rewrite <- (handle_none_real (sc t) vect (mk (kreal K) m [r0; r1; r2; r3; r4; r5; r6; r7] pc psr (new_init sp) fno frs ins pf obs mcr q buf) eq_refl).
  assert (Hvr : 256 <= vect <= 258) by (destruct x; inversion Hx; lia).
  rewrite trap_entry_mk; [ | reflexivity | | | rng ];
    rewrite Hus; cbn [w_data new_init]; [ | rewrite wrap16_small by rng; rng | rewrite wrap16_small by rng; rng ].
  rewrite !(wrap16_small (sp - 1)), !(wrap16_small (sp - 2)) by rng. rewrite w_sub_init by lia.
  rewrite (wrap16_small (sp - 2)) by rng.
  set (m1 := mset (mset m (sp - 1) (new_init psr)) (sp - 2) (new_init pc)).
  assert (Hos1 : os_mem m1) by (subst m1; apply os_mem_mset; [apply os_mem_mset; [exact Hos|rng]|rng]).
  assert (Hpc1 : w_data (mget m1 vect) = exc_handler_addr x).
  { unfold exc_handler_addr. rewrite Hx.
    destruct (os_word vect) as [a|] eqn:Hw.
    - rewrite (Hos1 vect a Hw). reflexivity.
    - exfalso. assert (vect = 256 \/ vect = 257 \/ vect = 258) as [->|[->| ->]] by lia; vm_compute in Hw; discriminate Hw. }
  rewrite Hpc1.
  set (P := psr_set_cc (psr_set_privileged psr true) 2).
  assert (HP : psr_privileged P = true) by (subst P; apply psr_priv_set_cc; apply psr_priv_set).
  match goal with
  | |- context [run sc (S t) ?n (mk ?K1 m1 [r0; r1; r2; r3; r4; r5; new_init (sp - 2); r7] _ P ?ssp1 ?fno1 ?frs1 ?ins1 ?pf1 ?obs1 ?mcr1 q buf)] =>
      destruct (handler_run K1 sc (S t) x vect m1 r0 r1 r2 r3 r4 r5 r7 P ssp1 fno1 frs1 ins1 pf1 obs1 mcr1 q buf (sp - 2) Hx eq_refl HP)
        as (mf & r0' & r6' & r7' & ssp' & psr' & fno' & frs' & ins' & obs' & Hrun & Hmeo);
      [ rng | exact Hos1 | lia | exact Hdf | ]
  end.
  rewrite Hrun. eexists. split; [reflexivity|].
  cbn [mk s_mcr s_devs s_mem s_regs s_psr].
  split; [reflexivity|]. split; [reflexivity|]. split.
  - intros a Ha. apply in_user_range in Ha. rewrite Hmeo by rng. subst m1.
    rewrite !mget_mset_other by rng. reflexivity.
  - intros k Hk.
    assert (k = 1 \/ k = 2 \/ k = 3 \/ k = 4 \/ k = 5) as [->|[->|[->|[->| ->]]]] by lia; reflexivity.
Qed.

(* ------------------------------------------------------------------ C12 at HALT *)
Definition kvirt (K : konst) : konst := mkK (k_srd K) (k_al K) false (k_dbg K) (k_ign K).
Lemma setr_false_mk K m rs pc psr ssp fno frs ins pf obs mcr q buf :
  setr false (mk K m rs pc psr ssp fno frs ins pf obs mcr q buf) = mk (kvirt K) m rs pc psr ssp fno frs ins pf obs mcr q buf.
Proof. reflexivity. Qed.

Lemma ready_is_mk' s sp q buf : user_ready s sp q buf ->
  exists K m r0 r1 r2 r3 r4 r5 r6 r7 pc psr fno frs ins pf obs mcr,
    s = mk K m [r0; r1; r2; r3; r4; r5; r6; r7] pc psr (new_init sp) fno frs ins pf obs mcr q buf.
Proof.
  intros [Hos Hst Hir Hdv Hrg Hus Hsp Hpc Hfn].
  destruct s as [m rs pc psr ssp fno frs srd al ins pf obs mcr fl ir dv]. cbn in *. subst.
  destruct fl as [st re db ig]. cbn in Hst. subst st.
  destruct rs as [|r0 [|r1 [|r2 [|r3 [|r4 [|r5 [|r6 [|r7 [|x rs]]]]]]]]]; try discriminate.
  exists (mkK srd al re db ig), m, r0, r1, r2, r3, r4, r5, r6, r7, pc, psr, fno, frs, ins, pf, obs, mcr. reflexivity.
Qed.

Theorem halt_agrees sc t s sp q buf :
  user_ready s sp q buf -> OS_END + 2 <= sp <= USER_START ->
  mget (s_mem s) (s_pc s) = new_init 61477 ->
  (exists sv, step_in (sc t) (setr false s) = (sv, OHalt) /\
     s_pc sv = s_pc s /\ s_regs sv = s_regs s /\ s_psr sv = s_psr s /\ s_mem sv = s_mem s /\ s_devs sv = s_devs s /\
     s_mcr sv = s_mcr s /\ s_instrs sv = s_instrs s) /\
  (exists sf, run sc t 3 (setr true s) = (sf, OOk) /\
     s_mcr sf = false /\ s_devs sf = s_devs s /\
     (forall k, 0 <= k <= 5 -> rget (s_regs sf) k = rget (s_regs s) k) /\
     (forall a, in_user a = true -> mget (s_mem sf) a = mget (s_mem s) a)).
Proof.
  intros Hready Hsp Hw.
  destruct (ready_is_mk' _ _ _ _ Hready) as (K & m & r0 & r1 & r2 & r3 & r4 & r5 & r6 & r7 & pc & psr & fno & frs & ins & pf & obs & mcr & Hmk).
  destruct Hready as [Hos _ _ _ _ Hus _ Hpc _]. subst s.
  cbn [mk s_mem s_pc s_psr s_regs s_devs s_mcr s_instrs] in *.
  pose proof (in_user_range _ Hpc) as Hpcr.
  assert (Hacc : forall K', may_access K' psr pc = true).
  { intros K'. unfold may_access. rewrite Hpc. destruct (psr_privileged psr), (k_ign K'); reflexivity. }
  split.
  - rewrite setr_false_mk.
    rewrite halt_virtual; [ | reflexivity | rng | apply Hacc | exact Hw ].
    eexists. split; [reflexivity|]. cbn [mk s_pc s_regs s_psr s_mem s_devs s_mcr s_instrs].
    repeat split; reflexivity.
  - rewrite setr_mk.
    destruct (halt_real (kreal K) sc t m r0 r1 r2 r3 r4 r5 r6 r7 pc psr (new_init sp) fno frs ins pf obs mcr q buf sp)
      as (m' & r6' & r7' & ssp' & psr' & fno' & frs' & ins' & obs' & Hrun & Hmeo);
      [ reflexivity | rewrite Hus; reflexivity | exact Hsp | exact Hos | rng | apply Hacc | exact Hw | ].
    rewrite Hrun. eexists. split; [reflexivity|]. cbn [mk s_mcr s_devs s_regs s_mem].
    split; [reflexivity|]. split; [reflexivity|]. split.
    + intros k Hk.
      assert (k = 0 \/ k = 1 \/ k = 2 \/ k = 3 \/ k = 4 \/ k = 5) as [->|[->|[->|[->|[->| ->]]]]] by lia; reflexivity.
    + intros a Ha. apply (meo_user (sp - 2) sp); [lia|exact Hmeo|exact Ha].
Qed.
