(* WordProofs.v — C15: the initialisation masks computed by Word's +, -, &, ! are sound, and fully
   initialised operands give fully initialised wrapping results.  For all 16-bit operands.
   AND / NOT: everything is turned into bitwise form (65535 - d = land (lnot d) 65535), compared
   bit by bit (Z.bits_inj') and closed by a case analysis on the booleans.
   ADD / SUB: case analysis on the early returns; their guards only look at fully initialised
   operands, on which re-randomisation changes nothing. *)
From Coq Require Import ZArith List Bool Lia.
From Model Require Import Tree Bits Word.
From Spec Require Import WordInit.
Import ListNotations.
Open Scope Z_scope.

Lemma all_bits_val : ALL_BITS = 65535. Proof. reflexivity. Qed.
Lemma no_bits_val : NO_BITS = 0. Proof. reflexivity. Qed.

(* ---------- 16-bit values and the mask 65535 ---------- *)

Lemma ones16 : 65535 = Z.ones 16. Proof. reflexivity. Qed.

Lemma land_65535 x : Z.land x 65535 = x mod 65536.
Proof. rewrite ones16, Z.land_ones by lia. reflexivity. Qed.

Lemma u16_land x : u16 x <-> Z.land x 65535 = x.
Proof.
  unfold u16. rewrite land_65535. split.
  - intros H. apply Z.mod_small. exact H.
  - intros H. rewrite <- H. apply Z.mod_pos_bound. lia.
Qed.

Lemma testbit_65535 i : 0 <= i -> Z.testbit 65535 i = (i <? 16).
Proof. intros Hi. rewrite ones16. apply Z.testbit_ones_nonneg; lia. Qed.

(* u16 `!d` *)
Lemma not16_bits d : u16 d -> not16 d = Z.land (Z.lnot d) 65535.
Proof.
  unfold u16, not16. intros H. rewrite land_65535. unfold Z.lnot.
  apply (Z.mod_unique_pos _ _ (-1)); lia.
Qed.

Lemma u16_not16 d : u16 d -> u16 (not16 d).
Proof. unfold u16, not16. lia. Qed.

Lemma u16_land2 a b : u16 a -> u16 b -> u16 (Z.land a b).
Proof.
  intros Ha Hb. apply u16_land. rewrite <- Z.land_assoc. apply u16_land in Hb. rewrite Hb. reflexivity.
Qed.

Lemma u16_lor2 a b : u16 a -> u16 b -> u16 (Z.lor a b).
Proof.
  intros Ha Hb. apply u16_land. rewrite Z.land_lor_distr_l.
  apply u16_land in Ha, Hb. rewrite Ha, Hb. reflexivity.
Qed.

Lemma u16_wrap z : u16 (wrap16 z).
Proof. unfold u16, wrap16. apply Z.mod_pos_bound. lia. Qed.

(* ---------- agreement, bit by bit ---------- *)

Lemma agree_bit a b i :
  agree a b -> Z.testbit (w_data a) i && Z.testbit (w_init a) i = Z.testbit (w_data b) i && Z.testbit (w_init a) i.
Proof. intros [_ H]. rewrite <- !Z.land_spec. rewrite H. reflexivity. Qed.

Lemma agree_refl a : agree a a.
Proof. split; reflexivity. Qed.

(* a fully initialised word has no re-randomisation but itself *)
Lemma agree_full_eq a b : wf a -> wf b -> agree a b -> w_init a = 65535 -> a = b.
Proof.
  intros [Ha _] [Hb _] [Hi Hd] Hf. destruct a as [da ia], b as [db ib]. cbn [w_data w_init] in *.
  subst ia. subst ib. apply u16_land in Ha, Hb. rewrite Ha, Hb in Hd. subst db. reflexivity.
Qed.

(* ---------- NOT ---------- *)

Lemma not_sound : sound1 w_not.
Proof.
  intros l l' Hl Hl' Hag. pose proof Hag as [Hi _].
  split; [exact Hi|]. cbn [w_not w_data w_init]. fold (not16 (w_data l)) (not16 (w_data l')).
  rewrite !not16_bits by (apply Hl || apply Hl').
  apply Z.bits_inj'. intros i Hi0.
  pose proof (agree_bit l l' i Hag) as Hb.
  rewrite !Z.land_spec, !Z.lnot_spec by lia.
  destruct (Z.testbit (w_data l) i), (Z.testbit (w_data l') i), (Z.testbit (w_init l) i), (Z.testbit 65535 i);
    cbn in *; congruence.
Qed.

Lemma not_wf w : wf w -> wf (w_not w).
Proof. intros [Hd Hi]. split; [apply (u16_not16 _ Hd)|exact Hi]. Qed.

Lemma not_full d : u16 d -> w_not (new_init d) = new_init (65535 - d) /\ u16 (65535 - d).
Proof. intros H. split; [reflexivity|]. unfold u16 in *. lia. Qed.

(* ---------- AND ---------- *)

Definition and_init (l r : word) : Z :=
  Z.lor (Z.lor (Z.land (w_init l) (w_init r)) (Z.land (not16 (w_data l)) (w_init l)))
        (Z.land (not16 (w_data r)) (w_init r)).

Lemma and_init_bit l r i : wf l -> wf r -> 0 <= i ->
  Z.testbit (and_init l r) i =
  (Z.testbit (w_init l) i && Z.testbit (w_init r) i)
  || ((negb (Z.testbit (w_data l) i) && Z.testbit 65535 i) && Z.testbit (w_init l) i)
  || ((negb (Z.testbit (w_data r) i) && Z.testbit 65535 i) && Z.testbit (w_init r) i).
Proof.
  intros [Hl _] [Hr _] Hi. unfold and_init. rewrite !not16_bits by assumption.
  rewrite !Z.lor_spec, !Z.land_spec, !Z.lnot_spec by lia. reflexivity.
Qed.

Lemma and_sound : sound2 w_and.
Proof.
  intros l l' r r' Hl Hl' Hr Hr' Hagl Hagr.
  pose proof Hagl as [Hil _]. pose proof Hagr as [Hir _].
  assert (Hinit : and_init l r = and_init l' r').
  { apply Z.bits_inj'. intros i Hi0. rewrite !and_init_bit by assumption.
    pose proof (agree_bit l l' i Hagl) as Hbl. pose proof (agree_bit r r' i Hagr) as Hbr.
    rewrite <- Hil, <- Hir.
    destruct (Z.testbit (w_data l) i), (Z.testbit (w_data l') i), (Z.testbit (w_init l) i),
             (Z.testbit (w_data r) i), (Z.testbit (w_data r') i), (Z.testbit (w_init r) i),
             (Z.testbit 65535 i); cbn in *; congruence. }
  split; [exact Hinit|].
  change (w_init (w_and l r)) with (and_init l r). cbn [w_and w_data].
  apply Z.bits_inj'. intros i Hi0. rewrite !Z.land_spec, !and_init_bit by assumption.
  pose proof (agree_bit l l' i Hagl) as Hbl. pose proof (agree_bit r r' i Hagr) as Hbr.
  destruct (Z.testbit (w_data l) i), (Z.testbit (w_data l') i), (Z.testbit (w_init l) i),
           (Z.testbit (w_data r) i), (Z.testbit (w_data r') i), (Z.testbit (w_init r) i),
           (Z.testbit 65535 i); cbn in *; congruence.
Qed.

Lemma and_wf l r : wf l -> wf r -> wf (w_and l r).
Proof.
  intros [Hdl Hil] [Hdr Hir]. split; cbn [w_and w_data w_init].
  - apply u16_land2; assumption.
  - fold (not16 (w_data l)). repeat apply u16_lor2; apply u16_land2; try assumption; apply u16_not16; assumption.
Qed.

Lemma and_full a b : u16 a -> u16 b ->
  w_and (new_init a) (new_init b) = new_init (Z.land a b) /\ u16 (Z.land a b).
Proof.
  intros Ha Hb. split; [|apply u16_land2; assumption].
  unfold w_and, new_init. cbn [w_data w_init]. f_equal. rewrite all_bits_val.
  pose proof (u16_not16 a Ha) as Hna. pose proof (u16_not16 b Hb) as Hnb.
  apply u16_land in Hna, Hnb. rewrite Hna, Hnb. rewrite <- Hna, <- Hnb.
  apply Z.bits_inj'. intros i Hi0. rewrite !Z.lor_spec, !Z.land_spec.
  destruct (Z.testbit (not16 a) i), (Z.testbit (not16 b) i), (Z.testbit 65535 i); reflexivity.
Qed.

(* ---------- ADD / SUB ---------- *)

(* the early-return guard `data == 0 && init == ALL_BITS` *)
Definition zero_init (w : word) : bool := (w_data w =? 0) && (w_init w =? ALL_BITS).

Lemma zero_init_agree a b : wf a -> wf b -> agree a b -> zero_init a = zero_init b.
Proof.
  intros Ha Hb Hag. unfold zero_init. rewrite all_bits_val.
  destruct (w_init a =? 65535) eqn:E.
  - apply Z.eqb_eq in E. pose proof (agree_full_eq a b Ha Hb Hag E) as Heq. subst b.
    rewrite E. reflexivity.
  - destruct Hag as [Hi _]. rewrite <- Hi, E, !andb_false_r. reflexivity.
Qed.

Lemma zero_init_eq a b : wf a -> wf b -> agree a b -> zero_init a = true -> a = b.
Proof.
  intros Ha Hb Hag Hz. apply (agree_full_eq a b Ha Hb Hag).
  unfold zero_init in Hz. apply andb_true_iff in Hz. destruct Hz as [_ Hz]. apply Z.eqb_eq in Hz. exact Hz.
Qed.

(* the slow path of + and -: wrapping data, all-or-nothing mask *)
Lemma slow_sound (f : Z -> Z -> Z) l l' r r' : wf l -> wf l' -> wf r -> wf r' -> agree l l' -> agree r r' ->
  agree (mkWord (wrap16 (f (w_data l) (w_data r))) (both_init l r))
        (mkWord (wrap16 (f (w_data l') (w_data r'))) (both_init l' r')).
Proof.
  intros Hl Hl' Hr Hr' Hagl Hagr. pose proof Hagl as [Hil _]. pose proof Hagr as [Hir _].
  unfold both_init. rewrite <- Hil, <- Hir. rewrite all_bits_val.
  destruct (w_init l =? 65535) eqn:El; destruct (w_init r =? 65535) eqn:Er; cbn [andb].
  - apply Z.eqb_eq in El, Er.
    rewrite <- (agree_full_eq l l' Hl Hl' Hagl El), <- (agree_full_eq r r' Hr Hr' Hagr Er). apply agree_refl.
  - split; cbn [w_data w_init]; rewrite ?no_bits_val, ?Z.land_0_r; reflexivity.
  - split; cbn [w_data w_init]; rewrite ?no_bits_val, ?Z.land_0_r; reflexivity.
  - split; cbn [w_data w_init]; rewrite ?no_bits_val, ?Z.land_0_r; reflexivity.
Qed.

Lemma add_sound : sound2 w_add.
Proof.
  intros l l' r r' Hl Hl' Hr Hr' Hagl Hagr. unfold w_add.
  fold (zero_init r) (zero_init r') (zero_init l) (zero_init l').
  rewrite <- (zero_init_agree r r' Hr Hr' Hagr), <- (zero_init_agree l l' Hl Hl' Hagl).
  destruct (zero_init r) eqn:Zr; [exact Hagl|].
  destruct (zero_init l) eqn:Zl; [exact Hagr|].
  apply (slow_sound Z.add); assumption.
Qed.

Lemma sub_sound : sound2 w_sub.
Proof.
  intros l l' r r' Hl Hl' Hr Hr' Hagl Hagr. unfold w_sub.
  fold (zero_init r) (zero_init r').
  rewrite <- (zero_init_agree r r' Hr Hr' Hagr).
  destruct (zero_init r) eqn:Zr; [exact Hagl|].
  apply (slow_sound Z.sub); assumption.
Qed.

Lemma both_init_u16 l r : u16 (both_init l r).
Proof. unfold both_init, u16. destruct (_ && _); rewrite ?all_bits_val, ?no_bits_val; lia. Qed.

Lemma add_wf l r : wf l -> wf r -> wf (w_add l r).
Proof.
  intros Hl Hr. unfold w_add. destruct (_ && _); [exact Hl|]. destruct (_ && _); [exact Hr|].
  split; [apply u16_wrap|apply both_init_u16].
Qed.

Lemma sub_wf l r : wf l -> wf r -> wf (w_sub l r).
Proof.
  intros Hl Hr. unfold w_sub. destruct (_ && _); [exact Hl|].
  split; [apply u16_wrap|apply both_init_u16].
Qed.

Lemma add_full a b : u16 a -> u16 b -> w_add (new_init a) (new_init b) = new_init (wrap16 (a + b)).
Proof.
  unfold u16. intros Ha Hb. unfold w_add, new_init, both_init, wrap16. cbn [w_data w_init].
  rewrite Z.eqb_refl, !andb_true_r.
  destruct (b =? 0) eqn:Eb.
  - apply Z.eqb_eq in Eb. subst b. rewrite Z.add_0_r, Z.mod_small by lia. reflexivity.
  - destruct (a =? 0) eqn:Ea.
    + apply Z.eqb_eq in Ea. subst a. rewrite Z.add_0_l, Z.mod_small by lia. reflexivity.
    + reflexivity.
Qed.

Lemma sub_full a b : u16 a -> u16 b -> w_sub (new_init a) (new_init b) = new_init (wrap16 (a - b)).
Proof.
  unfold u16. intros Ha Hb. unfold w_sub, new_init, both_init, wrap16. cbn [w_data w_init].
  rewrite Z.eqb_refl, !andb_true_r.
  destruct (b =? 0) eqn:Eb.
  - apply Z.eqb_eq in Eb. subst b. rewrite Z.sub_0_r, Z.mod_small by lia. reflexivity.
  - reflexivity.
Qed.

(* `full` in terms of the constructor *)
Lemma full_new_init w : wf w -> full w -> w = new_init (w_data w).
Proof. intros _ H. destruct w as [d i]. unfold full in H. cbn in *. subst i. reflexivity. Qed.

(* `agree`, said bit by bit *)
Lemma agree_iff_bits a b :
  agree a b <-> w_init a = w_init b /\
                forall i, 0 <= i -> Z.testbit (w_init a) i = true -> Z.testbit (w_data a) i = Z.testbit (w_data b) i.
Proof.
  split.
  - intros Hag. split; [apply Hag|]. intros i _ Hi. pose proof (agree_bit a b i Hag) as H.
    rewrite Hi, !andb_true_r in H. exact H.
  - intros [Hi Hb]. split; [exact Hi|]. apply Z.bits_inj'. intros i Hi0. rewrite !Z.land_spec.
    destruct (Z.testbit (w_init a) i) eqn:E; [rewrite (Hb i Hi0 E); reflexivity|rewrite !andb_false_r; reflexivity].
Qed.

(* the operators on operands whose masks are full, stated on words rather than on constructors *)
Lemma add_full' l r : wf l -> wf r -> full l -> full r ->
  w_add l r = new_init (wrap16 (w_data l + w_data r)).
Proof.
  intros Hl Hr Fl Fr. rewrite (full_new_init l Hl Fl), (full_new_init r Hr Fr). cbn [new_init w_data].
  apply add_full; [apply Hl|apply Hr].
Qed.
Lemma sub_full' l r : wf l -> wf r -> full l -> full r ->
  w_sub l r = new_init (wrap16 (w_data l - w_data r)).
Proof.
  intros Hl Hr Fl Fr. rewrite (full_new_init l Hl Fl), (full_new_init r Hr Fr). cbn [new_init w_data].
  apply sub_full; [apply Hl|apply Hr].
Qed.
Lemma and_full' l r : wf l -> wf r -> full l -> full r ->
  w_and l r = new_init (Z.land (w_data l) (w_data r)) /\ Z.land (w_data l) (w_data r) = wrap16 (Z.land (w_data l) (w_data r)).
Proof.
  intros Hl Hr Fl Fr. rewrite (full_new_init l Hl Fl), (full_new_init r Hr Fr). cbn [new_init w_data].
  destruct (and_full (w_data l) (w_data r)) as [H1 H2]; [apply Hl|apply Hr|].
  split; [exact H1|]. unfold wrap16. symmetry. apply Z.mod_small. exact H2.
Qed.
Lemma not_full' l : wf l -> full l ->
  w_not l = new_init (65535 - w_data l) /\ 65535 - w_data l = wrap16 (65535 - w_data l).
Proof.
  intros Hl Fl. rewrite (full_new_init l Hl Fl). cbn [new_init w_data].
  destruct (not_full (w_data l)) as [H1 H2]; [apply Hl|].
  split; [exact H1|]. unfold wrap16. symmetry. apply Z.mod_small. exact H2.
Qed.
