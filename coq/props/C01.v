(* C01 — Assembled image is the exact LC-3 encoding of the source.
   Statements only; proofs in proofs/Asm*.v (invariants of the two passes by induction over the
   statement list, refinement to the positional specification spec/LayoutSpec.v).
   [typed p]: the ranges the Rust types and the lexer guarantee (16-bit .orig/.blkw operands,
   string literals shorter than 65535 bytes).  [wf]: spec/WfSpec.v.
   `assemble ast` is [assemble false None], `assemble_debug ast src` is [assemble true (Some src)].
   [image o a]: the word the object file defines at address a (None: not defined,
   Some None: uninitialised); [spec_image p a]: the word of the statement positioned there. *)
From Coq Require Import ZArith List Bool.
From Model Require Import Text Instr AsmAst Obj Assembler.
From Spec Require Import LayoutSpec WfSpec.
From Spec Require Import LineSpec.
From Proofs Require Import AsmPass1 AsmThms AsmLines.
Import ListNotations.
Open Scope Z_scope.

(* every well-formed program assembles, and its object file defines exactly the addresses the
   statements occupy, with exactly their encodings (hence no other address is defined) *)
Theorem C01_image : forall p, typed p = true -> wf p = true ->
  exists o, assemble false None p = AOk o /\ forall a, image o a = spec_image p a.
Proof. intros p T W. exact (image_plain p W T). Qed.
Print Assumptions C01_image.

(* the same with debug symbols, whenever the debug bookkeeping does not panic (it does not for
   parser output: C24) *)
Theorem C01_image_debug : forall src p, typed p = true -> wf p = true -> assemble true (Some src) p <> APanic ->
  exists o, assemble true (Some src) p = AOk o /\ forall a, image o a = spec_image p a.
Proof. intros src p T W N. exact (image_debug src p W T N). Qed.
Print Assumptions C01_image_debug.

(* ... in particular for parser output (statements on strictly increasing lines) *)
Theorem C01_image_debug_parsed : forall src p, typed p = true -> wf p = true -> lines_inc src p ->
  exists o, assemble true (Some src) p = AOk o /\ forall a, image o a = spec_image p a.
Proof. intros src p T W LI. exact (image_debug src p W T (assemble_debug_total src p T LI)). Qed.
Print Assumptions C01_image_debug_parsed.

(* the symbol table binds every name, in any letter case, to its first positional binding:
   address of the statement the label stands on (0 for .external), source offset, external flag *)
Theorem C01_labels : forall src p sym, typed p = true -> pass1 p src = AOk sym ->
  forall name, assoc (upper name) (st_labels sym) = option_map sym_of (spec_label p name).
Proof. exact labels_spec. Qed.
Print Assumptions C01_labels.

(* the object file of assemble_debug carries exactly that symbol table *)
Theorem C01_symtab_kept : forall src p o, assemble true (Some src) p = AOk o ->
  exists sym, pass1 p (Some src) = AOk sym /\ o_sym o = Some sym.
Proof. exact debug_keeps_symtab. Qed.
Print Assumptions C01_symtab_kept.

(* debug symbols change neither the image nor the verdict *)
Theorem C01_debug_irrelevant : forall src p,
  (forall o1, assemble true (Some src) p = AOk o1 ->
     exists o0, assemble false None p = AOk o0 /\ o_blocks o1 = o_blocks o0 /\ forall a, image o1 a = image o0 a)
  /\ (forall k sp, assemble true (Some src) p = AErr k sp -> assemble false None p = AErr k sp).
Proof. exact debug_irrelevant. Qed.
Print Assumptions C01_debug_irrelevant.

(* a label operand of a well-formed program: the label is defined, not external, and the field
   value f encoded in the instruction satisfies  address + 1 + f = label address (mod 2^16)
   with f inside the signed n-bit field *)
Theorem C01_offset : forall p c s n l, wf p = true -> In (c, s) (placed p) -> operand_of s = Some (n, l) -> 0 < n ->
  exists o a b f, c = Some (o, a) /\ spec_label p (l_name l) = Some b /\ b_ext b = false /\
    field_value n (b_addr b) a = Some f /\ - 2 ^ (n - 1) <= f < 2 ^ (n - 1) /\ (a + 1 + f) mod 65536 = b_addr b mod 65536.
Proof. exact offset_spec. Qed.
Print Assumptions C01_offset.

(* the hypotheses are satisfiable: a program with a backward and a forward reference, an alias,
   .fill of a label, .stringz, .blkw and two blocks, the second placed before the first *)
Definition lab (n : list Z) : label := mkLabel n 0.
Definition st (ls : list label) (n : nucleus) : stmt := mkStmt ls n 0 0.
Definition ex_prog : list stmt :=
  [ st [] (NDir (DOrig 12288));
    st [lab [108; 111; 111; 112]] (NInstr (AADD 0 0 (Imm 1)));          (* loop ADD R0,R0,#1 *)
    st [] (NInstr (ABR 7 (PLab (lab [76; 79; 79; 80]))));                 (* BR LOOP *)
    st [] (NInstr (ALEA 1 (PLab (lab [109; 115; 103]))));                 (* LEA R1, msg *)
    st [] (NInstr AHALT);
    st [lab [109; 115; 103]] (NDir (DStringz [104; 105]));                (* msg .stringz "hi" *)
    st [] (NDir (DBlkw 2));
    st [] (NDir (DFill (PLab (lab [109; 83; 71]))));                      (* .fill mSG *)
    st [] (NDir DEnd);
    st [] (NDir (DOrig 512));
    st [] (NInstr ARET);
    st [] (NDir DEnd) ].
Example C01_ex : typed ex_prog = true /\ wf ex_prog = true /\
  match assemble false None ex_prog with
  | AOk o => o_blocks o = [ (512, [Some 49600]);
                            (12288, [Some 4129; Some 4094; Some 57857; Some 61477; Some 104; Some 105; Some 0; None; None; Some 12292]) ]
  | _ => False
  end.
Proof. vm_compute. repeat split; reflexivity. Qed.
