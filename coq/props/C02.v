(* C02 — The assembler accepts exactly the well-formed programs; an error names a violated
   condition; it never panics.  [wf] / [violated] : spec/WfSpec.v (positional, unbounded Z).
   `assemble ast` is [assemble false None], `assemble_debug ast src` is [assemble true (Some src)]. *)
From Coq Require Import ZArith List Bool.
From Gen Require Import Constants.
From Model Require Import Text AsmAst Obj Assembler.
From Spec Require Import LayoutSpec WfSpec.
From Spec Require Import LineSpec.
From Proofs Require Import AsmPass1 AsmBlocks AsmThms AsmLines.
Import ListNotations.
Open Scope Z_scope.

Theorem C02_accepts_iff : forall p, typed p = true ->
  ((exists o, assemble false None p = AOk o) <-> wf p = true).
Proof. exact accepts_iff_plain. Qed.
Print Assumptions C02_accepts_iff.

Theorem C02_accepts_iff_debug : forall src p, typed p = true -> assemble true (Some src) p <> APanic ->
  ((exists o, assemble true (Some src) p = AOk o) <-> wf p = true).
Proof. exact accepts_iff_debug. Qed.
Print Assumptions C02_accepts_iff_debug.

Theorem C02_error_names_violation : forall p k sp, typed p = true ->
  assemble false None p = AErr k sp -> violated p k = true.
Proof. exact error_names_violation_plain. Qed.
Print Assumptions C02_error_names_violation.

Theorem C02_error_names_violation_debug : forall src p k sp, typed p = true ->
  assemble true (Some src) p = AErr k sp -> violated p k = true.
Proof. exact error_names_violation_debug. Qed.
Print Assumptions C02_error_names_violation_debug.

(* a condition named by [violated] really makes the program ill-formed *)
Theorem C02_violation_is_ill_formed : forall p k, violated p k = true -> wf p = false.
Proof.
  intros p k V. destruct (wf p) eqn:W; [|reflexivity]. rewrite (wf_no_violation p k W) in V. discriminate.
Qed.
Print Assumptions C02_violation_is_ill_formed.

Theorem C02_total : forall p, typed p = true -> assemble false None p <> APanic.
Proof. exact total_plain. Qed.
Print Assumptions C02_total.

(* with debug symbols: for parser output (statements on strictly increasing lines of the text) *)
Theorem C02_total_debug : forall src p, typed p = true -> lines_inc src p -> assemble true (Some src) p <> APanic.
Proof. exact assemble_debug_total. Qed.
Print Assumptions C02_total_debug.
Theorem C02_accepts_iff_debug_parsed : forall src p, typed p = true -> lines_inc src p ->
  ((exists o, assemble true (Some src) p = AOk o) <-> wf p = true).
Proof. intros src p T LI. exact (accepts_iff_debug src p T (assemble_debug_total src p T LI)). Qed.
Print Assumptions C02_accepts_iff_debug_parsed.

(* the location counter of pass 1 is the unbounded positional address as long as no error was
   returned: a step that ends exactly at x10000 is BlockInIO, one beyond is WrappingBlock *)
Theorem C02_shift_exact : forall c n, c_ovf c = false -> 0 <= c_lc c < 65536 -> 0 <= n < 65536 ->
  shift c n =
    if n =? 0 then SOk c
    else if c_lc c + n <=? asm.IO_START then SOk (mkCur (c_lc c + n) false (c_orig c))
    else if c_lc c + n <=? 65536 then SErr BlockInIO
    else SErr WrappingBlock.
Proof. exact shift_exact. Qed.
Print Assumptions C02_shift_exact.

(* checking the two neighbours in the sorted block map finds every overlap *)
Theorem C02_neighbour_check_complete : forall blk m,
  map_inv m -> block_ok blk ->
  (forall k b, In (k, b) (neighbours blk m) -> ranges_overlap (rng blk) (rng b) = false) ->
  forall k b, In (k, b) m -> ranges_overlap (rng blk) (rng b) = false.
Proof. exact neighbour_check_complete. Qed.
Print Assumptions C02_neighbour_check_complete.

(* examples: accepted; a block ending exactly at xFE00 is accepted, one word further is not;
   a later block placed before an earlier one and overlapping it *)
Definition st (n : nucleus) : stmt := mkStmt [] n 0 0.
Example C02_ex_edge :
  wf [st (NDir (DOrig 65023)); st (NInstr AHALT); st (NDir DEnd)] = true /\
  wf [st (NDir (DOrig 65023)); st (NInstr AHALT); st (NInstr AHALT); st (NDir DEnd)] = false /\
  (exists sp, assemble false None [st (NDir (DOrig 65023)); st (NInstr AHALT); st (NInstr AHALT); st (NDir DEnd)] = AErr BlockInIO sp) /\
  (exists sp, assemble false None [st (NDir (DOrig 65535)); st (NDir (DBlkw 2)); st (NDir DEnd)] = AErr WrappingBlock sp) /\
  (exists sp, assemble false None [st (NDir (DOrig 12290)); st (NInstr AHALT); st (NDir DEnd);
                                   st (NDir (DOrig 12288)); st (NDir (DBlkw 3)); st (NDir DEnd)] = AErr OverlappingBlocks sp).
Proof. vm_compute. repeat split; try reflexivity; eexists; reflexivity. Qed.
