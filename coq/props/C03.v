(* C03 — The parser returns exactly the statements written, layout-insensitively.
   Statements only; proofs in proofs/PiecesProofs.v (lexing a text made of token pieces) and
   proofs/LayoutProofs.v (spellings; nucleus, statement and program parsing over tokens with
   arbitrary spans; composition).

   A text "written in the LC-3 grammar" is the concatenation of PIECES (PiecesProofs.piece):
     W text tok   a word: any spelling that denotes the token (keywords in any letter case, R/r
                  registers with leading zeros, numerals in every notation with leading zeros,
                  labels, directives in any case) — [word_ok] is proved for each class
     Bl bs / Sp   any run of blanks and tabs, Cm comma, Col colon, Nl LF or CR LF,
     Cmt body     a comment up to the line end, St a string literal
   and its TOKEN-LEVEL reading is a list of written statements ([wstmt]): labels with optional
   colon and line breaks after them, the tokens of the instruction or directive with their
   spans, the line breaks that end the statement.
   All theorems are unbounded: any number of statements, labels, blanks, digits. *)
From Coq Require Import ZArith List Bool String Lia.
From Model Require Import Tree Text Instr AsmAst Lexer Parser Print.
From Spec Require Import Numerals.
From Model Require Import Obj Assembler.
From Proofs Require Import LexerProofs LexNumProofs PiecesProofs PrintParseProofs LayoutProofs AsmShape.
Import ListNotations.
Open Scope Z_scope.

(* ---- lexing: the token stream of a rendering is the token list of its pieces, each token
        spanning exactly the bytes of its text ---- *)
Theorem C03_lex_render : forall ps, pieces_ok ps -> lex (text_of ps) = LexOk (toks_of 0 ps).
Proof. intros ps H. unfold lex. rewrite lex_with_at. apply lex_pieces. exact H. Qed.
Print Assumptions C03_lex_render.

(* ---- spellings: every notation of a number (any length, leading zeros, hex digits in any case),
        registers, keywords in any case, labels, directives ---- *)
Theorem C03_spell_decimal : forall ds, ds <> [] -> Forall dec_digit ds -> value_of 10 ds <= 65535 ->
  word_ok ds (TUnsigned (value_of 10 ds)) /\ word_ok (35 :: ds) (TUnsigned (value_of 10 ds)).
Proof. intros. split; [apply word_ok_dec|apply word_ok_hash_dec]; assumption. Qed.
Print Assumptions C03_spell_decimal.
Theorem C03_spell_negative : forall ds, ds <> [] -> Forall dec_digit ds -> value_of 10 ds <= 32768 ->
  word_ok (45 :: ds) (TSigned (- value_of 10 ds)) /\ word_ok (35 :: 45 :: ds) (TSigned (- value_of 10 ds)).
Proof. intros. split; [apply word_ok_minus_dec|apply word_ok_hash_minus_dec]; assumption. Qed.
Print Assumptions C03_spell_negative.
Theorem C03_spell_hex : forall x ds, is_x x = true -> ds <> [] -> Forall hex_digit ds ->
  (value_of 16 ds <= 65535 -> word_ok (x :: ds) (TUnsigned (value_of 16 ds))) /\
  (value_of 16 ds <= 32768 -> word_ok (x :: 45 :: ds) (TSigned (- value_of 16 ds))).
Proof. intros. split; intros; [apply word_ok_hex_digits|apply word_ok_hex_minus_digits]; assumption. Qed.
Print Assumptions C03_spell_hex.
Theorem C03_spell_register : forall r ds, is_r r = true -> ds <> [] -> Forall dec_digit ds -> value_of 10 ds <= 7 ->
  word_ok (r :: ds) (TReg (value_of 10 ds)).
Proof. exact word_ok_reg_digits. Qed.
Print Assumptions C03_spell_register.
(* any text that is identifier-shaped and upper-cases to the keyword (kw_text_ok is that check) *)
Theorem C03_spell_keyword : forall x k, kw_text_ok x k = true -> word_ok x (TIdent (IKw k)).
Proof. exact word_ok_kw. Qed.
Print Assumptions C03_spell_keyword.
Theorem C03_spell_label : forall name, label_name_ok name = true -> word_ok name (TIdent (ILabel name)).
Proof. exact word_ok_label. Qed.
Print Assumptions C03_spell_label.
Theorem C03_spell_directive : forall w, forallb is_word w = true -> word_ok (46 :: w) (TDirective w).
Proof. exact word_ok_directive. Qed.
Print Assumptions C03_spell_directive.

(* ---- parsing: the tokens of an instruction / directive, with ANY spans and either signedness
        of the numeric token, read back as that instruction / directive ---- *)
Theorem C03_instruction_tokens : forall i k nt bare ksp spans,
  instr_okb i = true -> instr_kw_ok i k = true -> bare_ok i bare ->
  (forall v, instr_num i = Some v -> bare = false -> num_tok nt v) ->
  List.length spans = List.length (instr_ops i nt bare) ->
  nucleus_reads ((TIdent (IKw k), ksp) :: combine (instr_ops i nt bare) spans)
                (NInstr (reloc_instr i (List.last spans ksp))) (List.last spans ksp).
Proof. exact nucleus_reads_instr. Qed.
Print Assumptions C03_instruction_tokens.
Theorem C03_directive_tokens : forall d name nt dsp spans,
  directive_okb d = true -> assoc_str (kw_upper name) dir_names = Some (dir_index d) -> dir_num_ok d nt ->
  List.length spans = List.length (dir_ops d nt) ->
  nucleus_reads ((TDirective name, dsp) :: combine (dir_ops d nt) spans)
                (NDir (reloc_dir d (List.last spans dsp))) (List.last spans dsp).
Proof. exact nucleus_reads_directive. Qed.
Print Assumptions C03_directive_tokens.

(* a program: statements with labels (optional colons, line breaks after them), blank lines between *)
Theorem C03_parse_program : forall ws f prev, prog_ok ws -> (List.length (prog_toks ws) < f)%nat ->
  p_stmts f (prog_toks ws, prev) = POk (map wstmt_stmt ws).
Proof. exact p_stmts_program. Qed.
Print Assumptions C03_parse_program.

(* ---- composition: parse_ast of the rendered text = the written statements; each statement has
        its labels at the byte offsets of their texts and the span from the first byte of the
        mnemonic/directive to the last byte of the last operand ([wstmt_stmt]); comments, blank
        lines (lead) and layout leave no trace ---- *)
Theorem C03_parse_render : forall ps lead ws, pieces_ok ps ->
  filter (fun t : tok => negb (is_comment (fst t))) (toks_of 0 ps) = nl_toks lead ++ prog_toks ws ->
  prog_ok ws ->
  parse_ast (text_of ps) = POk (map wstmt_stmt ws).
Proof. exact parse_layout. Qed.
Print Assumptions C03_parse_render.

(* two layouts of the same written program parse to the same statements up to source positions.
   PARTIAL with respect to the property text: the consequence "the assembled memory image and the
   label addresses do not change" needs `assemble` to ignore positions, which belongs to the
   assembler model (C01/C02); here it is established at the level of the AST, and checked on the
   implementation by the metamorphic pairs of the harness. *)
Theorem C03_layout_irrelevant_partial : forall ps1 lead1 ws1 ps2 lead2 ws2,
  pieces_ok ps1 -> filter (fun t : tok => negb (is_comment (fst t))) (toks_of 0 ps1) = nl_toks lead1 ++ prog_toks ws1 -> prog_ok ws1 ->
  pieces_ok ps2 -> filter (fun t : tok => negb (is_comment (fst t))) (toks_of 0 ps2) = nl_toks lead2 ++ prog_toks ws2 -> prog_ok ws2 ->
  map (fun w => shape_stmt (wstmt_stmt w)) ws1 = map (fun w => shape_stmt (wstmt_stmt w)) ws2 ->
  exists l1 l2, parse_ast (text_of ps1) = POk l1 /\ parse_ast (text_of ps2) = POk l2 /\ map shape_stmt l1 = map shape_stmt l2.
Proof. exact parse_layout_shape. Qed.
Print Assumptions C03_layout_irrelevant_partial.

(* the full statement: two layouts of the same written program (same statements up to source
   positions) parse, and `assemble` treats the two parses alike — both rejected with the same error
   kind, or both accepted with the same blocks (memory image) and, where a symbol table is kept,
   the same label -> (address, external flag) table and relocations ([obj_sim], AsmShape.v); and the
   symbol tables `SymbolTable::new` builds for them bind the same names to the same addresses and
   flags ([core] drops only the source offset of the label).  Proved on the assembler model by a
   simulation of both passes (proofs/AsmShape.v); no typing hypothesis is needed. *)
Theorem C03_layout_irrelevant : forall ps1 lead1 ws1 ps2 lead2 ws2,
  pieces_ok ps1 -> filter (fun t : tok => negb (is_comment (fst t))) (toks_of 0 ps1) = nl_toks lead1 ++ prog_toks ws1 -> prog_ok ws1 ->
  pieces_ok ps2 -> filter (fun t : tok => negb (is_comment (fst t))) (toks_of 0 ps2) = nl_toks lead2 ++ prog_toks ws2 -> prog_ok ws2 ->
  map (fun w => shape_stmt (wstmt_stmt w)) ws1 = map (fun w => shape_stmt (wstmt_stmt w)) ws2 ->
  exists l1 l2, parse_ast (text_of ps1) = POk l1 /\ parse_ast (text_of ps2) = POk l2 /\
    match assemble false None l1, assemble false None l2 with
    | AOk o1, AOk o2 => o_blocks o1 = o_blocks o2 /\ obj_sim o1 o2
    | AErr k1 _, AErr k2 _ => k1 = k2
    | APanic, APanic => True
    | _, _ => False
    end /\
    (forall t1 t2, pass1 l1 None = AOk t1 -> pass1 l2 None = AOk t2 ->
       map core (st_labels t1) = map core (st_labels t2) /\ st_rel t1 = st_rel t2).
Proof.
  intros ps1 lead1 ws1 ps2 lead2 ws2 H1 H2 H3 H4 H5 H6 H7.
  destruct (parse_layout_shape ps1 lead1 ws1 ps2 lead2 ws2 H1 H2 H3 H4 H5 H6 H7) as [l1 [l2 [P1 [P2 E]]]].
  exists l1, l2. split; [exact P1|]. split; [exact P2|]. split.
  - pose proof (assemble_same_shape l1 l2 E) as S. unfold rr in S.
    destruct (assemble false None l1); destruct (assemble false None l2); try exact S. split; [exact (proj1 S) | exact S].
  - intros t1 t2. apply pass1_same_canon. apply canon_of_shape. exact E.
Qed.
Print Assumptions C03_layout_irrelevant.

(* letter case of labels does not matter either: statement lists that agree after erasing the
   positions AND upper-casing (ASCII) every label name — definitions and operands — assemble alike *)
Theorem C03_label_case_irrelevant : forall l1 l2, map canon_stmt l1 = map canon_stmt l2 ->
  match assemble false None l1, assemble false None l2 with
  | AOk o1, AOk o2 => o_blocks o1 = o_blocks o2 /\ obj_sim o1 o2
  | AErr k1 _, AErr k2 _ => k1 = k2
  | APanic, APanic => True
  | _, _ => False
  end.
Proof.
  intros l1 l2 E. pose proof (assemble_same_canon l1 l2 E) as S. unfold rr in S.
  destruct (assemble false None l1); destruct (assemble false None l2); try exact S. split; [exact (proj1 S) | exact S].
Qed.
Print Assumptions C03_label_case_irrelevant.

(* ---- the hypotheses are satisfiable: a text with a blank first line, a label with colon and tab,
        mixed-case mnemonic, blanks around commas, R/r with leading zero, #-n, a comment ending in
        CR before LF, a label on its own line, an indented mixed-case directive with a hex literal ---- *)
Definition ex_pieces : list piece :=
  [ Nl false; W (zs "loop") (TIdent (ILabel (zs "loop"))); Col; Bl [9];
    W (zs "adD") (TIdent (IKw KADD)); Sp; W (zs "r1") (TReg 1); Sp; Cm; Sp; W (zs "R02") (TReg 2); Cm;
    W (zs "#-3") (TSigned (-3)); Sp; Cmt [32; 99; 13]; Nl false;
    W (zs "x_1") (TIdent (ILabel (zs "x_1"))); Nl false; Bl [32; 32];
    W (zs ".FiLL") (TDirective (zs "FiLL")); Sp; W (zs "xfF") (TUnsigned 255) ].
Definition ex_prog : list wstmt :=
  [ mkWStmt [mkWLabel (zs "loop") (1, 5) (Some (5, 6)) []]
      [(TIdent (IKw KADD), (7, 10)); (TReg 1, (11, 13)); (TComma, (14, 15)); (TReg 2, (16, 19)); (TComma, (19, 20)); (TSigned (-3), (20, 23))]
      (NInstr (AADD 1 2 (Imm (-3)))) 7 (20, 23) [(28, 29)];
    mkWStmt [mkWLabel (zs "x_1") (29, 32) None [(32, 33)]]
      [(TDirective (zs "FiLL"), (35, 40)); (TUnsigned 255, (41, 44))]
      (NDir (DFill (POff 255))) 35 (41, 44) [] ].

Example C03_ex_text : text_of ex_pieces =
  [10] ++ zs "loop:" ++ [9] ++ zs "adD r1 , R02,#-3 ; c" ++ [13; 10] ++ zs "x_1" ++ [10] ++ zs "  .FiLL xfF".
Proof. vm_compute. reflexivity. Qed.

Example C03_ex_pieces_ok : pieces_ok ex_pieces.
Proof.
  assert (D : forall l, (forall c, In c l -> 48 <= c <= 57) -> Forall dec_digit l).
  { intros l H. apply Forall_forall. exact H. }
  unfold ex_pieces. cbn [pieces_ok delim_next eol_next].
  repeat split; try reflexivity; try exact Logic.I.
  - apply word_ok_label. reflexivity.
  - apply word_ok_kw. reflexivity.
  - apply (word_ok_reg_digits 114 [49]); [reflexivity|discriminate| |vm_compute; discriminate].
    repeat constructor; unfold dec_digit; lia.
  - apply (word_ok_reg_digits 82 [48; 50]); [reflexivity|discriminate| |vm_compute; discriminate].
    repeat constructor; unfold dec_digit; lia.
  - apply (word_ok_hash_minus_dec [51]); [discriminate| |vm_compute; discriminate].
    repeat constructor; unfold dec_digit; lia.
  - apply word_ok_label. reflexivity.
  - apply (word_ok_directive (zs "FiLL")). reflexivity.
  - apply (word_ok_hex_digits 120 [102; 70]); [reflexivity|discriminate| |vm_compute; discriminate].
    repeat constructor; unfold hex_digit; lia.
Qed.

Example C03_ex_tokens :
  filter (fun t : tok => negb (is_comment (fst t))) (toks_of 0 ex_pieces) = nl_toks [(0, 1)] ++ prog_toks ex_prog.
Proof. vm_compute. reflexivity. Qed.

Example C03_ex_prog_ok : prog_ok ex_prog.
Proof.
  unfold ex_prog. cbn [prog_ok]. split; [|split; [discriminate|]].
  - split; [|reflexivity]. cbn [ws_nuc ws_n ws_lsp].
    apply (nucleus_reads_instr (AADD 1 2 (Imm (-3))) KADD (TSigned (-3)) false (7, 10) [(11, 13); (14, 15); (16, 19); (19, 20); (20, 23)]);
      try reflexivity.
    + intros H. discriminate H.
    + intros v Hv _. injection Hv as <-. right. split; [reflexivity|lia].
  - split; [|reflexivity]. cbn [ws_nuc ws_n ws_lsp].
    apply (nucleus_reads_directive (DFill (POff 255)) (zs "FiLL") (TUnsigned 255) (35, 40) [(41, 44)]); try reflexivity.
    exists 255. split; [left; split; [reflexivity|lia]|reflexivity].
Qed.

(* the theorem applied to the example, and the same result computed by the model directly *)
Example C03_ex_parse :
  parse_ast (text_of ex_pieces) =
    POk [ mkStmt [mkLabel (zs "loop") 1] (NInstr (AADD 1 2 (Imm (-3)))) 7 23;
          mkStmt [mkLabel (zs "x_1") 29] (NDir (DFill (POff 255))) 35 44 ].
Proof. rewrite (C03_parse_render ex_pieces [(0, 1)] ex_prog C03_ex_pieces_ok C03_ex_tokens C03_ex_prog_ok). reflexivity. Qed.
Example C03_ex_parse_computed :
  parse_ast (text_of ex_pieces) =
    POk [ mkStmt [mkLabel (zs "loop") 1] (NInstr (AADD 1 2 (Imm (-3)))) 7 23;
          mkStmt [mkLabel (zs "x_1") 29] (NDir (DFill (POff 255))) 35 44 ].
Proof. vm_compute. reflexivity. Qed.
