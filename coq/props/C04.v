(* C04 — Parsing never panics and its errors point inside the input.
   Statements only; proofs in proofs/LexerProofs.v and proofs/ParserProofs.v (induction over the
   input text / the token list; invariants: every token step consumes a non-empty prefix and
   reports its exact byte length, every parser position only holds spans inside the input).
   The quantifier is over ALL lists of code points, of any length.
   [parse_ast] is the model of the repaired code (/repo commits `fix: lex_str_literal ...`);
   [parse_ast_with false] is the model of the pinned code, which panics. *)
From Coq Require Import ZArith List Bool.
From Model Require Import Tree Text Instr AsmAst Lexer Parser.
From Gen Require UnicodeTables.
From Proofs Require Import LexerProofs LexStepProofs ParserProofs.
Import ListNotations.
Open Scope Z_scope.

(* parsing any text returns statements or an error: no panic site of the model is reachable
   (slicing inside a character, `unreachable!`, Offset assertions, fuel exhaustion) *)
Theorem C04_total : forall s, parse_ast s <> PPanic.
Proof. exact parse_ast_total. Qed.
Print Assumptions C04_total.

(* every error carries a span inside the input, in bytes *)
Theorem C04_error_span : forall s k sp, parse_ast s = PErr k sp ->
  0 <= fst sp /\ fst sp <= snd sp /\ snd sp <= byte_len s.
Proof. exact parse_ast_err_span. Qed.
Print Assumptions C04_error_span.

(* the lexer alone: no panic; token spans are non-empty, in order, inside the input, and the
   first error (where lexing stops) lies after them and inside the input *)
Theorem C04_lex_total : forall s, lex s <> LexPanic.
Proof. exact lex_no_panic. Qed.
Print Assumptions C04_lex_total.

Theorem C04_lex_spans : forall s,
  match lex s with
  | LexOk l => spans_sorted 0 (byte_len s) l
  | LexErr l e sp => exists mid, spans_sorted 0 mid l /\ mid <= fst sp /\ fst sp < snd sp /\ snd sp <= byte_len s
  | LexPanic => True
  end.
Proof. intros s. exact (lex_at_spans true (length s) s 0 (le_n _)). Qed.
Print Assumptions C04_lex_spans.

(* the pinned code violates the property: a backslash at the end of the line, and a multi-byte
   character after a backslash, make lex_str_literal panic; the repaired code reports an unclosed
   literal / keeps the character *)
Theorem C04_pinned_refuted :
  parse_ast_with false w_backslash_eol = PPanic /\
  parse_ast_with false w_backslash_multibyte = PPanic /\
  parse_ast w_backslash_eol = PErr (ELex UnclosedStrLit) (9, 14) /\
  parse_ast w_backslash_multibyte = POk [mkStmt [] (NDir (DStringz [97; 92; 233])) 0 15].
Proof. exact parse_ast_pinned_panics. Qed.
Print Assumptions C04_pinned_refuted.

(* the model answers ASCII characters without consulting the generated Unicode tables; both agree *)
Theorem C04_ascii_tables : forall c, 0 <= c < 128 ->
  in_ranges UnicodeTables.perl_word c = (is_digit c || is_alpha_us c) /\
  in_ranges UnicodeTables.perl_decimal c = is_digit c.
Proof. exact ascii_tables_agree. Qed.
Print Assumptions C04_ascii_tables.

Example C04_ex : parse_ast [233] = PErr (ELex InvalidSymbol) (0, 2) /\ parse_ast [] = POk [] /\
                 parse_ast [65; 68; 68] = PErr (EMsg MExpReg) (0, 3).
Proof. vm_compute. repeat split. Qed.
