(* C05 — Numeric and register tokens denote exactly their written value.
   Statements only; proofs in proofs/LexNumProofs.v (induction over digit strings of ANY length —
   no bound on the value or on the number of leading zeros).  [value_of], [dec_digit], [hex_digit],
   [fits], [stored] are the independent definitions of spec/Numerals.v.
   [one_token r n] is the lexer outcome "exactly one token / one error spanning bytes 0..n". *)
From Coq Require Import ZArith List Bool String Lia.
From Model Require Import Tree Text Instr AsmAst Lexer Parser Print.
From Spec Require Import Numerals.
From Proofs Require Import LexNumProofs PiecesProofs LayoutProofs OperandTextProofs.
Import ListNotations.
Open Scope Z_scope.

(* ---- every digit string, every notation: Unsigned v iff v <= 65535, Signed (-v) iff v <= 32768 ---- *)
Theorem C05_decimal : forall ds, ds <> [] -> Forall dec_digit ds ->
  lex ds = one_token (if value_of 10 ds <=? 65535 then SOk (TUnsigned (value_of 10 ds)) else SErr DoesNotFitU16) (byte_len ds).
Proof. exact lex_dec. Qed.
Print Assumptions C05_decimal.

Theorem C05_hash_decimal : forall ds, ds <> [] -> Forall dec_digit ds ->
  lex (35 :: ds) = one_token (if value_of 10 ds <=? 65535 then SOk (TUnsigned (value_of 10 ds)) else SErr DoesNotFitU16) (byte_len (35 :: ds)).
Proof. exact lex_hash_dec. Qed.
Print Assumptions C05_hash_decimal.

Theorem C05_minus_decimal : forall ds, ds <> [] -> Forall dec_digit ds ->
  lex (45 :: ds) = one_token (if value_of 10 ds <=? 32768 then SOk (TSigned (- value_of 10 ds)) else SErr DoesNotFitI16) (byte_len (45 :: ds)).
Proof. exact lex_minus_dec. Qed.
Print Assumptions C05_minus_decimal.

Theorem C05_hash_minus_decimal : forall ds, ds <> [] -> Forall dec_digit ds ->
  lex (35 :: 45 :: ds) = one_token (if value_of 10 ds <=? 32768 then SOk (TSigned (- value_of 10 ds)) else SErr DoesNotFitI16) (byte_len (35 :: 45 :: ds)).
Proof. exact lex_hash_minus_dec. Qed.
Print Assumptions C05_hash_minus_decimal.

(* x or X, hex digits in any mixture of cases *)
Theorem C05_hex : forall x ds, is_x x = true -> ds <> [] -> Forall hex_digit ds ->
  lex (x :: ds) = one_token (if value_of 16 ds <=? 65535 then SOk (TUnsigned (value_of 16 ds)) else SErr DoesNotFitU16) (byte_len (x :: ds)).
Proof. exact lex_hex. Qed.
Print Assumptions C05_hex.

Theorem C05_hex_minus : forall x ds, is_x x = true -> ds <> [] -> Forall hex_digit ds ->
  lex (x :: 45 :: ds) = one_token (if value_of 16 ds <=? 32768 then SOk (TSigned (- value_of 16 ds)) else SErr DoesNotFitI16) (byte_len (x :: 45 :: ds)).
Proof. exact lex_hex_minus. Qed.
Print Assumptions C05_hex_minus.

(* R or r followed by digits: the register with that number iff it is at most 7 *)
Theorem C05_register : forall r ds, is_r r = true -> ds <> [] -> Forall dec_digit ds ->
  lex (r :: ds) = one_token (if value_of 10 ds <=? 7 then SOk (TReg (value_of 10 ds)) else SErr InvalidReg) (byte_len (r :: ds)).
Proof. exact lex_register. Qed.
Print Assumptions C05_register.

(* ---- every integer: the spelling functions are right, so the statements above cover all of Z ---- *)
Theorem C05_spelling_value : forall radix up lz m, 2 <= radix <= 16 -> 0 <= m ->
  value_of radix (spell_mag radix up lz m) = m.
Proof. exact spell_mag_value. Qed.
Print Assumptions C05_spelling_value.

(* for EVERY magnitude m, every notation, upper/lower-case hex digits and any number of leading zeros *)
Theorem C05_every_integer : forall nt up lz m, nt_ok nt -> 0 <= m ->
  lex (spell nt up lz m) =
    one_token (if nt_signed nt
               then (if m <=? 32768 then SOk (TSigned (- m)) else SErr DoesNotFitI16)
               else (if m <=? 65535 then SOk (TUnsigned m) else SErr DoesNotFitU16))
              (byte_len (spell nt up lz m)).
Proof. exact lex_spelling. Qed.
Print Assumptions C05_every_integer.

Theorem C05_every_register_number : forall r lz n, is_r r = true -> 0 <= n ->
  lex (r :: spell_mag 10 true lz n) =
    one_token (if n <=? 7 then SOk (TReg n) else SErr InvalidReg) (byte_len (r :: spell_mag 10 true lz n)).
Proof. exact lex_register_number. Qed.
Print Assumptions C05_every_register_number.

(* ---- operands: a numeric token (as the lexer produces them: Unsigned 0..65535, Signed -32768..32767)
        is accepted by the operand parser of a field exactly when its value fits the field ---- *)
Theorem C05_operand_imm5 : forall t v sp ts prev, num_tok t v ->
  op_result (fits Imm5 v) (Imm v, (ts, sp)) sp (p_ior 5 ((t, sp) :: ts, prev)).
Proof. exact operand_imm5. Qed.
Print Assumptions C05_operand_imm5.
Theorem C05_operand_offset6 : forall t v sp ts prev, num_tok t v ->
  op_result (fits Offset6 v) (v, (ts, sp)) sp (p_off (conv_s 6) ((t, sp) :: ts, prev)).
Proof. exact operand_offset6. Qed.
Print Assumptions C05_operand_offset6.
Theorem C05_operand_pcoffset9 : forall t v sp ts prev, num_tok t v ->
  op_result (fits PCOffset9 v) (POff v, (ts, sp)) sp (p_pcoff 9 ((t, sp) :: ts, prev)).
Proof. exact operand_pcoffset9. Qed.
Print Assumptions C05_operand_pcoffset9.
Theorem C05_operand_pcoffset11 : forall t v sp ts prev, num_tok t v ->
  op_result (fits PCOffset11 v) (POff v, (ts, sp)) sp (p_pcoff 11 ((t, sp) :: ts, prev)).
Proof. exact operand_pcoffset11. Qed.
Print Assumptions C05_operand_pcoffset11.
Theorem C05_operand_trapvect8 : forall t v sp ts prev, num_tok t v ->
  op_result (fits TrapVect8 v) (v, (ts, sp)) sp (p_off (conv_u 8) ((t, sp) :: ts, prev)).
Proof. exact operand_trapvect8. Qed.
Print Assumptions C05_operand_trapvect8.
(* directives, for every spelling of the directive name that upper-cases to ORIG / BLKW / FILL *)
Theorem C05_operand_orig : forall name dsp t v sp ts prev,
  assoc_str (kw_upper name) dir_names = Some 0 -> num_tok t v ->
  op_result (fits Orig v) (DOrig (stored Orig v), (ts, sp)) sp (p_directive name dsp ((t, sp) :: ts, prev)).
Proof. exact operand_orig. Qed.
Print Assumptions C05_operand_orig.
Theorem C05_operand_blkw : forall name dsp t v sp ts prev,
  assoc_str (kw_upper name) dir_names = Some 2 -> num_tok t v ->
  op_result (fits Blkw v) (DBlkw (stored Blkw v), (ts, sp)) sp (p_directive name dsp ((t, sp) :: ts, prev)).
Proof. exact operand_blkw. Qed.
Print Assumptions C05_operand_blkw.
(* .fill takes either signedness and stores the value modulo 2^16 *)
Theorem C05_operand_fill : forall name dsp t v sp ts prev,
  assoc_str (kw_upper name) dir_names = Some 1 -> num_tok t v ->
  fits Fill v = true /\ p_directive name dsp ((t, sp) :: ts, prev) = POk (DFill (POff (stored Fill v)), (ts, sp)).
Proof. exact operand_fill. Qed.
Print Assumptions C05_operand_fill.

(* ---- end to end: the text of a whole statement ("ADD R1, R2, " / "LDR R3, R4, " / "LD R5, " /
        "JSR " / "TRAP " / ".orig " / ".blkw " / ".fill " followed by a numeral) parses to the
        statement carrying the value exactly when the value fits the field; otherwise parse_ast
        returns an error whose span is the numeral.  [word_ok x t] holds for every spelling of an
        in-range numeral (C03_spell_*, props/C03.v); two instances follow ---- *)
Theorem C05_operand_text : forall f x t v, word_ok x t -> num_tok t v ->
  if fits f v
  then parse_ast (operand_text f x) = POk [mkStmt [] (field_nucleus f v) 0 (byte_len (operand_text f x))]
  else exists k, parse_ast (operand_text f x) = PErr k (byte_len (text_of (field_prefix f)), byte_len (operand_text f x)).
Proof. exact operand_text_parse. Qed.
Print Assumptions C05_operand_text.

Theorem C05_operand_text_decimal : forall f ds, ds <> [] -> Forall dec_digit ds -> value_of 10 ds <= 65535 ->
  operand_outcome f ds (value_of 10 ds) (parse_ast (operand_text f ds)).
Proof.
  intros f ds Hne Hd Hv. apply (operand_text_parse f ds (TUnsigned (value_of 10 ds))).
  - apply word_ok_dec; assumption.
  - left. split; [reflexivity|]. split; [|exact Hv].
    unfold value_of. apply numeral_value_ge; [lia|apply valid_dec; exact Hd|lia].
Qed.
Print Assumptions C05_operand_text_decimal.

Theorem C05_operand_text_hash_minus : forall f ds, ds <> [] -> Forall dec_digit ds -> value_of 10 ds <= 32768 ->
  operand_outcome f (35 :: 45 :: ds) (- value_of 10 ds) (parse_ast (operand_text f (35 :: 45 :: ds))).
Proof.
  intros f ds Hne Hd Hv. apply (operand_text_parse f (35 :: 45 :: ds) (TSigned (- value_of 10 ds))).
  - apply word_ok_hash_minus_dec; assumption.
  - right. split; [reflexivity|].
    assert (0 <= value_of 10 ds) by (unfold value_of; apply numeral_value_ge; [lia|apply valid_dec; exact Hd|lia]). lia.
Qed.
Print Assumptions C05_operand_text_hash_minus.

(* the hypotheses are satisfiable, and the statements say what they should on familiar inputs *)
Example C05_ex_tokens :
  lex (zs "65535") = LexOk [(TUnsigned 65535, (0, 5))] /\ lex (zs "65536") = LexErr [] DoesNotFitU16 (0, 5) /\
  lex (zs "#-032768") = LexOk [(TSigned (-32768), (0, 8))] /\ lex (zs "x-8001") = LexErr [] DoesNotFitI16 (0, 6) /\
  lex (zs "XfFfF") = LexOk [(TUnsigned 65535, (0, 5))] /\ lex (zs "r007") = LexOk [(TReg 7, (0, 4))] /\
  lex (zs "R8") = LexErr [] InvalidReg (0, 2) /\
  spell (NHexMinus 120) true 2 32768 = zs "x-008000" /\ spell NHash false 0 140000 = zs "#140000" /\
  value_of 16 (zs "00fF") = 255 /\ Forall hex_digit (zs "00fF").
Proof.
  repeat split; try (vm_compute; reflexivity).
  change (zs "00fF") with [48; 48; 102; 70].
  repeat (apply Forall_cons; [unfold hex_digit; lia|]). apply Forall_nil.
Qed.
Example C05_ex_text :
  operand_text Imm5 (zs "#-16") = zs "ADD R1, R2, #-16" /\ operand_text Fill (zs "xFFFF") = zs ".fill xFFFF" /\
  parse_ast (zs "ADD R1, R2, #-16") = POk [mkStmt [] (NInstr (AADD 1 2 (Imm (-16)))) 0 16] /\
  parse_ast (zs "ADD R1, R2, #16") = PErr (EOffS 5) (12, 15) /\
  parse_ast (zs ".blkw 0") = PErr (EMsg MBlkwZero) (6, 7) /\
  parse_ast (zs ".fill -1") = POk [mkStmt [] (NDir (DFill (POff 65535))) 0 8].
Proof. vm_compute. repeat split. Qed.
Example C05_ex_fields :
  fits Imm5 15 = true /\ fits Imm5 16 = false /\ fits Imm5 (-16) = true /\ fits Blkw 0 = false /\
  fits Fill (-32768) = true /\ stored Fill (-1) = 65535 /\ fits TrapVect8 256 = false /\
  num_tok (TSigned (-16)) (-16) /\ assoc_str (kw_upper (zs "FiLl")) dir_names = Some 1.
Proof.
  repeat split; try (vm_compute; reflexivity).
  right. split; [reflexivity|lia].
Qed.
