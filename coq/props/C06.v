(* C06 — Instruction decoding is the exact inverse of encoding.
   Statements only; proofs in proofs/InstrProofs.v (finite sweeps by vm_compute, lifted with
   forall_range so that the bound appears in the statement). [classify] is the ISA format table
   of spec/IsaEncoding.v, written independently of the decoder. *)
From Coq Require Import ZArith Bool.
From Model Require Import Bits Instr.
From Spec Require Import IsaEncoding.
From Proofs Require Import InstrProofs.
Open Scope Z_scope.

(* a word decodes exactly when it is a canonical encoding *)
Theorem C06_decode_iff_canonical : forall w, 0 <= w < 65536 ->
  ((exists i, decode w = DOk i) <-> classify w = Canonical).
Proof. exact decode_ok_iff. Qed.
Print Assumptions C06_decode_iff_canonical.

(* reserved opcode -> illegal opcode; bad must-be-zero bits / NOT suffix -> invalid format;
   canonical -> an instruction that re-encodes to the same word and has in-range fields *)
Theorem C06_decode_classified : forall w, 0 <= w < 65536 ->
  match classify w with
  | Canonical => exists i, decode w = DOk i /\ encode i = w /\ valid i = true
  | Reserved => decode w = DIllegalOpcode
  | BadBits => decode w = DInvalidFormat
  end.
Proof. exact decode_class. Qed.
Print Assumptions C06_decode_classified.

Theorem C06_reencode : forall w i, 0 <= w < 65536 -> decode w = DOk i -> encode i = w /\ valid i = true.
Proof. exact enc_dec. Qed.
Print Assumptions C06_reencode.

(* every representable instruction (registers 0..7, cc 0..7, offsets within their fields) survives encode;decode *)
Theorem C06_decode_encode : forall i, valid i = true -> decode (encode i) = DOk i.
Proof. exact dec_enc. Qed.
Print Assumptions C06_decode_encode.

Theorem C06_decode_total : forall w, 0 <= w < 65536 -> decode w <> DPanic.
Proof. exact decode_no_panic. Qed.
Print Assumptions C06_decode_total.

(* the reserved class is exactly opcode 1101 *)
Theorem C06_reserved_is_opcode_13 : forall w, 0 <= w < 65536 -> (classify w = Reserved <-> w / 4096 = 13).
Proof.
  intros w H. unfold classify, isa_opcode. destruct (w / 4096 =? 13) eqn:E.
  - apply Z.eqb_eq in E. split; auto.
  - apply Z.eqb_neq in E. split; [|intros; contradiction].
    repeat match goal with |- context [if ?c then _ else _] => destruct c end; discriminate.
Qed.
Print Assumptions C06_reserved_is_opcode_13.

Example C06_ex : decode 4096 = DOk (SADD 0 0 (RegOp 0)) /\ decode 51200 = DInvalidFormat /\
                 decode 53248 = DIllegalOpcode /\ encode (SJMP 7) = 49600 /\ valid (SLDR 1 2 (-32)) = true.
Proof. vm_compute. repeat split. Qed.
