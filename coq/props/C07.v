(* C07 — Every word disassembles to text that reassembles to the same word.
   The domain is finite (65536 words); every statement below is a complete sweep computed by the
   kernel (vm_compute) through the MODELS of disassemble_line, the printer (Display), the lexer,
   the parser and the two-pass assembler, lifted with forall_range' so that the bound is in the
   statement.  Origins: x0000, x3000, x8000 and xFDFF (the last address at which one word fits
   below the I/O page); "any address" beyond these four is covered on the implementation by the
   harness (16 origins in the thorough tier) — the statement for an arbitrary origin is
   C07_roundtrip_at_origins_partial in that sense (the printed text contains no label, so the
   assembled word does not depend on the location counter; not yet proved in general). *)
From Coq Require Import ZArith List Bool.
From Model Require Import Tree Bits Text Instr AsmAst Obj Lexer Parser Print Assembler Disasm.
From Proofs Require Import Ranges DisasmProofs.
Import ListNotations.
Open Scope Z_scope.

Theorem C07_roundtrip_at_origins_partial : forall o w,
  (o = 0 \/ o = 12288 \/ o = 32768 \/ o = 65023) -> 0 <= w < 65536 ->
  exists p obj, parse_ast (wrap_text o (disasm_text w)) = POk p /\ assemble false None p = AOk obj
                /\ o_blocks obj = [(o, [Some w])].
Proof.
  intros o w Ho Hw. apply roundtrip_meaning.
  destruct Ho as [-> | [-> | [-> | ->]]].
  - exact (forall_range' _ 0 65536 sweep_0000 w Hw).
  - exact (forall_range' _ 0 65536 sweep_3000 w Hw).
  - exact (forall_range' _ 0 65536 sweep_8000 w Hw).
  - exact (forall_range' _ 0 65536 sweep_FDFF w Hw).
Qed.
Print Assumptions C07_roundtrip_at_origins_partial.

(* words below x0200 and non-instructions come back as `.fill <the word>`, all others as instructions *)
Theorem C07_fill_rule : forall w, 0 <= w < 65536 ->
  if (w <? 512) || negb (decodes w)
  then s_nucleus (disassemble w) = NDir (DFill (POff w))
  else exists i, s_nucleus (disassemble w) = NInstr i.
Proof.
  intros w Hw. pose proof (forall_range' _ 0 65536 fill_sweep w Hw) as H. unfold fill_chk in H.
  destruct ((w <? 512) || negb (decodes w)).
  - destruct (s_nucleus (disassemble w)) as [i|[a|[v|l]|n|s| |l]]; try discriminate H. apply Z.eqb_eq in H. subst. reflexivity.
  - destruct (s_nucleus (disassemble w)) as [i|d]; [exists i; reflexivity|discriminate H].
Qed.
Print Assumptions C07_fill_rule.

(* aliases are printed by name *)
Theorem C07_alias_names :
  disasm_text 49600 = [82; 69; 84] /\ disasm_text 61472 = [71; 69; 84; 67] /\ disasm_text 61473 = [80; 85; 84; 67] /\
  disasm_text 61474 = [80; 85; 84; 83] /\ disasm_text 61475 = [73; 78] /\ disasm_text 61476 = [80; 85; 84; 83; 80] /\
  disasm_text 61477 = [72; 65; 76; 84] /\ disasm_text 32768 = [82; 84; 73].
Proof. vm_compute. repeat split. Qed.
Print Assumptions C07_alias_names.

(* disassembled statements carry no label and a trivial span *)
Theorem C07_no_labels : forall w, s_labels (disassemble w) = [] /\ s_start (disassemble w) = 0 /\ s_end (disassemble w) = 0.
Proof.
  intros w. unfold disassemble, try_disassemble. destruct (w <? 512); [repeat split|]. destruct (decode w); repeat split.
Qed.
Print Assumptions C07_no_labels.
