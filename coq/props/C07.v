(* C07 — Every word disassembles to text that reassembles to the same word.
   The domain is finite (65536 words); every statement below is a complete sweep computed by the
   kernel (vm_compute) through the MODELS of disassemble_line, the printer (Display), the lexer,
   the parser and the two-pass assembler, lifted with forall_range' so that the bound is in the
   statement.  Origins: x0000, x3000, x8000 and xFDFF (the last address at which one word fits
   below the I/O page); "any address" beyond these four is covered on the implementation by the
   harness (16 origins in the thorough tier).
   C07_roundtrip (below) is the statement for EVERY origin x0000..xFDFF: the header ".orig xOOOO"
   has the same length for every origin, so the rest of the text parses to the same statement
   (one more sweep over the 65536 words, independent of the origin, + a symbolic lemma for the
   header line), that statement carries no label, and a label-free statement assembles to the
   same word at every origin (C07_position_independent_ast, proved on the assembler model for
   symbolic origin).  C07_roundtrip_at_origins_partial is kept (it is an instance). *)
From Coq Require Import ZArith List Bool.
From Model Require Import Tree Bits Text Instr AsmAst Obj Lexer Parser Print Assembler Disasm.
From Proofs Require Import Ranges DisasmProofs AsmOrigin DisasmOrigin.
Import ListNotations.
Open Scope Z_scope.

Theorem C07_roundtrip_at_origins_partial : forall o w,
  (o = 0 \/ o = 12288 \/ o = 32768 \/ o = 65023) -> 0 <= w < 65536 ->
  exists p obj, parse_ast (wrap_text o (disasm_text w)) = POk p /\ assemble false None p = AOk obj
                /\ o_blocks obj = [(o, [Some w])].
Proof.
  intros o w Ho Hw. apply roundtrip_meaning.
  destruct Ho as [-> | [-> | [-> | ->]]].
  - exact (forall_range' _ 0 65536 sweep_0000 w Hw).
  - exact (forall_range' _ 0 65536 sweep_3000 w Hw).
  - exact (forall_range' _ 0 65536 sweep_8000 w Hw).
  - exact (forall_range' _ 0 65536 sweep_FDFF w Hw).
Qed.
Print Assumptions C07_roundtrip_at_origins_partial.

(* a label-free statement (an instruction without label operand, or .fill with a number) between
   .orig o and .end assembles, for EVERY origin o at which one word fits below the I/O page and
   whatever the source spans are, to the single block (o, [its word]); [word_of] does not mention o *)
Theorem C07_position_independent_ast : forall o n a b c d e f,
  0 <= o <= 65023 -> label_free n = true ->
  assemble false None [mkStmt [] (NDir (DOrig o)) a b; mkStmt [] n c d; mkStmt [] (NDir DEnd) e f]
  = AOk (mkObj [(o, [Some (word_of n)])] None).
Proof. exact single_statement. Qed.
Print Assumptions C07_position_independent_ast.

(* the wrapped text of a disassembled word parses, at every origin, to .orig o / one label-free
   statement whose word is w / .end *)
Theorem C07_parse_at_origin : forall o w, 0 <= o < 65536 -> 0 <= w < 65536 ->
  exists n c d e f,
    parse_ast (wrap_text o (disasm_text w))
    = POk [mkStmt [] (NDir (DOrig o)) 0 11; mkStmt [] n c d; mkStmt [] (NDir DEnd) e f]
    /\ label_free n = true /\ word_of n = w.
Proof. exact parse_at_origin. Qed.
Print Assumptions C07_parse_at_origin.

(* every word, at every address below the I/O page: disassemble, print, parse, assemble = the word *)
Theorem C07_roundtrip : forall o w, 0 <= o <= 65023 -> 0 <= w < 65536 ->
  exists p obj, parse_ast (wrap_text o (disasm_text w)) = POk p /\ assemble false None p = AOk obj
                /\ o_blocks obj = [(o, [Some w])] /\ o_sym obj = None.
Proof. exact roundtrip_every_origin. Qed.
Print Assumptions C07_roundtrip.

(* words below x0200 and non-instructions come back as `.fill <the word>`, all others as instructions *)
Theorem C07_fill_rule : forall w, 0 <= w < 65536 ->
  if (w <? 512) || negb (decodes w)
  then s_nucleus (disassemble w) = NDir (DFill (POff w))
  else exists i, s_nucleus (disassemble w) = NInstr i.
Proof.
  intros w Hw. pose proof (forall_range' _ 0 65536 fill_sweep w Hw) as H. unfold fill_chk in H.
  destruct ((w <? 512) || negb (decodes w)).
  - destruct (s_nucleus (disassemble w)) as [i|[a|[v|l]|n|s| |l]]; try discriminate H. apply Z.eqb_eq in H. subst. reflexivity.
  - destruct (s_nucleus (disassemble w)) as [i|d]; [exists i; reflexivity|discriminate H].
Qed.
Print Assumptions C07_fill_rule.

(* aliases are printed by name *)
Theorem C07_alias_names :
  disasm_text 49600 = [82; 69; 84] /\ disasm_text 61472 = [71; 69; 84; 67] /\ disasm_text 61473 = [80; 85; 84; 67] /\
  disasm_text 61474 = [80; 85; 84; 83] /\ disasm_text 61475 = [73; 78] /\ disasm_text 61476 = [80; 85; 84; 83; 80] /\
  disasm_text 61477 = [72; 65; 76; 84] /\ disasm_text 32768 = [82; 84; 73].
Proof. vm_compute. repeat split. Qed.
Print Assumptions C07_alias_names.

(* disassembled statements carry no label and a trivial span *)
Theorem C07_no_labels : forall w, s_labels (disassemble w) = [] /\ s_start (disassemble w) = 0 /\ s_end (disassemble w) = 0.
Proof.
  intros w. unfold disassemble, try_disassemble. destruct (w <? 512); [repeat split|]. destruct (decode w); repeat split.
Qed.
Print Assumptions C07_no_labels.
