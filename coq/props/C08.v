(* C08 — Each simulator step follows the LC-3 ISA.
   [spec_step] (spec/IsaSpec.v) is the reference semantics over architectural state: one clause
   per opcode, trap/interrupt/exception entry, RTI, memory-mapped I/O, real and virtual traps.
   [abs] (model/IsaWire.v) forgets everything that is not architectural (initialisation masks,
   frames, observer, counters).  The theorem: for EVERY model state in non-strict mode whose
   registers and PC hold 16-bit values, every environment (lock pattern, timer draws, pending
   interrupts) and every flag combination, one model step is exactly one reference step, with
   the same outcome (ok / halt / the same error).  Strict mode is related to non-strict mode by
   C14.  The implementation is tied to BOTH: to the model (`sim.run`, every field after every
   step) and directly to the reference semantics (`isa.run`). *)
From Coq Require Import ZArith List Bool.
From Model Require Import Bits Word Instr Sim IsaWire Load.
From Spec Require Import IsaSpec.
From Proofs Require Import SimNoPanic SimRefinePrims SimRefineExec SimRefineStep SimWf.
From Proofs Require Import SimStrictSpec SimStrictRun SimStrictRunSpec.
Import ListNotations.
Open Scope Z_scope.

Theorem C08_step_refines : forall e s,
  fl_strict (s_flags s) = false ->
  (forall r, 0 <= w_data (rget (s_regs s) r) < 65536) ->
  0 <= s_pc s < 65536 ->
  exists so, out_match (snd (step_in e s)) so /\ spec_step e (abs s) = (abs (fst (step_in e s)), so).
Proof. exact step_in_refines. Qed.
Print Assumptions C08_step_refines.

(* every instruction separately (after fetch and PC increment), incl. the virtual HALT *)
Theorem C08_execute_refines : forall e i s,
  fl_strict (s_flags s) = false ->
  (forall r, 0 <= w_data (rget (s_regs s) r) < 65536) ->
  s_prefetch s = false -> trap_ok i ->
  let '(s', r) := exec e i s in
  exists o, sout_of r = Some o /\ execute e (wrap16 (s_pc s - 1)) i (abs s) = (abs s', o) /\ s_flags s' = s_flags s.
Proof. exact exec_refines. Qed.
Print Assumptions C08_execute_refines.

(* trap / exception / interrupt entry: privilege, stack switch, pushes, CC, priority, vectoring *)
Theorem C08_entry_refines : forall e vect prio s,
  fl_strict (s_flags s) = false ->
  let '(s', r) := do_entry e vect prio s in
  enter e vect prio (abs s) = (abs s', match sout_of r with Some o => o | None => SOk end)
  /\ sout_of r <> None /\ s_flags s' = s_flags s.
Proof. exact do_entry_refines. Qed.
Print Assumptions C08_entry_refines.

(* 16-bit well-formedness (what the Rust types u16/u8 guarantee: every register, the PC, the PSR,
   the saved SP and every memory word hold 16-bit values, keyboard bytes are bytes) is preserved by
   every step, in every mode *)
(* strict mode: a step of a strict machine either stops with one of the nine strict
   (uninitialised-value) errors of C14, or is exactly the reference step ([abs] ignores the strict flag) *)
Theorem C08_strict_step_refines : forall e s,
  (forall r, 0 <= w_data (rget (s_regs s) r) < 65536) -> 0 <= s_pc s < 65536 ->
  let '(s1, o) := step_in e s in
  (exists x, o = OErr x /\ is_strict_err x = true) \/
  (exists so, out_match o so /\ spec_step e (abs s) = (abs s1, so)).
Proof. exact strict_step_refines. Qed.
Print Assumptions C08_strict_step_refines.

Theorem C08_wf_preserved : forall e s, WF s -> WF (fst (step_in e s)).
Proof. exact wf_step_in. Qed.
Print Assumptions C08_wf_preserved.

(* hence the refinement holds for runs of ANY length: the sequence of outcomes and the final
   architectural state of the model are those of the reference semantics *)
Theorem C08_run_refines : forall es s, fl_strict (s_flags s) = false -> WF s ->
  let '(s', outs) := run_n es s in
  let '(a', souts) := spec_run es (abs s) in
  a' = abs s' /\ Forall2 out_match outs souts.
Proof. exact run_refines. Qed.
Print Assumptions C08_run_refines.

(* the hypotheses are met by a fresh machine (and by every state the harness generates) *)
Example C08_hypotheses_satisfiable :
  let s := new_sim (mkFlags false true false false) 1234 in
  fl_strict (s_flags s) = false /\ (forall r, 0 <= w_data (rget (s_regs s) r) < 65536) /\ 0 <= s_pc s < 65536.
Proof.
  cbv zeta. split; [reflexivity|]. split.
  - apply wf_regs_forall.
    assert (E : s_regs (new_sim (mkFlags false true false false) 1234) = repeat (mkWord 1234 0) 8) by (vm_compute; reflexivity).
    rewrite E. cbn [repeat]. repeat constructor; cbn [w_data]; discriminate.
  - assert (E : s_pc (new_sim (mkFlags false true false false) 1234) = 12288) by (vm_compute; reflexivity).
    rewrite E. split; [discriminate | reflexivity].
Qed.

(* ... and runs of strict machines: without a strict error along the way, the run is the reference run *)
Theorem C08_strict_run_refines : forall es s, WF s ->
  existsb strict_out (snd (run_n es s)) = false ->
  let '(s', outs) := run_n es s in
  let '(a', souts) := spec_run es (abs s) in
  a' = abs s' /\ Forall2 out_match outs souts.
Proof. exact strict_run_refines. Qed.
Print Assumptions C08_strict_run_refines.
