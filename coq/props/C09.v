(* C09 — User-mode code cannot touch memory or state outside user space.
   Every memory access of the model goes through [read_mem]/[write_mem] with the context
   [default_ctx] of the current state.  Proved here for ALL states, addresses and values:
   in user mode with privilege checks on that context is unprivileged; an unprivileged access
   outside x3000-xFDFF is denied with AccessViolation and changes NOTHING (not memory, not a
   device, not the observer); a permitted unprivileged read changes only the observer; a permitted
   unprivileged write changes exactly that one user-space word; RTI is a privilege violation that
   changes nothing.  Composed over whole instructions (C09_user_instruction_confined,
   C09_user_fetch_execute_confined): in user mode with checks on, fetching and executing any
   instruction other than TRAP — whatever its addressing mode and operands, on every path
   including the error paths — leaves the machine in user mode and leaves every memory word
   outside user space, every device, the supervisor stack pointer, the MCR and the
   internal-register mappings exactly as they were.  TRAP and interrupts enter the OS through
   the vector table: their privileged accesses are exactly those of [enter] (C08_entry_refines). *)
From Coq Require Import ZArith List Bool.
From Model Require Import Bits Word Instr Sim.
From Proofs Require Import SimAccess SimUser.
Open Scope Z_scope.

Theorem C09_user_context_unprivileged : forall s,
  psr_privileged (s_psr s) = false -> fl_ignore_priv (s_flags s) = false -> c_priv (default_ctx s) = false.
Proof. intros s P I. apply user_ctx. split; assumption. Qed.
Print Assumptions C09_user_context_unprivileged.

Theorem C09_read_denied : forall e a c s, c_priv c = false -> in_user a = false ->
  read_mem e a c s = (s, inr (BErr AccessViolation)).
Proof. exact read_denied. Qed.
Print Assumptions C09_read_denied.

Theorem C09_write_denied : forall e a w c s, c_priv c = false -> in_user a = false ->
  write_mem e a w c s = (s, inr (BErr AccessViolation)).
Proof. exact write_denied. Qed.
Print Assumptions C09_write_denied.

Theorem C09_user_read_is_pure : forall e a c s, c_priv c = false -> in_user a = true ->
  read_mem e a c s = ((if c_track c then upd_obs s (obs_update (s_obs s) a OBS_READ) else s), inl (mget (s_mem s) a)).
Proof. exact read_user. Qed.
Print Assumptions C09_user_read_is_pure.

Theorem C09_user_write_is_local : forall e a w c s, c_priv c = false -> in_user a = true ->
  exists s', write_mem e a w c s = (s', match set_if_init w (c_strict c) with Some _ => inl tt | None => inr (BErr StrictMemSetUninit) end)
    /\ s_regs s' = s_regs s /\ s_pc s' = s_pc s /\ s_psr s' = s_psr s /\ s_devs s' = s_devs s
    /\ s_saved_sp s' = s_saved_sp s /\ s_mcr s' = s_mcr s
    /\ (forall b, 0 <= b -> b <> a -> mget (s_mem s') b = mget (s_mem s) b).
Proof. exact write_user. Qed.
Print Assumptions C09_user_write_is_local.

Theorem C09_rti_user : forall e s,
  psr_privileged (s_psr s) = false -> fl_ignore_priv (s_flags s) = false ->
  exec e SRTI s = (s, inr (BErr PrivilegeViolation)).
Proof. intros e s P I. apply rti_user. split; assumption. Qed.
Print Assumptions C09_rti_user.

(* [U s0 s]: s is in user mode (PSR bit 15 set, 16-bit PSR) and agrees with s0 on everything a
   user program must not change *)
Theorem C09_user_instruction_confined : forall e i s0 s,
  is_trap i = false -> U s0 s -> U s0 (fst (exec e i s)).
Proof. intros e i s0 s NT H. exact (inv_U_exec e i s0 NT s H). Qed.
Print Assumptions C09_user_instruction_confined.

Theorem C09_user_fetch_execute_confined : forall e s0 s,
  U s0 s ->
  (forall i, decode (w_data (mget (s_mem s) (s_pc s))) = DOk i -> is_trap i = false) ->
  U s0 (fst (fetch_exec_u e s)).
Proof. exact user_fetch_exec_confined. Qed.
Print Assumptions C09_user_fetch_execute_confined.

(* the invariant is what it should be, and holds initially for every user-mode state *)
Theorem C09_invariant_meaning : forall s0 s, U s0 s ->
  psr_privileged (s_psr s) = false /\ s_devs s = s_devs s0 /\ s_saved_sp s = s_saved_sp s0 /\ s_mcr s = s_mcr s0
  /\ (forall a, 0 <= a -> in_user a = false -> mget (s_mem s) a = mget (s_mem s0) a).
Proof.
  intros s0 s (P & F & I & M & D & SS & MC & IR). repeat split; try assumption. apply user_psr_not_priv. exact P.
Qed.
Print Assumptions C09_invariant_meaning.

Theorem C09_invariant_initial : forall s, 32768 <= s_psr s < 65536 -> fl_ignore_priv (s_flags s) = false -> U s s.
Proof. exact U_refl. Qed.
Print Assumptions C09_invariant_initial.

Example C09_ex : in_user 12287 = false /\ in_user 12288 = true /\ in_user 65023 = true /\ in_user 65024 = false.
Proof. vm_compute. repeat split. Qed.
