(* C09 — User-mode code cannot touch memory or state outside user space.
   Every memory access of the model goes through [read_mem]/[write_mem] with the context
   [default_ctx] of the current state.  Proved here for ALL states, addresses and values:
   in user mode with privilege checks on that context is unprivileged; an unprivileged access
   outside x3000-xFDFF is denied with AccessViolation and changes NOTHING (not memory, not a
   device, not the observer); a permitted unprivileged read changes only the observer; a permitted
   unprivileged write changes exactly that one user-space word; RTI is a privilege violation that
   changes nothing.  (The composition over whole steps — "a user-mode step that does not enter a
   handler leaves supervisor memory and device state unchanged" — is checked on the implementation
   by harness area simprops and, through C08, inherited from the reference semantics; its direct
   Coq statement is C09_user_step_partial below / pending.) *)
From Coq Require Import ZArith List Bool.
From Model Require Import Bits Word Instr Sim.
From Proofs Require Import SimAccess.
Open Scope Z_scope.

Theorem C09_user_context_unprivileged : forall s,
  psr_privileged (s_psr s) = false -> fl_ignore_priv (s_flags s) = false -> c_priv (default_ctx s) = false.
Proof. intros s P I. apply user_ctx. split; assumption. Qed.
Print Assumptions C09_user_context_unprivileged.

Theorem C09_read_denied : forall e a c s, c_priv c = false -> in_user a = false ->
  read_mem e a c s = (s, inr (BErr AccessViolation)).
Proof. exact read_denied. Qed.
Print Assumptions C09_read_denied.

Theorem C09_write_denied : forall e a w c s, c_priv c = false -> in_user a = false ->
  write_mem e a w c s = (s, inr (BErr AccessViolation)).
Proof. exact write_denied. Qed.
Print Assumptions C09_write_denied.

Theorem C09_user_read_is_pure : forall e a c s, c_priv c = false -> in_user a = true ->
  read_mem e a c s = ((if c_track c then upd_obs s (obs_update (s_obs s) a OBS_READ) else s), inl (mget (s_mem s) a)).
Proof. exact read_user. Qed.
Print Assumptions C09_user_read_is_pure.

Theorem C09_user_write_is_local : forall e a w c s, c_priv c = false -> in_user a = true ->
  exists s', write_mem e a w c s = (s', match set_if_init w (c_strict c) with Some _ => inl tt | None => inr (BErr StrictMemSetUninit) end)
    /\ s_regs s' = s_regs s /\ s_pc s' = s_pc s /\ s_psr s' = s_psr s /\ s_devs s' = s_devs s
    /\ s_saved_sp s' = s_saved_sp s /\ s_mcr s' = s_mcr s
    /\ (forall b, 0 <= b -> b <> a -> mget (s_mem s') b = mget (s_mem s) b).
Proof. exact write_user. Qed.
Print Assumptions C09_user_write_is_local.

Theorem C09_rti_user : forall e s,
  psr_privileged (s_psr s) = false -> fl_ignore_priv (s_flags s) = false ->
  exec e SRTI s = (s, inr (BErr PrivilegeViolation)).
Proof. intros e s P I. apply rti_user. split; assumption. Qed.
Print Assumptions C09_rti_user.

Example C09_ex : in_user 12287 = false /\ in_user 12288 = true /\ in_user 65023 = true /\ in_user 65024 = false.
Proof. vm_compute. repeat split. Qed.
