(* C09 — User-mode code cannot touch memory or state outside user space.
   Every memory access of the model goes through [read_mem]/[write_mem] with the context
   [default_ctx] of the current state.  Proved here for ALL states, addresses and values:
   in user mode with privilege checks on that context is unprivileged; an unprivileged access
   outside x3000-xFDFF is denied with AccessViolation and changes NOTHING (not memory, not a
   device, not the observer); a permitted unprivileged read changes only the observer; a permitted
   unprivileged write changes exactly that one user-space word; RTI is a privilege violation that
   changes nothing.  Composed over whole instructions (C09_user_instruction_confined,
   C09_user_fetch_execute_confined): in user mode with checks on, fetching and executing any
   instruction other than TRAP — whatever its addressing mode and operands, on every path
   including the error paths — leaves the machine in user mode and leaves every memory word
   outside user space, every device, the supervisor stack pointer, the MCR and the
   internal-register mappings exactly as they were; and over runs of any length of such steps
   (C09_user_step_confined, C09_user_run_confined; the devices change only by being polled).
   TRAP and interrupts enter the OS through
   the vector table: their privileged accesses are exactly those of [enter] (C08_entry_refines). *)
From Coq Require Import ZArith List Bool.
From Model Require Import Bits Word Instr Sim.
From Proofs Require Import SimAccess SimUser IrqProofs SimUserRun SimUserHalt.
Import ListNotations.
Open Scope Z_scope.

Theorem C09_user_context_unprivileged : forall s,
  psr_privileged (s_psr s) = false -> fl_ignore_priv (s_flags s) = false -> c_priv (default_ctx s) = false.
Proof. intros s P I. apply user_ctx. split; assumption. Qed.
Print Assumptions C09_user_context_unprivileged.

Theorem C09_read_denied : forall e a c s, c_priv c = false -> in_user a = false ->
  read_mem e a c s = (s, inr (BErr AccessViolation)).
Proof. exact read_denied. Qed.
Print Assumptions C09_read_denied.

Theorem C09_write_denied : forall e a w c s, c_priv c = false -> in_user a = false ->
  write_mem e a w c s = (s, inr (BErr AccessViolation)).
Proof. exact write_denied. Qed.
Print Assumptions C09_write_denied.

Theorem C09_user_read_is_pure : forall e a c s, c_priv c = false -> in_user a = true ->
  read_mem e a c s = ((if c_track c then upd_obs s (obs_update (s_obs s) a OBS_READ) else s), inl (mget (s_mem s) a)).
Proof. exact read_user. Qed.
Print Assumptions C09_user_read_is_pure.

Theorem C09_user_write_is_local : forall e a w c s, c_priv c = false -> in_user a = true ->
  exists s', write_mem e a w c s = (s', match set_if_init w (c_strict c) with Some _ => inl tt | None => inr (BErr StrictMemSetUninit) end)
    /\ s_regs s' = s_regs s /\ s_pc s' = s_pc s /\ s_psr s' = s_psr s /\ s_devs s' = s_devs s
    /\ s_saved_sp s' = s_saved_sp s /\ s_mcr s' = s_mcr s
    /\ (forall b, 0 <= b -> b <> a -> mget (s_mem s') b = mget (s_mem s) b).
Proof. exact write_user. Qed.
Print Assumptions C09_user_write_is_local.

Theorem C09_rti_user : forall e s,
  psr_privileged (s_psr s) = false -> fl_ignore_priv (s_flags s) = false ->
  exec e SRTI s = (s, inr (BErr PrivilegeViolation)).
Proof. intros e s P I. apply rti_user. split; assumption. Qed.
Print Assumptions C09_rti_user.

(* [U s0 s]: s is in user mode (PSR bit 15 set, 16-bit PSR) and agrees with s0 on everything a
   user program must not change *)
Theorem C09_user_instruction_confined : forall e i s0 s,
  is_trap i = false -> U s0 s -> U s0 (fst (exec e i s)).
Proof. intros e i s0 s NT H. exact (inv_U_exec e i s0 NT s H). Qed.
Print Assumptions C09_user_instruction_confined.

Theorem C09_user_fetch_execute_confined : forall e s0 s,
  U s0 s ->
  (forall i, decode (w_data (mget (s_mem s) (s_pc s))) = DOk i -> is_trap i = false) ->
  U s0 (fst (fetch_exec_u e s)).
Proof. exact user_fetch_exec_confined. Qed.
Print Assumptions C09_user_fetch_execute_confined.

(* whole steps and runs.  [UP s0 s] is [U s0 s] up to the devices, which the machine itself polls at
   every boundary ([PolledFrom]); the user program has no part in that.  One boundary in user mode at
   which no interrupt is taken and the word at the PC is not a TRAP — whatever the instruction,
   operands and outcome (completed or any error): *)
Theorem C09_user_step_confined : forall e s0 s,
  UP s0 s -> (forall v p, ~ takes_irq e s v p) ->
  (forall i, decode (w_data (mget (s_mem s) (s_pc s))) = DOk i -> is_trap i = false) ->
  UP s0 (fst (step_inner e s)) /\ s_devs (fst (step_inner e s)) = polled_devs e (s_devs s) (e_draws e).
Proof. exact user_step_confined. Qed.
Print Assumptions C09_user_step_confined.
(* runs of any length (each step as [step_in] performs it: observer emptied, then [step_inner]) *)
Theorem C09_user_run_confined : forall s0 s t, UserRun s t -> UP s0 s -> UP s0 t /\ PolledFrom (s_devs s) (s_devs t).
Proof. exact user_run_confined. Qed.
Print Assumptions C09_user_run_confined.
Theorem C09_user_run_def : forall s t, UserRun s t <->
  s = t \/ exists e,
    (forall v p, ~ takes_irq e s v p) /\
    (forall i, decode (w_data (mget (s_mem s) (s_pc s))) = DOk i -> is_trap i = false) /\
    UserRun (fst (step_inner e (upd_obs s []))) t.
Proof.
  intros s t. split.
  - intros R. destruct R as [s|e s t NT NTR R]; [left; reflexivity|right; exists e; repeat split; assumption].
  - intros [E|(e & NT & NTR & R)]; [subst; apply ur_refl|exact (ur_next e s t NT NTR R)].
Qed.
Print Assumptions C09_user_run_def.
Theorem C09_run_invariant_meaning : forall s0 s, UP s0 s ->
  psr_privileged (s_psr s) = false /\ s_flags s = s_flags s0 /\ s_saved_sp s = s_saved_sp s0 /\
  s_mcr s = s_mcr s0 /\ s_ireg s = s_ireg s0 /\
  (forall a, 0 <= a -> in_user a = false -> mget (s_mem s) a = mget (s_mem s0) a).
Proof. exact UP_meaning. Qed.
Print Assumptions C09_run_invariant_meaning.
(* non-vacuity, evaluated in Coq: ADD then STI through a pointer into OS space; the run exists, the
   store is denied, the OS word is untouched *)
Theorem C09_run_example :
  UP ex_user_state ex_user_state /\
  exists t, UserRun ex_user_state t /\ UP ex_user_state t /\
    s_instrs t = 1 /\ rget (s_regs t) 0 = new_init 1 /\
    snd (step_inner ex_free (upd_obs (fst (step_inner ex_free (upd_obs ex_user_state []))) [])) = inr (BErr AccessViolation) /\
    mget (s_mem t) 512 = new_init 777.
Proof. exact ex_user_run. Qed.
Print Assumptions C09_run_example.
(* the one TRAP that does not enter the OS: under virtual traps HALT (TRAP x25) stops the machine where it is.
   The confinement theorems hold for programs that end in it: [stays_user real i] = every instruction but TRAP,
   and TRAP x25 when traps are virtual *)
Theorem C09_stays_user_def : forall real i,
  stays_user real i = match i with STRAP v => negb real && (v =? 37) | _ => true end.
Proof. reflexivity. Qed.
Print Assumptions C09_stays_user_def.
Theorem C09_user_instruction_confined_halt : forall e i s0 s,
  stays_user (fl_real (s_flags s0)) i = true -> U s0 s -> U s0 (fst (exec e i s)).
Proof. intros e i s0 s H Hs. exact (inv_U_exec_halt e i s0 H s Hs). Qed.
Print Assumptions C09_user_instruction_confined_halt.
Theorem C09_user_step_confined_halt : forall e s0 s,
  UP s0 s -> (forall v p, ~ takes_irq e s v p) ->
  (forall i, decode (w_data (mget (s_mem s) (s_pc s))) = DOk i -> stays_user (fl_real (s_flags s0)) i = true) ->
  UP s0 (fst (step_inner e s)) /\ s_devs (fst (step_inner e s)) = polled_devs e (s_devs s) (e_draws e).
Proof. exact user_step_confined_halt. Qed.
Print Assumptions C09_user_step_confined_halt.
Theorem C09_user_run_confined_halt : forall s0 s t, UserRunH (fl_real (s_flags s0)) s t -> UP s0 s -> UP s0 t.
Proof. exact user_run_confined_halt. Qed.
Print Assumptions C09_user_run_confined_halt.
(* the invariant is what it should be, and holds initially for every user-mode state *)
Theorem C09_invariant_meaning : forall s0 s, U s0 s ->
  psr_privileged (s_psr s) = false /\ s_devs s = s_devs s0 /\ s_saved_sp s = s_saved_sp s0 /\ s_mcr s = s_mcr s0
  /\ (forall a, 0 <= a -> in_user a = false -> mget (s_mem s) a = mget (s_mem s0) a).
Proof.
  intros s0 s (P & F & I & M & D & SS & MC & IR). repeat split; try assumption. apply user_psr_not_priv. exact P.
Qed.
Print Assumptions C09_invariant_meaning.

Theorem C09_invariant_initial : forall s, 32768 <= s_psr s < 65536 -> fl_ignore_priv (s_flags s) = false -> U s s.
Proof. exact U_refl. Qed.
Print Assumptions C09_invariant_initial.

Example C09_ex : in_user 12287 = false /\ in_user 12288 = true /\ in_user 65023 = true /\ in_user 65024 = false.
Proof. vm_compute. repeat split. Qed.
