(* C10 — Interrupts are priority-gated and transparent to the interrupted program.
   Statements only; proofs in proofs/IrqProofs.v.  Everything is about the simulator model of
   model/Sim.v ([step_inner], [handle_interrupt], [exec], [poll_all]/[pick_irq]); [pending],
   [polled], [after_poll], [fetch_exec], [last_max], [entry_pre], [entry_post],
   [handler_returned] are defined in proofs/IrqProofs.v ([fetch_exec] is literally the second half of
   [step_inner]). *)
From Coq Require Import ZArith List Bool Lia.
From Model Require Import Bits Word Instr Sim Load.
From Proofs Require Import SimAccess SimUser IrqProofs IrqCongruence.
Import ListNotations.
Open Scope Z_scope.

(* Arbitration, for every device list (induction over the list): the request returned by the
   poll is a maximal-key request among those delivered in this poll, and the LAST one among equal
   keys; no request at all exactly when no device delivered one. *)
Theorem C10_arbitration : forall e s,
  (forall x, pending e s = Some x <-> last_max (polled e (s_devs s) (e_draws e)) x) /\
  (pending e s = None <-> polled e (s_devs s) (e_draws e) = []).
Proof. intros e s. split; [intro x; apply pending_is_last_max|apply pending_none]. Qed.
Print Assumptions C10_arbitration.

(* The gate, for every state and environment: the step takes the interrupt branch exactly when the
   arbitration winner is a vectored request with priority strictly above the PSR priority;
   otherwise it fetches (or reports the external interrupt). *)
Theorem C10_gate : forall e s,
  step_inner e s =
  match pending e s with
  | Some (IVec v p) =>
      if psr_priority (s_psr s) <? p then handle_interrupt e (256 + v) (Some p) (after_poll e s)
      else fetch_exec e (after_poll e s)
  | Some IExt => (after_poll e s, inr (BErr InterruptErr))
  | None => fetch_exec e (after_poll e s)
  end.
Proof. exact step_inner_cases. Qed.
Print Assumptions C10_gate.

Theorem C10_gate_taken : forall e s v p, takes_irq e s v p ->
  step_inner e s = handle_interrupt e (256 + v) (Some p) (after_poll e s).
Proof. exact gate_taken. Qed.
Print Assumptions C10_gate_taken.

Theorem C10_gate_not_taken : forall e s, (forall v p, ~ takes_irq e s v p) ->
  step_inner e s = match pending e s with
                   | Some IExt => (after_poll e s, inr (BErr InterruptErr))
                   | _ => fetch_exec e (after_poll e s)
                   end.
Proof. exact gate_not_taken. Qed.
Print Assumptions C10_gate_not_taken.

(* every request a device of the model can deliver has a priority in 0..7 (Interrupt::vectored clamps) *)
Theorem C10_priority_range : forall e s v p, pending e s = Some (IVec v p) -> 0 <= p < 8.
Proof. exact pending_prio_range. Qed.
Print Assumptions C10_priority_range.

(* Boundary, all states (strict or not, any stack pointer): a taken interrupt replaces the
   fetch — the step is the entry and nothing else — and instructions_run is unchanged whatever
   the entry does (including its failure paths). *)
Theorem C10_boundary : forall e s v p, takes_irq e s v p ->
  step_inner e s = handle_interrupt e (256 + v) (Some p) (after_poll e s) /\
  s_instrs (fst (step_inner e s)) = s_instrs s.
Proof. exact boundary. Qed.
Print Assumptions C10_boundary.

(* Entry snapshot (non-strict machine, 16-bit PSR, the two stack slots below the I/O page; R6,
   saved SP, memory, frames arbitrary).  [entry_post (after_poll e s) s' v p] says: the old PSR
   is at SSP-1 and the old PC at SSP-2 ([entry_mem]), PC = mem'[x100+v], PSR = supervisor,
   priority p, CC = Z, other PSR bits kept ([entry_psr]), R6 = SSP-2 where SSP is the saved SP
   when coming from user mode (and then the saved SP becomes the old R6) and R6 otherwise;
   instructions_run, flags, devices, MCR unchanged; one frame pushed. *)
Theorem C10_entry : forall e s v p, takes_irq e s v p ->
  fl_strict (s_flags s) = false -> 0 <= s_psr s < 65536 -> regs8 (s_regs s) -> 0 <= v < 256 ->
  (IO_START <=? wrap16 (w_data (entry_sp s) - 1)) = false ->
  (IO_START <=? wrap16 (w_data (entry_sp s) - 2)) = false ->
  exists s', step_inner e s = (s', inl tt) /\ entry_post (after_poll e s) s' v p.
Proof. exact step_entry. Qed.
Print Assumptions C10_entry.

(* the fields of [entry_post], spelled out with mget *)
Theorem C10_entry_fields : forall s s' v p, entry_post s s' v p -> 0 <= s_psr s < 65536 -> 0 <= p < 8 -> regs8 (s_regs s) ->
  let sp := w_data (entry_sp s) in
  mget (s_mem s') (wrap16 (sp - 1)) = new_init (s_psr s) /\
  mget (s_mem s') (wrap16 (sp - 2)) = new_init (s_pc s) /\
  s_pc s' = w_data (mget (s_mem s') (256 + v)) /\
  psr_privileged (s_psr s') = true /\ psr_priority (s_psr s') = p /\ psr_cc (s_psr s') = 2 /\
  s_psr s' = Z.land (s_psr s) 30968 + 256 * p + 2 /\
  w_data (rget (s_regs s') 6) = wrap16 (sp - 2) /\
  (psr_privileged (s_psr s) = false -> s_saved_sp s' = rget (s_regs s) 6) /\
  (psr_privileged (s_psr s) = true -> s_saved_sp s' = s_saved_sp s) /\
  s_instrs s' = s_instrs s.
Proof. exact entry_fields. Qed.
Print Assumptions C10_entry_fields.

(* RTI is the inverse of the entry: if the handler reaches an RTI with R6 back at its entry value,
   the saved SP untouched, the two stack slots intact, still privileged, then executing RTI
   restores PC and PSR exactly, R6 and the saved SP (the swapped one exactly, the pushed-on one
   up to its 16 data bits), leaves every other register, memory, instructions_run alone. *)
Theorem C10_rti_inverse : forall e s v p s1 s2,
  entry_pre s v p -> entry_post s s1 v p -> handler_returned s s1 s2 ->
  0 <= w_data (entry_sp s) < 65536 ->
  exists s3, exec e SRTI s2 = (s3, inl tt) /\
    s_pc s3 = s_pc s /\ s_psr s3 = s_psr s /\
    w_data (rget (s_regs s3) 6) = w_data (rget (s_regs s) 6) /\
    w_data (s_saved_sp s3) = w_data (s_saved_sp s) /\
    (psr_privileged (s_psr s) = false -> rget (s_regs s3) 6 = rget (s_regs s) 6) /\
    (psr_privileged (s_psr s) = true -> s_saved_sp s3 = s_saved_sp s) /\
    (forall k, 0 <= k -> k <> 6 -> rget (s_regs s3) k = rget (s_regs s2) k) /\
    s_mem s3 = s_mem s2 /\ s_instrs s3 = s_instrs s2 /\ s_devs s3 = s_devs s2 /\ s_flags s3 = s_flags s2 /\
    regs8 (s_regs s3) /\ s_mcr s3 = s_mcr s2 /\ s_ireg s3 = s_ireg s2 /\ s_alloca s3 = s_alloca s2 /\
    rget (s_regs s3) 6 = (if psr_privileged (s_psr s) then w_add (w_sub (entry_sp s) (new_init 2)) (new_init 2) else rget (s_regs s) 6) /\
    s_saved_sp s3 = (if psr_privileged (s_psr s) then s_saved_sp s else w_add (w_sub (entry_sp s) (new_init 2)) (new_init 2)).
Proof. exact rti_restores. Qed.
Print Assumptions C10_rti_inverse.

(* Transparency, what is proved.
   [peq s s']: s' shows the interrupted program exactly what s did — PC, PSR (CC, privilege, priority),
   all eight registers (so also its stack pointer), the saved SP, every word of user memory,
   keyboard queue and display buffer, MCR, flags, internal-register map.
   [HandlerOK s s1 s2] is the explicit contract of a well-behaved handler between the state s1
   right after the entry and the state s2 in which it executes RTI: back at its entry stack pointer
   with the two saved words intact, saved SP untouched, still privileged, every register restored,
   user memory / keyboard / display / MCR / flags / mappings untouched.
   C10_serviced_once: entry ; handler meeting HandlerOK ; RTI  gives a state program-equal to the
   interrupted one.  C10_transparent_partial: by induction over the schedule, any number of
   interrupts serviced one after the other at an instruction boundary (each taken by the gate, each
   handler meeting HandlerOK — a handler's own run may contain nested serviced interrupts, the
   contract is about its end state) leaves the machine program-equal to the interrupted state, so
   the instruction that finally executes is the one the uninterrupted run executes, from the same
   visible state.
   PARTIAL — what is missing for the full statement over whole runs: the congruence of an ordinary
   instruction step with respect to [peq] (two program-equal states that differ in dead
   supervisor-stack slots, handler-private supervisor memory, instructions_run, the observer and
   the consumed part of scripted devices step to program-equal states, provided the instruction
   does not read those supervisor words), and with it the induction across the boundaries of a
   whole program.  The harness checks exactly that on the implementation (interrupted vs
   uninterrupted runs, exhaustive placement). *)
Theorem C10_serviced_once : forall e s v p s1 s2,
  entry_pre s v p -> entry_post s s1 v p -> HandlerOK s s1 s2 ->
  (exists d, entry_sp s = new_init d /\ 2 <= d <= 12288) ->
  exists s3, exec e SRTI s2 = (s3, inl tt) /\ peq s s3 /\ s_instrs s3 = s_instrs s2.
Proof. exact serviced_once. Qed.
Print Assumptions C10_serviced_once.

Theorem C10_transparent_partial : forall e s s', Serviced e s s' -> peq s s'.
Proof. exact serviced_transparent. Qed.
Print Assumptions C10_transparent_partial.

(* Transparency over whole runs of user code (proofs/IrqCongruence.v: a two-run relational Hoare rule
   for bind; every non-TRAP instruction is a congruence for "shows the program the same things").
   [IRun n s s']: n instructions of the interrupted run from s to s' — before each instruction any
   number of interrupts are serviced ([Svc]: the gate takes the request in a whole [step_inner],
   the handler meets HandlerOK, its RTI executes), the instruction itself is a [step_inner] with
   no request pending.  [URun n t t']: the same n instructions fetched and executed with nothing in
   between.  For a user-mode, non-strict machine ([uok]) executing non-TRAP instructions
   ([nontrap_at]): the two runs end program-equal — same PC, PSR/CC, all registers incl. the stack
   pointer, saved SP, every word of user memory, keyboard and display.
   PARTIAL with respect to the property: TRAP instructions (the OS routines run in supervisor mode
   on the stack the handlers also use: the congruence there needs "the routine never reads a
   supervisor word below its stack pointer before writing it") and strict mode are not covered;
   the harness covers both on the implementation. *)
Theorem C10_transparent_user_partial : forall n s s', IRun n s s' ->
  forall t, peq s t -> uok s -> exists t', URun n t t' /\ peq s' t' /\ uok s'.
Proof. exact user_run_transparent. Qed.
Print Assumptions C10_transparent_user_partial.

(* one instruction: program-equal user-mode states execute any non-TRAP instruction with the same
   result and stay program-equal *)
Theorem C10_user_step_congruence : forall e s t,
  veq s t -> uok s -> nontrap_at s ->
  snd (fetch_exec e t) = snd (fetch_exec e s) /\ veq (fst (fetch_exec e s)) (fst (fetch_exec e t)) /\ uok (fst (fetch_exec e s)).
Proof. exact cong_fetch_exec. Qed.
Print Assumptions C10_user_step_congruence.

(* the hypotheses are satisfiable: a fresh machine (user mode, priority 0, saved SP x3000) with a
   scripted device requesting vector x80 at priority 4 takes the interrupt *)
Example C10_entry_pre_satisfiable :
  let s := new_sim_devs (mkFlags false false false false) 0 true default_ireg [DNull; DNull; DNull; DScript [Some (IVec 128 4)]] in
  takes_irq (mkEnv false false []) s 128 4 /\ entry_pre s 128 4 /\
  (exists d, entry_sp s = new_init d /\ 2 <= d <= 12288).
Proof.
  cbv zeta. split; [|split].
  - split; [vm_compute; reflexivity|vm_compute; reflexivity].
  - constructor; try (vm_compute; reflexivity); try lia; vm_compute; split; congruence.
  - exists 12288. split; [vm_compute; reflexivity|lia].
Qed.
