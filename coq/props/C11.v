(* C11 — built-in OS trap routines meet their contracts.
   Statements only; proofs in proofs/SimStep.v (one-instruction rules derived from Sim.step_in),
   proofs/OsProofs.v (the routines of today's OS image, symbolic registers / memory / queues,
   loops by induction) and proofs/OsContracts.v (restated on states described by [user_ready]).

   Reading guide.  [run sc t n s] iterates [Sim.step_in] n times from state s, the t-th instruction
   running under environment [sc t] (which says whether another thread holds the keyboard /
   display buffer lock during it).  [user_ready s sp q buf]: s is in user mode at a user address,
   the OS image (gen/OsImage.v, regenerated from the crate) is in memory, the saved supervisor
   stack pointer is [sp], keyboard (interrupts off, queue q) and display (buffer buf) are attached,
   non-strict mode; registers, condition codes, priority, user memory, frames are arbitrary.
   [same_user_view s s']: PSR (condition codes, privilege, priority), saved SP, frame stack, MCR,
   flags and every user-memory word are equal, and the OS image is still in place. *)
From Coq Require Import ZArith List Bool Lia.
From Gen Require Import Constants OsImage.
From Model Require Import Tree Bits Word Instr Sim Load.
From Proofs Require Import SimStep OsProofs OsPutsp OsContracts.
Import ListNotations.
Open Scope Z_scope.

(* OUT / PUTC: the display receives exactly R0's low byte; everything else is restored.
   For every R0, registers, condition codes, priority; display attached and free. *)
Theorem C11_out : forall s sp q buf sc t,
  user_ready s sp q buf -> OS_END + 3 <= sp <= USER_START ->
  mget (s_mem s) (s_pc s) = new_init 61473 ->
  ds_free_from sc t 9 ->
  exists s', run sc t 9 s = (s', OOk) /\ s_pc s' = wrap16 (s_pc s + 1) /\ s_regs s' = s_regs s /\
             s_devs s' = kdevs q (buf ++ [w_data (rget (s_regs s) 0) mod 256]) /\ same_user_view s s'.
Proof. exact contract_out. Qed.
Print Assumptions C11_out.

(* GETC: R0 := head of the queue, exactly that byte consumed, all other registers and the rest restored *)
Theorem C11_getc : forall s sp ch q buf sc t,
  user_ready s sp (ch :: q) buf -> OS_END + 2 <= sp <= USER_START ->
  mget (s_mem s) (s_pc s) = new_init 61472 ->
  kb_free_from sc t 5 ->
  exists s', run sc t 5 s = (s', OOk) /\ s_pc s' = wrap16 (s_pc s + 1) /\
             (exists r1 r2 r3 r4 r5 r6 r7 x0, s_regs s = [x0; r1; r2; r3; r4; r5; r6; r7] /\
                                              s_regs s' = [new_init ch; r1; r2; r3; r4; r5; r6; r7]) /\
             s_devs s' = kdevs q buf /\ same_user_view s s'.
Proof. exact contract_getc. Qed.
Print Assumptions C11_getc.

(* PUTS: for every zero-terminated string cs (non-zero 16-bit words) in user memory at R0, the
   display receives the low byte of each word, in order; by induction on cs *)
Theorem C11_puts : forall s sp cs q buf sc t,
  user_ready s sp q buf -> OS_END + 7 <= sp <= USER_START ->
  mget (s_mem s) (s_pc s) = new_init 61474 ->
  chars_ok cs -> str_at (s_mem s) (w_data (rget (s_regs s) 0)) cs ->
  USER_START <= w_data (rget (s_regs s) 0) -> w_data (rget (s_regs s) 0) + Z.of_nat (length cs) < IO_START ->
  ds_free_from sc t (13 * length cs + 13) ->
  exists s', run sc t (13 * length cs + 13) s = (s', OOk) /\ s_pc s' = wrap16 (s_pc s + 1) /\ s_regs s' = s_regs s /\
             s_devs s' = kdevs q (buf ++ low8 cs) /\ same_user_view s s'.
Proof. exact contract_puts. Qed.
Print Assumptions C11_puts.

(* PUTSP: for every packed string at R0 — full words ws (both bytes non-zero) followed by a word z
   whose low byte is zero (even length) or whose high byte is zero (odd length) — the display
   receives low byte then high byte of each full word, then z's low byte if non-zero; by induction
   on ws, the 8-round high-byte extraction by induction on the rounds plus a complete sweep over
   all 65536 words.  The instruction count depends on the data, hence existential. *)
Theorem C11_putsp : forall s sp ws z q buf sc t,
  user_ready s sp q buf -> OS_END + 9 <= sp <= USER_START ->
  mget (s_mem s) (s_pc s) = new_init 61476 ->
  full_ok ws -> term_ok z -> pstr_at (s_mem s) (w_data (rget (s_regs s) 0)) ws z ->
  USER_START <= w_data (rget (s_regs s) 0) -> w_data (rget (s_regs s) 0) + Z.of_nat (length ws) < IO_START ->
  ds_always_free sc ->
  exists n s', run sc t n s = (s', OOk) /\ s_pc s' = wrap16 (s_pc s + 1) /\ s_regs s' = s_regs s /\
               s_devs s' = kdevs q (buf ++ packed_out ws z) /\ same_user_view s s'.
Proof. exact contract_putsp. Qed.
Print Assumptions C11_putsp.

(* IN: prompt "Input character: ", the next byte is consumed, echoed and returned in R0 *)
Theorem C11_in : forall s sp ch q buf sc t,
  user_ready s sp (ch :: q) buf -> OS_END + 9 <= sp <= USER_START ->
  mget (s_mem s) (s_pc s) = new_init 61475 ->
  ds_free_from sc t 251 -> kb_free_from sc t 251 ->
  exists s', run sc t 251 s = (s', OOk) /\ s_pc s' = wrap16 (s_pc s + 1) /\
             (exists r1 r2 r3 r4 r5 r6 r7 x0, s_regs s = [x0; r1; r2; r3; r4; r5; r6; r7] /\
                                              s_regs s' = [new_init ch; r1; r2; r3; r4; r5; r6; r7]) /\
             s_devs s' = kdevs q (buf ++ low8 in_prompt ++ [ch mod 256]) /\ same_user_view s s'.
Proof. exact contract_in. Qed.
Print Assumptions C11_in.

(* HALT, virtual traps: the step reports Halt, the PC stays on the trap, nothing else changes *)
Theorem C11_halt_virtual : forall s sp q buf e,
  user_ready s sp q buf -> fl_real (s_flags s) = false ->
  mget (s_mem s) (s_pc s) = new_init 61477 ->
  exists s', step_in e s = (s', OHalt) /\ s_pc s' = s_pc s /\ s_regs s' = s_regs s /\ s_devs s' = s_devs s /\
             s_mem s' = s_mem s /\ s_psr s' = s_psr s /\ s_saved_sp s' = s_saved_sp s /\ s_mcr s' = s_mcr s.
Proof. exact contract_halt_virtual. Qed.
Print Assumptions C11_halt_virtual.

(* HALT, real traps: after three instructions the machine-control register is off *)
Theorem C11_halt_real : forall s sp q buf sc t,
  user_ready s sp q buf -> OS_END + 2 <= sp <= USER_START -> fl_real (s_flags s) = true ->
  mget (s_mem s) (s_pc s) = new_init 61477 ->
  exists s', run sc t 3 s = (s', OOk) /\ s_mcr s' = false /\ s_devs s' = s_devs s /\
             (forall r, 0 <= r < 6 -> rget (s_regs s') r = rget (s_regs s) r) /\
             (forall a, in_user a = true -> mget (s_mem s') a = mget (s_mem s) a).
Proof. exact contract_halt_real. Qed.
Print Assumptions C11_halt_real.

(* the hypotheses are satisfiable: the machine of Simulator::new with keyboard and display
   attached and any registers / user PC / user-mode PSR / user memory is [user_ready] *)
Theorem C11_fresh_machine_ready : forall fl fill rs pc psr um q buf,
  fl_strict fl = false -> length rs = 8%nat -> psr_privileged psr = false -> in_user pc = true ->
  Forall (fun p => in_user (fst p) = true) um ->
  user_ready (user_machine fl fill rs pc psr um q buf) 12288 q buf.
Proof. exact user_machine_ready. Qed.
Print Assumptions C11_fresh_machine_ready.

Example C11_ex_out :
  let s := user_machine (mkFlags false false false false) 0 (repeat (new_init 65) 8) 12288 32770 [(12288, new_init 61473)] [] [] in
  s_devs (fst (run (fun _ => mkEnv false false []) 0 9 s)) = kdevs [] [65] /\
  s_pc (fst (run (fun _ => mkEnv false false []) 0 9 s)) = 12289.
Proof. vm_compute. split; reflexivity. Qed.

Example C11_ex_packed : packed_out [16706; 17220] 69 = [66; 65; 68; 67; 69] /\ packed_out [16706] 0 = [66; 65] /\
                        full_ok [16706; 17220] /\ term_ok 69 /\ term_ok 0.
Proof. unfold full_ok, term_ok. repeat split; try (vm_compute; congruence); try lia; repeat constructor; try lia; vm_compute; try congruence; auto. Qed.
