(* C12 — Real and virtual traps agree except at HALT and exceptions.
   Statements only; proofs in proofs/TrapFlagProofs.v.  [setr b s] is the state s with
   `use_real_traps` set to b (nothing else differs); [trap_entry e vect] is literally the code of
   [handle_interrupt e vect None] after its virtual short-cut. *)
From Coq Require Import ZArith List Bool Lia String.
From Model Require Import Bits Word Instr Sim Load.
From Proofs Require Import SimStep OsProofs OsContracts IrqProofs TrapFlagProofs TrapOsProofs.
Import ListNotations.
Open Scope Z_scope.

(* For every state and environment: if the step under virtual traps does not end in HALT or in a
   privilege / illegal-opcode / instruction-format / access error, then the step under real traps
   gives the same result and the same state up to the flag.  (Relational proof through every
   instruction of [exec]: the flag is read only by [handle_interrupt] for traps/exceptions and by
   the dispatch in [step].) *)
Theorem C12_flag_irrelevant : forall e s s' r,
  step e (setr false s) = (s', r) -> ~ special r -> step e (setr true s) = (setr true s', r).
Proof. exact flag_irrelevant. Qed.
Print Assumptions C12_flag_irrelevant.

(* [setr] changes the flag and nothing else *)
Theorem C12_setr_only_flag : forall b s,
  s_mem (setr b s) = s_mem s /\ s_regs (setr b s) = s_regs s /\ s_pc (setr b s) = s_pc s /\
  s_psr (setr b s) = s_psr s /\ s_saved_sp (setr b s) = s_saved_sp s /\ s_devs (setr b s) = s_devs s /\
  s_mcr (setr b s) = s_mcr s /\ s_instrs (setr b s) = s_instrs s /\
  fl_real (s_flags (setr b s)) = b /\ setr (fl_real (s_flags s)) s = s.
Proof. intros. repeat split; try reflexivity. apply setr_id. Qed.
Print Assumptions C12_setr_only_flag.

(* At an exception the machine under real traps enters the OS through the exception's vector
   (x100 privilege, x101 illegal opcode and bad format, x102 access) from exactly the state in
   which the machine under virtual traps stopped with the error. *)
Theorem C12_exception_entry : forall e s s' x vect,
  step e (setr false s) = (s', inr (BErr x)) -> exc_vector x = Some vect ->
  step e (setr true s) = trap_entry e vect (setr true s').
Proof. exact exception_enters_os. Qed.
Print Assumptions C12_exception_entry.

(* ---------------------------------------------------------------------------------------------
   HALT and exceptions over today's OS image (coq/gen/OsImage.v, regenerated from the crate at every
   check).  [run sc t n s] (proofs/OsProofs.v) is n successful steps of [step_in] under the
   environments sc t, sc (t+1), ...; [user_ready s sp q buf] (proofs/OsContracts.v): user mode, OS
   image in place, non-strict, default internal registers, keyboard (interrupts off, queue q) and
   display (buffer buf) attached, saved supervisor SP = sp; [stop_ready] is the same without the
   requirement that the PC is in user space.  Both are properties of the user-visible state only:
   registers, user memory, PC, condition codes, frames, counters are arbitrary. *)

(* A user program at a HALT (TRAP x25): under virtual traps the step reports Halt and changes
   nothing (PC stays at the HALT); under real traps the machine runs three instructions through the
   OS (trap entry, AND R7, STI MCR) and stops with the clock off — same display, R0-R5 and user
   memory. *)
Theorem C12_halt : forall sc t s sp q buf,
  user_ready s sp q buf -> OS_END + 2 <= sp <= USER_START ->
  mget (s_mem s) (s_pc s) = new_init 61477 ->
  (exists sv, step_in (sc t) (setr false s) = (sv, OHalt) /\
     s_pc sv = s_pc s /\ s_regs sv = s_regs s /\ s_psr sv = s_psr s /\ s_mem sv = s_mem s /\ s_devs sv = s_devs s /\
     s_mcr sv = s_mcr s /\ s_instrs sv = s_instrs s) /\
  (exists sf, run sc t 3 (setr true s) = (sf, OOk) /\
     s_mcr sf = false /\ s_devs sf = s_devs s /\
     (forall k, 0 <= k <= 5 -> rget (s_regs sf) k = rget (s_regs s) k) /\
     (forall a, in_user a = true -> mget (s_mem sf) a = mget (s_mem s) a)).
Proof. exact halt_agrees. Qed.
Print Assumptions C12_halt.

(* A user program that stops with a privilege / illegal-opcode / bad-format / access error under
   virtual traps (in the state s'): under real traps the same machine enters the OS through the
   exception vector, prints exactly the OS message of that exception (PUTS loop, by induction over
   the string; the display must not be locked by another thread meanwhile) and stops with the clock
   off; R1-R5 and user memory are those of s'. *)
Theorem C12_exception : forall sc t s s' x vect sp q buf,
  step_in (sc t) (setr false s) = (s', OErr x) -> exc_vector x = Some vect ->
  stop_ready s' sp q buf -> OS_END + 11 <= sp <= USER_START ->
  ds_free_from sc (S t) (13 * List.length (exc_msg x) + 17) ->
  exists sf, run sc t (S (13 * List.length (exc_msg x) + 17)) (setr true s) = (sf, OOk) /\
    s_mcr sf = false /\ s_devs sf = kdevs q (buf ++ low8 (exc_msg x)) /\
    (forall a, in_user a = true -> mget (s_mem sf) a = mget (s_mem s') a) /\
    (forall k, 1 <= k <= 5 -> rget (s_regs sf) k = rget (s_regs s') k).
Proof. exact exception_prints. Qed.
Print Assumptions C12_exception.

(* the messages are the strings at the OS labels S_EXC_PRIVL / S_EXC_ILLOP / S_EXC_ACV *)
Example C12_messages :
  exc_msg PrivilegeViolation = os_string "S_EXC_PRIVL" /\ exc_msg IllegalOpcode = os_string "S_EXC_ILLOP" /\
  exc_msg InvalidInstrFormat = os_string "S_EXC_ILLOP" /\ exc_msg AccessViolation = os_string "S_EXC_ACV" /\
  List.length (exc_msg AccessViolation) = 25%nat /\ hd 0 (exc_msg AccessViolation) = 10.
Proof. repeat split; vm_compute; reflexivity. Qed.

(* the hypotheses are satisfiable: a fresh machine with keyboard and display and any user-level contents *)
Example C12_ready_satisfiable : forall fl fill rs pc psr um q buf,
  fl_strict fl = false -> List.length rs = 8%nat -> psr_privileged psr = false -> in_user pc = true ->
  Forall (fun p => in_user (fst p) = true) um ->
  user_ready (user_machine fl fill rs pc psr um q buf) 12288 q buf.
Proof. exact user_machine_ready. Qed.
