(* C12 — Real and virtual traps agree except at HALT and exceptions.
   Statements only; proofs in proofs/TrapFlagProofs.v.  [setr b s] is the state s with
   `use_real_traps` set to b (nothing else differs); [trap_entry e vect] is literally the code of
   [handle_interrupt e vect None] after its virtual short-cut. *)
From Coq Require Import ZArith List Bool Lia.
From Model Require Import Bits Word Instr Sim Load.
From Proofs Require Import IrqProofs TrapFlagProofs.
Import ListNotations.
Open Scope Z_scope.

(* For every state and environment: if the step under virtual traps does not end in HALT or in a
   privilege / illegal-opcode / instruction-format / access error, then the step under real traps
   gives the same result and the same state up to the flag.  (Relational proof through every
   instruction of [exec]: the flag is read only by [handle_interrupt] for traps/exceptions and by
   the dispatch in [step].) *)
Theorem C12_flag_irrelevant : forall e s s' r,
  step e (setr false s) = (s', r) -> ~ special r -> step e (setr true s) = (setr true s', r).
Proof. exact flag_irrelevant. Qed.
Print Assumptions C12_flag_irrelevant.

(* [setr] changes the flag and nothing else *)
Theorem C12_setr_only_flag : forall b s,
  s_mem (setr b s) = s_mem s /\ s_regs (setr b s) = s_regs s /\ s_pc (setr b s) = s_pc s /\
  s_psr (setr b s) = s_psr s /\ s_saved_sp (setr b s) = s_saved_sp s /\ s_devs (setr b s) = s_devs s /\
  s_mcr (setr b s) = s_mcr s /\ s_instrs (setr b s) = s_instrs s /\
  fl_real (s_flags (setr b s)) = b /\ setr (fl_real (s_flags s)) s = s.
Proof. intros. repeat split; try reflexivity. apply setr_id. Qed.
Print Assumptions C12_setr_only_flag.

(* At an exception the machine under real traps enters the OS through the exception's vector
   (x100 privilege, x101 illegal opcode and bad format, x102 access) from exactly the state in
   which the machine under virtual traps stopped with the error. *)
Theorem C12_exception_entry : forall e s s' x vect,
  step e (setr false s) = (s', inr (BErr x)) -> exc_vector x = Some vect ->
  step e (setr true s) = trap_entry e vect (setr true s').
Proof. exact exception_enters_os. Qed.
Print Assumptions C12_exception_entry.
