(* C13 — run, run_with_limit, run_while, step_over, step_out and pauses equal repeated single steps.
   Statements only; proofs in proofs/RunProofs.v (induction on the per-iteration inputs) and
   proofs/StepFrame.v (two facts about the single step).  The declarative side — repeated
   stepping [iter_steps], "nothing stops here" [quiet_at], "the call stops here" [stop_here], the
   first such boundary [first_stop], entry/exit of a call [start]/[finish] — is spec/RunSpec.v.

   Inputs of a call: one [iter] per loop iteration (external MCR clears before the MCR test /
   before the instruction, and the environment of the step).  The list is also the fuel; the
   outcome "inputs exhausted" ([RFuel]/[SFuel]) is excluded.  A tripwire is any function of the
   number of tripwire calls so far and the state. *)
From Coq Require Import ZArith List Bool.
From Model Require Import Word Sim Load Run.
From Spec Require Import RunSpec.
From Proofs Require Import StepFrame RunProofs.
Import ListNotations.
Open Scope Z_scope.

(* The loop returns (state, reason, number of instructions attempted) exactly when that triple is
   the FIRST stop of repeated single stepping: every earlier boundary had the MCR on, the tripwire
   true, its instruction completed and no breakpoint matched after it; at the stop boundary the
   MCR is off, or else the tripwire is false, or else the instruction halts / fails, or else a
   breakpoint matches after it.  Both directions: the description determines the result. *)
Theorem C13_loop_is_first_stop : forall bps T its s s' st n, st <> SFuel ->
  (run_loop bps T O its s = (s', st, n) <-> first_stop bps T its s s' st n).
Proof. exact run_loop_iff. Qed.
Print Assumptions C13_loop_is_first_stop.

Theorem C13_first_stop_unique : forall bps T its s s1 st1 n1 s2 st2 n2,
  first_stop bps T its s s1 st1 n1 -> first_stop bps T its s s2 st2 n2 ->
  s1 = s2 /\ st1 = st2 /\ n1 = n2.
Proof. exact first_stop_unique. Qed.
Print Assumptions C13_first_stop_unique.

(* run_while (hence run, run_with_limit, step_over, step_out, which are run_while with their
   tripwires): observer cleared and MCR stored on, first stop of repeated stepping, MCR stored
   off and pause condition recorded. *)
Theorem C13_run_is_iter : forall bps T its sp sp' r n, r <> RFuel ->
  (run_while bps T its sp = (sp', r, n) <->
   exists s1 st, first_stop bps T its (start (fst sp)) s1 st n /\ finish s1 st = (sp', r)).
Proof. exact run_while_is_iter. Qed.
Print Assumptions C13_run_is_iter.

(* the boundary states of the description are those of repeated `step_in` (the public single
   step), up to the access observer, which `step_in` clears before every instruction *)
Theorem C13_steps_are_step_in : forall its n s b,
  iter_steps its n s = Some b -> exists b', step_in_n its n s = Some b' /\ same_but_obs b b'.
Proof. exact steps_are_step_in. Qed.
Print Assumptions C13_steps_are_step_in.

(* a single step never changes the instruction counter except by adding one when it completes *)
Theorem C13_step_counts_one : forall e s s' r, step e s = (s', r) ->
  s_instrs s' = s_instrs s \/ (r = inl tt /\ s_instrs s' = (s_instrs s + 1) mod 18446744073709551616).
Proof. exact step_instrs. Qed.
Print Assumptions C13_step_counts_one.

(* run_with_limit never completes more than max instructions, and when it pauses on its limit
   exactly max instructions were completed (counter difference modulo 2^64, as the code computes) *)
Theorem C13_limit : forall bps max its sp sp' r n,
  0 <= max < 18446744073709551616 -> run_with_limit bps max its sp = (sp', r, n) ->
  (s_instrs (fst sp') - s_instrs (fst sp)) mod 18446744073709551616 <= max /\
  (r = ROk -> snd sp' = PTripwire ->
     (s_instrs (fst sp') - s_instrs (fst sp)) mod 18446744073709551616 = max).
Proof. exact run_with_limit_count. Qed.
Print Assumptions C13_limit.

(* step_over: first stop for the tripwire "first iteration, or deeper than at the start"; when it
   pauses on that tripwire at least one instruction ran, the depth is back to <= the starting
   depth, and at every boundary strictly in between the depth was greater *)
Theorem C13_over : forall bps its sp sp' r n,
  step_over bps its sp = (sp', r, n) -> r <> RFuel ->
  exists s1 st, first_stop bps (trip_over (s_frame_no (fst sp))) its (start (fst sp)) s1 st n /\
    finish s1 st = (sp', r) /\
    (st = SPause PTripwire ->
       (1 <= n)%nat /\ s_frame_no s1 <= s_frame_no (fst sp) /\
       forall i b, (1 <= i < n)%nat -> iter_steps its i (start (fst sp)) = Some b ->
                   s_frame_no (fst sp) < s_frame_no b).
Proof. exact step_over_spec. Qed.
Print Assumptions C13_over.

(* step_out: nothing at all at depth 0 (state, observer, MCR, pause condition unchanged);
   otherwise as step_over with "strictly below the starting depth" *)
Theorem C13_out : forall bps its sp sp' r n,
  step_out bps its sp = (sp', r, n) -> r <> RFuel ->
  (s_frame_no (fst sp) = 0 /\ sp' = sp /\ r = ROk /\ n = O) \/
  (s_frame_no (fst sp) <> 0 /\
   exists s1 st, first_stop bps (trip_out (s_frame_no (fst sp))) its (start (fst sp)) s1 st n /\
    finish s1 st = (sp', r) /\
    (st = SPause PTripwire ->
       (1 <= n)%nat /\ s_frame_no s1 < s_frame_no (fst sp) /\
       forall i b, (1 <= i < n)%nat -> iter_steps its i (start (fst sp)) = Some b ->
                   s_frame_no (fst sp) <= s_frame_no b)).
Proof. exact step_out_spec. Qed.
Print Assumptions C13_out.

(* Splitting: a run limited to a instructions that pauses on its limit, resumed with limit b,
   ends exactly like one run limited to a+b on the consumed inputs of the first followed by the
   inputs of the second: same result, same pause condition, same number of instructions
   attempted in total, same state (instruction counter included) except for the access
   observer, which the resumed call clears at the seam.
   Side conditions: the first segment returned Ok with pause condition Tripwire (this excludes
   a breakpoint matching after its last instruction and the MCR being off at the seam, which
   take precedence over the limit); a+b does not overflow u64. *)
Theorem C13_split : forall bps a b its1 its2 sp sp1 n1 sp2 r2 n2,
  0 <= a -> 0 <= b -> a + b < 18446744073709551616 ->
  run_with_limit bps a its1 sp = (sp1, ROk, n1) -> snd sp1 = PTripwire ->
  run_with_limit bps b its2 sp1 = (sp2, r2, n2) ->
  exists sp', run_with_limit bps (a + b) (firstn n1 its1 ++ its2) sp = (sp', r2, (n1 + n2)%nat) /\
    snd sp' = snd sp2 /\ same_but_obs (fst sp') (fst sp2).
Proof. exact limit_split. Qed.
Print Assumptions C13_split.

(* General form of pause-and-resume: a call that pauses on its tripwire followed by a call with any
   tripwire T2 (one that does not read the observer: all tripwires of the API are such) equals
   ONE call whose tripwire is T1 for the first n1 instructions and T2 afterwards. *)
Theorem C13_resume_after_tripwire : forall bps T1 T2 its1 its2 sp sp1 n1 sp2 r2 n2,
  trip_ignores_obs T2 ->
  run_while bps T1 its1 sp = (sp1, ROk, n1) -> snd sp1 = PTripwire ->
  run_while bps T2 its2 sp1 = (sp2, r2, n2) ->
  exists sp', run_while bps (trip_seq n1 T1 T2) (firstn n1 its1 ++ its2) sp = (sp', r2, (n1 + n2)%nat) /\
    snd sp' = snd sp2 /\ same_but_obs (fst sp') (fst sp2).
Proof. exact resume_after_tripwire. Qed.
Print Assumptions C13_resume_after_tripwire.

Theorem C13_api_tripwires_ignore_observer :
  trip_ignores_obs trip_true /\ (forall i m, trip_ignores_obs (trip_limit i m)) /\
  (forall d, trip_ignores_obs (trip_over d)) /\ (forall d, trip_ignores_obs (trip_out d)).
Proof.
  exact (conj trip_true_ignores_obs (conj trip_limit_ignores_obs (conj trip_over_ignores_obs trip_out_ignores_obs))).
Qed.
Print Assumptions C13_api_tripwires_ignore_observer.

(* the access observer never influences a run *)
Theorem C13_observer_irrelevant : forall bps T, trip_ignores_obs T -> forall its k s o s' st n,
  run_loop bps T k its s = (s', st, n) ->
  exists o', run_loop bps T k its (upd_obs s o) = (upd_obs s' o', st, n).
Proof. exact run_loop_obs. Qed.
Print Assumptions C13_observer_irrelevant.

(* External MCR clear.  From the loop order (MCR test, tripwire, instruction, breakpoints):
   a clear that lands before the MCR test of iteration j: instruction j does not run (ZERO more);
   a clear that lands after the tests of iteration j: instruction j still runs (ONE more), and
   no further one provided that instruction leaves the MCR off, i.e. is not itself a store that
   turns the MCR on again (a program may do that; the run then legitimately goes on). *)
Theorem C13_mcr_zero_more : forall bps T its sp sp' r n j it,
  run_while bps T its sp = (sp', r, n) -> r <> RFuel ->
  nth_error its j = Some it -> it_pre it = true -> (n <= j)%nat.
Proof. exact run_while_mcr_pre. Qed.
Print Assumptions C13_mcr_zero_more.

Theorem C13_mcr_one_more : forall bps T its sp sp' r n j it,
  run_while bps T its sp = (sp', r, n) -> r <> RFuel ->
  nth_error its j = Some it -> it_mid it = true ->
  (forall b b', iter_steps its j (start (fst sp)) = Some b -> exec_iter it b = (b', inl tt) -> s_mcr b' = false) ->
  (n <= S j)%nat.
Proof. exact run_while_mcr_mid. Qed.
Print Assumptions C13_mcr_one_more.

Theorem C13_mcr_off_after_call : forall bps T its sp sp' r n,
  run_while bps T its sp = (sp', r, n) -> r = ROk \/ (exists e, r = RErr e) -> s_mcr (fst sp') = false.
Proof. exact run_while_mcr_off. Qed.
Print Assumptions C13_mcr_off_after_call.

(* ------------------------------------------------------------------ the hypotheses are satisfiable *)
(* x3000: ADD R0,R0,#1   x3001: ADD R0,R0,#1   x3002: BRnzp x3000 *)
Definition demo : sim :=
  let s := new_sim (mkFlags false false false false) 0 in
  upd_mem s (mset (mset (mset (s_mem s) 12288 (new_init 4129)) 12289 (new_init 4129)) 12290 (new_init 4093)).
Definition quiet_it := mkIter false false (mkEnv false false []).
Definition its20 := repeat quiet_it 20.
Definition summary (x : (sim * pause) * rres * nat) :=
  let '(sp, r, n) := x in (snd sp, r, n, s_instrs (fst sp), s_pc (fst sp), w_data (rget (s_regs (fst sp)) 0), s_mcr (fst sp)).

Example C13_ex_limit : summary (run_with_limit [] 4 its20 (demo, PUnsuccessful)) = (PTripwire, ROk, 4%nat, 4, 12289, 3, false).
Proof. vm_compute. reflexivity. Qed.
Example C13_ex_breakpoint : summary (run [BReg 0 (CGe 2)] its20 (demo, PUnsuccessful)) = (PBreakpoint, ROk, 2%nat, 2, 12290, 2, false).
Proof. vm_compute. reflexivity. Qed.
Example C13_ex_le_at_operand : summary (run [BReg 0 (CLe 1)] its20 (demo, PUnsuccessful)) = (PBreakpoint, ROk, 1%nat, 1, 12289, 1, false).
Proof. vm_compute. reflexivity. Qed.
Example C13_ex_split :
  let '(sp1, _, _) := run_with_limit [] 2 its20 (demo, PUnsuccessful) in
  summary (run_with_limit [] 3 its20 sp1) = (PTripwire, ROk, 3%nat, 5, 12290, 4, false) /\
  summary (run_with_limit [] 5 its20 (demo, PUnsuccessful)) = (PTripwire, ROk, 5%nat, 5, 12290, 4, false).
Proof. vm_compute. split; reflexivity. Qed.
Example C13_ex_mcr_pre : summary (run [] [quiet_it; quiet_it; mkIter true false (mkEnv false false []); quiet_it] (demo, PUnsuccessful))
  = (PMcrOff, ROk, 2%nat, 2, 12290, 2, false).
Proof. vm_compute. reflexivity. Qed.
Example C13_ex_mcr_mid : summary (run [] [quiet_it; quiet_it; mkIter false true (mkEnv false false []); quiet_it; quiet_it] (demo, PUnsuccessful))
  = (PMcrOff, ROk, 3%nat, 3, 12288, 2, false).
Proof. vm_compute. reflexivity. Qed.
(* x3000: JSR x3002   x3001: BRnzp x3001   x3002: RET *)
Definition demo_call : sim :=
  let s := new_sim (mkFlags false false false false) 0 in
  upd_mem s (mset (mset (mset (s_mem s) 12288 (new_init 18433)) 12289 (new_init 4095)) 12290 (new_init 49600)).
Example C13_ex_over : summary (step_over [] its20 (demo_call, PUnsuccessful)) = (PTripwire, ROk, 2%nat, 2, 12289, 0, false).
Proof. vm_compute. reflexivity. Qed.
Example C13_ex_out_noop : step_out [] its20 (demo_call, PHalt) = ((demo_call, PHalt), ROk, O).
Proof. vm_compute. reflexivity. Qed.
Example C13_ex_out :
  let '(sp1, _, _) := do_call [] KStepIn its20 (demo_call, PUnsuccessful) in
  summary (step_out [] its20 sp1) = (PTripwire, ROk, 1%nat, 2, 12289, 0, false).
Proof. vm_compute. reflexivity. Qed.
