(* C14 — Strict mode only adds uninitialised-value errors.
   [unstrict s] is the same machine state with the strict flag cleared.  For EVERY state and
   environment: if a step in the given state (strict or not) is not rejected, the same step from
   [unstrict s] ends in exactly the [unstrict] of the resulting state — every register, PC, PSR,
   saved SP, memory word, device, frame, observer entry, counter — with the same outcome; and if
   it is rejected, either with one of the strict (uninitialised-value) errors, or the non-strict
   step fails with the same error in the same state.  The third sentence of the property (no
   strict error on a fully initialised machine) is checked on the implementation by harness area
   simprops (runs on fully initialised machines); its Coq statement is pending. *)
From Coq Require Import ZArith List Bool.
From Model Require Import Bits Word Instr Sim.
From Proofs Require Import SimStrict.
Open Scope Z_scope.

Theorem C14_strict_only_adds_strict_errors : forall e s,
  match step_in e s with
  | (s1, OErr x) => is_strict_err x = true \/ step_in e (unstrict s) = (unstrict s1, OErr x)
  | (s1, o) => step_in e (unstrict s) = (unstrict s1, o)
  end.
Proof. exact strict_step_simulation. Qed.
Print Assumptions C14_strict_only_adds_strict_errors.

(* the strict errors are exactly the nine uninitialised-value kinds *)
Theorem C14_strict_error_kinds : forall x, is_strict_err x = true <->
  (x = StrictRegSetUninit \/ x = StrictMemSetUninit \/ x = StrictIOSetUninit \/ x = StrictJmpAddrUninit \/
   x = StrictSRAddrUninit \/ x = StrictMemAddrUninit \/ x = StrictPCCurrUninit \/ x = StrictPCNextUninit \/ x = StrictPSRSetUninit).
Proof.
  intros x. split.
  - destruct x; cbn; intros H; try discriminate H; tauto.
  - intros H. repeat destruct H as [H|H]; subst; reflexivity.
Qed.
Print Assumptions C14_strict_error_kinds.

(* instruction level, trap/interrupt entry included *)
Theorem C14_exec_simulation : forall e i s, Rel (exec e i) (exec e i) s.
Proof. exact rel_exec. Qed.
Print Assumptions C14_exec_simulation.
