(* C14 — Strict mode only adds uninitialised-value errors.
   [unstrict s] is the same machine state with the strict flag cleared.  For EVERY state and
   environment: if a step in the given state (strict or not) is not rejected, the same step from
   [unstrict s] ends in exactly the [unstrict] of the resulting state — every register, PC, PSR,
   saved SP, memory word, device, frame, observer entry, counter — with the same outcome; and if
   it is rejected, either with one of the strict (uninitialised-value) errors, or the non-strict
   step fails with the same error in the same state.  And on a machine whose registers, saved
   stack pointer and memory words are all fully initialised, no step — under any flags, any
   environment, any instruction or interrupt — reports a strict error, and the machine stays
   fully initialised (so this holds for runs of any length). *)
From Coq Require Import ZArith List Bool.
From Model Require Import Bits Word Instr Sim.
From Proofs Require Import SimStrict SimInit.
From Proofs Require Import SimNoPanic SimStrictRun.
Open Scope Z_scope.

Theorem C14_strict_only_adds_strict_errors : forall e s,
  match step_in e s with
  | (s1, OErr x) => is_strict_err x = true \/ step_in e (unstrict s) = (unstrict s1, OErr x)
  | (s1, o) => step_in e (unstrict s) = (unstrict s1, o)
  end.
Proof. exact strict_step_simulation. Qed.
Print Assumptions C14_strict_only_adds_strict_errors.

(* the strict errors are exactly the nine uninitialised-value kinds *)
Theorem C14_strict_error_kinds : forall x, is_strict_err x = true <->
  (x = StrictRegSetUninit \/ x = StrictMemSetUninit \/ x = StrictIOSetUninit \/ x = StrictJmpAddrUninit \/
   x = StrictSRAddrUninit \/ x = StrictMemAddrUninit \/ x = StrictPCCurrUninit \/ x = StrictPCNextUninit \/ x = StrictPSRSetUninit).
Proof.
  intros x. split.
  - destruct x; cbn; intros H; try discriminate H; tauto.
  - intros H. repeat destruct H as [H|H]; subst; reflexivity.
Qed.
Print Assumptions C14_strict_error_kinds.

(* instruction level, trap/interrupt entry included *)
Theorem C14_exec_simulation : forall e i s, Rel (exec e i) (exec e i) s.
Proof. exact rel_exec. Qed.
Print Assumptions C14_exec_simulation.

(* over runs: a run of a strict machine in which no step reports a strict error is, step for step, the run of
   the same machine with strict mode off — same outcomes, same states up to the flag; and up to the first
   strict error the prefix is simulated *)
Theorem C14_run_simulation : forall es s,
  existsb strict_out (snd (run_n es s)) = false ->
  run_n es (unstrict s) = (unstrict (fst (run_n es s)), snd (run_n es s)).
Proof. exact strict_run_simulation. Qed.
Print Assumptions C14_run_simulation.
Theorem C14_run_prefix_simulation : forall es1 es2 s,
  existsb strict_out (snd (run_n es1 s)) = false ->
  fst (run_n (es1 ++ es2) (unstrict s)) = fst (run_n es2 (unstrict (fst (run_n es1 s)))) /\
  firstn (List.length es1) (snd (run_n (es1 ++ es2) (unstrict s))) = snd (run_n es1 s).
Proof. exact strict_run_prefix. Qed.
Print Assumptions C14_run_prefix_simulation.

(* third sentence: a fully initialised machine never sees a strict error, and stays initialised *)
Theorem C14_initialized_machine_no_strict_error : forall e s,
  AI s -> AI (fst (step_in e s)) /\ (forall x, snd (step_in e s) = OErr x -> is_strict_err x = false).
Proof. exact init_machine_no_strict_error. Qed.
Print Assumptions C14_initialized_machine_no_strict_error.

Theorem C14_AI_meaning : forall s, AI s <->
  (List.length (s_regs s) = 8%nat /\ Forall (fun w => w_init w = 65535) (s_regs s)
   /\ w_init (s_saved_sp s) = 65535 /\ forall a, w_init (mget (s_mem s) a) = 65535).
Proof.
  intros s. unfold AI, is_init. change ALL_BITS with 65535. split.
  - intros (L & R & S & M). repeat split; try assumption.
    + eapply Forall_impl; [|exact R]. intros w H. apply Z.eqb_eq. exact H.
    + apply Z.eqb_eq. exact S.
    + intros a. apply Z.eqb_eq. apply M.
  - intros (L & R & S & M). repeat split; try assumption.
    + eapply Forall_impl; [|exact R]. intros w H. apply Z.eqb_eq. exact H.
    + apply Z.eqb_eq. exact S.
    + intros a. apply Z.eqb_eq. apply M.
Qed.
Print Assumptions C14_AI_meaning.
