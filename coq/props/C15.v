(* C15 — Initialization tracking of words is sound.
   Statements only; proofs in proofs/WordProofs.v (bitwise lemmas + case analysis; every 16-bit
   operand, no sweep).  `wf`, `agree`, `full`, `sound1`, `sound2` are defined in spec/WordInit.v:
   `agree a b` = b has the same initialisation mask as a and the same value on every initialised
   bit, i.e. b is a with its uninitialised bits re-chosen arbitrarily;
   `sound2 op` = forall l l' r r' (16-bit), agree l l' -> agree r r' -> agree (op l r) (op l' r'),
   i.e. the result mask does not depend on the uninitialised operand bits and every result bit it
   reports as initialised has the same value for every choice of them. *)
From Coq Require Import ZArith Bool.
From Model Require Import Bits Word.
From Spec Require Import WordInit.
From Proofs Require Import WordProofs.
Open Scope Z_scope.

(* what `agree` says, bit by bit *)
Theorem C15_agree_bitwise : forall a b,
  agree a b <-> w_init a = w_init b /\
                forall i, 0 <= i -> Z.testbit (w_init a) i = true -> Z.testbit (w_data a) i = Z.testbit (w_data b) i.
Proof. exact agree_iff_bits. Qed.
Print Assumptions C15_agree_bitwise.

Theorem C15_sound_add : sound2 w_add.
Proof. exact add_sound. Qed.
Print Assumptions C15_sound_add.

Theorem C15_sound_sub : sound2 w_sub.
Proof. exact sub_sound. Qed.
Print Assumptions C15_sound_sub.

Theorem C15_sound_and : sound2 w_and.
Proof. exact and_sound. Qed.
Print Assumptions C15_sound_and.

Theorem C15_sound_not : sound1 w_not.
Proof. exact not_sound. Qed.
Print Assumptions C15_sound_not.

(* the same, unfolded once, so that the statement can be read without the spec file *)
Theorem C15_sound_and_unfolded : forall l l' r r',
  wf l -> wf l' -> wf r -> wf r' ->
  w_init l = w_init l' -> Z.land (w_data l) (w_init l) = Z.land (w_data l') (w_init l) ->
  w_init r = w_init r' -> Z.land (w_data r) (w_init r) = Z.land (w_data r') (w_init r) ->
  w_init (w_and l r) = w_init (w_and l' r') /\
  Z.land (w_data (w_and l r)) (w_init (w_and l r)) = Z.land (w_data (w_and l' r')) (w_init (w_and l r)).
Proof. intros l l' r r' Hl Hl' Hr Hr' A B C D. exact (and_sound l l' r r' Hl Hl' Hr Hr' (conj A B) (conj C D)). Qed.
Print Assumptions C15_sound_and_unfolded.

(* results are 16-bit words again *)
Theorem C15_results_16bit : forall l r, wf l -> wf r ->
  wf (w_add l r) /\ wf (w_sub l r) /\ wf (w_and l r) /\ wf (w_not l).
Proof. intros l r Hl Hr. repeat split; try apply add_wf; try apply sub_wf; try apply and_wf; try apply not_wf; assumption. Qed.
Print Assumptions C15_results_16bit.

(* fully initialised operands give the fully initialised wrapping 16-bit result *)
Theorem C15_full_add : forall l r, wf l -> wf r -> full l -> full r ->
  w_add l r = new_init (wrap16 (w_data l + w_data r)).
Proof. exact add_full'. Qed.
Print Assumptions C15_full_add.

Theorem C15_full_sub : forall l r, wf l -> wf r -> full l -> full r ->
  w_sub l r = new_init (wrap16 (w_data l - w_data r)).
Proof. exact sub_full'. Qed.
Print Assumptions C15_full_sub.

Theorem C15_full_and : forall l r, wf l -> wf r -> full l -> full r ->
  w_and l r = new_init (Z.land (w_data l) (w_data r)) /\
  Z.land (w_data l) (w_data r) = wrap16 (Z.land (w_data l) (w_data r)).
Proof. exact and_full'. Qed.
Print Assumptions C15_full_and.

Theorem C15_full_not : forall l, wf l -> full l ->
  w_not l = new_init (65535 - w_data l) /\ 65535 - w_data l = wrap16 (65535 - w_data l).
Proof. exact not_full'. Qed.
Print Assumptions C15_full_not.

(* new_init words are fully initialised: the conclusions above say "fully initialised" *)
Theorem C15_new_init_full : forall d, full (new_init d) /\ is_init (new_init d) = true.
Proof. intros d. split; reflexivity. Qed.
Print Assumptions C15_new_init_full.

(* non-vacuity: partially initialised operands that agree but differ; AND with an initialised 0
   bit initialises the result bit; x + (uninitialised) is fully uninitialised *)
Example C15_ex1 :
  let l := mkWord 43690 255 in let l' := mkWord 21930 255 in   (* xAAAA / x55AA, low byte initialised *)
  let r := mkWord 255 65295 in                                  (* x00FF, mask xFF0F: initialised zeros on top *)
  agree l l' /\ l <> l' /\
  w_and l r = mkWord 170 65375 /\ w_and l' r = mkWord 170 65375 /\     (* x00AA, mask xFF5F both times *)
  w_add l r = mkWord 43945 0 /\ w_add l (new_init 0) = l /\ w_sub (new_init 1) (new_init 2) = new_init 65535.
Proof. vm_compute. repeat split; congruence. Qed.
