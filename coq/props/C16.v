(* C16 — No machine state makes the simulator panic.
   Model side: for EVERY state (any memory contents, registers, PC, flags, devices, internal
   register mappings) and every environment, a step never yields the Panic outcome, for any
   number of steps, and the faulting-address query is total.  The Rust panic sites of the
   modelled code are inventoried from source on every run (tools/panic_sites.py sim --check). *)
From Coq Require Import ZArith List.
From Model Require Import Instr Sim.
From Proofs Require Import SimNoPanic.
Open Scope Z_scope.

Theorem C16_step_total : forall e s, snd (step_in e s) <> OPanic.
Proof. exact step_in_never_panics. Qed.
Print Assumptions C16_step_total.

Theorem C16_run_total : forall es s, ~ In OPanic (snd (run_n es s)).
Proof. exact run_never_panics. Qed.
Print Assumptions C16_run_total.

Theorem C16_prefetch_pc_total : forall s, 0 <= prefetch_pc s < 65536.
Proof. exact prefetch_pc_range. Qed.
Print Assumptions C16_prefetch_pc_total.

(* the one explicit panic site of the modelled code: register conversion in decode *)
Theorem C16_decode_total : forall w : Z, decode w <> DPanic.
Proof. exact decode_never_panics. Qed.
Print Assumptions C16_decode_total.
