(* C17 — Binary object format round-trips every object file.
   Statements only; proofs in proofs/ObjBytesProofs.v and proofs/ObjBinProofs.v.
   [ser_bin]/[deser_bin] (model/ObjBin.v) are byte-exact models of BinaryFormat::serialize /
   deserialize of the repaired code (relocation addresses little-endian on both sides);
   [obj_inv] is the boolean invariant that the harness checks on every assembled / linked object
   (op objbin.inv); [obj_equiv] (spec/ObjEquiv.v) is equality up to the order of the two hash maps. *)
From Coq Require Import ZArith List Bool.
From Model Require Import Tree Text Obj ObjBin.
From Spec Require Import ObjEquiv.
From Proofs Require Import ObjBytesProofs ObjBinProofs.
Import ListNotations.
Open Scope Z_scope.

(* the writer may iterate label_map and rel_map in any order [o_w]; the reader then returns an
   object equal to the original (same image, labels, external flags, relocation entries, line
   map and source text) *)
Theorem C17_roundtrip : forall o, obj_inv o = true ->
  forall o_w, obj_equiv o o_w -> exists o', deser_bin (ser_bin o_w) = ROk o' /\ obj_equiv o o'.
Proof. exact bin_roundtrip. Qed.
Print Assumptions C17_roundtrip.

(* in the model the reader even rebuilds the lists in the order they were written *)
Theorem C17_roundtrip_exact : forall o, obj_inv o = true -> deser_bin (ser_bin o) = ROk o.
Proof. exact deser_ser_bin. Qed.
Print Assumptions C17_roundtrip_exact.

(* the invariant does not depend on the order of the hash maps *)
Theorem C17_inv_order_independent : forall o o', obj_equiv o o' -> obj_inv o = true -> obj_inv o' = true.
Proof. exact obj_inv_equiv. Qed.
Print Assumptions C17_inv_order_independent.

(* byte level *)
Theorem C17_u16_le_inverse : forall z, 0 <= z < 65536 -> from_le (u16_le z) = z.
Proof. exact from_le_u16. Qed.
Print Assumptions C17_u16_le_inverse.
Theorem C17_u64_le_inverse : forall z, 0 <= z <= USIZE_MAX -> from_le (u64_le z) = z.
Proof. exact from_le_u64. Qed.
Print Assumptions C17_u64_le_inverse.
Theorem C17_take_append : forall a r n, len a = n -> take_slice n (a ++ r) = Some (a, r).
Proof. exact take_slice_app. Qed.
Print Assumptions C17_take_append.
Theorem C17_utf8_roundtrip : forall s, valid_str s = true -> utf8_decode (utf8_bytes s) = Some s.
Proof. exact utf8_roundtrip. Qed.
Print Assumptions C17_utf8_roundtrip.

(* the hypotheses are satisfiable: an object with two blocks, an external and a defined label
   (one of them non-ASCII), a relocation entry, a line map and a source text *)
Definition C17_example : objfile :=
  mkObj [(12288, [Some 8193; None; Some 0]); (16384, [Some 61477])]
        (Some (mkSymtab [([70; 79; 79], mkSym 0 10 true); ([88; 233], mkSym 12290 40 false)]
                        [(12290, [70; 79; 79])]
                        (Some (mkDebug [(2, [12288; 12289; 12290]); (7, [16384])] [59; 233; 10; 120; 10])))).
Example C17_ex : obj_inv C17_example = true /\ deser_bin (ser_bin C17_example) = ROk C17_example
                 /\ firstn 12 (ser_bin C17_example) = [111; 98; 106; 33; 16; 0; 1; 0; 0; 48; 3; 0].
Proof. vm_compute. repeat split. Qed.
