(* C18 — Text object format round-trips every object file, whatever characters the source contains.
   Statements only; proofs in proofs/ObjTextLemmas.v (numbers, escaping, rows, lines),
   SrcLinesProofs.v (the raw lines of a source concatenate to it), LineMapProofs.v (line table),
   ObjTextProofs.v (sections and the composition).
   [ser_text]/[deser_text] (model/ObjText.v) model TextFormat::serialize/deserialize of the
   repaired code over code points, with str::escape_default, unescaper::unescape, str::lines,
   trim, splitn(" | "), uN::from_str_radix and the {:04X}/width formatting written out;
   [text_inv] = obj_inv plus what the tables need (labels without white space that do not start
   with '#', '.' or '='; line runs separated by an unmapped line and ending before the last line),
   checked on every assembled / linked object by the harness (op objtext.inv). *)
From Coq Require Import ZArith List Bool String.
From Model Require Import Tree Text Obj SourceInfo ObjBin ObjText.
From Spec Require Import ObjEquiv.
From Proofs Require Import ObjBytesProofs ObjBinProofs ObjTextLemmas SrcLinesProofs ObjTextProofs.
Import ListNotations.
Open Scope Z_scope.

(* the full composition: writer (any hash-map order o_w), then reader, gives an object equal to the
   original up to the order of the two hash maps *)
Theorem C18_roundtrip : forall o, text_inv o = true ->
  forall o_w, obj_equiv o o_w -> exists o', deser_text (ser_text o_w) = ROk o' /\ obj_equiv o o'.
Proof. exact text_roundtrip. Qed.
Print Assumptions C18_roundtrip.

(* escaping: for ALL lists of Unicode scalar values (proved by induction on the list) *)
Theorem C18_unescape_escape : forall s, valid_str s = true -> unescape (escape s) = Some s.
Proof. exact unescape_escape. Qed.
Print Assumptions C18_unescape_escape.

(* the source column: the raw lines of any text concatenate to the text (byte-offset arithmetic
   of SourceInfo over UTF-8, any characters incl. CR, CRLF, controls, non-ASCII, no final newline) *)
Theorem C18_source_lines_concat : forall s, flat_map (src_line s) (seqz 0 (List.length (nl_indices s))) = s.
Proof. exact src_lines_concat. Qed.
Print Assumptions C18_source_lines_concat.

(* numbers: every u16 as 4 hex digits (complete sweep), every unsigned number in decimal *)
Theorem C18_hex4_roundtrip : forall v, 0 <= v < 65536 -> hex2u16 (hex4 v) = Some v.
Proof. exact hex2u16_hex4. Qed.
Print Assumptions C18_hex4_roundtrip.
Theorem C18_decimal_roundtrip : forall max n, 0 <= n <= max -> parse_uint 10 max (fmt_dec n) = Some n.
Proof. exact parse_fmt_dec. Qed.
Print Assumptions C18_decimal_roundtrip.

(* rows: fields that do not contain " |" survive splitn(" | ") *)
Theorem C18_row_split : forall f1 f2 f3, no_sp_bar f1 = true -> no_sp_bar f2 = true ->
  splitn 3 (f1 ++ TABLE_DIV ++ f2 ++ TABLE_DIV ++ f3) = [f1; f2; f3].
Proof. exact row_split3. Qed.
Print Assumptions C18_row_split.

(* lines: joining lines with "\n" and applying trim + lines gives them back *)
Theorem C18_lines_join : forall Ls Llast, Forall (fun l => nl_free l = true) Ls -> nl_free Llast = true -> Llast <> [] ->
  lines (flat_map ln Ls ++ Llast) = Ls ++ [Llast].
Proof. exact lines_join. Qed.
Print Assumptions C18_lines_join.

(* the invariant does not depend on the order of the hash maps *)
Theorem C18_inv_order_independent : forall o o', obj_equiv o o' -> text_inv o = true -> text_inv o' = true.
Proof. exact text_inv_equiv. Qed.
Print Assumptions C18_inv_order_independent.

(* satisfiable: an object whose source has quotes, a backslash, a tab, CR LF, a control and
   non-ASCII characters, blank lines and no final newline *)
Definition C18_example : objfile :=
  mkObj [(12288, [Some 8193; None; Some 0])]
        (Some (mkSymtab [([70; 79; 79], mkSym 0 3 true); ([88; 233], mkSym 12290 9 false)]
                        [(12290, [70; 79; 79])]
                        (Some (mkDebug [(1, [12288; 12289; 12290])]
                                       [59; 34; 92; 9; 13; 10; 65; 10; 1; 233; 10; 128512; 10; 32; 10; 32; 124; 32])))).
Example C18_ex : text_inv C18_example = true /\
  (exists o', deser_text (ser_text C18_example) = ROk o' /\ o_blocks o' = o_blocks C18_example).
Proof. split; [vm_compute; reflexivity|]. eexists. split; [vm_compute; reflexivity|reflexivity]. Qed.
