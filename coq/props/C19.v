(* C19 — Reading untrusted object files never panics; nor do re-serializing, linking with an
   assembled file and loading what was read.
   Statements only; proofs in proofs/ObjBinProofs.v, ObjTextReadProofs.v, ObjPipelineProofs.v.
   The models (model/ObjBin.v, ObjText.v, ObjPipeline.v) follow the REPAIRED code: every Rust
   panic site (unwrap/unreachable!/assert!, slice copies, `+`/`-` under overflow checks) is an
   explicit RPanic / Panics outcome, and running out of fuel is RPanic too.
   Re-serialization: BinaryFormat::serialize and TextFormat::serialize contain no reachable panic
   site (wrapping_add, checked_ilog10, str::get; `_ser(o).unwrap()` only fails if writing to a
   String fails); their models ser_bin / ser_text are total functions, compared with the
   implementation on every object the readers accept.
   Hypotheses: the input of the binary reader is a list of bytes; [src_fits]: the source text kept
   in the object is a Rust String, hence at most isize::MAX bytes long; usize is 64 bits. *)
From Coq Require Import ZArith List Bool String.
From Model Require Import Tree Text Obj ObjBin ObjText ObjPipeline.
From Proofs Require Import ObjBytesProofs ObjBinProofs ObjPipelineProofs ObjTextReadProofs.
Import ListNotations.
Open Scope Z_scope.

(* the binary reader returns an object or rejects: for every list of integers *)
Theorem C19_bin_total : forall bs, deser_bin bs <> RPanic.
Proof. exact deser_bin_total. Qed.
Print Assumptions C19_bin_total.

(* the text reader returns an object or rejects: for every list of code points *)
Theorem C19_text_total : forall s, deser_text s <> RPanic.
Proof. exact deser_text_total. Qed.
Print Assumptions C19_text_total.

(* what the readers guarantee about the object they return (blocks sorted, starts and lengths in
   16 bits, every relocation entry inside a block, line runs ending at or before isize::MAX) *)
Theorem C19_bin_read_ok : forall bs o, Forall is_byte bs -> deser_bin bs = ROk o -> src_fits o -> pipe_ok o = true.
Proof. exact deser_bin_pipe_ok. Qed.
Print Assumptions C19_bin_read_ok.
Theorem C19_text_read_ok : forall s o, deser_text s = ROk o -> src_fits o -> pipe_ok o = true.
Proof. exact deser_text_pipe_ok. Qed.
Print Assumptions C19_text_read_ok.

(* assembled / linked objects (obj_inv, checked on each by the harness) satisfy it as well *)
Theorem C19_assembled_ok : forall a, obj_inv a = true -> pipe_ok a = true.
Proof. exact obj_inv_pipe_ok. Qed.
Print Assumptions C19_assembled_ok.

(* link (both ways) and load complete (Ok or Err) on such objects *)
Theorem C19_pipeline_total : forall o a, pipe_ok o = true -> pipe_ok a = true ->
  link_outcome o a = Completes /\ link_outcome a o = Completes /\ load_outcome o = Completes.
Proof. intros o a Ho Ha. repeat split; [apply link_total|apply link_total|apply load_total]; assumption. Qed.
Print Assumptions C19_pipeline_total.

(* end to end *)
Theorem C19_pipeline_total_bin : forall bs o a, Forall is_byte bs -> deser_bin bs = ROk o -> src_fits o ->
  obj_inv a = true ->
  link_outcome o a = Completes /\ link_outcome a o = Completes /\ load_outcome o = Completes.
Proof.
  intros bs o a Hb Hr Hs Ha. apply C19_pipeline_total; [eapply deser_bin_pipe_ok; eassumption|apply obj_inv_pipe_ok; exact Ha].
Qed.
Print Assumptions C19_pipeline_total_bin.
Theorem C19_pipeline_total_text : forall s o a, deser_text s = ROk o -> src_fits o -> obj_inv a = true ->
  link_outcome o a = Completes /\ link_outcome a o = Completes /\ load_outcome o = Completes.
Proof.
  intros s o a Hr Hs Ha. apply C19_pipeline_total; [eapply deser_text_pipe_ok; eassumption|apply obj_inv_pipe_ok; exact Ha].
Qed.
Print Assumptions C19_pipeline_total_text.

(* the inputs that made the pinned code panic (DESIGN §9 #7), on the repaired code:
   a .DEBUG section with one divider is read (no line table); a line number of 2^64-1, a
   relocation entry outside every block are rejected; a block reaching past xFFFF is read and
   then linked / loaded without panic *)
Example C19_ex_one_divider :
  deser_text (s2z "LC-3 OBJ FILE"%string ++ [10] ++ s2z ".DEBUG"%string ++ [10] ++ s2z "====="%string ++ [10]) = ROk (mkObj [] None).
Proof. vm_compute. reflexivity. Qed.
Example C19_ex_huge_line :
  deser_bin (BFMT_MAGIC ++ BFMT_VER ++ [2; 255; 255; 255; 255; 255; 255; 255; 255; 1; 0; 0; 48] ++ [3; 0; 0; 0; 0; 0; 0; 0; 0]) = RNone.
Proof. vm_compute. reflexivity. Qed.
Example C19_ex_reloc_outside :
  deser_bin (BFMT_MAGIC ++ BFMT_VER ++ [1; 0; 0; 1; 0; 0; 0; 0; 0; 0; 0; 0; 3; 0; 0; 0; 0; 0; 0; 0; 70; 79; 79]
             ++ [4; 0; 80; 3; 0; 0; 0; 0; 0; 0; 0; 70; 79; 79]) = RNone.
Proof. vm_compute. reflexivity. Qed.
Example C19_ex_wrapping_block :
  let o := mkObj [(65535, [Some 1; Some 2])] None in
  deser_bin (BFMT_MAGIC ++ BFMT_VER ++ [0; 255; 255; 2; 0; 255; 1; 0; 255; 2; 0]) = ROk o
  /\ link_outcome o (mkObj [(0, [Some 7])] None) = Completes /\ load_outcome o = Completes.
Proof. vm_compute. repeat split. Qed.
