(* C20 — Linking unions images, resolves externals, and is order-independent.
   Statements only; proofs in proofs/LinkBlocks.v, LinkSyms.v, LinkDebug.v, LinkSpecProofs.v,
   LinkProofs.v.

   [link] (model/Link.v) is the model of `ObjectFile::link`; [view_of o] (spec/LinkSpec.v) is what
   the property observes of an object: memory image (= what `addr_iter` lists, C20_addr_iter),
   label addresses and external flags, pending relocations; [vlink], [Linkable], [vlink_all],
   [AllLinkable] are the order-free specification, written on maps without looking at the linker.
   [ObjInv o] is the boolean [obj_inv_b o = true] the harness evaluates on every assembled and
   linked object; [LinesFit] / [total_lines .. <= usize_max] say that the line numbers of the
   combined sources fit a usize (Rust strings are shorter than 2^63 bytes). *)
From Coq Require Import ZArith List Bool Permutation.
From Model Require Import Tree Bits Text SourceInfo Obj Link.
From Spec Require Import LinkSpec.
From Proofs Require Import LinkBlocks LinkSyms LinkDebug LinkSpecProofs LinkProofs.
Import ListNotations.
Open Scope Z_scope.

(* a successful link is the specified union: image = union with resolved externals, labels =
   union (defined beats external), pending = relocations of still-external labels; the result
   satisfies the object invariant again *)
Theorem C20_link_refines : forall a b r, ObjInv a -> ObjInv b -> LinesFit a b -> link a b = LOk r ->
  veq (view_of r) (vlink (view_of a) (view_of b)) /\ ObjInv r /\ nlines r <= nlines a + nlines b.
Proof. exact link_refines. Qed.
Print Assumptions C20_link_refines.

(* linking succeeds exactly when the images are disjoint and no name is defined at two addresses *)
Theorem C20_success_iff : forall a b, ObjInv a -> ObjInv b -> LinesFit a b ->
  ((exists r, link a b = LOk r) <-> Linkable (view_of a) (view_of b)).
Proof. exact link_success_iff. Qed.
Print Assumptions C20_success_iff.

(* link a b ~ link b a: same success, same image, label addresses, external flags, relocations *)
Theorem C20_comm : forall a b r, ObjInv a -> ObjInv b -> LinesFit a b -> link a b = LOk r ->
  exists r', link b a = LOk r' /\ veq (view_of r) (view_of r').
Proof. exact link_comm. Qed.
Print Assumptions C20_comm.
Theorem C20_comm_fail : forall a b, ObjInv a -> ObjInv b -> LinesFit a b ->
  (forall r, link a b <> LOk r) -> (forall r, link b a <> LOk r).
Proof. exact link_comm_fail. Qed.
Print Assumptions C20_comm_fail.

(* (a b) c ~ a (b c) *)
Theorem C20_assoc : forall a b c ab r, ObjInv a -> ObjInv b -> ObjInv c ->
  nlines a + nlines b + nlines c <= usize_max ->
  link a b = LOk ab -> link ab c = LOk r ->
  exists bc r', link b c = LOk bc /\ link a bc = LOk r' /\ veq (view_of r) (view_of r').
Proof. exact link_assoc. Qed.
Print Assumptions C20_assoc.

(* every order and bracketing of any number of files (in particular 2-4): both succeed or both
   fail, and the outcomes are the same view *)
Theorem C20_any_order : forall t t', Permutation (leaves t) (leaves t') -> Forall ObjInv (leaves t) ->
  total_lines (leaves t) <= usize_max ->
  ((exists r, lt_eval t = LOk r) <-> (exists r', lt_eval t' = LOk r')) /\
  (forall r r', lt_eval t = LOk r -> lt_eval t' = LOk r' -> veq (view_of r) (view_of r')).
Proof. exact link_any_order. Qed.
Print Assumptions C20_any_order.

(* ... namely the order-free meaning of the SET of files, which are pairwise linkable *)
Theorem C20_set_meaning : forall t r, Forall ObjInv (leaves t) -> total_lines (leaves t) <= usize_max ->
  lt_eval t = LOk r ->
  veq (view_of r) (vlink_all (map view_of (leaves t))) /\ AllLinkable (map view_of (leaves t)).
Proof. exact link_tree_refines. Qed.
Print Assumptions C20_set_meaning.

(* the specification itself does not depend on order or grouping *)
Theorem C20_spec_comm : forall a b, ViewInv a -> ViewInv b -> Linkable a b -> veq (vlink a b) (vlink b a).
Proof. exact vlink_comm. Qed.
Print Assumptions C20_spec_comm.
Theorem C20_spec_assoc : forall a b c, ViewInv a -> ViewInv b -> ViewInv c ->
  Linkable a b -> Linkable a c -> Linkable b c -> veq (vlink (vlink a b) c) (vlink a (vlink b c)).
Proof. exact vlink_assoc. Qed.
Print Assumptions C20_spec_assoc.

(* on blocks sorted by start, checking adjacent pairs finds every overlap *)
Theorem adjacent_pair_check_complete : forall l, sorted_from 0 l -> Forall sized l ->
  (adj_check l = AdjOk <-> ForallOrdPairs (fun x y => fst x + zlen (snd x) <= fst y) l).
Proof. exact adjacent_pair_check_complete_lemma. Qed.
Print Assumptions adjacent_pair_check_complete.
Theorem C20_adjacent_check_total : forall l, sorted_from 0 l -> Forall sized l -> adj_check l <> AdjPanic.
Proof. intros l H1 H2. apply (adj_check_no_panic 0 l); [apply Z.le_refl|exact H1|exact H2]. Qed.
Print Assumptions C20_adjacent_check_total.

(* on such objects linking never panics (given that the label positions fit a usize): so it
   fails with an error exactly when the files are not linkable *)
Theorem C20_link_total : forall a b, ObjInv a -> ObjInv b -> LinesFit a b -> SpansFit a b -> link a b <> LPanic.
Proof. exact link_total. Qed.
Print Assumptions C20_link_total.

(* the image of the view is what addr_iter lists *)
Theorem C20_addr_iter : forall o addr w, ObjInv o -> (In (addr, w) (addr_iter o) <-> v_img (view_of o) addr = Some w).
Proof. exact addr_iter_image. Qed.
Print Assumptions C20_addr_iter.

(* the hypotheses are satisfiable: a user of X at x3000, a definer of X at x4000 *)
Definition ex_user : objfile :=
  mkObj [(12288, [Some 0])] (Some (mkSymtab [([88], mkSym 0 10 true)] [(12288, [88])] None)).
Definition ex_def : objfile :=
  mkObj [(16384, [Some 7])] (Some (mkSymtab [([88], mkSym 16384 12 false)] [] None)).
Example C20_ex : ObjInv ex_user /\ ObjInv ex_def /\ LinesFit ex_user ex_def /\
  link ex_user ex_def = LOk (mkObj [(12288, [Some 16384]); (16384, [Some 7])]
                                   (Some (mkSymtab [([88], mkSym 16384 12 false)] [] None))) /\
  link ex_def ex_user = LOk (mkObj [(12288, [Some 16384]); (16384, [Some 7])]
                                   (Some (mkSymtab [([88], mkSym 16384 12 false)] [] None))) /\
  link ex_def ex_def = LErr OverlappingBlocks [(0, 0)].
Proof. vm_compute. repeat split; discriminate. Qed.
