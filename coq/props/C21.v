(* C21 — External references are never silently left unresolved.
   Statements only; proofs in proofs/LinkProofs.v (and LinkSpecProofs.v for sets of files).

   The assembler's part of the property is the object-level condition [ExtSitesRecorded o sites]
   (= the boolean [ext_sites_recorded_b o sites = true]): for a program whose `.fill` sites of
   declared-and-undefined externals are [sites], the object carries its symbol table, flags each
   such label external and has a relocation entry at each site.  The harness evaluates it on
   every assembled object, for both debug modes and every placement of `.external` (this is
   where the two assembler defects showed).  [load_check] is the external-symbol check at the
   head of `Simulator::load_obj_file`. *)
From Coq Require Import ZArith List Bool Permutation.
From Model Require Import Tree Bits Text SourceInfo Obj Link.
From Spec Require Import LinkSpec.
From Proofs Require Import LinkBlocks LinkSyms LinkDebug LinkSpecProofs LinkProofs.
Import ListNotations.
Open Scope Z_scope.

(* a file with a `.fill` of an undefined external fails to load *)
Theorem C21_load_fails : forall o sites, ExtSitesRecorded o sites -> sites <> [] ->
  load_check o = LoadUnresolvedExternal.
Proof. exact load_fails. Qed.
Print Assumptions C21_load_fails.

(* the load check passes exactly when no label of the object is external *)
Theorem C21_load_ok_iff : forall o, ObjInv o ->
  (load_check o = LoadOk <-> forall n x, v_lbl (view_of o) n <> Some (x, true)).
Proof. exact load_ok_iff. Qed.
Print Assumptions C21_load_ok_iff.

(* recorded sites are pending relocations *)
Theorem C21_sites_pending : forall o sites a n, ObjInv o -> ExtSitesRecorded o sites -> In (a, n) sites ->
  v_pend (view_of o) a = Some n.
Proof. exact ext_sites_pend. Qed.
Print Assumptions C21_sites_pending.

(* after linking in a file that defines the label (in either order) the word at the site holds
   the label's address and the relocation is gone *)
Theorem C21_link_resolves : forall a b r addr n t, ObjInv a -> ObjInv b -> LinesFit a b ->
  v_pend (view_of a) addr = Some n -> v_lbl (view_of b) n = Some (t, false) ->
  (link a b = LOk r \/ link b a = LOk r) ->
  v_img (view_of r) addr = Some (Some t) /\ v_pend (view_of r) addr = None.
Proof. exact link_resolves. Qed.
Print Assumptions C21_link_resolves.

(* the same inside any set of files linked in any order and bracketing *)
Theorem C21_link_set_resolves : forall t r u d addr n x, Forall ObjInv (leaves t) -> total_lines (leaves t) <= usize_max ->
  lt_eval t = LOk r -> In u (leaves t) -> In d (leaves t) ->
  v_pend (view_of u) addr = Some n -> v_lbl (view_of d) n = Some (x, false) ->
  v_img (view_of r) addr = Some (Some x) /\ v_pend (view_of r) addr = None.
Proof. exact link_tree_resolves. Qed.
Print Assumptions C21_link_set_resolves.

(* never silent: while no linked file defines the label, the linked object still fails to load *)
Theorem C21_unresolved_stays_loud : forall t r u addr n, Forall ObjInv (leaves t) -> total_lines (leaves t) <= usize_max ->
  lt_eval t = LOk r -> In u (leaves t) -> v_pend (view_of u) addr = Some n ->
  (forall d x, In d (leaves t) -> v_lbl (view_of d) n <> Some (x, false)) ->
  load_check r = LoadUnresolvedExternal.
Proof. exact link_tree_unresolved. Qed.
Print Assumptions C21_unresolved_stays_loud.

(* hypotheses are satisfiable; and what the two repaired assembler defects looked like at object
   level: no relocation entry (declaration after the use), no symbol table (no debug symbols) *)
Definition ex_user : objfile :=
  mkObj [(12288, [Some 0])] (Some (mkSymtab [([88], mkSym 0 10 true)] [(12288, [88])] None)).
Definition ex_norel : objfile :=
  mkObj [(12288, [Some 0])] (Some (mkSymtab [([88], mkSym 0 10 true)] [] None)).
Definition ex_nosym : objfile := mkObj [(12288, [Some 0])] None.
Example C21_ex : ObjInv ex_user /\ ExtSitesRecorded ex_user [(12288, [88])] /\
  load_check ex_user = LoadUnresolvedExternal /\
  ext_sites_recorded_b ex_norel [(12288, [88])] = false /\
  ext_sites_recorded_b ex_nosym [(12288, [88])] = false /\ load_check ex_nosym = LoadOk.
Proof. vm_compute. repeat split. Qed.
