(* C22 — Linked debug info still points at the right source text.
   Statements only; proofs in proofs/LinkDebug.v (strings) and proofs/LinkLines.v (linker model).

   [read_line] is `SourceInfo::read_line` (model/SourceInfo.v), [line_text_at st addr] is
   `rev_lookup_line(addr)` followed by `source_info().read_line(..)`, [LinkedDbg a b r ..] says:
   a and b satisfy the object invariant, both carry debug symbols (da, db), and link a b = r.
   [label_spans_ok_b o] is the boolean the harness evaluates: every label's recorded position
   lies in the source and the text there spells the label (case-insensitively). *)
From Coq Require Import ZArith List Bool.
From Model Require Import Tree Bits Text SourceInfo Obj Link.
From Spec Require Import LinkSpec.
From Proofs Require Import LinkBlocks LinkSyms LinkDebug LinkSpecProofs LinkProofs LinkLines.
Import ListNotations.
Open Scope Z_scope.

(* for ALL strings: line (count_lines a + k) of a ++ "\n" ++ b is line k of b ... *)
Theorem C22_lines_append : forall a b k, 0 <= k ->
  read_line (a ++ [10] ++ b) (count_lines a + k) = read_line b k.
Proof. exact lines_append. Qed.
Print Assumptions C22_lines_append.
(* ... and the lines of a keep their text *)
Theorem C22_lines_prefix : forall a b k, 0 <= k < count_lines a ->
  read_line (a ++ [10] ++ b) k = read_line a k.
Proof. exact lines_prefix. Qed.
Print Assumptions C22_lines_prefix.
Theorem C22_count_lines_join : forall a b, count_lines (a ++ [10] ++ b) = count_lines a + count_lines b.
Proof. exact count_lines_join. Qed.
Print Assumptions C22_count_lines_join.

(* the debug symbols of the linked object *)
Theorem C22_linked_debug : forall a b r sa sb sr da db, LinkedDbg a b r sa sb sr da db ->
  st_debug sr = Some (mkDebug (ds_lines da ++ shift_lines (count_lines (ds_src da)) (ds_lines db))
                              (ds_src da ++ [10] ++ ds_src db)).
Proof. exact linked_debug. Qed.
Print Assumptions C22_linked_debug.

(* the source line reported for an address reads the same text as in the file it came from *)
Theorem C22_lines_first : forall a b r sa sb sr da db addr, LinkedDbg a b r sa sb sr da db ->
  v_img (view_of a) addr <> None -> line_text_at sr addr = line_text_at sa addr.
Proof. exact linked_line_first. Qed.
Print Assumptions C22_lines_first.
Theorem C22_lines_second : forall a b r sa sb sr da db addr, LinkedDbg a b r sa sb sr da db ->
  v_img (view_of b) addr <> None ->
  line_text_at sr addr = option_map (fun p => (fst p + count_lines (ds_src da), snd p)) (line_text_at sb addr).
Proof. exact linked_line_second. Qed.
Print Assumptions C22_lines_second.

(* every label's reported span covers that label's text in the combined source *)
Theorem C22_label_spans : forall a b r sa sb sr da db, LinkedDbg a b r sa sb sr da db ->
  label_spans_ok_b a = true -> label_spans_ok_b b = true ->
  byte_len (ds_src da ++ [10] ++ ds_src db) <= usize_max ->
  label_spans_ok_b r = true.
Proof. exact linked_label_spans. Qed.
Print Assumptions C22_label_spans.
Theorem C22_label_spans_meaning : forall o st d, o_sym o = Some st -> st_debug st = Some d ->
  (label_spans_ok_b o = true <-> forall n x, In (n, x) (st_labels st) -> span_ok (ds_src d) n x).
Proof. exact label_spans_ok_iff. Qed.
Print Assumptions C22_label_spans_meaning.

(* ".orig x3000\nA .fill 1\n.end" and ".orig x4000\nBB .fill 2\n.end": after linking, BB's span
   (12 in its own file) is 12 + 27 + 1 in the combined text and x4000 reads "BB .fill 2" *)
Definition src_a : str := [46;111;114;105;103;32;120;51;48;48;48;10;65;32;46;102;105;108;108;32;49;10;46;101;110;100].
Definition src_b : str := [46;111;114;105;103;32;120;52;48;48;48;10;66;66;32;46;102;105;108;108;32;50;10;46;101;110;100].
Definition ex_a : objfile :=
  mkObj [(12288, [Some 1])] (Some (mkSymtab [([65], mkSym 12288 12 false)] [] (Some (mkDebug [(1, [12288])] src_a)))).
Definition ex_b : objfile :=
  mkObj [(16384, [Some 2])] (Some (mkSymtab [([66;66], mkSym 16384 12 false)] [] (Some (mkDebug [(1, [16384])] src_b)))).
Example C22_ex : ObjInv ex_a /\ ObjInv ex_b /\ label_spans_ok_b ex_a = true /\ label_spans_ok_b ex_b = true /\
  match link ex_a ex_b with
  | LOk r => match o_sym r with
             | Some st => line_text_at st 16384 = Some (4, Some [66;66;32;46;102;105;108;108;32;50]) /\
                          get_label_source st [66;66] = Some (Some (39, 41)) /\ label_spans_ok_b r = true
             | None => False end
  | _ => False end.
Proof. vm_compute. repeat split. Qed.
