(* C23 — Symbol-table label queries agree and ignore case.
   [sym] is any symbol table returned by pass 1 (`SymbolTable::new`, with or without a source
   text; `assemble_debug` stores exactly it).  [spec_label p name]: the first positional binding
   of the name, compared ignoring (ASCII) case — address of the statement the label stands on,
   0 and external for an `.external` declaration (spec/LayoutSpec.v). *)
From Coq Require Import ZArith List Bool Permutation.
From Model Require Import Text AsmAst Obj Assembler.
From Spec Require Import LayoutSpec WfSpec.
From Proofs Require Import AsmPass1 AsmQueries.
Import ListNotations.
Open Scope Z_scope.

Theorem C23_lookup : forall src p sym, typed p = true -> pass1 p src = AOk sym ->
  forall name, lookup_label sym name = option_map b_addr (spec_label p name).
Proof. exact lookup_spec. Qed.
Print Assumptions C23_lookup.

(* any two spellings that differ only in letter case give the same answers *)
Theorem C23_ignores_case : forall (sym : symtab) n1 n2, upper n1 = upper n2 ->
  lookup_label sym n1 = lookup_label sym n2 /\
  option_map fst (get_label_source sym n1) = option_map fst (get_label_source sym n2).
Proof. exact lookup_ignores_case. Qed.
Print Assumptions C23_ignores_case.

(* the source lookup returns the span of a label occurrence of the program with that name; it
   starts where the FIRST binding of the name was written *)
Theorem C23_source : forall src p sym, typed p = true -> pass1 p src = AOk sym ->
  forall name,
    get_label_source sym name = option_map (fun b => (b_src b, b_src b + byte_len name)) (spec_label p name)
    /\ (forall b, spec_label p name = Some b ->
          exists l, In l (occurrences p) /\ upper (l_name l) = upper name /\ get_label_source sym name = Some (label_span l)).
Proof. exact source_spec. Qed.
Print Assumptions C23_source.

(* reverse lookup, whatever the iteration order of the hash map: a returned label is bound to that
   address, and an address some label is bound to is never answered with nothing *)
Theorem C23_rev : forall src p sym, typed p = true -> pass1 p src = AOk sym ->
  forall L' rel dbg a, Permutation L' (st_labels sym) ->
    (forall n, rev_lookup_label (mkSymtab L' rel dbg) a = Some n ->
       exists b, find (named n) (bindings p) = Some b /\ b_addr b = a)
    /\ ((exists name b, spec_label p name = Some b /\ b_addr b = a) -> rev_lookup_label (mkSymtab L' rel dbg) a <> None).
Proof. exact rev_spec. Qed.
Print Assumptions C23_rev.

(* the listing holds every bound name exactly once, with the address and flag of its first binding *)
Theorem C23_listing : forall src p sym, typed p = true -> pass1 p src = AOk sym ->
  NoDup (map (fun x => fst (fst x)) (label_iter sym)) /\
  forall k a e, In (k, a, e) (label_iter sym) <->
                exists b, find (named k) (bindings p) = Some b /\ a = b_addr b /\ e = b_ext b.
Proof. exact listing_spec. Qed.
Print Assumptions C23_listing.

Theorem C23_absent : forall src p sym, typed p = true -> pass1 p src = AOk sym ->
  forall name, spec_label p name = None -> lookup_label sym name = None /\ get_label_source sym name = None.
Proof. exact absent_spec. Qed.
Print Assumptions C23_absent.

Definition lab (n : list Z) (at_ : Z) : label := mkLabel n at_.
Definition ex : list stmt :=
  [ mkStmt [] (NDir (DOrig 12288)) 0 11;
    mkStmt [lab [97; 98; 99] 12; lab [65; 66; 99] 21] (NInstr AHALT) 16 20;   (* abc ABc HALT  (same address: no conflict) *)
    mkStmt [lab [122; 122] 23] (NDir DEnd) 25 29;                          (* zz .end *)
    mkStmt [] (NDir (DExternal (lab [101; 120; 116] 40))) 30 43 ].        (* .external ext *)
Example C23_ex : match pass1 ex None with
  | AOk sym => lookup_label sym [65; 98; 67] = Some 12288 /\ get_label_source sym [65; 66; 67] = Some (12, 15)
               /\ lookup_label sym [69; 88; 84] = Some 0 /\ rev_lookup_label sym 12288 = Some [65; 66; 67]
               /\ lookup_label sym [90; 122] = Some 12289 /\ lookup_label sym [122] = None
  | _ => False end.
Proof. vm_compute. repeat split; reflexivity. Qed.
