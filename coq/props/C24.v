(* C24 — The line <-> address debug mapping is one-to-one.
   [sym]: the symbol table of `SymbolTable::new(stmts, Some(text))` (what `assemble_debug` stores).
   [spec_lines text p] (spec/LineSpec.v): one pair (line, address) for every statement that occupies
   memory (everything except .orig, .end, .external) and stands inside a block — line of the text
   on which the statement starts, positional address.  Hypotheses: [typed] (ranges the Rust types
   guarantee), [lines_inc text p] (every statement starts on a later line than the one before:
   parser output), and for the address -> line direction [wf p] (the program assembles) and
   [blkw_pos p] (`.blkw 0` does not exist: the parser rejects it). *)
From Coq Require Import ZArith List Bool.
From Model Require Import Text Instr AsmAst Obj Assembler.
From Spec Require Import LayoutSpec WfSpec LineSpec.
From Proofs Require Import AsmLines.
Import ListNotations.
Open Scope Z_scope.

(* a line maps to an address exactly when a memory-occupying statement of a block starts on it,
   and then to that statement's address *)
Theorem C24_forward : forall text p sym, typed p = true -> lines_inc text p -> pass1 p (Some text) = AOk sym ->
  forall n a, lookup_line sym n = Some a <-> In (n, a) (spec_lines text p).
Proof. exact forward_spec. Qed.
Print Assumptions C24_forward.

(* that address maps back to the line *)
Theorem C24_backward : forall text p sym, typed p = true -> lines_inc text p -> wf p = true -> blkw_pos p = true ->
  pass1 p (Some text) = AOk sym ->
  forall a n, rev_lookup_line sym a = Some n <-> In (n, a) (spec_lines text p).
Proof. exact backward_spec. Qed.
Print Assumptions C24_backward.

(* no address stands on two lines, no line holds two addresses *)
Theorem C24_injective : forall text p, typed p = true -> wf p = true -> blkw_pos p = true ->
  NoDup (map snd (spec_lines text p)).
Proof. exact lines_injective. Qed.
Print Assumptions C24_injective.
Theorem C24_functional : forall text p, lines_inc text p -> NoDup (map fst (spec_lines text p)).
Proof. exact lines_functional. Qed.
Print Assumptions C24_functional.

(* the table lists exactly these pairs: lines holding only labels, comments, .orig, .end or
   .external map to nothing *)
Theorem C24_nothing_else : forall text p sym, typed p = true -> lines_inc text p -> pass1 p (Some text) = AOk sym ->
  forall n a, In (n, a) (line_iter sym) <-> In (n, a) (spec_lines text p).
Proof. exact listing_lines. Qed.
Print Assumptions C24_nothing_else.

(* the debug bookkeeping never panics on such input (discharges the condition of C01_image_debug
   and C02_accepts_iff_debug) *)
Theorem C24_debug_total : forall text p, typed p = true -> lines_inc text p -> assemble true (Some text) p <> APanic.
Proof. exact assemble_debug_total. Qed.
Print Assumptions C24_debug_total.

(* ".orig x3000 / loop ADD.. / .external X / .blkw 2 / HALT / .end", one statement per line *)
Definition text : str := [46; 10; 108; 10; 46; 10; 46; 10; 72; 10; 46; 10].
Definition ex : list stmt :=
  [ mkStmt [] (NDir (DOrig 12288)) 0 1;
    mkStmt [mkLabel [108] 2] (NInstr (AADD 0 0 (Imm 1))) 2 3;
    mkStmt [] (NDir (DExternal (mkLabel [88] 4))) 4 5;
    mkStmt [] (NDir (DBlkw 2)) 6 7;
    mkStmt [] (NInstr AHALT) 8 9;
    mkStmt [] (NDir DEnd) 10 11 ].
Example C24_ex : spec_lines text ex = [(1, 12288); (3, 12289); (4, 12291)] /\
  match pass1 ex (Some text) with
  | AOk sym => line_iter sym = [(1, 12288); (3, 12289); (4, 12291)] /\ lookup_line sym 2 = None
               /\ rev_lookup_line sym 12289 = Some 3 /\ rev_lookup_line sym 12290 = None
  | _ => False end.
Proof. vm_compute. repeat split; reflexivity. Qed.
