(* C25 — Source position queries are consistent.
   Statements only; proofs in proofs/SourceInfoProofs.v (induction on the text / on its list of
   lines; no bound on the text, the line number or the byte index).  `count_nl`, `lines_of`,
   `line`, `line_start`, `white_space`, `all_ws`, `no_edge_ws` are the declarative notions of
   spec/SourcePos.v; `count_lines`, `line_span`, `read_line`, `get_pos_pair_res` are the model of
   SourceInfo (model/SourceInfo.v; `get_pos_pair_res = None` is the panic of the usize subtraction
   `index - lstart`).  All offsets are BYTE offsets into the UTF-8 text. *)
From Coq Require Import ZArith List Bool.
From Model Require Import Text SourceInfo.
From Spec Require Import SourcePos.
From Proofs Require Import SourceInfoProofs.
Import ListNotations.
Open Scope Z_scope.

(* The spec's lines are what the property text calls lines: newline-free pieces which, joined by
   newlines, give back the text; there are (number of newlines + 1) of them. *)
Theorem C25_lines_characterised : forall s,
  join_nl (lines_of s) = s /\ (forall p, In p (lines_of s) -> ~ In 10 p) /\
  Z.of_nat (length (lines_of s)) = count_nl s + 1.
Proof. intros s. split; [apply join_lines_of|]. split; [apply lines_of_no_nl|apply length_lines_of]. Qed.
Print Assumptions C25_lines_characterised.

(* The line count is the number of newlines plus one. *)
Theorem C25_count_lines : forall s, count_lines s = count_nl s + 1.
Proof. exact count_lines_spec. Qed.
Print Assumptions C25_count_lines.

(* Span and text of line l are that line without surrounding whitespace: the line is
   pre ++ mid ++ post with pre and post all White_Space and mid without whitespace at either edge;
   the span starts |pre| bytes after the start of the line and is |mid| bytes long; read_line is mid.
   (For an all-whitespace line mid is empty and the empty span sits at the start of the line.) *)
Theorem C25_line_span_trimmed : forall s l, 0 <= l <= count_nl s ->
  exists pre mid post, line s l = pre ++ mid ++ post /\ all_ws pre /\ all_ws post /\ no_edge_ws mid /\
    (mid = [] -> pre = []) /\
    line_span s l = Some (line_start s l + byte_len pre, line_start s l + byte_len pre + byte_len mid) /\
    read_line s l = Some mid.
Proof. exact line_span_spec. Qed.
Print Assumptions C25_line_span_trimmed.

(* No other line number has a span or a text. *)
Theorem C25_line_out_of_range : forall s l, l < 0 \/ count_nl s < l ->
  line_span s l = None /\ read_line s l = None.
Proof. exact line_span_none. Qed.
Print Assumptions C25_line_out_of_range.

(* line_span / read_line cannot panic: every string slice is taken at code-point boundaries inside
   the text and no usize subtraction underflows (line_span_res / read_line_res are the same
   functions with those panic sites explicit; outer None = panic). *)
Theorem C25_line_no_panic : forall s l,
  line_span_res s l = Some (line_span s l) /\ read_line_res s l = Some (read_line s l).
Proof. intros s l. split; [apply line_span_res_ok|apply read_line_res_ok]. Qed.
Print Assumptions C25_line_no_panic.

(* The model's whitespace test is the Unicode White_Space table. *)
Theorem C25_whitespace_table : forall c, is_ws c = true <-> In c white_space.
Proof. exact is_ws_spec. Qed.
Print Assumptions C25_whitespace_table.

(* ... also when newlines are counted on the BYTES of the UTF-8 text, as `match_indices('\n')` does. *)
Theorem C25_count_lines_bytes : forall s, Forall valid_cp s ->
  count_lines s = Z.of_nat (count_occ Z.eq_dec (utf8_bytes s) 10) + 1.
Proof. intros s Hv. rewrite count_nl_bytes by exact Hv. apply count_lines_spec. Qed.
Print Assumptions C25_count_lines_bytes.

(* The position of a byte index inside the text (its end included) is (l, c) where line l starts
   c bytes before the index and the index lies in that line or on its terminating newline — hence
   no newline strictly between the line start and the index, the line being newline-free. *)
Theorem C25_pos : forall s i, 0 <= i <= byte_len s ->
  exists l c, get_pos_pair_res s i = Some (l, c) /\ 0 <= l <= count_nl s /\ 0 <= c /\
              line_start s l + c = i /\ c <= byte_len (line s l).
Proof. exact get_pos_pair_in_range. Qed.
Print Assumptions C25_pos.

(* The same on the bytes: no newline byte strictly between the start of line l and the index. *)
Theorem C25_pos_no_newline_between : forall s i, Forall valid_cp s -> 0 <= i <= byte_len s ->
  exists l c, get_pos_pair_res s i = Some (l, c) /\ line_start s l + c = i /\
    forall j, line_start s l <= j < i -> nth (Z.to_nat j) (utf8_bytes s) 0 <> 10.
Proof. exact get_pos_pair_no_nl_between. Qed.
Print Assumptions C25_pos_no_newline_between.

(* ... and that determines l: at most one line satisfies it. *)
Theorem C25_pos_unique : forall s i l l', 0 <= l <= count_nl s -> 0 <= l' <= count_nl s ->
  line_start s l <= i <= line_start s l + byte_len (line s l) ->
  line_start s l' <= i <= line_start s l' + byte_len (line s l') -> l = l'.
Proof. exact line_of_index_unique. Qed.
Print Assumptions C25_pos_unique.

(* An index past the end is on the last line, the column measured from that line's start. *)
Theorem C25_past_end : forall s i, byte_len s < i ->
  get_pos_pair_res s i = Some (count_nl s, i - line_start s (count_nl s)) /\
  line_start s (count_nl s) <= byte_len s.
Proof. exact get_pos_pair_past_end. Qed.
Print Assumptions C25_past_end.

(* `index - lstart` never underflows: get_pos_pair cannot panic for any usize index. *)
Theorem C25_pos_no_panic : forall s i, 0 <= i -> get_pos_pair_res s i <> None.
Proof. exact get_pos_pair_res_some. Qed.
Print Assumptions C25_pos_no_panic.

(* Witness of the defect repaired in /repo (fix: SourceInfo::get_line/get_pos_pair ...): the code as
   it was put index 4 of "a\nb" on line 2 (of 2 lines), column 4; the repaired code gives (1, 2). *)
Theorem C25_past_end_unrepaired_refuted :
  get_pos_pair_unrepaired [97; 10; 98] 4 = (2, 4) /\ get_pos_pair_res [97; 10; 98] 4 = Some (1, 2) /\
  get_pos_pair_unrepaired [] 1 = (1, 1) /\ get_pos_pair_res [] 1 = Some (0, 1).
Proof. exact unrepaired_witness. Qed.
Print Assumptions C25_past_end_unrepaired_refuted.

(* non-vacuity: "ab \n\t c\r\n" — three lines; line 1 is "\t c\r", trimmed to "c" at bytes 6..7 *)
Example C25_ex1 :
  let s := [97; 98; 32; 10; 9; 32; 99; 13; 10] in
  count_lines s = 3 /\ line s 1 = [9; 32; 99; 13] /\ line_start s 1 = 4 /\
  line_span s 1 = Some (6, 7) /\ read_line s 1 = Some [99] /\
  get_pos_pair_res s 6 = Some (1, 2) /\ get_pos_pair_res s 9 = Some (2, 0) /\ get_pos_pair_res s 20 = Some (2, 11).
Proof. vm_compute. repeat split. Qed.
