(* C26 — Assembler and linker error spans are well-formed: the ASSEMBLER half (errors returned
   by `assemble` = [assemble false None] and `assemble_debug` = [assemble true (Some src)]).
   The span list of the model is the `ErrSpan` of the Rust error flattened to a list
   (One / Two / Many); `first()` and `iter()` are total exactly when the list is non-empty. *)
From Coq Require Import ZArith List Bool.
From Model Require Import Text AsmAst Obj Assembler.
From Spec Require Import LayoutSpec WfSpec.
From Proofs Require Import AsmSpans.
Import ListNotations.
Open Scope Z_scope.

(* every error carries at least one span: `first()` cannot panic *)
Theorem C26_nonempty : forall p k sp,
  (assemble false None p = AErr k sp \/ exists src, assemble true (Some src) p = AErr k sp) -> sp <> [].
Proof.
  intros p k sp [E|[src E]]; [exact (proj1 (assemble_spans_plain p k sp E)) | exact (proj1 (assemble_spans_debug src p k sp E))].
Qed.
Print Assumptions C26_nonempty.

(* every span of an error is the span of a statement of the program or of a label written in it
   (a statement label, the operand of .external, a label operand) *)
Theorem C26_known : forall p k sp,
  (assemble false None p = AErr k sp \/ exists src, assemble true (Some src) p = AErr k sp) ->
  Forall (fun s => In s (stmt_spans p) \/ In s (label_spans p)) sp.
Proof.
  intros p k sp [E|[src E]]; [exact (proj1 (proj2 (assemble_spans_plain p k sp E))) | exact (proj1 (proj2 (assemble_spans_debug src p k sp E)))].
Qed.
Print Assumptions C26_known.

(* hence: if the statement and label spans of the program lie inside the source (as they do for
   parser output, C03/C04), so does every span of every error *)
Definition spans_within (len_src : Z) (p : list stmt) : Prop :=
  forall s, In s (stmt_spans p) \/ In s (label_spans p) -> 0 <= fst s <= snd s /\ snd s <= len_src.
Theorem C26_within : forall src p k sp, spans_within (byte_len src) p ->
  (assemble false None p = AErr k sp \/ assemble true (Some src) p = AErr k sp) ->
  Forall (fun s => 0 <= fst s <= snd s /\ snd s <= byte_len src) sp.
Proof.
  intros src p k sp W E.
  assert (K : Forall (fun s => In s (stmt_spans p) \/ In s (label_spans p)) sp).
  { apply (C26_known p k sp). destruct E as [E|E]; [left; exact E | right; exists src; exact E]. }
  rewrite Forall_forall in *. intros s Hs. apply W. exact (K s Hs).
Qed.
Print Assumptions C26_within.

(* label errors (undetermined address of a label, duplicate label, label not found, external label
   in a PC-relative operand, offset out of reach) point at labels only: every span covers exactly
   one label written in the program *)
Theorem C26_label_spans : forall p k sp,
  (assemble false None p = AErr k sp \/ exists src, assemble true (Some src) p = AErr k sp) ->
  label_kind k = true -> Forall (fun s => exists l, In l (flat_map labels_in p) /\ s = label_span l) sp.
Proof.
  intros p k sp E K.
  assert (F : Forall (fun s => In s (label_spans p)) sp).
  { destruct E as [E|[src E]]; [exact (proj2 (proj2 (assemble_spans_plain p k sp E)) K) | exact (proj2 (proj2 (assemble_spans_debug src p k sp E)) K)]. }
  rewrite Forall_forall in *. intros s Hs. specialize (F s Hs). unfold label_spans in F. apply in_map_iff in F.
  destruct F as [l [E1 E2]]. exists l. split; [exact E2 | symmetry; exact E1].
Qed.
Print Assumptions C26_label_spans.

Definition lab (n : list Z) (at_ : Z) : label := mkLabel n at_.
Example C26_ex :
  assemble false None [ mkStmt [] (NDir (DOrig 12288)) 0 11;
                        mkStmt [lab [97] 12] (NInstr (ABR 7 (PLab (lab [98] 17)))) 14 18;
                        mkStmt [] (NDir DEnd) 19 23 ] = AErr CouldNotFindLabel [(17, 18)]
  /\ assemble false None [ mkStmt [lab [97] 0] (NInstr AHALT) 2 6 ] = AErr UndetAddrLabel [(0, 1)]
  /\ assemble false None [ mkStmt [] (NDir (DOrig 12288)) 0 11;
                           mkStmt [lab [97] 12] (NInstr AHALT) 14 18; mkStmt [lab [65] 19] (NInstr AHALT) 21 25;
                           mkStmt [] (NDir DEnd) 26 30 ] = AErr OverlappingLabels [(12, 13); (19, 20)].
Proof. vm_compute. repeat split; reflexivity. Qed.

(* ---------- linker half (proofs/LinkErrProofs.v) ---------- *)
From Model Require Import Link.
From Proofs Require Import LinkErrProofs.

(* every link error carries a non-empty span list (so `first` is total) with ordered spans *)
Theorem C26_link_error_nonempty : forall a b k sp, Link.link a b = LErr k sp -> sp <> nil.
Proof. intros a b k sp H. exact (proj1 (C26_link_nonempty a b k sp H)). Qed.
Print Assumptions C26_link_error_nonempty.

Theorem C26_link_error_spans_ordered : forall a b k sp s, Link.link a b = LErr k sp -> In s sp -> fst s <= snd s.
Proof. exact C26_link_spans_ordered. Qed.
Print Assumptions C26_link_error_spans_ordered.
