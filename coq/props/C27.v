(* C27 — Frame stack tracks calls and returns.
   Proved for all states: pushing a frame (done by JSR/JSRR, TRAP, interrupt and exception
   entry — see call_subroutine / call_interrupt in model/Sim.v) increases the depth by exactly one
   and, with debug frames on, adds one entry holding the caller address, the callee / vector, the
   call kind and the arguments of the registered signature; popping (RET = JMP R7, RTI) decreases
   the depth by one saturating at zero and removes the newest entry.  Which instructions push and
   pop is part of the model that is compared with the implementation after every step (depth and
   frame list are fields of `sim.run` observations) and checked against an independent event
   count by harness area simprops.  Composed over whole instructions (C27_instruction_depth,
   C27_interrupt_entry_depth): whenever an instruction completes, the depth afterwards is the
   depth before plus one for JSR/JSRR and TRAP, minus one saturating at zero for RET (JMP R7) and
   RTI, and unchanged for every other instruction; taking an interrupt adds one. *)
From Coq Require Import ZArith List Bool.
From Model Require Import Bits Word Instr Sim.
From Proofs Require Import SimAccess SimFrames IrqProofs SimStepObs SimStepFrames SimFrameList SimStepFrames2 SimObsEntry SimEntryFrame.
Import ListNotations.
Open Scope Z_scope.

Theorem C27_push : forall a b f s,
  s_frame_no (fst (push_frame a b f s)) = s_frame_no s + 1
  /\ match s_frames s, s_frames (fst (push_frame a b f s)) with
     | Some fs, Some (top :: fs') => fs' = fs /\ f_caller top = a /\ f_callee top = b /\ f_type top = f
     | None, None => True
     | _, _ => False
     end.
Proof. exact push_frame_depth. Qed.
Print Assumptions C27_push.

Theorem C27_pop : forall s,
  s_frame_no (fst (pop_frame s)) = Z.max 0 (s_frame_no s - 1)
  /\ s_frames (fst (pop_frame s)) = match s_frames s with Some (_ :: r) => Some r | x => x end.
Proof. exact pop_frame_depth. Qed.
Print Assumptions C27_pop.

Theorem C27_args_by_register : forall a b f s fs rs,
  s_frames s = Some fs ->
  (match f with FSubroutine => assoc (s_sr_defns s) b | FTrap => if b <? 256 then trap_defn b else None | FInterrupt => assoc (s_sr_defns s) b end) = Some (PBR rs) ->
  exists top, s_frames (fst (push_frame a b f s)) = Some (top :: fs) /\ f_fp top = None /\ f_args top = map (fun r => rget (s_regs s) r) rs.
Proof. exact push_frame_args_pbr. Qed.
Print Assumptions C27_args_by_register.

Theorem C27_instruction_depth : forall e i s s' u,
  exec e i s = (s', inl u) -> s_frame_no s' = depth_effect i (s_frame_no s).
Proof. intros e i s s' u E. exact (exec_depth e i s s' u E). Qed.
Print Assumptions C27_instruction_depth.

Theorem C27_depth_effect_table : forall i n,
  depth_effect i n = match i with
                     | SJSR _ | STRAP _ => n + 1
                     | SRTI => Z.max 0 (n - 1)
                     | SJMP br => if br =? 7 then Z.max 0 (n - 1) else n
                     | _ => n
                     end.
Proof. reflexivity. Qed.
Print Assumptions C27_depth_effect_table.

Theorem C27_interrupt_entry_depth : forall e v p s s' u,
  handle_interrupt e v (Some p) s = (s', inl u) -> psr_priority (s_psr s) < p -> s_frame_no s' = s_frame_no s + 1.
Proof. exact fe_handle_interrupt_some. Qed.
Print Assumptions C27_interrupt_entry_depth.

Theorem C27_trap_exception_entry_depth : forall e v s s' u,
  handle_interrupt e v None s = (s', inl u) -> s_frame_no s' = s_frame_no s + 1.
Proof. intros e v s s' u E. exact (fe_handle_interrupt_none e v s s' u E). Qed.
Print Assumptions C27_trap_exception_entry_depth.

(* whole steps and runs (machine states before and after [step_in]; [Completed] as in C28_completed_def) *)
Theorem C27_step_depth : forall e s s' u s1 w i, Completed e s s' u s1 w i ->
  s_frame_no s' = depth_effect i (s_frame_no s).
Proof. exact step_depth. Qed.
Print Assumptions C27_step_depth.
Theorem C27_interrupt_step_depth : forall e s s' u v p, takes_irq e s v p ->
  step_inner e (upd_obs s []) = (s', inl u) -> s_frame_no s' = s_frame_no s + 1.
Proof. exact step_irq_depth. Qed.
Print Assumptions C27_interrupt_step_depth.
(* any run of completed steps, with interrupts taken at any boundaries: the depth is the fold of the
   events' effects — calls, traps and interrupt entries +1, RET and RTI -1 saturating at zero *)
Theorem C27_run_depth : forall s evs s', Trace s evs s' ->
  s_frame_no s' = fold_left (fun n ev => event_effect ev n) evs (s_frame_no s).
Proof. exact trace_depth. Qed.
Print Assumptions C27_run_depth.
Theorem C27_trace_def : forall s evs s', Trace s evs s' <->
  match evs with
  | [] => s' = s
  | EInstr i :: r => exists e s1 u t w, Completed e s s1 u t w i /\ Trace s1 r s'
  | EIrq :: r => exists e s1 u v p, takes_irq e s v p /\ step_inner e (upd_obs s []) = (s1, inl u) /\ Trace s1 r s'
  end.
Proof.
  intros s evs s'. split.
  - intros T. destruct T as [s|e s s1 u t w i evs s' C T|e s s1 u v p evs s' K ST T]; [reflexivity| |].
    + exists e, s1, u, t, w. split; assumption.
    + exists e, s1, u, v, p. split; [assumption|split; assumption].
  - destruct evs as [|[i|] r].
    + intros ->. apply tr_nil.
    + intros (e & s1 & u & t & w & C & T). exact (tr_instr e s s1 u t w i r s' C T).
    + intros (e & s1 & u & v & p & K & ST & T). exact (tr_irq e s s1 u v p r s' K ST T).
Qed.
Print Assumptions C27_trace_def.
(* a call, a body without calls / returns / interrupts, and the matching RET restore the depth *)
Theorem C27_call_return_balanced : forall s o body s',
  Trace s (EInstr (SJSR o) :: body ++ [EInstr (SJMP 7)]) s' -> forallb neutral body = true ->
  0 <= s_frame_no s -> s_frame_no s' = s_frame_no s.
Proof. exact call_body_return_depth. Qed.
Print Assumptions C27_call_return_balanced.
(* non-vacuity, evaluated in Coq: JSR at x3000 to x3002, RET there; depth 0 -> 1 -> 0, frame list empty again *)
Theorem C27_run_example :
  exists s1 s', Trace ex_call_state [EInstr (SJSR (Imm 1)); EInstr (SJMP 7)] s' /\
    (exists u t w, Completed ex_env ex_call_state s1 u t w (SJSR (Imm 1))) /\
    s_frame_no s1 = 1 /\ s_pc s1 = 12290 /\
    s_frame_no s' = 0 /\ s_pc s' = 12289 /\ s_frames s' = Some [].
Proof. exact ex_call_ret. Qed.
Print Assumptions C27_run_example.
(* the recorded frame of a call, at step level: a completed JSR / JSRR step with debug frames on pushes exactly
   one frame — the address of the calling instruction, the subroutine start, kind Subroutine — on the unchanged
   older frames *)
Theorem C27_step_call_frame : forall e s s' u s1 w o fs, Completed e s s' u s1 w (SJSR o) ->
  0 <= s_pc s < 65536 -> s_frames s = Some fs ->
  exists top, s_frames s' = Some (top :: fs) /\
    f_caller top = s_pc s /\ f_callee top = jsr_target s o /\ f_type top = FSubroutine.
Proof. exact step_jsr_frame. Qed.
Print Assumptions C27_step_call_frame.
Theorem C27_call_target_def : forall s o,
  jsr_target s o = match o with Imm off => wrap16 (wrap16 (s_pc s + 1) + off) | RegOp br => w_data (rget (s_regs s) br) end.
Proof. reflexivity. Qed.
Print Assumptions C27_call_target_def.
(* ... and of an interrupt: a step that takes an interrupt (stack slots in ordinary memory) records the address of
   the interrupted instruction, the vector x100+v and kind Interrupt; the general form for trap / exception entry
   is [entry_frame] (caller = the trapping instruction's address, [prefetch_pc]) *)
Theorem C27_step_interrupt_frame : forall e s s' u v p fs,
  List.length (s_regs s) = 8%nat -> takes_irq e s v p ->
  step_inner e (upd_obs s []) = (s', inl u) ->
  let a1 := wrap16 (entry_sp s - 1) in let a2 := wrap16 (entry_sp s - 2) in
  (IO_START <=? a1) = false -> (IO_START <=? a2) = false ->
  0 <= s_pc s < 65536 -> s_frames s = Some fs ->
  exists top, s_frames s' = Some (top :: fs) /\
    f_caller top = s_pc s /\ f_callee top = 256 + v /\ f_type top = FInterrupt.
Proof. exact step_interrupt_frame. Qed.
Print Assumptions C27_step_interrupt_frame.
Theorem C27_entry_frame : forall e v ft psr_f s s' u fs,
  entry_body e v ft psr_f s s = (s', inl u) ->
  let a1 := wrap16 (entry_sp s - 1) in let a2 := wrap16 (entry_sp s - 2) in
  List.length (s_regs s) = 8%nat -> (IO_START <=? a1) = false -> (IO_START <=? a2) = false ->
  s_frames s = Some fs ->
  exists top, s_frames s' = Some (top :: fs) /\
    f_caller top = prefetch_pc s /\ f_callee top = v /\ f_type top = ft.
Proof. exact entry_frame. Qed.
Print Assumptions C27_entry_frame.
(* [entry_body] is the common part of handle_interrupt after the priority gate / the virtual short-cut *)
Theorem C27_entry_body_is_handle_interrupt : forall e v s,
  (forall p, psr_priority (s_psr s) < p ->
     handle_interrupt e v (Some p) s = entry_body e v FInterrupt (fun x => psr_set_priority (psr_set_cc x 2) p) s s) /\
  ((if fl_real (s_flags s) then None else real_int_vect v) = None ->
     handle_interrupt e v None s = entry_body e v FTrap (fun x => psr_set_cc x 2) s s).
Proof. intros e v s. split; [intros p H; exact (handle_interrupt_some_is_entry e v p s H)|exact (handle_interrupt_none_is_entry e v s)]. Qed.
Print Assumptions C27_entry_body_is_handle_interrupt.
(* second sentence: with debug frames on, the frame list has exactly as many entries as the reported depth —
   an invariant of [step_in] on EVERY path (completed steps, every error, interrupts, traps, exceptions vectored
   under real traps, strict-mode failures in the middle of an entry), hence of every run from a state that has it
   (a new or reset simulator: depth 0, empty list) *)
Theorem C27_frame_list_length_step : forall e s, FL s -> FL (fst (step_in e s)).
Proof. exact fl_step_in. Qed.
Print Assumptions C27_frame_list_length_step.
Theorem C27_frame_list_length_run : forall es s, FL s -> FL (steps es s).
Proof. exact fl_run. Qed.
Print Assumptions C27_frame_list_length_run.
Theorem C27_frame_list_invariant_meaning : forall s, FL s <->
  match s_frames s with
  | Some fs => s_frame_no s = Z.of_nat (List.length fs)
  | None => 0 <= s_frame_no s
  end.
Proof. intros s. reflexivity. Qed.
Print Assumptions C27_frame_list_invariant_meaning.
Theorem C27_steps_def : forall e es s, steps [] s = s /\ steps (e :: es) s = steps es (fst (step_in e s)).
Proof. intros. split; reflexivity. Qed.
Print Assumptions C27_steps_def.
Example C27_frame_list_initial : FL ex_call_state.
Proof. reflexivity. Qed.
(* built-in trap signatures: GETC/IN return in R0, OUT/PUTS/PUTSP take R0, HALT nothing *)
Example C27_trap_signatures :
  trap_defn 32 = Some (PBR nil) /\ trap_defn 33 = Some (PBR (0 :: nil)) /\ trap_defn 34 = Some (PBR (0 :: nil)) /\
  trap_defn 35 = Some (PBR nil) /\ trap_defn 36 = Some (PBR (0 :: nil)) /\ trap_defn 37 = Some (PBR nil) /\ trap_defn 38 = None.
Proof. vm_compute. repeat split. Qed.
