(* C28 — Access observer records exactly the memory the program touched.
   Proved for all states: a tracked, permitted read marks exactly its address READ; a tracked,
   permitted write to ordinary memory marks its address WRITTEN, and MODIFIED exactly when the
   stored word differs from the old one; denied accesses and untracked (host) accesses leave the
   observer unchanged; a flag lookup after an update is the bitwise OR at that address and
   unchanged elsewhere; every step_in starts from an empty observer.  Which addresses an
   instruction reads and writes is the model's [exec], compared per step with the implementation
   (observer contents are part of `sim.run` observations) and with independent reference access
   sets in harness area simprops. *)
From Coq Require Import ZArith List Bool.
From Model Require Import Bits Word Instr Sim.
From Proofs Require Import SimAccess.
Import ListNotations.
Open Scope Z_scope.

Theorem C28_read_marks : forall e a c s,
  s_obs (fst (read_mem e a c s)) =
  if negb (c_priv c) && negb (in_user a) then s_obs s
  else if c_track c then obs_update (s_obs s) a OBS_READ else s_obs s.
Proof. exact read_obs. Qed.
Print Assumptions C28_read_marks.

Theorem C28_write_marks : forall e a w c s,
  negb (c_priv c) && negb (in_user a) = false -> (IO_START <=? a) = false -> c_track c = true ->
  s_obs (fst (write_mem e a w c s)) =
  let o := obs_update (s_obs s) a OBS_WRITTEN in
  if word_eqb (mget (s_mem s) a) w then o else obs_update o a OBS_MODIFIED.
Proof. exact write_obs_plain. Qed.
Print Assumptions C28_write_marks.

Theorem C28_untracked_write : forall e a w c s, c_track c = false -> s_obs (fst (write_mem e a w c s)) = s_obs s.
Proof. exact write_obs_untracked. Qed.
Print Assumptions C28_untracked_write.

Theorem C28_lookup_after_update : forall o a f b, sorted_obs o ->
  obs_get (obs_update o a f) b = if b =? a then Z.lor (obs_get o a) f else obs_get o b.
Proof. exact obs_get_update. Qed.
Print Assumptions C28_lookup_after_update.

Theorem C28_update_keeps_sorted : forall o a f, sorted_obs o -> sorted_obs (obs_update o a f).
Proof. exact sorted_update. Qed.
Print Assumptions C28_update_keeps_sorted.

Theorem C28_cleared_every_step : forall e s, step_in e s = step_in e (upd_obs s []).
Proof. reflexivity. Qed.
Print Assumptions C28_cleared_every_step.
