(* C28 — Access observer records exactly the memory the program touched.
   Proved for all states: a tracked, permitted read marks exactly its address READ; a tracked,
   permitted write to ordinary memory marks its address WRITTEN, and MODIFIED exactly when the
   stored word differs from the old one; denied accesses and untracked (host) accesses leave the
   observer unchanged; a flag lookup after an update is the bitwise OR at that address and
   unchanged elsewhere; every step_in starts from an empty observer.  Which addresses an
   instruction reads and writes is the model's [exec], compared per step with the implementation
   (observer contents are part of `sim.run` observations) and with independent reference access
   sets in harness area simprops. *)
From Coq Require Import ZArith List Bool.
From Model Require Import Bits Word Instr Sim.
From Proofs Require Import SimAccess SimObs.
Import ListNotations.
Open Scope Z_scope.

Theorem C28_read_marks : forall e a c s,
  s_obs (fst (read_mem e a c s)) =
  if negb (c_priv c) && negb (in_user a) then s_obs s
  else if c_track c then obs_update (s_obs s) a OBS_READ else s_obs s.
Proof. exact read_obs. Qed.
Print Assumptions C28_read_marks.

Theorem C28_write_marks : forall e a w c s,
  negb (c_priv c) && negb (in_user a) = false -> (IO_START <=? a) = false -> c_track c = true ->
  s_obs (fst (write_mem e a w c s)) =
  let o := obs_update (s_obs s) a OBS_WRITTEN in
  if word_eqb (mget (s_mem s) a) w then o else obs_update o a OBS_MODIFIED.
Proof. exact write_obs_plain. Qed.
Print Assumptions C28_write_marks.

Theorem C28_untracked_write : forall e a w c s, c_track c = false -> s_obs (fst (write_mem e a w c s)) = s_obs s.
Proof. exact write_obs_untracked. Qed.
Print Assumptions C28_untracked_write.

Theorem C28_lookup_after_update : forall o a f b, sorted_obs o ->
  obs_get (obs_update o a f) b = if b =? a then Z.lor (obs_get o a) f else obs_get o b.
Proof. exact obs_get_update. Qed.
Print Assumptions C28_lookup_after_update.

Theorem C28_update_keeps_sorted : forall o a f, sorted_obs o -> sorted_obs (obs_update o a f).
Proof. exact sorted_update. Qed.
Print Assumptions C28_update_keeps_sorted.

(* whole instructions (after the fetch, which is one tracked read of the PC): instructions
   without a memory operand add nothing, on every path; a completed LD/LDR adds exactly READ at
   its effective address; a completed ST to ordinary memory adds WRITTEN and, iff the word
   changes, MODIFIED *)
Theorem C28_no_operand_no_mark : forall e i o s,
  no_mem_operand i = true -> s_obs s = o -> s_obs (fst (exec e i s)) = o.
Proof. intros e i o s N E. exact (exec_obs_neutral e i o N s E). Qed.
Print Assumptions C28_no_operand_no_mark.

Theorem C28_ld_marks_read : forall e dr off s s' u,
  exec e (SLD dr off) s = (s', inl u) -> s_obs s' = obs_update (s_obs s) (wrap16 (s_pc s + off)) OBS_READ.
Proof. exact exec_obs_ld. Qed.
Print Assumptions C28_ld_marks_read.

Theorem C28_ldr_marks_read : forall e dr br off s s' u,
  exec e (SLDR dr br off) s = (s', inl u) ->
  s_obs s' = obs_update (s_obs s) (wrap16 (w_data (rget (s_regs s) br) + off)) OBS_READ.
Proof. exact exec_obs_ldr. Qed.
Print Assumptions C28_ldr_marks_read.

Theorem C28_st_marks_written : forall e sr off s s' u,
  exec e (SST sr off) s = (s', inl u) ->
  let ea := wrap16 (s_pc s + off) in
  (IO_START <=? ea) = false ->
  s_obs s' = let o := obs_update (s_obs s) ea OBS_WRITTEN in
             if word_eqb (mget (s_mem s) ea) (rget (s_regs s) sr) then o else obs_update o ea OBS_MODIFIED.
Proof. exact exec_obs_st. Qed.
Print Assumptions C28_st_marks_written.

Theorem C28_cleared_every_step : forall e s, step_in e s = step_in e (upd_obs s []).
Proof. reflexivity. Qed.
Print Assumptions C28_cleared_every_step.
